import CedarVerif.Lemmas.SyntaxMain
/-
C05: left-associative chains printed without parentheses (`a + b + c`, `a && b && c`): the chain levels in
"continuation form" (`ChainK`), and the precedence-climbing induction on the larger fragment `inFrag2`.
-/
namespace Cedar.Syntax
open Cedar

/-- after reading `toks`, the chain level is in its loop with accumulator `e`, enough fuel, and `R` still to read -/
def ChainK (opd : P EOS) (opOf : OpOf) (toks : List Token) (e : Expr) (R : List Token) : Prop :=
  ∃ fuel, R.length ≤ fuel ∧
    chainLevel opd opOf (toks ++ R) = (chainLoop opd opOf fuel e R).map (fun r => (EOS.expr r.1, r.2))

theorem chainLoop_step {opd : P EOS} {opOf : OpOf} {tok : Token} {g : Expr → Expr → Expr} {B R : List Token} {sb : EOS}
    {b : Expr} (acc : Expr) (fuel : Nat) (hop : opOf tok = some (some g))
    (hb : opd (B ++ R) = some (sb, R)) (hsb : sb.toExpr = some b) :
    chainLoop opd opOf (fuel + 1) acc (tok :: (B ++ R)) = chainLoop opd opOf fuel (g acc b) R := by
  rw [chainLoop]
  simp only [hop, hb, hsb]

theorem chainLoop_stop {opd : P EOS} {opOf : OpOf} {R : List Token} (acc : Expr) (fuel : Nat)
    (hR : ∀ t r, R = t :: r → opOf t = none) : chainLoop opd opOf fuel acc R = some (acc, R) := by
  cases R with
  | nil => cases fuel <;> simp [chainLoop]
  | cons t r => have := hR t r rfl; cases fuel <;> simp [chainLoop, this]

theorem chainK_node {opd : P EOS} {opOf : OpOf} {tok : Token} {g : Expr → Expr → Expr}
    {L B R : List Token} {sb : EOS} {a b : Expr}
    (hop : opOf tok = some (some g))
    (hb : opd (B ++ R) = some (sb, R)) (hsb : sb.toExpr = some b)
    (hL : (∃ sa, opd (L ++ tok :: (B ++ R)) = some (sa, tok :: (B ++ R)) ∧ sa.toExpr = some a) ∨
          ChainK opd opOf L a (tok :: (B ++ R))) :
    ChainK opd opOf (L ++ tok :: B) (g a b) R := by
  have hassoc : (L ++ tok :: B) ++ R = L ++ tok :: (B ++ R) := by simp
  cases hL with
  | inl h =>
    obtain ⟨sa, ha, hsa⟩ := h
    refine ⟨(B ++ R).length, by simp, ?_⟩
    rw [hassoc]
    unfold chainLevel
    rw [ha]
    simp only [hop, Option.isSome_some, if_true, hsa, List.length_cons]
    rw [chainLoop_step a _ hop hb hsb]
  | inr h =>
    obtain ⟨fuel, hfl, heq⟩ := h
    obtain ⟨m, rfl⟩ : ∃ m, fuel = m + 1 := ⟨fuel - 1, by simp at hfl; omega⟩
    refine ⟨m, by simp at hfl; omega, ?_⟩
    rw [hassoc, heq, chainLoop_step a _ hop hb hsb]

theorem chainK_done {opd : P EOS} {opOf : OpOf} {toks R : List Token} {e : Expr} (h : ChainK opd opOf toks e R)
    (hR : ∀ t r, R = t :: r → opOf t = none) : chainLevel opd opOf (toks ++ R) = some (.expr e, R) := by
  obtain ⟨fuel, _, heq⟩ := h
  rw [heq, chainLoop_stop e fuel hR]
  rfl

/-- The fragment of `parse_print_partial`: literals (Bool, every i64, every string), variables, `!`, unary minus,
`* + - == < <= in`, `&&`, `||`, `if-then-else`, arbitrarily nested, including the left-nested chains the printer
leaves unparenthesised (`a + b + c`, `a && b && c`); `&&`/`||` do not join two Boolean literals (the parser folds
those, so they are not in its image). -/
def inFrag2 : Expr → Bool
  | .lit (.bool _) => true
  | .lit (.int i) => decide (-(Int.ofNat i64Max) - 1 ≤ i ∧ i ≤ Int.ofNat i64Max)
  | .lit (.string _) => true
  | .var _ => true
  | .ite c t e => inFrag2 c && inFrag2 t && inFrag2 e
  | .and a b => inFrag2 a && inFrag2 b && !(isBoolLit a && isBoolLit b)
  | .or a b => inFrag2 a && inFrag2 b && !(isBoolLit a && isBoolLit b)
  | .unaryApp .not a => inFrag2 a
  | .unaryApp .neg a => inFrag2 a
  | .binaryApp op a b => infixOp op && inFrag2 a && inFrag2 b
  | .hasAttr e _ => inFrag2 e
  | _ => false

theorem unreserved_of_normalized {a : String} (h : isNormalizedIdent a = true) : unreservedIdent a = true := by
  simp only [isNormalizedIdent, Bool.and_eq_true] at h
  simp only [unreservedIdent, validIdent, Bool.and_eq_true]
  exact ⟨h.1.2, h.2⟩

theorem continuesAdd_stop {rest : List Token} (h : headLv rest = 7) : continuesAdd rest = false := by
  cases rest with
  | nil => rfl
  | cons t r => cases t <;> simp_all [continuesAdd, headLv, tokLevel]

theorem hasFields_stop {rest : List Token} (h : headLv rest = 7) : hasFields rest = some ([], rest) := by
  cases rest with
  | nil => rfl
  | cons t r => cases t <;> simp_all [hasFields, headLv, tokLevel]

/-- the right-hand side of `has` as printed: a bare identifier when possible, a string literal otherwise -/
theorem hasRhs_key (me : Char → Bool) (a : String) {rest : List Token} (h : headLv rest = 7) :
    hasRhs (keyTok me a :: rest) = some ([a], rest) := by
  unfold keyTok
  cases hn : isNormalizedIdent a
  · simp [hasRhs, strTok, continuesAdd_stop h, strOfRaw_escapeStr]
  · simp only [if_true, hasRhs, unreserved_of_normalized hn]
    cases rest with
    | nil => simp [hasFields, continuesAdd]
    | cons t r =>
      have h1 := hasFields_stop h
      have h2 := continuesAdd_stop h
      cases t <;> simp_all [headLv, tokLevel]

theorem atom_of_noParens2 {e : Expr} (hf : inFrag2 e = true) (hp : needsParens e = false) : isAtom e = true := by
  cases e with
  | lit p => cases p <;> simp_all [isAtom, inFrag2]
  | var v => rfl
  | unaryApp op a => cases op <;> simp_all [inFrag2, needsParens]
  | binaryApp op a b => cases op <;> simp_all [inFrag2, needsParens, infixOp]
  | _ => simp_all [inFrag2, needsParens]

theorem inFrag_of_atom2 {e : Expr} (hf : inFrag2 e = true) (ha : isAtom e = true) : inFrag e = true := by
  cases e with
  | lit p => cases p <;> simp_all [isAtom, inFrag2, inFrag]
  | var v => rfl
  | _ => simp_all [isAtom]

theorem startsPlain_mwp2 (me : Char → Bool) (e : Expr) (hf : inFrag2 e = true) (rest : List Token) :
    startsPlain (paren (needsParens e) (printE me e) ++ rest) = true := by
  cases hp : needsParens e
  · have ha := atom_of_noParens2 hf hp
    have := startsPlain_mwp me e (inFrag_of_atom2 hf ha) rest
    rwa [hp] at this
  · simp [paren, startsPlain]

theorem mwp_member2 (me : Char → Bool) (f : Nat) (e : Expr) (hf : inFrag2 e = true)
    (IH : ∀ rest, headLv rest = 7 → ∃ s, parseFuel (f + 1) (printE me e ++ rest) = some (s, rest) ∧ s.toExpr = some e)
    (rest : List Token) (hr : 1 ≤ headLv rest) :
    ∃ s, member (parseFuel (f + 1)) (paren (needsParens e) (printE me e) ++ rest) = some (s, rest) ∧ s.toExpr = some e := by
  cases hp : needsParens e
  · have ha := atom_of_noParens2 hf hp
    simp only [paren, Bool.false_eq_true, if_false]
    exact atom_member me (parseFuel f) e (inFrag_of_atom2 hf ha) ha rest hr
  · obtain ⟨s, h1, h2⟩ := IH (.rparen :: rest) (by simp [headLv, tokLevel])
    refine ⟨.expr e, member_of_primary ?_ hr, rfl⟩
    simp only [paren, if_true, List.cons_append, List.append_assoc, List.nil_append]
    simp only [primary, h1]
    simp [h2]

def isChain (e : Expr) : Bool := isAnd e || isOr e || isBin .add e || isBin .sub e || isBin .mul e

/-- what the induction carries for an expression `e` parsed with `pe = parseFuel f` -/
structure Good (me : Char → Bool) (e : Expr) (f : Nat) : Prop where
  top : ∀ rest, headLv rest = 7 → ∃ s, parseFuel (f + 1) (printE me e ++ rest) = some (s, rest) ∧ s.toExpr = some e
  kand : isAnd e = true → ∀ R, 4 < headLv R → ChainK (relation (parseFuel f)) andOp (printE me e) e R
  kor : isOr e = true → ∀ R, 5 < headLv R → ChainK (andLevel (parseFuel f)) orOp (printE me e) e R
  kadd : (isBin .add e || isBin .sub e) = true → ∀ R, 2 < headLv R → ChainK (mult (parseFuel f)) addOp (printE me e) e R
  kmul : isBin .mul e = true → ∀ R, 1 ≤ headLv R → ChainK (unary (parseFuel f)) multOp (printE me e) e R
  plain : isChain e = true → ∀ R, startsPlain (printE me e ++ R) = true

theorem good_of_top {me : Char → Bool} {e : Expr} {f : Nat} (hc : isChain e = false)
    (h : ∀ rest, headLv rest = 7 → ∃ s, parseFuel (f + 1) (printE me e ++ rest) = some (s, rest) ∧ s.toExpr = some e) :
    Good me e f := by
  simp only [isChain, Bool.or_eq_false_iff] at hc
  exact ⟨h, by simp [hc], by simp [hc], by simp [hc], by simp [hc], by simp [isChain, hc]⟩

theorem parse_print_aux2 (me : Char → Bool) : ∀ k e, fsize e ≤ k → inFrag2 e = true → ∀ f, fsize e ≤ f → Good me e f := by
  intro k
  induction k with
  | zero => intro e hk; have := fsize_pos e; omega
  | succ k ih =>
    intro e hk hf f hfe
    have W : ∀ a, fsize a < fsize e → inFrag2 a = true → ∀ r, 1 ≤ headLv r →
        ∃ s, member (parseFuel f) (paren (needsParens a) (printE me a) ++ r) = some (s, r) ∧ s.toExpr = some a ∧
          startsPlain (paren (needsParens a) (printE me a) ++ r) = true := by
      intro a ha hfa r hr'
      obtain ⟨f', rfl⟩ : ∃ f', f = f' + 1 := ⟨f - 1, by have := fsize_pos a; omega⟩
      obtain ⟨s, h1, h2⟩ := mwp_member2 me f' a hfa (fun r' hr'' => (ih a (by omega) hfa f' (by omega)).top r' hr'') r hr'
      exact ⟨s, h1, h2, startsPlain_mwp2 me a hfa r⟩
    have S : ∀ a, fsize a < fsize e → inFrag2 a = true → ∀ r, headLv r = 7 →
        ∃ s, parseFuel f (printE me a ++ r) = some (s, r) ∧ s.toExpr = some a := by
      intro a ha hfa r hr'
      obtain ⟨f', rfl⟩ : ∃ f', f = f' + 1 := ⟨f - 1, by have := fsize_pos a; omega⟩
      exact (ih a (by omega) hfa f' (by omega)).top r hr'
    -- the left child of a chain node, at the same fuel
    have G : ∀ a, fsize a < fsize e → inFrag2 a = true → Good me a f := fun a ha hfa => ih a (by omega) hfa f (by omega)
    cases e
    case lit p =>
      refine good_of_top (by rfl) (fun rest hr => ?_)
      have hr1 : 1 ≤ headLv rest := by omega
      have ha : isAtom (.lit p) = true := by cases p <;> simp_all [isAtom, inFrag2]
      obtain ⟨f', rfl⟩ : ∃ f', f = f' + 1 := ⟨f - 1, by simp [fsize] at hfe; omega⟩
      obtain ⟨s, h1, h2⟩ := atom_member me (parseFuel f') _ (inFrag_of_atom2 hf ha) ha rest hr1
      have hs := startsPlain_mwp2 me (.lit p) hf rest
      rw [show needsParens (.lit p) = false from rfl] at hs
      exact ⟨s, m_top h1 hs hr, h2⟩
    case var v =>
      refine good_of_top (by rfl) (fun rest hr => ?_)
      have hr1 : 1 ≤ headLv rest := by omega
      obtain ⟨f', rfl⟩ : ∃ f', f = f' + 1 := ⟨f - 1, by simp [fsize] at hfe; omega⟩
      obtain ⟨s, h1, h2⟩ := atom_member me (parseFuel f') (.var v) rfl rfl rest hr1
      have hs := startsPlain_mwp2 me (.var v) hf rest
      rw [show needsParens (.var v) = false from rfl] at hs
      exact ⟨s, m_top h1 hs hr, h2⟩
    case ite c t e' =>
      refine good_of_top (by rfl) (fun rest hr => ?_)
      simp only [inFrag2, Bool.and_eq_true] at hf
      simp only [fsize] at hfe hk W S
      obtain ⟨sc, hc1, hc2⟩ := S c (by omega) hf.1.1 (.ident "then" :: (printE me t ++ .ident "else" :: (printE me e' ++ rest))) (by simp [headLv, tokLevel])
      obtain ⟨st, ht1, ht2⟩ := S t (by omega) hf.1.2 (.ident "else" :: (printE me e' ++ rest)) (by simp [headLv, tokLevel])
      obtain ⟨se, he1, he2⟩ := S e' (by omega) hf.2 rest hr
      refine ⟨.expr (.ite c t e'), ?_, rfl⟩
      show exprLevel (parseFuel f) _ = _
      simp only [printE, List.cons_append, List.append_assoc]
      simp only [exprLevel, hc1, ht1, he1, hc2, ht2, he2]
    case unaryApp op a =>
      simp only [fsize] at hfe hk W S
      cases op with
      | not =>
        refine good_of_top (by rfl) (fun rest hr => ?_)
        simp only [inFrag2] at hf
        obtain ⟨sa, ha1, ha2, has⟩ := W a (by omega) hf rest (by omega)
        refine ⟨.expr (.unaryApp .not a), ?_, rfl⟩
        show exprLevel (parseFuel f) _ = _
        simp only [printE, List.cons_append]
        have hu : unary (parseFuel f) (.bang :: (paren (needsParens a) (printE me a) ++ rest)) = some (.expr (.unaryApp .not a), rest) := by
          simp only [unary, countBang, countBang_plain has]
          simp [ha1, ha2, applyN]
        exact add_to_top (unary_to_add hu (by omega)) hr (by intro r h; cases h)
      | neg =>
        refine good_of_top (by rfl) (fun rest hr => ?_)
        simp only [inFrag2] at hf
        obtain ⟨sa, ha1, ha2⟩ := S a (by omega) hf (.rparen :: rest) (by simp [headLv, tokLevel])
        refine ⟨.expr (.unaryApp .neg a), ?_, rfl⟩
        show exprLevel (parseFuel f) _ = _
        simp only [printE, List.cons_append, List.append_assoc, List.nil_append]
        have hm : member (parseFuel f) (.lparen :: (printE me a ++ .rparen :: rest)) = some (.expr a, rest) := by
          apply member_of_primary _ (by omega)
          simp only [primary, ha1]
          simp [ha2]
        have hu : unary (parseFuel f) (.minus :: .lparen :: (printE me a ++ .rparen :: rest)) = some (.expr (.unaryApp .neg a), rest) := by
          simp only [unary, countMinus]
          simp [hm, EOS.toExpr, applyN]
        exact add_to_top (unary_to_add hu (by omega)) hr (by intro r h; cases h)
      | isEmpty => simp [inFrag2] at hf
    case and a b =>
      simp only [inFrag2, Bool.and_eq_true, Bool.not_eq_true'] at hf
      simp only [fsize] at hfe hk W S G
      obtain ⟨⟨hfa, hfb⟩, hlit⟩ := hf
      have Ga := G a (by omega) hfa
      have K : ∀ R, 4 < headLv R → ChainK (relation (parseFuel f)) andOp (printE me (.and a b)) (.and a b) R := by
        intro R hR
        obtain ⟨sb, hb1, hb2, hbs⟩ := W b (by omega) hfb R (by omega)
        have hB := m_rel hb1 hbs hR
        cases hs : isAnd a
        · obtain ⟨sa, ha1, ha2, has⟩ := W a (by omega) hfa (.andand :: (paren (needsParens b) (printE me b) ++ R)) (by simp [headLv, tokLevel])
          have := chainK_node (opOf := andOp) (tok := .andand) (g := mkAnd) (L := paren (needsParens a) (printE me a)) rfl hB hb2
            (Or.inl ⟨sa, m_rel ha1 has (by simp [headLv, tokLevel]), ha2⟩)
          rw [mkAnd_eq hlit] at this
          simpa [printE, hs] using this
        · have := chainK_node (opOf := andOp) (tok := .andand) (g := mkAnd) (L := printE me a) rfl hB hb2
            (Or.inr (Ga.kand hs _ (by simp [headLv, tokLevel])))
          rw [mkAnd_eq hlit] at this
          simpa [printE, hs, paren] using this
      have Pl : ∀ R, startsPlain (printE me (.and a b) ++ R) = true := by
        intro R
        cases hs : isAnd a
        · have := startsPlain_mwp2 me a hfa (.andand :: (paren (needsParens b) (printE me b) ++ R))
          simpa [printE, hs, List.append_assoc] using this
        · have := Ga.plain (by simp [isChain, hs]) (.andand :: (paren (needsParens b) (printE me b) ++ R))
          simpa [printE, hs, paren, List.append_assoc] using this
      refine ⟨fun rest hr => ?_, fun _ => K, by simp [isOr], by simp [isBin], by simp [isBin], fun _ => Pl⟩
      have h := chainK_done (K rest (by omega)) (stop_of_seven (fun t h => andOp_none (by omega)) hr)
      refine ⟨.expr (.and a b), ?_, rfl⟩
      show exprLevel (parseFuel f) _ = _
      rw [to_expr (not_if_of_plain (Pl rest))]
      exact to_or h (by omega)
    case or a b =>
      simp only [inFrag2, Bool.and_eq_true, Bool.not_eq_true'] at hf
      simp only [fsize] at hfe hk W S G
      obtain ⟨⟨hfa, hfb⟩, hlit⟩ := hf
      have Ga := G a (by omega) hfa
      have K : ∀ R, 5 < headLv R → ChainK (andLevel (parseFuel f)) orOp (printE me (.or a b)) (.or a b) R := by
        intro R hR
        obtain ⟨sb, hb1, hb2, hbs⟩ := W b (by omega) hfb R (by omega)
        have hB := m_and hb1 hbs hR
        cases hs : isOr a
        · obtain ⟨sa, ha1, ha2, has⟩ := W a (by omega) hfa (.oror :: (paren (needsParens b) (printE me b) ++ R)) (by simp [headLv, tokLevel])
          have := chainK_node (opOf := orOp) (tok := .oror) (g := mkOr) (L := paren (needsParens a) (printE me a)) rfl hB hb2
            (Or.inl ⟨sa, m_and ha1 has (by simp [headLv, tokLevel]), ha2⟩)
          rw [mkOr_eq hlit] at this
          simpa [printE, hs] using this
        · have := chainK_node (opOf := orOp) (tok := .oror) (g := mkOr) (L := printE me a) rfl hB hb2
            (Or.inr (Ga.kor hs _ (by simp [headLv, tokLevel])))
          rw [mkOr_eq hlit] at this
          simpa [printE, hs, paren] using this
      have Pl : ∀ R, startsPlain (printE me (.or a b) ++ R) = true := by
        intro R
        cases hs : isOr a
        · have := startsPlain_mwp2 me a hfa (.oror :: (paren (needsParens b) (printE me b) ++ R))
          simpa [printE, hs, List.append_assoc] using this
        · have := Ga.plain (by simp [isChain, hs]) (.oror :: (paren (needsParens b) (printE me b) ++ R))
          simpa [printE, hs, paren, List.append_assoc] using this
      refine ⟨fun rest hr => ?_, by simp [isAnd], fun _ => K, by simp [isBin], by simp [isBin], fun _ => Pl⟩
      have h := chainK_done (K rest (by omega)) (stop_of_seven (fun t h => orOp_none h) hr)
      refine ⟨.expr (.or a b), ?_, rfl⟩
      show exprLevel (parseFuel f) _ = _
      rw [to_expr (not_if_of_plain (Pl rest))]
      exact h
    case binaryApp op a b =>
      simp only [inFrag2, Bool.and_eq_true] at hf
      simp only [fsize] at hfe hk W S G
      obtain ⟨⟨hop, hfa⟩, hfb⟩ := hf
      have Ga := G a (by omega) hfa
      have Wa := fun tok R (h : 1 ≤ tokLevel tok) => W a (by omega) hfa (tok :: (paren (needsParens b) (printE me b) ++ R)) (by simpa [headLv] using h)
      cases op <;> simp [infixOp] at hop
      case eq =>
        refine good_of_top (by rfl) (fun rest hr => ?_)
        obtain ⟨sb, hb1, hb2, hbs⟩ := W b (by omega) hfb rest (by omega)
        obtain ⟨sa, ha1, ha2, has⟩ := Wa .eqeq rest (by simp [tokLevel])
        refine ⟨.expr (.binaryApp .eq a b), ?_, rfl⟩
        show exprLevel (parseFuel f) _ = _
        simp only [printE, infixTok, List.append_assoc]
        have h := rel_one (tok := .eqeq) (by simp) rfl (m_add ha1 has (by simp [headLv, tokLevel])) ha2 (m_add hb1 hbs (by omega)) hb2 hr
        rw [to_expr (not_if_of_plain (by simpa [List.append_assoc] using has))]
        exact to_or (to_and h (by omega)) (by omega)
      case less =>
        refine good_of_top (by rfl) (fun rest hr => ?_)
        obtain ⟨sb, hb1, hb2, hbs⟩ := W b (by omega) hfb rest (by omega)
        obtain ⟨sa, ha1, ha2, has⟩ := Wa .lt rest (by simp [tokLevel])
        refine ⟨.expr (.binaryApp .less a b), ?_, rfl⟩
        show exprLevel (parseFuel f) _ = _
        simp only [printE, infixTok, List.append_assoc]
        have h := rel_one (tok := .lt) (by simp) rfl (m_add ha1 has (by simp [headLv, tokLevel])) ha2 (m_add hb1 hbs (by omega)) hb2 hr
        rw [to_expr (not_if_of_plain (by simpa [List.append_assoc] using has))]
        exact to_or (to_and h (by omega)) (by omega)
      case lessEq =>
        refine good_of_top (by rfl) (fun rest hr => ?_)
        obtain ⟨sb, hb1, hb2, hbs⟩ := W b (by omega) hfb rest (by omega)
        obtain ⟨sa, ha1, ha2, has⟩ := Wa .le rest (by simp [tokLevel])
        refine ⟨.expr (.binaryApp .lessEq a b), ?_, rfl⟩
        show exprLevel (parseFuel f) _ = _
        simp only [printE, infixTok, List.append_assoc]
        have h := rel_one (tok := .le) (by simp) rfl (m_add ha1 has (by simp [headLv, tokLevel])) ha2 (m_add hb1 hbs (by omega)) hb2 hr
        rw [to_expr (not_if_of_plain (by simpa [List.append_assoc] using has))]
        exact to_or (to_and h (by omega)) (by omega)
      case mem =>
        refine good_of_top (by rfl) (fun rest hr => ?_)
        obtain ⟨sb, hb1, hb2, hbs⟩ := W b (by omega) hfb rest (by omega)
        obtain ⟨sa, ha1, ha2, has⟩ := Wa (.ident "in") rest (by simp [tokLevel])
        refine ⟨.expr (.binaryApp .mem a b), ?_, rfl⟩
        show exprLevel (parseFuel f) _ = _
        simp only [printE, infixTok, List.append_assoc]
        have h := rel_one (tok := .ident "in") (by simp) rfl (m_add ha1 has (by simp [headLv, tokLevel])) ha2 (m_add hb1 hbs (by omega)) hb2 hr
        rw [to_expr (not_if_of_plain (by simpa [List.append_assoc] using has))]
        exact to_or (to_and h (by omega)) (by omega)
      case add =>
        have K : ∀ R, 2 < headLv R → ChainK (mult (parseFuel f)) addOp (printE me (.binaryApp .add a b)) (.binaryApp .add a b) R := by
          intro R hR
          obtain ⟨sb, hb1, hb2, hbs⟩ := W b (by omega) hfb R (by omega)
          have hB := m_mult hb1 hbs hR
          cases hs : isBin .add a
          · obtain ⟨sa, ha1, ha2, has⟩ := Wa .plus R (by simp [tokLevel])
            have := chainK_node (opOf := addOp) (tok := .plus) (L := paren (needsParens a) (printE me a)) rfl hB hb2
              (Or.inl ⟨sa, m_mult ha1 has (by simp [headLv, tokLevel]), ha2⟩)
            simpa [printE, infixTok, hs] using this
          · have := chainK_node (opOf := addOp) (tok := .plus) (L := printE me a) rfl hB hb2
              (Or.inr (Ga.kadd (by simp [hs]) _ (by simp [headLv, tokLevel])))
            simpa [printE, infixTok, hs, paren] using this
        have Pl : ∀ R, startsPlain (printE me (.binaryApp .add a b) ++ R) = true := by
          intro R
          cases hs : isBin .add a
          · have := startsPlain_mwp2 me a hfa (.plus :: (paren (needsParens b) (printE me b) ++ R))
            simpa [printE, infixTok, hs, List.append_assoc] using this
          · have := Ga.plain (by simp [isChain, hs]) (.plus :: (paren (needsParens b) (printE me b) ++ R))
            simpa [printE, infixTok, hs, paren, List.append_assoc] using this
        refine ⟨fun rest hr => ?_, by simp [isAnd], by simp [isOr], fun _ => K, by simp [isBin], fun _ => Pl⟩
        have h := chainK_done (K rest (by omega)) (stop_of_seven (fun t h => addOp_none (by omega)) hr)
        exact ⟨.expr (.binaryApp .add a b), add_to_top h hr (not_if_of_plain (Pl rest)), rfl⟩
      case sub =>
        have K : ∀ R, 2 < headLv R → ChainK (mult (parseFuel f)) addOp (printE me (.binaryApp .sub a b)) (.binaryApp .sub a b) R := by
          intro R hR
          obtain ⟨sb, hb1, hb2, hbs⟩ := W b (by omega) hfb R (by omega)
          have hB := m_mult hb1 hbs hR
          cases hs : isBin .sub a
          · obtain ⟨sa, ha1, ha2, has⟩ := Wa .minus R (by simp [tokLevel])
            have := chainK_node (opOf := addOp) (tok := .minus) (L := paren (needsParens a) (printE me a)) rfl hB hb2
              (Or.inl ⟨sa, m_mult ha1 has (by simp [headLv, tokLevel]), ha2⟩)
            simpa [printE, infixTok, hs] using this
          · have := chainK_node (opOf := addOp) (tok := .minus) (L := printE me a) rfl hB hb2
              (Or.inr (Ga.kadd (by simp [hs]) _ (by simp [headLv, tokLevel])))
            simpa [printE, infixTok, hs, paren] using this
        have Pl : ∀ R, startsPlain (printE me (.binaryApp .sub a b) ++ R) = true := by
          intro R
          cases hs : isBin .sub a
          · have := startsPlain_mwp2 me a hfa (.minus :: (paren (needsParens b) (printE me b) ++ R))
            simpa [printE, infixTok, hs, List.append_assoc] using this
          · have := Ga.plain (by simp [isChain, hs]) (.minus :: (paren (needsParens b) (printE me b) ++ R))
            simpa [printE, infixTok, hs, paren, List.append_assoc] using this
        refine ⟨fun rest hr => ?_, by simp [isAnd], by simp [isOr], fun _ => K, by simp [isBin], fun _ => Pl⟩
        have h := chainK_done (K rest (by omega)) (stop_of_seven (fun t h => addOp_none (by omega)) hr)
        exact ⟨.expr (.binaryApp .sub a b), add_to_top h hr (not_if_of_plain (Pl rest)), rfl⟩
      case mul =>
        have K : ∀ R, 1 ≤ headLv R → ChainK (unary (parseFuel f)) multOp (printE me (.binaryApp .mul a b)) (.binaryApp .mul a b) R := by
          intro R hR
          obtain ⟨sb, hb1, hb2, hbs⟩ := W b (by omega) hfb R hR
          have hB := m_unary hb1 hbs
          cases hs : isBin .mul a
          · obtain ⟨sa, ha1, ha2, has⟩ := Wa .star R (by simp [tokLevel])
            have := chainK_node (opOf := multOp) (tok := .star) (L := paren (needsParens a) (printE me a)) rfl hB hb2
              (Or.inl ⟨sa, m_unary ha1 has, ha2⟩)
            simpa [printE, infixTok, hs] using this
          · have := chainK_node (opOf := multOp) (tok := .star) (L := printE me a) rfl hB hb2
              (Or.inr (Ga.kmul hs _ (by simp [headLv, tokLevel])))
            simpa [printE, infixTok, hs, paren] using this
        have Pl : ∀ R, startsPlain (printE me (.binaryApp .mul a b) ++ R) = true := by
          intro R
          cases hs : isBin .mul a
          · have := startsPlain_mwp2 me a hfa (.star :: (paren (needsParens b) (printE me b) ++ R))
            simpa [printE, infixTok, hs, List.append_assoc] using this
          · have := Ga.plain (by simp [isChain, hs]) (.star :: (paren (needsParens b) (printE me b) ++ R))
            simpa [printE, infixTok, hs, paren, List.append_assoc] using this
        refine ⟨fun rest hr => ?_, by simp [isAnd], by simp [isOr], by simp [isBin], fun _ => K, fun _ => Pl⟩
        have h := chainK_done (K rest (by omega)) (stop_of_seven (fun t h => multOp_none (by omega)) hr)
        exact ⟨.expr (.binaryApp .mul a b), add_to_top (to_add h (by omega)) hr (not_if_of_plain (Pl rest)), rfl⟩
    case hasAttr e' a =>
      refine good_of_top (by rfl) (fun rest hr => ?_)
      simp only [inFrag2] at hf
      simp only [fsize] at hfe hk W S
      obtain ⟨sa, ha1, ha2, has⟩ := W e' (by omega) hf (.ident "has" :: keyTok me a :: rest) (by simp [headLv, tokLevel])
      have hA := m_add ha1 has (by simp [headLv, tokLevel])
      refine ⟨.expr (.hasAttr e' a), ?_, rfl⟩
      show exprLevel (parseFuel f) _ = _
      simp only [printE, List.append_assoc, List.cons_append, List.nil_append]
      have hrel : relation (parseFuel f) (paren (needsParens e') (printE me e') ++ .ident "has" :: keyTok me a :: rest) =
          some (.expr (.hasAttr e' a), rest) := by
        unfold relation
        rw [hA]
        simp [ha2, hasRhs_key me a hr, extendedHas]
      rw [to_expr (not_if_of_plain has)]
      exact to_or (to_and hrel (by omega)) (by omega)
    all_goals (simp [inFrag2] at hf)

theorem paren_length_ge (b : Bool) (ts : List Token) : ts.length ≤ (paren b ts).length := by
  cases b <;> simp [paren] <;> omega

theorem fsize_le_length (me : Char → Bool) : ∀ k e, fsize e ≤ k → inFrag2 e = true → fsize e ≤ (printE me e).length := by
  intro k
  induction k with
  | zero => intro e hk; have := fsize_pos e; omega
  | succ k ih =>
    intro e hk hf
    cases e
    case lit p => cases p <;> simp [fsize, printE] ; split <;> simp
    case var v => simp [fsize, printE]
    case ite c t e' =>
      simp only [inFrag2, Bool.and_eq_true] at hf
      simp only [fsize] at hk ⊢
      have h1 := ih c (by omega) hf.1.1
      have h2 := ih t (by omega) hf.1.2
      have h3 := ih e' (by omega) hf.2
      simp only [printE, List.length_cons, List.length_append]
      omega
    case and a b =>
      simp only [inFrag2, Bool.and_eq_true] at hf
      simp only [fsize] at hk ⊢
      have h1 := ih a (by omega) hf.1.1
      have h2 := ih b (by omega) hf.1.2
      have p1 := paren_length_ge (needsParens a && !isAnd a) (printE me a)
      have p2 := paren_length_ge (needsParens b) (printE me b)
      simp only [printE, List.length_cons, List.length_append]
      omega
    case or a b =>
      simp only [inFrag2, Bool.and_eq_true] at hf
      simp only [fsize] at hk ⊢
      have h1 := ih a (by omega) hf.1.1
      have h2 := ih b (by omega) hf.1.2
      have p1 := paren_length_ge (needsParens a && !isOr a) (printE me a)
      have p2 := paren_length_ge (needsParens b) (printE me b)
      simp only [printE, List.length_cons, List.length_append]
      omega
    case unaryApp op a =>
      simp only [fsize] at hk ⊢
      cases op with
      | not =>
        simp only [inFrag2] at hf
        have h1 := ih a (by omega) hf
        have p1 := paren_length_ge (needsParens a) (printE me a)
        simp only [printE, List.length_cons]
        omega
      | neg =>
        simp only [inFrag2] at hf
        have h1 := ih a (by omega) hf
        simp only [printE, List.length_cons, List.length_append, List.length_nil]
        omega
      | isEmpty => simp [inFrag2] at hf
    case binaryApp op a b =>
      simp only [inFrag2, Bool.and_eq_true] at hf
      simp only [fsize] at hk ⊢
      have h1 := ih a (by omega) hf.1.2
      have h2 := ih b (by omega) hf.2
      have p2 := paren_length_ge (needsParens b) (printE me b)
      have p1 := paren_length_ge (needsParens a) (printE me a)
      have p1' := paren_length_ge (needsParens a && !isBin op a) (printE me a)
      have hop := hf.1.1
      cases op <;> simp [infixOp] at hop <;> simp only [printE, List.length_cons, List.length_append] <;> omega
    case hasAttr e' a =>
      simp only [inFrag2] at hf
      simp only [fsize] at hk ⊢
      have h1 := ih e' (by omega) hf
      have p1 := paren_length_ge (needsParens e') (printE me e')
      simp only [printE, List.length_cons, List.length_append, List.length_nil]
      omega
    all_goals (simp [inFrag2] at hf)


end Cedar.Syntax
