import CedarVerif.Lemmas.BatchedSound
/- C15 helpers: PROGRESS of the loop.  Under a concrete request and a store all of whose entities are fully known
   (`pentityOf` always builds such entities), every `Partial` residual `interpret` returns mentions an entity id that is
   not in the store — so a round that is not the last one asks the loader for at least one new id. -/
namespace Cedar.Batched
open Cedar Cedar.Tpe

/-- principal, resource and context of the partial request are known (`concrete_request_to_partial`) -/
def ConcreteReq (preq : Tpe.PRequest) : Prop :=
  preq.principal.eid.isSome = true ∧ preq.resource.eid.isSome = true ∧ preq.context.isSome = true

/-- every entity of the partial store has all three components known -/
def FullyKnown (pes : Tpe.PEntities) : Prop :=
  ∀ u p, pes.find? u = some p → p.attrs.isSome = true ∧ p.ancestors.isSome = true ∧ p.tags.isSome = true

/-- the residual mentions an id that is not loaded -/
def Unloaded (pes : Tpe.PEntities) (r : Residual) : Prop := ∃ u, u ∈ r.uids ∧ pes.contains u = false

variable {preq : Tpe.PRequest} {pes : Tpe.PEntities}

theorem loadedFrom_fullyKnown {es : Entities} (h : LoadedFrom es pes) : FullyKnown pes := by
  intro u p hp
  rw [h u p hp]
  cases es.find? u <;> simp [pentityOf]

theorem prequestOf_concrete (q : Request) : ConcreteReq (prequestOf q) := ⟨rfl, rfl, rfl⟩

theorem unloaded_of_sub {a b : Residual} (h : ∀ u, u ∈ a.uids → u ∈ b.uids) (ha : Unloaded pes a) : Unloaded pes b := by
  obtain ⟨u, hu, hc⟩ := ha; exact ⟨u, h u hu, hc⟩

theorem attrs_none (hK : FullyKnown pes) {u : EntityUID} (h : pes.attrs? u = none) : pes.contains u = false := by
  unfold Tpe.PEntities.attrs? at h
  unfold Tpe.PEntities.contains
  cases hp : pes.find? u with
  | none => rfl
  | some p =>
    have := (hK u p hp).1
    rw [hp] at h; simp only [Option.bind_some] at h
    rw [h] at this; cases this

theorem ancestors_none (hK : FullyKnown pes) {u : EntityUID} (h : pes.ancestors? u = none) : pes.contains u = false := by
  unfold Tpe.PEntities.ancestors? at h
  unfold Tpe.PEntities.contains
  cases hp : pes.find? u with
  | none => rfl
  | some p =>
    have := (hK u p hp).2.1
    rw [hp] at h; simp only [Option.bind_some] at h
    rw [h] at this; cases this

theorem tags_none (hK : FullyKnown pes) {u : EntityUID} (h : pes.tags? u = none) : pes.contains u = false := by
  unfold Tpe.PEntities.tags? at h
  unfold Tpe.PEntities.contains
  cases hp : pes.find? u with
  | none => rfl
  | some p =>
    have := (hK u p hp).2.2
    rw [hp] at h; simp only [Option.bind_some] at h
    rw [h] at this; cases this

theorem ofResult_not_partial (ty : Ty) (x : Result Value) : (ofResult ty x).isPartial = false := by
  cases x <;> rfl

theorem asEntity_eq_ok {v : Value} {u : EntityUID} (h : v.asEntity = .ok u) : v = .prim (.entityUID u) := by
  cases v with
  | prim p => cases p <;> simp [Value.asEntity] at h; subst h; rfl
  | _ => simp [Value.asEntity] at h

/-- a `(Concrete, Concrete)` binary application stays a residual only for want of ancestors / tags of its left operand -/
theorem interpretBinary_partial {ty : Ty} {op : BinaryOp} {v1 v2 : Value} {a1 a2 : Residual}
    (h : (interpretBinary pes ty op v1 v2 a1 a2).isPartial = true) :
    ∃ u, v1 = .prim (.entityUID u) ∧ (pes.ancestors? u = none ∨ pes.tags? u = none) := by
  by_cases hop : storeFreeOp op = true
  · have : interpretBinary pes ty op v1 v2 a1 a2 = ofResult ty (applyBinary [] op v1 v2) := by
      cases op <;> first | (simp [storeFreeOp] at hop; done) | rfl
    rw [this, ofResult_not_partial] at h; cases h
  · cases op <;> simp [storeFreeOp] at hop
    · -- `in`
      unfold interpretBinary at h
      simp only at h
      cases h1 : v1.asEntity with
      | error e => rw [h1] at h; simp [Residual.isPartial] at h
      | ok u1 =>
        rw [h1] at h; simp only at h
        refine ⟨u1, asEntity_eq_ok h1, Or.inl ?_⟩
        cases ha : pes.ancestors? u1 with
        | none => rfl
        | some anc =>
          exfalso
          rw [ha] at h
          cases h2 : v2.asEntity with
          | ok u2 =>
            rw [h2] at h; simp only at h
            split at h <;> simp [mkBool, Residual.isPartial] at h
          | error e =>
            rw [h2] at h; simp only at h
            cases h3 : asEntitySet v2 with
            | error e => rw [h3] at h; simp [Residual.isPartial] at h
            | ok uids =>
              rw [h3] at h
              simp only [Option.isNone_some, Bool.and_false, Bool.false_eq_true, if_false] at h
              split at h <;> simp [mkBool, Residual.isPartial] at h
    · -- `getTag`
      unfold interpretBinary at h
      simp only at h
      cases h1 : v1.asEntity with
      | error e => rw [h1] at h; simp [Residual.isPartial] at h
      | ok u1 =>
        rw [h1] at h; simp only at h
        refine ⟨u1, asEntity_eq_ok h1, Or.inr ?_⟩
        cases h2 : v2.asString with
        | error e => rw [h2] at h; simp [Residual.isPartial] at h
        | ok tag =>
          rw [h2] at h; simp only at h
          cases ht : pes.tags? u1 with
          | none => rfl
          | some tags =>
            rw [ht] at h; simp only at h
            cases hl : lookupKV tags tag <;> rw [hl] at h <;> simp [Residual.isPartial] at h
    · -- `hasTag`
      unfold interpretBinary at h
      simp only at h
      cases h1 : v1.asEntity with
      | error e => rw [h1] at h; simp [Residual.isPartial] at h
      | ok u1 =>
        rw [h1] at h; simp only at h
        refine ⟨u1, asEntity_eq_ok h1, Or.inr ?_⟩
        cases h2 : v2.asString with
        | error e => rw [h2] at h; simp [Residual.isPartial] at h
        | ok tag =>
          rw [h2] at h; simp only at h
          cases ht : pes.tags? u1 with
          | none => rfl
          | some tags => rw [ht] at h; simp [mkBool, Residual.isPartial] at h

theorem interpretBinary_shape {ty : Ty} {op : BinaryOp} {v1 v2 : Value} {a1 a2 : Residual}
    (h : (interpretBinary pes ty op v1 v2 a1 a2).isPartial = true) :
    interpretBinary pes ty op v1 v2 a1 a2 = .part (.binaryApp op a1 a2) ty := by
  have resid_or : ∀ r : Residual, r.isPartial = true →
      (r = .part (.binaryApp op a1 a2) ty ∨ r.isPartial = false) → r = .part (.binaryApp op a1 a2) ty := by
    intro r hr h'
    rcases h' with h' | h'
    · exact h'
    · rw [h'] at hr; cases hr
  apply resid_or _ h
  unfold interpretBinary
  cases op <;> simp only <;> (repeat' split) <;>
    first
    | (left; rfl)
    | (right; rfl)
    | (right; exact ofResult_not_partial _ _)

theorem mem_uidsList {rs : List Residual} {r : Residual} (hr : r ∈ rs) {u : EntityUID} (hu : u ∈ r.uids) :
    u ∈ Residual.uidsList rs := by
  induction rs with
  | nil => cases hr
  | cons a l ih =>
    simp only [Residual.uidsList, List.mem_append]
    rcases List.mem_cons.mp hr with rfl | hr
    · exact Or.inl hu
    · exact Or.inr (ih hr)

theorem mem_uidsKVs {rs : List (String × Residual)} {kv : String × Residual} (hr : kv ∈ rs) {u : EntityUID} (hu : u ∈ kv.2.uids) :
    u ∈ Residual.uidsKVs rs := by
  induction rs with
  | nil => cases hr
  | cons a l ih =>
    obtain ⟨k, r⟩ := a
    simp only [Residual.uidsKVs, List.mem_append]
    rcases List.mem_cons.mp hr with rfl | hr
    · exact Or.inl hu
    · exact Or.inr (ih hr)

theorem exists_partial {rs : List Residual} (h1 : allConcrete rs = none) (h2 : rs.any Residual.isError = false) :
    ∃ r, r ∈ rs ∧ r.isPartial = true := by
  induction rs with
  | nil => simp [allConcrete] at h1
  | cons a l ih =>
    simp only [List.any_cons, Bool.or_eq_false_iff] at h2
    cases a with
    | part k t => exact ⟨.part k t, by simp, rfl⟩
    | error t => simp [Residual.isError] at h2
    | concrete v t =>
      simp only [allConcrete, Option.map_eq_none_iff] at h1
      obtain ⟨r, hr, hp⟩ := ih h1 h2.2
      exact ⟨r, by simp [hr], hp⟩

theorem exists_partialKVs {rs : List (String × Residual)} (h1 : allConcreteKVs rs = none)
    (h2 : rs.any (fun kv => kv.2.isError) = false) : ∃ kv, kv ∈ rs ∧ kv.2.isPartial = true := by
  induction rs with
  | nil => simp [allConcreteKVs] at h1
  | cons a l ih =>
    obtain ⟨key, a⟩ := a
    simp only [List.any_cons, Bool.or_eq_false_iff] at h2
    cases a with
    | part k t => exact ⟨(key, .part k t), by simp, rfl⟩
    | error t => simp [Residual.isError] at h2
    | concrete v t =>
      simp only [allConcreteKVs, Option.map_eq_none_iff] at h1
      obtain ⟨r, hr, hp⟩ := ih h1 h2.2
      exact ⟨r, by simp [hr], hp⟩

theorem listResult_unloaded {ty : Ty} {rs : List Residual} {onVals : List Value → Residual} {mk : List Residual → RKind}
    (hon : ∀ vals, (onVals vals).isPartial = false) (hmk : ∀ rs, (mk rs).uids = Residual.uidsList rs)
    (ih : ∀ r, r ∈ rs → r.isPartial = true → Unloaded pes r)
    (h : (listResult ty rs onVals mk).isPartial = true) : Unloaded pes (listResult ty rs onVals mk) := by
  unfold listResult at h ⊢
  cases hac : allConcrete rs with
  | some vals => rw [hac] at h; simp only at h; rw [hon] at h; cases h
  | none =>
    rw [hac] at h
    simp only at h ⊢
    cases hany : rs.any Residual.isError with
    | true => rw [hany] at h; simp [Residual.isPartial] at h
    | false =>
      simp only [Bool.false_eq_true, if_false]
      obtain ⟨r, hr, hp⟩ := exists_partial hac hany
      obtain ⟨u, hu, hc⟩ := ih r hr hp
      exact ⟨u, by simp only [Residual.uids, hmk]; exact mem_uidsList hr hu, hc⟩

theorem andResult_unloaded (ty : Ty) (L R : Residual) (hL : L.isPartial = true → Unloaded pes L)
    (hR : R.isPartial = true → Unloaded pes R) (h : (andResult ty L R).isPartial = true) : Unloaded pes (andResult ty L R) := by
  cases L with
  | concrete v t =>
    simp only [andResult] at h ⊢
    cases hv : v.asBool with
    | error e => rw [hv] at h; simp [Residual.isPartial] at h
    | ok b =>
      rw [hv] at h
      cases b
      · simp [mkBool, Residual.isPartial] at h
      · simp only at h ⊢; exact hR h
  | error t => simp [andResult, Residual.isPartial] at h
  | part lk lt =>
    have hl := hL rfl
    have key : ∀ X : Residual, Unloaded pes (.part (.and (.part lk lt) X) ty) := fun X =>
      unloaded_of_sub (fun u hu => by simp only [Residual.uids, RKind.uids, List.mem_append]; exact Or.inl hu) hl
    cases R with
    | concrete w t =>
      simp only [andResult] at h ⊢
      cases hw : w.asBool with
      | error e => exact key _
      | ok b =>
        rw [hw] at h
        cases b
        · cases hce : (Residual.part lk lt).canError
          · simp [hce, mkBool, Residual.isPartial] at h
          · simp only [Bool.not_true, Bool.false_eq_true, if_false]; exact key _
        · exact hl
    | part rk rt => exact key _
    | error t => exact key _

theorem orResult_unloaded (ty : Ty) (L R : Residual) (hL : L.isPartial = true → Unloaded pes L)
    (hR : R.isPartial = true → Unloaded pes R) (h : (orResult ty L R).isPartial = true) : Unloaded pes (orResult ty L R) := by
  cases L with
  | concrete v t =>
    simp only [orResult] at h ⊢
    cases hv : v.asBool with
    | error e => rw [hv] at h; simp [Residual.isPartial] at h
    | ok b =>
      rw [hv] at h
      cases b
      · simp only at h ⊢; exact hR h
      · simp [mkBool, Residual.isPartial] at h
  | error t => simp [orResult, Residual.isPartial] at h
  | part lk lt =>
    have hl := hL rfl
    have key : ∀ X : Residual, Unloaded pes (.part (.or (.part lk lt) X) ty) := fun X =>
      unloaded_of_sub (fun u hu => by simp only [Residual.uids, RKind.uids, List.mem_append]; exact Or.inl hu) hl
    cases R with
    | concrete w t =>
      simp only [orResult] at h ⊢
      cases hw : w.asBool with
      | error e => exact key _
      | ok b =>
        rw [hw] at h
        cases b
        · exact hl
        · cases hce : (Residual.part lk lt).canError
          · simp [hce, mkBool, Residual.isPartial] at h
          · simp only [Bool.not_true, Bool.false_eq_true, if_false]; exact key _
    | part rk rt => exact key _
    | error t => exact key _

theorem iteResult_unloaded (ty : Ty) (C T E : Residual) (hC : C.isPartial = true → Unloaded pes C)
    (hT : T.isPartial = true → Unloaded pes T) (hE : E.isPartial = true → Unloaded pes E)
    (h : (iteResult ty C T E).isPartial = true) : Unloaded pes (iteResult ty C T E) := by
  cases C with
  | concrete v t =>
    simp only [iteResult] at h ⊢
    cases hv : v.asBool with
    | error e => rw [hv] at h; simp [Residual.isPartial] at h
    | ok b =>
      rw [hv] at h
      cases b
      · simp only at h ⊢; exact hE h
      · simp only at h ⊢; exact hT h
  | error t => simp [iteResult, Residual.isPartial] at h
  | part ck ct =>
    exact unloaded_of_sub (fun u hu => by simp only [iteResult, Residual.uids, RKind.uids, List.mem_append]; exact Or.inl (Or.inl hu))
      (hC rfl)

/-- **progress**: under a concrete request and a fully known store, a `Partial` result of `interpret` mentions an id that
    is not in the store -/
theorem interpret_partial_unloaded (hreq : ConcreteReq preq) (hK : FullyKnown pes) (r : Residual) :
    (interpret preq pes r).isPartial = true → Unloaded pes (interpret preq pes r) := by
  induction Residual.all r with
  | concrete v ty => intro h; simp [interpret, Residual.isPartial] at h
  | error ty => intro h; simp [interpret, Residual.isPartial] at h
  | var x ty =>
    intro h
    exfalso
    rw [interpret] at h
    obtain ⟨h1, h2, h3⟩ := hreq
    cases x
    · rw [interpretKind] at h
      cases hp : preq.principal.eid with
      | none => rw [hp] at h1; cases h1
      | some i => simp [PUid.uid?, hp, Residual.isPartial] at h
    · simp [interpretKind, Residual.isPartial] at h
    · rw [interpretKind] at h
      cases hp : preq.resource.eid with
      | none => rw [hp] at h2; cases h2
      | some i => simp [PUid.uid?, hp, Residual.isPartial] at h
    · rw [interpretKind] at h
      cases hp : preq.context with
      | none => rw [hp] at h3; cases h3
      | some c => simp [hp, Residual.isPartial] at h
  | @and l r ty _ _ ihl ihr =>
    rw [interpret, interpretKind_and]
    exact andResult_unloaded ty _ _ ihl ihr
  | @or l r ty _ _ ihl ihr =>
    rw [interpret, interpretKind_or]
    exact orResult_unloaded ty _ _ ihl ihr
  | @ite c t e ty _ _ _ ihc iht ihe =>
    rw [interpret, interpretKind_ite]
    exact iteResult_unloaded ty _ _ _ ihc iht ihe
  | @unary op a ty _ ih =>
    rw [interpret, interpretKind_unary]
    intro h
    cases hA : interpret preq pes a with
    | concrete v t => rw [hA] at h; simp only [unaryResult] at h; rw [ofResult_not_partial] at h; cases h
    | error t => rw [hA] at h; simp [unaryResult, Residual.isPartial] at h
    | part k t =>
      rw [hA] at ih
      exact unloaded_of_sub (fun u hu => by simpa [unaryResult, getAttrResult, hasAttrResult, likeResult, Residual.uids, RKind.uids] using hu) (ih rfl)
  | @binary op a b ty _ _ iha ihb =>
    rw [interpret, interpretKind_binary]
    intro h
    have generic : ∀ A B : Residual, (A.isPartial = true → Unloaded pes A) → (B.isPartial = true → Unloaded pes B) →
        (A.isPartial = true ∨ B.isPartial = true) → Unloaded pes (.part (.binaryApp op A B) ty) := by
      intro A B hA hB hor
      rcases hor with hp | hp
      · exact unloaded_of_sub (fun u hu => by simp only [Residual.uids, RKind.uids, List.mem_append]; exact Or.inl hu) (hA hp)
      · exact unloaded_of_sub (fun u hu => by simp only [Residual.uids, RKind.uids, List.mem_append]; exact Or.inr hu) (hB hp)
    cases hA : interpret preq pes a with
    | error t => rw [hA] at h; simp [binaryResult, Residual.isPartial] at h
    | concrete v1 t1 =>
      cases hB : interpret preq pes b with
      | error t => rw [hA, hB] at h; simp [binaryResult, Residual.isPartial] at h
      | concrete v2 t2 =>
        rw [hA, hB] at h
        simp only [binaryResult] at h ⊢
        obtain ⟨u, hv1, hnone⟩ := interpretBinary_partial h
        rw [interpretBinary_shape h]
        refine ⟨u, by subst hv1; simp [Residual.uids, RKind.uids, valueUids], ?_⟩
        rcases hnone with hn | hn
        · exact ancestors_none hK hn
        · exact tags_none hK hn
      | part k t =>
        rw [hA] at iha; rw [hB] at ihb
        exact generic _ _ iha ihb (Or.inr rfl)
    | part k t =>
      cases hB : interpret preq pes b with
      | error t2 => rw [hA, hB] at h; simp [binaryResult, Residual.isPartial] at h
      | concrete v2 t2 => rw [hA] at iha; rw [hB] at ihb; exact generic _ _ iha ihb (Or.inl rfl)
      | part k2 t2 => rw [hA] at iha; rw [hB] at ihb; exact generic _ _ iha ihb (Or.inl rfl)
  | @getAttr e a ty _ ih =>
    rw [interpret, interpretKind_getAttr]
    intro h
    cases hA : interpret preq pes e with
    | error t => rw [hA] at h; simp [getAttrResult, Residual.isPartial] at h
    | part k t =>
      rw [hA] at ih
      exact unloaded_of_sub (fun u hu => by simpa [unaryResult, getAttrResult, hasAttrResult, likeResult, Residual.uids, RKind.uids] using hu) (ih rfl)
    | concrete v t =>
      rw [hA] at h
      cases v with
      | record kvs => simp only [getAttrResult] at h; split at h <;> simp [Residual.isPartial] at h
      | set vs => simp [getAttrResult, Residual.isPartial] at h
      | ext x => simp [getAttrResult, Residual.isPartial] at h
      | prim p =>
        cases p with
        | entityUID u =>
          simp only [getAttrResult] at h ⊢
          cases ha : pes.attrs? u with
          | none => exact ⟨u, by simp [Residual.uids, RKind.uids, valueUids], attrs_none hK ha⟩
          | some attrs => rw [ha] at h; simp only at h; split at h <;> simp [Residual.isPartial] at h
        | bool b => simp [getAttrResult, Residual.isPartial] at h
        | int i => simp [getAttrResult, Residual.isPartial] at h
        | string s => simp [getAttrResult, Residual.isPartial] at h
  | @hasAttr e a ty _ ih =>
    rw [interpret, interpretKind_hasAttr]
    intro h
    cases hA : interpret preq pes e with
    | error t => rw [hA] at h; simp [hasAttrResult, Residual.isPartial] at h
    | part k t =>
      rw [hA] at ih
      exact unloaded_of_sub (fun u hu => by simpa [unaryResult, getAttrResult, hasAttrResult, likeResult, Residual.uids, RKind.uids] using hu) (ih rfl)
    | concrete v t =>
      rw [hA] at h
      cases v with
      | record kvs => simp [hasAttrResult, mkBool, Residual.isPartial] at h
      | set vs => simp [hasAttrResult, Residual.isPartial] at h
      | ext x => simp [hasAttrResult, Residual.isPartial] at h
      | prim p =>
        cases p with
        | entityUID u =>
          simp only [hasAttrResult] at h ⊢
          cases ha : pes.attrs? u with
          | none => exact ⟨u, by simp [Residual.uids, RKind.uids, valueUids], attrs_none hK ha⟩
          | some attrs => rw [ha] at h; simp [mkBool, Residual.isPartial] at h
        | bool b => simp [hasAttrResult, Residual.isPartial] at h
        | int i => simp [hasAttrResult, Residual.isPartial] at h
        | string s => simp [hasAttrResult, Residual.isPartial] at h
  | @like e p ty _ ih =>
    rw [interpret, interpretKind_like]
    intro h
    cases hA : interpret preq pes e with
    | concrete v t => rw [hA] at h; simp only [likeResult] at h; split at h <;> simp [mkBool, Residual.isPartial] at h
    | error t => rw [hA] at h; simp [likeResult, Residual.isPartial] at h
    | part k t =>
      rw [hA] at ih
      exact unloaded_of_sub (fun u hu => by simpa [unaryResult, getAttrResult, hasAttrResult, likeResult, Residual.uids, RKind.uids] using hu) (ih rfl)
  | @is e ety ty _ ih =>
    rw [interpret, interpretKind_is]
    intro h
    cases hA : interpret preq pes e with
    | concrete v t => rw [hA] at h; simp only [isResult] at h; split at h <;> simp [mkBool, Residual.isPartial] at h
    | error t => rw [hA] at h; simp [isResult, Residual.isPartial] at h
    | part k t =>
      rw [hA] at ih h
      have hsub : Unloaded pes (.part (.is (.part k t) ety) ty) :=
        unloaded_of_sub (fun u hu => by simpa [unaryResult, getAttrResult, hasAttrResult, likeResult, Residual.uids, RKind.uids] using hu) (ih rfl)
      cases k with
      | var x => cases x <;> first | (simp [isResult, mkBool, Residual.isPartial] at h; done) | exact hsub
      | _ => exact hsub
  | @call fn args ty _ ih =>
    rw [interpret, interpretKind_call]
    intro h
    refine listResult_unloaded (fun vals => ofResult_not_partial _ _) (fun rs => rfl) ?_ h
    intro r' hr' hp
    obtain ⟨r, hr, rfl⟩ := mem_interpretList hr'
    exact ih r hr hp
  | @set xs ty _ ih =>
    rw [interpret, interpretKind_set]
    intro h
    refine listResult_unloaded (fun vals => rfl) (fun rs => rfl) ?_ h
    intro r' hr' hp
    obtain ⟨r, hr, rfl⟩ := mem_interpretList hr'
    exact ih r hr hp
  | @record kvs ty _ ih =>
    rw [interpret, interpretKind_record]
    intro h
    unfold recordResult at h ⊢
    cases hac : allConcreteKVs (interpretKVs preq pes kvs) with
    | some vals => rw [hac] at h; simp [Residual.isPartial] at h
    | none =>
      rw [hac] at h
      simp only at h ⊢
      cases hany : (interpretKVs preq pes kvs).any (fun kv => kv.2.isError) with
      | true => rw [hany] at h; simp [Residual.isPartial] at h
      | false =>
        simp only [Bool.false_eq_true, if_false]
        obtain ⟨kv', hkv', hp⟩ := exists_partialKVs hac hany
        obtain ⟨kv, hkv, heq⟩ := mem_interpretKVs hkv'
        rw [heq] at hp
        obtain ⟨u, hu, hc⟩ := ih kv hkv hp
        rw [← heq] at hu
        exact ⟨u, by simp only [Residual.uids, RKind.uids]; exact mem_uidsKVs hkv' hu, hc⟩

/-- **progress of the loop**: a state that is not done, whose residuals are outputs of `interpret` for its own store,
    requests at least one id -/
theorem toLoad_ne_nil {preq : Tpe.PRequest} (hreq : ConcreteReq preq) {st : State} (hK : FullyKnown st.entities)
    (hres : ∀ rp, rp ∈ st.residuals → ∃ r, rp.residual = interpret preq st.entities r)
    (hd : st.done = false) : st.toLoad ≠ [] := by
  have : ∃ rp, rp ∈ st.residuals ∧ rp.residual.isPartial = true := by
    simp only [State.done, List.all_eq_false] at hd
    obtain ⟨rp, hrp, hp⟩ := hd
    exact ⟨rp, hrp, by simpa using hp⟩
  obtain ⟨rp, hrp, hp⟩ := this
  obtain ⟨r, hr⟩ := hres rp hrp
  rw [hr] at hp
  obtain ⟨u, hu, hc⟩ := interpret_partial_unloaded hreq hK r hp
  rw [← hr] at hu
  intro hnil
  have hm : u ∈ st.toLoad := by
    unfold State.toLoad
    rw [mem_dedup, List.mem_filter]
    exact ⟨List.mem_flatMap.mpr ⟨rp, hrp, hu⟩, by simp [hc]⟩
  rw [hnil] at hm; cases hm

/-- policy conditions are boolean-valued when they evaluate (validation: C03 `strict_validation_sound_static`) -/
def CondsBool (q : Request) (es : Entities) (tps : List TPolicy) : Prop :=
  ∀ tp, tp ∈ tps → ∀ v, evaluate q es tp.policy.env tp.policy.condition = .ok v → ∃ b, v = .prim (.bool b)

theorem sinv_boolTyped {q : Request} {es : Entities} {tps : List TPolicy} (hE : TypedAgrees q es tps) (hB : CondsBool q es tps)
    {st : State} (hi : SInv q es tps st) : st.BoolTyped := by
  intro rp hrp v ty hres
  have hag := sinv_agree hE hi hrp
  rw [hres] at hag
  have hx := agree_ok_left (by simpa [Residual.eval] using hag)
  obtain ⟨tp, r0, htp, _, h1, _⟩ := hi.tracked rp hrp
  rw [h1] at hx
  exact hB tp htp v hx

/-- the invariant `SInv` gives everything the budget argument needs, except that the ids requested stay inside the
    universe `U` (`hU`) -/
theorem sinv_loopInv {q : Request} {es : Entities} {tps : List TPolicy} {loader : Loader} {U : List EntityUID}
    (hF : Faithful loader es) (hE : TypedAgrees q es tps) (hB : CondsBool q es tps)
    (hU : ∀ st, SInv q es tps st → ∀ u, u ∈ st.toLoad → u ∈ U) : LoopInv (prequestOf q) loader U (SInv q es tps) where
  step := fun _ _ hi hs => sinv_step hF hi hs
  progress := fun st hi hd =>
    toLoad_ne_nil (prequestOf_concrete q) (loadedFrom_fullyKnown hi.loaded)
      (fun rp hrp => by obtain ⟨_, _, _, _, _, _, _, hr, _⟩ := hi.tracked rp hrp; exact hr) hd
  bounded := hU
  boolTyped := fun _ hi => sinv_boolTyped hE hB hi

end Cedar.Batched
