import CedarVerif.Cedar.Syntax.Parse
/-
C05: the two facts about the legacy `String.splitOn` (separator `::`) that the round-trip theorems need:
`intercalate "::" (s.splitOn "::") = s` and `(intercalate "::" ids).splitOn "::" = ids` for identifiers.
`String.splitOnAux` works on byte positions (`String.Pos.Raw`); its reference semantics (`utf8GetAux`, `extract.go₁/go₂`,
`utf8ByteSize`) is list based, so the proof relates it to a list-level scanner `gl`.
-/
namespace Cedar.Syntax.SplitOn

/-- UTF-8 length of a list of characters -/
def ulen : List Char → Nat
  | [] => 0
  | c :: cs => c.utf8Size + ulen cs

theorem ulen_append (a b : List Char) : ulen (a ++ b) = ulen a + ulen b := by
  induction a with
  | nil => simp [ulen]
  | cons c a ih => simp [ulen, ih]; omega

theorem ulen_eq_zero {l : List Char} (h : ulen l = 0) : l = [] := by
  cases l with
  | nil => rfl
  | cons c cs => have := Char.utf8Size_pos c; simp [ulen] at h; omega

theorem utf8ByteSize_ofList : ∀ l : List Char, (String.ofList l).utf8ByteSize = ulen l
  | [] => by simp [ulen]
  | c :: cs => by simp [String.ofList_cons, String.utf8ByteSize_append, String.utf8ByteSize_singleton, ulen, utf8ByteSize_ofList cs]

theorem utf8ByteSize_eq (s : String) : s.utf8ByteSize = ulen s.toList := by
  have := utf8ByteSize_ofList s.toList
  rwa [String.ofList_toList] at this

theorem pos_add_char (k : Nat) (c : Char) : (⟨k⟩ : String.Pos.Raw) + c = ⟨k + c.utf8Size⟩ := rfl

theorem getAux_at : ∀ (pre : List Char) (c : Char) (rest : List Char) (k : Nat),
    String.Pos.Raw.utf8GetAux (pre ++ c :: rest) ⟨k⟩ ⟨k + ulen pre⟩ = c
  | [], c, rest, k => by simp [String.Pos.Raw.utf8GetAux, ulen]
  | p :: pre, c, rest, k => by
    have hp := Char.utf8Size_pos p
    have hne : ¬ ((⟨k⟩ : String.Pos.Raw) = ⟨k + ulen (p :: pre)⟩) := by
      simp only [ulen, String.Pos.Raw.mk.injEq]; omega
    simp only [List.cons_append, String.Pos.Raw.utf8GetAux, hne, if_false, pos_add_char]
    have := getAux_at pre c rest (k + p.utf8Size)
    simpa [ulen, Nat.add_assoc] using this

theorem get_at {s : String} {pre rest : List Char} {c : Char} (h : s.toList = pre ++ c :: rest) :
    (⟨ulen pre⟩ : String.Pos.Raw).get s = c := by
  unfold String.Pos.Raw.get
  rw [h]
  have := getAux_at pre c rest 0
  simpa using this

theorem go2_spec : ∀ (mid post : List Char) (k : Nat),
    String.Pos.Raw.extract.go₂ (mid ++ post) ⟨k⟩ ⟨k + ulen mid⟩ = mid
  | [], post, k => by cases post <;> simp [String.Pos.Raw.extract.go₂, ulen]
  | m :: mid, post, k => by
    have hp := Char.utf8Size_pos m
    have hne : ¬ ((⟨k⟩ : String.Pos.Raw) = ⟨k + ulen (m :: mid)⟩) := by
      simp only [ulen, String.Pos.Raw.mk.injEq]; omega
    simp only [List.cons_append, String.Pos.Raw.extract.go₂, hne, if_false, pos_add_char]
    have := go2_spec mid post (k + m.utf8Size)
    simp only [ulen, ← Nat.add_assoc]
    rw [this]

theorem go1_spec : ∀ (pre mid post : List Char) (k : Nat),
    String.Pos.Raw.extract.go₁ (pre ++ (mid ++ post)) ⟨k⟩ ⟨k + ulen pre⟩ ⟨k + ulen pre + ulen mid⟩ = mid
  | [], mid, post, k => by
    simp only [List.nil_append, ulen, Nat.add_zero]
    cases h : mid ++ post with
    | nil => simp at h; simp [h.1, String.Pos.Raw.extract.go₁]
    | cons c cs =>
      simp only [String.Pos.Raw.extract.go₁, if_true]
      rw [← h]; exact go2_spec mid post k
  | p :: pre, mid, post, k => by
    have hp := Char.utf8Size_pos p
    have hne : ¬ ((⟨k⟩ : String.Pos.Raw) = ⟨k + ulen (p :: pre)⟩) := by
      simp only [ulen, String.Pos.Raw.mk.injEq]; omega
    simp only [List.cons_append, String.Pos.Raw.extract.go₁, hne, if_false, pos_add_char]
    have := go1_spec pre mid post (k + p.utf8Size)
    simp only [ulen, ← Nat.add_assoc]
    rw [this]

theorem extract_spec {s : String} {pre mid post : List Char} (h : s.toList = pre ++ (mid ++ post)) :
    String.Pos.Raw.extract s ⟨ulen pre⟩ ⟨ulen pre + ulen mid⟩ = String.ofList mid := by
  simp only [String.Pos.Raw.extract]
  split
  · rename_i hge
    have : ulen mid = 0 := by simp only [ge_iff_le] at hge; omega
    rw [ulen_eq_zero this]
  · rw [h]
    have := go1_spec pre mid post 0
    simp only [Nat.zero_add] at this
    exact congrArg String.ofList this

theorem ulen_reverse (l : List Char) : ulen l.reverse = ulen l := by
  induction l with
  | nil => rfl
  | cons c l ih => simp [ulen, ulen_append, ih]; omega

theorem atEnd_eq (s : String) (k : Nat) : (⟨k⟩ : String.Pos.Raw).atEnd s = decide (k ≥ ulen s.toList) := by
  simp [String.Pos.Raw.atEnd, utf8ByteSize_eq]

theorem colon_size : (':' : Char).utf8Size = 1 := by decide

theorem sep_get0 : (⟨0⟩ : String.Pos.Raw).get "::" = ':' := by decide
theorem sep_get1 : (⟨1⟩ : String.Pos.Raw).get "::" = ':' := by decide
theorem sep_atEnd1 : (⟨1⟩ : String.Pos.Raw).atEnd "::" = false := by decide
theorem sep_atEnd2 : (⟨2⟩ : String.Pos.Raw).atEnd "::" = true := by decide

/-- the list-level scanner: `piece` = the current piece so far (reversed), `pend` = one `:` seen and held back -/
def gl : List Char → Bool → List Char → List (List Char)
  | piece, pend, [] => [(if pend then ':' :: piece else piece).reverse]
  | piece, false, c :: cs => if c = ':' then gl piece true cs else gl (c :: piece) false cs
  | piece, true, c :: cs => if c = ':' then piece.reverse :: gl [] false cs else gl (c :: ':' :: piece) false cs

theorem gl_pend_mismatch {c : Char} (hc : c ≠ ':') (piece cs : List Char) :
    gl piece true (c :: cs) = gl (':' :: piece) false (c :: cs) := by
  simp [gl, hc]

theorem aux_spec (s : String) : ∀ (n : Nat) (rest bpre piece : List Char) (pend : Bool) (r : List String),
    2 * rest.length + (if pend then 1 else 0) ≤ n →
    s.toList = bpre ++ (piece.reverse ++ ((if pend then [':'] else []) ++ rest)) →
    String.splitOnAux s "::" ⟨ulen bpre⟩ ⟨ulen bpre + (ulen piece + (if pend then 1 else 0))⟩ ⟨if pend then 1 else 0⟩ r =
      r.reverse ++ (gl piece pend rest).map String.ofList := by
  intro n
  induction n using Nat.strongRecOn with
  | _ n ih =>
    intro rest bpre piece pend r hn hs
    cases rest with
    | nil =>
      cases pend
      · simp only [Bool.false_eq_true, if_false, Nat.add_zero, List.append_nil] at hs ⊢
        have hlen : ulen s.toList = ulen bpre + ulen piece := by rw [hs, ulen_append, ulen_reverse]
        have hex := extract_spec (s := s) (pre := bpre) (mid := piece.reverse) (post := []) (by simpa using hs)
        rw [ulen_reverse] at hex
        rw [String.splitOnAux]
        simp [atEnd_eq, hlen, hex, gl]
      · simp only [if_true, List.append_nil] at hs ⊢
        have hm : ulen (piece.reverse ++ [':']) = ulen piece + 1 := by simp [ulen_append, ulen_reverse, ulen, colon_size]
        have hlen : ulen s.toList = ulen bpre + (ulen piece + 1) := by rw [hs, ulen_append, hm]
        have hex := extract_spec (s := s) (pre := bpre) (mid := piece.reverse ++ [':']) (post := []) (by simpa using hs)
        rw [hm] at hex
        rw [String.splitOnAux]
        simp [atEnd_eq, hlen, hex, gl]
    | cons c cs =>
      have hcpos := Char.utf8Size_pos c
      cases pend
      · simp only [Bool.false_eq_true, if_false, Nat.add_zero, List.nil_append] at hs hn ⊢
        have hpre : ulen (bpre ++ piece.reverse) = ulen bpre + ulen piece := by rw [ulen_append, ulen_reverse]
        have hlen : ulen s.toList = ulen bpre + ulen piece + (c.utf8Size + ulen cs) := by
          rw [hs, ← List.append_assoc, ulen_append, hpre]; rfl
        have hget : (⟨ulen bpre + ulen piece⟩ : String.Pos.Raw).get s = c := by
          rw [← hpre]; exact get_at (rest := cs) (by simpa using hs)
        have hnot : (⟨ulen bpre + ulen piece⟩ : String.Pos.Raw).atEnd s = false := by
          rw [atEnd_eq, hlen]; simp; omega
        rw [String.splitOnAux]
        simp only [hnot, Bool.false_eq_true, if_false, hget, sep_get0, String.Pos.Raw.next, pos_add_char, colon_size]
        by_cases hc : c = ':'
        · subst hc
          simp only [beq_self_eq_true, if_true, colon_size, Nat.zero_add, sep_atEnd1, Bool.false_eq_true, if_false]
          have := ih (2 * cs.length + 1) (by simp at hn; omega) cs bpre piece true r (by simp) (by simpa using hs)
          simp only [if_true] at this
          rw [show ulen bpre + ulen piece + 1 = ulen bpre + (ulen piece + 1) by omega, this]
          simp [gl]
        · have hb : (c == ':') = false := by simpa using hc
          simp only [hb, Bool.false_eq_true, if_false]
          have := ih (2 * cs.length) (by simp at hn; omega) cs bpre (c :: piece) false r (by simp) (by simpa using hs)
          simp only [Bool.false_eq_true, if_false, Nat.add_zero, ulen] at this
          have e : ((⟨ulen bpre + ulen piece⟩ : String.Pos.Raw).unoffsetBy ⟨0⟩) = ⟨ulen bpre + ulen piece⟩ := rfl
          rw [e, hget, pos_add_char]
          rw [show ulen bpre + ulen piece + c.utf8Size = ulen bpre + (c.utf8Size + ulen piece) by omega]
          change String.splitOnAux s "::" ⟨ulen bpre⟩ ⟨ulen bpre + (c.utf8Size + ulen piece)⟩ ⟨0⟩ r = _
          rw [this]
          simp [gl, hc]
      · simp only [if_true] at hs hn ⊢
        have hpre : ulen (bpre ++ piece.reverse) = ulen bpre + ulen piece := by rw [ulen_append, ulen_reverse]
        have hpre1 : ulen (bpre ++ piece.reverse ++ [':']) = ulen bpre + (ulen piece + 1) := by
          rw [ulen_append, hpre]; simp [ulen, colon_size]; omega
        have hs1 : s.toList = (bpre ++ piece.reverse ++ [':']) ++ c :: cs := by simpa using hs
        have hlen : ulen s.toList = ulen bpre + (ulen piece + 1) + (c.utf8Size + ulen cs) := by
          rw [hs1, ulen_append, hpre1]; rfl
        have hget : (⟨ulen bpre + (ulen piece + 1)⟩ : String.Pos.Raw).get s = c := by
          rw [← hpre1]; exact get_at hs1
        have hnot : (⟨ulen bpre + (ulen piece + 1)⟩ : String.Pos.Raw).atEnd s = false := by
          rw [atEnd_eq, hlen]; simp; omega
        rw [String.splitOnAux]
        simp only [hnot, Bool.false_eq_true, if_false, hget, sep_get1, String.Pos.Raw.next, pos_add_char, colon_size]
        by_cases hc : c = ':'
        · subst hc
          simp only [beq_self_eq_true, if_true, colon_size, Nat.reduceAdd, sep_atEnd2]
          have hex := extract_spec (s := s) (pre := bpre) (mid := piece.reverse) (post := ':' :: ':' :: cs) (by simpa using hs)
          rw [ulen_reverse] at hex
          have e : ((⟨ulen bpre + (ulen piece + 1) + 1⟩ : String.Pos.Raw).unoffsetBy ⟨2⟩) = ⟨ulen bpre + ulen piece⟩ := by
            simp [String.Pos.Raw.unoffsetBy]
          rw [e, hex]
          have hb' : ulen (bpre ++ piece.reverse ++ [':', ':']) = ulen bpre + (ulen piece + 1) + 1 := by
            rw [ulen_append, hpre]; simp [ulen, colon_size]; omega
          have := ih (2 * cs.length) (by simp at hn; omega) cs (bpre ++ piece.reverse ++ [':', ':']) [] false
            (String.ofList piece.reverse :: r) (by simp) (by simpa using hs)
          simp only [Bool.false_eq_true, if_false, Nat.add_zero, ulen, hb'] at this
          change String.splitOnAux s "::" ⟨ulen bpre + (ulen piece + 1) + 1⟩ ⟨ulen bpre + (ulen piece + 1) + 1⟩ ⟨0⟩ _ = _
          rw [this]
          simp [gl]
        · have hb : (c == ':') = false := by simpa using hc
          simp only [hb, Bool.false_eq_true, if_false]
          have e : ((⟨ulen bpre + (ulen piece + 1)⟩ : String.Pos.Raw).unoffsetBy ⟨1⟩) = ⟨ulen bpre + ulen piece⟩ := by
            simp [String.Pos.Raw.unoffsetBy]
          have hget' : (⟨ulen bpre + ulen piece⟩ : String.Pos.Raw).get s = ':' := by
            rw [← hpre]; exact get_at (rest := c :: cs) (by simpa using hs)
          rw [e, hget', pos_add_char, colon_size]
          have := ih (2 * (cs.length + 1)) (by simp at hn; omega) (c :: cs) bpre (':' :: piece) false r (by simp) (by simpa using hs)
          simp only [Bool.false_eq_true, if_false, Nat.add_zero, ulen, colon_size] at this
          rw [show ulen bpre + ulen piece + 1 = ulen bpre + (1 + ulen piece) by omega]
          change String.splitOnAux s "::" ⟨ulen bpre⟩ ⟨ulen bpre + (1 + ulen piece)⟩ ⟨0⟩ r = _
          rw [this, gl_pend_mismatch hc]

/-- `splitOn "::"` is the list-level scanner -/
theorem splitOn_eq (s : String) : s.splitOn "::" = (gl [] false s.toList).map String.ofList := by
  have h := aux_spec s (2 * s.toList.length) s.toList [] [] false [] (by simp) (by simp)
  simp only [Bool.false_eq_true, if_false, ulen, Nat.add_zero, List.reverse_nil, List.nil_append] at h
  unfold String.splitOn
  rw [if_neg (by decide)]
  exact h

/-- `intercalate "::"` on lists -/
def jn : List (List Char) → List Char
  | [] => []
  | [x] => x
  | x :: y :: l => x ++ ':' :: ':' :: jn (y :: l)

theorem intercalate_eq_jn : ∀ l : List (List Char), [':', ':'].intercalate l = jn l
  | [] => by simp [jn]
  | [x] => by simp [jn]
  | x :: y :: l => by
    have := intercalate_eq_jn (y :: l)
    simp only [List.intercalate, List.intersperse_cons_cons, List.flatten_cons] at this ⊢
    simp [jn, this]

theorem gl_ne_nil : ∀ rest piece pend, gl piece pend rest ≠ []
  | [], piece, pend => by simp [gl]
  | c :: cs, piece, false => by
    simp only [gl]; split
    · exact gl_ne_nil cs piece true
    · exact gl_ne_nil cs (c :: piece) false
  | c :: cs, piece, true => by
    simp only [gl]; split
    · simp
    · exact gl_ne_nil cs _ false

theorem jn_cons_of_ne_nil (x : List Char) {l : List (List Char)} (h : l ≠ []) : jn (x :: l) = x ++ ':' :: ':' :: jn l := by
  cases l with
  | nil => exact absurd rfl h
  | cons y l => rfl

theorem gl_join : ∀ rest piece pend, jn (gl piece pend rest) = piece.reverse ++ ((if pend then [':'] else []) ++ rest)
  | [], piece, pend => by cases pend <;> simp [gl, jn]
  | c :: cs, piece, false => by
    simp only [gl]
    split
    · rename_i hc; subst hc; rw [gl_join cs piece true]; simp
    · rw [gl_join cs (c :: piece) false]; simp
  | c :: cs, piece, true => by
    simp only [gl]
    split
    · rename_i hc; subst hc
      rw [jn_cons_of_ne_nil _ (gl_ne_nil cs [] false), gl_join cs [] false]; simp
    · rw [gl_join cs _ false]; simp

theorem colons : "::".toList = [':', ':'] := by decide

/-- `intercalate ∘ splitOn = id` -/
theorem join_splitOn (s : String) : "::".intercalate (s.splitOn "::") = s := by
  apply String.toList_injective
  rw [String.toList_intercalate, splitOn_eq, colons, intercalate_eq_jn]
  simp only [List.map_map]
  have : (String.toList ∘ String.ofList) = id := by funext l; simp
  rw [this, List.map_id, gl_join]
  simp

theorem gl_scan : ∀ (w piece rest : List Char), ':' ∉ w → gl piece false (w ++ rest) = gl (w.reverse ++ piece) false rest
  | [], piece, rest, _ => by simp
  | c :: w, piece, rest, h => by
    have hc : c ≠ ':' := by intro hc; subst hc; simp at h
    have hw : ':' ∉ w := by intro hw; exact h (by simp [hw])
    simp only [List.cons_append, gl, hc, if_false]
    rw [gl_scan w (c :: piece) rest hw]
    simp

theorem gl_jn : ∀ (l : List (List Char)) (w piece : List Char), (∀ x ∈ w :: l, ':' ∉ x) →
    gl piece false (jn (w :: l)) = (piece.reverse ++ w) :: l
  | [], w, piece, h => by
    have := gl_scan w piece [] (h w (by simp))
    simp only [List.append_nil] at this
    simp [jn, this, gl]
  | y :: l, w, piece, h => by
    have h1 := gl_scan w piece (':' :: ':' :: jn (y :: l)) (h w (by simp))
    have h2 := gl_jn l y [] (fun x hx => h x (by simp at hx ⊢; right; exact hx))
    simp only [jn, h1, gl, if_true]
    rw [h2]
    simp

/-- `splitOn ∘ intercalate = id` on colon-free components -/
theorem splitOn_join (comps : List String) (hne : comps ≠ []) (h : ∀ c ∈ comps, ':' ∉ c.toList) :
    ("::".intercalate comps).splitOn "::" = comps := by
  rw [splitOn_eq, String.toList_intercalate, colons, intercalate_eq_jn]
  cases comps with
  | nil => exact absurd rfl hne
  | cons w l =>
    simp only [List.map_cons]
    rw [gl_jn (l.map String.toList) w.toList [] (by
      intro x hx
      simp only [List.mem_cons, List.mem_map] at hx
      rcases hx with hx | ⟨c, hc, hx⟩
      · subst hx; exact h w (by simp)
      · subst hx; exact h c (by simp [hc]))]
    simp [List.map_map]

theorem idCont_ne_colon {ch : Char} (h : isIdCont ch = true) : ch ≠ ':' := by
  intro hc; subst hc; revert h; decide

theorem ident_no_colon {cs : List Char} (h : isIdentChars cs = true) : ':' ∉ cs := by
  cases cs with
  | nil => simp
  | cons c cs =>
    simp only [isIdentChars, Bool.and_eq_true, List.all_eq_true] at h
    intro hm
    simp only [List.mem_cons] at hm
    rcases hm with hm | hm
    · exact idCont_ne_colon (ch := c) (by simp [isIdCont, h.1]) hm.symm
    · exact idCont_ne_colon (h.2 _ hm) rfl

end Cedar.Syntax.SplitOn

namespace Cedar.Syntax

theorem joinName_splitOn (ty : String) : joinName (ty.splitOn "::") = ty := SplitOn.join_splitOn ty

theorem splitOn_joinName (comps : List String) (hne : comps ≠ []) (h : ∀ c ∈ comps, isIdentChars c.toList = true) :
    (joinName comps).splitOn "::" = comps :=
  SplitOn.splitOn_join comps hne (fun c hc => SplitOn.ident_no_colon (h c hc))

end Cedar.Syntax
