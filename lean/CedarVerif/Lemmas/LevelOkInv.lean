import CedarVerif.Lemmas.LevelSound
/-
C16 helper: `Ok n act te` — the typed expression `te` passed the level checker in one of its two roles (as an ordinary
expression: `checkExpr = []`, or as a dereference target along some access path: `derefErrs = []` and level `< n`) — is
inherited by every immediate sub-expression that the checker visits, and implies (with `Kinds`) evaluation over the slice
as over the store.  Plus congruence lemmas for `evaluate` on the short-circuiting constructs.
-/
namespace Cedar.Level
open Cedar Cedar.Slice

/-- accepted by the level checker as an ordinary expression or as a dereference target -/
def Ok (n : Nat) (act : EntityUID) (te : TExpr) : Prop :=
  checkExpr n act te = [] ∨ ∃ p, derefErrs n act te p = [] ∧ derefLevel act te p < n

def OkList (n : Nat) (act : EntityUID) (ts : List TExpr) : Prop := ∀ t, t ∈ ts → Ok n act t
def OkKVs (n : Nat) (act : EntityUID) (kvs : List (String × TExpr)) : Prop := ∀ kv, kv ∈ kvs → Ok n act kv.2

variable {req : Request} {es : Entities} {sl : SlotEnv} {n : Nat} {act : EntityUID}

theorem sliceEq_of_ok (hact : req.action = act) {te : TExpr} (hk : Kinds req es sl te) (h : Ok n act te) :
    evaluate req (atLevel n req es) sl te.erase = evaluate req es sl te.erase := by
  rcases h with h | ⟨p, h, hl⟩
  · exact check_sound hact te hk h
  · exact (deref_sound hact te p hk h hl).1

theorem Ok.unary {op : UnaryOp} {a : TExpr} (h : Ok n act (.unaryApp op a)) : Ok n act a := by
  rcases h with h | ⟨p, h, _⟩
  · exact Or.inl (by simpa [checkExpr] using h)
  · simp [derefErrs] at h

theorem Ok.like {a : TExpr} {pat : Pattern} (h : Ok n act (.like a pat)) : Ok n act a := by
  rcases h with h | ⟨p, h, _⟩
  · exact Or.inl (by simpa [checkExpr] using h)
  · simp [derefErrs] at h

theorem Ok.is {a : TExpr} {ty : EntityType} (h : Ok n act (.is a ty)) : Ok n act a := by
  rcases h with h | ⟨p, h, _⟩
  · exact Or.inl (by simpa [checkExpr] using h)
  · simp [derefErrs] at h

theorem Ok.and {a b : TExpr} (h : Ok n act (.and a b)) : Ok n act a ∧ Ok n act b := by
  rcases h with h | ⟨p, h, _⟩
  · simp only [checkExpr, List.append_eq_nil_iff] at h
    exact ⟨Or.inl h.1, Or.inl h.2⟩
  · simp [derefErrs] at h

theorem Ok.or {a b : TExpr} (h : Ok n act (.or a b)) : Ok n act a ∧ Ok n act b := by
  rcases h with h | ⟨p, h, _⟩
  · simp only [checkExpr, List.append_eq_nil_iff] at h
    exact ⟨Or.inl h.1, Or.inl h.2⟩
  · simp [derefErrs] at h

theorem Ok.ite {c t e : TExpr} (h : Ok n act (.ite c t e)) : Ok n act c ∧ Ok n act t ∧ Ok n act e := by
  rcases h with h | ⟨p, h, hl⟩
  · simp only [checkExpr, List.append_eq_nil_iff] at h
    exact ⟨Or.inl h.1, Or.inl h.2.1, Or.inl h.2.2⟩
  · simp only [derefErrs, List.append_eq_nil_iff] at h
    simp only [derefLevel] at hl
    exact ⟨Or.inl h.1, Or.inr ⟨p, h.2.1, by omega⟩, Or.inr ⟨p, h.2.2, by omega⟩⟩

theorem Ok.binary {op : BinaryOp} {a b : TExpr} (h : Ok n act (.binaryApp op a b)) : Ok n act a ∧ Ok n act b := by
  rcases h with h | ⟨p, h, hl⟩
  · simp only [checkExpr] at h
    by_cases hop : isDerefOp op = true
    · simp only [hop, if_true, List.append_eq_nil_iff] at h
      exact ⟨Or.inr ⟨[], h.1, exceeds_nil_iff.mp h.2.1⟩, Or.inl h.2.2⟩
    · have hop' : isDerefOp op = false := by simpa using hop
      simp only [hop', Bool.false_eq_true, if_false, List.append_eq_nil_iff] at h
      exact ⟨Or.inl h.1, Or.inl h.2⟩
  · cases op <;> simp only [derefErrs, List.append_eq_nil_iff] at h <;> try (simp at h)
    simp only [derefLevel] at hl
    exact ⟨Or.inr ⟨p, h.1, by omega⟩, Or.inl h.2⟩

theorem Ok.getAttr {k : TKind} {e : TExpr} {a : String} (h : Ok n act (.getAttr k e a)) : Ok n act e := by
  rcases h with h | ⟨p, h, hl⟩
  · cases k with
    | entity =>
      simp only [checkExpr, List.append_eq_nil_iff] at h
      exact Or.inr ⟨[], h.1, exceeds_nil_iff.mp h.2⟩
    | record => exact Or.inl (by simpa [checkExpr] using h)
    | other => simp [checkExpr] at h
  · cases k with
    | entity =>
      simp only [derefErrs] at h
      simp only [derefLevel] at hl
      exact Or.inr ⟨p, h, by omega⟩
    | record =>
      simp only [derefErrs] at h
      simp only [derefLevel] at hl
      exact Or.inr ⟨a :: p, h, hl⟩
    | other => simp [derefErrs] at h

theorem Ok.hasAttr {k : TKind} {e : TExpr} {a : String} (h : Ok n act (.hasAttr k e a)) : Ok n act e := by
  rcases h with h | ⟨p, h, _⟩
  · cases k with
    | entity =>
      simp only [checkExpr, List.append_eq_nil_iff] at h
      exact Or.inr ⟨[], h.1, exceeds_nil_iff.mp h.2⟩
    | record => exact Or.inl (by simpa [checkExpr] using h)
    | other => simp [checkExpr] at h
  · simp [derefErrs] at h

theorem okList_of_checkList : ∀ {ts : List TExpr}, checkList n act ts = [] → OkList n act ts
  | [], _ => by intro t ht; cases ht
  | x :: xs, h => by
    simp only [checkList, List.append_eq_nil_iff] at h
    intro t ht
    rcases List.mem_cons.mp ht with rfl | ht
    · exact Or.inl h.1
    · exact okList_of_checkList h.2 t ht

theorem okKVs_of_checkKVs : ∀ {kvs : List (String × TExpr)}, checkKVs n act kvs = [] → OkKVs n act kvs
  | [], _ => by intro t ht; cases ht
  | (k, x) :: xs, h => by
    simp only [checkKVs, List.append_eq_nil_iff] at h
    intro t ht
    rcases List.mem_cons.mp ht with rfl | ht
    · exact Or.inl h.1
    · exact okKVs_of_checkKVs h.2 t ht

theorem Ok.call {fn : String} {ts : List TExpr} (h : Ok n act (.call fn ts)) : OkList n act ts := by
  rcases h with h | ⟨p, h, _⟩
  · exact okList_of_checkList (by simpa [checkExpr] using h)
  · simp [derefErrs] at h

theorem Ok.set {ts : List TExpr} (h : Ok n act (.set ts)) : OkList n act ts := by
  rcases h with h | ⟨p, h, _⟩
  · exact okList_of_checkList (by simpa [checkExpr] using h)
  · simp [derefErrs] at h

theorem okKVs_of_derefErrsKVs (a : String) (p : List String) :
    ∀ {kvs : List (String × TExpr)}, derefErrsKVs n act a p kvs = [] →
      (∀ l, derefLevelKVs act a p kvs = some l → l < n) → OkKVs n act kvs
  | [], _, _ => by intro t ht; cases ht
  | (k, x) :: rest, h, hl => by
    simp only [derefErrsKVs, List.append_eq_nil_iff] at h
    simp only [derefLevelKVs] at hl
    have hrest : ∀ l, derefLevelKVs act a p rest = some l → l < n := by
      intro l hr
      exact hl l (by simp [hr])
    intro t ht
    rcases List.mem_cons.mp ht with rfl | ht
    · by_cases hc : (k == a && !hasKey a rest) = true
      · simp only [hc, if_true] at h
        simp only [Bool.and_eq_true, Bool.not_eq_true'] at hc
        have hnone := (derefLevelKVs_none_iff act a p rest).mpr hc.2
        exact Or.inr ⟨p, h.1, hl _ (by simp [hnone, hc.1])⟩
      · simp only [hc, Bool.false_eq_true, if_false] at h
        exact Or.inl h.1
    · exact okKVs_of_derefErrsKVs a p h.2 hrest t ht

theorem Ok.record {kvs : List (String × TExpr)} (h : Ok n act (.record kvs)) : OkKVs n act kvs := by
  rcases h with h | ⟨p, h, hl⟩
  · exact okKVs_of_checkKVs (by simpa [checkExpr] using h)
  · cases p with
    | nil => simp [derefErrs] at h
    | cons a p' =>
      simp only [derefErrs] at h
      cases hkey : hasKey a kvs with
      | false => simp [hkey] at h
      | true =>
        simp only [hkey, if_true] at h
        simp only [derefLevel] at hl
        refine okKVs_of_derefErrsKVs a p' h ?_
        intro l hlv
        simpa [hlv] using hl

theorem OkList.cons {t : TExpr} {ts : List TExpr} (h : OkList n act (t :: ts)) : Ok n act t ∧ OkList n act ts :=
  ⟨h t List.mem_cons_self, fun x hx => h x (List.mem_cons_of_mem _ hx)⟩

theorem OkKVs.cons {k : String} {t : TExpr} {ts : List (String × TExpr)} (h : OkKVs n act ((k, t) :: ts)) :
    Ok n act t ∧ OkKVs n act ts :=
  ⟨h (k, t) List.mem_cons_self, fun x hx => h x (List.mem_cons_of_mem _ hx)⟩

/-! ### congruence of `evaluate` on the short-circuiting constructs -/

theorem eval_and_congr {X : Entities} {a₁ a₂ b₁ b₂ : Expr} (ha : evaluate req X sl a₁ = evaluate req X sl a₂)
    (hb : evaluate req X sl a₂ = .ok (.prim (.bool true)) → evaluate req X sl b₁ = evaluate req X sl b₂) :
    evaluate req X sl (.and a₁ b₁) = evaluate req X sl (.and a₂ b₂) := by
  simp only [evaluate, ha]
  cases hv : evaluate req X sl a₂ with
  | error _ => rfl
  | ok v =>
    simp only
    cases hbv : v.asBool with
    | error _ => rfl
    | ok bb =>
      cases bb with
      | false => rfl
      | true =>
        rw [asBool_ok hbv] at hv
        simp only [hb hv]

theorem eval_or_congr {X : Entities} {a₁ a₂ b₁ b₂ : Expr} (ha : evaluate req X sl a₁ = evaluate req X sl a₂)
    (hb : evaluate req X sl a₂ = .ok (.prim (.bool false)) → evaluate req X sl b₁ = evaluate req X sl b₂) :
    evaluate req X sl (.or a₁ b₁) = evaluate req X sl (.or a₂ b₂) := by
  simp only [evaluate, ha]
  cases hv : evaluate req X sl a₂ with
  | error _ => rfl
  | ok v =>
    simp only
    cases hbv : v.asBool with
    | error _ => rfl
    | ok bb =>
      cases bb with
      | true => rfl
      | false =>
        rw [asBool_ok hbv] at hv
        simp only [hb hv]

theorem eval_ite_congr {X : Entities} {c₁ c₂ t₁ t₂ e₁ e₂ : Expr} (hc : evaluate req X sl c₁ = evaluate req X sl c₂)
    (ht : evaluate req X sl c₂ = .ok (.prim (.bool true)) → evaluate req X sl t₁ = evaluate req X sl t₂)
    (he : evaluate req X sl c₂ = .ok (.prim (.bool false)) → evaluate req X sl e₁ = evaluate req X sl e₂) :
    evaluate req X sl (.ite c₁ t₁ e₁) = evaluate req X sl (.ite c₂ t₂ e₂) := by
  simp only [evaluate, hc]
  cases hv : evaluate req X sl c₂ with
  | error _ => rfl
  | ok v =>
    simp only
    cases hbv : v.asBool with
    | error _ => rfl
    | ok bb =>
      rw [asBool_ok hbv] at hv
      cases bb with
      | true => exact ht hv
      | false => exact he hv

/-- `a && b` is `a` when `a` is false or fails -/
theorem eval_and_left {X : Entities} {a b : Expr}
    (h : evaluate req X sl a = .ok (.prim (.bool false)) ∨ ∃ err, evaluate req X sl a = .error err) :
    evaluate req X sl (.and a b) = evaluate req X sl a := by
  rcases h with h | ⟨err, h⟩ <;> simp [evaluate, h, Value.asBool]

/-- `a || b` is `a` when `a` is true or fails -/
theorem eval_or_left {X : Entities} {a b : Expr}
    (h : evaluate req X sl a = .ok (.prim (.bool true)) ∨ ∃ err, evaluate req X sl a = .error err) :
    evaluate req X sl (.or a b) = evaluate req X sl a := by
  rcases h with h | ⟨err, h⟩ <;> simp [evaluate, h, Value.asBool]

end Cedar.Level
