import CedarVerif.Cedar.Ffi
/-
Spec and helper lemmas for C19 (stateful FFI cache): the abstract spec "latest acknowledged write per name",
the refinement invariant between the caches and a call history, and its preservation by every call.
The property theorems are in Thm/C19.lean.
-/
namespace Cedar.C19
open Cedar.Ffi

section
variable {PDoc SDoc P S R A : Type} (π : Params PDoc SDoc P S R A)

/-! ### the abstract spec: latest acknowledged write per name -/

/-- the document `op` registers successfully under policy-set id `id`, if it does -/
def ackPolicies (id : String) : Op PDoc SDoc R → Option PDoc
  | .preparsePolicySet id' doc => if id' = id ∧ (π.parsePolicies doc).isSome then some doc else none
  | _ => none

/-- the document `op` registers successfully under schema name `n`, if it does -/
def ackSchema (n : String) : Op PDoc SDoc R → Option SDoc
  | .preparseSchema n' doc => if n' = n ∧ (π.parseSchema doc).isSome then some doc else none
  | _ => none

/-- the policies document most recently registered successfully under `id` in history `h` (oldest call first) -/
def latestPolicies (h : List (Op PDoc SDoc R)) (id : String) : Option PDoc :=
  h.reverse.findSome? (ackPolicies π id)

/-- the schema document most recently registered successfully under `n` -/
def latestSchema (h : List (Op PDoc SDoc R)) (n : String) : Option SDoc :=
  h.reverse.findSome? (ackSchema π n)

/-- the schema argument the equivalent stateless call gets: none if the stateful call names no schema;
`none` (outer) if it names one that was never registered successfully -/
def latestOptSchema (h : List (Op PDoc SDoc R)) : Option String → Option (Option SDoc)
  | none => some none
  | some n => (latestSchema π h n).map some

/-- SPEC: what a stateful call must answer after history `h` -/
def specAnswer (h : List (Op PDoc SDoc R)) (c : SCall R) : Answer A :=
  match latestOptSchema π h c.schemaName, latestPolicies π h c.policySetId with
  | some sdoc, some pdoc => statelessAuth π { schema := sdoc, policies := pdoc, rest := c.rest }
  | _, _ => .failure

/-! ### the refinement invariant -/

/-- the caches hold exactly the parses of the latest acknowledged documents -/
def Refines (st : Store P S) (h : List (Op PDoc SDoc R)) : Prop :=
  (∀ id, st.policies.lookup id = (latestPolicies π h id).bind π.parsePolicies) ∧
  (∀ n, st.schemas.lookup n = (latestSchema π h n).bind π.parseSchema)

theorem latestPolicies_snoc (h : List (Op PDoc SDoc R)) (op : Op PDoc SDoc R) (id : String) :
    latestPolicies π (h ++ [op]) id =
      match ackPolicies π id op with
      | some d => some d
      | none => latestPolicies π h id := by
  simp only [latestPolicies, List.reverse_append, List.reverse_cons, List.reverse_nil, List.nil_append,
    List.singleton_append, List.findSome?_cons]
  cases ackPolicies π id op <;> rfl

theorem latestSchema_snoc (h : List (Op PDoc SDoc R)) (op : Op PDoc SDoc R) (n : String) :
    latestSchema π (h ++ [op]) n =
      match ackSchema π n op with
      | some d => some d
      | none => latestSchema π h n := by
  simp only [latestSchema, List.reverse_append, List.reverse_cons, List.reverse_nil, List.nil_append,
    List.singleton_append, List.findSome?_cons]
  cases ackSchema π n op <;> rfl

theorem refines_nil : Refines π ({} : Store P S) ([] : List (Op PDoc SDoc R)) := by
  constructor <;> intro _ <;> rfl

/-- one call preserves the invariant -/
theorem refines_step (st : Store P S) (h : List (Op PDoc SDoc R)) (op : Op PDoc SDoc R)
    (inv : Refines π st h) : Refines π (step (A := A) π st op).1 (h ++ [op]) := by
  obtain ⟨hp, hs⟩ := inv
  cases op with
  | preparsePolicySet id doc =>
    constructor
    · intro k
      rw [latestPolicies_snoc]
      simp only [step, preparsePolicySet, ackPolicies]
      cases hd : π.parsePolicies doc with
      | none => simp [hp k]
      | some p =>
        by_cases hk : id = k
        · subst hk
          simp [Map.lookup_insert_same, hd]
        · simp [Map.lookup_insert_other hk, hk, hp k]
    · intro n
      rw [latestSchema_snoc]
      simp only [step, preparsePolicySet, ackSchema]
      cases hd : π.parsePolicies doc <;> simp [hs n]
  | preparseSchema name doc =>
    constructor
    · intro k
      rw [latestPolicies_snoc]
      simp only [step, preparseSchema, ackPolicies]
      cases hd : π.parseSchema doc <;> simp [hp k]
    · intro n
      rw [latestSchema_snoc]
      simp only [step, preparseSchema, ackSchema]
      cases hd : π.parseSchema doc with
      | none => simp [hs n]
      | some s =>
        by_cases hk : name = n
        · subst hk
          simp [Map.lookup_insert_same, hd]
        · simp [Map.lookup_insert_other hk, hk, hs n]
  | statefulAuth c =>
    constructor
    · intro k
      rw [latestPolicies_snoc]
      simp only [step, ackPolicies]
      exact hp k
    · intro n
      rw [latestSchema_snoc]
      simp only [step, ackSchema]
      exact hs n

theorem refines_runFrom (ops : List (Op PDoc SDoc R)) :
    ∀ (st : Store P S) (h : List (Op PDoc SDoc R)), Refines π st h →
      Refines π (runFrom (A := A) π st ops) (h ++ ops) := by
  induction ops with
  | nil => intro st h inv; simpa [runFrom] using inv
  | cons op ops ih =>
    intro st h inv
    have := ih _ _ (refines_step (A := A) π st h op inv)
    simpa [runFrom, List.append_assoc] using this

theorem refines_run (h : List (Op PDoc SDoc R)) : Refines π (run (A := A) π h) h := by
  have := refines_runFrom (A := A) π h {} [] (refines_nil π)
  simpa [run] using this

/-- in a store that refines `h`, a stateful call answers as the spec says -/
theorem statefulAuth_of_refines (st : Store P S) (h : List (Op PDoc SDoc R)) (inv : Refines π st h)
    (c : SCall R) : statefulAuth π st c = specAnswer (A := A) π h c := by
  obtain ⟨hp, hs⟩ := inv
  have hlp : ∀ d, latestPolicies π h c.policySetId = some d → (π.parsePolicies d).isSome := by
    intro d hd
    simp only [latestPolicies] at hd
    obtain ⟨op, _, hop⟩ := List.exists_of_findSome?_eq_some hd
    cases op <;> simp only [ackPolicies] at hop
    · split at hop
      · rename_i hc; cases hop; exact hc.2
      · cases hop
    all_goals cases hop
  have hls : ∀ n d, latestSchema π h n = some d → (π.parseSchema d).isSome := by
    intro n d hd
    simp only [latestSchema] at hd
    obtain ⟨op, _, hop⟩ := List.exists_of_findSome?_eq_some hd
    cases op <;> simp only [ackSchema] at hop
    · cases hop
    · split at hop
      · rename_i hc; cases hop; exact hc.2
      · cases hop
    · cases hop
  unfold statefulAuth specAnswer statelessAuth
  rw [hp c.policySetId]
  cases hsn : c.schemaName with
  | none =>
    simp only [lookupSchema, latestOptSchema]
    cases hl : latestPolicies π h c.policySetId with
    | none => simp
    | some d =>
      have := hlp d hl
      cases hd : π.parsePolicies d with
      | none => simp [hd] at this
      | some p => simp [parseOptSchema, hd]
  | some n =>
    simp only [lookupSchema, latestOptSchema, hs n]
    cases hl2 : latestSchema π h n with
    | none => simp
    | some sd =>
      have h2 := hls n sd hl2
      cases hsd : π.parseSchema sd with
      | none => simp [hsd] at h2
      | some s =>
        cases hl : latestPolicies π h c.policySetId with
        | none => simp [hsd]
        | some d =>
          have := hlp d hl
          cases hd : π.parsePolicies d with
          | none => simp [hd] at this
          | some p => simp [parseOptSchema, hd, hsd]

end

end Cedar.C19
