import CedarVerif.Lemmas.SyntaxFrag
/-
C05: the precedence-climbing induction `parseFuel (f+1) (printE e ++ rest) = (e, rest)` on the fragment `inFrag`.
-/
namespace Cedar.Syntax
open Cedar

theorem headLv_seven_ge {rest : List Token} (h : headLv rest = 7) : 1 ≤ headLv rest := by omega

theorem stop_of_seven {opOf : OpOf} {rest : List Token} (h : ∀ t, 6 < tokLevel t → opOf t = none) (hr : headLv rest = 7) :
    ∀ t r, rest = t :: r → opOf t = none := by
  intro t r e; subst e; exact h t (by simp [headLv] at hr; omega)

theorem parse_print_aux (me : Char → Bool) : ∀ k e, fsize e ≤ k → inFrag e = true → ∀ f, fsize e ≤ f →
    ∀ rest, headLv rest = 7 →
    ∃ s, parseFuel (f + 1) (printE me e ++ rest) = some (s, rest) ∧ s.toExpr = some e := by
  intro k
  induction k with
  | zero => intro e hk; have := fsize_pos e; omega
  | succ k ih =>
    intro e hk hf f hfe rest hr
    have hr1 : 1 ≤ headLv rest := by omega
    -- operands: sub-expressions `a` with `fsize a < fsize e`, parsed with `pe = parseFuel f`, `f = f' + 1`
    have W : ∀ a, fsize a < fsize e → inFrag a = true → ∀ r, 1 ≤ headLv r →
        ∃ s, member (parseFuel f) (paren (needsParens a) (printE me a) ++ r) = some (s, r) ∧ s.toExpr = some a ∧
          startsPlain (paren (needsParens a) (printE me a) ++ r) = true := by
      intro a ha hfa r hr'
      obtain ⟨f', rfl⟩ : ∃ f', f = f' + 1 := ⟨f - 1, by have := fsize_pos a; omega⟩
      obtain ⟨s, h1, h2⟩ := mwp_member me f' a hfa (fun r' hr'' => ih a (by omega) hfa f' (by omega) r' hr'') r hr'
      exact ⟨s, h1, h2, startsPlain_mwp me a hfa r⟩
    -- sub-expressions inside brackets / `if`: one unit of fuel less
    have S : ∀ a, fsize a < fsize e → inFrag a = true → ∀ r, headLv r = 7 →
        ∃ s, parseFuel f (printE me a ++ r) = some (s, r) ∧ s.toExpr = some a := by
      intro a ha hfa r hr'
      obtain ⟨f', rfl⟩ : ∃ f', f = f' + 1 := ⟨f - 1, by have := fsize_pos a; omega⟩
      exact ih a (by omega) hfa f' (by omega) r hr'
    show ∃ s, exprLevel (parseFuel f) (printE me e ++ rest) = some (s, rest) ∧ s.toExpr = some e
    cases e
    case lit p =>
      have ha : isAtom (.lit p) = true := by cases p <;> simp_all [isAtom, inFrag]
      obtain ⟨f', rfl⟩ : ∃ f', f = f' + 1 := ⟨f - 1, by simp [fsize] at hfe; omega⟩
      obtain ⟨s, h1, h2⟩ := atom_member me (parseFuel f') _ hf ha rest hr1
      have hs := startsPlain_mwp me (.lit p) hf rest
      rw [show needsParens (.lit p) = false from rfl] at hs
      exact ⟨s, m_top h1 hs hr, h2⟩
    case var v =>
      obtain ⟨f', rfl⟩ : ∃ f', f = f' + 1 := ⟨f - 1, by simp [fsize] at hfe; omega⟩
      obtain ⟨s, h1, h2⟩ := atom_member me (parseFuel f') _ hf rfl rest hr1
      have hs := startsPlain_mwp me (.var v) hf rest
      rw [show needsParens (.var v) = false from rfl] at hs
      exact ⟨s, m_top h1 hs hr, h2⟩
    case ite c t e' =>
      simp only [inFrag, Bool.and_eq_true] at hf
      simp only [fsize] at hfe hk W S
      obtain ⟨sc, hc1, hc2⟩ := S c (by omega) hf.1.1 (.ident "then" :: (printE me t ++ .ident "else" :: (printE me e' ++ rest))) (by simp [headLv, tokLevel])
      obtain ⟨st, ht1, ht2⟩ := S t (by omega) hf.1.2 (.ident "else" :: (printE me e' ++ rest)) (by simp [headLv, tokLevel])
      obtain ⟨se, he1, he2⟩ := S e' (by omega) hf.2 rest hr
      refine ⟨.expr (.ite c t e'), ?_, rfl⟩
      simp only [printE, List.cons_append, List.append_assoc]
      simp only [exprLevel, hc1, ht1, he1, hc2, ht2, he2]
    case and a b =>
      simp only [inFrag, Bool.and_eq_true, Bool.not_eq_true'] at hf
      simp only [fsize] at hfe hk W S
      obtain ⟨⟨⟨hfa, hfb⟩, hlit⟩, hna⟩ := hf
      obtain ⟨sb, hb1, hb2, hbs⟩ := W b (by omega) hfb rest hr1
      obtain ⟨sa, ha1, ha2, has⟩ := W a (by omega) hfa (.andand :: (paren (needsParens b) (printE me b) ++ rest)) (by simp [headLv, tokLevel])
      have hA := m_rel ha1 has (by simp [headLv, tokLevel])
      have hB := m_rel hb1 hbs (by omega)
      have hc := chain_one (opOf := andOp) (g := mkAnd) rfl hA ha2 hB hb2 (stop_of_seven (fun t h => andOp_none (by omega)) hr)
      rw [mkAnd_eq hlit] at hc
      refine ⟨.expr (.and a b), ?_, rfl⟩
      simp only [printE, hna, Bool.not_false, Bool.and_true, List.append_assoc]
      rw [to_expr (not_if_of_plain (by simpa [List.append_assoc] using has))]
      exact to_or hc (by omega)
    case or a b =>
      simp only [inFrag, Bool.and_eq_true, Bool.not_eq_true'] at hf
      simp only [fsize] at hfe hk W S
      obtain ⟨⟨⟨hfa, hfb⟩, hlit⟩, hna⟩ := hf
      obtain ⟨sb, hb1, hb2, hbs⟩ := W b (by omega) hfb rest hr1
      obtain ⟨sa, ha1, ha2, has⟩ := W a (by omega) hfa (.oror :: (paren (needsParens b) (printE me b) ++ rest)) (by simp [headLv, tokLevel])
      have hA := m_and ha1 has (by simp [headLv, tokLevel])
      have hB := m_and hb1 hbs (by omega)
      have hc := chain_one (opOf := orOp) (g := mkOr) rfl hA ha2 hB hb2 (stop_of_seven (fun t h => orOp_none h) hr)
      rw [mkOr_eq hlit] at hc
      refine ⟨.expr (.or a b), ?_, rfl⟩
      simp only [printE, hna, Bool.not_false, Bool.and_true, List.append_assoc]
      rw [to_expr (not_if_of_plain (by simpa [List.append_assoc] using has))]
      exact hc
    case unaryApp op a =>
      simp only [fsize] at hfe hk W S
      cases op with
      | not =>
        simp only [inFrag] at hf
        obtain ⟨sa, ha1, ha2, has⟩ := W a (by omega) hf rest hr1
        refine ⟨.expr (.unaryApp .not a), ?_, rfl⟩
        simp only [printE, List.cons_append]
        have hu : unary (parseFuel f) (.bang :: (paren (needsParens a) (printE me a) ++ rest)) = some (.expr (.unaryApp .not a), rest) := by
          simp only [unary, countBang, countBang_plain has]
          simp [ha1, ha2, applyN]
        exact add_to_top (unary_to_add hu (by omega)) hr (by intro r h; cases h)
      | neg =>
        simp only [inFrag] at hf
        obtain ⟨sa, ha1, ha2⟩ := S a (by omega) hf (.rparen :: rest) (by simp [headLv, tokLevel])
        refine ⟨.expr (.unaryApp .neg a), ?_, rfl⟩
        simp only [printE, List.cons_append, List.append_assoc, List.nil_append]
        have hm : member (parseFuel f) (.lparen :: (printE me a ++ .rparen :: rest)) = some (.expr a, rest) := by
          apply member_of_primary _ hr1
          simp only [primary, ha1]
          simp [ha2]
        have hu : unary (parseFuel f) (.minus :: .lparen :: (printE me a ++ .rparen :: rest)) = some (.expr (.unaryApp .neg a), rest) := by
          simp only [unary, countMinus]
          simp [hm, EOS.toExpr, applyN]
        exact add_to_top (unary_to_add hu (by omega)) hr (by intro r h; cases h)
      | isEmpty => simp [inFrag] at hf
    case binaryApp op a b =>
      simp only [inFrag, Bool.and_eq_true, Bool.not_eq_true'] at hf
      simp only [fsize] at hfe hk W S
      obtain ⟨⟨⟨hop, hfa⟩, hfb⟩, hna⟩ := hf
      obtain ⟨sb, hb1, hb2, hbs⟩ := W b (by omega) hfb rest hr1
      have Wa := fun tok (h : 1 ≤ tokLevel tok) => W a (by omega) hfa (tok :: (paren (needsParens b) (printE me b) ++ rest)) (by simpa [headLv] using h)
      refine ⟨.expr (.binaryApp op a b), ?_, rfl⟩
      cases op <;> simp [infixOp] at hop
      case eq =>
        obtain ⟨sa, ha1, ha2, has⟩ := Wa .eqeq (by simp [tokLevel])
        simp only [printE, infixTok, List.append_assoc]
        have h := rel_one (tok := .eqeq) (by simp) rfl (m_add ha1 has (by simp [headLv, tokLevel])) ha2 (m_add hb1 hbs (by omega)) hb2 hr
        rw [to_expr (not_if_of_plain (by simpa [List.append_assoc] using has))]
        exact to_or (to_and h (by omega)) (by omega)
      case less =>
        obtain ⟨sa, ha1, ha2, has⟩ := Wa .lt (by simp [tokLevel])
        simp only [printE, infixTok, List.append_assoc]
        have h := rel_one (tok := .lt) (by simp) rfl (m_add ha1 has (by simp [headLv, tokLevel])) ha2 (m_add hb1 hbs (by omega)) hb2 hr
        rw [to_expr (not_if_of_plain (by simpa [List.append_assoc] using has))]
        exact to_or (to_and h (by omega)) (by omega)
      case lessEq =>
        obtain ⟨sa, ha1, ha2, has⟩ := Wa .le (by simp [tokLevel])
        simp only [printE, infixTok, List.append_assoc]
        have h := rel_one (tok := .le) (by simp) rfl (m_add ha1 has (by simp [headLv, tokLevel])) ha2 (m_add hb1 hbs (by omega)) hb2 hr
        rw [to_expr (not_if_of_plain (by simpa [List.append_assoc] using has))]
        exact to_or (to_and h (by omega)) (by omega)
      case mem =>
        obtain ⟨sa, ha1, ha2, has⟩ := Wa (.ident "in") (by simp [tokLevel])
        simp only [printE, infixTok, List.append_assoc]
        have h := rel_one (tok := .ident "in") (by simp) rfl (m_add ha1 has (by simp [headLv, tokLevel])) ha2 (m_add hb1 hbs (by omega)) hb2 hr
        rw [to_expr (not_if_of_plain (by simpa [List.append_assoc] using has))]
        exact to_or (to_and h (by omega)) (by omega)
      case add =>
        obtain ⟨sa, ha1, ha2, has⟩ := Wa .plus (by simp [tokLevel])
        simp only [printE, infixTok, hna, Bool.not_false, Bool.and_true, List.append_assoc]
        have h := chain_one (opOf := addOp) (tok := .plus) rfl (m_mult ha1 has (by simp [headLv, tokLevel])) ha2 (m_mult hb1 hbs (by omega)) hb2
          (stop_of_seven (fun t h => addOp_none (by omega)) hr)
        exact add_to_top h hr (not_if_of_plain (by simpa [List.append_assoc] using has))
      case sub =>
        obtain ⟨sa, ha1, ha2, has⟩ := Wa .minus (by simp [tokLevel])
        simp only [printE, infixTok, hna, Bool.not_false, Bool.and_true, List.append_assoc]
        have h := chain_one (opOf := addOp) (tok := .minus) rfl (m_mult ha1 has (by simp [headLv, tokLevel])) ha2 (m_mult hb1 hbs (by omega)) hb2
          (stop_of_seven (fun t h => addOp_none (by omega)) hr)
        exact add_to_top h hr (not_if_of_plain (by simpa [List.append_assoc] using has))
      case mul =>
        obtain ⟨sa, ha1, ha2, has⟩ := Wa .star (by simp [tokLevel])
        simp only [printE, infixTok, hna, Bool.not_false, Bool.and_true, List.append_assoc]
        have h := chain_one (opOf := multOp) (tok := .star) rfl (m_unary ha1 has) ha2 (m_unary hb1 hbs) hb2
          (stop_of_seven (fun t h => multOp_none (by omega)) hr)
        exact add_to_top (to_add h (by omega)) hr (not_if_of_plain (by simpa [List.append_assoc] using has))
    all_goals (simp [inFrag] at hf)

end Cedar.Syntax
