import CedarVerif.Cedar.Json.Value
import CedarVerif.Lemmas.Beq
/-
Helper lemmas for C10: `Except` binds, key-sorted association lists (`insertKV`, `sortKVs`), well-formedness of
values (what a Rust `Value` guarantees: i64 longs, `BTreeMap` records), reserved keys.
-/
namespace Cedar
namespace CJson

theorem bind_ok {ε α β} {x : Except ε α} {f : α → Except ε β} {b : β} :
    (x >>= f) = .ok b ↔ ∃ a, x = .ok a ∧ f a = .ok b := by
  cases x with
  | error e => simp [bind, Except.bind]
  | ok a => simp [bind, Except.bind]

theorem bind_err {ε α β} {x : Except ε α} {f : α → Except ε β} {e : ε} :
    (x >>= f) = .error e ↔ x = .error e ∨ ∃ a, x = .ok a ∧ f a = .error e := by
  cases x with
  | error e' => simp [bind, Except.bind]
  | ok a => simp [bind, Except.bind]

/-! ### key-sorted association lists -/

/-- strictly increasing keys (a `BTreeMap` in iteration order) -/
def Sorted : List String → Prop
  | [] => True
  | k :: rest => (∀ k', k' ∈ rest → k < k') ∧ Sorted rest

theorem insertKV_append {α} (k : String) (v : α) (acc : List (String × α))
    (h : ∀ p, p ∈ acc → p.1 < k) : insertKV k v acc = acc ++ [(k, v)] := by
  induction acc with
  | nil => rfl
  | cons p acc ih =>
    obtain ⟨k', v'⟩ := p
    have hk : k' < k := h (k', v') (List.mem_cons_self ..)
    have h1 : ¬ k < k' := String.lt_asymm hk
    have h2 : (k == k') = false := by
      simp only [beq_eq_false_iff_ne, ne_eq]
      intro he; subst he; exact String.lt_irrefl _ hk
    simp only [insertKV, h1, if_false, h2, Bool.false_eq_true, List.cons_append, List.cons.injEq, true_and]
    exact ih (fun p hp => h p (List.mem_cons_of_mem _ hp))

theorem foldl_insertKV_sorted {α} (rest acc : List (String × α))
    (hs : Sorted ((acc ++ rest).map Prod.fst)) :
    rest.foldl (fun acc kv => insertKV kv.1 kv.2 acc) acc = acc ++ rest := by
  induction rest generalizing acc with
  | nil => simp
  | cons p rest ih =>
    simp only [List.foldl_cons]
    have hlt : ∀ q, q ∈ acc → q.1 < p.1 := by
      intro q hq
      clear ih
      induction acc with
      | nil => cases hq
      | cons a acc iha =>
        simp only [List.cons_append, List.map_cons, Sorted] at hs
        rcases List.mem_cons.mp hq with rfl | hq
        · exact hs.1 p.1 (by simp)
        · exact iha hs.2 hq
    rw [insertKV_append p.1 p.2 acc hlt]
    have : acc ++ [(p.1, p.2)] ++ rest = acc ++ p :: rest := by simp
    rw [ih (acc ++ [(p.1, p.2)]) (by rw [this]; exact hs), this]

theorem sortKVs_sorted {α} (kvs : List (String × α)) (hs : Sorted (kvs.map Prod.fst)) : sortKVs kvs = kvs := by
  have := foldl_insertKV_sorted kvs [] (by simpa using hs)
  simpa [sortKVs] using this

theorem Sorted.not_mem {k : String} {rest : List String} (h : Sorted (k :: rest)) : ¬ k ∈ rest := by
  intro hm
  exact String.lt_irrefl _ (h.1 k hm)

theorem hasDup_sorted (ks : List String) (hs : Sorted ks) : hasDup ks = false := by
  induction ks with
  | nil => rfl
  | cons k rest ih =>
    simp only [hasDup, Bool.or_eq_false_iff]
    refine ⟨?_, ih hs.2⟩
    have := Sorted.not_mem hs
    simpa using this

/-! ### well-formed values -/

mutual
/-- what every Rust `Value` satisfies: longs are i64, entity type names are `Name`s, records are `BTreeMap`s
    (strictly key-sorted) -/
def WF : Value → Prop
  | .prim (.int i) => inI64 i = true
  | .prim (.entityUID u) => validName u.ty = true
  | .prim _ => True
  | .ext _ => True
  | .set vs => WFList vs
  | .record kvs => WFKVs kvs ∧ Sorted (kvs.map Prod.fst)
def WFList : List Value → Prop
  | [] => True
  | v :: vs => WF v ∧ WFList vs
def WFKVs : List (String × Value) → Prop
  | [] => True
  | (_, v) :: kvs => WF v ∧ WFKVs kvs
end

mutual
/-- some record inside the value has a reserved key (`__entity`, `__extn`, `__expr`) -/
def hasReserved : Value → Bool
  | .set vs => hasReservedList vs
  | .record kvs => hasReservedKey kvs || hasReservedKVs kvs
  | _ => false
def hasReservedList : List Value → Bool
  | [] => false
  | v :: vs => hasReserved v || hasReservedList vs
def hasReservedKVs : List (String × Value) → Bool
  | [] => false
  | (_, v) :: kvs => hasReserved v || hasReservedKVs kvs
end

mutual
/-- every extension value inside `v` satisfies `P` -/
def AllExt (P : Ext → Prop) : Value → Prop
  | .ext x => P x
  | .prim _ => True
  | .set vs => AllExtList P vs
  | .record kvs => AllExtKVs P kvs
def AllExtList (P : Ext → Prop) : List Value → Prop
  | [] => True
  | v :: vs => AllExt P v ∧ AllExtList P vs
def AllExtKVs (P : Ext → Prop) : List (String × Value) → Prop
  | [] => True
  | (_, v) :: kvs => AllExt P v ∧ AllExtKVs P kvs
end

end CJson
end Cedar
