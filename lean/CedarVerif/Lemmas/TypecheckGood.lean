import CedarVerif.Lemmas.TypecheckSIP
/-
C03: the strict and the permissive least upper bound agree on the types that strict typing produces ("good" types: single
entity types, no `Never`/`AnyEntity`, closed records with distinct keys).  Used for `strict_implies_permissive`.
-/
namespace Cedar.C03

open Cedar

-- closed records with distinct keys, everywhere inside the type
mutual
def cn : CedarType → Bool
  | .set (some t) => cn t
  | .record attrs o => !o && cnAttrs attrs && decide ((attrs.map (·.1)).Nodup)
  | _ => true
def cnAttrs : List (String × Bool × CedarType) → Bool
  | [] => true
  | (_, _, t) :: rest => cn t && cnAttrs rest
end

/-- the types strict typing produces -/
def GoodTy (t : CedarType) : Prop := t.mono = true ∧ cn t = true

theorem cnAttrs_iff {attrs : Attrs} : cnAttrs attrs = true ↔ ∀ k r t, (k, r, t) ∈ attrs → cn t = true := by
  induction attrs with
  | nil => simp [cnAttrs]
  | cons a rest ih =>
    obtain ⟨k, r, t⟩ := a
    simp only [cnAttrs, Bool.and_eq_true, ih, List.mem_cons, Prod.mk.injEq]
    constructor
    · rintro ⟨h1, h2⟩ k' r' t' (⟨_, _, rfl⟩ | hm)
      · exact h1
      · exact h2 k' r' t' hm
    · intro h
      exact ⟨h k r t (Or.inl ⟨rfl, rfl, rfl⟩), fun k' r' t' hm => h k' r' t' (Or.inr hm)⟩

theorem GoodTy.set {t : CedarType} (h : GoodTy (.set (some t))) : GoodTy t := by
  obtain ⟨h1, h2⟩ := h
  simp only [CedarType.mono] at h1
  simp only [cn] at h2
  exact ⟨h1, h2⟩

theorem GoodTy.record {attrs : Attrs} {o : Bool} (h : GoodTy (.record attrs o)) :
    o = false ∧ (attrs.map (·.1)).Nodup ∧ ∀ k r t, (k, r, t) ∈ attrs → GoodTy t := by
  obtain ⟨h1, h2⟩ := h
  simp only [CedarType.mono] at h1
  simp only [cn, Bool.and_eq_true, Bool.not_eq_true', decide_eq_true_eq] at h2
  refine ⟨h2.1.1, h2.2, fun k r t hm => ⟨(monoAttrs_iff.mp h1) k r t hm, (cnAttrs_iff.mp h2.1.2) k r t hm⟩⟩

/-- what `Attributes::is_subtype` says, exactly -/
theorem attrsSubtype_iff {m : ValidationMode} {a0 : Attrs} : ∀ {a1 : Attrs}, attrsSubtype m a0 a1 = true ↔
    ∀ k r1 t1, (k, r1, t1) ∈ a1 → ∃ r0 t0, Attrs.find? a0 k = some (r0, t0) ∧
      (if m.isStrict then r0 == r1 else (r0 || !r1)) = true ∧ isSubtype m t0 t1 = true
  | [] => by simp [attrsSubtype]
  | (k', r', t') :: rest => by
    simp only [attrsSubtype, Bool.and_eq_true, attrsSubtype_iff (a1 := rest), List.mem_cons, Prod.mk.injEq]
    constructor
    · rintro ⟨h1, h2⟩ k r1 t1 (⟨rfl, rfl, rfl⟩ | hm)
      · cases hf : Attrs.find? a0 k with
        | none => rw [hf] at h1; simp at h1
        | some qt =>
          obtain ⟨r0, t0⟩ := qt
          rw [hf] at h1
          simp only [Bool.and_eq_true] at h1
          exact ⟨r0, t0, rfl, h1.1, h1.2⟩
      · exact h2 k r1 t1 hm
    · intro h
      refine ⟨?_, fun k r1 t1 hm => h k r1 t1 (Or.inr hm)⟩
      obtain ⟨r0, t0, hf, hr, hs⟩ := h k' r' t' (Or.inl ⟨rfl, rfl, rfl⟩)
      rw [hf]
      simp only [Bool.and_eq_true]
      exact ⟨hr, hs⟩

/-- strict subtyping implies permissive subtyping -/
theorem isSubtype_strict_perm : ∀ (n : Nat) (a b : CedarType), sizeOf b < n → isSubtype .strict a b = true →
    isSubtype .permissive a b = true := by
  intro n
  induction n with
  | zero => intro a b hn; omega
  | succ n ih =>
    intro a b hn h
    cases a <;> cases b <;> (try simp only [isSubtype, Bool.false_eq_true] at h) <;> (try (simp only [isSubtype]; done)) <;>
      (try (simp only [isSubtype]; exact h))
    case set.set x y =>
      cases x <;> cases y <;> simp only [isSubtype, Bool.false_eq_true] at h ⊢
      rename_i e0 e1
      refine ih e0 e1 ?_ h
      simp at hn; omega
    case record.record a0 o0 a1 o1 =>
      simp only [ValidationMode.isStrict, Bool.not_true, Bool.and_false, Bool.false_and, Bool.false_or, Bool.and_eq_true,
        Bool.or_eq_true, Bool.not_eq_true'] at h
      obtain ⟨hopen, hkeys, hattrs⟩ := h
      simp only [isSubtype, ValidationMode.isStrict, Bool.not_false, Bool.and_true, Bool.and_eq_true, Bool.or_eq_true,
        Bool.not_eq_true']
      refine ⟨hopen, Or.inr ⟨hkeys, ?_⟩⟩
      rw [attrsSubtype_iff] at hattrs ⊢
      intro k r1 t1 hm
      obtain ⟨r0, t0, hf, hr, hs⟩ := hattrs k r1 t1 hm
      refine ⟨r0, t0, hf, ?_, ih t0 t1 ?_ hs⟩
      · simp only [ValidationMode.isStrict, if_true, beq_iff_eq] at hr
        subst hr
        cases r0 <;> simp [ValidationMode.isStrict]
      · have := List.sizeOf_lt_of_mem hm
        simp at this hn
        omega
    case entity.anyEntity l => simp [ValidationMode.isStrict] at h
    case entity.entity l0 l1 =>
      simp only [ValidationMode.isStrict, if_true, beq_iff_eq] at h
      subst h
      simp [isSubtype, ValidationMode.isStrict, lubSubset]


theorem isSubtype_strict_perm' {a b : CedarType} (h : isSubtype .strict a b = true) : isSubtype .permissive a b = true :=
  isSubtype_strict_perm (sizeOf b + 1) a b (Nat.lt_succ_self _) h

theorem lubAttrsStrict_none {k : String} {r0 r1 : Bool} {t0 t1 : CedarType} {a1 : Attrs} :
    ∀ {a0 : Attrs}, (k, r0, t0) ∈ a0 → Attrs.find? a1 k = some (r1, t1) → (r0 ≠ r1 ∨ lub .strict t0 t1 = none) →
      lubAttrsStrict .strict a0 a1 = none
  | [], hm, _, _ => by cases hm
  | (k', r', t') :: rest, hm, hf, hbad => by
    simp only [lubAttrsStrict]
    rcases List.mem_cons.mp hm with heq | hm'
    · simp only [Prod.mk.injEq] at heq
      obtain ⟨rfl, rfl, rfl⟩ := heq
      rw [hf]
      simp only
      rcases hbad with hne | hl
      · cases hl' : lub .strict t0 t1 <;> cases hr : lubAttrsStrict .strict rest a1 <;> simp [hne]
      · rw [hl]
    · have ih := lubAttrsStrict_none hm' hf hbad
      rw [ih]
      cases Attrs.find? a1 k' with
      | none => rfl
      | some qt =>
        obtain ⟨r1', t1'⟩ := qt
        dsimp only
        cases lub .strict t' t1' <;> rfl

theorem sameKeys_symm {a b : Attrs} (h : sameKeys a b = true) : sameKeys b a = true := by
  unfold sameKeys at h ⊢
  simp only [beq_iff_eq] at h ⊢
  exact h.symm

/-- on good types, where permissive subtyping holds but strict subtyping does not (a required attribute against an
optional one), the strict least upper bound does not exist -/
theorem subtype_gap : ∀ (n : Nat) (a b : CedarType), sizeOf a + sizeOf b < n → GoodTy a → GoodTy b →
    isSubtype .permissive a b = true → isSubtype .strict a b = false →
    isSubtype .strict b a = false ∧ lub .strict a b = none ∧ lub .strict b a = none := by
  intro n
  induction n with
  | zero => intro a b hn; omega
  | succ n ih =>
    intro a b hn ga gb hp hs
    cases a <;> cases b <;> (try (simp [isSubtype] at hp hs; done)) <;> (try (simp [isSubtype] at hs; done)) <;>
      (try (simp [isSubtype] at hp; done))
    case bool.bool x y =>
      simp only [isSubtype] at hp hs
      rw [hs] at hp; cases hp
    case set.set x y =>
      cases x <;> cases y <;> (try (simp [isSubtype] at hp hs; done)) <;> (try (simp [isSubtype] at hs; done)) <;>
        (try (simp [isSubtype] at hp; done))
      rename_i e0 e1
      simp only [isSubtype] at hp hs
      obtain ⟨h1, h2, h3⟩ := ih e0 e1 (by simp at hn; omega) ga.set gb.set hp hs
      refine ⟨by simp only [isSubtype]; exact h1, ?_, ?_⟩
      · rw [lub.eq_def]; simp [isSubtype, hs, h1, h2]
      · rw [lub.eq_def]; simp [isSubtype, hs, h1, h3]
    case record.record a0 o0 a1 o1 =>
      obtain ⟨rfl, hn0, hg0⟩ := ga.record
      obtain ⟨rfl, hn1, hg1⟩ := gb.record
      simp only [isSubtype, ValidationMode.isStrict, Bool.not_false, Bool.not_true, Bool.or_false, Bool.true_and, Bool.false_and,
        Bool.and_false, Bool.false_or, Bool.and_eq_true, Bool.and_eq_false_iff] at hp hs
      obtain ⟨hkeys, hattrs⟩ := hp
      have hsattrs : ¬ attrsSubtype .strict a0 a1 = true := by
        rcases hs with h | h
        · rw [hkeys] at h; cases h
        · rw [h]; simp
      rw [attrsSubtype_iff] at hattrs hsattrs
      -- the offending attribute
      have hw : ∃ k r0 t0 r1 t1, (k, r0, t0) ∈ a0 ∧ (k, r1, t1) ∈ a1 ∧ Attrs.find? a0 k = some (r0, t0) ∧
          Attrs.find? a1 k = some (r1, t1) ∧ isSubtype .permissive t0 t1 = true ∧
          (r0 ≠ r1 ∨ isSubtype .strict t0 t1 = false) := by
        apply Classical.byContradiction
        intro hno
        apply hsattrs
        intro k r1 t1 hm
        obtain ⟨r0, t0, hf, _, hsub⟩ := hattrs k r1 t1 hm
        refine ⟨r0, t0, hf, ?_, ?_⟩
        · simp only [ValidationMode.isStrict, if_true, beq_iff_eq]
          apply Classical.byContradiction
          intro hne
          exact hno ⟨k, r0, t0, r1, t1, find_mem hf, hm, hf, find_of_nodup hn1 hm, hsub, Or.inl hne⟩
        · cases hst : isSubtype .strict t0 t1 with
          | true => rfl
          | false => exact (hno ⟨k, r0, t0, r1, t1, find_mem hf, hm, hf, find_of_nodup hn1 hm, hsub, Or.inr hst⟩).elim
      obtain ⟨k, r0, t0, r1, t1, hm0, hm1, hf0, hf1, hsub, hbad⟩ := hw
      have hsz : sizeOf t0 + sizeOf t1 < n := by
        have h0 := List.sizeOf_lt_of_mem hm0
        have h1 := List.sizeOf_lt_of_mem hm1
        simp at h0 h1 hn
        omega
      have hrec : r0 ≠ r1 ∨ (isSubtype .strict t1 t0 = false ∧ lub .strict t0 t1 = none ∧ lub .strict t1 t0 = none) := by
        rcases hbad with h | h
        · exact Or.inl h
        · exact Or.inr (ih t0 t1 hsz (hg0 _ _ _ hm0) (hg1 _ _ _ hm1) hsub h)
      -- strict subtyping fails in the other direction too
      have hi : isSubtype .strict (.record a1 false) (.record a0 false) = false := by
        cases hb : isSubtype .strict (.record a1 false) (.record a0 false) with
        | false => rfl
        | true =>
          simp only [isSubtype, ValidationMode.isStrict, Bool.not_false, Bool.not_true, Bool.or_false, Bool.true_and,
            Bool.false_and, Bool.and_false, Bool.false_or, Bool.and_eq_true] at hb
          have := (attrsSubtype_iff.mp hb.2) k r0 t0 hm0
          obtain ⟨r1', t1', hf1', hr, hs'⟩ := this
          rw [hf1] at hf1'; cases hf1'
          simp only [ValidationMode.isStrict, if_true, beq_iff_eq] at hr
          rcases hrec with h | ⟨h, _, _⟩
          · exact (h hr.symm).elim
          · rw [h] at hs'; cases hs'
      have hs' : isSubtype .strict (.record a0 false) (.record a1 false) = false := by
        simp only [isSubtype, ValidationMode.isStrict, Bool.not_false, Bool.not_true, Bool.or_false, Bool.true_and,
          Bool.false_and, Bool.and_false, Bool.false_or, Bool.and_eq_false_iff]
        exact hs
      refine ⟨hi, ?_, ?_⟩
      · have hnone : lubAttrsStrict .strict a0 a1 = none :=
          lubAttrsStrict_none hm0 hf1 (by rcases hrec with h | ⟨_, h, _⟩; exact Or.inl h; exact Or.inr h)
        rw [lub.eq_def]
        simp [hs', hi, ValidationMode.isStrict, hkeys, hnone]
      · have hnone : lubAttrsStrict .strict a1 a0 = none :=
          lubAttrsStrict_none hm1 hf0 (by rcases hrec with h | ⟨_, _, h⟩; exact Or.inl (Ne.symm h); exact Or.inr h)
        rw [lub.eq_def]
        simp [hs', hi, ValidationMode.isStrict, sameKeys_symm hkeys, hnone]
    case entity.entity l0 l1 =>
      obtain ⟨T0, rfl⟩ := mono_entity ga.1
      obtain ⟨T1, rfl⟩ := mono_entity gb.1
      simp [isSubtype, ValidationMode.isStrict, lubSubset] at hp hs
      exact (hs hp).elim
    case entity.anyEntity l => have := gb.1; simp [CedarType.mono] at this
    case ext.ext x y =>
      simp only [isSubtype] at hp hs
      rw [hp] at hs; cases hs


/-- strict subtyping is reflexive on good types -/
theorem isSubtype_refl_aux : ∀ (n : Nat) (a : CedarType), sizeOf a < n → GoodTy a → isSubtype .strict a a = true := by
  intro n
  induction n with
  | zero => intro a hn; omega
  | succ n ih =>
    intro a hn ga
    cases a <;> (try (simp [isSubtype]; done))
    case set x =>
      cases x with
      | none => simp [isSubtype]
      | some e => simp only [isSubtype]; exact ih e (by simp at hn; omega) ga.set
    case entity l => simp [isSubtype, ValidationMode.isStrict]
    case record a0 o0 =>
      obtain ⟨rfl, hn0, hg0⟩ := ga.record
      simp only [isSubtype, ValidationMode.isStrict, Bool.not_false, Bool.or_false, Bool.true_and, Bool.not_true, Bool.and_false,
        Bool.false_and, Bool.false_or, Bool.and_eq_true]
      refine ⟨by simp [sameKeys], ?_⟩
      rw [attrsSubtype_iff]
      intro k r t hm
      refine ⟨r, t, find_of_nodup hn0 hm, by simp [ValidationMode.isStrict], ih t ?_ (hg0 _ _ _ hm)⟩
      have := List.sizeOf_lt_of_mem hm
      simp at this hn
      omega

theorem isSubtype_refl_good (a : CedarType) (ga : GoodTy a) : isSubtype .strict a a = true :=
  isSubtype_refl_aux (sizeOf a + 1) a (Nat.lt_succ_self _) ga

theorem lubAttrs_strict_perm {a1 : Attrs} (hg1 : ∀ k r t, (k, r, t) ∈ a1 → GoodTy t) :
    ∀ {a0 attrs : Attrs},
      (∀ k r0 t0, (k, r0, t0) ∈ a0 → ∀ t1 t, GoodTy t1 → lub .strict t0 t1 = some t → lub .permissive t0 t1 = some t) →
      lubAttrsStrict .strict a0 a1 = some attrs → lubAttrsPermissive .permissive a0 a1 = attrs
  | [], attrs, _, h => by
    simp only [lubAttrsStrict, Option.some.injEq] at h
    subst h; rfl
  | (k, r0, t0) :: rest, attrs, ih, h => by
    simp only [lubAttrsStrict] at h
    cases hf1 : Attrs.find? a1 k with
    | none => rw [hf1] at h; cases h
    | some qt =>
      obtain ⟨r1, t1⟩ := qt
      rw [hf1] at h
      simp only at h
      cases hl : lub .strict t0 t1 with
      | none => rw [hl] at h; simp at h
      | some t =>
        cases hr : lubAttrsStrict .strict rest a1 with
        | none => rw [hl, hr] at h; simp at h
        | some rest' =>
          rw [hl, hr] at h
          simp only at h
          split at h
          · simp only [Option.some.injEq] at h
            subst h
            have hp := ih k r0 t0 List.mem_cons_self t1 t (hg1 _ _ _ (find_mem hf1)) hl
            have hrest := lubAttrs_strict_perm hg1 (fun k' r' t' hm => ih k' r' t' (List.mem_cons_of_mem _ hm)) hr
            simp only [lubAttrsPermissive, hf1, hp, hrest]
          · cases h

/-- on good types the permissive least upper bound is the strict one, when the latter exists -/
theorem lub_strict_perm : ∀ (n : Nat) (a b c : CedarType), sizeOf a < n → GoodTy a → GoodTy b →
    lub .strict a b = some c → lub .permissive a b = some c := by
  intro n
  induction n with
  | zero => intro a b c hn; omega
  | succ n ih =>
    intro a b c hn ga gb h
    by_cases h1 : isSubtype .strict a b = true
    · have hc : c = b := by
        rw [lub.eq_def] at h; simp only [h1, if_true, Option.some.injEq] at h; exact h.symm
      subst hc
      rw [lub.eq_def]; simp only [isSubtype_strict_perm' h1, if_true]
    · have h1' : isSubtype .strict a b = false := by simpa using h1
      by_cases h2 : isSubtype .strict b a = true
      · have hc : c = a := by
          rw [lub.eq_def] at h; simp only [h1', h2, Bool.false_eq_true, if_false, if_true, Option.some.injEq] at h; exact h.symm
        subst hc
        have hp1 : isSubtype .permissive c b = false := by
          cases hp : isSubtype .permissive c b with
          | false => rfl
          | true =>
            have := (subtype_gap _ c b (Nat.lt_succ_self _) ga gb hp h1').1
            rw [h2] at this; cases this
        rw [lub.eq_def]; simp only [hp1, isSubtype_strict_perm' h2, Bool.false_eq_true, if_false, if_true]
      · have h2' : isSubtype .strict b a = false := by simpa using h2
        have hp1 : isSubtype .permissive a b = false := by
          cases hp : isSubtype .permissive a b with
          | false => rfl
          | true =>
            have := (subtype_gap _ a b (Nat.lt_succ_self _) ga gb hp h1').2.1
            rw [h] at this; cases this
        have hp2 : isSubtype .permissive b a = false := by
          cases hp : isSubtype .permissive b a with
          | false => rfl
          | true =>
            have := (subtype_gap _ b a (Nat.lt_succ_self _) gb ga hp h2').2.2
            rw [h] at this; cases this
        rw [lub.eq_def] at h
        simp only [h1', h2', Bool.false_eq_true, if_false] at h
        split at h
        · cases h
          rw [lub.eq_def]; simp only [hp1, hp2, Bool.false_eq_true, if_false]
        · cases h
          rw [lub.eq_def]; simp only [hp1, hp2, Bool.false_eq_true, if_false]
        · cases h
          rw [lub.eq_def]; simp only [hp1, hp2, Bool.false_eq_true, if_false]
        · rename_i e0 e1
          cases hl : lub .strict e0 e1 with
          | none => rw [hl] at h; cases h
          | some t =>
            rw [hl] at h; cases h
            have := ih e0 e1 t (by simp at hn; omega) ga.set gb.set hl
            rw [lub.eq_def]; simp only [hp1, hp2, Bool.false_eq_true, if_false, this, Option.map_some]
        · rename_i a0 o0 a1 o1
          simp only [ValidationMode.isStrict, if_true] at h
          by_cases hk : sameKeys a0 a1 = true
          · rw [if_pos hk] at h
            cases hl : lubAttrsStrict .strict a0 a1 with
            | none => rw [hl] at h; cases h
            | some attrs =>
              rw [hl] at h; cases h
              obtain ⟨_, _, hg0⟩ := ga.record
              obtain ⟨_, _, hg1⟩ := gb.record
              have hattrs : lubAttrsPermissive .permissive a0 a1 = attrs := by
                refine lubAttrs_strict_perm hg1 (fun k r0 t0 hm t1 t gt1 hlt => ih t0 t1 t ?_ (hg0 _ _ _ hm) gt1 hlt) hl
                have := List.sizeOf_lt_of_mem hm
                simp at this hn
                omega
              rw [lub.eq_def]
              simp only [hp1, hp2, Bool.false_eq_true, if_false, ValidationMode.isStrict, hattrs, Option.map_some]
          · rw [if_neg hk] at h; cases h
        · simp [ValidationMode.isStrict] at h
        · simp [ValidationMode.isStrict] at h
        · simp [ValidationMode.isStrict] at h
        · cases h

theorem lub_strict_perm' {a b c : CedarType} (ga : GoodTy a) (gb : GoodTy b) (h : lub .strict a b = some c) :
    lub .permissive a b = some c :=
  lub_strict_perm (sizeOf a + 1) a b c (Nat.lt_succ_self _) ga gb h


theorem lub_cn : ∀ (n : Nat) (a b c : CedarType), sizeOf a < n → GoodTy a → GoodTy b → lub .strict a b = some c → cn c = true := by
  intro n
  induction n with
  | zero => intro a b c hn; omega
  | succ n ih =>
    intro a b c hn ga gb h
    cases lub_cases h
    case sub_l hs => exact gb.2
    case sub_r hs => exact ga.2
    case bool => rfl
    case anySet => rfl
    case set e0 e1 t hl =>
      simp only [cn]
      exact ih e0 e1 t (by simp at hn; omega) ga.set gb.set hl
    case record a0 o0 a1 o1 attrs hk hl =>
      obtain ⟨rfl, hn0, hg0⟩ := ga.record
      obtain ⟨rfl, _, hg1⟩ := gb.record
      obtain ⟨hkeys, _, hmem⟩ := lubAttrsStrict_spec hl
      have hk' : a0.map (·.1) = a1.map (·.1) := by unfold sameKeys at hk; simpa using hk
      simp only [cn, Bool.and_eq_true, Bool.not_eq_true', decide_eq_true_eq, Bool.or_false, Bool.false_or, Bool.not_eq_false']
      refine ⟨⟨?_, ?_⟩, by rw [hkeys]; exact hn0⟩
      · simp only [List.all_eq_true, List.contains_iff_mem, hkeys]
        refine ⟨fun x hx => List.mem_map.mpr ⟨x, hx, rfl⟩, fun x hx => ?_⟩
        rw [hk']; exact List.mem_map.mpr ⟨x, hx, rfl⟩
      · rw [cnAttrs_iff]
        intro k r t hm
        obtain ⟨t0, t1, hm0, hm1, hlt⟩ := hmem k r t hm
        refine ih t0 t1 t ?_ (hg0 _ _ _ hm0) (hg1 _ _ _ hm1) hlt
        have := List.sizeOf_lt_of_mem hm0
        simp at this hn
        omega

theorem lub_good {a b c : CedarType} (ga : GoodTy a) (gb : GoodTy b) (h : lub .strict a b = some c) : GoodTy c :=
  ⟨lub_mono h ga.1 gb.1, lub_cn (sizeOf a + 1) a b c (Nat.lt_succ_self _) ga gb h⟩

theorem foldl_lub_strict_perm : ∀ (ts : List CedarType) (acc τ : CedarType), GoodTy acc → (∀ t, t ∈ ts → GoodTy t) →
    ts.foldl (fun acc t => acc.bind (fun a => lub .strict a t)) (some acc) = some τ →
    ts.foldl (fun acc t => acc.bind (fun a => lub .permissive a t)) (some acc) = some τ ∧ GoodTy τ
  | [], acc, τ, ga, _, h => by
    simp only [List.foldl_nil, Option.some.injEq] at h ⊢
    subst h; exact ⟨rfl, ga⟩
  | t :: ts, acc, τ, ga, hall, h => by
    simp only [List.foldl_cons, Option.bind_some] at h ⊢
    cases hl : lub .strict acc t with
    | none => rw [hl, foldl_lub_none] at h; cases h
    | some acc' =>
      rw [hl] at h
      have gt := hall t List.mem_cons_self
      rw [lub_strict_perm' ga gt hl]
      exact foldl_lub_strict_perm ts acc' τ (lub_good ga gt hl) (fun t' ht' => hall t' (List.mem_cons_of_mem _ ht')) h

/-- `lubAll` of good types: the permissive result is the strict one, and it is good -/
theorem lubAll_strict_perm {ts : List CedarType} {τ : CedarType} (hall : ∀ t, t ∈ ts → GoodTy t) (hne : ts ≠ [])
    (h : lubAll .strict ts = some τ) : lubAll .permissive ts = some τ ∧ GoodTy τ := by
  cases ts with
  | nil => exact (hne rfl).elim
  | cons t ts =>
    unfold lubAll at h ⊢
    simp only [List.foldl_cons, Option.bind_some] at h ⊢
    cases hl : lub .strict .never t with
    | none => rw [hl, foldl_lub_none] at h; cases h
    | some acc =>
      rw [hl] at h
      have := lub_never_l hl; subst this
      have hp : lub .permissive .never acc = some acc := by rw [lub.eq_def]; simp [isSubtype]
      rw [hp]
      exact foldl_lub_strict_perm ts acc τ (hall acc List.mem_cons_self) (fun t' ht' => hall t' (List.mem_cons_of_mem _ ht')) h

end Cedar.C03
