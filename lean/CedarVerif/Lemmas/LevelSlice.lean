import CedarVerif.Cedar.Slice
import CedarVerif.Cedar.Eval
/-
C16 helper lemmas about the level-n slice: lookups in the slice, monotonicity of `reach`, one-hop closure,
uids of sub-values.
-/
namespace Cedar.Slice
open Cedar

theorem find?_filter (P : EntityUID → Bool) (u : EntityUID) :
    ∀ (es : Entities), Entities.find? (es.filter (fun p => P p.1)) u = if P u then es.find? u else none
  | [] => by simp [Entities.find?]
  | (u', d) :: rest => by
      have ih := find?_filter P u rest
      by_cases hp : P u' = true
      · simp only [List.filter_cons, hp, if_true, Entities.find?]
        by_cases hu : (u' == u) = true
        · have : u' = u := by simpa using hu
          subst this
          simp [hp]
        · simp only [hu, Bool.false_eq_true, if_false]; exact ih
      · simp only [List.filter_cons, hp, Bool.false_eq_true, if_false, Entities.find?]
        by_cases hu : (u' == u) = true
        · have : u' = u := by simpa using hu
          subst this
          rw [ih]; simp [hp]
        · simp only [hu, Bool.false_eq_true, if_false]; exact ih

theorem find?_atLevel (n : Nat) (req : Request) (es : Entities) (u : EntityUID) :
    (atLevel n req es).find? u = if (reach es req n).contains u then es.find? u else none := by
  unfold atLevel
  exact find?_filter (fun u => (reach es req n).contains u) u es

/-- an entity uid within the first `n` hops is looked up in the slice exactly as in the store -/
theorem find?_atLevel_of_mem {n : Nat} {req : Request} {es : Entities} {u : EntityUID}
    (h : u ∈ reach es req n) : (atLevel n req es).find? u = es.find? u := by
  rw [find?_atLevel]
  have : (reach es req n).contains u = true := by simpa using h
  rw [this]; rfl

theorem reach_succ_mem {es : Entities} {req : Request} {n : Nat} {u : EntityUID}
    (h : u ∈ reach es req n) : u ∈ reach es req (n + 1) := by
  simp only [reach, List.mem_append]; exact Or.inl h

theorem reach_mono {es : Entities} {req : Request} {n m : Nat} (hnm : n ≤ m) {u : EntityUID}
    (h : u ∈ reach es req n) : u ∈ reach es req m := by
  induction hnm with
  | refl => exact h
  | step _ ih => exact reach_succ_mem ih

theorem reach_step {es : Entities} {req : Request} {n : Nat} {u w : EntityUID}
    (h : u ∈ reach es req n) (hw : w ∈ successors es u) : w ∈ reach es req (n + 1) := by
  simp only [reach, List.mem_append, List.mem_flatMap]
  exact Or.inr ⟨u, h, hw⟩

theorem uidsOf_lookupKV {kvs : List (String × Value)} {a : String} {x : Value}
    (h : lookupKV kvs a = some x) {u : EntityUID} (hu : u ∈ uidsOf x) : u ∈ uidsOfKVs kvs := by
  induction kvs with
  | nil => simp [lookupKV] at h
  | cons kv rest ih =>
    obtain ⟨k, v⟩ := kv
    simp only [lookupKV] at h
    simp only [uidsOfKVs, List.mem_append]
    split at h
    · cases h; exact Or.inl hu
    · exact Or.inr (ih h)

/-- the uids in an attribute (tag) value of a stored entity are one hop from it -/
theorem successors_attr {es : Entities} {u : EntityUID} {d : EntityData} (hd : es.find? u = some d)
    {a : String} {x : Value} (h : lookupKV d.attrs a = some x) {w : EntityUID} (hw : w ∈ uidsOf x) :
    w ∈ successors es u := by
  simp only [successors, hd, List.mem_append]
  exact Or.inl (uidsOf_lookupKV h hw)

theorem successors_tag {es : Entities} {u : EntityUID} {d : EntityData} (hd : es.find? u = some d)
    {a : String} {x : Value} (h : lookupKV d.tags a = some x) {w : EntityUID} (hw : w ∈ uidsOf x) :
    w ∈ successors es u := by
  simp only [successors, hd, List.mem_append]
  exact Or.inr (uidsOf_lookupKV h hw)

theorem mem_atLevel {n : Nat} {req : Request} {es : Entities} {p : EntityUID × EntityData} :
    p ∈ atLevel n req es ↔ p ∈ es ∧ p.1 ∈ reach es req n := by
  simp [atLevel, List.mem_filter]

/-- `in` on an entity within the first `n` hops reads the same ancestor set in the slice -/
theorem inE_atLevel {n : Nat} {req : Request} {es : Entities} {u1 : EntityUID} (h : u1 ∈ reach es req n) (u2 : EntityUID) :
    inE (atLevel n req es) u1 u2 = inE es u1 u2 := by
  simp [inE, find?_atLevel_of_mem h]

end Cedar.Slice
