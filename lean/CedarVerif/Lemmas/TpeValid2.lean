import CedarVerif.Lemmas.TpeValid
import CedarVerif.Lemmas.TypecheckPolicy
import CedarVerif.Lemmas.BatchedProgress
/-
C14 / C15 bridge to C03, policy level: for STRICTLY VALID static policies (C03 model: `checkPolicy .strict` accepts the
condition in every request environment) whose typed conditions are what the typechecker returns for the request environment
(`IsTypedFor`: `tp.typed = (annotate .strict s env cond []).erase` — the expression `typed.into_expr()` the harness hands to
the model), on a conformant request and store (C11 / C03 premises), the three semantic hypotheses of C14 / C15 HOLD:
`TypedSafe` (`annot_typeSafe`), `TypedAgrees` (`Level.annot_res`'s `faithful`), `CondsBool` (C03's
`accepted_boolean_or_permitted_error2`).
-/
namespace Cedar.Tpe.Valid
open Cedar Cedar.Tpe Cedar.C03
open Cedar.Level (TExpr annotate)

/-- a strictly valid static policy, in the vocabulary of the C03 model: no slot environment, condition inside the strict
fragment for every environment (= record literals have distinct keys and no slot occurs: `inFragment2_of`), accepted by
the strict typechecker in every request environment of the schema -/
structure ValidStatic (s : Schema) (p : Policy) : Prop where
  static : p.env = []
  frag : ∀ env, InFragment2 env p.condition = true
  accepted : ∃ vs, checkPolicy .strict s .absent .absent p.condition = some vs ∧ accepted vs = true

/-- `tp.typed` is the typed condition the strict typechecker hands back for the policy's condition in `env`
(`PolicyCheck::Success(e) | Irrelevant([], e)`, then `into_expr`) -/
def IsTypedFor (s : Schema) (env : RequestEnv) (tp : TPolicy) : Prop :=
  ∃ te, annotate .strict s env tp.policy.condition [] = .ok te ∧ tp.typed = te.erase

/-- the function behind `IsTypedFor` (what `policy_residual_map` computes per policy before `try_from_typed_expr`) -/
def typedPolicy (s : Schema) (env : RequestEnv) (p : Policy) : Option TPolicy :=
  match annotate .strict s env p.condition [] with
  | .ok te => some ⟨p, te.erase⟩
  | .error _ => none

theorem typedPolicy_isTypedFor {s : Schema} {env : RequestEnv} {p : Policy} {tp : TPolicy} (h : typedPolicy s env p = some tp) :
    tp.policy = p ∧ IsTypedFor s env tp := by
  unfold typedPolicy at h
  cases ha : annotate .strict s env p.condition [] with
  | error err => simp [ha] at h
  | ok te =>
    simp only [ha, Option.some.injEq] at h; subst h
    exact ⟨rfl, te, ha, rfl⟩

/-- request and store conform to the schema (C11), and the store holds the schema's action entities (C03 premise) -/
structure Conformant (s : Schema) (q : Request) (es : Entities) : Prop where
  req : ConformsRequest s q
  store : StoreConforms s es
  actions : ActionsPresent s es

/-- `env` is the (unlinked) request environment of the partial request -/
structure EnvOfPartial (s : Schema) (env : RequestEnv) (preq : PRequest) : Prop where
  principal : env.principal = preq.principal.ty
  action : env.action = preq.action
  resource : env.resource = preq.resource.ty
  context : ∃ a, s.action? preq.action = some a ∧ env.context = a.context
  pslot : env.principalSlot = none
  rslot : env.resourceSlot = none

/-- `env` is the unlinked request environment of the request -/
structure EnvOf (s : Schema) (env : RequestEnv) (q : Request) : Prop where
  envMatches : EnvMatches s env q
  pslot : env.principalSlot = none
  rslot : env.resourceSlot = none

theorem EnvOfPartial.envOf {s : Schema} {env : RequestEnv} {preq : PRequest} {pes : PEntities} {q : Request} {es : Entities}
    (h : EnvOfPartial s env preq) (hC : Completes preq pes q es) : EnvOf s env q := by
  obtain ⟨a, ha, hctx⟩ := h.context
  refine ⟨⟨?_, ?_, ?_, a, ?_, hctx⟩, h.pslot, h.rslot⟩
  · rw [h.principal, hC.ptype]
  · rw [h.action, hC.action]
  · rw [h.resource, hC.rtype]
  · rw [hC.action]; exact ha

/-- the unlinked environment of a conformant request is among those `checkPolicy` typechecks -/
theorem EnvOf.mem {s : Schema} {env : RequestEnv} {q : Request} (h : EnvOf s env q) (hreq : ConformsRequest s q) :
    env ∈ s.envs .absent .absent := by
  obtain ⟨env', hmem, henv', hp', hr'⟩ := conformant_request_env hreq
  obtain ⟨⟨h1, h2, h3, a, ha, h4⟩, hp, hr⟩ := h
  obtain ⟨g1, g2, g3, a', ha', g4⟩ := henv'
  have : env = env' := by
    rw [ha] at ha'; cases ha'
    cases env; cases env'
    simp only at h1 h2 h3 h4 hp hr g1 g2 g3 g4 hp' hr'
    subst h1 h2 h3 h4 hp hr g1 g2 g3 g4 hp' hr'
    rfl
  rw [this]; exact hmem

/-- a valid policy is typed in the environment of every conformant request -/
theorem ValidStatic.typed {s : Schema} {p : Policy} (hv : ValidStatic s p) {env : RequestEnv} {q : Request}
    (he : EnvOf s env q) (hreq : ConformsRequest s q) :
    ∃ τ c, typeOf .strict s env p.condition [] = .ok (τ, c) ∧ Boolish τ := by
  obtain ⟨vs, hcp, hacc⟩ := hv.accepted
  obtain ⟨v, hv', hvm⟩ := checkPolicy_mem hcp (he.mem hreq)
  have hne : v ≠ .fail := by
    have := List.all_eq_true.mp hacc _ hvm
    simpa using this
  unfold checkEnv at hv'
  cases hE : expectOneOf (typeOf .strict s env p.condition []) [boolT] with
  | error err =>
    rw [hE] at hv'
    cases err <;> simp at hv'
    exact (hne hv'.symm).elim
  | ok x =>
    obtain ⟨τ, c⟩ := x
    obtain ⟨ht, hs⟩ := expectOneOf_ok hE
    exact ⟨τ, c, ht, subtype_bool hs⟩

/-- the typed condition exists (`policy_residual_map` does not fail at the typechecking step) -/
theorem ValidStatic.typedPolicy_some {s : Schema} {p : Policy} (hv : ValidStatic s p) {env : RequestEnv} {q : Request}
    (he : EnvOf s env q) (hreq : ConformsRequest s q) : ∃ tp, typedPolicy s env p = some tp := by
  obtain ⟨τ, c, ht, _⟩ := hv.typed he hreq
  obtain ⟨te, hte⟩ := Level.annotate_total p.condition [] _ ht
  exact ⟨⟨p, te.erase⟩, by simp [typedPolicy, hte]⟩

/-- **the three semantic hypotheses, per policy**: for a strictly valid static policy typed for the environment of a
conformant request / store: the residual TPE starts from is type-safe, the typed condition evaluates like the condition
(EQUAL results, errors included), and the condition is boolean-valued when it evaluates. -/
theorem valid_policy {s : Schema} (hWF : SchemaWF2 s) {tp : TPolicy} (hv : ValidStatic s tp.policy) {env : RequestEnv}
    (hty : IsTypedFor s env tp) {q : Request} {es : Entities} (hq : Conformant s q es) (he : EnvOf s env q) :
    (∀ r0, Residual.ofExpr tp.typed = some r0 → TypeSafe q es r0) ∧
    evaluate q es [] tp.typed = evaluate q es tp.policy.env tp.policy.condition ∧
    (∀ v, evaluate q es tp.policy.env tp.policy.condition = .ok v → ∃ b, v = .prim (.bool b)) := by
  obtain ⟨te, hte, htyped⟩ := hty
  obtain ⟨τ, c, ht, hb⟩ := hv.typed he hq.req
  let w : World := ⟨q, es, []⟩
  have hs : Sem s env w :=
    ⟨hq.req, hq.store, ⟨fun t h => (by rw [he.pslot] at h; cases h), fun t h => (by rw [he.rslot] at h; cases h)⟩, hq.actions⟩
  have henv : EnvMatches s env w.q := he.envMatches
  have hf := hv.frag env
  refine ⟨?_, ?_, ?_⟩
  · intro r0 hr0
    rw [htyped] at hr0
    exact annot_typeSafe (w := w) hWF henv hs rfl tp.policy.condition hf [] _ ht te hte (capsHold_nil w) r0 hr0
  · rw [htyped, hv.static]
    exact (Level.annot_res (n := 0) (w := w) hWF henv hs tp.policy.condition hf [] te hte (capsHold_nil w)).faithful
  · intro v hv'
    rw [hv.static] at hv'
    have g := (Level.good_of (w := w) hWF henv hs hf ht (capsHold_nil w)).2
    rcases g.1.bool_cases hb with ⟨err, herr, _⟩ | ⟨b, hb', _, _⟩
    · have : w.eval tp.policy.condition = evaluate q es [] tp.policy.condition := rfl
      rw [this, hv'] at herr; cases herr
    · have : w.eval tp.policy.condition = evaluate q es [] tp.policy.condition := rfl
      rw [this, hv'] at hb'; cases hb'; exact ⟨b, rfl⟩

/-- the typed policies of a strictly valid static policy set, typed for one request environment -/
structure ValidTyped (s : Schema) (env : RequestEnv) (tps : List TPolicy) : Prop where
  valid : ∀ tp, tp ∈ tps → ValidStatic s tp.policy
  typed : ∀ tp, tp ∈ tps → IsTypedFor s env tp

/-- **`TypedSafe`, `TypedAgrees`, `CondsBool` from validation** -/
theorem valid_typedSafe {s : Schema} (hWF : SchemaWF2 s) {env : RequestEnv} {tps : List TPolicy} (hV : ValidTyped s env tps)
    {q : Request} {es : Entities} (hq : Conformant s q es) (he : EnvOf s env q) : TypedSafe q es tps :=
  fun tp htp => (valid_policy hWF (hV.valid tp htp) (hV.typed tp htp) hq he).1

theorem valid_typedAgrees {s : Schema} (hWF : SchemaWF2 s) {env : RequestEnv} {tps : List TPolicy} (hV : ValidTyped s env tps)
    {q : Request} {es : Entities} (hq : Conformant s q es) (he : EnvOf s env q) : TypedAgrees q es tps :=
  fun tp htp => by
    rw [(valid_policy hWF (hV.valid tp htp) (hV.typed tp htp) hq he).2.1]
    exact Agree.rfl' _

theorem valid_condsBool {s : Schema} (hWF : SchemaWF2 s) {env : RequestEnv} {tps : List TPolicy} (hV : ValidTyped s env tps)
    {q : Request} {es : Entities} (hq : Conformant s q es) (he : EnvOf s env q) : Batched.CondsBool q es tps :=
  fun tp htp => (valid_policy hWF (hV.valid tp htp) (hV.typed tp htp) hq he).2.2

/-- the typed policies computed by `typedPolicy` from valid policies are `ValidTyped` -/
theorem validTyped_of_mapM {s : Schema} {env : RequestEnv} {ps : List Policy} {tps : List TPolicy}
    (hv : ∀ p, p ∈ ps → ValidStatic s p) (h : mapM? (typedPolicy s env) ps = some tps) :
    ValidTyped s env tps ∧ tps.map (·.policy) = ps := by
  induction ps generalizing tps with
  | nil =>
    simp only [mapM?, Option.some.injEq] at h; subst h
    exact ⟨⟨fun _ h => (by cases h), fun _ h => (by cases h)⟩, rfl⟩
  | cons p ps ih =>
    simp only [mapM?] at h
    cases h1 : typedPolicy s env p with
    | none => simp [h1] at h
    | some tp =>
      cases h2 : mapM? (typedPolicy s env) ps with
      | none => simp [h1, h2] at h
      | some tps' =>
        simp only [h1, h2, Option.some.injEq] at h; subst h
        obtain ⟨hp, hty⟩ := typedPolicy_isTypedFor h1
        obtain ⟨⟨iv, it⟩, im⟩ := ih (fun p hp => hv p (List.mem_cons_of_mem _ hp)) h2
        refine ⟨⟨?_, ?_⟩, by simp [hp, im]⟩
        · intro x hx
          rcases List.mem_cons.mp hx with rfl | hx
          · rw [hp]; exact hv p List.mem_cons_self
          · exact iv x hx
        · intro x hx
          rcases List.mem_cons.mp hx with rfl | hx
          · exact hty
          · exact it x hx

end Cedar.Tpe.Valid
