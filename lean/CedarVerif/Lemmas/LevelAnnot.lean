import CedarVerif.Cedar.Validation.Level
import CedarVerif.Lemmas.TypecheckSound
import CedarVerif.Lemmas.TypecheckOps
/-
C16 helper: the typed AST exists whenever the typechecker model answers `ok` — `annotate` fails only where `typeOf` does
(`annotate_total`), so that "accepted by the typechecker and no level error" really speaks about a level-checked typed AST.
-/
namespace Cedar.Level
open Cedar Cedar.C03

theorem ok_of_expect {r : TcResult} {l : List CedarType} {x : CedarType × Capabilities} (h : expectOneOf r l = .ok x) :
    r = .ok x := by
  obtain ⟨τ, c⟩ := x
  exact (expectOneOf_ok h).1

mutual
theorem annotate_total {m : ValidationMode} {s : Schema} {env : RequestEnv} :
    ∀ (e : Expr) (caps : Capabilities) (x : CedarType × Capabilities), typeOf m s env e caps = .ok x →
      ∃ te, annotate m s env e caps = .ok te
  | .lit p, _, _, _ => ⟨_, rfl⟩
  | .var v, _, _, _ => ⟨_, rfl⟩
  | .slot sid, _, _, _ => ⟨_, rfl⟩
  | .unknown _ _, _, _, h => by simp [typeOf] at h
  | .ite c t e, caps, x, h => by
    simp only [typeOf] at h
    cases hC : expectOneOf (typeOf m s env c caps) [boolT] with
    | error err => rw [hC] at h; cases h
    | ok pc =>
      obtain ⟨τc, cc⟩ := pc
      rw [hC] at h; simp only at h
      have htc := ok_of_expect hC
      obtain ⟨tc, hac⟩ := annotate_total c caps _ htc
      simp only [annotate, htc, hac]
      split at h
      · rename_i htrue
        simp only [htrue, if_true]
        cases hT : typeOf m s env t (caps.union cc) with
        | error err => rw [hT] at h; cases h
        | ok pt =>
          obtain ⟨tt, hat⟩ := annotate_total t _ _ hT
          exact ⟨_, by rw [hat]⟩
      · rename_i hnt
        simp only [hnt, Bool.false_eq_true, if_false]
        split at h
        · rename_i hfalse
          simp only [hfalse, if_true]
          obtain ⟨te, hae⟩ := annotate_total e _ _ h
          exact ⟨_, by rw [hae]⟩
        · rename_i hnf
          simp only [hnf, Bool.false_eq_true, if_false]
          obtain ⟨τt, ct, τe, ce, hT, hE, _⟩ := both_ok h
          obtain ⟨tt, hat⟩ := annotate_total t _ _ hT
          obtain ⟨te, hae⟩ := annotate_total e _ _ hE
          exact ⟨_, by rw [hat, hae]⟩
  | .and a b, caps, x, h => by
    simp only [typeOf] at h
    cases hA : expectOneOf (typeOf m s env a caps) [boolT] with
    | error err => rw [hA] at h; cases h
    | ok pa =>
      obtain ⟨τa, ca⟩ := pa
      rw [hA] at h; simp only at h
      have hta := ok_of_expect hA
      obtain ⟨ta, haa⟩ := annotate_total a caps _ hta
      simp only [annotate, hta, haa]
      split at h
      · rename_i hfalse
        exact ⟨ta, by simp only [hfalse, if_true]⟩
      · rename_i hnf
        simp only [hnf, Bool.false_eq_true, if_false]
        cases hB : expectOneOf (typeOf m s env b (caps.union ca)) [boolT] with
        | error err => rw [hB] at h; cases h
        | ok pb =>
          obtain ⟨tb, hab⟩ := annotate_total b _ _ (ok_of_expect hB)
          exact ⟨_, by rw [hab]⟩
  | .or a b, caps, x, h => by
    simp only [typeOf] at h
    cases hA : expectOneOf (typeOf m s env a caps) [boolT] with
    | error err => rw [hA] at h; cases h
    | ok pa =>
      obtain ⟨τa, ca⟩ := pa
      rw [hA] at h; simp only at h
      have hta := ok_of_expect hA
      obtain ⟨ta, haa⟩ := annotate_total a caps _ hta
      simp only [annotate, hta, haa]
      split at h
      · rename_i htrue
        exact ⟨ta, by simp only [htrue, if_true]⟩
      · rename_i hnt
        simp only [hnt, Bool.false_eq_true, if_false]
        cases hB : expectOneOf (typeOf m s env b caps) [boolT] with
        | error err => rw [hB] at h; cases h
        | ok pb =>
          obtain ⟨tb, hab⟩ := annotate_total b _ _ (ok_of_expect hB)
          exact ⟨_, by rw [hab]⟩
  | .unaryApp op a, caps, x, h => by
    have hta : ∃ y, typeOf m s env a caps = .ok y := by
      cases op <;> simp only [typeOf] at h
      · cases hA : expectOneOf (typeOf m s env a caps) [boolT] with
        | error err => rw [hA] at h; cases h
        | ok pa => exact ⟨_, ok_of_expect hA⟩
      · cases hA : expectOneOf (typeOf m s env a caps) [.long] with
        | error err => rw [hA] at h; cases h
        | ok pa => exact ⟨_, ok_of_expect hA⟩
      · cases hA : expectOneOf (typeOf m s env a caps) [.set none] with
        | error err => rw [hA] at h; cases h
        | ok pa => exact ⟨_, ok_of_expect hA⟩
    obtain ⟨y, hy⟩ := hta
    obtain ⟨ta, haa⟩ := annotate_total a caps _ hy
    exact ⟨.unaryApp op ta, by simp only [annotate, haa]⟩
  | .binaryApp op a b, caps, x, h => by
    have hts : (∃ y, typeOf m s env a caps = .ok y) ∧ (∃ y, typeOf m s env b caps = .ok y) := by
      cases op <;> simp only [typeOf] at h <;> obtain ⟨τa, ca, τb, cb, hA, hB, _⟩ := both_ok h <;>
        exact ⟨⟨_, by first | exact hA | exact ok_of_expect hA⟩, ⟨_, by first | exact hB | exact ok_of_expect hB⟩⟩
    obtain ⟨⟨ya, hya⟩, ⟨yb, hyb⟩⟩ := hts
    obtain ⟨ta, haa⟩ := annotate_total a caps _ hya
    obtain ⟨tb, hab⟩ := annotate_total b caps _ hyb
    exact ⟨.binaryApp op ta tb, by simp only [annotate, haa, hab]⟩
  | .call fn args, caps, x, h => by
    simp only [typeOf] at h
    cases hsig : extSig fn with
    | none =>
      rw [hsig] at h; simp only at h
      split at h <;> cases h
    | some sig =>
      rw [hsig] at h; simp only at h
      cases hL : typeOfList m s env args caps with
      | error err => rw [hL] at h; cases h
      | ok τs =>
        obtain ⟨ts, hts⟩ := annotateList_total args caps τs hL
        exact ⟨_, by simp only [annotate, hts] <;> rfl⟩
  | .getAttr e a, caps, x, h => by
    simp only [typeOf] at h
    cases hE : expectOneOf (typeOf m s env e caps) [.anyEntity, anyRecord] with
    | error err => rw [hE] at h; cases h
    | ok pe =>
      have hte := ok_of_expect hE
      obtain ⟨te, hae⟩ := annotate_total e caps _ hte
      exact ⟨_, by simp only [annotate, hte, hae] <;> rfl⟩
  | .hasAttr e a, caps, x, h => by
    simp only [typeOf] at h
    cases hE : expectOneOf (typeOf m s env e caps) [.anyEntity, anyRecord] with
    | error err => rw [hE] at h; cases h
    | ok pe =>
      have hte := ok_of_expect hE
      obtain ⟨te, hae⟩ := annotate_total e caps _ hte
      exact ⟨_, by simp only [annotate, hte, hae] <;> rfl⟩
  | .like e p, caps, x, h => by
    simp only [typeOf] at h
    cases hE : expectOneOf (typeOf m s env e caps) [.string] with
    | error err => rw [hE] at h; cases h
    | ok pe =>
      obtain ⟨te, hae⟩ := annotate_total e caps _ (ok_of_expect hE)
      exact ⟨_, by simp only [annotate, hae] <;> rfl⟩
  | .is e ty, caps, x, h => by
    simp only [typeOf] at h
    cases hE : expectOneOf (typeOf m s env e caps) [.anyEntity] with
    | error err => rw [hE] at h; cases h
    | ok pe =>
      obtain ⟨te, hae⟩ := annotate_total e caps _ (ok_of_expect hE)
      exact ⟨_, by simp only [annotate, hae] <;> rfl⟩
  | .set es, caps, x, h => by
    simp only [typeOf] at h
    cases hL : typeOfList m s env es caps with
    | error err => rw [hL] at h; cases h
    | ok τs =>
      obtain ⟨ts, hts⟩ := annotateList_total es caps τs hL
      exact ⟨_, by simp only [annotate, hts] <;> rfl⟩
  | .record kvs, caps, x, h => by
    simp only [typeOf] at h
    cases hL : typeOfKVs m s env kvs caps with
    | error err => rw [hL] at h; cases h
    | ok attrs =>
      obtain ⟨ts, hts⟩ := annotateKVs_total kvs caps attrs hL
      exact ⟨_, by simp only [annotate, hts] <;> rfl⟩
theorem annotateList_total {m : ValidationMode} {s : Schema} {env : RequestEnv} :
    ∀ (es : List Expr) (caps : Capabilities) (τs : List CedarType), typeOfList m s env es caps = .ok τs →
      ∃ ts, annotateList m s env es caps = .ok ts
  | [], _, _, _ => ⟨[], rfl⟩
  | e :: es, caps, τs, h => by
    obtain ⟨τ, c, τs', h1, h2, _⟩ := typeOfList_cons h
    obtain ⟨t, ht⟩ := annotate_total e caps _ h1
    obtain ⟨ts, hts⟩ := annotateList_total es caps τs' h2
    exact ⟨t :: ts, by simp only [annotateList, ht, hts]⟩
theorem annotateKVs_total {m : ValidationMode} {s : Schema} {env : RequestEnv} :
    ∀ (kvs : List (String × Expr)) (caps : Capabilities) (attrs : Attrs), typeOfKVs m s env kvs caps = .ok attrs →
      ∃ ts, annotateKVs m s env kvs caps = .ok ts
  | [], _, _, _ => ⟨[], rfl⟩
  | (k, e) :: es, caps, attrs, h => by
    obtain ⟨τ, c, attrs', h1, h2, _⟩ := typeOfKVs_cons h
    obtain ⟨t, ht⟩ := annotate_total e caps _ h1
    obtain ⟨ts, hts⟩ := annotateKVs_total es caps attrs' h2
    exact ⟨(k, t) :: ts, by simp only [annotateKVs, ht, hts]⟩
end

end Cedar.Level
