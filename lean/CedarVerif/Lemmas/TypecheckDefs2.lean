import CedarVerif.Lemmas.TypecheckDefs
/-
C03: vocabulary of the second (larger) proved fragment of `typeOf_sound` — strict mode.
-/
namespace Cedar.C03

open Cedar

/-- template slots are bound to uids of the slot types of the environment -/
def SlotsMatch (env : RequestEnv) (sl : SlotEnv) : Prop :=
  (∀ t, env.principalSlot = some t → ∃ u, sl.lookup .principal = some u ∧ u.ty = t) ∧
  (∀ t, env.resourceSlot = some t → ∃ u, sl.lookup .resource = some u ∧ u.ty = t)

/-- the store holds every action entity of the schema (`Entities::from_entities(.., schema)` adds them) -/
def ActionsPresent (s : Schema) (es : Entities) : Prop :=
  ∀ u a, s.action? u = some a → ∃ d, es.find? u = some d

/-- `SchemaWF` plus what the rules for `in` rely on (all true of every schema Rust constructs): the entity-type table
is a map, action uids have an action type, and the `ancestors` / `descendants` of the action hierarchy are inverse -/
structure SchemaWF2 (s : Schema) : Prop extends SchemaWF s where
  ets_map : ∀ p, p ∈ s.ets → s.entityType? p.1 = some p.2
  act_type : ∀ u a, s.action? u = some a → isActionType u.ty = true
  act_anc_desc : ∀ u a, s.action? u = some a → ∀ p, p ∈ a.ancestors → ∃ b, s.action? p = some b ∧ u ∈ b.descendants
  act_desc_anc : ∀ u a, s.action? u = some a → ∀ d, d ∈ a.descendants → ∃ b, s.action? d = some b ∧ u ∈ b.ancestors

/-- the semantic premises of the soundness statement -/
structure Sem (s : Schema) (env : RequestEnv) (w : World) : Prop where
  req : ConformsRequest s w.q
  store : StoreConforms s w.es
  slots : SlotsMatch env w.sl
  actions : ActionsPresent s w.es

/-- binary operators of the fragment -/
def binOpOK : BinaryOp → Bool
  | .eq | .less | .lessEq | .add | .sub | .mul | .contains | .containsAll | .containsAny | .hasTag | .getTag | .mem => true

-- THE SECOND PROVED FRAGMENT: see Thm/C03.lean.  In strict mode: every construct; record literals have distinct keys
-- (Rust's `ExprKind::Record` is a map); a slot is in the fragment when the environment is linked for it; `unknown` is in it
-- vacuously (the model does not type it: `outside`).  In permissive mode additionally: an `if` has a syntactically flat
-- branch and a set literal is non-empty with syntactically flat elements (so that no entity-type union / `Set<Never>` arises).
mutual
def InFragmentM (m : ValidationMode) (env : RequestEnv) : Expr → Bool
  | .lit _ => true
  | .var _ => true
  | .slot .principal => env.principalSlot.isSome
  | .slot .resource => env.resourceSlot.isSome
  | .unknown _ _ => true
  | .ite c t e => InFragmentM m env c && InFragmentM m env t && InFragmentM m env e && (m.isStrict || FlatExpr t || FlatExpr e)
  | .and a b => InFragmentM m env a && InFragmentM m env b
  | .or a b => InFragmentM m env a && InFragmentM m env b
  | .unaryApp _ a => InFragmentM m env a
  | .binaryApp op a b => binOpOK op && InFragmentM m env a && InFragmentM m env b
  | .call _ args => InFragmentMList m env args
  | .getAttr e _ => InFragmentM m env e
  | .hasAttr e _ => InFragmentM m env e
  | .like e _ => InFragmentM m env e
  | .is e _ => InFragmentM m env e
  | .set es => InFragmentMList m env es && (m.isStrict || (es.all FlatExpr && !es.isEmpty))
  | .record kvs => InFragmentMKVs m env kvs && decide ((kvs.map (·.1)).Nodup)
def InFragmentMList (m : ValidationMode) (env : RequestEnv) : List Expr → Bool
  | [] => true
  | e :: es => InFragmentM m env e && InFragmentMList m env es
def InFragmentMKVs (m : ValidationMode) (env : RequestEnv) : List (String × Expr) → Bool
  | [] => true
  | (_, e) :: es => InFragmentM m env e && InFragmentMKVs m env es
end

/-- the strict-mode fragment -/
abbrev InFragment2 (env : RequestEnv) (e : Expr) : Bool := InFragmentM .strict env e
abbrev InFragment2List (env : RequestEnv) (es : List Expr) : Bool := InFragmentMList .strict env es
abbrev InFragment2KVs (env : RequestEnv) (kvs : List (String × Expr)) : Bool := InFragmentMKVs .strict env kvs

end Cedar.C03
