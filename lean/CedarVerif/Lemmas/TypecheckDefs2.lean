import CedarVerif.Lemmas.TypecheckDefs
/-
C03: vocabulary of the second (larger) proved fragment of `typeOf_sound` — strict mode.
-/
namespace Cedar.C03

open Cedar

/-- template slots are bound to uids of the slot types of the environment -/
def SlotsMatch (env : RequestEnv) (sl : SlotEnv) : Prop :=
  (∀ t, env.principalSlot = some t → ∃ u, sl.lookup .principal = some u ∧ u.ty = t) ∧
  (∀ t, env.resourceSlot = some t → ∃ u, sl.lookup .resource = some u ∧ u.ty = t)

/-- the store holds every action entity of the schema (`Entities::from_entities(.., schema)` adds them) -/
def ActionsPresent (s : Schema) (es : Entities) : Prop :=
  ∀ u a, s.action? u = some a → ∃ d, es.find? u = some d

/-- `SchemaWF` plus what the rules for `in` rely on (all true of every schema Rust constructs): the entity-type table
is a map, action uids have an action type, and the `ancestors` / `descendants` of the action hierarchy are inverse -/
structure SchemaWF2 (s : Schema) : Prop extends SchemaWF s where
  ets_map : ∀ p, p ∈ s.ets → s.entityType? p.1 = some p.2
  act_type : ∀ u a, s.action? u = some a → isActionType u.ty = true
  act_anc_desc : ∀ u a, s.action? u = some a → ∀ p, p ∈ a.ancestors → ∃ b, s.action? p = some b ∧ u ∈ b.descendants
  act_desc_anc : ∀ u a, s.action? u = some a → ∀ d, d ∈ a.descendants → ∃ b, s.action? d = some b ∧ u ∈ b.ancestors

/-- the semantic premises of the soundness statement -/
structure Sem (s : Schema) (env : RequestEnv) (w : World) : Prop where
  req : ConformsRequest s w.q
  store : StoreConforms s w.es
  slots : SlotsMatch env w.sl
  actions : ActionsPresent s w.es

/-- binary operators of the fragment -/
def binOpOK : BinaryOp → Bool
  | .eq | .less | .lessEq | .add | .sub | .mul | .contains | .containsAll | .containsAny | .hasTag | .getTag | .mem => true

-- THE SECOND PROVED FRAGMENT: see Thm/C03.lean.  In strict mode: every construct; record literals have distinct keys
-- (Rust's `ExprKind::Record` is a map); a slot is in the fragment when the environment is linked for it; `unknown` is in it
-- vacuously (the model does not type it: `outside`).  In permissive mode additionally: an `if` has a syntactically flat
-- branch and a set literal is non-empty with syntactically flat elements (so that no entity-type union / `Set<Never>` arises).
mutual
def InFragmentM (m : ValidationMode) (env : RequestEnv) : Expr → Bool
  | .lit _ => true
  | .var _ => true
  | .slot .principal => env.principalSlot.isSome
  | .slot .resource => env.resourceSlot.isSome
  | .unknown _ _ => true
  | .ite c t e => InFragmentM m env c && InFragmentM m env t && InFragmentM m env e && (m.isStrict || FlatExpr t || FlatExpr e)
  | .and a b => InFragmentM m env a && InFragmentM m env b
  | .or a b => InFragmentM m env a && InFragmentM m env b
  | .unaryApp _ a => InFragmentM m env a
  | .binaryApp op a b => binOpOK op && InFragmentM m env a && InFragmentM m env b
  | .call _ args => InFragmentMList m env args
  | .getAttr e _ => InFragmentM m env e
  | .hasAttr e _ => InFragmentM m env e
  | .like e _ => InFragmentM m env e
  | .is e _ => InFragmentM m env e
  | .set es => InFragmentMList m env es && (m.isStrict || (es.all FlatExpr && !es.isEmpty))
  | .record kvs => InFragmentMKVs m env kvs && decide ((kvs.map (·.1)).Nodup)
def InFragmentMList (m : ValidationMode) (env : RequestEnv) : List Expr → Bool
  | [] => true
  | e :: es => InFragmentM m env e && InFragmentMList m env es
def InFragmentMKVs (m : ValidationMode) (env : RequestEnv) : List (String × Expr) → Bool
  | [] => true
  | (_, e) :: es => InFragmentM m env e && InFragmentMKVs m env es
end

/-- the strict-mode fragment -/
abbrev InFragment2 (env : RequestEnv) (e : Expr) : Bool := InFragmentM .strict env e
abbrev InFragment2List (env : RequestEnv) (es : List Expr) : Bool := InFragmentMList .strict env es
abbrev InFragment2KVs (env : RequestEnv) (kvs : List (String × Expr)) : Bool := InFragmentMKVs .strict env kvs

-- record literals have distinct keys (Rust's `ExprKind::Record` is a `BTreeMap`)
mutual
def RecordKeysDistinct : Expr → Bool
  | .lit _ | .var _ | .slot _ | .unknown _ _ => true
  | .ite c t e => RecordKeysDistinct c && RecordKeysDistinct t && RecordKeysDistinct e
  | .and a b | .or a b | .binaryApp _ a b => RecordKeysDistinct a && RecordKeysDistinct b
  | .unaryApp _ a | .getAttr a _ | .hasAttr a _ | .like a _ | .is a _ => RecordKeysDistinct a
  | .call _ args | .set args => RecordKeysDistinctList args
  | .record kvs => RecordKeysDistinctKVs kvs && decide ((kvs.map (·.1)).Nodup)
def RecordKeysDistinctList : List Expr → Bool
  | [] => true
  | e :: es => RecordKeysDistinct e && RecordKeysDistinctList es
def RecordKeysDistinctKVs : List (String × Expr) → Bool
  | [] => true
  | (_, e) :: es => RecordKeysDistinct e && RecordKeysDistinctKVs es
end


-- every slot of the expression has a type in the environment
mutual
def SlotsLinked (env : RequestEnv) : Expr → Bool
  | .slot .principal => env.principalSlot.isSome
  | .slot .resource => env.resourceSlot.isSome
  | .lit _ | .var _ | .unknown _ _ => true
  | .ite c t e => SlotsLinked env c && SlotsLinked env t && SlotsLinked env e
  | .and a b | .or a b | .binaryApp _ a b => SlotsLinked env a && SlotsLinked env b
  | .unaryApp _ a | .getAttr a _ | .hasAttr a _ | .like a _ | .is a _ => SlotsLinked env a
  | .call _ args | .set args => SlotsLinkedList env args
  | .record kvs => SlotsLinkedKVs env kvs
def SlotsLinkedList (env : RequestEnv) : List Expr → Bool
  | [] => true
  | e :: es => SlotsLinked env e && SlotsLinkedList env es
def SlotsLinkedKVs (env : RequestEnv) : List (String × Expr) → Bool
  | [] => true
  | (_, e) :: es => SlotsLinked env e && SlotsLinkedKVs env es
end

theorem binOpOK_all (op : BinaryOp) : binOpOK op = true := by cases op <;> rfl

-- the strict fragment is: distinct record keys and linked slots
mutual
theorem inFragment2_of (env : RequestEnv) : ∀ (e : Expr), RecordKeysDistinct e = true → SlotsLinked env e = true →
    InFragment2 env e = true
  | .lit _, _, _ => rfl
  | .var _, _, _ => rfl
  | .unknown _ _, _, _ => rfl
  | .slot .principal, _, h => by simpa [SlotsLinked, InFragmentM] using h
  | .slot .resource, _, h => by simpa [SlotsLinked, InFragmentM] using h
  | .ite c t e, hk, hl => by
    simp only [RecordKeysDistinct, Bool.and_eq_true] at hk
    simp only [SlotsLinked, Bool.and_eq_true] at hl
    simp only [InFragmentM, Bool.and_eq_true, ValidationMode.isStrict, Bool.true_or, and_true]
    exact ⟨⟨inFragment2_of env c hk.1.1 hl.1.1, inFragment2_of env t hk.1.2 hl.1.2⟩, inFragment2_of env e hk.2 hl.2⟩
  | .and a b, hk, hl => by
    simp only [RecordKeysDistinct, Bool.and_eq_true] at hk
    simp only [SlotsLinked, Bool.and_eq_true] at hl
    simp only [InFragmentM, Bool.and_eq_true]
    exact ⟨inFragment2_of env a hk.1 hl.1, inFragment2_of env b hk.2 hl.2⟩
  | .or a b, hk, hl => by
    simp only [RecordKeysDistinct, Bool.and_eq_true] at hk
    simp only [SlotsLinked, Bool.and_eq_true] at hl
    simp only [InFragmentM, Bool.and_eq_true]
    exact ⟨inFragment2_of env a hk.1 hl.1, inFragment2_of env b hk.2 hl.2⟩
  | .binaryApp op a b, hk, hl => by
    simp only [RecordKeysDistinct, Bool.and_eq_true] at hk
    simp only [SlotsLinked, Bool.and_eq_true] at hl
    simp only [InFragmentM, Bool.and_eq_true, binOpOK_all, true_and]
    exact ⟨inFragment2_of env a hk.1 hl.1, inFragment2_of env b hk.2 hl.2⟩
  | .unaryApp _ a, hk, hl => by
    simp only [RecordKeysDistinct] at hk
    simp only [SlotsLinked] at hl
    simp only [InFragmentM]
    exact inFragment2_of env a hk hl
  | .getAttr a _, hk, hl => by
    simp only [RecordKeysDistinct] at hk
    simp only [SlotsLinked] at hl
    simp only [InFragmentM]
    exact inFragment2_of env a hk hl
  | .hasAttr a _, hk, hl => by
    simp only [RecordKeysDistinct] at hk
    simp only [SlotsLinked] at hl
    simp only [InFragmentM]
    exact inFragment2_of env a hk hl
  | .like a _, hk, hl => by
    simp only [RecordKeysDistinct] at hk
    simp only [SlotsLinked] at hl
    simp only [InFragmentM]
    exact inFragment2_of env a hk hl
  | .is a _, hk, hl => by
    simp only [RecordKeysDistinct] at hk
    simp only [SlotsLinked] at hl
    simp only [InFragmentM]
    exact inFragment2_of env a hk hl
  | .call _ args, hk, hl => by
    simp only [RecordKeysDistinct] at hk
    simp only [SlotsLinked] at hl
    simp only [InFragmentM]
    exact inFragment2List_of env args hk hl
  | .set args, hk, hl => by
    simp only [RecordKeysDistinct] at hk
    simp only [SlotsLinked] at hl
    simp only [InFragmentM, Bool.and_eq_true, ValidationMode.isStrict, Bool.true_or, and_true]
    exact inFragment2List_of env args hk hl
  | .record kvs, hk, hl => by
    simp only [RecordKeysDistinct, Bool.and_eq_true] at hk
    simp only [SlotsLinked] at hl
    simp only [InFragmentM, Bool.and_eq_true]
    exact ⟨inFragment2KVs_of env kvs hk.1 hl, hk.2⟩
theorem inFragment2List_of (env : RequestEnv) : ∀ (es : List Expr), RecordKeysDistinctList es = true → SlotsLinkedList env es = true →
    InFragment2List env es = true
  | [], _, _ => rfl
  | e :: es, hk, hl => by
    simp only [RecordKeysDistinctList, Bool.and_eq_true] at hk
    simp only [SlotsLinkedList, Bool.and_eq_true] at hl
    simp only [InFragmentMList, Bool.and_eq_true]
    exact ⟨inFragment2_of env e hk.1 hl.1, inFragment2List_of env es hk.2 hl.2⟩
theorem inFragment2KVs_of (env : RequestEnv) : ∀ (kvs : List (String × Expr)), RecordKeysDistinctKVs kvs = true →
    SlotsLinkedKVs env kvs = true → InFragment2KVs env kvs = true
  | [], _, _ => rfl
  | (_, e) :: es, hk, hl => by
    simp only [RecordKeysDistinctKVs, Bool.and_eq_true] at hk
    simp only [SlotsLinkedKVs, Bool.and_eq_true] at hl
    simp only [InFragmentMKVs, Bool.and_eq_true]
    exact ⟨inFragment2_of env e hk.1 hl.1, inFragment2KVs_of env es hk.2 hl.2⟩
end

end Cedar.C03
