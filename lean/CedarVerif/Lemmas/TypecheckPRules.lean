import CedarVerif.Lemmas.TypecheckPLub
/-
C03: the typing rules that only PERMISSIVE mode can fire, each shown sound for the invariant `TySound` on its own (the
sub-expressions are assumed sound at their types, whatever these are — entity-type unions, open records, `Set<Never>`):
  * `if` joining two arbitrary branch types by the permissive least upper bound (`permissive_ite_join_sound`);
  * a set literal of arbitrary element types, also the empty one typed `Set<Never>` (`permissive_set_literal_inst`);
  * `==` typed `False` on disjoint entity-type unions (`typesDisjoint_sound`);
  * `is` on an entity-type union (`is_union_sound`).
These are the steps a full induction for permissive mode has to add to the strict one.
-/
namespace Cedar.C03

open Cedar

/-- the `if` rule with both branches typechecked: sound for ANY bound of the two branch types -/
theorem ite_join_sound {w : World} {c t e : Expr} {τc τt τe τl : CedarType} {cc ct ce : Capabilities}
    (hbc : Boolish τc) (sc : TySound w c τc cc)
    (st : CapsHold w cc → TySound w t τt ct) (se : TySound w e τe ce)
    (hlt : ∀ v, InstanceOfType v τt → InstanceOfType v τl) (hle : ∀ v, InstanceOfType v τe → InstanceOfType v τl) :
    TySound w (.ite c t e) τl (ce.inter (ct.union cc)) := by
  rcases sc.bool_cases hbc with ⟨err, he, hp⟩ | ⟨x, hx, _, hcx⟩
  · exact TySound.of_err (by simp [evaluate, he]) hp
  · cases x with
    | true =>
      have hcc := hcx rfl
      have heq : w.eval (.ite c t e) = w.eval t := by simp [evaluate, hx, Value.asBool]
      rcases st hcc with ⟨err, he, hp⟩ | ⟨v, hv, hi, hcv⟩
      · exact Or.inl ⟨err, by rw [heq, he], hp⟩
      · exact Or.inr ⟨v, by rw [heq, hv], hlt v hi,
          fun hvt => capsHold_inter_right (capsHold_union.mpr ⟨hcv hvt, hcc⟩)⟩
    | false =>
      have heq : w.eval (.ite c t e) = w.eval e := by simp [evaluate, hx, Value.asBool]
      rcases se with ⟨err, he, hp⟩ | ⟨v, hv, hi, hcv⟩
      · exact Or.inl ⟨err, by rw [heq, he], hp⟩
      · exact Or.inr ⟨v, by rw [heq, hv], hle v hi, fun hvt => capsHold_inter_left (hcv hvt)⟩

/-- the permissive `if` rule: the branches may have any two types with a permissive least upper bound — different entity
types (the bound is their union), records with different attributes (an open record), … -/
theorem permissive_ite_join_sound {w : World} {c t e : Expr} {τc τt τe τl : CedarType} {cc ct ce : Capabilities}
    (hbc : Boolish τc) (sc : TySound w c τc cc)
    (st : CapsHold w cc → TySound w t τt ct) (se : TySound w e τe ce)
    (hnd : ndTy τt = true) (hl : lub .permissive τt τe = some τl) :
    TySound w (.ite c t e) τl (ce.inter (ct.union cc)) :=
  ite_join_sound hbc sc st se (fun _ hv => plub_inst_l hv _ _ hnd hl) (fun _ hv => plub_inst_r hv _ _ hl)

/-- a set of values of the element types is a value of the permissive set-literal type `Set<lubAll τs>`
(`[]` has the type `Set<Never>`) -/
theorem permissive_set_literal_inst {τs : List CedarType} {τ : CedarType} {vs : List Value}
    (h : lubAll .permissive τs = some τ) (hnd : ∀ t, t ∈ τs → ndTy t = true)
    (hvs : ∀ v, v ∈ vs → ∃ t, t ∈ τs ∧ InstanceOfType v t) :
    InstanceOfType (.set vs) (.set (some τ)) := by
  refine .set vs τ (fun v hv => ?_)
  obtain ⟨t, ht, hi⟩ := hvs v hv
  exact (lubAll_perm_spec h hnd).1 t ht v hi

/-- `are_types_disjoint`: values of disjoint entity-type unions are different, so typing `==` `False` is sound -/
theorem typesDisjoint_sound {τa τb : CedarType} {va vb : Value} (hd : typesDisjoint τa τb = true)
    (ha : InstanceOfType va τa) (hb : InstanceOfType vb τb) : va ≠ vb := by
  intro heq; subst heq
  cases ha with
  | entity u l0 hm0 =>
    cases hb with
    | entity _ l1 hm1 =>
      simp only [typesDisjoint, Bool.not_eq_true', List.any_eq_false] at hd
      have := hd _ hm0
      simp only [List.contains_iff_mem] at this
      exact this hm1
    | anyEntity _ => simp [typesDisjoint] at hd
  | anyEntity u => cases hb <;> simp [typesDisjoint] at hd
  | anyBool _ => cases hb <;> simp [typesDisjoint] at hd
  | tt => cases hb <;> simp [typesDisjoint] at hd
  | ff => cases hb <;> simp [typesDisjoint] at hd
  | long _ => cases hb <;> simp [typesDisjoint] at hd
  | string _ => cases hb <;> simp [typesDisjoint] at hd
  | ext _ => cases hb <;> simp [typesDisjoint] at hd
  | anySet _ => cases hb <;> simp [typesDisjoint] at hd
  | set _ _ _ => cases hb <;> simp [typesDisjoint] at hd
  | record _ _ _ _ _ _ => cases hb <;> simp [typesDisjoint] at hd

/-- the `is` rule on an entity-type union: `False` if the type is not a member, `True` if it is the only member -/
theorem is_union_sound {u : EntityUID} {l : List EntityType} {ty : EntityType}
    (hi : InstanceOfType (.prim (.entityUID u)) (.entity l)) :
    (l.contains ty = false → (u.ty == ty) = false) ∧ (l = [ty] → (u.ty == ty) = true) := by
  cases hi with
  | entity _ _ hm =>
    constructor
    · intro hc
      cases hq : (u.ty == ty) with
      | false => rfl
      | true =>
        simp only [beq_iff_eq] at hq
        subst hq
        have : l.contains u.ty = true := by simpa using hm
        rw [this] at hc; cases hc
    · intro hl; subst hl
      simpa using hm

end Cedar.C03
