import CedarVerif.Lemmas.TCRepair
/-
Lemmas for C04, part 3: the store invariant and the operations.
`StoreInv` (ancestors = Reach⁺ over direct-parent links, acyclic, parents/indirect disjoint),
`repair_establishes` (what `repair_tc` needs from the bookkeeping of add/upsert/remove),
`addEntities_ok` (add_entities, arbitrary batches), parent-graph lemmas.
-/
namespace Cedar.TC
set_option linter.unusedSectionVars false

variable {α : Type} [DecidableEq α]

theorem Reach.mono {P P' : α → Option (List α)}
    (h : ∀ x ps, P x = some ps → ∃ ps', P' x = some ps' ∧ ∀ y, y ∈ ps → y ∈ ps')
    {x y : α} (hr : Reach P x y) : Reach P' x y := by
  induction hr with
  | edge hp hy => obtain ⟨ps', h1, h2⟩ := h _ _ hp; exact Reach.edge h1 (h2 _ hy)
  | step hp hz _ ih => obtain ⟨ps', h1, h2⟩ := h _ _ hp; exact Reach.step h1 (h2 _ hz) ih

/-- the invariant of stores built by the library (DESIGN §6 C04 `Inv`) -/
structure StoreInv (s : Store α) : Prop where
  exact : Exact (shape s) s
  acyclic : ∀ x, ¬ Reach (shape s) x x
  disjoint : ∀ x n, get s x = some n → ∀ y, y ∈ n.parents → y ∉ n.indirect

def Disjoint (s : Store α) : Prop := ∀ x n, get s x = some n → ∀ y, y ∈ n.parents → y ∉ n.indirect

theorem mem_uidsOf {s : Store α} {x y : α} {n : Node α} (h : get s x = some n) (hy : y ∈ n.out) : y ∈ uidsOf s := by
  unfold uidsOf
  rw [List.mem_flatMap]
  exact ⟨(x, n), get_some_mem h, List.mem_cons_of_mem _ hy⟩

theorem shape_some {s : Store α} {x : α} {n : Node α} (h : get s x = some n) : shape s x = some n.parents := by
  simp [shape, h]

theorem shape_some_inv {s : Store α} {x : α} {ps : List α} (h : shape s x = some ps) :
    ∃ n, get s x = some n ∧ n.parents = ps := by
  unfold shape at h
  cases hg : get s x with
  | none => rw [hg] at h; cases h
  | some n => rw [hg] at h; simp at h; exact ⟨n, rfl, h⟩

/-! ### `repair_tc` leaves keys and parents alone (list level) -/

theorem pg_set (s : Store α) (x : α) (n n' : Node α) (hg : get s x = some n) (hp : n'.parents = n.parents) :
    parentGraph (set s x n') = parentGraph s := by
  induction s with
  | nil => rfl
  | cons kv rest ih =>
    obtain ⟨k, v⟩ := kv
    by_cases hk : k = x
    · simp only [get, hk, if_true, Option.some.injEq] at hg
      subst hg
      simp [set, hk, parentGraph, hp]
    · simp only [get, hk, if_false] at hg
      have := ih hg
      simp only [parentGraph] at this
      simp [set, hk, parentGraph, this]

def PGSpec (rec : α → Store α → List α → Store α × List α) : Prop :=
  ∀ x s seen, parentGraph (rec x s seen).1 = parentGraph s

theorem loopStep_s (rec : α → Store α → List α → Store α × List α) (st : LoopSt α) (a : α) :
    (loopStep rec st a).s = (if a ∈ st.seen then (st.s, st.seen) else rec a st.s (a :: st.seen)).1 := by
  unfold loopStep
  simp only
  split
  · rfl
  · split <;> rfl

theorem fold_pg (rec : α → Store α → List α → Store α × List α) (hrec : PGSpec rec) (outs : List α) :
    ∀ st : LoopSt α, parentGraph (outs.foldl (loopStep rec) st).s = parentGraph st.s := by
  induction outs with
  | nil => intro st; rfl
  | cons a outs ih =>
    intro st
    simp only [List.foldl_cons]
    rw [ih, loopStep_s]
    split
    · rfl
    · exact hrec _ _ _

theorem addAnc_pg : ∀ f, PGSpec (addAnc (α := α) f) := by
  intro f
  induction f with
  | zero => intro x s seen; rfl
  | succ f ih =>
    intro x s seen
    unfold addAnc
    cases hgx : get s x with
    | none => rfl
    | some nx =>
      simp only
      have hf := fold_pg (addAnc f) ih nx.out { s := s, seen := seen, acc := [], explored := [] }
      generalize nx.out.foldl (loopStep (addAnc f)) { s := s, seen := seen, acc := [], explored := [] } = st at hf
      cases hgx' : get st.s x with
      | none => exact hf
      | some nx' =>
        simp only
        rw [pg_set st.s x nx' _ hgx' (addEdges_parents _ _)]
        exact hf

theorem repairLoop_pg (fuel : Nat) (t : List α) :
    ∀ (s : Store α) (seen : List α), parentGraph (repairLoop fuel t s seen).1 = parentGraph s := by
  induction t with
  | nil => intro s seen; rfl
  | cons x t ih =>
    intro s seen
    have e : repairLoop fuel (x :: t) s seen =
        repairLoop fuel t (addAnc fuel x s seen).1 (addAnc fuel x s seen).2 := by
      simp [repairLoop]
    rw [e, ih, addAnc_pg]

theorem repairTc_pg {t : List α} {s s' : Store α} (h : repairTc t s = .ok s') : parentGraph s' = parentGraph s := by
  unfold repairTc at h
  simp only at h
  split at h
  · cases h; exact repairLoop_pg _ _ _ _
  · cases h

/-! ### what `repair_tc` needs from the callers -/

theorem repair_establishes (s1 : Store α) (t : List α)
    (hs : Sound (shape s1) s1) (hacyc : ∀ x, ¬ Reach (shape s1) x x)
    (hun : ∀ k, k ∈ keys s1 → k ∉ t → Complete (shape s1) s1 k)
    (hd : Disjoint s1) :
    ∃ s', repairTc t s1 = .ok s' ∧ StoreInv s' ∧ parentGraph s' = parentGraph s1 := by
  have hg : Good (shape s1) (uidsOf s1) s1 := fun x n hx y hy => ⟨hs x n hx y hy, mem_uidsOf hx hy⟩
  obtain ⟨s', hok, hext, hex⟩ := repairTc_ok s1 t (shape s1) (shapeIs_shape s1) hacyc hg hun
  have hsh : shape s' = shape s1 := funext (fun x => (shapeIs_shape s1).ext hext x)
  refine ⟨s', hok, ⟨by rw [hsh]; exact hex, by rw [hsh]; exact hacyc, ?_⟩, repairTc_pg hok⟩
  intro x n' hx y hy hy'
  cases hg1 : get s1 x with
  | none => rw [hext.2 x hg1] at hx; cases hx
  | some n =>
    obtain ⟨n2, g2, p2, _, d2, _⟩ := hext.1 x n hg1
    rw [g2] at hx; cases hx
    rcases d2 y hy' with h | h
    · exact hd x n hg1 y (p2 ▸ hy) h
    · exact h hy

/-! ### the touched pass -/

theorem tinsert_sub (k : α) (t : List α) : ∀ a, a ∈ t → a ∈ tinsert k t := by
  intro a ha; unfold tinsert; split
  · exact ha
  · exact List.mem_append_left _ ha

theorem tinsert_self (k : α) (t : List α) : k ∈ tinsert k t := by
  unfold tinsert; split
  · assumption
  · simp

theorem mem_tinsert {k a : α} {t : List α} (h : a ∈ tinsert k t) : a = k ∨ a ∈ t := by
  unfold tinsert at h; split at h
  · exact Or.inr h
  · simp only [List.mem_append, List.mem_singleton] at h
    rcases h with h | h
    · exact Or.inr h
    · exact Or.inl h

theorem touchPass_sub (s : Store α) : ∀ (t : List α) a, a ∈ t → a ∈ touchPass s t := by
  induction s with
  | nil => intro t a h; exact h
  | cons kn s ih =>
    intro t a h
    simp only [touchPass, List.foldl_cons]
    apply ih
    split
    · exact tinsert_sub _ _ _ h
    · exact h

/-- a record that is not touched after the pass has no ancestor in the initial touched set -/
theorem touchPass_untouched (s : Store α) : ∀ (t : List α) k n, (k, n) ∈ s → k ∉ touchPass s t →
    ∀ a, a ∈ n.out → a ∉ t := by
  induction s with
  | nil => intro t k n h; cases h
  | cons kn s ih =>
    intro t k n hmem hk a ha hat
    simp only [touchPass, List.foldl_cons] at hk
    simp only [List.mem_cons] at hmem
    rcases hmem with rfl | hmem
    · apply hk
      have : (k, n).2.out.any (fun a => decide (a ∈ t)) = true := by
        rw [List.any_eq_true]; exact ⟨a, ha, by simpa using hat⟩
      simp only [this, if_true]
      exact touchPass_sub s _ _ (tinsert_self _ _)
    · refine ih _ k n hmem hk a ha ?_
      split
      · exact tinsert_sub _ _ _ hat
      · exact hat

/-! ### parent graphs -/

theorem pg_get (s : Store α) (x : α) : PGraph.get (parentGraph s) x = shape s x := by
  induction s with
  | nil => rfl
  | cons kv rest ih =>
    obtain ⟨k, v⟩ := kv
    by_cases hk : k = x
    · simp [parentGraph, PGraph.get, shape, get, hk]
    · simp only [parentGraph, List.map_cons, PGraph.get, hk, if_false, shape, get]
      exact ih

theorem get_append_single (s : Store α) (e : α × Node α) (x : α) :
    get (s ++ [e]) x = match get s x with
      | some n => some n
      | none => if e.1 = x then some e.2 else none := by
  induction s with
  | nil => simp [get]
  | cons kv rest ih =>
    obtain ⟨k, v⟩ := kv
    by_cases hk : k = x
    · simp [get, hk]
    · simp only [List.cons_append, get, hk, if_false]
      exact ih

/-! ### add_entities -/

def PureBatch (es : List (α × Node α)) : Prop := ∀ e, e ∈ es → e.2.indirect = []

theorem addLoop_spec : ∀ (es : List (α × Node α)) (s : Store α) (t : List α) (s1 : Store α) (t1 : List α),
    addLoop s t es = .ok (s1, t1) → PureBatch es →
    (∀ x n, get s x = some n → get s1 x = some n) ∧
    (∀ x n, get s x = none → get s1 x = some n → n.indirect = [] ∧ x ∈ t1) ∧
    (∀ x, x ∈ t → x ∈ t1) ∧
    parentGraph s1 = specAdd (parentGraph s) es := by
  intro es
  induction es with
  | nil =>
    intro s t s1 t1 h _
    simp only [addLoop] at h
    cases h
    exact ⟨fun _ _ h => h, fun x n h1 h2 => (by rw [h1] at h2; cases h2), fun _ h => h, rfl⟩
  | cons e es ih =>
    intro s t s1 t1 h hp
    simp only [addLoop] at h
    have hp' : PureBatch es := fun e' he' => hp e' (List.mem_cons_of_mem _ he')
    cases hu : updateEntityMap s e false with
    | error err => rw [hu] at h; cases h
    | ok s' =>
      rw [hu] at h
      simp only at h
      obtain ⟨i1, i2, i3, i4⟩ := ih s' (tinsert e.1 t) s1 t1 h hp'
      unfold updateEntityMap at hu
      cases hge : get s e.1 with
      | some old =>
        rw [hge] at hu
        simp only [Bool.false_eq_true, if_false] at hu
        split at hu
        · cases hu
          refine ⟨i1, i2, fun x hx => i3 x (tinsert_sub _ _ _ hx), ?_⟩
          have hpg : PGraph.get (parentGraph s) e.1 = some old.parents := by rw [pg_get]; exact shape_some hge
          rw [i4]
          simp only [specAdd, hpg]
        · cases hu
      | none =>
        rw [hge] at hu
        cases hu
        refine ⟨?_, ?_, fun x hx => i3 x (tinsert_sub _ _ _ hx), ?_⟩
        · intro x n hx
          apply i1
          rw [get_append_single, hx]
        · intro x n hx hx1
          by_cases hex : e.1 = x
          · have : get (s ++ [e]) x = some e.2 := by rw [get_append_single, hx]; simp [hex]
            have h2 := i1 x e.2 this
            rw [h2] at hx1; cases hx1
            exact ⟨hp e List.mem_cons_self, i3 x (hex ▸ tinsert_self _ _)⟩
          · have : get (s ++ [e]) x = none := by rw [get_append_single, hx]; simp [hex]
            exact i2 x n this hx1
        · have hpg : PGraph.get (parentGraph s) e.1 = none := by rw [pg_get]; simp [shape, hge]
          have happ : parentGraph (s ++ [e]) = parentGraph s ++ [(e.1, e.2.parents)] := by simp [parentGraph]
          rw [i4, happ]
          simp only [specAdd, hpg]

/-- the store `add_entities` hands to `repair_tc` only contains justified edges (no acyclicity needed) -/
theorem addLoop_sound (s : Store α) (es : List (α × Node α)) (hinv : StoreInv s) (hp : PureBatch es)
    (s1 : Store α) (t : List α) (hloop : addLoop s [] es = .ok (s1, t)) : Sound (shape s1) s1 := by
  obtain ⟨l1, l2, _, _⟩ := addLoop_spec es s [] s1 t hloop hp
  intro x n hx y hy
  cases hgs : get s x with
  | some n0 =>
    have := l1 x n0 hgs
    rw [this] at hx; cases hx
    refine Reach.mono ?_ ((hinv.exact x n hgs y).mp hy)
    intro a ps ha
    obtain ⟨m, hm, hps⟩ := shape_some_inv ha
    exact ⟨ps, by rw [shape_some (l1 a m hm), hps], fun _ h => h⟩
  | none =>
    have := (l2 x n hgs hx).1
    have hy' : y ∈ n.parents := by
      unfold Node.out at hy; rw [this] at hy; simpa using hy
    exact Reach.edge (shape_some hx) hy'

/-- `add_entities` fails only with `duplicate` (from the batch loop) or with `cycle`, and the latter
    only if the resulting parent graph really has a cycle -/
theorem addEntities_err (s : Store α) (es : List (α × Node α)) (hinv : StoreInv s) (hp : PureBatch es)
    (e : Err) (h : addEntities .compute s es = .error e) :
    addLoop s [] es = .error e ∨
    (e = .cycle ∧ ∃ s1 t, addLoop s [] es = .ok (s1, t) ∧ ∃ x, Reach (shape s1) x x) := by
  unfold addEntities at h
  cases hl : addLoop s [] es with
  | error e' => rw [hl] at h; simp only at h; cases h; exact Or.inl rfl
  | ok st =>
    obtain ⟨s1, t⟩ := st
    rw [hl] at h
    simp only [finish, if_true] at h
    have hs := addLoop_sound s es hinv hp s1 t hl
    obtain ⟨r1, _, r3⟩ := repairTc_sound s1 (touchPass s1 t) (shape s1) hs
    have he := r3 e h
    subst he
    exact Or.inr ⟨rfl, s1, t, rfl, r1 h⟩

/-- `add_entities` (ComputeNow) on a store satisfying the invariant, for a batch without conflicting
    duplicates whose resulting parent graph is acyclic: accepted, invariant re-established, and the
    parent graph is the spec's. -/
theorem addEntities_ok (s : Store α) (es : List (α × Node α)) (hinv : StoreInv s) (hp : PureBatch es)
    (s1 : Store α) (t : List α) (hloop : addLoop s [] es = .ok (s1, t))
    (hacyc : ∀ x, ¬ Reach (shape s1) x x) :
    ∃ s', addEntities .compute s es = .ok s' ∧ StoreInv s' ∧ parentGraph s' = specAdd (parentGraph s) es := by
  obtain ⟨l1, l2, _, l4⟩ := addLoop_spec es s [] s1 t hloop hp
  have hmono : ∀ {x y}, Reach (shape s) x y → Reach (shape s1) x y := by
    intro x y hr
    refine Reach.mono ?_ hr
    intro a ps ha
    obtain ⟨n, hn, hps⟩ := shape_some_inv ha
    exact ⟨ps, by rw [shape_some (l1 a n hn), hps], fun _ h => h⟩
  have hsound : Sound (shape s1) s1 := by
    intro x n hx y hy
    cases hgs : get s x with
    | some n0 =>
      have := l1 x n0 hgs
      rw [this] at hx; cases hx
      exact hmono ((hinv.exact x n hgs y).mp hy)
    | none =>
      have := (l2 x n hgs hx).1
      have hy' : y ∈ n.parents := by
        unfold Node.out at hy; rw [this] at hy; simpa using hy
      exact Reach.edge (shape_some hx) hy'
  have hdisj : Disjoint s1 := by
    intro x n hx y hy
    cases hgs : get s x with
    | some n0 =>
      have := l1 x n0 hgs
      rw [this] at hx; cases hx
      exact hinv.disjoint x n hgs y hy
    | none => rw [(l2 x n hgs hx).1]; simp
  -- reachability from an old node that has no touched ancestor is unchanged
  have hold : ∀ x y, Reach (shape s1) x y → ∀ n, get s x = some n → (∀ a, a ∈ n.out → a ∉ t) →
      Reach (shape s) x y := by
    intro x y hr
    induction hr with
    | edge hpx hy =>
      intro n hn _
      rw [shape_some (l1 _ n hn)] at hpx; cases hpx
      exact Reach.edge (shape_some hn) hy
    | step hpx hz hzy ih =>
      intro n hn hnt
      rename_i x' y' z' ps'
      rw [shape_some (l1 _ n hn)] at hpx; cases hpx
      have hzout : z' ∈ n.out := by unfold Node.out; exact List.mem_append_left _ hz
      obtain ⟨pz, hpz⟩ := hzy.src_some
      obtain ⟨nz1, hnz1, _⟩ := shape_some_inv hpz
      cases hgz : get s z' with
      | none => exact absurd (l2 z' nz1 hgz hnz1).2 (hnt z' hzout)
      | some nz =>
        have hsub : ∀ a, a ∈ nz.out → a ∉ t := by
          intro a ha
          apply hnt
          have h1 : Reach (shape s) z' a := (hinv.exact z' nz hgz a).mp ha
          exact (hinv.exact x' n hn a).mpr (Reach.step (shape_some hn) hz h1)
        exact Reach.step (shape_some hn) hz (ih nz hgz hsub)
  have hun : ∀ k, k ∈ keys s1 → k ∉ touchPass s1 t → Complete (shape s1) s1 k := by
    intro k hk hkt n1 hn1 y hr
    have hkt0 : k ∉ t := fun h => hkt (touchPass_sub s1 t k h)
    cases hgs : get s k with
    | none => exact absurd (l2 k n1 hgs hn1).2 hkt0
    | some n =>
      have h1 := l1 k n hgs
      have e : n1 = n := by rw [hn1] at h1; exact Option.some.inj h1
      have hnt := touchPass_untouched s1 t k n (get_some_mem h1) hkt
      rw [e]
      exact (hinv.exact k n hgs y).mpr (hold k y hr n hgs hnt)
  obtain ⟨s', hok, hinv', hpg⟩ := repair_establishes s1 (touchPass s1 t) hsound hacyc hun hdisj
  refine ⟨s', ?_, hinv', by rw [hpg, l4]⟩
  unfold addEntities
  rw [hloop]
  simp only [finish, if_true]
  exact hok

end Cedar.TC
