import CedarVerif.Lemmas.PartialSound4
/- The main induction: first-pass soundness of `pinterp` on `Frag`. -/
namespace Cedar

/-- iota-reduce the `match`es exposed by the last case split -/
macro "red" : tactic => `(tactic| try simp only [])

theorem sound_val {σ : Mapper} {req : Request} {es : Entities} {env : SlotEnv} {nr : Prop} {y : Result Value} {v : Value}
    (h1 : y = .ok v) (h2 : v.DRT) : Sound σ req es env nr y (.val v) := ⟨h1, h2⟩
theorem sound_err {σ : Mapper} {req : Request} {es : Entities} {env : SlotEnv} {nr : Prop} {y : Result Value} {c : ErrClass}
    (c' : ErrClass) (h : y = .error c') : Sound σ req es env nr y (.err c) := ⟨c', h⟩
theorem sound_res {σ : Mapper} {req : Request} {es : Entities} {env : SlotEnv} {nr : Prop} {y : Result Value} {r : Expr}
    (h1 : nr → NotRecord r) (h2 : TypedOK r y)
    (h3 : ∀ n', Sem (pinterp σ (.ofConcrete req) (.ofConcrete es) env n' r) y) : Sound σ req es env nr y (.res r) := ⟨h1, h2, h3⟩
theorem sound_fuel {σ : Mapper} {req : Request} {es : Entities} {env : SlotEnv} {nr : Prop} {y : Result Value} :
    Sound σ req es env nr y .fuel := True.intro
theorem sound_panic {σ : Mapper} {req : Request} {es : Entities} {env : SlotEnv} {nr : Prop} {y : Result Value} :
    Sound σ req es env nr y .panic := True.intro

/-- the record-freeness clause only gets weaker with a stronger premise -/
theorem Sound.mono {σ : Mapper} {req : Request} {es : Entities} {env : SlotEnv} {nr nr' : Prop} {y : Result Value} {x : PRes}
    (hn : nr' → nr) (h : Sound σ req es env nr y x) : Sound σ req es env nr' y x := by
  cases x with
  | val v => exact h
  | err c => exact h
  | res r => exact ⟨fun h' => h.1 (hn h'), h.2.1, h.2.2⟩
  | fuel => trivial
  | panic => trivial

theorem RT_emptyRecord : RT (.record []) := by
  intro m req es env n
  cases n with
  | zero => left; simp [pinterp]
  | succ n => right; simp [Value.toExpr, Value.toExprKVs, pinterp, collectPVKVs, splitPV]

theorem typedOK_vacuous {r : Expr} {y : Result Value} (h : ∀ name ty, r ≠ .unknown name ty) : TypedOK r y := by
  intro name t hr; exact (h _ _ hr).elim

theorem shortCircuitVR_some {v1 : Value} {e2 : Expr} {op : BinaryOp} {r : PRes} (h : shortCircuitVR v1 e2 op = some r) :
    ∃ u1 name t, op = .eq ∧ v1 = .prim (.entityUID u1) ∧ e2 = .unknown name (some (.entity t)) ∧ u1.ty ≠ t ∧
      r = .val (.prim (.bool false)) := by
  unfold shortCircuitVR at h
  split at h
  · rename_i u1 name t
    split at h
    · rename_i hne
      cases h
      exact ⟨u1, name, t, rfl, rfl, rfl, by simpa using hne, rfl⟩
    · cases h
  · cases h

theorem shortCircuitRV_some {e1 : Expr} {v2 : Value} {op : BinaryOp} {r : PRes} (h : shortCircuitRV e1 v2 op = some r) :
    ∃ u2 name t, op = .eq ∧ v2 = .prim (.entityUID u2) ∧ e1 = .unknown name (some (.entity t)) ∧ u2.ty ≠ t ∧
      r = .val (.prim (.bool false)) := by
  unfold shortCircuitRV at h
  cases op <;> simp only at h <;> first | cases h | exact shortCircuitVR_some h

theorem shortCircuitRR_some {e1 e2 : Expr} {op : BinaryOp} {r : PRes} (h : shortCircuitRR e1 e2 op = some r) :
    ∃ n1 t1 n2 t2, op = .eq ∧ e1 = .unknown n1 (some (.entity t1)) ∧ e2 = .unknown n2 (some (.entity t2)) ∧ t1 ≠ t2 ∧
      r = .val (.prim (.bool false)) := by
  unfold shortCircuitRR at h
  split at h
  · rename_i n1 t1 n2 t2
    split at h
    · rename_i hne
      cases h
      exact ⟨n1, t1, n2, t2, rfl, rfl, rfl, by simpa using hne, rfl⟩
    · cases h
  · cases h

theorem beq_uid_ne {u1 u2 : EntityUID} (h : u1.ty ≠ u2.ty) :
    Value.beq (.prim (.entityUID u1)) (.prim (.entityUID u2)) = false := by
  have : u1 ≠ u2 := fun he => h (by rw [he])
  simp [Value.beq, this]

section
variable (σ : Mapper) (req : Request) (es : Entities) (env : SlotEnv)

theorem sound_var {nr : Prop} (hctx : (Value.record req.context).DRT) (v : Var) (m0 : Mapper) (preq : PRequest) (n : Nat)
    (hC : Concretizes σ preq req) :
    Sound σ req es env nr (evaluate req es env (.var v)) (pinterp m0 preq (.ofConcrete es) env n (.var v)) := by
  cases n with
  | zero => simp [pinterp, Sound]
  | succ n =>
    have entry : ∀ (en : UidEntry) (key : String) (uid : EntityUID), en.Conc σ key uid →
        Sound σ req es env nr (.ok (.prim (.entityUID uid))) (en.eval key) := by
      intro en key uid h
      cases en with
      | known u => simp only [UidEntry.Conc] at h; subst h; exact sound_val rfl trivial
      | unknown ty =>
        cases ty with
        | none =>
          simp only [UidEntry.Conc] at h
          refine sound_res (fun _ => trivial) ?_ ?_
          · intro name t hh; cases hh
          · intro n'; cases n' <;> simp [pinterp, unknownToPV, h]
        | some t =>
          simp only [UidEntry.Conc] at h
          refine sound_res (fun _ => trivial) ?_ ?_
          · intro name t' hh; cases hh; exact ⟨uid, rfl, h.2⟩
          · intro n'; cases n' <;> simp [pinterp, unknownToPV, h.1, Value.typeOf, h.2]
    cases v with
    | principal => simpa [pinterp, evaluate] using entry _ _ _ hC.principal
    | action => simpa [pinterp, evaluate] using entry _ _ _ hC.action
    | resource => simpa [pinterp, evaluate] using entry _ _ _ hC.resource
    | context =>
      have hc := hC.context
      simp only [pinterp, evaluate]
      cases hpc : preq.context with
      | none =>
        rw [hpc] at hc; simp only at hc
        refine sound_res (fun _ => trivial) ?_ ?_
        · intro name t hh; cases hh
        · intro n'; cases n' <;> simp [pinterp, unknownToPV, hc]
      | some c =>
        cases c with
        | value kvs => rw [hpc] at hc; simp only at hc; subst hc; exact sound_val rfl hctx
        | residual kvs => rw [hpc] at hc; exact hc.elim

theorem pinterp_sound_frag (hctx : (Value.record req.context).DRT) (hstore : StoreDRT es) {e : Expr} (hf : Frag e) :
    ∀ (m0 : Mapper) (preq : PRequest) (n : Nat), Concretizes σ preq req →
      Sound σ req es env (NR e) (evaluate req es env e) (pinterp m0 preq (.ofConcrete es) env n e) := by
  induction hf with
  | lit p =>
    intro m0 preq n hC
    cases n <;> simp [pinterp, Sound, evaluate, Value.DRT]
  | var v => intro m0 preq n hC; exact sound_var σ req es env hctx v m0 preq n hC
  | slot s =>
    intro m0 preq n hC
    cases n with
    | zero => simp [pinterp, Sound]
    | succ n => cases hl : env.lookup s <;> simp [pinterp, evaluate, hl, Sound, Value.DRT]
  | @and a b hfa hfb iha ihb =>
    intro m0 preq n hC
    cases n with
    | zero => simp [pinterp, Sound]
    | succ n =>
      have sa := iha m0 preq n hC
      have sb := ihb m0 preq n hC
      simp only [pinterp]
      cases hxa : pinterp m0 preq (.ofConcrete es) env n a with
      | fuel => red; exact sound_fuel
      | panic => red; exact sound_panic
      | err c => red; rw [hxa] at sa; obtain ⟨c', hc'⟩ := sa; exact sound_err c' (by simp [evaluate, hc'])
      | val v =>
        red
        rw [hxa] at sa; obtain ⟨hev, _⟩ := sa
        cases hb : v.asBool with
        | error c => red; exact sound_err c (by simp [evaluate, hev, hb])
        | ok bv =>
          cases bv with
          | false => red; exact sound_val (by simp [evaluate, hev, hb]) (trivial)
          | true =>
            red
            cases hxb : pinterp m0 preq (.ofConcrete es) env n b with
            | fuel => red; exact sound_fuel
            | panic => red; exact sound_panic
            | err c => red; rw [hxb] at sb; obtain ⟨c', hc'⟩ := sb; exact sound_err c' (by simp [evaluate, hev, hb, hc'])
            | val w =>
              red
              rw [hxb] at sb; obtain ⟨hevb, _⟩ := sb
              cases hw : w.asBool with
              | error c => red; exact sound_err c (by simp [evaluate, hev, hb, hevb, hw])
              | ok r => red; exact sound_val (by simp [evaluate, hev, hb, hevb, hw]) (trivial)
            | res rb =>
              red
              rw [hxb] at sb
              refine sound_res (fun _ => trivial) (typedOK_vacuous (by intro _ _ h; cases h)) ?_
              have hv := asBool_ok hb; subst hv
              exact sem_and σ _ _ env req es (by rw [hev]; exact sem_lit _ _ _ _ _) sb.2.2
      | res l =>
        red
        rw [hxa] at sa
        rw [bestEffort_eq]
        cases hB : Best (pinterp m0 preq (.ofConcrete es) env n b) b with
        | none => red; exact sound_stuck (best_none hB)
        | some X =>
          red
          refine sound_res (fun _ => trivial) (typedOK_vacuous (by intro _ _ h; cases h)) ?_
          exact sem_and σ _ _ env req es sa.2.2 (sem_best hfb ihb sb hB)
  | @or a b hfa hfb iha ihb =>
    intro m0 preq n hC
    cases n with
    | zero => simp [pinterp, Sound]
    | succ n =>
      have sa := iha m0 preq n hC
      have sb := ihb m0 preq n hC
      simp only [pinterp]
      cases hxa : pinterp m0 preq (.ofConcrete es) env n a with
      | fuel => red; exact sound_fuel
      | panic => red; exact sound_panic
      | err c => red; rw [hxa] at sa; obtain ⟨c', hc'⟩ := sa; exact sound_err c' (by simp [evaluate, hc'])
      | val v =>
        red
        rw [hxa] at sa; obtain ⟨hev, _⟩ := sa
        cases hb : v.asBool with
        | error c => red; exact sound_err c (by simp [evaluate, hev, hb])
        | ok bv =>
          cases bv with
          | true => red; exact sound_val (by simp [evaluate, hev, hb]) (trivial)
          | false =>
            red
            cases hxb : pinterp m0 preq (.ofConcrete es) env n b with
            | fuel => red; exact sound_fuel
            | panic => red; exact sound_panic
            | err c => red; rw [hxb] at sb; obtain ⟨c', hc'⟩ := sb; exact sound_err c' (by simp [evaluate, hev, hb, hc'])
            | val w =>
              red
              rw [hxb] at sb; obtain ⟨hevb, _⟩ := sb
              cases hw : w.asBool with
              | error c => red; exact sound_err c (by simp [evaluate, hev, hb, hevb, hw])
              | ok r => red; exact sound_val (by simp [evaluate, hev, hb, hevb, hw]) (trivial)
            | res rb =>
              red
              rw [hxb] at sb
              refine sound_res (fun _ => trivial) (typedOK_vacuous (by intro _ _ h; cases h)) ?_
              have hv := asBool_ok hb; subst hv
              exact sem_or σ _ _ env req es (by rw [hev]; exact sem_lit _ _ _ _ _) sb.2.2
      | res l =>
        red
        rw [hxa] at sa
        rw [bestEffort_eq]
        cases hB : Best (pinterp m0 preq (.ofConcrete es) env n b) b with
        | none => red; exact sound_stuck (best_none hB)
        | some X =>
          red
          refine sound_res (fun _ => trivial) (typedOK_vacuous (by intro _ _ h; cases h)) ?_
          exact sem_or σ _ _ env req es sa.2.2 (sem_best hfb ihb sb hB)
  | @ite c t e hfc hft hfe ihc iht ihe =>
    intro m0 preq n hC
    cases n with
    | zero => simp [pinterp, Sound]
    | succ n =>
      have sc := ihc m0 preq n hC
      have st := iht m0 preq n hC
      have se := ihe m0 preq n hC
      simp only [pinterp]
      cases hxc : pinterp m0 preq (.ofConcrete es) env n c with
      | fuel => red; exact sound_fuel
      | panic => red; exact sound_panic
      | err c0 => red; rw [hxc] at sc; obtain ⟨c', hc'⟩ := sc; exact sound_err c' (by simp [evaluate, hc'])
      | val v =>
        red
        rw [hxc] at sc; obtain ⟨hev, _⟩ := sc
        cases hb : v.asBool with
        | error c0 => red; exact sound_err c0 (by simp [evaluate, hev, hb])
        | ok bv =>
          cases bv with
          | true =>
            red
            have : evaluate req es env (.ite c t e) = evaluate req es env t := by simp [evaluate, hev, hb]
            rw [this]; exact st.mono (fun h => by simp only [NR] at h; exact h.1)
          | false =>
            red
            have : evaluate req es env (.ite c t e) = evaluate req es env e := by simp [evaluate, hev, hb]
            rw [this]; exact se.mono (fun h => by simp only [NR] at h; exact h.2)
      | res g =>
        red
        rw [hxc] at sc
        simp only [bestEffort_eq]
        cases hBt : Best (pinterp m0 preq (.ofConcrete es) env n t) t with
        | none => red; exact sound_stuck (best_none hBt)
        | some T =>
          red
          cases hBe : Best (pinterp m0 preq (.ofConcrete es) env n e) e with
          | none => red; exact sound_stuck (best_none hBe)
          | some E =>
            red
            refine sound_res (fun _ => trivial) (typedOK_vacuous (by intro _ _ h; cases h)) ?_
            exact sem_ite σ _ _ env req es sc.2.2 (sem_best hft iht st hBt) (sem_best hfe ihe se hBe)
  | @unaryApp op a hfa iha =>
    intro m0 preq n hC
    cases n with
    | zero => simp [pinterp, Sound]
    | succ n =>
      have sa := iha m0 preq n hC
      simp only [pinterp]
      cases hxa : pinterp m0 preq (.ofConcrete es) env n a with
      | fuel => red; exact sound_fuel
      | panic => red; exact sound_panic
      | err c => red; rw [hxa] at sa; obtain ⟨c', hc'⟩ := sa; exact sound_err c' (by simp [evaluate, hc'])
      | val v =>
        red
        rw [hxa] at sa; obtain ⟨hev, _⟩ := sa
        have : evaluate req es env (.unaryApp op a) = applyUnary op v := by simp [evaluate, hev]
        rw [this]; exact sound_ofResult (fun w hw => applyUnary_DRT hw)
      | res l =>
        red
        rw [hxa] at sa
        exact sound_res (fun _ => trivial) (typedOK_vacuous (by intro _ _ h; cases h)) (sem_unary σ _ _ env req es op sa.2.2)
  | @binaryApp op a b hfa hfb iha ihb =>
    intro m0 preq n hC
    cases n with
    | zero => simp [pinterp, Sound]
    | succ n =>
      have sa := iha m0 preq n hC
      have sb := ihb m0 preq n hC
      simp only [pinterp]
      cases hxa : pinterp m0 preq (.ofConcrete es) env n a with
      | fuel => red; exact sound_fuel
      | panic => red; exact sound_panic
      | err c => red; rw [hxa] at sa; obtain ⟨c', hc'⟩ := sa; exact sound_err c' (by simp [evaluate, hc'])
      | val v1 =>
        red
        rw [hxa] at sa; obtain ⟨hev, hd1⟩ := sa
        cases hxb : pinterp m0 preq (.ofConcrete es) env n b with
        | fuel => red; exact sound_fuel
        | panic => red; exact sound_panic
        | err c => red; rw [hxb] at sb; obtain ⟨c', hc'⟩ := sb; exact sound_err c' (by simp [evaluate, hev, hc'])
        | val v2 =>
          red
          rw [hxb] at sb; obtain ⟨hevb, _⟩ := sb
          have : evaluate req es env (.binaryApp op a b) = applyBinary es op v1 v2 := by simp [evaluate, hev, hevb]
          rw [this, papplyBinary_ofConcrete]
          exact sound_ofResult (fun w hw => applyBinary_DRT' hstore hw)
        | res e2 =>
          red
          rw [hxb] at sb
          cases hsc : shortCircuitVR v1 e2 op with
          | some r =>
            red
            obtain ⟨u1, name, t, rfl, rfl, rfl, hne, rfl⟩ := shortCircuitVR_some hsc
            obtain ⟨u, hu, hty⟩ := sb.2.1 name t rfl
            have hbq := beq_uid_ne (u1 := u1) (u2 := u) (fun h => hne (h.trans hty))
            refine sound_val ?_ trivial
            simp [evaluate, hev, hu, applyBinary, hbq]
          | none =>
            red
            refine sound_res (fun _ => trivial) (typedOK_vacuous (by intro _ _ h; cases h)) ?_
            exact sem_binary σ _ env req es op (by rw [hev]; exact sem_toExpr hd1 _ _ _ _) sb.2.2
      | res e1 =>
        red
        rw [hxa] at sa
        cases hxb : pinterp m0 preq (.ofConcrete es) env n b with
        | fuel => red; exact sound_fuel
        | panic => red; exact sound_panic
        | err c =>
          red
          rw [hxb] at sb; obtain ⟨c', hc'⟩ := sb
          -- the left operand is a residual: its concrete value exists or errors; either way the result errors
          cases hea : evaluate req es env a with
          | error ca => exact sound_err ca (by simp [evaluate, hea])
          | ok va => exact sound_err c' (by simp [evaluate, hea, hc'])
        | val v2 =>
          red
          rw [hxb] at sb; obtain ⟨hevb, hd2⟩ := sb
          cases hsc : shortCircuitRV e1 v2 op with
          | some r =>
            red
            obtain ⟨u2, name, t, rfl, rfl, rfl, hne, rfl⟩ := shortCircuitRV_some hsc
            obtain ⟨u, hu, hty⟩ := sa.2.1 name t rfl
            have hbq := beq_uid_ne (u1 := u) (u2 := u2) (fun h => hne (h ▸ hty))
            refine sound_val ?_ trivial
            simp [evaluate, hevb, hu, applyBinary, hbq]
          | none =>
            red
            refine sound_res (fun _ => trivial) (typedOK_vacuous (by intro _ _ h; cases h)) ?_
            exact sem_binary σ _ env req es op sa.2.2 (by rw [hevb]; exact sem_toExpr hd2 _ _ _ _)
        | res e2 =>
          red
          rw [hxb] at sb
          cases hsc : shortCircuitRR e1 e2 op with
          | some r =>
            red
            obtain ⟨n1, t1, n2, t2, rfl, rfl, rfl, hne, rfl⟩ := shortCircuitRR_some hsc
            obtain ⟨ua, hua, htya⟩ := sa.2.1 n1 t1 rfl
            obtain ⟨ub, hub, htyb⟩ := sb.2.1 n2 t2 rfl
            have hbq := beq_uid_ne (u1 := ua) (u2 := ub) (by rw [htya, htyb]; exact hne)
            refine sound_val ?_ trivial
            simp [evaluate, hua, hub, applyBinary, hbq]
          | none =>
            red
            refine sound_res (fun _ => trivial) (typedOK_vacuous (by intro _ _ h; cases h)) ?_
            exact sem_binary σ _ env req es op sa.2.2 sb.2.2
  | @getAttr e attr hnr hfe ihe =>
    intro m0 preq n hC
    cases n with
    | zero => simp [pinterp, Sound]
    | succ n =>
      have se := ihe m0 preq n hC
      simp only [pinterp]
      cases hxe : pinterp m0 preq (.ofConcrete es) env n e with
      | fuel => red; exact sound_fuel
      | panic => red; exact sound_panic
      | err c => red; rw [hxe] at se; obtain ⟨c', hc'⟩ := se; exact sound_err c' (by simp [evaluate, hc'])
      | res r =>
        red
        rw [hxe] at se
        split
        · exact (se.1 hnr).elim
        · exact sound_res (fun _ => trivial) (typedOK_vacuous (by intro _ _ h; cases h)) (sem_getAttr σ _ env req es attr se.2.2)
      | val v =>
        red
        rw [hxe] at se; obtain ⟨hev, hd⟩ := se
        cases v with
        | set vs => red; exact sound_err .type (by simp [evaluate, hev])
        | ext x => red; exact sound_err .type (by simp [evaluate, hev])
        | record kvs =>
          red
          simp only [Value.DRT] at hd
          cases hl : lookupKV kvs attr with
          | none => red; exact sound_err .attr (by simp [evaluate, hev, hl])
          | some w => red; exact sound_val (by simp [evaluate, hev, hl]) (DRTKVs_lookup hd.2 hl)
        | prim p =>
          cases p with
          | bool b => red; exact sound_err .type (by simp [evaluate, hev])
          | int i => red; exact sound_err .type (by simp [evaluate, hev])
          | string s => red; exact sound_err .type (by simp [evaluate, hev])
          | entityUID u =>
            red
            simp only [entity_ofConcrete]
            cases hfu : es.find? u with
            | none => red; exact sound_err .entity (by simp [evaluate, hev, hfu])
            | some d =>
              red
              simp only [attrs_ofConcrete]
              cases hl : lookupKV d.attrs attr with
              | none => red; exact sound_err .attr (by simp [evaluate, hev, hfu, hl])
              | some w => red; exact sound_val (by simp [evaluate, hev, hfu, hl]) ((hstore u d hfu).1 attr w hl)
  | @hasAttr e attr hnr hfe ihe =>
    intro m0 preq n hC
    cases n with
    | zero => simp [pinterp, Sound]
    | succ n =>
      have se := ihe m0 preq n hC
      simp only [pinterp]
      cases hxe : pinterp m0 preq (.ofConcrete es) env n e with
      | fuel => red; exact sound_fuel
      | panic => red; exact sound_panic
      | err c => red; rw [hxe] at se; obtain ⟨c', hc'⟩ := se; exact sound_err c' (by simp [evaluate, hc'])
      | res r =>
        red
        rw [hxe] at se
        split
        · exact (se.1 hnr).elim
        · exact sound_res (fun _ => trivial) (typedOK_vacuous (by intro _ _ h; cases h)) (sem_hasAttr σ _ env req es attr se.2.2)
      | val v =>
        red
        rw [hxe] at se; obtain ⟨hev, hd⟩ := se
        cases v with
        | set vs => red; exact sound_err .type (by simp [evaluate, hev])
        | ext x => red; exact sound_err .type (by simp [evaluate, hev])
        | record kvs => red; exact sound_val (by simp [evaluate, hev]) (trivial)
        | prim p =>
          cases p with
          | bool b => red; exact sound_err .type (by simp [evaluate, hev])
          | int i => red; exact sound_err .type (by simp [evaluate, hev])
          | string s => red; exact sound_err .type (by simp [evaluate, hev])
          | entityUID u =>
            red
            simp only [entity_ofConcrete]
            cases hfu : es.find? u with
            | none => red; exact sound_val (by simp [evaluate, hev, hfu]) (trivial)
            | some d => red; exact sound_val (by simp [evaluate, hev, hfu, attrs_ofConcrete]) (trivial)
  | @like e p hfe ihe =>
    intro m0 preq n hC
    cases n with
    | zero => simp [pinterp, Sound]
    | succ n =>
      have se := ihe m0 preq n hC
      simp only [pinterp]
      cases hxe : pinterp m0 preq (.ofConcrete es) env n e with
      | fuel => red; exact sound_fuel
      | panic => red; exact sound_panic
      | err c => red; rw [hxe] at se; obtain ⟨c', hc'⟩ := se; exact sound_err c' (by simp [evaluate, hc'])
      | res r =>
        red
        rw [hxe] at se
        exact sound_res (fun _ => trivial) (typedOK_vacuous (by intro _ _ h; cases h)) (sem_like σ _ _ env req es p se.2.2)
      | val v =>
        red
        rw [hxe] at se; obtain ⟨hev, _⟩ := se
        cases hs : v.asString with
        | error c => red; exact sound_err c (by simp [evaluate, hev, hs])
        | ok s => red; exact sound_val (by simp [evaluate, hev, hs]) (trivial)
  | @is e ty hfe ihe =>
    intro m0 preq n hC
    cases n with
    | zero => simp [pinterp, Sound]
    | succ n =>
      have se := ihe m0 preq n hC
      simp only [pinterp]
      cases hxe : pinterp m0 preq (.ofConcrete es) env n e with
      | fuel => red; exact sound_fuel
      | panic => red; exact sound_panic
      | err c => red; rw [hxe] at se; obtain ⟨c', hc'⟩ := se; exact sound_err c' (by simp [evaluate, hc'])
      | res r =>
        red
        rw [hxe] at se
        split
        · rename_i name t
          obtain ⟨u, hu, hty⟩ := se.2.1 name t rfl
          exact sound_val (by simp [evaluate, hu, Value.asEntity, hty]) trivial
        · exact sound_res (fun _ => trivial) (typedOK_vacuous (by intro _ _ h; cases h)) (sem_is σ _ _ env req es ty se.2.2)
      | val v =>
        red
        rw [hxe] at se; obtain ⟨hev, _⟩ := se
        cases hs : v.asEntity with
        | error c => red; exact sound_err c (by simp [evaluate, hev, hs])
        | ok u => red; exact sound_val (by simp [evaluate, hev, hs]) (trivial)
  | @set xs hxs ih =>
    intro m0 preq n hC
    cases n with
    | zero => simp [pinterp, Sound]
    | succ n =>
      have hc := collect_sound σ req es env (pinterp m0 preq (.ofConcrete es) env n) xs (fun x hx => ih x hx m0 preq n hC)
      simp only [pinterp]
      cases hcc : collectPV (pinterp m0 preq (.ofConcrete es) env n) xs with
      | error r =>
        rw [hcc] at hc; red
        rcases hc with h | h | ⟨c, h, c', h2⟩
        · subst h; exact sound_fuel
        · subst h; exact sound_panic
        · subst h; exact sound_err c' (by simp [evaluate, h2])
      | ok pvs =>
        rw [hcc] at hc; red
        cases hs : splitPV pvs with
        | inl vs =>
          red
          have hp := splitPV_inl hs; subst hp
          obtain ⟨he, hd⟩ := pvrel_values σ req es env hc
          refine sound_val (by simp [evaluate, he]) ?_
          simp only [Value.DRT]
          exact RT_set (fun w hw => (hd w (mem_mkSet hw)).rt) (mkSet_idem vs)
        | inr rs =>
          red
          have hp := splitPV_inr hs; subst hp
          refine sound_res (fun _ => trivial) (typedOK_vacuous (by intro _ _ h; cases h)) ?_
          exact sem_set σ _ env req es (pvrel_asExpr σ req es env hc)
  | @call fn args hfn hdrt hxs ih =>
    intro m0 preq n hC
    cases n with
    | zero => simp [pinterp, Sound]
    | succ n =>
      have hc := collect_sound σ req es env (pinterp m0 preq (.ofConcrete es) env n) args (fun x hx => ih x hx m0 preq n hC)
      simp only [pinterp]
      cases hcc : collectPV (pinterp m0 preq (.ofConcrete es) env n) args with
      | error r =>
        rw [hcc] at hc; red
        rcases hc with h | h | ⟨c, h, c', h2⟩
        · subst h; exact sound_fuel
        · subst h; exact sound_panic
        · subst h; exact sound_err c' (by simp [evaluate, h2])
      | ok pvs =>
        rw [hcc] at hc; red
        cases hs : splitPV pvs with
        | inl vs =>
          red
          have hp := splitPV_inl hs; subst hp
          obtain ⟨he, hd⟩ := pvrel_values σ req es env hc
          have : evaluate req es env (.call fn args) = callExt fn vs := by simp [evaluate, he]
          rw [this, pcallExt_ne_unknown hfn]
          exact sound_ofResult (fun w hw => hdrt vs w hw)
        | inr rs =>
          red
          have hp := splitPV_inr hs; subst hp
          refine sound_res (fun _ => trivial) (typedOK_vacuous (by intro _ _ h; cases h)) ?_
          exact sem_call σ _ env req es hfn (pvrel_asExpr σ req es env hc)
  | @record kvs hkvs ih =>
    intro m0 preq n hC
    cases n with
    | zero => simp [pinterp, Sound]
    | succ n =>
      have hc := collectKVs_sound σ req es env (pinterp m0 preq (.ofConcrete es) env n) kvs (fun kv hkv => ih kv hkv m0 preq n hC)
      simp only [pinterp]
      cases hcc : collectPVKVs (pinterp m0 preq (.ofConcrete es) env n) kvs with
      | error r =>
        rw [hcc] at hc; red
        rcases hc with h | h | ⟨c, h, c', h2⟩
        · subst h; exact sound_fuel
        · subst h; exact sound_panic
        · subst h; exact sound_err c' (by simp [evaluate, h2])
      | ok pkvs =>
        rw [hcc] at hc; red
        cases hs : splitPV (pkvs.map (·.2)) with
        | inl vs =>
          red
          obtain ⟨he, hd⟩ := pvrelKV_values σ req es env hc (splitPV_inl hs)
          refine sound_val (by simp [evaluate, he]) ?_
          apply record_DRT
          intro p hp
          exact hd p.2 (List.of_mem_zip hp).2
        | inr rs =>
          red
          have hp := splitPV_inr hs; subst hp
          refine sound_res (fun h => h.elim) (typedOK_vacuous (by intro _ _ h; cases h)) ?_
          exact sem_record σ _ env req es (pvrelKV_asExpr σ req es env hc)

end

end Cedar
