import CedarVerif.Lemmas.ManifestEnd
import CedarVerif.Lemmas.ManifestConf
import CedarVerif.Lemmas.TypecheckSound2
/-
C17 helper lemmas, part 11: THE LINK TO C03.  The typed AST of an expression (`typedAst`: the expression annotated with the
types `typeOf` computes, transformed where the typechecker short-circuits — typecheck.rs builds exactly this tree) is, over
every request and store that conform to the schema, a typed AST of the expression in the sense of `Sim`
(Lemmas/ManifestEval.lean): the semantic premises of `Sim` — the decisive operand of a short-circuited `&& || if` never
evaluates to the other boolean, operands of binary operators are not records — follow from the soundness of the strict
typechecker model (`soundM`, the induction behind Thm/C03.lean's `typeOf_sound_strict`).
-/
namespace Cedar.Manifest
open Cedar Cedar.C03

/-! ## the typed AST -/

/-- the type annotation of a node: what the strict typechecker answers for it (`None` where it fails) -/
def tyOf (s : Schema) (env : RequestEnv) (e : Expr) (caps : Capabilities) : Option CedarType :=
  match typeOf .strict s env e caps with
  | .ok (τ, _) => some τ
  | .error _ => none

-- The typed AST `SingleEnvTypechecker::typecheck` builds in strict mode, as far as the manifest analysis reads it: every
-- unary / binary node carries the operand types; the capabilities are threaded as `typeOf` threads them; where the
-- typechecker short-circuits the tree is transformed as typecheck.rs transforms it:
--   `a && b`, `a : False`  ↦  typed `a`                      (`TypecheckAnswer::success(typ_left)`)
--   `a || b`, `a : True`   ↦  typed `a`
--   `if c then t else e`, `c : True`  ↦ `if c then t else t`  ("we use a copy of the `then` branch"); `c : False` ↦ `if c then e else e`.
mutual
def typedAst (s : Schema) (env : RequestEnv) : Expr → Capabilities → TExpr
  | .lit p, _ => .lit p
  | .var x, _ => .var x
  | .slot x, _ => .slot x
  | .unknown n _, _ => .unknown n
  | .ite c t e, caps =>
    match typeOf .strict s env c caps with
    | .ok (τc, cc) =>
      if τc.isTrue then .ite (typedAst s env c caps) (typedAst s env t (caps.union cc)) (typedAst s env t (caps.union cc))
      else if τc.isFalse then .ite (typedAst s env c caps) (typedAst s env e caps) (typedAst s env e caps)
      else .ite (typedAst s env c caps) (typedAst s env t (caps.union cc)) (typedAst s env e caps)
    | .error _ => .ite (typedAst s env c caps) (typedAst s env t caps) (typedAst s env e caps)
  | .and a b, caps =>
    match typeOf .strict s env a caps with
    | .ok (τa, ca) =>
      if τa.isFalse then typedAst s env a caps else .and (typedAst s env a caps) (typedAst s env b (caps.union ca))
    | .error _ => .and (typedAst s env a caps) (typedAst s env b caps)
  | .or a b, caps =>
    match typeOf .strict s env a caps with
    | .ok (τa, _) =>
      if τa.isTrue then typedAst s env a caps else .or (typedAst s env a caps) (typedAst s env b caps)
    | .error _ => .or (typedAst s env a caps) (typedAst s env b caps)
  | .unaryApp op a, caps => .unaryApp op (tyOf s env a caps) (typedAst s env a caps)
  | .binaryApp op a b, caps => .binaryApp op (tyOf s env a caps) (tyOf s env b caps) (typedAst s env a caps) (typedAst s env b caps)
  | .call fn args, caps => .call fn (typedAstList s env args caps)
  | .getAttr e a, caps => .getAttr (typedAst s env e caps) a
  | .hasAttr e a, caps => .hasAttr (typedAst s env e caps) a
  | .like e p, caps => .like (typedAst s env e caps) p
  | .is e ty, caps => .is (typedAst s env e caps) ty
  | .set es, caps => .set (typedAstList s env es caps)
  | .record kvs, caps => .record (typedAstKVs s env kvs caps)
def typedAstList (s : Schema) (env : RequestEnv) : List Expr → Capabilities → List TExpr
  | [], _ => []
  | x :: xs, caps => typedAst s env x caps :: typedAstList s env xs caps
def typedAstKVs (s : Schema) (env : RequestEnv) : List (String × Expr) → Capabilities → List (String × TExpr)
  | [], _ => []
  | (k, x) :: xs, caps => (k, typedAst s env x caps) :: typedAstKVs s env xs caps
end

-- the core fragment (`InFrag` on the typed AST) plus extension function calls, on untyped expressions
mutual
def FragE : Expr → Prop
  | .lit _ => True
  | .var _ => True
  | .ite c t e => FragE c ∧ FragE t ∧ FragE e
  | .and a b => FragE a ∧ FragE b
  | .or a b => FragE a ∧ FragE b
  | .unaryApp _ a => FragE a
  | .binaryApp op a b => FragOp op ∧ FragE a ∧ FragE b
  | .getAttr e _ => FragE e
  | .hasAttr e _ => FragE e
  | .like e _ => FragE e
  | .is e _ => FragE e
  | .call _ args => FragEList args
  | _ => False
def FragEList : List Expr → Prop
  | [] => True
  | x :: xs => FragE x ∧ FragEList xs
end

def RecFree : Option CedarType → Prop
  | some τ => τ.isRecord = false
  | none => True

-- the (syntactic) side condition of the proved fragment: `==` does not compare records, `contains` does not look for a
-- record — stated on the type annotations of the typed AST.  (For every other binary operator the typechecker itself forces
-- non-record operand types: `binary_inv`.)
mutual
def NoRecOps : TExpr → Prop
  | .ite c t e => NoRecOps c ∧ NoRecOps t ∧ NoRecOps e
  | .and a b => NoRecOps a ∧ NoRecOps b
  | .or a b => NoRecOps a ∧ NoRecOps b
  | .unaryApp _ _ a => NoRecOps a
  | .binaryApp op ty1 ty2 a b =>
    (op = .eq → RecFree ty1 ∧ RecFree ty2) ∧ (op = .contains → RecFree ty2) ∧ NoRecOps a ∧ NoRecOps b
  | .getAttr e _ => NoRecOps e
  | .hasAttr e _ => NoRecOps e
  | .like e _ => NoRecOps e
  | .is e _ => NoRecOps e
  | .call _ args => NoRecOpsList args
  | _ => True
def NoRecOpsList : List TExpr → Prop
  | [] => True
  | x :: xs => NoRecOps x ∧ NoRecOpsList xs
end

def recFreeB : Option CedarType → Bool
  | some τ => !τ.isRecord
  | none => true

-- executable form of `NoRecOps`
mutual
def noRecOpsB : TExpr → Bool
  | .ite c t e => noRecOpsB c && noRecOpsB t && noRecOpsB e
  | .and a b => noRecOpsB a && noRecOpsB b
  | .or a b => noRecOpsB a && noRecOpsB b
  | .unaryApp _ _ a => noRecOpsB a
  | .binaryApp op ty1 ty2 a b =>
    (op != .eq || (recFreeB ty1 && recFreeB ty2)) && (op != .contains || recFreeB ty2) && noRecOpsB a && noRecOpsB b
  | .getAttr e _ => noRecOpsB e
  | .hasAttr e _ => noRecOpsB e
  | .like e _ => noRecOpsB e
  | .is e _ => noRecOpsB e
  | .call _ args => noRecOpsListB args
  | _ => true
def noRecOpsListB : List TExpr → Bool
  | [] => true
  | x :: xs => noRecOpsB x && noRecOpsListB xs
end

theorem recFreeB_sound {o : Option CedarType} (h : recFreeB o = true) : RecFree o := by
  cases o with
  | none => trivial
  | some τ => simpa [recFreeB, RecFree] using h

mutual
theorem noRecOpsB_sound : ∀ (e : TExpr), noRecOpsB e = true → NoRecOps e
  | .ite c t e, h => by
    simp only [noRecOpsB, Bool.and_eq_true] at h
    exact ⟨noRecOpsB_sound c h.1.1, noRecOpsB_sound t h.1.2, noRecOpsB_sound e h.2⟩
  | .and a b, h => by
    simp only [noRecOpsB, Bool.and_eq_true] at h
    exact ⟨noRecOpsB_sound a h.1, noRecOpsB_sound b h.2⟩
  | .or a b, h => by
    simp only [noRecOpsB, Bool.and_eq_true] at h
    exact ⟨noRecOpsB_sound a h.1, noRecOpsB_sound b h.2⟩
  | .unaryApp _ _ a, h => by
    simp only [noRecOpsB] at h
    exact noRecOpsB_sound a h
  | .binaryApp op ty1 ty2 a b, h => by
    simp only [noRecOpsB, Bool.and_eq_true, Bool.or_eq_true, bne_iff_ne, ne_eq] at h
    obtain ⟨⟨⟨h1, h2⟩, h3⟩, h4⟩ := h
    refine ⟨fun he => ?_, fun he => ?_, noRecOpsB_sound a h3, noRecOpsB_sound b h4⟩
    · rcases h1 with h1 | h1
      · exact absurd he h1
      · exact ⟨recFreeB_sound h1.1, recFreeB_sound h1.2⟩
    · rcases h2 with h2 | h2
      · exact absurd he h2
      · exact recFreeB_sound h2
  | .getAttr e _, h => by simp only [noRecOpsB] at h; exact noRecOpsB_sound e h
  | .hasAttr e _, h => by simp only [noRecOpsB] at h; exact noRecOpsB_sound e h
  | .like e _, h => by simp only [noRecOpsB] at h; exact noRecOpsB_sound e h
  | .is e _, h => by simp only [noRecOpsB] at h; exact noRecOpsB_sound e h
  | .lit _, _ => trivial
  | .var _, _ => trivial
  | .slot _, _ => trivial
  | .unknown _, _ => trivial
  | .call _ args, h => by simp only [noRecOpsB] at h; simp only [NoRecOps]; exact noRecOpsListB_sound args h
  | .set _, _ => trivial
  | .record _, _ => trivial
theorem noRecOpsListB_sound : ∀ (es : List TExpr), noRecOpsListB es = true → NoRecOpsList es
  | [], _ => trivial
  | x :: xs, h => by
    simp only [noRecOpsListB, Bool.and_eq_true] at h
    exact ⟨noRecOpsB_sound x h.1, noRecOpsListB_sound xs h.2⟩
end

/-! ## inversion of the typing rules, as far as needed -/

mutual
theorem fragE_inFragment2 (env : RequestEnv) : ∀ (e : Expr), FragE e → InFragment2 env e = true
  | .lit _, _ => rfl
  | .var _, _ => rfl
  | .ite c t e, h => by
    simp only [FragE] at h
    simp only [InFragment2, InFragmentM, Bool.and_eq_true, ValidationMode.isStrict, Bool.true_or, and_true]
    exact ⟨⟨fragE_inFragment2 env c h.1, fragE_inFragment2 env t h.2.1⟩, fragE_inFragment2 env e h.2.2⟩
  | .and a b, h => by
    simp only [FragE] at h
    simp only [InFragment2, InFragmentM, Bool.and_eq_true]
    exact ⟨fragE_inFragment2 env a h.1, fragE_inFragment2 env b h.2⟩
  | .or a b, h => by
    simp only [FragE] at h
    simp only [InFragment2, InFragmentM, Bool.and_eq_true]
    exact ⟨fragE_inFragment2 env a h.1, fragE_inFragment2 env b h.2⟩
  | .unaryApp _ a, h => by
    simp only [FragE] at h
    simp only [InFragment2, InFragmentM]
    exact fragE_inFragment2 env a h
  | .binaryApp op a b, h => by
    simp only [FragE] at h
    simp only [InFragment2, InFragmentM, Bool.and_eq_true, binOpOK_all, true_and]
    exact ⟨fragE_inFragment2 env a h.2.1, fragE_inFragment2 env b h.2.2⟩
  | .getAttr a _, h => by
    simp only [FragE] at h
    simp only [InFragment2, InFragmentM]
    exact fragE_inFragment2 env a h
  | .hasAttr a _, h => by
    simp only [FragE] at h
    simp only [InFragment2, InFragmentM]
    exact fragE_inFragment2 env a h
  | .like a _, h => by
    simp only [FragE] at h
    simp only [InFragment2, InFragmentM]
    exact fragE_inFragment2 env a h
  | .is a _, h => by
    simp only [FragE] at h
    simp only [InFragment2, InFragmentM]
    exact fragE_inFragment2 env a h
  | .slot _, h => by simp [FragE] at h
  | .unknown _ _, h => by simp [FragE] at h
  | .call _ args, h => by
    simp only [FragE] at h
    simp only [InFragment2, InFragmentM]
    exact fragEList_inFragment2 env args h
  | .set _, h => by simp [FragE] at h
  | .record _, h => by simp [FragE] at h
theorem fragEList_inFragment2 (env : RequestEnv) : ∀ (es : List Expr), FragEList es → InFragment2List env es = true
  | [], _ => rfl
  | e :: es, h => by
    simp only [FragEList] at h
    simp only [InFragment2List, InFragmentMList, Bool.and_eq_true]
    exact ⟨fragE_inFragment2 env e h.1, fragEList_inFragment2 env es h.2⟩
end

theorem isSubtype_rec_left {m : ValidationMode} {a : Attrs} {o : Bool} {t : CedarType}
    (h : isSubtype m (.record a o) t = true) : t.isRecord = true := by
  cases t <;> simp [isSubtype, CedarType.isRecord] at h ⊢

theorem sub_nonrec {τ : CedarType} {exp : List CedarType}
    (h : exp.any (fun t => isSubtype .permissive τ t) = true) (hexp : ∀ t, t ∈ exp → t.isRecord = false) :
    τ.isRecord = false := by
  rw [List.any_eq_true] at h
  obtain ⟨t, ht, hs⟩ := h
  cases τ with
  | record a o => have := isSubtype_rec_left hs; rw [hexp t ht] at this; cases this
  | _ => rfl

theorem comparable_nonrec {t : CedarType} (h : isComparable t = true) : t.isRecord = false := by
  cases t <;> simp [isComparable, CedarType.isRecord] at h ⊢

theorem cmpType_nonrec {τa τb : CedarType} {x : CedarType × Capabilities} (h : cmpType τa τb = .ok x) :
    τa.isRecord = false ∧ τb.isRecord = false := by
  unfold cmpType at h
  split at h
  · cases h
  · split at h
    · rename_i hc; exact ⟨rfl, comparable_nonrec hc⟩
    · cases h
  · split at h
    · rename_i hc; exact ⟨comparable_nonrec hc, rfl⟩
    · cases h
  · split at h
    · rename_i hc
      simp only [Bool.and_eq_true] at hc
      refine ⟨comparable_nonrec hc.2, ?_⟩
      have h0 := hc.1
      have h1 := hc.2
      cases τb with
      | record a o => cases τa <;> simp [CedarType.beq, isComparable] at h0 h1
      | _ => rfl
    · cases h

section inv
variable {s : Schema} {env : RequestEnv}

theorem expect_inv {e : Expr} {caps : Capabilities} {exp : List CedarType} {τ : CedarType} {c : Capabilities}
    (h : expectOneOf (typeOf .strict s env e caps) exp = .ok (τ, c)) (hexp : ∀ t, t ∈ exp → t.isRecord = false) :
    typeOf .strict s env e caps = .ok (τ, c) ∧ τ.isRecord = false := by
  obtain ⟨h1, h2⟩ := expectOneOf_ok h
  exact ⟨h1, sub_nonrec h2 hexp⟩

/-- both operands of a binary operator of the fragment are typed, with the same capabilities; except for `==` (both
operands) and `contains` (the element) the typing rules force non-record operand types -/
theorem binary_inv {op : BinaryOp} {a b : Expr} {caps : Capabilities} {τ : CedarType} {c' : Capabilities} (hop : FragOp op)
    (h : typeOf .strict s env (.binaryApp op a b) caps = .ok (τ, c')) :
    ∃ τa ca τb cb, typeOf .strict s env a caps = .ok (τa, ca) ∧ typeOf .strict s env b caps = .ok (τb, cb) ∧
      (op ≠ .eq → τa.isRecord = false) ∧ (op ≠ .eq → op ≠ .contains → τb.isRecord = false) := by
  have hlong : ∀ t, t ∈ [CedarType.long] → t.isRecord = false := by
    intro t ht; simp only [List.mem_singleton] at ht; subst ht; rfl
  have hset : ∀ t, t ∈ [CedarType.set none] → t.isRecord = false := by
    intro t ht; simp only [List.mem_singleton] at ht; subst ht; rfl
  have hent : ∀ t, t ∈ [CedarType.anyEntity] → t.isRecord = false := by
    intro t ht; simp only [List.mem_singleton] at ht; subst ht; rfl
  have hents : ∀ t, t ∈ [CedarType.set (some .anyEntity), CedarType.anyEntity] → t.isRecord = false := by
    intro t ht
    simp only [List.mem_cons, List.not_mem_nil, or_false] at ht
    rcases ht with rfl | rfl <;> rfl
  rcases hop with e | e | e | e | e | e | e | e | e | e <;> subst e <;> simp only [typeOf] at h <;>
    obtain ⟨τa, ca, τb, cb, h1, h2, h3⟩ := both_ok h
  · obtain ⟨n1, n2⟩ := cmpType_nonrec h3
    exact ⟨τa, ca, τb, cb, h1, h2, fun _ => n1, fun _ _ => n2⟩
  · obtain ⟨n1, n2⟩ := cmpType_nonrec h3
    exact ⟨τa, ca, τb, cb, h1, h2, fun _ => n1, fun _ _ => n2⟩
  · obtain ⟨t1, n1⟩ := expect_inv h1 hlong
    obtain ⟨t2, n2⟩ := expect_inv h2 hlong
    exact ⟨τa, ca, τb, cb, t1, t2, fun _ => n1, fun _ _ => n2⟩
  · obtain ⟨t1, n1⟩ := expect_inv h1 hlong
    obtain ⟨t2, n2⟩ := expect_inv h2 hlong
    exact ⟨τa, ca, τb, cb, t1, t2, fun _ => n1, fun _ _ => n2⟩
  · obtain ⟨t1, n1⟩ := expect_inv h1 hlong
    obtain ⟨t2, n2⟩ := expect_inv h2 hlong
    exact ⟨τa, ca, τb, cb, t1, t2, fun _ => n1, fun _ _ => n2⟩
  · exact ⟨τa, ca, τb, cb, h1, h2, fun hne => absurd rfl hne, fun hne _ => absurd rfl hne⟩
  · obtain ⟨t1, n1⟩ := expect_inv h1 hset
    exact ⟨τa, ca, τb, cb, t1, h2, fun _ => n1, fun _ hne => absurd rfl hne⟩
  · obtain ⟨t1, n1⟩ := expect_inv h1 hset
    obtain ⟨t2, n2⟩ := expect_inv h2 hset
    exact ⟨τa, ca, τb, cb, t1, t2, fun _ => n1, fun _ _ => n2⟩
  · obtain ⟨t1, n1⟩ := expect_inv h1 hset
    obtain ⟨t2, n2⟩ := expect_inv h2 hset
    exact ⟨τa, ca, τb, cb, t1, t2, fun _ => n1, fun _ _ => n2⟩
  · obtain ⟨t1, n1⟩ := expect_inv h1 hent
    obtain ⟨t2, n2⟩ := expect_inv h2 hents
    exact ⟨τa, ca, τb, cb, t1, t2, fun _ => n1, fun _ _ => n2⟩

/-- the operand of a typed unary operator / `.` / `has` / `like` / `is` is typed, with the same capabilities -/
theorem operand_inv {e : Expr} {caps : Capabilities} {τ : CedarType} {c' : Capabilities} (x : Expr)
    (hx : (∃ op, x = .unaryApp op e) ∨ (∃ a, x = .getAttr e a) ∨ (∃ a, x = .hasAttr e a) ∨ (∃ p, x = .like e p) ∨
      (∃ ty, x = .is e ty))
    (h : typeOf .strict s env x caps = .ok (τ, c')) :
    ∃ τe ce, typeOf .strict s env e caps = .ok (τe, ce) := by
  cases hT : typeOf .strict s env e caps with
  | ok p => exact ⟨p.1, p.2, rfl⟩
  | error err =>
    rcases hx with ⟨op, rfl⟩ | ⟨a, rfl⟩ | ⟨a, rfl⟩ | ⟨p, rfl⟩ | ⟨ty, rfl⟩
    · cases op <;> simp [typeOf, hT, expectOneOf] at h
    · simp [typeOf, hT, expectOneOf] at h
    · simp [typeOf, hT, expectOneOf] at h
    · simp [typeOf, hT, expectOneOf] at h
    · simp [typeOf, hT, expectOneOf] at h

/-- the typing rule of extension function calls, inverted -/
theorem call_inv {fn : String} {args : List Expr} {caps : Capabilities} {τ : CedarType} {c' : Capabilities}
    (h : typeOf .strict s env (.call fn args) caps = .ok (τ, c')) :
    ∃ sig τs, extSig fn = some sig ∧ typeOfList .strict s env args caps = .ok τs ∧ args.length = sig.args.length ∧
      (τs.zip sig.args).all (fun p => isSubtype .permissive p.1 p.2) = true ∧ τ = sig.ret := by
  simp only [typeOf] at h
  cases hsig : extSig fn with
  | none =>
    rw [hsig] at h; simp only at h
    split at h <;> cases h
  | some sig =>
    rw [hsig] at h; simp only at h
    cases hL : typeOfList .strict s env args caps with
    | error err => rw [hL] at h; cases h
    | ok τs =>
      rw [hL] at h; simp only at h
      split at h
      · cases h
      · rename_i hnf
        split at h
        · rename_i hall
          simp only [ok, Except.ok.injEq, Prod.mk.injEq] at h
          simp only [Bool.or_eq_true, not_or, bne_iff_ne, ne_eq, Decidable.not_not] at hnf
          exact ⟨sig, τs, rfl, rfl, hnf.1.1, hall, h.1.symm⟩
        · cases h

end inv

/-- extension functions: flat result type (extension type, `Bool`, `Long`), non-record argument types, one or two arguments -/
theorem extSig_facts {fn : String} {sig : ExtSig} (h : extSig fn = some sig) :
    sig.ret.flat = true ∧ (∀ t, t ∈ sig.args → t.isRecord = false) ∧ (sig.args.length = 1 ∨ sig.args.length = 2) := by
  unfold extSig at h
  simp only at h
  split at h <;> first | (cases h; exact ⟨rfl, by decide, by decide⟩) | cases h

theorem inst_flat_scalar {v : Value} {τ : CedarType} (hi : InstanceOfType v τ) (hf : τ.flat = true) : Scalar v := by
  cases hi <;> simp [CedarType.flat, Scalar] at hf ⊢

theorem sub_nonrec1 {τ t : CedarType} (h : isSubtype .permissive τ t = true) (ht : t.isRecord = false) :
    τ.isRecord = false := by
  cases τ with
  | record a o => have := isSubtype_rec_left h; rw [ht] at this; cases this
  | _ => rfl

/-! ## type soundness gives the semantic premises of `Sim` -/

theorem nonrec_of_sound {w : World} {e : Expr} {τ : CedarType} {c : Capabilities} (h : TySound w e τ c)
    (hτ : τ.isRecord = false) : NonRec (evaluate w.q w.es w.sl e) := by
  intro kvs hk
  rcases h with ⟨err, he, _⟩ | ⟨v, hv, hi, _⟩
  · have he' : evaluate w.q w.es w.sl e = .error err := he
    rw [hk] at he'; cases he'
  · have hv' : evaluate w.q w.es w.sl e = .ok v := hv
    rw [hk] at hv'
    cases hv'
    cases hi
    simp [CedarType.isRecord] at hτ

theorem sound_tt_val {w : World} {e : Expr} {c : Capabilities} (h : TySound w e (.bool .tt) c) :
    (∀ v, evaluate w.q w.es w.sl e = .ok v → v = .prim (.bool true)) ∧
    (evaluate w.q w.es w.sl e = .ok (.prim (.bool true)) → CapsHold w c) := by
  rcases h with ⟨err, he, _⟩ | ⟨v, hv, hi, hc⟩
  · have he' : evaluate w.q w.es w.sl e = .error err := he
    exact ⟨fun v hv => (by rw [hv] at he'; cases he'), fun hv => (by rw [hv] at he'; cases he')⟩
  · have hv' : evaluate w.q w.es w.sl e = .ok v := hv
    cases hi
    exact ⟨fun v' h' => (by rw [hv'] at h'; cases h'; rfl), fun _ => hc rfl⟩

theorem sound_ff_val {w : World} {e : Expr} {c : Capabilities} (h : TySound w e (.bool .ff) c) :
    ∀ v, evaluate w.q w.es w.sl e = .ok v → v = .prim (.bool false) := by
  rcases h with ⟨err, he, _⟩ | ⟨v, hv, hi, hc⟩
  · have he' : evaluate w.q w.es w.sl e = .error err := he
    exact fun v hv => by rw [hv] at he'; cases he'
  · have hv' : evaluate w.q w.es w.sl e = .ok v := hv
    cases hi
    exact fun v' h' => by rw [hv'] at h'; cases h'; rfl

theorem sound_true_caps {w : World} {e : Expr} {τ : CedarType} {c : Capabilities} (h : TySound w e τ c)
    (hv : evaluate w.q w.es w.sl e = .ok (.prim (.bool true))) : CapsHold w c := by
  rcases h with ⟨err, he, _⟩ | ⟨v, hv', _, hc⟩
  · have he' : evaluate w.q w.es w.sl e = .error err := he
    rw [hv] at he'; cases he'
  · have hv'' : evaluate w.q w.es w.sl e = .ok v := hv'
    rw [hv] at hv''
    cases hv''
    exact hc rfl

section sim
variable {s : Schema} {env : RequestEnv} {req : Request} {es : Entities}
variable (hWF : SchemaWF2 s) (henv : EnvMatches s env req) (hsem : Sem s env ⟨req, es, []⟩)
include hWF henv hsem

theorem sound_of (e : Expr) (hf : FragE e) (caps : Capabilities) (τ : CedarType) (c' : Capabilities)
    (h : typeOf .strict s env e caps = .ok (τ, c')) (hc : CapsHold ⟨req, es, []⟩ caps) :
    TySound ⟨req, es, []⟩ e τ c' :=
  ((soundM (w := ⟨req, es, []⟩) hWF henv e (fragE_inFragment2 env e hf) caps τ c' h).2 hsem hc).1

/-- C03 ⇒ `Sim`: over a conformant request and store, the typed AST of a well-typed expression of the fragment is a typed
AST of it in the sense of `Sim` -/
theorem sim_typed : ∀ (e : Expr), FragE e → ∀ (caps : Capabilities) (τ : CedarType) (c' : Capabilities),
    typeOf .strict s env e caps = .ok (τ, c') → CapsHold ⟨req, es, []⟩ caps → NoRecOps (typedAst s env e caps) →
    Sim req es e (typedAst s env e caps)
  | .lit p, _, _, _, _, _, _, _ => by simp only [typedAst]; exact .lit p
  | .var x, _, _, _, _, _, _, _ => by simp only [typedAst]; exact .var x
  | .and a b, hf, caps, τ, c', h, hc, hn => by
    simp only [FragE] at hf
    simp only [typeOf] at h
    cases hA : expectOneOf (typeOf .strict s env a caps) [boolT] with
    | error err => rw [hA] at h; cases h
    | ok pa =>
      obtain ⟨τa, ca⟩ := pa
      rw [hA] at h; simp only at h
      obtain ⟨hta, _⟩ := expectOneOf_ok hA
      have sa := sound_of hWF henv hsem a hf.1 caps τa ca hta hc
      simp only [typedAst, hta] at hn ⊢
      by_cases hfalse : τa.isFalse = true
      · simp only [hfalse, if_true] at hn ⊢
        have := isFalse_eq hfalse; subst this
        exact .andFalse (sim_typed a hf.1 caps _ ca hta hc hn) (sound_ff_val sa)
      · simp only [hfalse, Bool.false_eq_true, if_false] at hn h ⊢
        simp only [NoRecOps] at hn
        cases hB : expectOneOf (typeOf .strict s env b (caps.union ca)) [boolT] with
        | error err => rw [hB] at h; cases h
        | ok pb =>
          obtain ⟨τb, cb⟩ := pb
          obtain ⟨htb, _⟩ := expectOneOf_ok hB
          refine .and (sim_typed a hf.1 caps _ ca hta hc hn.1) (fun htrue => ?_)
          exact sim_typed b hf.2 (caps.union ca) τb cb htb (capsHold_union.mpr ⟨hc, sound_true_caps sa htrue⟩) hn.2
  | .or a b, hf, caps, τ, c', h, hc, hn => by
    simp only [FragE] at hf
    simp only [typeOf] at h
    cases hA : expectOneOf (typeOf .strict s env a caps) [boolT] with
    | error err => rw [hA] at h; cases h
    | ok pa =>
      obtain ⟨τa, ca⟩ := pa
      rw [hA] at h; simp only at h
      obtain ⟨hta, _⟩ := expectOneOf_ok hA
      have sa := sound_of hWF henv hsem a hf.1 caps τa ca hta hc
      simp only [typedAst, hta] at hn ⊢
      by_cases htrue : τa.isTrue = true
      · simp only [htrue, if_true] at hn ⊢
        have := isTrue_eq htrue; subst this
        exact .orTrue (sim_typed a hf.1 caps _ ca hta hc hn) (sound_tt_val sa).1
      · simp only [htrue, Bool.false_eq_true, if_false] at hn h ⊢
        simp only [NoRecOps] at hn
        cases hB : expectOneOf (typeOf .strict s env b caps) [boolT] with
        | error err => rw [hB] at h; cases h
        | ok pb =>
          obtain ⟨τb, cb⟩ := pb
          obtain ⟨htb, _⟩ := expectOneOf_ok hB
          exact .or (sim_typed a hf.1 caps _ ca hta hc hn.1) (fun _ => sim_typed b hf.2 caps τb cb htb hc hn.2)
  | .ite c t e, hf, caps, τ, c', h, hc, hn => by
    simp only [FragE] at hf
    simp only [typeOf] at h
    cases hC : expectOneOf (typeOf .strict s env c caps) [boolT] with
    | error err => rw [hC] at h; cases h
    | ok pc =>
      obtain ⟨τc, cc⟩ := pc
      rw [hC] at h; simp only at h
      obtain ⟨htc, _⟩ := expectOneOf_ok hC
      have sc := sound_of hWF henv hsem c hf.1 caps τc cc htc hc
      simp only [typedAst, htc] at hn ⊢
      by_cases htrue : τc.isTrue = true
      · simp only [htrue, if_true] at hn h ⊢
        have := isTrue_eq htrue; subst this
        simp only [NoRecOps] at hn
        cases hT : typeOf .strict s env t (caps.union cc) with
        | error err => rw [hT] at h; cases h
        | ok pt =>
          obtain ⟨τt, ct⟩ := pt
          refine .iteTrue (sim_typed c hf.1 caps _ cc htc hc hn.1) (sound_tt_val sc).1 (fun hv => ?_)
          exact sim_typed t hf.2.1 (caps.union cc) τt ct hT (capsHold_union.mpr ⟨hc, (sound_tt_val sc).2 hv⟩) hn.2.1
      · simp only [htrue, Bool.false_eq_true, if_false] at hn h ⊢
        by_cases hfalse : τc.isFalse = true
        · simp only [hfalse, if_true] at hn h ⊢
          have := isFalse_eq hfalse; subst this
          simp only [NoRecOps] at hn
          exact .iteFalse (sim_typed c hf.1 caps _ cc htc hc hn.1) (sound_ff_val sc)
            (fun _ => sim_typed e hf.2.2 caps τ c' h hc hn.2.1)
        · simp only [hfalse, Bool.false_eq_true, if_false] at hn h ⊢
          simp only [NoRecOps] at hn
          obtain ⟨τt, ct, τe, ce, hT, hE, _⟩ := both_ok h
          refine .ite (sim_typed c hf.1 caps _ cc htc hc hn.1) (fun hv => ?_) (fun _ => sim_typed e hf.2.2 caps τe ce hE hc hn.2.2)
          exact sim_typed t hf.2.1 (caps.union cc) τt ct hT (capsHold_union.mpr ⟨hc, sound_true_caps sc hv⟩) hn.2.1
  | .unaryApp op a, hf, caps, τ, c', h, hc, hn => by
    simp only [FragE] at hf
    obtain ⟨τa, ca, hta⟩ := operand_inv (.unaryApp op a) (Or.inl ⟨op, rfl⟩) h
    simp only [typedAst, NoRecOps] at hn ⊢
    exact .unary op _ (sim_typed a hf caps τa ca hta hc hn)
  | .binaryApp op a b, hf, caps, τ, c', h, hc, hn => by
    simp only [FragE] at hf
    obtain ⟨τa, ca, τb, cb, h1, h2, hra, hrb⟩ := binary_inv hf.1 h
    simp only [typedAst, tyOf, h1, h2, NoRecOps, RecFree] at hn ⊢
    have sa := sound_of hWF henv hsem a hf.2.1 caps τa ca h1 hc
    have sb := sound_of hWF henv hsem b hf.2.2 caps τb cb h2 hc
    have hna : τa.isRecord = false := by
      by_cases he : op = .eq
      · exact (hn.1 he).1
      · exact hra he
    have hnb : τb.isRecord = false := by
      by_cases he : op = .eq
      · exact (hn.1 he).2
      · by_cases hco : op = .contains
        · exact hn.2.1 hco
        · exact hrb he hco
    exact .binary op _ _ hf.1 (sim_typed a hf.2.1 caps τa ca h1 hc hn.2.2.1) (sim_typed b hf.2.2 caps τb cb h2 hc hn.2.2.2)
      (nonrec_of_sound sa hna) (nonrec_of_sound sb hnb)
  | .getAttr e a, hf, caps, τ, c', h, hc, hn => by
    simp only [FragE] at hf
    obtain ⟨τe, ce, hte⟩ := operand_inv (.getAttr e a) (Or.inr (Or.inl ⟨a, rfl⟩)) h
    simp only [typedAst, NoRecOps] at hn ⊢
    exact .getAttr a (sim_typed e hf caps τe ce hte hc hn)
  | .hasAttr e a, hf, caps, τ, c', h, hc, hn => by
    simp only [FragE] at hf
    obtain ⟨τe, ce, hte⟩ := operand_inv (.hasAttr e a) (Or.inr (Or.inr (Or.inl ⟨a, rfl⟩))) h
    simp only [typedAst, NoRecOps] at hn ⊢
    exact .hasAttr a (sim_typed e hf caps τe ce hte hc hn)
  | .like e p, hf, caps, τ, c', h, hc, hn => by
    simp only [FragE] at hf
    obtain ⟨τe, ce, hte⟩ := operand_inv (.like e p) (Or.inr (Or.inr (Or.inr (Or.inl ⟨p, rfl⟩)))) h
    simp only [typedAst, NoRecOps] at hn ⊢
    exact .like p (sim_typed e hf caps τe ce hte hc hn)
  | .is e ty, hf, caps, τ, c', h, hc, hn => by
    simp only [FragE] at hf
    obtain ⟨τe, ce, hte⟩ := operand_inv (.is e ty) (Or.inr (Or.inr (Or.inr (Or.inr ⟨ty, rfl⟩)))) h
    simp only [typedAst, NoRecOps] at hn ⊢
    exact .is ty (sim_typed e hf caps τe ce hte hc hn)
  | .call fn [], _, caps, τ, c', h, _, _ => by
    obtain ⟨sig, τs, hsig, _, hlen, _, _⟩ := call_inv h
    obtain ⟨_, _, harity⟩ := extSig_facts hsig
    simp only [List.length_nil] at hlen
    omega
  | .call fn (_ :: _ :: _ :: _), _, caps, τ, c', h, _, _ => by
    obtain ⟨sig, τs, hsig, _, hlen, _, _⟩ := call_inv h
    obtain ⟨_, _, harity⟩ := extSig_facts hsig
    simp only [List.length_cons] at hlen
    omega
  | .call fn [a], hf, caps, τ, c', h, hc, hn => by
    obtain ⟨sig, τs, hsig, hL, hlen, hall, hτ⟩ := call_inv h
    obtain ⟨hflat, hargs, _⟩ := extSig_facts hsig
    have snd := sound_of hWF henv hsem (.call fn [a]) hf caps τ c' h hc
    have hscal : ∀ w, evaluate req es [] (.call fn [a]) = .ok w → Scalar w := by
      intro w hw
      rcases snd with ⟨err, he, _⟩ | ⟨v, hv, hi, _⟩
      · have he' : evaluate req es [] (.call fn [a]) = .error err := he
        rw [hw] at he'; cases he'
      · have hv' : evaluate req es [] (.call fn [a]) = .ok v := hv
        rw [hw] at hv'; cases hv'
        subst hτ
        exact inst_flat_scalar hi hflat
    obtain ⟨τa, ca, τs', h1, _, rfl⟩ := typeOfList_cons hL
    simp only [FragE, FragEList, and_true] at hf
    simp only [typedAst, typedAstList, NoRecOps, NoRecOpsList, and_true] at hn ⊢
    have hna : τa.isRecord = false := by
      cases hsa : sig.args with
      | nil => rw [hsa] at hlen; simp at hlen
      | cons t ts =>
        rw [hsa] at hall
        simp only [List.zip_cons_cons, List.all_cons, Bool.and_eq_true] at hall
        exact sub_nonrec1 hall.1 (hargs t (by simp [hsa]))
    exact .call1 fn (sim_typed a hf caps τa ca h1 hc hn)
      (nonrec_of_sound (sound_of hWF henv hsem a hf caps τa ca h1 hc) hna) hscal
  | .call fn [a, b], hf, caps, τ, c', h, hc, hn => by
    obtain ⟨sig, τs, hsig, hL, hlen, hall, hτ⟩ := call_inv h
    obtain ⟨hflat, hargs, _⟩ := extSig_facts hsig
    have snd := sound_of hWF henv hsem (.call fn [a, b]) hf caps τ c' h hc
    have hscal : ∀ w, evaluate req es [] (.call fn [a, b]) = .ok w → Scalar w := by
      intro w hw
      rcases snd with ⟨err, he, _⟩ | ⟨v, hv, hi, _⟩
      · have he' : evaluate req es [] (.call fn [a, b]) = .error err := he
        rw [hw] at he'; cases he'
      · have hv' : evaluate req es [] (.call fn [a, b]) = .ok v := hv
        rw [hw] at hv'; cases hv'
        subst hτ
        exact inst_flat_scalar hi hflat
    obtain ⟨τa, ca, τs', h1, hL', rfl⟩ := typeOfList_cons hL
    obtain ⟨τb, cb, τs'', h2, _, rfl⟩ := typeOfList_cons hL'
    simp only [FragE, FragEList, and_true] at hf
    simp only [typedAst, typedAstList, NoRecOps, NoRecOpsList, and_true] at hn ⊢
    have hnab : τa.isRecord = false ∧ τb.isRecord = false := by
      cases hsa : sig.args with
      | nil => rw [hsa] at hlen; simp at hlen
      | cons t ts =>
        cases ts with
        | nil => rw [hsa] at hlen; simp at hlen
        | cons t2 ts2 =>
          rw [hsa] at hall
          simp only [List.zip_cons_cons, List.all_cons, Bool.and_eq_true] at hall
          exact ⟨sub_nonrec1 hall.1 (hargs t (by simp [hsa])), sub_nonrec1 hall.2.1 (hargs t2 (by simp [hsa]))⟩
    exact .call2 fn (sim_typed a hf.1 caps τa ca h1 hc hn.1) (sim_typed b hf.2 caps τb cb h2 hc hn.2)
      (nonrec_of_sound (sound_of hWF henv hsem a hf.1 caps τa ca h1 hc) hnab.1)
      (nonrec_of_sound (sound_of hWF henv hsem b hf.2 caps τb cb h2 hc) hnab.2) hscal
  | .slot _, hf, _, _, _, _, _, _ => by simp [FragE] at hf
  | .unknown _ _, hf, _, _, _, _, _, _ => by simp [FragE] at hf
  | .set _, hf, _, _, _, _, _, _ => by simp [FragE] at hf
  | .record _, hf, _, _, _, _, _, _ => by simp [FragE] at hf

end sim

/-! ## the annotations have unique attribute names -/

theorem lookupField_attrsToFields_none : ∀ (attrs : List (String × Bool × CedarType)) (k : String),
    k ∉ attrs.map (·.1) → lookupField (attrsToFields attrs) k = none
  | [], _, _ => by simp [attrsToFields, lookupField]
  | (k', r, t) :: rest, k, h => by
    simp only [List.map_cons, List.mem_cons, not_or] at h
    simp only [attrsToFields, lookupField]
    have : (k' == k) = false := by
      simp only [beq_eq_false_iff_ne, ne_eq]
      exact fun e => h.1 e.symm
    simp only [this, Bool.false_eq_true, if_false]
    exact lookupField_attrsToFields_none rest k h.2

mutual
theorem typeUK_of_cn : ∀ (τ : CedarType), cn τ = true → TypeUK τ
  | .record attrs o, h => by
    simp only [cn, Bool.and_eq_true, decide_eq_true_eq] at h
    simp only [TypeUK]
    exact attrsUK_of_cn attrs h.1.2 h.2
  | .set (some t), h => by
    simp only [cn] at h
    simp only [TypeUK]
    exact typeUK_of_cn t h
  | .set none, _ => by simp [TypeUK]
  | .never, _ => by simp [TypeUK]
  | .bool _, _ => by simp [TypeUK]
  | .long, _ => by simp [TypeUK]
  | .string, _ => by simp [TypeUK]
  | .entity _, _ => by simp [TypeUK]
  | .anyEntity, _ => by simp [TypeUK]
  | .ext _, _ => by simp [TypeUK]
theorem attrsUK_of_cn : ∀ (attrs : List (String × Bool × CedarType)), cnAttrs attrs = true → (attrs.map (·.1)).Nodup →
    AttrsUK attrs
  | [], _, _ => by simp [AttrsUK]
  | (k, r, t) :: rest, h, hnd => by
    simp only [cnAttrs, Bool.and_eq_true] at h
    simp only [List.map_cons, List.nodup_cons] at hnd
    simp only [AttrsUK]
    exact ⟨lookupField_attrsToFields_none rest k hnd.1, typeUK_of_cn t h.1, attrsUK_of_cn rest h.2 hnd.2⟩
end

section uk
variable {s : Schema} {env : RequestEnv} {q : Request} (hWF : SchemaWF3 s) (henv : EnvMatches s env q)
include hWF henv

theorem optUK_tyOf (e : Expr) (hf : FragE e) (caps : Capabilities) : optUK (tyOf s env e caps) := by
  unfold tyOf
  cases hT : typeOf .strict s env e caps with
  | error err => simp [optUK]
  | ok p =>
    obtain ⟨τ, c⟩ := p
    simp only [optUK]
    exact typeUK_of_cn τ (typeOf_cn hWF henv e (fragE_inFragment2 env e hf) caps τ c hT)

-- the typed AST's annotations are record types with unique attribute names
set_option linter.unusedSectionVars false in
mutual
theorem typesUK_typed : ∀ (e : Expr), FragE e → ∀ (caps : Capabilities), TypesUK (typedAst s env e caps)
  | .lit p, _, _ => by simp [typedAst, TypesUK]
  | .var x, _, _ => by simp [typedAst, TypesUK]
  | .and a b, hf, caps => by
    simp only [FragE] at hf
    simp only [typedAst]
    split
    · split
      · exact typesUK_typed a hf.1 caps
      · simp only [TypesUK]; exact ⟨typesUK_typed a hf.1 caps, typesUK_typed b hf.2 _⟩
    · simp only [TypesUK]; exact ⟨typesUK_typed a hf.1 caps, typesUK_typed b hf.2 _⟩
  | .or a b, hf, caps => by
    simp only [FragE] at hf
    simp only [typedAst]
    split
    · split
      · exact typesUK_typed a hf.1 caps
      · simp only [TypesUK]; exact ⟨typesUK_typed a hf.1 caps, typesUK_typed b hf.2 _⟩
    · simp only [TypesUK]; exact ⟨typesUK_typed a hf.1 caps, typesUK_typed b hf.2 _⟩
  | .ite c t e, hf, caps => by
    simp only [FragE] at hf
    simp only [typedAst]
    split
    · split
      · simp only [TypesUK]; exact ⟨typesUK_typed c hf.1 caps, typesUK_typed t hf.2.1 _, typesUK_typed t hf.2.1 _⟩
      · split
        · simp only [TypesUK]; exact ⟨typesUK_typed c hf.1 caps, typesUK_typed e hf.2.2 _, typesUK_typed e hf.2.2 _⟩
        · simp only [TypesUK]; exact ⟨typesUK_typed c hf.1 caps, typesUK_typed t hf.2.1 _, typesUK_typed e hf.2.2 _⟩
    · simp only [TypesUK]; exact ⟨typesUK_typed c hf.1 caps, typesUK_typed t hf.2.1 _, typesUK_typed e hf.2.2 _⟩
  | .unaryApp op a, hf, caps => by
    simp only [FragE] at hf
    simp only [typedAst, TypesUK]
    exact ⟨optUK_tyOf hWF henv a hf caps, typesUK_typed a hf caps⟩
  | .binaryApp op a b, hf, caps => by
    simp only [FragE] at hf
    simp only [typedAst, TypesUK]
    exact ⟨optUK_tyOf hWF henv a hf.2.1 caps, optUK_tyOf hWF henv b hf.2.2 caps, typesUK_typed a hf.2.1 caps,
      typesUK_typed b hf.2.2 caps⟩
  | .getAttr e _, hf, caps => by
    simp only [FragE] at hf
    simp only [typedAst, TypesUK]
    exact typesUK_typed e hf caps
  | .hasAttr e _, hf, caps => by
    simp only [FragE] at hf
    simp only [typedAst, TypesUK]
    exact typesUK_typed e hf caps
  | .like e _, hf, caps => by
    simp only [FragE] at hf
    simp only [typedAst, TypesUK]
    exact typesUK_typed e hf caps
  | .is e _, hf, caps => by
    simp only [FragE] at hf
    simp only [typedAst, TypesUK]
    exact typesUK_typed e hf caps
  | .call _ args, hf, caps => by
    simp only [FragE] at hf
    simp only [typedAst, TypesUK]
    exact typesUKList_typed args hf caps
  | .slot _, hf, _ => by simp [FragE] at hf
  | .unknown _ _, hf, _ => by simp [FragE] at hf
  | .set _, hf, _ => by simp [FragE] at hf
  | .record _, hf, _ => by simp [FragE] at hf
theorem typesUKList_typed : ∀ (es : List Expr), FragEList es → ∀ (caps : Capabilities), TypesUKList (typedAstList s env es caps)
  | [], _, _ => by simp [typedAstList, TypesUKList]
  | e :: es, hf, caps => by
    simp only [FragEList] at hf
    simp only [typedAstList, TypesUKList]
    exact ⟨typesUK_typed e hf.1 caps, typesUKList_typed es hf.2 caps⟩
end

end uk

end Cedar.Manifest
