import CedarVerif.Lemmas.JsonIpBase
/-
C10 / C07, IPv4 literals: the dotted quad `a.b.c.d/p` written with `decDigits` (= `toString`, no leading zeros)
parses through `IPAddr.parse` to `(v4, ((a·256+b)·256+c)·256+d, p)`; hence `Display` of an IPv4 `IPAddr`
(`renderIp false`) parses back to the same value.
-/
namespace Cedar
namespace CJson
open Ext Ext.IPAddr

theorem readOctet_decDigits (o : Nat) (rest : List Char) (ho : o < 256)
    (hr : ∀ c r, rest = c :: r → isDigit c = false) : readOctet (decDigits o ++ rest) = some (o, rest) := by
  obtain ⟨hne, hdig, hval⟩ := decDigits_spec o
  have hsp := Cedar.CJson.spanDigits_append (decDigits o) rest hdig hr
  have hlen : (decDigits o).length ≤ 3 := decDigits_length_le o 3 (by decide) (by omega)
  have h1 : ((decDigits o).isEmpty || decide ((decDigits o).length > 3)) = false := by
    have : (decDigits o).isEmpty = false := by
      cases hd : decDigits o with
      | nil => exact absurd hd hne
      | cons => rfl
    simp [this]; omega
  have h2 : (decide ((decDigits o).length > 1) && (decDigits o).head? == some '0') = false := by
    by_cases h0 : o = 0
    · subst h0; decide
    · obtain ⟨c, r, hc, hne0⟩ := decDigits_head o (by omega)
      rw [hc]
      simp [hne0]
  have h3 : ¬ o > 255 := by omega
  simp only [readOctet, hsp, h1, h2, hval, h3, if_false, Bool.false_eq_true]

theorem dot_not_digit : isDigit '.' = false := by decide
theorem slash_not_digit : isDigit '/' = false := by decide

/-- the dotted quad, followed by anything that does not start with a digit -/
theorem readV4_dotted (o1 o2 o3 o4 : Nat) (rest : List Char) (h1 : o1 < 256) (h2 : o2 < 256) (h3 : o3 < 256)
    (h4 : o4 < 256) (hr : ∀ c r, rest = c :: r → isDigit c = false) :
    readV4 (decDigits o1 ++ '.' :: (decDigits o2 ++ '.' :: (decDigits o3 ++ '.' :: (decDigits o4 ++ rest)))) =
      some (((o1 * 256 + o2) * 256 + o3) * 256 + o4, rest) := by
  have hd : ∀ (t : List Char) c r, '.' :: t = c :: r → isDigit c = false := by
    intro t c r h; cases h; exact dot_not_digit
  simp only [readV4, readOctet_decDigits o1 _ h1 (hd _), readOctet_decDigits o2 _ h2 (hd _),
    readOctet_decDigits o3 _ h3 (hd _), readOctet_decDigits o4 rest h4 hr, bind, Option.bind]

/-- the text `o1.o2.o3.o4` -/
def v4Text (o1 o2 o3 o4 : Nat) : List Char :=
  decDigits o1 ++ '.' :: (decDigits o2 ++ '.' :: (decDigits o3 ++ '.' :: decDigits o4))

theorem v4Text_chars (o1 o2 o3 o4 : Nat) (c : Char) (hc : c ∈ v4Text o1 o2 o3 o4) : isDigit c = true ∨ c = '.' := by
  simp only [v4Text, List.mem_append, List.mem_cons] at hc
  rcases hc with h | rfl | h | rfl | h | rfl | h
  · exact Or.inl ((decDigits_spec o1).2.1 c h)
  · exact Or.inr rfl
  · exact Or.inl ((decDigits_spec o2).2.1 c h)
  · exact Or.inr rfl
  · exact Or.inl ((decDigits_spec o3).2.1 c h)
  · exact Or.inr rfl
  · exact Or.inl ((decDigits_spec o4).2.1 c h)

theorem v4Text_length (o1 o2 o3 o4 : Nat) (h1 : o1 < 256) (h2 : o2 < 256) (h3 : o3 < 256) (h4 : o4 < 256) :
    (v4Text o1 o2 o3 o4).length ≤ 15 := by
  have l1 := decDigits_length_le o1 3 (by decide) (by omega)
  have l2 := decDigits_length_le o2 3 (by decide) (by omega)
  have l3 := decDigits_length_le o3 3 (by decide) (by omega)
  have l4 := decDigits_length_le o4 3 (by decide) (by omega)
  simp only [v4Text, List.length_append, List.length_cons]
  omega

theorem parseAddr_v4Text (o1 o2 o3 o4 : Nat) (h1 : o1 < 256) (h2 : o2 < 256) (h3 : o3 < 256) (h4 : o4 < 256) :
    parseAddr (v4Text o1 o2 o3 o4) = some (false, ((o1 * 256 + o2) * 256 + o3) * 256 + o4) := by
  have := readV4_dotted o1 o2 o3 o4 [] h1 h2 h3 h4 (by intro c r h; cases h)
  simp only [List.append_nil] at this
  simp only [parseAddr, v4Text, this]

/-- **IPv4 literal with prefix**: `o1.o2.o3.o4/p`, octets and prefix rendered without leading zeros,
    octets < 256, prefix ≤ 32 -/
theorem parse_v4Text_prefix (o1 o2 o3 o4 p : Nat) (h1 : o1 < 256) (h2 : o2 < 256) (h3 : o3 < 256) (h4 : o4 < 256)
    (hp : p ≤ 32) :
    IPAddr.parse (String.ofList (v4Text o1 o2 o3 o4 ++ '/' :: decDigits p)) =
      some (.ipaddr false (((o1 * 256 + o2) * 256 + o3) * 256 + o4) p) := by
  have hch := v4Text_chars o1 o2 o3 o4
  have hpd := (decDigits_spec p).2.1
  have hall : ∀ c, c ∈ v4Text o1 o2 o3 o4 ++ '/' :: decDigits p → (isDigit c = true ∨ c = '.' ∨ c = '/') := by
    intro c hc
    simp only [List.mem_append, List.mem_cons] at hc
    rcases hc with h | rfl | h
    · rcases hch c h with h | h
      · exact Or.inl h
      · exact Or.inr (Or.inl h)
    · exact Or.inr (Or.inr rfl)
    · exact Or.inl (hpd c h)
  have hascii : ∀ c, c ∈ v4Text o1 o2 o3 o4 ++ '/' :: decDigits p → c.toNat < 128 := by
    intro c hc
    rcases hall c hc with h | rfl | rfl
    · exact digit_ascii h
    · decide
    · decide
  have hlenp : (decDigits p).length ≤ 2 := decDigits_length_le p 2 (by decide) (by omega)
  have hlen : byteLen (v4Text o1 o2 o3 o4 ++ '/' :: decDigits p) ≤ 43 := by
    rw [byteLen_ascii _ hascii]
    have := v4Text_length o1 o2 o3 o4 h1 h2 h3 h4
    simp only [List.length_append, List.length_cons]
    omega
  have hcolon : ':' ∉ v4Text o1 o2 o3 o4 ++ '/' :: decDigits p := by
    intro hc
    rcases hall _ hc with h | h | h
    · revert h; decide
    · revert h; decide
    · revert h; decide
  have hcd : containsColonsAndDots (v4Text o1 o2 o3 o4 ++ '/' :: decDigits p) = false := by
    simp [containsColonsAndDots, countChar_zero ':' _ hcolon]
  have hs : '/' ∉ v4Text o1 o2 o3 o4 := by
    intro hc
    rcases hch _ hc with h | h
    · revert h; decide
    · revert h; decide
  exact parse_addr_prefix _ _ false _ p hlen hcd hs (parseAddr_v4Text o1 o2 o3 o4 h1 h2 h3 h4)
    (by simpa using parsePrefix_decDigits p 32 2 hp (by decide) (by decide) (by decide))

/-! ### `Display for IPAddr`, IPv4 -/

theorem renderV4_eq (a : Nat) :
    renderV4 a = v4Text (a / 16777216 % 256) (a / 65536 % 256) (a / 256 % 256) (a % 256) := by
  simp [renderV4, joinWith, v4Text]

/-- **`ip(Display(v))` = `v`, IPv4**: for every IPv4 value (32-bit address, prefix ≤ 32) -/
theorem parse_renderIp_v4 (a p : Nat) (ha : a < 2 ^ 32) (hp : p ≤ 32) :
    IPAddr.parse (String.ofList (renderIp false a p)) = some (.ipaddr false a p) := by
  have h := parse_v4Text_prefix (a / 16777216 % 256) (a / 65536 % 256) (a / 256 % 256) (a % 256) p
    (Nat.mod_lt _ (by decide)) (Nat.mod_lt _ (by decide)) (Nat.mod_lt _ (by decide)) (Nat.mod_lt _ (by decide)) hp
  have e : ((a / 16777216 % 256 * 256 + a / 65536 % 256) * 256 + a / 256 % 256) * 256 + a % 256 = a := by
    have : (2 : Nat) ^ 32 = 4294967296 := by decide
    omega
  rw [e] at h
  simpa [renderIp, renderV4_eq] using h

example : IPAddr.parse (String.ofList (renderIp false 0xc0a80001 24)) = some (.ipaddr false 0xc0a80001 24) :=
  parse_renderIp_v4 _ _ (by decide) (by decide)
example : String.ofList (renderIp false 0xc0a80001 24) = "192.168.0.1/24" := by decide +kernel

end CJson
end Cedar
