import CedarVerif.Lemmas.PartialStore4
/-
C13: ONE `reauthorize` round on the *unsubstituted* store suffices when every residual attribute value of the store is a
direct `Unknown` (which `get_attr` passes through the mapper), no tag value is residual (`getTag` returns the stored partial
value as it is) and the store is in concrete mode: the second pass — mapper σ, concretised request, the SAME partial store —
leaves no residual (`noRes3`) and, by `pinterp_sound3` with first-pass mapper σ, computes `evaluate ∘ substUnk σ`.
-/
namespace Cedar
namespace PS

/-- concrete mode; every residual attribute value is a direct `Unknown`; no residual tag value -/
def DirectUnk (pes : PEntities) : Prop :=
  pes.partialMode = false ∧
  ∀ u d, PEntities.find? pes.ents u = some d →
    (∀ a r, lookupKV d.attrs a = some (.residual r) → ∃ name ty, r = .unknown name ty) ∧
    (∀ a r, lookupKV d.tags a ≠ some (.residual r))

theorem evalIn_noRes (u1 : EntityUID) (anc : Option (List EntityUID)) (v2 : Value) (r : Expr) : evalIn u1 anc v2 ≠ .res r := by
  cases v2 with
  | prim p => cases p <;> simp [evalIn]
  | set vs => simp only [evalIn]; cases asEntityList vs <;> simp
  | record kvs => simp [evalIn]
  | ext x => simp [evalIn]

theorem papplyBinary_noRes {pes : PEntities} (hD : DirectUnk pes) (op : BinaryOp) (v1 v2 : Value) (r : Expr) :
    papplyBinary pes op v1 v2 ≠ .res r := by
  cases hop : op.storeFree with
  | true =>
    rw [papplyBinary_storeFree pes [] op hop]
    cases applyBinary [] op v1 v2 <;> simp [PRes.ofResult]
  | false =>
    cases op <;> simp [BinaryOp.storeFree] at hop
    · simp only [papplyBinary]
      cases he : v1.asEntity with
      | error c => simp
      | ok u1 =>
        simp only
        rcases entity_cases pes u1 with ⟨d, hf, hE⟩ | ⟨hf, hp, hE⟩ | ⟨hf, hp, hE⟩
        · rw [hE]; exact evalIn_noRes _ _ _ _
        · rw [hE]; exact evalIn_noRes _ _ _ _
        · rw [hD.1] at hp; cases hp
    · simp only [papplyBinary]
      cases he : v1.asEntity with
      | error c => simp
      | ok u =>
        cases hs : v2.asString with
        | error c => simp
        | ok t =>
          simp only
          rcases entity_cases pes u with ⟨d, hf, hE⟩ | ⟨hf, hp, hE⟩ | ⟨hf, hp, hE⟩
          · rw [hE]
            simp only
            cases hl : lookupKV d.tags t with
            | none => simp
            | some pv =>
              cases pv with
              | value v => simp [PRes.ofPV]
              | residual x => exact ((hD.2 u d hf).2 t x hl).elim
          · rw [hE]; simp
          · rw [hD.1] at hp; cases hp
    · simp only [papplyBinary]
      cases he : v1.asEntity with
      | error c => simp
      | ok u =>
        cases hs : v2.asString with
        | error c => simp
        | ok t =>
          simp only
          rcases entity_cases pes u with ⟨d, hf, hE⟩ | ⟨hf, hp, hE⟩ | ⟨hf, hp, hE⟩
          · rw [hE]; simp
          · rw [hE]; simp
          · rw [hD.1] at hp; cases hp

theorem noRes3 (σ : Mapper) (req : Request) (es : Entities) (env : SlotEnv) (pes : PEntities)
    (hS : StoreCompletes σ pes es) (hD : DirectUnk pes) :
    ∀ (n : Nat) (e : Expr), Frag2 σ e → ∀ r, pinterp σ (.ofConcrete req) pes env n e ≠ .res r := by
  intro n
  induction n with
  | zero => intro e _ r; simp [pinterp]
  | succ n ih =>
  intro e hf
  cases hf with
  | lit p => intro r; simp [pinterp]
  | var v => intro r; cases v <;> simp [pinterp, PRequest.ofConcrete, UidEntry.eval]
  | slot s => intro r; simp only [pinterp]; split <;> simp
  | unknown name ty h =>
    intro r
    obtain ⟨v, hl, _, _⟩ := h
    simp only [pinterp, unknownToPV, hl]
    cases ty with
    | none => simp
    | some t => simp only; split <;> simp
  | @ite c t e hfc hft hfe =>
    intro r
    have h1 := ih c hfc; have h2 := ih t hft; have h3 := ih e hfe
    simp only [pinterp, bestEffort]
    repeat' split
    all_goals simp_all
  | @and a b hfa hfb =>
    intro r
    have h1 := ih a hfa; have h2 := ih b hfb
    simp only [pinterp, bestEffort]
    repeat' split
    all_goals simp_all
  | @or a b hfa hfb =>
    intro r
    have h1 := ih a hfa; have h2 := ih b hfb
    simp only [pinterp, bestEffort]
    repeat' split
    all_goals simp_all
  | @unaryApp op a hfa =>
    intro r
    have h1 := ih a hfa
    simp only [pinterp]
    split
    · cases applyUnary op _ <;> simp [PRes.ofResult]
    · simp_all
    · simp_all
  | @binaryApp op a b hfa hfb =>
    intro r
    have h1 := ih a hfa; have h2 := ih b hfb
    simp only [pinterp]
    split
    · split
      · exact papplyBinary_noRes hD op _ _ r
      · simp_all
      · simp_all
    · simp_all
    · simp_all
  | @getAttr e0 a hfe =>
    intro r
    have h1 := ih e0 hfe
    simp only [pinterp]
    split
    · simp_all
    · split <;> simp
    · rename_i u _
      rcases entity_cases pes u with ⟨d, hf, hE⟩ | ⟨hf, hp, hE⟩ | ⟨hf, hp, hE⟩
      · rw [hE]
        simp only
        cases hl : lookupKV d.attrs a with
        | none => simp
        | some pv =>
          cases pv with
          | value v => simp
          | residual x =>
            obtain ⟨name, ty, rfl⟩ := (hD.2 u d hf).1 a x hl
            obtain ⟨d', _, _, hattrs, _⟩ := hS.data hf
            obtain ⟨v, _, hav⟩ := hattrs.get_some hl
            obtain ⟨hfr, _, _⟩ := hav
            cases hfr with
            | unknown _ _ hu =>
              obtain ⟨w, hw, _, _⟩ := hu
              simp only [unknownToPV, hw]
              cases ty with
              | none => simp
              | some t => simp only; split <;> simp
      · rw [hE]; simp
      · rw [hD.1] at hp; cases hp
    · simp
    · simp_all
  | @hasAttr e0 a hfe =>
    intro r
    have h1 := ih e0 hfe
    simp only [pinterp]
    split
    · simp
    · rename_i u _
      rcases entity_cases pes u with ⟨d, hf, hE⟩ | ⟨hf, hp, hE⟩ | ⟨hf, hp, hE⟩
      · rw [hE]; simp
      · rw [hE]; simp
      · rw [hD.1] at hp; cases hp
    · simp
    · simp_all
    · simp_all
  | @like e0 p hfe =>
    intro r
    have h1 := ih e0 hfe
    simp only [pinterp]
    repeat' split
    all_goals simp_all
  | @is e0 ty hfe =>
    intro r
    have h1 := ih e0 hfe
    simp only [pinterp]
    repeat' split
    all_goals simp_all
  | @set xs hxs =>
    intro r
    have hc := collectPV_noRes (pinterp σ (.ofConcrete req) pes env n) xs (fun x hx r => ih x (hxs x hx) r)
    simp only [pinterp]
    cases hcc : collectPV (pinterp σ (.ofConcrete req) pes env n) xs with
    | error r' => rw [hcc] at hc; exact hc r
    | ok pvs =>
      rw [hcc] at hc
      obtain ⟨vs, hp⟩ := hc
      simp [hp, splitPV_values]
  | @call fn args hfn hxs =>
    intro r
    have hc := collectPV_noRes (pinterp σ (.ofConcrete req) pes env n) args (fun x hx r => ih x (hxs x hx) r)
    simp only [pinterp]
    cases hcc : collectPV (pinterp σ (.ofConcrete req) pes env n) args with
    | error r' => rw [hcc] at hc; exact hc r
    | ok pvs =>
      rw [hcc] at hc
      obtain ⟨vs, hp⟩ := hc
      simp only [hp, splitPV_values, pcallExt_ne_unknown hfn]
      cases callExt fn vs <;> simp [PRes.ofResult]
  | @record kvs hnd hkvs =>
    intro r
    have hc := collectPVKVs_noRes (pinterp σ (.ofConcrete req) pes env n) kvs (fun kv hkv r => ih kv.2 (hkvs kv hkv) r)
    simp only [pinterp]
    cases hcc : collectPVKVs (pinterp σ (.ofConcrete req) pes env n) kvs with
    | error r' => rw [hcc] at hc; exact hc r
    | ok pkvs =>
      rw [hcc] at hc
      obtain ⟨vs, hp⟩ := hc
      have h1 : pkvs.map (·.2) = (vs.map Prod.snd).map PartialValue.value := by
        rw [hp]; simp [List.map_map, Function.comp_def]
      simp only [h1, splitPV_values]
      simp


section
variable (σ : Mapper) (req : Request) (es : Entities) (env : SlotEnv)

/-- the second pass on the unsubstituted store computes `evaluate ∘ substUnk σ` when the store's unknowns are direct -/
theorem bridge_direct (hctx : (Value.record req.context).Canon) (pes : PEntities)
    (hS : StoreCompletes σ pes es) (hD : DirectUnk pes) {r : Expr} (hf : Frag2 σ r) :
    ∀ n', Sem (pinterp σ (.ofConcrete req) pes env n' r) (Y σ req es env r) := by
  intro n'
  have h := pinterp_sound3 σ req es env hctx σ (.ofConcrete req) pes hS (MapLE.refl σ) (concretizes2_ofConcrete σ es req) n' r hf
  have h3 := noRes3 σ req es env pes hS hD n' r hf
  cases hx : pinterp σ (.ofConcrete req) pes env n' r with
  | val v => rw [hx] at h; rw [h.1]; simp
  | err c => rw [hx] at h; obtain ⟨c', hc'⟩ := h; rw [hc']; simp
  | res r' => exact (h3 r' hx).elim
  | fuel => simp
  | panic => simp

end

end PS
end Cedar
