import CedarVerif.Cedar.SchemaCollect
import CedarVerif.Lemmas.SchemaDecl2
/-
Lemmas about the `BTreeMap` collection of parsed declarations (`Cedar/SchemaCollect.lean`).
-/
namespace Cedar.SchemaSyntax

theorem hasDupKeys_false_of_pairwise {κ : Type} [DecidableEq κ] (r : κ → κ → Prop) (hirr : ∀ a, ¬ r a a)
    (l : List κ) (h : l.Pairwise r) : hasDupKeys l = false := by
  induction l with
  | nil => rfl
  | cons k ks ih =>
    rw [List.pairwise_cons] at h
    simp only [hasDupKeys, Bool.or_eq_false_iff]
    refine ⟨?_, ih h.2⟩
    cases hc : ks.contains k with
    | false => rfl
    | true =>
      have hm : k ∈ ks := by simpa using hc
      exact absurd (h.1 k hm) (hirr k)

theorem sortKeys_of_pairwise {κ α : Type} (lt : κ → κ → Bool) (l : List (κ × α))
    (h : l.Pairwise (fun a b => lt a.1 b.1 = true)) : sortKeys lt l = l := by
  induction l with
  | nil => rfl
  | cons x rest ih =>
    obtain ⟨k, v⟩ := x
    rw [List.pairwise_cons] at h
    simp only [sortKeys, ih h.2]
    cases rest with
    | nil => rfl
    | cons y ys =>
      obtain ⟨k', v'⟩ := y
      have := h.1 (k', v') (by simp)
      simp only at this
      simp [insertKey, this]

theorem strKeyLt_irrefl (a : String) : ¬ (strKeyLt a a = true) := by
  simp [strKeyLt, String.lt_irrefl]

theorem qnameKeyLt_irrefl (a : QName) : ¬ (qnameKeyLt a a = true) := by
  simp [qnameKeyLt, String.lt_irrefl, List.lt_irrefl]

/-- keys strictly increasing: the invariant of a `BTreeMap`'s iteration -/
def KeysSorted {α : Type} (l : List (String × α)) : Prop := l.Pairwise (fun a b => strKeyLt a.1 b.1 = true)

def NsKeysOK (d : NamespaceJ) : Prop := KeysSorted d.commons ∧ KeysSorted d.entities ∧ KeysSorted d.actions

/-- the key invariant of a `json_schema::Fragment` (every level is a `BTreeMap`): keys distinct and in key order -/
def FragKeysOK (f : FragmentJ) : Prop :=
  (∀ d, f.empty = some d → NsKeysOK d) ∧ (∀ x ∈ f.named, NsKeysOK x.2) ∧
  f.named.Pairwise (fun a b => qnameKeyLt a.1 b.1 = true)

theorem keysSorted_noDup {α : Type} (l : List (String × α)) (h : KeysSorted l) : hasDupKeys (l.map (·.1)) = false := by
  apply hasDupKeys_false_of_pairwise (fun a b => strKeyLt a b = true) strKeyLt_irrefl
  rw [List.pairwise_map]
  exact h

theorem nsHasDup_of_keysOK (d : NamespaceJ) (h : NsKeysOK d) : nsHasDup d = false := by
  simp [nsHasDup, keysSorted_noDup _ h.1, keysSorted_noDup _ h.2.1, keysSorted_noDup _ h.2.2]

theorem sortNs_of_keysOK (d : NamespaceJ) (h : NsKeysOK d) : sortNs d = d := by
  obtain ⟨c, e, a⟩ := d
  simp only [sortNs, NsKeysOK, KeysSorted] at h ⊢
  rw [sortKeys_of_pairwise _ _ h.1, sortKeys_of_pairwise _ _ h.2.1, sortKeys_of_pairwise _ _ h.2.2]

/-- on a fragment that already has the `BTreeMap` invariant the collection changes nothing -/
theorem collectFragment_of_keysOK (f : FragmentJ) (h : FragKeysOK f) : collectFragment f = .ok f := by
  obtain ⟨e, named⟩ := f
  obtain ⟨he, hn, hp⟩ := h
  simp only at he hn hp
  have h1 : named.any (fun x => nsHasDup x.2) = false := by
    simp only [List.any_eq_false]
    intro x hx
    simp [nsHasDup_of_keysOK x.2 (hn x hx)]
  have h2 : optNsHasDup e = false := by
    cases e with
    | none => rfl
    | some d => exact nsHasDup_of_keysOK d (he d rfl)
  have h3 : hasDupKeys (named.map (·.1)) = false := by
    apply hasDupKeys_false_of_pairwise (fun a b => qnameKeyLt a b = true) qnameKeyLt_irrefl
    rw [List.pairwise_map]
    exact hp
  have h4 : (named.map fun x => (x.1, sortNs x.2)) = named := by
    conv => rhs; rw [← List.map_id named]
    apply List.map_congr_left
    intro x hx
    simp [sortNs_of_keysOK x.2 (hn x hx)]
  have h5 : e.map sortNs = e := by
    cases e with
    | none => rfl
    | some d => simp [sortNs_of_keysOK d (he d rfl)]
  simp only [collectFragment, h1, h2, h3, h4, h5, Bool.or_self, Bool.false_eq_true, if_false]
  rw [sortKeys_of_pairwise _ _ hp]

theorem keysSorted_map {α β : Type} (l : List (String × α)) (g : String × α → β) (h : KeysSorted l) :
    KeysSorted (l.map fun x => (x.1, g x)) := by
  simp only [KeysSorted, List.pairwise_map]
  exact h

theorem nsKeysOK_normNs (d : NamespaceJ) (h : NsKeysOK d) : NsKeysOK (normNs d) :=
  ⟨keysSorted_map d.commons (fun x => eocForm x.2) h.1, keysSorted_map d.entities (fun x => normEnt x.2) h.2.1,
   keysSorted_map d.actions (fun x => normAction x.2) h.2.2⟩

/-- `normFragment` keeps every key -/
theorem fragKeysOK_normFragment (f : FragmentJ) (h : FragKeysOK f) : FragKeysOK (normFragment f) := by
  obtain ⟨e, named⟩ := f
  obtain ⟨he, hn, hp⟩ := h
  simp only at he hn hp
  refine ⟨?_, ?_, ?_⟩
  · intro d hd
    simp only [normFragment] at hd
    cases e with
    | none => simp at hd
    | some d0 =>
      simp only at hd
      split at hd
      · simp at hd
      · simp only [Option.some.injEq] at hd
        subst hd
        exact nsKeysOK_normNs d0 (he d0 rfl)
  · intro x hx
    simp only [normFragment, List.mem_map] at hx
    obtain ⟨y, hy, rfl⟩ := hx
    exact nsKeysOK_normNs y.2 (hn y hy)
  · simp only [normFragment, List.pairwise_map]
    exact hp

end Cedar.SchemaSyntax
