import CedarVerif.Lemmas.SyntaxChain
/-
C05: the `Member` level in continuation form (`MemK`): a primary followed by `.field`, `["index"]`, `.method(args)`
accessors, function calls, entity-uid literals, type names, `Comma<Expr>` lists and record initialisers.
Used by the induction on the fragment `inFrag3` (SyntaxFull.lean).
-/
namespace Cedar.Syntax
open Cedar

/-! ### size measure over the nested inductive -/

mutual
def sz3 : Expr → Nat
  | .ite c t e => 1 + sz3 c + sz3 t + sz3 e
  | .and a b => 1 + sz3 a + sz3 b
  | .or a b => 1 + sz3 a + sz3 b
  | .unaryApp _ a => 1 + sz3 a
  | .binaryApp _ a b => 1 + sz3 a + sz3 b
  | .getAttr e _ => 1 + sz3 e
  | .hasAttr e _ => 1 + sz3 e
  | .like e _ => 1 + sz3 e
  | .is e _ => 1 + sz3 e
  | .call _ args => 1 + sz3L args
  | .set es => 1 + sz3L es
  | .record kvs => 1 + sz3K kvs
  | _ => 1
def sz3L : List Expr → Nat
  | [] => 0
  | e :: es => sz3 e + sz3L es
def sz3K : List (String × Expr) → Nat
  | [] => 0
  | (_, e) :: kvs => sz3 e + sz3K kvs
end

theorem sz3_pos (e : Expr) : 1 ≤ sz3 e := by
  cases e <;> simp [sz3] <;> omega

theorem sz3L_mem {a : Expr} : ∀ {es : List Expr}, a ∈ es → sz3 a ≤ sz3L es
  | [], h => by cases h
  | e :: es, h => by
    simp only [sz3L]
    cases h with
    | head => omega
    | tail _ h' => have := sz3L_mem h'; omega

theorem sz3K_mem {k : String} {a : Expr} : ∀ {kvs : List (String × Expr)}, (k, a) ∈ kvs → sz3 a ≤ sz3K kvs
  | [], h => by cases h
  | (k', e) :: kvs, h => by
    simp only [sz3K]
    cases h with
    | head => omega
    | tail _ h' => have := sz3K_mem h'; omega

/-! ### the fragment -/

/-- a printable/parsable entity type name: `::`-separated identifiers, none reserved, and `String.splitOn` followed by
`intercalate` gives the name back (a fact about the legacy `String.splitOn` for which core has no lemma; it is a
decidable side condition here) -/
def typeNameOk (ty : String) : Bool :=
  (ty.splitOn "::").all (fun c => isIdentChars c.toList && unreservedIdent c) && joinName (ty.splitOn "::") == ty

def sortedKeys3 : List (String × Expr) → Bool
  | (k1, _) :: (k2, v2) :: rest => decide (k1 < k2) && sortedKeys3 ((k2, v2) :: rest)
  | _ => true

mutual
/-- The fragment of `parse_print_partial3`: everything in `ParserImage` (the only difference is the extra
`intercalate ∘ splitOn = id` side condition in `typeNameOk`). -/
def inFrag3 : Expr → Bool
  | .lit (.bool _) => true
  | .lit (.int i) => decide (-(Int.ofNat i64Max) - 1 ≤ i ∧ i ≤ Int.ofNat i64Max)
  | .lit (.string _) => true
  | .lit (.entityUID u) => typeNameOk u.ty
  | .var _ => true
  | .slot _ => true
  | .unknown _ _ => false
  | .ite c t e => inFrag3 c && inFrag3 t && inFrag3 e
  | .and a b => inFrag3 a && inFrag3 b && !(isBoolLit a && isBoolLit b)
  | .or a b => inFrag3 a && inFrag3 b && !(isBoolLit a && isBoolLit b)
  | .unaryApp _ a => inFrag3 a
  | .binaryApp _ a b => inFrag3 a && inFrag3 b
  | .call fn args => (isExtFunction fn || (isExtMethod fn && !args.isEmpty)) && inFrag3L args
  | .getAttr e _ => inFrag3 e
  | .hasAttr e _ => inFrag3 e
  | .like e _ => inFrag3 e
  | .is e ty => inFrag3 e && typeNameOk ty
  | .set es => inFrag3L es
  | .record kvs => sortedKeys3 kvs && inFrag3K kvs
def inFrag3L : List Expr → Bool
  | [] => true
  | e :: es => inFrag3 e && inFrag3L es
def inFrag3K : List (String × Expr) → Bool
  | [] => true
  | (_, e) :: kvs => inFrag3 e && inFrag3K kvs
end

theorem inFrag3L_mem {a : Expr} : ∀ {es : List Expr}, inFrag3L es = true → a ∈ es → inFrag3 a = true
  | [], _, h => by cases h
  | e :: es, hf, h => by
    simp only [inFrag3L, Bool.and_eq_true] at hf
    cases h with
    | head => exact hf.1
    | tail _ h' => exact inFrag3L_mem hf.2 h'

theorem inFrag3K_mem {k : String} {a : Expr} : ∀ {kvs : List (String × Expr)}, inFrag3K kvs = true → (k, a) ∈ kvs → inFrag3 a = true
  | [], _, h => by cases h
  | (k', e) :: kvs, hf, h => by
    simp only [inFrag3K, Bool.and_eq_true] at hf
    cases h with
    | head => exact hf.1
    | tail _ h' => exact inFrag3K_mem hf.2 h'

/-! ### look-ahead conditions -/

/-- the next token does not continue a `Name` path -/
def noPath : List Token → Bool
  | .dcolon :: _ => false
  | _ => true
/-- the next token does not open an argument list -/
def noCall : List Token → Bool
  | .lparen :: _ => false
  | _ => true

theorem noPath_of_lv {R : List Token} (h : 1 ≤ headLv R) : noPath R = true := by
  cases R with
  | nil => rfl
  | cons t r => cases t <;> simp_all [noPath, headLv, tokLevel]
theorem noCall_of_lv {R : List Token} (h : 1 ≤ headLv R) : noCall R = true := by
  cases R with
  | nil => rfl
  | cons t r => cases t <;> simp_all [noCall, headLv, tokLevel]

theorem pathRest_noPath {ts : List Token} (h : noPath ts = true) : pathRest ts = ([], ts) := by
  cases ts with
  | nil => rfl
  | cons t r => cases t <;> simp_all [pathRest, noPath]

theorem primary_ident' (pe : P EOS) (s : String) {ts : List Token} (h : noPath ts = true) :
    primary pe (.ident s :: ts) =
      if s = "true" then some (.boolLit true, ts)
      else if s = "false" then some (.boolLit false, ts)
      else match varOfName s with
        | some v => some (.var v, ts)
        | none => if unreservedIdent s then some (.name [] s, ts) else none := by
  simp only [primary, pathRest_noPath h]
  cases ts with
  | nil => simp; try (by_cases h1 : s = "true" <;> by_cases h2 : s = "false" <;> simp [h1, h2] <;> cases varOfName s <;> rfl)
  | cons t r =>
    cases t <;> simp_all [noPath] <;>
      try (by_cases h1 : s = "true" <;> by_cases h2 : s = "false" <;> simp [h1, h2] <;> cases varOfName s <;> rfl)

/-! ### accessor loop in continuation form -/

/-- after reading `A` the accessor loop has collected `accs` and goes on with what follows -/
def AccK (pe : P EOS) (A : List Token) (accs : List Acc) : Prop :=
  ∀ R fuel, noCall R = true →
    accesses pe (fuel + accs.length) (A ++ R) = (accesses pe fuel R).map (fun x => (accs ++ x.1, x.2))

theorem accK_nil (pe : P EOS) : AccK pe [] [] := by
  intro R fuel _
  simp

theorem accK_snoc {pe : P EOS} {A T : List Token} {accs : List Acc} {acc : Acc} (h : AccK pe A accs)
    (hT : ∀ R, noCall (T ++ R) = true)
    (step : ∀ R fuel, noCall R = true →
      accesses pe (fuel + 1) (T ++ R) = (accesses pe fuel R).map (fun x => (acc :: x.1, x.2))) :
    AccK pe (A ++ T) (accs ++ [acc]) := by
  intro R fuel hR
  have h1 := h (T ++ R) (fuel + 1) (hT R)
  have e1 : fuel + (accs ++ [acc]).length = fuel + 1 + accs.length := by simp; omega
  rw [e1, List.append_assoc, h1, step R fuel hR]
  cases accesses pe fuel R <;> simp

theorem acc_field_step (pe : P EOS) (a : String) (ha : unreservedIdent a = true) (R : List Token) (fuel : Nat)
    (hR : noCall R = true) :
    accesses pe (fuel + 1) ([.dot, .ident a] ++ R) = (accesses pe fuel R).map (fun x => (Acc.field a :: x.1, x.2)) := by
  cases R with
  | nil =>
    simp only [List.append_nil]
    rw [accesses]
    · simp only [ha, if_true]; cases accesses pe fuel [] <;> rfl
    · intro ts h; cases h
  | cons t r =>
    cases t <;> simp [noCall] at hR <;>
      (simp only [List.cons_append, List.nil_append]
       rw [accesses]
       · simp only [ha, if_true]
         cases accesses pe fuel _ <;> rfl
       · intro ts h; cases h)

theorem acc_index_step (pe : P EOS) (raw : List Char) (s : String) (hs : strOfRaw raw = some s) (R : List Token) (fuel : Nat)
    (hpe : pe (.str raw :: .rbrack :: R) = some (.strLit raw, .rbrack :: R)) :
    accesses pe (fuel + 1) ([.lbrack, .str raw, .rbrack] ++ R) = (accesses pe fuel R).map (fun x => (Acc.index s :: x.1, x.2)) := by
  simp only [List.cons_append, List.nil_append]
  rw [accesses]
  simp only [hpe, hs]
  cases accesses pe fuel R <;> rfl

theorem acc_meth_step (pe : P EOS) (m : String) (hm : unreservedIdent m = true) (args : List Expr) (AT R : List Token) (fuel : Nat)
    (hl : exprList pe .rparen ((AT ++ .rparen :: R).length + 1) (AT ++ .rparen :: R) = some (args, R)) :
    accesses pe (fuel + 1) (.dot :: .ident m :: .lparen :: (AT ++ [.rparen]) ++ R) =
      (accesses pe fuel R).map (fun x => (Acc.meth m args :: x.1, x.2)) := by
  simp only [List.cons_append, List.append_assoc, List.nil_append]
  rw [accesses]
  simp only [hm, if_true, hl]
  cases accesses pe fuel R <;> rfl

/-! ### `Member` in continuation form -/

/-- `toks` is a primary `P` followed by accessors `A`; the lowering of primary + accessors is `e`, and stays
"open": further accessors apply to `e` -/
def MemK (pe : P EOS) (toks : List Token) (e : Expr) : Prop :=
  ∃ (Pt A : List Token) (prim : EOS) (accs : List Acc),
    toks = Pt ++ A ∧
    (∀ R, noPath R = true → noPath (A ++ R) = true) ∧
    (∀ R, noPath R = true → primary pe (Pt ++ R) = some (prim, R)) ∧
    AccK pe A accs ∧ accs.length ≤ A.length ∧
    (∀ more, more ≠ [] → lowerMember prim (accs ++ more) = (applyAccs e more).map .expr) ∧
    (∃ s, lowerMember prim accs = some s ∧ s.toExpr = some e)

theorem memK_member {pe : P EOS} {toks : List Token} {e : Expr} (h : MemK pe toks e) (R : List Token) (hR : 1 ≤ headLv R) :
    ∃ s, member pe (toks ++ R) = some (s, R) ∧ s.toExpr = some e := by
  obtain ⟨Pt, A, prim, accs, rfl, hA, hprim, hacc, hlen, _, s, hs1, hs2⟩ := h
  refine ⟨s, ?_, hs2⟩
  unfold member
  rw [List.append_assoc, hprim (A ++ R) (hA R (noPath_of_lv hR))]
  simp only
  have e1 : (A ++ R).length + 1 = ((A ++ R).length + 1 - accs.length) + accs.length := by
    simp only [List.length_append]; omega
  rw [e1, hacc R _ (noCall_of_lv hR), accesses_stop pe _ hR]
  simp [hs1]

theorem lowerMember_of_toExpr {prim : EOS} {e : Expr} (hn : ∀ p i, prim ≠ .name p i) (he : prim.toExpr = some e)
    {more : List Acc} (hm : more ≠ []) : lowerMember prim more = (applyAccs e more).map .expr := by
  cases more with
  | nil => exact absurd rfl hm
  | cons x xs =>
    cases prim with
    | name p i => exact absurd rfl (hn p i)
    | var v => simp only [EOS.toExpr, Option.some.injEq] at he; subst he; simp [lowerMember]
    | expr e' => simp only [EOS.toExpr, Option.some.injEq] at he; subst he; simp [lowerMember, EOS.toExpr]
    | strLit raw => simp [lowerMember, he]
    | boolLit b => simp [lowerMember, he]
    | num n => simp [lowerMember, he]

theorem memK_prim {pe : P EOS} {Pt : List Token} {prim : EOS} {e : Expr}
    (hprim : ∀ R, noPath R = true → primary pe (Pt ++ R) = some (prim, R))
    (hn : ∀ p i, prim ≠ .name p i) (he : prim.toExpr = some e) : MemK pe Pt e := by
  refine ⟨Pt, [], prim, [], by simp, fun R h => by simpa using h, hprim, accK_nil pe, by simp, ?_, prim, ?_, he⟩
  · intro more hm
    simpa using lowerMember_of_toExpr hn he hm
  · cases prim <;> rfl

theorem memK_ext {pe : P EOS} {L T : List Token} {a e' : Expr} {acc : Acc} (h : MemK pe L a)
    (hT1 : ∀ R, noCall (T ++ R) = true) (hT2 : ∀ R, noPath (T ++ R) = true) (hT3 : 1 ≤ T.length)
    (step : ∀ R fuel, noCall R = true →
      accesses pe (fuel + 1) (T ++ R) = (accesses pe fuel R).map (fun x => (acc :: x.1, x.2)))
    (happ : ∀ more, applyAccs a (acc :: more) = applyAccs e' more) : MemK pe (L ++ T) e' := by
  obtain ⟨Pt, A, prim, accs, rfl, hA, hprim, hacc, hlen, L1, _⟩ := h
  refine ⟨Pt, A ++ T, prim, accs ++ [acc], by simp, ?_, hprim, accK_snoc hacc hT1 step, by simp; omega, ?_, .expr e', ?_, rfl⟩
  · intro R _
    rw [List.append_assoc]
    cases A with
    | nil => simpa using hT2 R
    | cons t r =>
      have := hA [] rfl
      cases t <;> simp_all [noPath]
  · intro more hm
    rw [List.append_assoc, L1 _ (by simp)]
    simp [happ]
  · rw [L1 _ (by simp), happ]
    rfl


/-! ### `Comma<Expr>` -/

/-- what the induction supplies for a sub-expression inside brackets -/
def TopOK (me : Char → Bool) (pe : P EOS) (a : Expr) : Prop :=
  ∀ rest, headLv rest = 7 → ∃ s, pe (printE me a ++ rest) = some (s, rest) ∧ s.toExpr = some a

theorem exprList_one {pe : P EOS} {close : Token} {ts rest : List Token} {s : EOS} {e : Expr} (f : Nat)
    (hclose : ∀ ts, pe (close :: ts) = none)
    (hp : pe ts = some (s, rest)) (hs : s.toExpr = some e) (hne : ts ≠ []) :
    exprList pe close (f + 1) ts =
      match rest with
      | .comma :: rest' =>
        match exprList pe close f rest' with
        | none => none
        | some (es, r) => some (e :: es, r)
      | t' :: rest' => if t' = close then some ([e], rest') else none
      | [] => none := by
  cases ts with
  | nil => exact absurd rfl hne
  | cons t r =>
    rw [exprList]
    have : t ≠ close := by
      intro h; subst h; rw [hclose] at hp; cases hp
    simp only [this, if_false, hp, hs]
    cases rest with
    | nil => rfl
    | cons t' r' => cases t' <;> rfl

theorem exprList_tail (me : Char → Bool) (pe : P EOS) (close : Token) (hclose : ∀ ts, pe (close :: ts) = none)
    (hc7 : tokLevel close = 7) (hcc : close ≠ .comma) (R : List Token) :
    ∀ (es : List Expr) (e : Expr), TopOK me pe e → (∀ a ∈ es, TopOK me pe a) → ∀ fuel, es.length + 1 ≤ fuel →
      exprList pe close fuel (printE me e ++ (printEsTail me es ++ close :: R)) = some (e :: es, R) := by
  intro es
  induction es with
  | nil =>
    intro e he _ fuel hf
    obtain ⟨f, rfl⟩ : ∃ f, fuel = f + 1 := ⟨fuel - 1, by omega⟩
    obtain ⟨s, h1, h2⟩ := he (close :: R) (by simp [headLv, hc7])
    simp only [printEsTail, List.nil_append]
    rw [exprList_one f hclose h1 h2 (by simp)]
    cases close <;> simp_all
  | cons e2 es ih =>
    intro e he hes fuel hf
    obtain ⟨f, rfl⟩ : ∃ f, fuel = f + 1 := ⟨fuel - 1, by omega⟩
    obtain ⟨s, h1, h2⟩ := he (.comma :: (printE me e2 ++ (printEsTail me es ++ close :: R))) (by simp [headLv, tokLevel])
    simp only [printEsTail, List.cons_append, List.append_assoc]
    rw [exprList_one f hclose h1 h2 (by simp)]
    simp only [List.length_cons] at hf
    simp only [ih e2 (hes e2 (by simp)) (fun a ha => hes a (by simp [ha])) f (by omega)]

theorem exprList_print (me : Char → Bool) (pe : P EOS) (close : Token) (hclose : ∀ ts, pe (close :: ts) = none)
    (hc7 : tokLevel close = 7) (hcc : close ≠ .comma) (R : List Token) (es : List Expr) (hes : ∀ a ∈ es, TopOK me pe a)
    (fuel : Nat) (hf : es.length + 1 ≤ fuel) :
    exprList pe close fuel (printEs me es ++ close :: R) = some (es, R) := by
  cases es with
  | nil =>
    obtain ⟨f, rfl⟩ : ∃ f, fuel = f + 1 := ⟨fuel - 1, by omega⟩
    simp [printEs, exprList]
  | cons e es =>
    simp only [printEs, List.append_assoc]
    exact exprList_tail me pe close hclose hc7 hcc R es e (hes e (by simp)) (fun a ha => hes a (by simp [ha])) fuel
      (by simp only [List.length_cons] at hf; omega)

theorem printEsTail_length (me : Char → Bool) : ∀ es, es.length ≤ (printEsTail me es).length
  | [] => by simp
  | e :: es => by have := printEsTail_length me es; simp only [printEsTail, List.length_cons, List.length_append]; omega

theorem printEs_length (me : Char → Bool) (es : List Expr) : es.length ≤ (printEs me es).length + 1 := by
  cases es with
  | nil => simp
  | cons e es => have := printEsTail_length me es; simp only [printEs, List.length_cons, List.length_append]; omega

/-- the form used by `primary` (sets) and `accesses` (argument lists) -/
theorem exprList_print' (me : Char → Bool) (pe : P EOS) (close : Token) (hclose : ∀ ts, pe (close :: ts) = none)
    (hc7 : tokLevel close = 7) (hcc : close ≠ .comma) (R : List Token) (es : List Expr) (hes : ∀ a ∈ es, TopOK me pe a) :
    exprList pe close ((printEs me es ++ close :: R).length + 1) (printEs me es ++ close :: R) = some (es, R) :=
  exprList_print me pe close hclose hc7 hcc R es hes _ (by
    have := printEs_length me es
    simp only [List.length_append, List.length_cons]; omega)


end Cedar.Syntax
