import CedarVerif.Cedar.Data
/- `Value.beq` is an equivalence relation; `elem`/`subset` characterised by membership modulo `beq`. -/
namespace Cedar

theorem Value.elem_iff (v : Value) (ws : List Value) :
    Value.elem v ws = true ↔ ∃ w, w ∈ ws ∧ Value.beq v w = true := by
  induction ws with
  | nil => simp [Value.elem]
  | cons w ws ih =>
    rw [Value.elem]
    simp only [Bool.or_eq_true, ih, List.mem_cons]
    constructor
    · rintro (h | ⟨x, hx, hb⟩)
      · exact ⟨w, Or.inl rfl, h⟩
      · exact ⟨x, Or.inr hx, hb⟩
    · rintro ⟨x, (rfl | hx), hb⟩
      · exact Or.inl hb
      · exact Or.inr ⟨x, hx, hb⟩

theorem Value.subset_iff (as bs : List Value) :
    Value.subset as bs = true ↔ ∀ a, a ∈ as → Value.elem a bs = true := by
  induction as with
  | nil => simp [Value.subset]
  | cons a as ih =>
    rw [Value.subset]
    simp only [Bool.and_eq_true, ih, List.mem_cons]
    constructor
    · rintro ⟨h1, h2⟩ x (rfl | hx)
      · exact h1
      · exact h2 x hx
    · intro h
      exact ⟨h a (Or.inl rfl), fun x hx => h x (Or.inr hx)⟩

theorem Value.size_mem {v : Value} {vs : List Value} (h : v ∈ vs) : v.size < 1 + Value.sizeList vs := by
  induction vs with
  | nil => cases h
  | cons w ws ih =>
    simp only [List.mem_cons] at h
    simp only [Value.sizeList]
    rcases h with rfl | h
    · omega
    · have := ih h; omega

theorem Value.beq_refl : ∀ (n : Nat) (v : Value), v.size ≤ n → Value.beq v v = true := by
  intro n
  induction n with
  | zero =>
    intro v h
    cases v <;> simp [Value.size] at h
  | succ n ih =>
    intro v h
    cases v with
    | prim p => simp [Value.beq]
    | ext x => simp [Value.beq]
    | set vs =>
      rw [Value.beq]
      simp only [Bool.and_self, Value.subset_iff]
      intro a ha
      rw [Value.elem_iff]
      refine ⟨a, ha, ih a ?_⟩
      have := Value.size_mem ha
      simp only [Value.size] at h
      omega
    | record kvs =>
      rw [Value.beq]
      simp only [Value.size] at h
      have : ∀ (kvs : List (String × Value)), Value.sizeKVs kvs ≤ n → Value.beqKVs kvs kvs = true := by
        intro kvs
        induction kvs with
        | nil => intro _; simp [Value.beqKVs]
        | cons kv kvs ih2 =>
          obtain ⟨k, v⟩ := kv
          intro hs
          simp only [Value.sizeKVs] at hs
          rw [Value.beqKVs]
          simp only [beq_self_eq_true, Bool.true_and, Bool.and_eq_true]
          exact ⟨ih v (by omega), ih2 (by omega)⟩
      exact this kvs (by omega)

theorem Value.beq_rfl (v : Value) : Value.beq v v = true := Value.beq_refl v.size v (Nat.le_refl _)

theorem Value.beq_symm : ∀ (n : Nat) (a b : Value), a.size ≤ n → Value.beq a b = Value.beq b a := by
  intro n
  induction n with
  | zero => intro a b h; cases a <;> simp [Value.size] at h
  | succ n ih =>
    intro a b h
    cases a with
    | prim p =>
      cases b <;> simp only [Value.beq]
      rw [Bool.eq_iff_iff]; simp only [beq_iff_eq]; exact eq_comm
    | ext x =>
      cases b <;> simp only [Value.beq]
      rw [Bool.eq_iff_iff]; simp only [beq_iff_eq]; exact eq_comm
    | set vs =>
      cases b <;> simp [Value.beq]
      rw [Bool.and_comm]
    | record kvs =>
      cases b with
      | record kvs' =>
        rw [Value.beq, Value.beq]
        simp only [Value.size] at h
        have : ∀ (xs ys : List (String × Value)), Value.sizeKVs xs ≤ n →
            Value.beqKVs xs ys = Value.beqKVs ys xs := by
          intro xs
          induction xs with
          | nil => intro ys _; cases ys <;> simp [Value.beqKVs]
          | cons kv xs ih2 =>
            obtain ⟨k, v⟩ := kv
            intro ys hs
            cases ys with
            | nil => simp [Value.beqKVs]
            | cons kv' ys =>
              obtain ⟨k', v'⟩ := kv'
              simp only [Value.sizeKVs] at hs
              rw [Value.beqKVs, Value.beqKVs, ih v v' (by omega), ih2 ys (by omega)]
              have hk : (k == k') = (k' == k) := by rw [Bool.eq_iff_iff]; simp only [beq_iff_eq]; exact eq_comm
              rw [hk]
        exact this kvs kvs' (by omega)
      | _ => simp [Value.beq]

theorem Value.beq_trans : ∀ (n : Nat) (a b c : Value), a.size + b.size + c.size ≤ n →
    Value.beq a b = true → Value.beq b c = true → Value.beq a c = true := by
  intro n
  induction n with
  | zero => intro a b c h; cases a <;> simp [Value.size] at h
  | succ n ih =>
    intro a b c h hab hbc
    cases a with
    | prim p =>
      cases b <;> simp [Value.beq] at hab
      cases c <;> simp [Value.beq] at hbc
      simp [Value.beq, hab, hbc]
    | ext x =>
      cases b <;> simp [Value.beq] at hab
      cases c <;> simp [Value.beq] at hbc
      simp [Value.beq, hab, hbc]
    | set as =>
      cases b with
      | set bs =>
        cases c with
        | set cs =>
          rw [Value.beq] at hab hbc ⊢
          simp only [Bool.and_eq_true, Value.subset_iff] at hab hbc ⊢
          simp only [Value.size] at h
          have key : ∀ (xs ys zs : List Value), Value.sizeList xs + Value.sizeList ys + Value.sizeList zs ≤ n →
              (∀ a, a ∈ xs → Value.elem a ys = true) → (∀ a, a ∈ ys → Value.elem a zs = true) →
              ∀ a, a ∈ xs → Value.elem a zs = true := by
            intro xs ys zs hs h1 h2 a ha
            obtain ⟨b, hb, hab'⟩ := (Value.elem_iff _ _).mp (h1 a ha)
            obtain ⟨c, hc, hbc'⟩ := (Value.elem_iff _ _).mp (h2 b hb)
            refine (Value.elem_iff _ _).mpr ⟨c, hc, ih a b c ?_ hab' hbc'⟩
            have := Value.size_mem ha; have := Value.size_mem hb; have := Value.size_mem hc
            omega
          exact ⟨key as bs cs (by omega) hab.1 hbc.1, key cs bs as (by omega) hbc.2 hab.2⟩
        | _ => simp [Value.beq] at hbc
      | _ => simp [Value.beq] at hab
    | record as =>
      cases b with
      | record bs =>
        cases c with
        | record cs =>
          rw [Value.beq] at hab hbc ⊢
          simp only [Value.size] at h
          have key : ∀ (xs ys zs : List (String × Value)),
              Value.sizeKVs xs + Value.sizeKVs ys + Value.sizeKVs zs ≤ n →
              Value.beqKVs xs ys = true → Value.beqKVs ys zs = true → Value.beqKVs xs zs = true := by
            intro xs
            induction xs with
            | nil =>
              intro ys zs _ h1 h2
              cases ys with
              | nil => exact h2
              | cons _ _ => simp [Value.beqKVs] at h1
            | cons kv xs ih2 =>
              obtain ⟨k, v⟩ := kv
              intro ys zs hs h1 h2
              cases ys with
              | nil => simp [Value.beqKVs] at h1
              | cons kv' ys =>
                obtain ⟨k', v'⟩ := kv'
                cases zs with
                | nil => simp [Value.beqKVs] at h2
                | cons kv'' zs =>
                  obtain ⟨k'', v''⟩ := kv''
                  rw [Value.beqKVs] at h1 h2 ⊢
                  simp only [Bool.and_eq_true, beq_iff_eq] at h1 h2 ⊢
                  simp only [Value.sizeKVs] at hs
                  refine ⟨⟨h1.1.1.trans h2.1.1, ih v v' v'' (by omega) h1.1.2 h2.1.2⟩,
                    ih2 ys zs (by omega) h1.2 h2.2⟩
          exact key as bs cs (by omega) hab hbc
        | _ => simp [Value.beq] at hbc
      | _ => simp [Value.beq] at hab

#print axioms Value.beq_trans
end Cedar
