import CedarVerif.Lemmas.PolicySetFold
/-
C08 helper lemmas, part 11: `merge_policyset` as three folds of `insert` under the renaming; its `unwrap` is
unreachable; lookup characterisation of the merged maps.
-/
namespace Cedar
open LHM

namespace PolicySet

/-- a template of `other` as stored by the merge -/
def tren (ren : LHM String) (k : String) (t : Template) : Template :=
  match ren.get? k with
  | some n => t.newId n
  | none => t

/-- a policy of `other` as stored by the merge (the total version of `mergeLink`) -/
def pren (ren : LHM String) (pid : String) (p : TPolicy) : TPolicy :=
  let p1 := match ren.get? pid with
    | some n => p.newId n
    | none => p
  match ren.get? p1.template.id with
  | some ntid => if !p1.isStatic then { template := p1.template.newId ntid, link := p1.link, values := p1.values } else p1
  | none => p1

/-- a link set of `other` as merged into the current one -/
def mren (ren : LHM String) (s : List String) (cur : Option (List String)) : List String :=
  s.foldl (fun s pid => lhsInsert s (renamed ren pid)) (match cur with | some s => s | none => [])

/-- the `unwrap` of `new_template_id` in `merge_policyset` is unreachable: unconditionally -/
theorem mergeLink_eq (ren : LHM String) (pid : String) (p : TPolicy) :
    mergeLink ren pid p = some (renamed ren pid, pren ren pid p) := by
  unfold mergeLink pren renamed
  cases h1 : ren.get? pid with
  | none =>
    simp only
    cases h2 : ren.get? p.template.id with
    | none => rfl
    | some ntid =>
      simp only
      cases hl : p.link with
      | none => simp [TPolicy.isStatic, hl]
      | some l => simp [TPolicy.isStatic, TPolicy.newTemplateId, hl]
  | some n =>
    simp only
    cases h2 : ren.get? (p.newId n).template.id with
    | none => rfl
    | some ntid =>
      simp only
      cases hl : (p.newId n).link with
      | none => simp [TPolicy.isStatic, hl]
      | some l => simp [TPolicy.isStatic, TPolicy.newTemplateId, hl]

/-- the state built by a successful `merge_policyset`, for a given renaming -/
def mergeCore (ps other : PolicySet) (ren : LHM String) : PolicySet :=
  { templates := other.templates.foldl (LHM.insStep (renamed ren) (fun k t _ => tren ren k t)) ps.templates,
    links := other.links.foldl (LHM.insStep (renamed ren) (fun k p _ => pren ren k p)) ps.links,
    t2l := other.t2l.foldl (LHM.insStep (renamed ren) (fun _ s cur => mren ren s cur)) ps.t2l }

theorem foldl_opt_some {α β} (g : β → α → β) (F : Option β → α → Option β)
    (hF : ∀ acc e, F acc e = match acc with | none => none | some m => some (g m e)) (l : List α) :
    ∀ (m0 : β), l.foldl F (some m0) = some (l.foldl g m0) := by
  induction l with
  | nil => intro m0; rfl
  | cons e rest ih =>
    intro m0
    simp only [List.foldl_cons]
    rw [hF]
    exact ih _

theorem foldl_congr' {α β} (F G : β → α → β) (h : ∀ m e, F m e = G m e) (l : List α) (m0 : β) :
    l.foldl F m0 = l.foldl G m0 := by
  have : F = G := funext fun m => funext fun e => h m e
  rw [this]

theorem merge_eq (ps other : PolicySet) (rd : Bool) :
    ps.merge other rd =
      if !rd && !(mergeRenaming ps other).isEmpty then { ps := ps, err := some .occupied }
      else { ps := mergeCore ps other (mergeRenaming ps other), rename := mergeRenaming ps other } := by
  unfold merge
  simp only
  rw [foldl_opt_some (LHM.insStep (renamed (mergeRenaming ps other)) (fun k p _ => pren (mergeRenaming ps other) k p))]
  · by_cases hc : (!rd && !(mergeRenaming ps other).isEmpty) = true
    · simp only [hc, if_true]
    · simp only [hc, if_false]
      unfold mergeCore
      rw [foldl_congr' _ (LHM.insStep (renamed (mergeRenaming ps other)) (fun k t _ => tren (mergeRenaming ps other) k t)) ?_ other.templates,
          foldl_congr' _ (LHM.insStep (renamed (mergeRenaming ps other)) (fun _ s cur => mren (mergeRenaming ps other) s cur)) ?_ other.t2l]
      · intro m e; rfl
      · intro m e
        unfold LHM.insStep renamed tren
        cases hg : LHM.get? (mergeRenaming ps other) e.1 <;> simp only [hg]
  · intro acc e
    cases acc with
    | none => rfl
    | some m => simp only [mergeLink_eq]; rfl

end PolicySet

end Cedar
