import CedarVerif.Lemmas.SyntaxLex
import CedarVerif.Lemmas.SyntaxSplitOn
import CedarVerif.Lemmas.SyntaxName
import CedarVerif.Lemmas.SyntaxFull
import CedarVerif.Lemmas.SyntaxPolicy
import CedarVerif.Lemmas.SyntaxPolicySound
/-
The printers only emit lexer-producible tokens (`TokOK`), C05:
* `rawOK_escapeStr` / `rawOK_escapePattern`: whatever the `escape_debug` tables say, the escaped text matches the `STRINGLIT`
  body regex `(\\.|[^"\\])*` — `escapeChar` escapes `"` and `\` unconditionally (they are hard-wired arms of
  `char::escape_debug_ext`, not table lookups), every escape it emits is `\` + a non-newline character, and the `\u{…}`
  payload is lower-case hex;
* `printE_tokOK`: on `inFrag3` (= `ParserImage`) every token of `printE` is `TokOK`;
* `printPolicy_tokOK`: same for `printPolicy` on the policy image, provided the annotation keys are identifier-shaped
  (`annKeysOK`; in Rust they are `AnyId`s — the model's `TemplateBody` keeps them as `String`s, so this is an invariant of
  the data that `PolicyImage` does not contain); `parsePolicy_annKeysOK`: the model parser establishes it on `TokWF` tokens.
-/
namespace Cedar.Syntax
open Cedar

/-! ### escaped text is a `STRINGLIT` body -/

/-- neither `"` nor `\` -/
def plainC (c : Char) : Bool := c != '"' && c != '\\'

theorem rawOK_plain_cons {c : Char} (h : plainC c = true) (b : List Char) : rawOK (c :: b) = rawOK b := by
  simp only [plainC, Bool.and_eq_true, bne_iff_ne, ne_eq] at h
  conv => lhs; unfold rawOK
  simp only [h.1, h.2, if_false]

theorem rawOK_plain_append : ∀ (a b : List Char), (∀ x ∈ a, plainC x = true) → rawOK (a ++ b) = rawOK b
  | [], _, _ => rfl
  | c :: a, b, h => by
    rw [List.cons_append, rawOK_plain_cons (h c (by simp)), rawOK_plain_append a b (fun x hx => h x (by simp [hx]))]

theorem rawOK_esc2 {d : Char} (hd : d ≠ '\n') (b : List Char) : rawOK ('\\' :: d :: b) = rawOK b := by
  conv => lhs; unfold rawOK
  simp [hd]

theorem hexDigitChar_plain : ∀ k, k < 16 → plainC (hexDigitChar k) = true := by decide +kernel

theorem hexDigits_plain : ∀ f n, ∀ x ∈ hexDigits f n, plainC x = true
  | 0, _, x, hx => by simp [hexDigits] at hx
  | f + 1, n, x, hx => by
    simp only [hexDigits] at hx
    split at hx
    · simp only [List.mem_singleton] at hx; subst hx; exact hexDigitChar_plain n (by assumption)
    · simp only [List.mem_append, List.mem_singleton] at hx
      rcases hx with hx | hx
      · exact hexDigits_plain f _ x hx
      · subst hx; exact hexDigitChar_plain _ (Nat.mod_lt _ (by decide +kernel))

/-- one escaped character is transparent for the `STRINGLIT` body test, whatever the table says -/
theorem rawOK_escapeChar (esc : Bool) (c : Char) (b : List Char) : rawOK (escapeChar esc c ++ b) = rawOK b := by
  unfold escapeChar
  split
  · exact rawOK_esc2 (by decide +kernel) b
  split
  · exact rawOK_esc2 (by decide +kernel) b
  split
  · exact rawOK_esc2 (by decide +kernel) b
  split
  · exact rawOK_esc2 (by decide +kernel) b
  split
  · exact rawOK_esc2 (by decide +kernel) b
  split
  · exact rawOK_esc2 (by decide +kernel) b
  split
  · exact rawOK_esc2 (by decide +kernel) b
  split
  · show rawOK ('\\' :: 'u' :: ('{' :: (hexDigits 6 c.toNat ++ ['}']) ++ b)) = rawOK b
    rw [rawOK_esc2 (by decide +kernel)]
    rw [rawOK_plain_append]
    intro x hx
    simp only [List.mem_cons, List.mem_append, List.not_mem_nil, or_false] at hx
    rcases hx with hx | hx | hx
    · subst hx; decide +kernel
    · exact hexDigits_plain _ _ x hx
    · subst hx; decide +kernel
  · rename_i h1 h2 _ _
    exact rawOK_plain_cons (by simp [plainC, h1, h2]) b

theorem rawOK_escapeStrAt (me : Nat → Char → Bool) : ∀ (s : List Char) (i : Nat), rawOK (escapeStrAt me i s) = true
  | [], _ => rfl
  | c :: cs, i => by rw [escapeStrAt, rawOK_escapeChar]; exact rawOK_escapeStrAt me cs (i + 1)

/-- **`escape_debug` output always lexes as one string body**: no side condition on the table is needed, because the arms for
`"` and `\` of `escapeChar` come before the table lookup (as in `char::escape_debug_ext`). -/
theorem rawOK_escapeStr (me : Char → Bool) (s : List Char) : rawOK (escapeStr me s) = true :=
  rawOK_escapeStrAt _ s 0

theorem rawOK_escapePattern (me : Char → Bool) : ∀ p : Pattern, rawOK (escapePattern me p) = true
  | [] => rfl
  | .star :: ps => by
    rw [escapePattern, rawOK_plain_cons (by decide +kernel)]; exact rawOK_escapePattern me ps
  | .char c :: ps => by
    rw [escapePattern]
    split
    · exact (rawOK_esc2 (by decide +kernel) _).trans (rawOK_escapePattern me ps)
    · rw [rawOK_escapeChar]; exact rawOK_escapePattern me ps

/-! ### the expression printer only emits lexer-producible tokens -/

def allOK (ts : List Token) : Bool := ts.all TokOK

theorem allOK_nil : allOK [] = true := rfl
theorem allOK_cons (t : Token) (ts : List Token) : allOK (t :: ts) = (TokOK t && allOK ts) := by simp [allOK]
theorem allOK_append (a b : List Token) : allOK (a ++ b) = (allOK a && allOK b) := by simp [allOK]
theorem allOK_mem {ts : List Token} (h : allOK ts = true) : ∀ t ∈ ts, TokOK t = true := by
  simpa [allOK] using h
theorem allOK_paren (b : Bool) (ts : List Token) : allOK (paren b ts) = allOK ts := by
  cases b <;> simp [paren, allOK_cons, allOK_append, allOK_nil, TokOK]

theorem tokOK_strTok (me : Char → Bool) (s : String) : TokOK (strTok me s) = true := rawOK_escapeStr me s.toList

theorem tokOK_keyTok (me : Char → Bool) (s : String) : TokOK (keyTok me s) = true := by
  unfold keyTok
  split
  · rename_i h
    simp only [isNormalizedIdent, Bool.and_eq_true] at h
    exact h.1.1
  · exact tokOK_strTok me s

theorem allOK_nameList : ∀ cs : List String, (cs.all (fun c => isIdentChars c.toList && unreservedIdent c)) = true →
    allOK (cs.flatMap (fun x => [Token.dcolon, Token.ident x])) = true
  | [], _ => rfl
  | c :: cs, h => by
    simp only [List.all_cons, Bool.and_eq_true] at h
    simp only [List.flatMap_cons, allOK_append, allOK_cons, allOK_nil, Bool.and_eq_true, Bool.and_true]
    exact ⟨⟨rfl, h.1.1⟩, allOK_nameList cs h.2⟩

/-- a valid type name is printed as identifier-shaped components separated by `::` -/
theorem allOK_nameTokens {ty : String} (h : typeNameOk ty = true) : allOK (nameTokens ty) = true := by
  simp only [typeNameOk, Bool.and_eq_true] at h
  have h1 := h.1
  unfold nameTokens
  generalize ty.splitOn "::" = l at h1
  cases l with
  | nil => rfl
  | cons c cs =>
    simp only [List.all_cons, Bool.and_eq_true] at h1
    simp only [allOK_cons, Bool.and_eq_true]
    exact ⟨h1.1.1, allOK_nameList cs h1.2⟩

theorem extName_ident {fn : String} (h : isExtFunction fn = true ∨ isExtMethod fn = true) : isIdentChars fn.toList = true := by
  simp only [isExtFunction, extFunctions, isExtMethod, extMethods, List.contains_cons, List.contains_nil, Bool.or_false,
    Bool.or_eq_true, beq_iff_eq] at h
  rcases h with (h | h | h | h | h) | (h | h | h | h | h | h | h | h | h | h | h | h | h | h | h | h | h | h) <;> subst h <;> decide +kernel

theorem tokOK_varName (v : Var) : TokOK (.ident (varName v)) = true := by cases v <;> decide +kernel
theorem tokOK_slotName (s : SlotId) : TokOK (.slot (slotName s)) = true := by cases s <;> decide +kernel
theorem tokOK_infixTok (op : BinaryOp) : TokOK (infixTok op) = true := by cases op <;> decide +kernel
theorem tokOK_methodName (op : BinaryOp) (h : op = .contains ∨ op = .containsAll ∨ op = .containsAny ∨ op = .getTag ∨ op = .hasTag) :
    TokOK (.ident (methodName op)) = true := by
  rcases h with h | h | h | h | h <;> subst h <;> decide +kernel
theorem tokOK_boolName (b : Bool) : TokOK (.ident (if b then "true" else "false")) = true := by cases b <;> decide +kernel

theorem tokOK_kw_if : TokOK (.ident "if") = true := by decide +kernel
theorem tokOK_kw_then : TokOK (.ident "then") = true := by decide +kernel
theorem tokOK_kw_else : TokOK (.ident "else") = true := by decide +kernel
theorem tokOK_kw_in : TokOK (.ident "in") = true := by decide +kernel
theorem tokOK_kw_is : TokOK (.ident "is") = true := by decide +kernel
theorem tokOK_kw_like : TokOK (.ident "like") = true := by decide +kernel
theorem tokOK_kw_has : TokOK (.ident "has") = true := by decide +kernel
theorem tokOK_kw_isEmpty : TokOK (.ident "isEmpty") = true := by decide +kernel
theorem tokOK_kw_unknown : TokOK (.ident "unknown") = true := by decide +kernel
theorem tokOK_kw_when : TokOK (.ident "when") = true := by decide +kernel
theorem tokOK_kw_action : TokOK (.ident "action") = true := by decide +kernel
theorem tokOK_kw_principal : TokOK (.ident "principal") = true := by decide +kernel
theorem tokOK_kw_resource : TokOK (.ident "resource") = true := by decide +kernel

/-- **every token of the expression printer is lexer-producible** on the parser image (`inFrag3`): bare identifiers are
keywords, variable / method / extension names, valid type-name components or attribute names that passed
`is_normalized_ident`; string tokens hold `escape_debug` output; slots are `?principal` / `?resource`. -/
theorem printE_allOK (me : Char → Bool) : ∀ k e, sz3 e ≤ k → inFrag3 e = true → allOK (printE me e) = true := by
  intro k
  induction k with
  | zero => intro e hk; have := sz3_pos e; omega
  | succ k ih =>
    intro e hk hf
    have LT : ∀ es : List Expr, (∀ a ∈ es, sz3 a ≤ k) → inFrag3L es = true → allOK (printEsTail me es) = true := by
      intro es
      induction es with
      | nil => intro _ _; rfl
      | cons a es ihl =>
        intro hsz hfl
        simp only [inFrag3L, Bool.and_eq_true] at hfl
        simp only [printEsTail, allOK_cons, allOK_append, Bool.and_eq_true]
        exact ⟨rfl, ih a (hsz a (by simp)) hfl.1, ihl (fun x hx => hsz x (by simp [hx])) hfl.2⟩
    have L : ∀ es : List Expr, (∀ a ∈ es, sz3 a ≤ k) → inFrag3L es = true → allOK (printEs me es) = true := by
      intro es hsz hfl
      cases es with
      | nil => rfl
      | cons a es =>
        simp only [inFrag3L, Bool.and_eq_true] at hfl
        simp only [printEs, allOK_append, Bool.and_eq_true]
        exact ⟨ih a (hsz a (by simp)) hfl.1, LT es (fun x hx => hsz x (by simp [hx])) hfl.2⟩
    have KT : ∀ kvs : List (String × Expr), (∀ kv ∈ kvs, sz3 kv.2 ≤ k) → inFrag3K kvs = true →
        allOK (printKVsTail me kvs) = true := by
      intro kvs
      induction kvs with
      | nil => intro _ _; rfl
      | cons kv kvs ihl =>
        obtain ⟨k', a⟩ := kv
        intro hsz hfl
        simp only [inFrag3K, Bool.and_eq_true] at hfl
        simp only [printKVsTail, allOK_cons, allOK_append, Bool.and_eq_true]
        exact ⟨rfl, tokOK_keyTok me k', rfl, ih a (hsz (k', a) (by simp)) hfl.1, ihl (fun x hx => hsz x (by simp [hx])) hfl.2⟩
    have K : ∀ kvs : List (String × Expr), (∀ kv ∈ kvs, sz3 kv.2 ≤ k) → inFrag3K kvs = true →
        allOK (printKVs me kvs) = true := by
      intro kvs hsz hfl
      cases kvs with
      | nil => rfl
      | cons kv kvs =>
        obtain ⟨k', a⟩ := kv
        simp only [inFrag3K, Bool.and_eq_true] at hfl
        simp only [printKVs, allOK_cons, allOK_append, Bool.and_eq_true]
        exact ⟨tokOK_keyTok me k', rfl, ih a (hsz (k', a) (by simp)) hfl.1, KT kvs (fun x hx => hsz x (by simp [hx])) hfl.2⟩
    cases e
    case lit p =>
      cases p with
      | bool b => simp only [printE, allOK_cons, allOK_nil, tokOK_boolName, Bool.and_true]
      | int i => simp only [printE]; split <;> rfl
      | string s => simp only [printE, allOK_cons, allOK_nil, tokOK_strTok, Bool.and_true]
      | entityUID u =>
        simp only [inFrag3] at hf
        simp only [printE, allOK_append, allOK_cons, allOK_nil, tokOK_strTok, allOK_nameTokens hf, Bool.and_true]
        rfl
    case var v => simp only [printE, allOK_cons, allOK_nil, tokOK_varName, Bool.and_true]
    case slot s => simp only [printE, allOK_cons, allOK_nil, tokOK_slotName, Bool.and_true]
    case unknown n ty => simp [inFrag3] at hf
    case ite c t e' =>
      simp only [inFrag3, Bool.and_eq_true] at hf
      simp only [sz3] at hk
      simp only [printE, allOK_cons, allOK_append, tokOK_kw_if, tokOK_kw_then, tokOK_kw_else, ih c (by omega) hf.1.1,
        ih t (by omega) hf.1.2, ih e' (by omega) hf.2, Bool.and_true]
    case and a b =>
      simp only [inFrag3, Bool.and_eq_true] at hf
      simp only [sz3] at hk
      simp only [printE, allOK_cons, allOK_append, allOK_paren, ih a (by omega) hf.1.1, ih b (by omega) hf.1.2, Bool.and_true]
      rfl
    case or a b =>
      simp only [inFrag3, Bool.and_eq_true] at hf
      simp only [sz3] at hk
      simp only [printE, allOK_cons, allOK_append, allOK_paren, ih a (by omega) hf.1.1, ih b (by omega) hf.1.2, Bool.and_true]
      rfl
    case unaryApp op a =>
      simp only [inFrag3] at hf
      simp only [sz3] at hk
      have iha := ih a (by omega) hf
      cases op <;>
        simp only [printE, allOK_cons, allOK_append, allOK_paren, allOK_nil, iha, tokOK_kw_isEmpty, Bool.and_true, Bool.true_and] <;> rfl
    case binaryApp op a b =>
      simp only [inFrag3, Bool.and_eq_true] at hf
      simp only [sz3] at hk
      have iha := ih a (by omega) hf.1
      have ihb := ih b (by omega) hf.2
      cases op <;>
        simp only [printE, allOK_cons, allOK_append, allOK_paren, allOK_nil, iha, ihb, tokOK_infixTok, Bool.and_true, Bool.true_and] <;>
        decide +kernel
    case call fn args =>
      simp only [inFrag3, Bool.and_eq_true, Bool.or_eq_true] at hf
      simp only [sz3] at hk
      have hargs := L args (fun a ha => by have := sz3L_mem ha; omega) hf.2
      have hid : TokOK (.ident fn) = true := extName_ident (by
        rcases hf.1 with h | h
        · exact Or.inl h
        · exact Or.inr h.1)
      by_cases hm : isExtMethod fn = true
      · cases args with
        | nil => simp [hm] at hf; exact absurd hm (by rw [(extFunction_facts hf.1 []).2.1]; simp)
        | cons r rest =>
          simp only [inFrag3L, Bool.and_eq_true] at hf
          simp only [sz3L] at hk
          have hr := ih r (by omega) hf.2.1
          have hrest := L rest (fun a ha => by have := sz3L_mem ha; omega) hf.2.2
          simp only [printE, hm, if_true, allOK_cons, allOK_append, allOK_paren, allOK_nil, hr, hrest, hid, Bool.and_true, Bool.true_and]
          rfl
      · have hfun : isExtFunction fn = true := by
          rcases hf.1 with h | h
          · exact h
          · exact absurd h.1 hm
        rw [printE_call_fun me fn args (by simpa using hm)]
        simp only [(extFunction_facts hfun args).2.2.1, allOK_cons, allOK_append, allOK_nil, hargs, hid, Bool.and_true, Bool.true_and]
        rfl
    case getAttr a x =>
      simp only [inFrag3] at hf
      simp only [sz3] at hk
      simp only [printE, allOK_append, allOK_paren, ih a (by omega) hf, Bool.true_and]
      split
      · rename_i h
        simp only [isNormalizedIdent, Bool.and_eq_true] at h
        simp only [allOK_cons, allOK_nil, Bool.and_true, Bool.and_eq_true]
        exact ⟨rfl, h.1.1⟩
      · simp only [allOK_cons, allOK_nil, tokOK_strTok, Bool.and_true]; rfl
    case hasAttr a x =>
      simp only [inFrag3] at hf
      simp only [sz3] at hk
      simp only [printE, allOK_append, allOK_cons, allOK_nil, allOK_paren, ih a (by omega) hf, tokOK_kw_has, tokOK_keyTok, Bool.and_true]
    case like a x =>
      simp only [inFrag3] at hf
      simp only [sz3] at hk
      simp only [printE, allOK_append, allOK_cons, allOK_nil, allOK_paren, ih a (by omega) hf, tokOK_kw_like, Bool.and_true, Bool.true_and]
      exact rawOK_escapePattern me x
    case is a x =>
      simp only [inFrag3, Bool.and_eq_true] at hf
      simp only [sz3] at hk
      simp only [printE, allOK_append, allOK_cons, allOK_paren, ih a (by omega) hf.1, tokOK_kw_is, allOK_nameTokens hf.2, Bool.and_true]
    case set es =>
      simp only [inFrag3] at hf
      simp only [sz3] at hk
      simp only [printE, allOK_cons, allOK_append, allOK_nil, L es (fun a ha => by have := sz3L_mem ha; omega) hf, Bool.and_true, Bool.true_and]
      rfl
    case record kvs =>
      simp only [inFrag3, Bool.and_eq_true] at hf
      simp only [sz3] at hk
      simp only [printE, allOK_cons, allOK_append, allOK_nil,
        K kvs (fun kv hkv => by have := sz3K_mem (k := kv.1) (a := kv.2) hkv; omega) hf.2, Bool.and_true, Bool.true_and]
      rfl

theorem printE_tokOK_frag (me : Char → Bool) (e : Expr) (h : inFrag3 e = true) : ∀ t ∈ printE me e, TokOK t = true :=
  allOK_mem (printE_allOK me (sz3 e) e (Nat.le_refl _) h)

/-! ### the policy printer -/

/-- annotation keys are identifier-shaped (Rust: `AnyId`; the model keeps them as `String`s) -/
def annKeysOK (as : List (String × String)) : Bool := as.all (fun kv => isIdentChars kv.1.toList)

theorem printAnnots_allOK (me : Char → Bool) : ∀ as, annKeysOK as = true → allOK (printAnnots me as) = true
  | [], _ => rfl
  | (k, v) :: as, h => by
    simp only [annKeysOK, List.all_cons, Bool.and_eq_true] at h
    simp only [printAnnots, allOK_cons, Bool.and_eq_true]
    exact ⟨rfl, h.1, rfl, tokOK_strTok me v, rfl, printAnnots_allOK me as h.2⟩

theorem refExpr_allOK (me : Char → Bool) (slot : SlotId) {r : EntityRef} (h : refOKW typeNameOk r = true) :
    allOK (printE me (refExpr slot r)) = true := by
  cases r with
  | euid u => exact printE_allOK me _ _ (Nat.le_refl _) (by simpa [refOKW, refExpr, inFrag3] using h)
  | slot => exact printE_allOK me _ _ (Nat.le_refl _) (by simp [refExpr, inFrag3])

theorem printScope_allOK (me : Char → Bool) (v : String) (hv : TokOK (.ident v) = true) (slot : SlotId) {c : ScopeC}
    (h : scopeOKW typeNameOk c = true) : allOK (printScope me v slot c) = true := by
  cases c <;> simp only [scopeOKW, Bool.and_eq_true] at h <;>
    simp only [printScope, allOK_cons, allOK_append, allOK_nil, hv, tokOK_kw_in, tokOK_kw_is, Bool.true_and, Bool.and_true]
  · exact refExpr_allOK me slot h
  · exact (Bool.and_eq_true _ _).mpr ⟨rfl, refExpr_allOK me slot h⟩
  · exact allOK_nameTokens h
  · simp only [allOK_nameTokens h.1, refExpr_allOK me slot h.2, Bool.and_true]

theorem uidList_frag : ∀ us : List EntityUID, (us.all (fun u => typeNameOk u.ty && isActionUid u)) = true →
    inFrag3L (us.map (fun u => .lit (.entityUID u))) = true
  | [], _ => rfl
  | u :: us, h => by
    simp only [List.all_cons, Bool.and_eq_true] at h
    simp only [List.map_cons, inFrag3L, inFrag3, Bool.and_eq_true]
    exact ⟨h.1.1, uidList_frag us h.2⟩

theorem printAction_allOK (me : Char → Bool) {c : ActionC} (h : actionOKW typeNameOk c = true) :
    allOK (printAction me c) = true := by
  cases c with
  | any => simp only [printAction, allOK_cons, allOK_nil, tokOK_kw_action, Bool.and_true]
  | eq u =>
    simp only [actionOKW, Bool.and_eq_true] at h
    simp only [printAction, allOK_cons, tokOK_kw_action, Bool.true_and]
    exact (Bool.and_eq_true _ _).mpr ⟨rfl, printE_allOK me _ _ (Nat.le_refl _) (by simpa [inFrag3] using h.1)⟩
  | mem us =>
    simp only [actionOKW] at h
    simp only [printAction, allOK_cons, tokOK_kw_action, tokOK_kw_in, Bool.true_and]
    exact printE_allOK me _ _ (Nat.le_refl _) (by simpa [uidSet, inFrag3] using uidList_frag us h)

theorem printCond_allOK (me : Char → Bool) {c : Option Expr} (h : condOKW inFrag3 c = true) : allOK (printCond me c) = true := by
  cases c with
  | none => rfl
  | some e =>
    simp only [condOKW, Bool.and_eq_true] at h
    simp only [printCond, allOK_cons, allOK_append, allOK_nil, tokOK_kw_when, printE_allOK me _ e (Nat.le_refl _) h.1,
      Bool.true_and, Bool.and_true]
    rfl

theorem tokOK_effectName (e : Effect) : TokOK (.ident (effectName e)) = true := by cases e <;> decide +kernel

/-- **every token of the policy printer is lexer-producible** on the policy image with identifier-shaped annotation keys -/
theorem printPolicy_allOK (me : Char → Bool) (b : TemplateBody) (h : policyOKW typeNameOk inFrag3 b = true)
    (hk : annKeysOK b.annotations = true) : allOK (printPolicy me b) = true := by
  simp only [policyOKW, Bool.and_eq_true] at h
  obtain ⟨⟨⟨⟨_, hp⟩, hac⟩, hr⟩, hc⟩ := h
  simp only [printPolicy, allOK_cons, allOK_append, printAnnots_allOK me _ hk, tokOK_effectName,
    printScope_allOK me "principal" tokOK_kw_principal .principal hp, printAction_allOK me hac,
    printScope_allOK me "resource" tokOK_kw_resource .resource hr, printCond_allOK me hc, Bool.true_and, Bool.and_true]
  rfl

/-! ### the parser only produces identifier-shaped annotation keys -/

theorem parseAnnots_keys : ∀ (f : Nat) (ts : List Token) (as : List (String × String)) (r : List Token), TokWF ts →
    parseAnnots f ts = some (as, r) → annKeysOK as = true := by
  intro f
  induction f with
  | zero => intro ts as r _ h; simp [parseAnnots] at h
  | succ f ih =>
    intro ts as r hwf h
    unfold parseAnnots at h
    split at h
    · cases h
    · split at h
      · split at h
        · rename_i hp hq
          cases ‹f + 1 = _›
          simp only [Option.some.injEq, Prod.mk.injEq] at h
          obtain ⟨rfl, _⟩ := h
          simp only [annKeysOK, List.all_cons, Bool.and_eq_true]
          exact ⟨hwf _ (by simp), ih _ _ _ hwf.tail.tail.tail.tail.tail hq⟩
        · cases h
      · cases h
    · split at h
      · rename_i hp
        cases ‹f + 1 = _›
        simp only [Option.some.injEq, Prod.mk.injEq] at h
        obtain ⟨rfl, _⟩ := h
        simp only [annKeysOK, List.all_cons, Bool.and_eq_true]
        exact ⟨hwf _ (by simp), ih _ _ _ hwf.tail.tail hp⟩
      · cases h
    · cases h
    · simp only [Option.some.injEq, Prod.mk.injEq] at h
      obtain ⟨rfl, _⟩ := h
      rfl

theorem parsePolicyF_annKeysOK (n : Nat) (id : String) (ts : List Token) (b : TemplateBody) (hwf : TokWF ts)
    (h : parsePolicyF n id ts = some b) : annKeysOK b.annotations = true := by
  unfold parsePolicyF at h
  split at h
  · cases h
  · rename_i annots ts1 han
    have hk := parseAnnots_keys _ _ _ _ hwf han
    split at h
    · cases h
    · rename_i hdup
      split at h
      · split at h
        · split at h
          · simp only [Option.some.injEq] at h
            subst h
            have hm := (foldr_insertAnn_ok (kvs := annots) (by simpa using hdup)).2
            simp only [annKeysOK, List.all_eq_true] at hk ⊢
            exact fun y hy => hk y ((hm y).mp hy)
          · cases h
        · cases h
      · cases h

end Cedar.Syntax
