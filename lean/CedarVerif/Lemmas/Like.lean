import CedarVerif.Cedar.Pattern
/-
Proof that the suffix-form mirror `wm` of `Pattern::wildcard_match`'s loop equals the declarative
matcher `M`, for all patterns and texts.
-/
namespace Cedar

-- lemmas about M
theorem M_star_nil (ps : Pattern) : M (.star :: ps) [] = M ps [] := by simp [M]
theorem M_star_cons (ps : Pattern) (c : Char) (cs : List Char) :
    M (.star :: ps) (c :: cs) = (M ps (c :: cs) || M (.star :: ps) cs) := by simp [M]
theorem M_char_cons (p c : Char) (ps : Pattern) (cs : List Char) :
    M (.char p :: ps) (c :: cs) = (p == c && M ps cs) := by simp [M]
theorem M_nil_cons (c : Char) (cs : List Char) : M [] (c :: cs) = false := by simp [M]
theorem M_char_nil (p : Char) (ps : Pattern) : M (.char p :: ps) [] = false := by simp [M]

theorem M_star_weaken (ps : Pattern) (cs : List Char) : M ps cs = true → M (.star :: ps) cs = true := by
  intro h
  cases cs with
  | nil => simpa [M_star_nil] using h
  | cons c cs => simp [M_star_cons, h]

theorem M_star_left (ps : Pattern) (xs cs : List Char) :
    M (.star :: ps) cs = true → M (.star :: ps) (xs ++ cs) = true := by
  intro h
  induction xs with
  | nil => simpa using h
  | cons x xs ih => simp [M_star_cons, ih]

theorem M_empty_text (pj : Pattern) : M pj [] = (skipStars pj).isEmpty := by
  induction pj with
  | nil => simp [M, skipStars]
  | cons e ps ih =>
    cases e with
    | star => simp [M_star_nil, skipStars, ih]
    | char p => simp [M_char_nil, skipStars]

/-- literal prefix -/
theorem M_lits (cs : List Char) (pj : Pattern) (ti : List Char) :
    M (cs.map PatElem.char ++ pj) (cs ++ ti) = M pj ti := by
  induction cs with
  | nil => simp
  | cons c cs ih => simp [M_char_cons, ih]

/-- number of chars required -/
def minLen : Pattern → Nat
  | [] => 0
  | .star :: ps => minLen ps
  | .char _ :: ps => minLen ps + 1

theorem M_minLen : ∀ (ps : Pattern) (cs : List Char), M ps cs = true → minLen ps ≤ cs.length
  | [], [], _ => by simp [minLen]
  | [], _ :: _, h => by simp [M] at h
  | .star :: ps, [], h => by
      rw [M_star_nil] at h; simpa [minLen] using M_minLen ps [] h
  | .star :: ps, c :: cs, h => by
      rw [M_star_cons] at h
      simp only [Bool.or_eq_true] at h
      cases h with
      | inl h => simpa [minLen] using M_minLen ps (c :: cs) h
      | inr h =>
        have := M_minLen (.star :: ps) cs h
        simp [minLen] at this ⊢; omega
  | .char _ :: _, [], h => by simp [M] at h
  | .char p :: ps, c :: cs, h => by
      rw [M_char_cons] at h
      simp only [Bool.and_eq_true] at h
      have := M_minLen ps cs h.2
      simp [minLen]; omega
termination_by ps cs => ps.length + cs.length

theorem minLen_append (a b : Pattern) : minLen (a ++ b) = minLen a + minLen b := by
  induction a with
  | nil => simp [minLen]
  | cons e a ih => cases e <;> simp [minLen, ih] <;> omega

theorem minLen_lits (cs : List Char) : minLen (cs.map PatElem.char) = cs.length := by
  induction cs with
  | nil => simp [minLen]
  | cons c cs ih => simp [minLen, ih]

theorem skipStars_nonempty_minLen (pj : Pattern) : (skipStars pj).isEmpty = false → 0 < minLen pj := by
  induction pj with
  | nil => simp [skipStars]
  | cons e ps ih =>
    cases e with
    | star => simpa [skipStars, minLen] using ih
    | char p => simp [minLen]

theorem M_star_split : ∀ (q : Pattern) (u : List Char), M (.star :: q) u = true →
    ∃ pre w, u = pre ++ w ∧ M q w = true := by
  intro q u
  induction u with
  | nil => intro h; exact ⟨[], [], rfl, by simpa [M_star_nil] using h⟩
  | cons c cs ih =>
    intro h
    rw [M_star_cons] at h
    simp only [Bool.or_eq_true] at h
    cases h with
    | inl h => exact ⟨[], c :: cs, rfl, h⟩
    | inr h =>
      obtain ⟨pre, w, hu, hw⟩ := ih h
      exact ⟨c :: pre, w, by simp [hu], hw⟩

theorem M_lits_split : ∀ (cs : List Char) (r : Pattern) (w : List Char),
    M (cs.map PatElem.char ++ r) w = true → ∃ w', w = cs ++ w' ∧ M r w' = true := by
  intro cs
  induction cs with
  | nil => intro r w h; exact ⟨w, rfl, by simpa using h⟩
  | cons c cs ih =>
    intro r w h
    cases w with
    | nil => simp [M_char_nil] at h
    | cons d w =>
      simp only [List.map_cons, List.cons_append, M_char_cons, Bool.and_eq_true, beq_iff_eq] at h
      obtain ⟨w', hw, hm⟩ := ih r w h.2
      exact ⟨w', by simp [h.1, hw], hm⟩

/-- greedy commit: once the literal segment matched at the leftmost position and a new star is seen. -/
theorem M_star_commit (cs : List Char) (pj' : Pattern) (ti : List Char) :
    M (.star :: (cs.map PatElem.char ++ .star :: pj')) (cs ++ ti) = M (.star :: pj') ti := by
  apply Bool.eq_iff_iff.mpr
  constructor
  · intro h
    obtain ⟨pre, w, hu, hw⟩ := M_star_split _ _ h
    obtain ⟨w', hw', hm⟩ := M_lits_split _ _ _ hw
    subst hw'
    have : (pre ++ cs) ++ w' = cs ++ ti := by simp [hu]
    rcases List.append_eq_append_iff.mp this with ⟨a', h1, h2⟩ | ⟨c', _, h2⟩
    · have hl := congrArg List.length h1
      simp at hl
      have : a' = [] := by
        apply List.eq_nil_of_length_eq_zero; omega
      subst this
      simp at h2; subst h2; exact hm
    · subst h2; exact M_star_left _ _ _ hm
  · intro h
    apply M_star_weaken
    rw [M_lits]; exact h

/-- Loop invariant. -/
def LInv (P : Pattern) (T : List Char) (ti : List Char) (pj : Pattern) : Option (Pattern × List Char) → Prop
  | none => M P T = M pj ti
  | some (ps, tt) => M P T = M (.star :: ps) tt ∧ ∃ cs : List Char, tt = cs ++ ti ∧ ps = cs.map PatElem.char ++ pj

def pot (ti : List Char) (pj : Pattern) : Option (Pattern × List Char) → Nat
  | none => ti.length * (pj.length + 1) + pj.length
  | some (ps, tt) => tt.length * (ps.length + 1) + pj.length

theorem exit_nil (P : Pattern) (T : List Char) (pj : Pattern) (st : Option (Pattern × List Char))
    (hinv : LInv P T [] pj st) : M P T = (skipStars pj).isEmpty := by
  cases st with
  | none => simp only [LInv] at hinv; rw [hinv, M_empty_text]
  | some s =>
    obtain ⟨ps, tt⟩ := s
    obtain ⟨hM, cs, htt, hps⟩ := hinv
    simp only [List.append_nil] at htt
    subst htt; subst hps
    rw [hM]
    by_cases hpj : (skipStars pj).isEmpty = true
    · rw [hpj]; apply M_star_weaken
      have := M_lits tt pj []
      simp only [List.append_nil] at this; rw [this, M_empty_text]; exact hpj
    · simp only [Bool.not_eq_true] at hpj
      rw [hpj]
      cases hm : M (.star :: (tt.map PatElem.char ++ pj)) tt with
      | false => rfl
      | true =>
        have h1 := M_minLen _ _ hm
        have h2 := skipStars_nonempty_minLen pj hpj
        simp only [minLen, minLen_append, minLen_lits] at h1
        omega

theorem back_step (P : Pattern) (T : List Char) (c : Char) (ti' : List Char) (pj ps : Pattern) (tt : List Char)
    (hinv : LInv P T (c :: ti') pj (some (ps, tt)))
    (hfail : M pj (c :: ti') = false) :
    ∃ d tt', tt = d :: tt' ∧ LInv P T tt' ps (some (ps, tt')) := by
  obtain ⟨hM, cs, htt, hps⟩ := hinv
  cases tt with
  | nil => simp at htt
  | cons d tt' =>
    refine ⟨d, tt', rfl, ?_, [], by simp, by simp⟩
    rw [hM, M_star_cons]
    have : M ps (d :: tt') = false := by
      rw [htt, hps, M_lits]; exact hfail
    simp [this]

theorem M_star_only (u : List Char) : M [.star] u = true := by
  induction u with
  | nil => simp [M]
  | cons c cs ih => simp [M_star_cons, ih]

theorem pot_star_some (a b x y : Nat) (h1 : a ≤ b) (h2 : x + 1 ≤ y) :
    a * (x + 1) + x < b * (y + 1) + x + 1 := by
  have : a * (x + 1) ≤ b * (y + 1) := Nat.mul_le_mul h1 (by omega)
  omega

theorem loopS_correct (P : Pattern) (T : List Char) :
    ∀ (f : Nat) (ti : List Char) (pj : Pattern) (st : Option (Pattern × List Char)),
      LInv P T ti pj st → pot ti pj st < f →
      match loopS f ti pj st with
      | none => M P T = false
      | some pj' => M P T = (skipStars pj').isEmpty := by
  intro f
  induction f with
  | zero => intro ti pj st _ hf; omega
  | succ f ih =>
    intro ti pj st hinv hf
    cases ti with
    | nil => simp only [loopS]; exact exit_nil P T pj st hinv
    | cons c ti' =>
      -- the generic step once we know `st` is not `some ([], _)`
      have step : (∀ tt, st ≠ some ([], tt)) →
          match (match pj with
            | .star :: pj' => loopS f (c :: ti') pj' (some (pj', c :: ti'))
            | .char p :: pj' =>
              if p == c then loopS f ti' pj' st
              else match (generalizing := false) st with
                | none => none
                | some (_, []) => none
                | some (ps, _ :: tt') => loopS f tt' ps (some (ps, tt'))
            | [] =>
              match (generalizing := false) st with
                | none => none
                | some (_, []) => none
                | some (ps, _ :: tt') => loopS f tt' ps (some (ps, tt'))) with
          | none => M P T = false
          | some pj' => M P T = (skipStars pj').isEmpty := by
        intro hne
        -- backtracking, shared by the two failing branches
        have back : M pj (c :: ti') = false →
            match (match (generalizing := false) st with
                | none => none
                | some (_, []) => none
                | some (ps, _ :: tt') => loopS f tt' ps (some (ps, tt'))) with
            | none => M P T = false
            | some pj' => M P T = (skipStars pj').isEmpty := by
          intro hfail
          cases st with
          | none => simp only [LInv] at hinv; simp only; rw [hinv, hfail]
          | some s =>
            obtain ⟨ps, tt⟩ := s
            obtain ⟨d, tt', htt, hinv'⟩ := back_step P T c ti' pj ps tt hinv hfail
            subst htt
            simp only
            apply ih tt' ps (some (ps, tt')) hinv'
            obtain ⟨_, cs, _, hps⟩ := hinv
            have hlen : pj.length ≤ ps.length := by rw [hps]; simp
            simp only [pot, List.length_cons] at hf ⊢
            have : (tt'.length + 1) * (ps.length + 1) = tt'.length * (ps.length + 1) + (ps.length + 1) := by
              rw [Nat.add_mul]; simp
            omega
        cases pj with
        | nil => exact back (by simp [M])
        | cons e pj' =>
          cases e with
          | star =>
            simp only
            apply ih
            · -- invariant
              cases st with
              | none =>
                simp only [LInv] at hinv
                exact ⟨hinv, [], by simp, by simp⟩
              | some s =>
                obtain ⟨ps, tt⟩ := s
                obtain ⟨hM, cs, htt, hps⟩ := hinv
                refine ⟨?_, [], by simp, by simp⟩
                rw [hM, htt, hps, M_star_commit]
            · cases st with
              | none =>
                simp only [pot, List.length_cons] at hf ⊢
                have : (ti'.length + 1) * (pj'.length + 1 + 1) = (ti'.length + 1) * (pj'.length + 1) + (ti'.length + 1) := by
                  rw [Nat.mul_add]; simp
                omega
              | some s =>
                obtain ⟨ps, tt⟩ := s
                obtain ⟨_, cs, htt, hps⟩ := hinv
                simp only [pot, List.length_cons] at hf ⊢
                have h1 : ti'.length + 1 ≤ tt.length := by rw [htt]; simp
                have h2 : pj'.length + 1 ≤ ps.length := by rw [hps]; simp
                have := pot_star_some _ _ _ _ h1 h2
                omega
          | char p =>
            simp only
            by_cases hpc : (p == c) = true
            · simp only [hpc, if_true]
              have hpc' : p = c := by simpa using hpc
              apply ih
              · cases st with
                | none =>
                  simp only [LInv] at hinv ⊢
                  rw [hinv, M_char_cons, hpc]; simp
                | some s =>
                  obtain ⟨ps, tt⟩ := s
                  obtain ⟨hM, cs, htt, hps⟩ := hinv
                  exact ⟨hM, cs ++ [c], by simp [htt], by simp [hps, hpc']⟩
              · cases st with
                | none =>
                  simp only [pot, List.length_cons] at hf ⊢
                  have : (ti'.length + 1) * (pj'.length + 1 + 1) =
                      ti'.length * (pj'.length + 1) + ti'.length + (pj'.length + 1 + 1) := by
                    rw [Nat.add_mul, Nat.mul_add]; simp
                  omega
                | some s =>
                  obtain ⟨ps, tt⟩ := s
                  simp only [pot, List.length_cons] at hf ⊢
                  omega
            · simp only [hpc]
              apply back
              rw [M_char_cons]; simp [hpc]
      -- now dispatch on st
      cases st with
      | none => simp only [loopS]; exact step (by intro tt h; cases h)
      | some s =>
        obtain ⟨ps, tt⟩ := s
        cases ps with
        | nil =>
          simp only [loopS]
          obtain ⟨hM, cs, _, hps⟩ := hinv
          have : pj = [] := by
            have := congrArg List.length hps
            simp at this
            exact List.eq_nil_of_length_eq_zero (by omega)
          subst this
          rw [hM]; simp [M_star_only, skipStars]
        | cons e ps' =>
          simp only [loopS]
          exact step (by intro tt h; cases h)

theorem wm_correct (P : Pattern) (T : List Char) : wm P T = M P T := by
  unfold wm
  have h := loopS_correct P T ((T.length + 1) * (P.length + 1) + 1) T P none (by simp [LInv])
    (by simp only [pot]
        have : (T.length + 1) * (P.length + 1) = T.length * (P.length + 1) + (P.length + 1) := by
          rw [Nat.add_mul]; simp
        omega)
  cases hl : loopS ((T.length + 1) * (P.length + 1) + 1) T P none with
  | none => rw [hl] at h; simp [h]
  | some pj => rw [hl] at h; simp [h]

#print axioms wm_correct

end Cedar
