import CedarVerif.Lemmas.PolicySetMap
import CedarVerif.Lemmas.PolicySetSubst
/-
C08 helper lemmas, part 3: the representation invariant `PolicySet.WF` of the core policy set and its
preservation by `add_static`, `add_template`, `link`, `unlink`, `remove_static`, `remove_template`.
-/
namespace Cedar
open LHM

/-- The representation invariant of `ast::PolicySet` (the comments on its three fields, made precise).
All clauses are stated through `get?` (map semantics); the `Nodup` clauses say the lists are maps. -/
structure PolicySet.WF (ps : PolicySet) : Prop where
  tNodup : ps.templates.keys.Nodup
  lNodup : ps.links.keys.Nodup
  mNodup : ps.t2l.keys.Nodup
  /-- entries are stored under their own id -/
  tKey : ∀ k t, ps.templates.get? k = some t → t.id = k
  lKey : ∀ k p, ps.links.get? k = some p → p.id = k
  /-- `template_to_links_map` has a key `t` iff `templates` has -/
  mKeys : ∀ k, (ps.t2l.get? k).isSome = (ps.templates.get? k).isSome
  /-- no link without its template: the template a link points to is stored, under its id -/
  lTemplate : ∀ k p, ps.links.get? k = some p → ps.templates.get? p.template.id = some p.template
  /-- `template_to_links_map[t]` is exactly the inverse image of `t` under `links` -/
  mExact : ∀ tid s, ps.t2l.get? tid = some s →
    ∀ id, id ∈ s ↔ ∃ p, ps.links.get? id = some p ∧ p.template.id = tid
  /-- an id is shared by `templates` and `links` only as the two halves of a static policy -/
  shared : ∀ k p, ps.links.get? k = some p → (ps.templates.get? k).isSome = true → p.link = none
  /-- a template-linked policy is never linked to the body of a static policy -/
  staticOne : ∀ k p, ps.links.get? k = some p → p.link ≠ none → ps.links.get? p.template.id = none
  /-- (values total map) every stored policy binds exactly its template's slots -/
  bound : ∀ k p, ps.links.get? k = some p → p.template.checkBinding p.values = true

theorem PolicySet.wf_empty : PolicySet.WF {} := by
  constructor <;> simp [LHM.keys]

theorem isSome_eq_false_iff {α} (o : Option α) : o.isSome = false ↔ o = none := by
  cases o <;> simp

theorem contains_false {α} (m : LHM α) (k : String) : m.contains k = false ↔ m.get? k = none := by
  rw [contains_eq, isSome_eq_false_iff]

theorem TPolicy.id_static (t : Template) (v : SlotVals) : (TPolicy.mk t none v).id = t.id := rfl
theorem TPolicy.id_link (t : Template) (l : String) (v : SlotVals) : (TPolicy.mk t (some l) v).id = l := rfl

theorem checkBinding_static (b : TemplateBody) : Template.checkBinding { body := b, slots := [] } {} = true := by
  simp [Template.checkBinding, SlotVals.keys]

/-! ### add_static -/

theorem PolicySet.addStatic_ok (ps : PolicySet) (b : TemplateBody)
    (h : (ps.addStatic b).err = none) :
    ps.templates.get? b.id = none ∧ ps.links.get? b.id = none ∧
    (ps.addStatic b).ps = { templates := ps.templates ++ [(b.id, { body := b, slots := [] })],
                            links := ps.links ++ [(b.id, { template := { body := b, slots := [] }, link := none, values := {} })],
                            t2l := ps.t2l.insert b.id [b.id] } := by
  unfold PolicySet.addStatic linkStaticPolicy at h ⊢
  simp only [Template.id] at h ⊢
  by_cases h1 : ps.templates.contains b.id = true
  · simp [h1] at h
  · by_cases h2 : ps.links.contains b.id = true
    · simp [h1, h2] at h
    · simp only [Bool.not_eq_true] at h1 h2
      simp only [h1, h2, Bool.false_eq_true, if_false]
      exact ⟨(contains_false _ _).mp h1, (contains_false _ _).mp h2, rfl⟩

theorem PolicySet.addStatic_wf (ps : PolicySet) (b : TemplateBody) (wf : ps.WF)
    (h : (ps.addStatic b).err = none) : (ps.addStatic b).ps.WF := by
  obtain ⟨ht, hl, heq⟩ := PolicySet.addStatic_ok ps b h
  rw [heq]
  have hm : ps.t2l.get? b.id = none := by
    have := wf.mKeys b.id
    rw [ht] at this
    simpa [isSome_eq_false_iff] using this
  constructor
  · exact nodup_snoc _ _ _ wf.tNodup ht
  · exact nodup_snoc _ _ _ wf.lNodup hl
  · exact nodup_insert _ _ _ wf.mNodup
  · intro k t
    simp only [get?_snoc_absent _ _ _ ht]
    by_cases hk : k = b.id
    · simp only [hk, if_true, Option.some.injEq]; intro e; subst e; rfl
    · simp only [hk, if_false]; exact wf.tKey k t
  · intro k p
    simp only [get?_snoc_absent _ _ _ hl]
    by_cases hk : k = b.id
    · simp only [hk, if_true, Option.some.injEq]; intro e; subst e; rfl
    · simp only [hk, if_false]; exact wf.lKey k p
  · intro k
    simp only [get?_snoc_absent _ _ _ ht, get?_insert]
    by_cases hk : k = b.id
    · simp [hk]
    · simp only [hk, if_false]; exact wf.mKeys k
  · intro k p
    simp only [get?_snoc_absent _ _ _ hl, get?_snoc_absent _ _ _ ht]
    by_cases hk : k = b.id
    · simp only [hk, if_true, Option.some.injEq]; intro e; subst e; simp [Template.id]
    · simp only [hk, if_false]
      intro hp
      have h1 := wf.lTemplate k p hp
      by_cases hk2 : p.template.id = b.id
      · rw [hk2, ht] at h1; cases h1
      · simp only [hk2, if_false]; exact h1
  · intro tid s
    simp only [get?_insert, get?_snoc_absent _ _ _ hl]
    by_cases hk : tid = b.id
    · simp only [hk, if_true, Option.some.injEq]
      intro e id; subst e
      simp only [List.mem_singleton]
      constructor
      · intro e; subst e; simp [Template.id]
      · rintro ⟨p, hp, hpt⟩
        by_cases hid : id = b.id
        · exact hid
        · simp only [hid, if_false] at hp
          have h1 := wf.lTemplate id p hp
          rw [hpt, ht] at h1; cases h1
    · simp only [hk, if_false]
      intro hs id
      rw [wf.mExact tid s hs id]
      constructor
      · rintro ⟨p, hp, hpt⟩
        have hid : id ≠ b.id := by intro e; rw [e, hl] at hp; cases hp
        exact ⟨p, by simp only [hid, if_false]; exact hp, hpt⟩
      · rintro ⟨p, hp, hpt⟩
        by_cases hid : id = b.id
        · simp only [hid, if_true, Option.some.injEq] at hp
          subst hp
          exact absurd hpt.symm (by simpa [Template.id] using hk)
        · simp only [hid, if_false] at hp
          exact ⟨p, hp, hpt⟩
  · intro k p
    simp only [get?_snoc_absent _ _ _ hl, get?_snoc_absent _ _ _ ht]
    by_cases hk : k = b.id
    · simp only [hk, if_true, Option.some.injEq]; intro e _; subst e; rfl
    · simp only [hk, if_false]; exact wf.shared k p
  · intro k p
    simp only [get?_snoc_absent _ _ _ hl]
    by_cases hk : k = b.id
    · simp only [hk, if_true, Option.some.injEq]; intro e hne; subst e; exact absurd rfl hne
    · simp only [hk, if_false]
      intro hp hne
      have h1 := wf.lTemplate k p hp
      by_cases hk2 : p.template.id = b.id
      · rw [hk2, ht] at h1; cases h1
      · simp only [hk2, if_false]; exact wf.staticOne k p hp hne
  · intro k p
    simp only [get?_snoc_absent _ _ _ hl]
    by_cases hk : k = b.id
    · simp only [hk, if_true, Option.some.injEq]; intro e; subst e; exact checkBinding_static b
    · simp only [hk, if_false]; exact wf.bound k p

/-! ### add_template -/

theorem PolicySet.addTemplate_ok (ps : PolicySet) (t : Template) (h : (ps.addTemplate t).err = none) :
    ps.templates.get? t.id = none ∧ ps.links.get? t.id = none ∧
    (ps.addTemplate t).ps = { ps with templates := ps.templates ++ [(t.id, t)], t2l := ps.t2l.insert t.id [] } := by
  unfold PolicySet.addTemplate at h ⊢
  by_cases h2 : ps.links.contains t.id = true
  · simp [h2] at h
  · by_cases h1 : ps.templates.contains t.id = true
    · simp [h1, h2] at h
    · simp only [Bool.not_eq_true] at h1 h2
      simp only [h1, h2, Bool.false_eq_true, if_false]
      exact ⟨(contains_false _ _).mp h1, (contains_false _ _).mp h2, by first | rfl | trivial⟩

theorem PolicySet.addTemplate_wf (ps : PolicySet) (t : Template) (wf : ps.WF)
    (h : (ps.addTemplate t).err = none) : (ps.addTemplate t).ps.WF := by
  obtain ⟨ht, hl, heq⟩ := PolicySet.addTemplate_ok ps t h
  rw [heq]
  constructor
  · exact nodup_snoc _ _ _ wf.tNodup ht
  · exact wf.lNodup
  · exact nodup_insert _ _ _ wf.mNodup
  · intro k t'
    simp only [get?_snoc_absent _ _ _ ht]
    by_cases hk : k = t.id
    · simp only [hk, if_true, Option.some.injEq]; intro e; subst e; rfl
    · simp only [hk, if_false]; exact wf.tKey k t'
  · exact wf.lKey
  · intro k
    simp only [get?_snoc_absent _ _ _ ht, get?_insert]
    by_cases hk : k = t.id
    · simp [hk]
    · simp only [hk, if_false]; exact wf.mKeys k
  · intro k p hp
    simp only [get?_snoc_absent _ _ _ ht]
    have h1 := wf.lTemplate k p hp
    by_cases hk2 : p.template.id = t.id
    · rw [hk2, ht] at h1; cases h1
    · simp only [hk2, if_false]; exact h1
  · intro tid s
    simp only [get?_insert]
    by_cases hk : tid = t.id
    · simp only [hk, if_true, Option.some.injEq]
      intro e id; subst e
      simp only [List.not_mem_nil, false_iff, not_exists, not_and]
      intro p hp hpt
      have h1 := wf.lTemplate id p hp
      rw [hpt, ht] at h1; cases h1
    · simp only [hk, if_false]; exact wf.mExact tid s
  · intro k p hp
    simp only [get?_snoc_absent _ _ _ ht]
    by_cases hk : k = t.id
    · rw [hk, hl] at hp; cases hp
    · simp only [hk, if_false]; exact wf.shared k p hp
  · exact wf.staticOne
  · exact wf.bound

/-! ### link -/

theorem PolicySet.link_ok (ps : PolicySet) (tid newId : String) (vals : SlotVals)
    (h : (ps.link tid newId vals).err = none) :
    ∃ t, ps.templates.get? tid = some t ∧ t.checkBinding vals = true ∧
      ps.links.get? newId = none ∧ ps.templates.get? newId = none ∧
      (ps.link tid newId vals).ps =
        { ps with links := ps.links ++ [(newId, { template := t, link := some newId, values := vals })],
                  t2l := if ps.t2l.contains tid then ps.t2l.modify tid (fun s => lhsInsert s newId)
                         else ps.t2l ++ [(tid, [newId])] } := by
  unfold PolicySet.link at h ⊢
  cases ht : ps.templates.get? tid with
  | none => simp [ht] at h
  | some t =>
    simp only [ht] at h ⊢
    unfold Template.link at h ⊢
    by_cases hb : t.checkBinding vals = true
    · simp only [hb, if_true] at h ⊢
      by_cases h2 : ps.links.contains newId = true
      · simp [h2] at h
      · by_cases h1 : ps.templates.contains newId = true
        · simp [h1, h2] at h
        · simp only [Bool.not_eq_true] at h1 h2
          simp only [h1, h2, Bool.false_eq_true, if_false]
          exact ⟨t, rfl, hb, (contains_false _ _).mp h2, (contains_false _ _).mp h1, rfl⟩
    · simp [hb] at h

/-- `link` preserves the invariant provided the template is not the body of a static policy
(the public API layer checks exactly this before calling the core `link`). -/
theorem PolicySet.link_wf (ps : PolicySet) (tid newId : String) (vals : SlotVals) (wf : ps.WF)
    (hns : ps.links.get? tid = none)
    (h : (ps.link tid newId vals).err = none) : (ps.link tid newId vals).ps.WF := by
  obtain ⟨t, ht, hb, hl, hnt, heq⟩ := PolicySet.link_ok ps tid newId vals h
  rw [heq]
  have htid : t.id = tid := wf.tKey tid t ht
  have hmc : ps.t2l.contains tid = true := by
    rw [contains_eq, wf.mKeys tid, ht]; rfl
  simp only [hmc, if_true]
  have hne : newId ≠ tid := by intro e; rw [e, ht] at hnt; cases hnt
  constructor
  · exact wf.tNodup
  · exact nodup_snoc _ _ _ wf.lNodup hl
  · exact nodup_modify ps.t2l tid (fun s => lhsInsert s newId) wf.mNodup
  · exact wf.tKey
  · intro k p
    simp only [get?_snoc_absent _ _ _ hl]
    by_cases hk : k = newId
    · simp only [hk, if_true, Option.some.injEq]; intro e; subst e; rfl
    · simp only [hk, if_false]; exact wf.lKey k p
  · intro k
    simp only [get?_modify]
    by_cases hk : k = tid
    · simp only [hk, if_true, Option.isSome_map]; exact wf.mKeys tid
    · simp only [hk, if_false]; exact wf.mKeys k
  · intro k p
    simp only [get?_snoc_absent _ _ _ hl]
    by_cases hk : k = newId
    · simp only [hk, if_true, Option.some.injEq]; intro e; subst e; simp only [htid]; exact ht
    · simp only [hk, if_false]; exact wf.lTemplate k p
  · intro tid' s
    simp only [get?_modify, get?_snoc_absent _ _ _ hl]
    by_cases hk : tid' = tid
    · subst hk
      simp only [if_true]
      cases hs : ps.t2l.get? tid' with
      | none => simp
      | some s0 =>
        simp only [Option.map_some, Option.some.injEq]
        intro e id; subst e
        rw [mem_lhsInsert, wf.mExact tid' s0 hs id]
        constructor
        · rintro (⟨p, hp, hpt⟩ | e)
          · have hid : id ≠ newId := by intro e; rw [e, hl] at hp; cases hp
            exact ⟨p, by simp only [hid, if_false]; exact hp, hpt⟩
          · subst e; exact ⟨{ template := t, link := some id, values := vals }, by simp, htid⟩
        · rintro ⟨p, hp, hpt⟩
          by_cases hid : id = newId
          · exact Or.inr hid
          · simp only [hid, if_false] at hp; exact Or.inl ⟨p, hp, hpt⟩
    · simp only [hk, if_false]
      intro hs id
      rw [wf.mExact tid' s hs id]
      constructor
      · rintro ⟨p, hp, hpt⟩
        have hid : id ≠ newId := by intro e; rw [e, hl] at hp; cases hp
        exact ⟨p, by simp only [hid, if_false]; exact hp, hpt⟩
      · rintro ⟨p, hp, hpt⟩
        by_cases hid : id = newId
        · simp only [hid, if_true, Option.some.injEq] at hp
          subst hp
          exact absurd (htid.symm.trans hpt).symm hk
        · simp only [hid, if_false] at hp; exact ⟨p, hp, hpt⟩
  · intro k p
    simp only [get?_snoc_absent _ _ _ hl]
    by_cases hk : k = newId
    · simp only [hk, if_true, Option.some.injEq]; intro e hs; subst e; rw [hnt] at hs; cases hs
    · simp only [hk, if_false]; exact wf.shared k p
  · intro k p
    simp only [get?_snoc_absent _ _ _ hl]
    by_cases hk : k = newId
    · simp only [hk, if_true, Option.some.injEq]; intro e _; subst e
      simp only [htid]
      have : ¬ tid = newId := fun e => hne e.symm
      simp only [this, if_false]; exact hns
    · simp only [hk, if_false]
      intro hp hn
      have h1 := wf.lTemplate k p hp
      by_cases hk2 : p.template.id = newId
      · rw [hk2, hnt] at h1; cases h1
      · simp only [hk2, if_false]; exact wf.staticOne k p hp hn
  · intro k p
    simp only [get?_snoc_absent _ _ _ hl]
    by_cases hk : k = newId
    · simp only [hk, if_true, Option.some.injEq]; intro e; subst e; exact hb
    · simp only [hk, if_false]; exact wf.bound k p

/-! ### unlink -/

theorem PolicySet.unlink_wf (ps : PolicySet) (id : String) (wf : ps.WF)
    (h : (ps.unlink id).err = none) : (ps.unlink id).ps.WF := by
  unfold PolicySet.unlink at h ⊢
  by_cases h1 : ps.templates.contains id = true
  · simp [h1] at h
  · simp only [Bool.not_eq_true] at h1
    simp only [h1, Bool.false_eq_true, if_false] at h ⊢
    have hnt : ps.templates.get? id = none := (contains_false _ _).mp h1
    cases hp : ps.links.get? id with
    | none => simp [hp] at h
    | some p =>
      simp only [hp] at h ⊢
      by_cases hm : ps.t2l.contains p.template.id = true
      · simp only [hm, if_true]
        have hpt := wf.lTemplate id p hp
        have hne : p.template.id ≠ id := by intro e; rw [e, hnt] at hpt; cases hpt
        constructor
        · exact wf.tNodup
        · exact nodup_erase _ _ wf.lNodup
        · exact nodup_modify ps.t2l p.template.id (fun s => lhsRemove s id) wf.mNodup
        · exact wf.tKey
        · intro k q
          simp only [get?_erase]
          by_cases hk : k = id
          · simp [hk]
          · simp only [hk, if_false]; exact wf.lKey k q
        · intro k
          simp only [get?_modify]
          by_cases hk : k = p.template.id
          · simp only [hk, if_true, Option.isSome_map]; exact wf.mKeys _
          · simp only [hk, if_false]; exact wf.mKeys k
        · intro k q
          simp only [get?_erase]
          by_cases hk : k = id
          · simp [hk]
          · simp only [hk, if_false]; exact wf.lTemplate k q
        · intro tid s
          simp only [get?_modify, get?_erase]
          by_cases hk : tid = p.template.id
          · subst hk
            simp only [if_true]
            cases hs : ps.t2l.get? p.template.id with
            | none => simp
            | some s0 =>
              simp only [Option.map_some, Option.some.injEq]
              intro e x; subst e
              rw [mem_lhsRemove, wf.mExact _ s0 hs x]
              constructor
              · rintro ⟨⟨q, hq, hqt⟩, hx⟩
                exact ⟨q, by simp only [hx, if_false]; exact hq, hqt⟩
              · rintro ⟨q, hq, hqt⟩
                by_cases hx : x = id
                · simp [hx] at hq
                · simp only [hx, if_false] at hq; exact ⟨⟨q, hq, hqt⟩, hx⟩
          · simp only [hk, if_false]
            intro hs x
            rw [wf.mExact tid s hs x]
            constructor
            · rintro ⟨q, hq, hqt⟩
              have hx : x ≠ id := by
                intro e; subst e; rw [hp] at hq; cases hq; exact hk hqt.symm
              exact ⟨q, by simp only [hx, if_false]; exact hq, hqt⟩
            · rintro ⟨q, hq, hqt⟩
              by_cases hx : x = id
              · simp [hx] at hq
              · simp only [hx, if_false] at hq; exact ⟨q, hq, hqt⟩
        · intro k q
          simp only [get?_erase]
          by_cases hk : k = id
          · simp [hk]
          · simp only [hk, if_false]; exact wf.shared k q
        · intro k q
          simp only [get?_erase]
          by_cases hk : k = id
          · simp [hk]
          · simp only [hk, if_false]
            intro hq hn
            by_cases hk2 : q.template.id = id
            · simp [hk2]
            · simp only [hk2, if_false]; exact wf.staticOne k q hq hn
        · intro k q
          simp only [get?_erase]
          by_cases hk : k = id
          · simp [hk]
          · simp only [hk, if_false]; exact wf.bound k q
      · simp [hm] at h

/-! ### remove_static -/

theorem PolicySet.removeStatic_wf (ps : PolicySet) (id : String) (wf : ps.WF)
    (h : (ps.removeStatic id).err = none) : (ps.removeStatic id).ps.WF := by
  unfold PolicySet.removeStatic at h ⊢
  cases hp : ps.links.get? id with
  | none => simp [hp] at h
  | some p =>
    simp only [hp] at h ⊢
    cases ht : ps.templates.get? id with
    | none => simp [ht] at h
    | some t =>
      simp only [ht]
      have hstat : p.link = none := wf.shared id p hp (by simp [ht])
      have hpid : p.template.id = id := by
        have := wf.lKey id p hp
        unfold TPolicy.id at this
        simpa [hstat] using this
      -- no other link points to the template `id`
      have hothers : ∀ k q, ps.links.get? k = some q → q.template.id = id → k = id := by
        intro k q hq hqt
        by_cases hn : q.link = none
        · have := wf.lKey k q hq
          unfold TPolicy.id at this
          simp only [hn] at this
          exact this.symm.trans hqt
        · have := wf.staticOne k q hq hn
          rw [hqt, hp] at this; cases this
      constructor
      · exact nodup_erase _ _ wf.tNodup
      · exact nodup_erase _ _ wf.lNodup
      · exact nodup_erase _ _ wf.mNodup
      · intro k t'
        simp only [get?_erase]
        by_cases hk : k = id
        · simp [hk]
        · simp only [hk, if_false]; exact wf.tKey k t'
      · intro k q
        simp only [get?_erase]
        by_cases hk : k = id
        · simp [hk]
        · simp only [hk, if_false]; exact wf.lKey k q
      · intro k
        simp only [get?_erase]
        by_cases hk : k = id
        · simp [hk]
        · simp only [hk, if_false]; exact wf.mKeys k
      · intro k q
        simp only [get?_erase]
        by_cases hk : k = id
        · simp [hk]
        · simp only [hk, if_false]
          intro hq
          have hne : q.template.id ≠ id := fun e => hk (hothers k q hq e)
          simp only [hne, if_false]; exact wf.lTemplate k q hq
      · intro tid s
        simp only [get?_erase]
        by_cases hk : tid = id
        · simp [hk]
        · simp only [hk, if_false]
          intro hs x
          rw [wf.mExact tid s hs x]
          constructor
          · rintro ⟨q, hq, hqt⟩
            have hx : x ≠ id := by
              intro e; subst e; rw [hp] at hq; cases hq; exact hk (hqt.symm.trans hpid)
            exact ⟨q, by simp only [hx, if_false]; exact hq, hqt⟩
          · rintro ⟨q, hq, hqt⟩
            by_cases hx : x = id
            · simp [hx] at hq
            · simp only [hx, if_false] at hq; exact ⟨q, hq, hqt⟩
      · intro k q
        simp only [get?_erase]
        by_cases hk : k = id
        · simp [hk]
        · simp only [hk, if_false]; exact wf.shared k q
      · intro k q
        simp only [get?_erase]
        by_cases hk : k = id
        · simp [hk]
        · simp only [hk, if_false]
          intro hq hn
          by_cases hk2 : q.template.id = id
          · simp [hk2]
          · simp only [hk2, if_false]; exact wf.staticOne k q hq hn
      · intro k q
        simp only [get?_erase]
        by_cases hk : k = id
        · simp [hk]
        · simp only [hk, if_false]; exact wf.bound k q

/-! ### remove_template -/

theorem PolicySet.removeTemplate_wf (ps : PolicySet) (id : String) (wf : ps.WF)
    (h : (ps.removeTemplate id).err = none) : (ps.removeTemplate id).ps.WF := by
  unfold PolicySet.removeTemplate at h ⊢
  by_cases h1 : ps.links.contains id = true
  · simp [h1] at h
  · simp only [Bool.not_eq_true] at h1
    simp only [h1, Bool.false_eq_true, if_false] at h ⊢
    have hnl : ps.links.get? id = none := (contains_false _ _).mp h1
    cases hs : ps.t2l.get? id with
    | none => simp [hs] at h
    | some s =>
      simp only [hs] at h ⊢
      by_cases hse : s.isEmpty = true
      · simp only [hse, Bool.not_true, Bool.false_eq_true, if_false] at h ⊢
        have hs0 : s = [] := List.isEmpty_iff.mp hse
        subst hs0
        cases ht : ps.templates.get? id with
        | none => simp [ht] at h
        | some t =>
          simp only [ht]
          have hnone : ∀ k q, ps.links.get? k = some q → q.template.id ≠ id := by
            intro k q hq hqt
            have := (wf.mExact id [] hs k).mpr ⟨q, hq, hqt⟩
            simp at this
          constructor
          · exact nodup_erase _ _ wf.tNodup
          · exact wf.lNodup
          · exact nodup_erase _ _ wf.mNodup
          · intro k t'
            simp only [get?_erase]
            by_cases hk : k = id
            · simp [hk]
            · simp only [hk, if_false]; exact wf.tKey k t'
          · exact wf.lKey
          · intro k
            simp only [get?_erase]
            by_cases hk : k = id
            · simp [hk]
            · simp only [hk, if_false]; exact wf.mKeys k
          · intro k q hq
            simp only [get?_erase, hnone k q hq, if_false]
            exact wf.lTemplate k q hq
          · intro tid s'
            simp only [get?_erase]
            by_cases hk : tid = id
            · simp [hk]
            · simp only [hk, if_false]; exact wf.mExact tid s'
          · intro k q hq
            simp only [get?_erase]
            by_cases hk : k = id
            · simp [hk]
            · simp only [hk, if_false]; exact wf.shared k q hq
          · exact wf.staticOne
          · exact wf.bound
      · simp [hse] at h

end Cedar
