import CedarVerif.Lemmas.PartialSubst4
import CedarVerif.Lemmas.PartialBridge
import CedarVerif.Lemmas.PartialFull
/-
C13: from the substitution form to the `reauthorize` form — on a concrete request and store, with a mapper that
defines every unknown, partial interpretation leaves no residual (`noRes2`), hence agrees with `evaluate ∘ substUnk`
(`bridge`) — and to the policy level.
-/
namespace Cedar
namespace PS

theorem noRes2 (σ : Mapper) (req : Request) (es : Entities) (env : SlotEnv) :
    ∀ (n : Nat) (e : Expr), Frag2 σ e → ∀ r, pinterp σ (.ofConcrete req) (.ofConcrete es) env n e ≠ .res r := by
  intro n
  induction n with
  | zero => intro e _ r; simp [pinterp]
  | succ n ih =>
  intro e hf
  cases hf with
  | lit p => intro r; simp [pinterp]
  | var v => intro r; cases v <;> simp [pinterp, PRequest.ofConcrete, UidEntry.eval]
  | slot s => intro r; simp only [pinterp]; split <;> simp
  | unknown name ty h =>
    intro r
    obtain ⟨v, hl, _, _⟩ := h
    simp only [pinterp, unknownToPV, hl]
    cases ty with
    | none => simp
    | some t => simp only; split <;> simp
  | @ite c t e hfc hft hfe =>
    intro r
    have h1 := ih c hfc; have h2 := ih t hft; have h3 := ih e hfe
    simp only [pinterp, bestEffort]
    repeat' split
    all_goals simp_all
  | @and a b hfa hfb =>
    intro r
    have h1 := ih a hfa; have h2 := ih b hfb
    simp only [pinterp, bestEffort]
    repeat' split
    all_goals simp_all
  | @or a b hfa hfb =>
    intro r
    have h1 := ih a hfa; have h2 := ih b hfb
    simp only [pinterp, bestEffort]
    repeat' split
    all_goals simp_all
  | @unaryApp op a hfa =>
    intro r
    have h1 := ih a hfa
    simp only [pinterp]
    split
    · cases applyUnary op _ <;> simp [PRes.ofResult]
    · simp_all
    · simp_all
  | @binaryApp op a b hfa hfb =>
    intro r
    have h1 := ih a hfa; have h2 := ih b hfb
    simp only [pinterp]
    split
    · split
      · rw [papplyBinary_ofConcrete]; cases applyBinary es op _ _ <;> simp [PRes.ofResult]
      · simp_all
      · simp_all
    · simp_all
    · simp_all
  | @getAttr e0 a hfe =>
    intro r
    have h1 := ih e0 hfe
    simp only [pinterp]
    split
    · simp_all
    · split <;> simp
    · rename_i u _
      rw [entity_ofConcrete]
      cases hf : es.find? u with
      | none => simp
      | some d => simp only [attrs_ofConcrete]; cases lookupKV d.attrs a <;> simp
    · simp
    · simp_all
  | @hasAttr e0 a hfe =>
    intro r
    have h1 := ih e0 hfe
    simp only [pinterp]
    split
    · simp
    · rename_i u _
      rw [entity_ofConcrete]
      cases hf : es.find? u <;> simp
    · simp
    · simp_all
    · simp_all
  | @like e0 p hfe =>
    intro r
    have h1 := ih e0 hfe
    simp only [pinterp]
    repeat' split
    all_goals simp_all
  | @is e0 ty hfe =>
    intro r
    have h1 := ih e0 hfe
    simp only [pinterp]
    repeat' split
    all_goals simp_all
  | @set xs hxs =>
    intro r
    have hc := collectPV_noRes (pinterp σ (.ofConcrete req) (.ofConcrete es) env n) xs (fun x hx r => ih x (hxs x hx) r)
    simp only [pinterp]
    cases hcc : collectPV (pinterp σ (.ofConcrete req) (.ofConcrete es) env n) xs with
    | error r' => rw [hcc] at hc; exact hc r
    | ok pvs =>
      rw [hcc] at hc
      obtain ⟨vs, hp⟩ := hc
      simp [hp, splitPV_values]
  | @call fn args hfn hxs =>
    intro r
    have hc := collectPV_noRes (pinterp σ (.ofConcrete req) (.ofConcrete es) env n) args (fun x hx r => ih x (hxs x hx) r)
    simp only [pinterp]
    cases hcc : collectPV (pinterp σ (.ofConcrete req) (.ofConcrete es) env n) args with
    | error r' => rw [hcc] at hc; exact hc r
    | ok pvs =>
      rw [hcc] at hc
      obtain ⟨vs, hp⟩ := hc
      simp only [hp, splitPV_values, pcallExt_ne_unknown hfn]
      cases callExt fn vs <;> simp [PRes.ofResult]
  | @record kvs hnd hkvs =>
    intro r
    have hc := collectPVKVs_noRes (pinterp σ (.ofConcrete req) (.ofConcrete es) env n) kvs (fun kv hkv r => ih kv.2 (hkvs kv hkv) r)
    simp only [pinterp]
    cases hcc : collectPVKVs (pinterp σ (.ofConcrete req) (.ofConcrete es) env n) kvs with
    | error r' => rw [hcc] at hc; exact hc r
    | ok pkvs =>
      rw [hcc] at hc
      obtain ⟨vs, hp⟩ := hc
      have h1 : pkvs.map (·.2) = (vs.map Prod.snd).map PartialValue.value := by
        rw [hp]; simp [List.map_map, Function.comp_def]
      simp only [h1, splitPV_values]
      simp

section
variable (σ : Mapper) (req : Request) (es : Entities) (env : SlotEnv)
  (hctx : (Value.record req.context).Canon) (hstore : StoreCanon es)

include hctx hstore in
/-- **bridge**: the second pass (`reauthorize`: same interpreter, mapper σ, concretised request) computes
    `evaluate ∘ substUnk σ` on the fragment -/
theorem bridge {r : Expr} (hf : Frag2 σ r) :
    ∀ n', Sem (pinterp σ (.ofConcrete req) (.ofConcrete es) env n' r) (Y σ req es env r) := by
  intro n'
  have h := pinterp_sound2 σ req es env hctx hstore σ (.ofConcrete req) (MapLE.refl σ) (concretizes_ofConcrete σ req) n' r hf
  have h3 := noRes2 σ req es env n' r hf
  cases hx : pinterp σ (.ofConcrete req) (.ofConcrete es) env n' r with
  | val v => rw [hx] at h; rw [h.1]; simp
  | err c => rw [hx] at h; obtain ⟨c', hc'⟩ := h; rw [hc']; simp
  | res r' => exact (h3 r' hx).elim
  | fuel => simp
  | panic => simp

theorem sem_of_agree {x : PRes} {a y : Result Value} (h1 : Sem x a) (h2 : Agree a y) : Sem x y := by
  rcases h2 with ⟨v, rfl, rfl⟩ | ⟨c, c', rfl, rfl⟩
  · exact h1
  · rcases h1 with h | h | ⟨v, h, hy⟩ | ⟨c1, c2, h, hy⟩
    · exact Or.inl h
    · exact Or.inr (Or.inl h)
    · cases hy
    · exact Or.inr (Or.inr (Or.inr ⟨c1, c', h, rfl⟩))

end

section
variable (σ : Mapper) (req : Request) (es : Entities)

theorem policyAgrees_of_frag2 (hctx : (Value.record req.context).Canon) (hstore : StoreCanon es)
    (preq : PRequest) (hC : Concretizes σ preq req) (p : Policy) (henv : p.env = []) (hf : Frag2 σ p.condition)
    (hsub : p.condition.substUnk σ = p.condition)
    (hns2 : ∀ q, residualPolicy (partialEvaluate [] preq (.ofConcrete es) p) p = some q →
      partialEvaluate σ (.ofConcrete req) (.ofConcrete es) q ≠ .stuck)
    (hns1 : partialEvaluate [] preq (.ofConcrete es) p ≠ .stuck) :
    PolicyAgrees σ preq (.ofConcrete es) req es p := by
  have hS := pinterp_sound2 σ req es [] hctx hstore [] preq (MapLE.nil σ) hC defaultFuel p.condition hf
  have hY : Y σ req es [] p.condition = evaluate req es [] p.condition := by simp only [Y, hsub]
  rw [hY] at hS
  have hout : p.outcome req es = outcomeOf (evaluate req es [] p.condition) := by rw [outcome_eq, henv]
  have hpe : partialEvaluate [] preq (.ofConcrete es) p = classOf (pinterp [] preq (.ofConcrete es) [] defaultFuel p.condition) := by
    rw [partialEvaluate_eq, henv]
  have hlitT : ∀ n, Sem (pinterp σ (.ofConcrete req) (.ofConcrete es) [] n (.lit (.bool true))) (evaluate req es [] (.lit (.bool true))) := by
    intro n; simpa [evaluate] using sem_lit (.bool true) σ (.ofConcrete req) (.ofConcrete es) [] n
  have hlitF : ∀ n, Sem (pinterp σ (.ofConcrete req) (.ofConcrete es) [] n (.lit (.bool false))) (evaluate req es [] (.lit (.bool false))) := by
    intro n; simpa [evaluate] using sem_lit (.bool false) σ (.ofConcrete req) (.ofConcrete es) [] n
  have oT : outcomeOf (evaluate req es [] (.lit (.bool true))) = .sat := by simp [evaluate, outcomeOf, Value.asBool]
  have oF : outcomeOf (evaluate req es [] (.lit (.bool false))) = .unsat := by simp [evaluate, outcomeOf, Value.asBool]
  rw [hpe] at hns2 hns1
  unfold PolicyAgrees
  rw [hpe]
  cases hx : pinterp [] preq (.ofConcrete es) [] defaultFuel p.condition with
  | fuel => rw [hx] at hns1; exact (hns1 rfl).elim
  | panic => rw [hx] at hns1; exact (hns1 rfl).elim
  | err c =>
    rw [hx] at hS hns2
    obtain ⟨c', hc'⟩ := hS
    refine ⟨_, rfl, ?_⟩
    have h := agrees_wrap σ req es p.id p.effect hlitF (hns2 _ rfl)
    refine transfer ?_ h
    rw [hout, hc', oF]; simp [outcomeOf]
  | res r =>
    rw [hx] at hS hns2
    refine ⟨_, rfl, ?_⟩
    have hsem : ∀ n, Sem (pinterp σ (.ofConcrete req) (.ofConcrete es) [] n r) (evaluate req es [] p.condition) :=
      fun n => sem_of_agree (bridge σ req es [] hctx hstore hS.2.2 n) hS.1
    have h := agrees_wrap σ req es p.id p.effect hsem (hns2 _ rfl)
    rw [hout]; exact h
  | val v =>
    rw [hx] at hS hns2
    obtain ⟨hev, _⟩ := hS
    simp only [classOf] at hns2 ⊢
    cases hb : v.asBool with
    | error c =>
      rw [hb] at hns2
      refine ⟨_, rfl, ?_⟩
      have h := agrees_wrap σ req es p.id p.effect hlitF (hns2 _ rfl)
      refine transfer ?_ h
      rw [hout, hev, oF]; simp [outcomeOf, hb]
    | ok b =>
      cases b with
      | true =>
        rw [hb] at hns2
        refine ⟨_, rfl, ?_⟩
        have h := agrees_wrap σ req es p.id p.effect hlitT (hns2 _ rfl)
        refine transfer ?_ h
        rw [hout, hev, oT]; simp [outcomeOf, hb]
      | false =>
        rw [hb] at hns2
        refine ⟨_, rfl, ?_⟩
        have h := agrees_wrap σ req es p.id p.effect hlitF (hns2 _ rfl)
        refine transfer ?_ h
        rw [hout, hev, oF]; simp [outcomeOf, hb]

end

mutual
/-- an expression without unknown nodes (policy text as the parser produces it) is not changed by `substUnk` -/
theorem substUnk_of_noUnk (σ : Mapper) : ∀ e : Expr, e.unknowns = [] → e.substUnk σ = e
  | .lit _, _ => by simp [Expr.substUnk]
  | .var _, _ => by simp [Expr.substUnk]
  | .slot _, _ => by simp [Expr.substUnk]
  | .unknown _ _, h => by simp [Expr.unknowns] at h
  | .ite c t e, h => by
    simp only [Expr.unknowns, List.append_eq_nil_iff] at h
    simp [Expr.substUnk, substUnk_of_noUnk σ c h.1.1, substUnk_of_noUnk σ t h.1.2, substUnk_of_noUnk σ e h.2]
  | .and a b, h => by
    simp only [Expr.unknowns, List.append_eq_nil_iff] at h
    simp [Expr.substUnk, substUnk_of_noUnk σ a h.1, substUnk_of_noUnk σ b h.2]
  | .or a b, h => by
    simp only [Expr.unknowns, List.append_eq_nil_iff] at h
    simp [Expr.substUnk, substUnk_of_noUnk σ a h.1, substUnk_of_noUnk σ b h.2]
  | .unaryApp _ a, h => by simp only [Expr.unknowns] at h; simp [Expr.substUnk, substUnk_of_noUnk σ a h]
  | .binaryApp _ a b, h => by
    simp only [Expr.unknowns, List.append_eq_nil_iff] at h
    simp [Expr.substUnk, substUnk_of_noUnk σ a h.1, substUnk_of_noUnk σ b h.2]
  | .call _ args, h => by simp only [Expr.unknowns] at h; simp [Expr.substUnk, substUnkList_of_noUnk σ args h]
  | .getAttr e _, h => by simp only [Expr.unknowns] at h; simp [Expr.substUnk, substUnk_of_noUnk σ e h]
  | .hasAttr e _, h => by simp only [Expr.unknowns] at h; simp [Expr.substUnk, substUnk_of_noUnk σ e h]
  | .like e _, h => by simp only [Expr.unknowns] at h; simp [Expr.substUnk, substUnk_of_noUnk σ e h]
  | .is e _, h => by simp only [Expr.unknowns] at h; simp [Expr.substUnk, substUnk_of_noUnk σ e h]
  | .set xs, h => by simp only [Expr.unknowns] at h; simp [Expr.substUnk, substUnkList_of_noUnk σ xs h]
  | .record kvs, h => by simp only [Expr.unknowns] at h; simp [Expr.substUnk, substUnkKVs_of_noUnk σ kvs h]
theorem substUnkList_of_noUnk (σ : Mapper) : ∀ xs : List Expr, Expr.unknownsList xs = [] → Expr.substUnkList σ xs = xs
  | [], _ => rfl
  | x :: xs, h => by
    simp only [Expr.unknownsList, List.append_eq_nil_iff] at h
    simp [Expr.substUnkList, substUnk_of_noUnk σ x h.1, substUnkList_of_noUnk σ xs h.2]
theorem substUnkKVs_of_noUnk (σ : Mapper) : ∀ kvs : List (String × Expr), Expr.unknownsKVs kvs = [] →
    Expr.substUnkKVs σ kvs = kvs
  | [], _ => rfl
  | (k, x) :: kvs, h => by
    simp only [Expr.unknownsKVs, List.append_eq_nil_iff] at h
    simp [Expr.substUnkKVs, substUnk_of_noUnk σ x h.1, substUnkKVs_of_noUnk σ kvs h.2]
end

end PS
end Cedar
