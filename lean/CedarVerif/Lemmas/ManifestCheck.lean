import CedarVerif.Lemmas.ManifestEval
/-
C17 helper lemmas, part 5: executable checkers for the slice specification (`SubStore`, `CoverRoots`) with their soundness
proofs.  They discharge the hypotheses of the soundness theorem on concrete inputs (the examples of Thm/C17.lean) and are
run by the driver op `mspec` on every slice the correspondence run produces (the unproved half — the slicer meets its
specification — is thereby checked on every sampled input).
-/
namespace Cedar.Manifest
open Cedar

-- syntactic equality of values
mutual
def veq : Value → Value → Bool
  | .prim a, .prim b => a == b
  | .ext a, .ext b => a == b
  | .set as, .set bs => veqList as bs
  | .record as, .record bs => veqKVs as bs
  | _, _ => false
def veqList : List Value → List Value → Bool
  | [], [] => true
  | a :: as, b :: bs => veq a b && veqList as bs
  | _, _ => false
def veqKVs : List (String × Value) → List (String × Value) → Bool
  | [], [] => true
  | (k, a) :: as, (k', b) :: bs => k == k' && veq a b && veqKVs as bs
  | _, _ => false
end

mutual
theorem veq_sound : ∀ (a b : Value), veq a b = true → a = b
  | .prim a, .prim b, h => by simp only [veq, beq_iff_eq] at h; rw [h]
  | .ext a, .ext b, h => by simp only [veq, beq_iff_eq] at h; rw [h]
  | .set as, .set bs, h => by simp only [veq] at h; rw [veqList_sound as bs h]
  | .record as, .record bs, h => by simp only [veq] at h; rw [veqKVs_sound as bs h]
  | .prim _, .ext _, h => by simp [veq] at h
  | .prim _, .set _, h => by simp [veq] at h
  | .prim _, .record _, h => by simp [veq] at h
  | .ext _, .prim _, h => by simp [veq] at h
  | .ext _, .set _, h => by simp [veq] at h
  | .ext _, .record _, h => by simp [veq] at h
  | .set _, .prim _, h => by simp [veq] at h
  | .set _, .ext _, h => by simp [veq] at h
  | .set _, .record _, h => by simp [veq] at h
  | .record _, .prim _, h => by simp [veq] at h
  | .record _, .ext _, h => by simp [veq] at h
  | .record _, .set _, h => by simp [veq] at h
theorem veqList_sound : ∀ (as bs : List Value), veqList as bs = true → as = bs
  | [], [], _ => rfl
  | a :: as, b :: bs, h => by
    simp only [veqList, Bool.and_eq_true] at h
    rw [veq_sound a b h.1, veqList_sound as bs h.2]
  | [], _ :: _, h => by simp [veqList] at h
  | _ :: _, [], h => by simp [veqList] at h
theorem veqKVs_sound : ∀ (as bs : List (String × Value)), veqKVs as bs = true → as = bs
  | [], [], _ => rfl
  | (k, a) :: as, (k', b) :: bs, h => by
    simp only [veqKVs, Bool.and_eq_true, beq_iff_eq] at h
    rw [h.1.1, veq_sound a b h.1.2, veqKVs_sound as bs h.2]
  | [], _ :: _, h => by simp [veqKVs] at h
  | _ :: _, [], h => by simp [veqKVs] at h
end

mutual
def trimB : Value → Value → Bool
  | .record kvs', v =>
    match v with
    | .record kvs => trimKVsB kvs' kvs
    | _ => false
  | .prim p, v => veq (.prim p) v
  | .set s, v => veq (.set s) v
  | .ext x, v => veq (.ext x) v
def trimKVsB : List (String × Value) → List (String × Value) → Bool
  | [], _ => true
  | (k, v') :: rest, kvs =>
    (match lookupKV kvs k with
     | some v => trimB v' v
     | none => false) && trimKVsB rest kvs
end

mutual
theorem trimB_sound : ∀ (v' v : Value), trimB v' v = true → Trim v' v
  | .record kvs', v, h => by
    cases v with
    | record kvs =>
      simp only [trimB] at h
      simp only [Trim]
      exact ⟨kvs, rfl, trimKVsB_sound kvs' kvs h⟩
    | prim p => simp [trimB] at h
    | set s => simp [trimB] at h
    | ext x => simp [trimB] at h
  | .prim p, v, h => by simp only [trimB] at h; simp only [Trim]; exact (veq_sound _ _ h).symm
  | .set s, v, h => by simp only [trimB] at h; simp only [Trim]; exact (veq_sound _ _ h).symm
  | .ext x, v, h => by simp only [trimB] at h; simp only [Trim]; exact (veq_sound _ _ h).symm
theorem trimKVsB_sound : ∀ (kvs' kvs : List (String × Value)), trimKVsB kvs' kvs = true → TrimKVs kvs' kvs
  | [], _, _ => by simp [TrimKVs]
  | (k, v') :: rest, kvs, h => by
    simp only [trimKVsB, Bool.and_eq_true] at h
    simp only [TrimKVs]
    refine ⟨?_, trimKVsB_sound rest kvs h.2⟩
    cases hl : lookupKV kvs k with
    | none => simp [hl] at h
    | some v =>
      simp only [hl] at h
      exact ⟨v, rfl, trimB_sound v' v h.1⟩
end

def subStoreB (es es' : Entities) : Bool :=
  es'.all (fun (u, d') =>
    match es.find? u with
    | some d => trimKVsB d'.attrs d.attrs && d'.ancestors.all (fun a => d.ancestors.contains a)
    | none => false)

theorem find?_mem : ∀ (es : Entities) (u : EntityUID) (d : EntityData), es.find? u = some d → (u, d) ∈ es
  | [], _, _, h => by simp [Entities.find?] at h
  | (u0, d0) :: rest, u, d, h => by
    simp only [Entities.find?] at h
    by_cases e : (u0 == u) = true
    · simp only [e, if_true, Option.some.injEq] at h
      have : u0 = u := by simpa using e
      subst this; subst h; simp
    · simp only [e, Bool.false_eq_true, if_false] at h
      simp [find?_mem rest u d h]

theorem subStoreB_sound (es es' : Entities) (h : subStoreB es es' = true) : SubStore es es' := by
  intro u d' hf
  have hm := find?_mem es' u d' hf
  simp only [subStoreB, List.all_eq_true] at h
  have := h (u, d') hm
  simp only at this
  cases hd : es.find? u with
  | none => simp [hd] at this
  | some d =>
    simp only [hd, Bool.and_eq_true, List.all_eq_true] at this
    refine ⟨d, rfl, trimKVsB_sound _ _ this.1, ?_⟩
    intro a ha
    have := this.2 a ha
    simpa using this

mutual
def coverVB (es es' : Entities) (req : Request) : AccessTrie → Value → Value → Bool
  | .mk c a _ _, v, v' =>
    match v with
    | .prim (.entityUID u) =>
      veq v' (.prim (.entityUID u)) &&
        (match es.find? u with
         | none => true
         | some d =>
           match es'.find? u with
           | none => false
           | some d' =>
             coverFB es es' req c d.attrs d'.attrs &&
               (ancRequest es' req a).all (fun x => !d.ancestors.contains x || d'.ancestors.contains x))
    | .record kvs =>
      match v' with
      | .record kvs' => coverFB es es' req c kvs kvs'
      | _ => false
    | _ => true
def coverFB (es es' : Entities) (req : Request) : Fields → List (String × Value) → List (String × Value) → Bool
  | [], _, _ => true
  | (f, t) :: rest, kvs, kvs' =>
    (match lookupKV kvs f with
     | none => true
     | some w =>
       match lookupKV kvs' f with
       | none => false
       | some w' => coverVB es es' req t w w') && coverFB es es' req rest kvs kvs'
end

mutual
theorem coverVB_sound (es es' : Entities) (req : Request) : ∀ (t : AccessTrie) (v v' : Value),
    coverVB es es' req t v v' = true → CoverV es es' req t v v'
  | .mk c a i e, v, v', h => by
    cases v with
    | prim p =>
      cases p with
      | entityUID u =>
        simp only [coverVB, Bool.and_eq_true] at h
        simp only [CoverV]
        refine ⟨veq_sound _ _ h.1, ?_⟩
        intro d hd
        simp only [hd] at h
        cases hd' : es'.find? u with
        | none => simp [hd'] at h
        | some d' =>
          simp only [hd', Bool.and_eq_true, List.all_eq_true] at h
          refine ⟨d', rfl, coverFB_sound es es' req c d.attrs d'.attrs h.2.1, ?_⟩
          intro x hx hxa
          have := h.2.2 x hx
          have hc : d.ancestors.contains x = true := by simpa using hxa
          simp only [hc, Bool.not_true, Bool.false_or] at this
          simpa using this
      | bool b => simp [CoverV]
      | int n => simp [CoverV]
      | string s => simp [CoverV]
    | record kvs =>
      simp only [coverVB] at h
      simp only [CoverV]
      cases v' with
      | record kvs' => exact ⟨kvs', rfl, coverFB_sound es es' req c kvs kvs' h⟩
      | prim p => simp at h
      | set s => simp at h
      | ext x => simp at h
    | set s => simp [CoverV]
    | ext x => simp [CoverV]
theorem coverFB_sound (es es' : Entities) (req : Request) : ∀ (c : Fields) (kvs kvs' : List (String × Value)),
    coverFB es es' req c kvs kvs' = true → CoverF es es' req c kvs kvs'
  | [], _, _, _ => by simp [CoverF]
  | (f, t) :: rest, kvs, kvs', h => by
    simp only [coverFB, Bool.and_eq_true] at h
    simp only [CoverF]
    refine ⟨?_, coverFB_sound es es' req rest kvs kvs' h.2⟩
    intro w hw
    simp only [hw] at h
    cases hl : lookupKV kvs' f with
    | none => simp [hl] at h
    | some w' =>
      simp only [hl] at h
      exact ⟨w', rfl, coverVB_sound es es' req t w w' h.1⟩
end

def coverRootsB (es es' : Entities) (req : Request) : RootAccessTrie → Bool
  | [] => true
  | (root, t) :: rest => coverVB es es' req t (rootVal req root) (rootVal req root) && coverRootsB es es' req rest

theorem coverRootsB_sound (es es' : Entities) (req : Request) : ∀ (g : RootAccessTrie),
    coverRootsB es es' req g = true → CoverRoots es es' req g
  | [], _ => by simp [CoverRoots]
  | (root, t) :: rest, h => by
    simp only [coverRootsB, Bool.and_eq_true] at h
    simp only [CoverRoots]
    exact ⟨coverVB_sound es es' req t _ _ h.1, coverRootsB_sound es es' req rest h.2⟩

/-- checker for `CtxWF` -/
theorem ctxWF_of_check (req : Request) (h : trimKVsB req.context req.context = true) : CtxWF req := by
  simp only [CtxWF, Trim]
  exact ⟨_, rfl, trimKVsB_sound _ _ h⟩

def isRecResult : Result Value → Bool
  | .ok (.record _) => true
  | _ => false

theorem nonRec_of_check {r : Result Value} (h : isRecResult r = false) : NonRec r := by
  intro kvs e
  subst e
  simp [isRecResult] at h

def isOkB {ε α} : Except ε α → Bool
  | .ok _ => true
  | .error _ => false

theorem ok_of_check {ε α} {r : Except ε α} (h : isOkB r = true) : ∃ x, r = .ok x := by
  cases r with
  | ok x => exact ⟨x, rfl⟩
  | error e => simp [isOkB] at h

end Cedar.Manifest
