import CedarVerif.Cedar.Partial
/- Soundness of `pinterp` on a fragment: definitions (agreement relation, round-trip predicate on values,
   concretisation of a partial request, the fragment) and basic lemmas. -/
namespace Cedar

/-- agreement of a (second-pass) partial-interpretation outcome with a concrete evaluation result:
    equal values, or both errors (the error *class* may differ); `fuel`/`panic` are the model's own stuck outcomes -/
def Sem (x : PRes) (y : Result Value) : Prop :=
  x = .fuel ∨ x = .panic ∨ (∃ v, x = .val v ∧ y = .ok v) ∨ (∃ c c', x = .err c ∧ y = .error c')

theorem Sem.fuel (y : Result Value) : Sem .fuel y := Or.inl rfl
theorem Sem.val (v : Value) : Sem (.val v) (.ok v) := Or.inr (Or.inr (Or.inl ⟨v, rfl, rfl⟩))
theorem Sem.err (c c' : ErrClass) : Sem (.err c) (.error c') := Or.inr (Or.inr (Or.inr ⟨c, c', rfl, rfl⟩))
theorem Sem.ofResult (y : Result Value) : Sem (PRes.ofResult y) y := by
  cases y with
  | ok v => exact Sem.val v
  | error c => exact Sem.err c c
theorem Sem.not_res {r : Expr} {y : Result Value} (h : Sem (.res r) y) : False := by
  rcases h with h | h | ⟨_, h, _⟩ | ⟨_, _, h, _⟩ <;> cases h

/-- the value survives `Value.toExpr` followed by (partial) interpretation -/
def RT (v : Value) : Prop :=
  ∀ (m : Mapper) (req : PRequest) (es : PEntities) (env : SlotEnv) (n : Nat),
    pinterp m req es env n v.toExpr = .fuel ∨ pinterp m req es env n v.toExpr = .val v

-- deep round-trip: the value and every record component reachable by `.`-projection round-trips
mutual
def Value.DRT : Value → Prop
  | .prim _ => True
  | .ext x => RT (.ext x)
  | .set vs => RT (.set vs)
  | .record kvs => RT (.record kvs) ∧ Value.DRTKVs kvs
def Value.DRTKVs : List (String × Value) → Prop
  | [] => True
  | (_, v) :: r => v.DRT ∧ Value.DRTKVs r
end

theorem RT_prim (p : Prim) : RT (.prim p) := by
  intro m req es env n
  cases n with
  | zero => left; simp [pinterp]
  | succ n => right; simp [Value.toExpr, pinterp]

theorem Value.DRT.rt {v : Value} (h : v.DRT) : RT v := by
  cases v with
  | prim p => exact RT_prim p
  | ext x => simpa [Value.DRT] using h
  | set vs => simpa [Value.DRT] using h
  | record kvs => simp only [Value.DRT] at h; exact h.1

theorem DRTKVs_lookup {kvs : List (String × Value)} (h : Value.DRTKVs kvs) {a : String} {v : Value}
    (hl : lookupKV kvs a = some v) : v.DRT := by
  induction kvs with
  | nil => simp [lookupKV] at hl
  | cons kv rest ih =>
    obtain ⟨k, w⟩ := kv
    simp only [Value.DRTKVs] at h
    simp only [lookupKV] at hl
    split at hl
    · cases hl; exact h.1
    · exact ih h.2 hl

theorem DRT_bool (b : Bool) : (Value.prim (.bool b)).DRT := by simp [Value.DRT]

/-- every attribute / tag value of the store round-trips deeply -/
def StoreDRT (es : Entities) : Prop :=
  ∀ u d, es.find? u = some d →
    (∀ a v, lookupKV d.attrs a = some v → v.DRT) ∧ (∀ a v, lookupKV d.tags a = some v → v.DRT)

/-- `entry` is the partial view of the concrete `uid` under the substitution σ (typed unknowns: σ respects the type) -/
def UidEntry.Conc (σ : Mapper) (key : String) (entry : UidEntry) (uid : EntityUID) : Prop :=
  match entry with
  | .known u => u = uid
  | .unknown none => lookupKV σ key = some (.prim (.entityUID uid))
  | .unknown (some t) => lookupKV σ key = some (.prim (.entityUID uid)) ∧ uid.ty = t

/-- the concrete request `req` is the partial request `preq` with its unknowns substituted by σ
    (fragment: the context is a value or entirely unknown) -/
structure Concretizes (σ : Mapper) (preq : PRequest) (req : Request) : Prop where
  principal : preq.principal.Conc σ "principal" req.principal
  action : preq.action.Conc σ "action" req.action
  resource : preq.resource.Conc σ "resource" req.resource
  context : match preq.context with
    | some (.value kvs) => kvs = req.context
    | none => lookupKV σ "context" = some (.record req.context)
    | some (.residual _) => False

theorem concretizes_ofConcrete (σ : Mapper) (req : Request) : Concretizes σ (.ofConcrete req) req :=
  ⟨rfl, rfl, rfl, rfl⟩

def BinaryOp.storeFree : BinaryOp → Bool
  | .mem | .getTag | .hasTag => false
  | _ => true

/-- side condition on an extension function allowed in the fragment: the values it returns survive
    `Value.toExpr` (trivially so for the functions returning Booleans / longs; for the constructors `decimal`, `ip`,
    `datetime`, `duration`, `offset`, … this is the print/parse round trip of the canonical rendering — Rust keeps the
    original constructor call instead) -/
def CallDRT (fn : String) : Prop := ∀ vs w, callExt fn vs = .ok w → w.DRT

/-- expressions whose partial interpretation never leaves a record literal as residual: not a record constructor,
    and not an `if` with such a branch -/
def NR : Expr → Prop
  | .record _ => False
  | .ite _ t e => NR t ∧ NR e
  | _ => True

/-- the fragment of expressions covered by `pinterp_sound_partial` (no unknowns in the policy text; extension calls
    for functions satisfying `CallDRT`; `.`/`has` not directly on a record constructor — `NR` —, whose residual
    `get_attr` would project into and re-interpret) -/
inductive Frag : Expr → Prop
  | lit (p : Prim) : Frag (.lit p)
  | var (v : Var) : Frag (.var v)
  | slot (s : SlotId) : Frag (.slot s)
  | ite {c t e : Expr} : Frag c → Frag t → Frag e → Frag (.ite c t e)
  | and {a b : Expr} : Frag a → Frag b → Frag (.and a b)
  | or {a b : Expr} : Frag a → Frag b → Frag (.or a b)
  | unaryApp (op : UnaryOp) {a : Expr} : Frag a → Frag (.unaryApp op a)
  | binaryApp (op : BinaryOp) {a b : Expr} : Frag a → Frag b → Frag (.binaryApp op a b)
  | getAttr {e : Expr} (a : String) : NR e → Frag e → Frag (.getAttr e a)
  | hasAttr {e : Expr} (a : String) : NR e → Frag e → Frag (.hasAttr e a)
  | like {e : Expr} (p : Pattern) : Frag e → Frag (.like e p)
  | is {e : Expr} (ty : EntityType) : Frag e → Frag (.is e ty)
  | set {xs : List Expr} : (∀ x, x ∈ xs → Frag x) → Frag (.set xs)
  | record {kvs : List (String × Expr)} : (∀ kv, kv ∈ kvs → Frag kv.2) → Frag (.record kvs)
  | call (fn : String) {args : List Expr} : fn ≠ "unknown" → CallDRT fn → (∀ x, x ∈ args → Frag x) → Frag (.call fn args)

/-! ### the concrete store seen through `PEntities.ofConcrete` -/

theorem lookupKV_map_value (kvs : List (String × Value)) (a : String) :
    lookupKV (kvs.map (fun kv => (kv.1, PartialValue.value kv.2))) a = (lookupKV kvs a).map PartialValue.value := by
  induction kvs with
  | nil => rfl
  | cons kv rest ih =>
    simp only [List.map_cons, lookupKV]
    split
    · rfl
    · exact ih

theorem find_ofConcrete (es : Entities) (u : EntityUID) :
    PEntities.find? (es.map (fun ud => (ud.1, PEntityData.ofConcrete ud.2))) u = (es.find? u).map PEntityData.ofConcrete := by
  induction es with
  | nil => rfl
  | cons ud rest ih =>
    obtain ⟨u', d⟩ := ud
    simp only [List.map_cons, PEntities.find?, Entities.find?]
    split
    · rfl
    · exact ih

theorem entity_ofConcrete (es : Entities) (u : EntityUID) :
    (PEntities.ofConcrete es).entity u =
      match es.find? u with
      | some d => .data (PEntityData.ofConcrete d)
      | none => .noSuch := by
  unfold PEntities.entity PEntities.ofConcrete
  simp only [find_ofConcrete]
  cases es.find? u <;> simp

/-! ### unfolding of `pinterp` -/

theorem pinterp_zero (m : Mapper) (req : PRequest) (es : PEntities) (env : SlotEnv) (e : Expr) :
    pinterp m req es env 0 e = .fuel := by simp [pinterp]

/-- residuals produced in the fragment are never record literals (so `get_attr`'s projection arm is not taken) -/
def NotRecord : Expr → Prop
  | .record _ => False
  | _ => True

/-- a typed-unknown residual stands for an entity of that type -/
def TypedOK (r : Expr) (y : Result Value) : Prop :=
  ∀ name t, r = .unknown name (some (.entity t)) → ∃ u, y = .ok (.prim (.entityUID u)) ∧ u.ty = t

end Cedar
