import CedarVerif.Lemmas.TC
/-
Lemmas for C04, part 2: `repair_tc` (outer loop over the touched nodes + self-edge check).
`repairTc_ok`: on an acyclic parent graph, if every out-edge is justified and the untouched nodes are
complete, `repair_tc` succeeds and leaves every node exactly closed.
`repairTc_sound`: whatever the graph, a reported cycle is a real cycle and a returned store only contains
justified edges (soundness half of cycle detection; needs no acyclicity).
-/
namespace Cedar.TC
set_option linter.unusedSectionVars false

variable {α : Type} [DecidableEq α]

theorem get_some_mem_keys {s : Store α} {x : α} {n : Node α} (h : get s x = some n) : x ∈ keys s := by
  induction s with
  | nil => simp [get] at h
  | cons kv rest ih =>
    obtain ⟨k, v⟩ := kv
    by_cases hk : k = x
    · simp [keys, hk]
    · simp only [get, hk, if_false] at h
      have := ih h
      simp only [keys, List.map_cons, List.mem_cons] at this ⊢
      exact Or.inr this

theorem get_some_mem {s : Store α} {x : α} {n : Node α} (h : get s x = some n) : (x, n) ∈ s := by
  induction s with
  | nil => simp [get] at h
  | cons kv rest ih =>
    obtain ⟨k, v⟩ := kv
    by_cases hk : k = x
    · simp only [get, hk, if_true, Option.some.injEq] at h
      subst hk; subst h; exact List.mem_cons_self
    · simp only [get, hk, if_false] at h
      exact List.mem_cons_of_mem _ (ih h)

theorem mem_keys_get {s : Store α} {x : α} (h : x ∈ keys s) : ∃ n, get s x = some n := by
  induction s with
  | nil => simp [keys] at h
  | cons kv rest ih =>
    obtain ⟨k, v⟩ := kv
    by_cases hk : k = x
    · exact ⟨v, by simp [get, hk]⟩
    · simp only [keys, List.map_cons, List.mem_cons] at h
      rcases h with h | h
      · exact absurd h.symm hk
      · obtain ⟨n, hn⟩ := ih h
        exact ⟨n, by simp [get, hk, hn]⟩

theorem unseen_le (U seen : List α) : unseen U seen ≤ U.length := by
  unfold unseen; exact List.length_filter_le _ _

/-- the outer loop of `compute_tc_internal` (cycle-detecting variant) on an acyclic graph -/
theorem repairLoop_spec (P : α → Option (List α)) (U : List α) (hacyc : ∀ x, ¬ Reach P x x) (fuel : Nat) :
    ∀ (t : List α) (s : Store α) (seen : List α),
      Good P U s → ShapeIs P s → (∀ a, a ∈ seen → Complete P s a) → unseen U seen < fuel →
      Ext s (repairLoop fuel t s seen).1 ∧ Good P U (repairLoop fuel t s seen).1 ∧
      (∀ a, a ∈ seen → Complete P (repairLoop fuel t s seen).1 a) ∧
      (∀ x, x ∈ t → Complete P (repairLoop fuel t s seen).1 x) := by
  intro t
  induction t with
  | nil =>
    intro s seen hg _ hc _
    exact ⟨Ext.refl _, hg, hc, fun x hx => by cases hx⟩
  | cons x t ih =>
    intro s seen hg hs hc hf
    have hpre : Pre P U x s seen := ⟨hg, hs, fun a ha => Or.inr (Or.inr (hc a ha))⟩
    have hpost := addAnc_spec P U hacyc fuel x s seen hpre hf
    have hc' : ∀ a, a ∈ (addAnc fuel x s seen).2 → Complete P (addAnc fuel x s seen).1 a := by
      intro a ha
      rcases hpost.new a ha with h | h
      · exact (hc a h).mono hpost.ext
      · exact h
    have hf' : unseen U (addAnc fuel x s seen).2 < fuel := by
      have := unseen_mono U seen (addAnc fuel x s seen).2 hpost.sub
      omega
    have h := ih (addAnc fuel x s seen).1 (addAnc fuel x s seen).2 hpost.good (hs.ext hpost.ext) hc' hf'
    have e : repairLoop fuel (x :: t) s seen =
        repairLoop fuel t (addAnc fuel x s seen).1 (addAnc fuel x s seen).2 := by
      simp [repairLoop]
    rw [e]
    refine ⟨hpost.ext.trans h.1, h.2.1, fun a ha => h.2.2.1 a (hpost.sub a ha), ?_⟩
    intro y hy
    simp only [List.mem_cons] at hy
    rcases hy with rfl | hy
    · exact hpost.cx.mono h.1
    · exact h.2.2.2 y hy

/-- a node is exactly closed: out-edges = Reach⁺ -/
def Exact (P : α → Option (List α)) (s : Store α) : Prop :=
  ∀ x n, get s x = some n → ∀ y, y ∈ n.out ↔ Reach P x y

theorem shapeIs_shape (s : Store α) : ShapeIs (shape s) s := fun _ => rfl

theorem enforceDagFor_of_good {P : α → Option (List α)} {U : List α} (hacyc : ∀ x, ¬ Reach P x x)
    (t : List α) (s : Store α) (hg : Good P U s) : enforceDagFor t s = true := by
  unfold enforceDagFor
  rw [List.all_eq_true]
  intro k _
  cases hk : get s k with
  | none => rfl
  | some n =>
    simp only [decide_eq_true_eq]
    intro hin
    exact hacyc k (hg k n hk k hin).1

/-- `repair_correct`, acyclic direction: `repair_tc` succeeds and makes every node exactly closed. -/
theorem repairTc_ok (s : Store α) (t : List α) (P : α → Option (List α)) (hP : ShapeIs P s)
    (hacyc : ∀ x, ¬ Reach P x x) (hg : Good P (uidsOf s) s)
    (hun : ∀ k, k ∈ keys s → k ∉ t → Complete P s k) :
    ∃ s', repairTc t s = .ok s' ∧ Ext s s' ∧ Exact P s' := by
  have hseen : ∀ a, a ∈ (keys s).filter (fun k => decide (k ∉ t)) → Complete P s a := by
    intro a ha
    simp only [List.mem_filter, decide_eq_true_eq] at ha
    exact hun a ha.1 ha.2
  have hf : unseen (uidsOf s) ((keys s).filter (fun k => decide (k ∉ t))) < fuelOf s := by
    have := unseen_le (uidsOf s) ((keys s).filter (fun k => decide (k ∉ t)))
    unfold fuelOf; omega
  have h := repairLoop_spec P (uidsOf s) hacyc (fuelOf s) t s _ hg hP hseen hf
  refine ⟨(repairLoop (fuelOf s) t s ((keys s).filter (fun k => decide (k ∉ t)))).1, ?_, h.1, ?_⟩
  · unfold repairTc
    simp only [enforceDagFor_of_good hacyc t _ h.2.1, if_true]
  · intro x n hx y
    constructor
    · intro hy; exact (h.2.1 x n hx y hy).1
    · intro hr
      have hcx : Complete P (repairLoop (fuelOf s) t s ((keys s).filter (fun k => decide (k ∉ t)))).1 x := by
        by_cases hxt : x ∈ t
        · exact h.2.2.2 x hxt
        · apply h.2.2.1 x
          simp only [List.mem_filter, decide_eq_true_eq]
          refine ⟨?_, hxt⟩
          cases hgx : get s x with
          | none => have := h.1.2 x hgx; rw [this] at hx; cases hx
          | some m => exact get_some_mem_keys hgx
      exact hcx n hx y hr

/-! ### soundness on arbitrary (possibly cyclic) graphs -/

/-- every out-edge is justified by reachability (no universe) -/
def Sound (P : α → Option (List α)) (s : Store α) : Prop :=
  ∀ x n, get s x = some n → ∀ y, y ∈ n.out → Reach P x y

structure SLI (P : α → Option (List α)) (x : α) (s0 : Store α) (st : LoopSt α) : Prop where
  ext : Ext s0 st.s
  snd : Sound P st.s
  acc : ∀ y, y ∈ st.acc → Reach P x y

def SSpec (P : α → Option (List α)) (rec : α → Store α → List α → Store α × List α) : Prop :=
  ∀ x s seen, Sound P s → Ext s (rec x s seen).1 ∧ Sound P (rec x s seen).1

theorem loopStep_SLI (P : α → Option (List α)) (rec : α → Store α → List α → Store α × List α)
    (hrec : SSpec P rec) (x : α) (s0 : Store α) (st : LoopSt α) (a : α) (hxa : Reach P x a)
    (h : SLI P x s0 st) : SLI P x s0 (loopStep rec st a) := by
  have key : ∃ s' seen', (if a ∈ st.seen then (st.s, st.seen) else rec a st.s (a :: st.seen)) = (s', seen') ∧
      Ext st.s s' ∧ Sound P s' := by
    by_cases hin : a ∈ st.seen
    · exact ⟨st.s, st.seen, by simp [hin], Ext.refl _, h.snd⟩
    · have := hrec a st.s (a :: st.seen) h.snd
      exact ⟨(rec a st.s (a :: st.seen)).1, (rec a st.s (a :: st.seen)).2, by simp [hin], this.1, this.2⟩
  obtain ⟨s', seen', hr, hext, hsnd⟩ := key
  unfold loopStep
  simp only [hr]
  by_cases hex : a ∈ st.explored
  · simp only [hex, if_true]
    exact ⟨h.ext.trans hext, hsnd, h.acc⟩
  · simp only [hex, if_false]
    cases hga : get s' a with
    | none => exact ⟨h.ext.trans hext, hsnd, h.acc⟩
    | some na =>
      refine ⟨h.ext.trans hext, hsnd, ?_⟩
      intro y hy
      simp only [List.mem_append] at hy
      rcases hy with hy | hy
      · exact h.acc y hy
      · exact hxa.trans (hsnd a na hga y hy)

theorem fold_SLI (P : α → Option (List α)) (rec : α → Store α → List α → Store α × List α)
    (hrec : SSpec P rec) (x : α) (s0 : Store α) (outs : List α) :
    ∀ (st : LoopSt α), (∀ a, a ∈ outs → Reach P x a) → SLI P x s0 st →
      SLI P x s0 (outs.foldl (loopStep rec) st) := by
  induction outs with
  | nil => intro st _ h; simpa using h
  | cons a outs ih =>
    intro st hall h
    simp only [List.foldl_cons]
    exact ih _ (fun b hb => hall b (List.mem_cons_of_mem _ hb))
      (loopStep_SLI P rec hrec x s0 st a (hall a List.mem_cons_self) h)

/-- `add_ancestors` only ever adds justified edges, on any graph and with any fuel -/
theorem addAnc_sound (P : α → Option (List α)) : ∀ f, SSpec P (addAnc f) := by
  intro f
  induction f with
  | zero => intro x s seen hs; exact ⟨Ext.refl _, hs⟩
  | succ f ih =>
    intro x s seen hs
    unfold addAnc
    cases hgx : get s x with
    | none => exact ⟨Ext.refl _, hs⟩
    | some nx =>
      simp only
      have hinit : SLI P x s { s := s, seen := seen, acc := [], explored := [] } :=
        ⟨Ext.refl _, hs, by intro y hy; cases hy⟩
      have hli := fold_SLI P (addAnc f) ih x s nx.out _ (fun a ha => hs x nx hgx a ha) hinit
      generalize nx.out.foldl (loopStep (addAnc f)) { s := s, seen := seen, acc := [], explored := [] } = st at hli
      obtain ⟨nx', hgx', hpar', hout', _, _⟩ := hli.ext.1 x nx hgx
      simp only [hgx']
      have hE : Ext st.s (set st.s x (nx'.addEdges st.acc)) :=
        Ext_set st.s x nx' _ hgx' (addEdges_parents _ _) (fun y hy => (mem_addEdges_out _ _ _).mpr (Or.inl hy))
          (addEdges_indirect _ _) (addEdges_tag _ _)
      refine ⟨hli.ext.trans hE, ?_⟩
      intro z m hz y hy
      by_cases hzx : z = x
      · subst hzx
        rw [get_set_self _ _ _ _ hgx'] at hz; cases hz
        rcases (mem_addEdges_out _ _ _).mp hy with hy | hy
        · exact hli.snd z nx' hgx' y hy
        · exact hli.acc y hy
      · rw [get_set_other _ _ _ _ hzx] at hz
        exact hli.snd z m hz y hy

theorem repairLoop_sound (P : α → Option (List α)) (fuel : Nat) :
    ∀ (t : List α) (s : Store α) (seen : List α), Sound P s →
      Ext s (repairLoop fuel t s seen).1 ∧ Sound P (repairLoop fuel t s seen).1 := by
  intro t
  induction t with
  | nil => intro s seen hs; exact ⟨Ext.refl _, hs⟩
  | cons x t ih =>
    intro s seen hs
    have h1 := addAnc_sound P fuel x s seen hs
    have h2 := ih (addAnc fuel x s seen).1 (addAnc fuel x s seen).2 h1.2
    have e : repairLoop fuel (x :: t) s seen =
        repairLoop fuel t (addAnc fuel x s seen).1 (addAnc fuel x s seen).2 := by
      simp [repairLoop]
    rw [e]
    exact ⟨h1.1.trans h2.1, h2.2⟩

theorem enforceDagFor_false {t : List α} {S : Store α} (hd : enforceDagFor t S = false) :
    ∃ k n, get S k = some n ∧ k ∈ n.out := by
  unfold enforceDagFor at hd
  rw [List.all_eq_false] at hd
  obtain ⟨k, _, hk⟩ := hd
  cases hgk : get S k with
  | none => rw [hgk] at hk; simp at hk
  | some n =>
    rw [hgk] at hk
    simp only [decide_eq_true_eq, Decidable.not_not] at hk
    exact ⟨k, n, hgk, hk⟩

/-- rejection is sound: `repair_tc` reports a cycle only if the parent graph has one; a store it
    returns extends the input and contains only justified edges. -/
theorem repairTc_sound (s : Store α) (t : List α) (P : α → Option (List α)) (hs : Sound P s) :
    (repairTc t s = .error .cycle → ∃ x, Reach P x x) ∧
    (∀ s', repairTc t s = .ok s' → Ext s s' ∧ Sound P s') ∧
    (∀ e, repairTc t s = .error e → e = .cycle) := by
  have h := repairLoop_sound P (fuelOf s) t s ((keys s).filter (fun k => decide (k ∉ t))) hs
  unfold repairTc
  simp only
  cases hd : enforceDagFor t (repairLoop (fuelOf s) t s ((keys s).filter (fun k => decide (k ∉ t)))).1 with
  | true =>
    simp only [if_true]
    refine ⟨fun h' => (by cases h'), ?_, fun e h' => (by cases h')⟩
    intro s' h'; cases h'; exact h
  | false =>
    simp only [Bool.false_eq_true, if_false]
    refine ⟨fun _ => ?_, fun s' h' => (by cases h'), fun e h' => (by cases h'; rfl)⟩
    obtain ⟨k, n, hgk, hk⟩ := enforceDagFor_false hd
    exact ⟨k, h.2 k n hgk k hk⟩

end Cedar.TC
