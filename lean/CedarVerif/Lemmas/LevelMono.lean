import CedarVerif.Cedar.Validation.Level
/-
C16 helper lemmas: the level checker is monotone in the maximum level — a typed expression without level errors at
maximum level `n` has none at `n + 1` (for the whole mirrored checker).
-/
namespace Cedar.Level
open Cedar

theorem exceeds_mono {n lvl : Nat} (h : exceeds n lvl = []) : exceeds (n + 1) lvl = [] := by
  unfold exceeds at *
  split at h
  · cases h
  · rename_i hlt
    have : ¬ lvl ≥ n + 1 := by omega
    simp [this]

theorem exceeds_nil_iff {n lvl : Nat} : exceeds n lvl = [] ↔ lvl < n := by
  unfold exceeds
  constructor
  · intro h
    split at h
    · cases h
    · omega
  · intro h
    have : ¬ lvl ≥ n := by omega
    simp [this]

mutual
theorem derefErrs_mono (n : Nat) (act : EntityUID) :
    ∀ (te : TExpr) (p : List String), derefErrs n act te p = [] → derefErrs (n + 1) act te p = []
  | .var _, _ => by simp [derefErrs]
  | .slot _, _ => by simp [derefErrs]
  | .lit l, _ => by cases l <;> simp [derefErrs]
  | .ite c t e, p => by
      simp only [derefErrs, List.append_eq_nil_iff]
      rintro ⟨h1, h2, h3⟩
      exact ⟨checkExpr_mono n act c h1, derefErrs_mono n act t p h2, derefErrs_mono n act e p h3⟩
  | .getAttr k e a, p => by
      cases k
      · simp only [derefErrs]; exact derefErrs_mono n act e p
      · simp only [derefErrs]; exact derefErrs_mono n act e (a :: p)
      · simp [derefErrs]
  | .binaryApp op a b, p => by
      cases op <;> simp only [derefErrs, List.append_eq_nil_iff, List.cons_ne_self, imp_self]
      rintro ⟨h1, h2⟩
      exact ⟨derefErrs_mono n act a p h1, checkExpr_mono n act b h2⟩
  | .record kvs, p => by
      cases p with
      | nil => simp [derefErrs]
      | cons a p' =>
        simp only [derefErrs]
        split
        · exact derefErrsKVs_mono n act a p' kvs
        · simp
  | .unknown _ _, _ => by simp [derefErrs]
  | .and _ _, _ => by simp [derefErrs]
  | .or _ _, _ => by simp [derefErrs]
  | .unaryApp _ _, _ => by simp [derefErrs]
  | .call _ _, _ => by simp [derefErrs]
  | .hasAttr _ _ _, _ => by simp [derefErrs]
  | .like _ _, _ => by simp [derefErrs]
  | .is _ _, _ => by simp [derefErrs]
  | .set _, _ => by simp [derefErrs]
theorem derefErrsKVs_mono (n : Nat) (act : EntityUID) (a : String) (p : List String) :
    ∀ (kvs : List (String × TExpr)), derefErrsKVs n act a p kvs = [] → derefErrsKVs (n + 1) act a p kvs = []
  | [] => by simp [derefErrsKVs]
  | (k, e) :: rest => by
      simp only [derefErrsKVs, List.append_eq_nil_iff]
      rintro ⟨h1, h2⟩
      refine ⟨?_, derefErrsKVs_mono n act a p rest h2⟩
      split at h1
      · rename_i hc; simp only [hc, if_true]; exact derefErrs_mono n act e p h1
      · rename_i hc; simp only [hc]; exact checkExpr_mono n act e h1
theorem checkExpr_mono (n : Nat) (act : EntityUID) :
    ∀ (te : TExpr), checkExpr n act te = [] → checkExpr (n + 1) act te = []
  | .lit _ => by simp [checkExpr]
  | .var _ => by simp [checkExpr]
  | .slot _ => by simp [checkExpr]
  | .unknown _ _ => by simp [checkExpr]
  | .ite c t e => by
      simp only [checkExpr, List.append_eq_nil_iff]
      rintro ⟨h1, h2, h3⟩
      exact ⟨checkExpr_mono n act c h1, checkExpr_mono n act t h2, checkExpr_mono n act e h3⟩
  | .and a b => by
      simp only [checkExpr, List.append_eq_nil_iff]
      rintro ⟨h1, h2⟩
      exact ⟨checkExpr_mono n act a h1, checkExpr_mono n act b h2⟩
  | .or a b => by
      simp only [checkExpr, List.append_eq_nil_iff]
      rintro ⟨h1, h2⟩
      exact ⟨checkExpr_mono n act a h1, checkExpr_mono n act b h2⟩
  | .unaryApp _ a => by simp only [checkExpr]; exact checkExpr_mono n act a
  | .binaryApp op a b => by
      simp only [checkExpr]
      split
      · simp only [List.append_eq_nil_iff]
        rintro ⟨h1, h2, h3⟩
        exact ⟨derefErrs_mono n act a [] h1, exceeds_mono h2, checkExpr_mono n act b h3⟩
      · simp only [List.append_eq_nil_iff]
        rintro ⟨h1, h2⟩
        exact ⟨checkExpr_mono n act a h1, checkExpr_mono n act b h2⟩
  | .call _ args => by simp only [checkExpr]; exact checkList_mono n act args
  | .getAttr k e _ => by
      cases k
      · simp only [checkExpr, List.append_eq_nil_iff]
        rintro ⟨h1, h2⟩
        exact ⟨derefErrs_mono n act e [] h1, exceeds_mono h2⟩
      · simp only [checkExpr]; exact checkExpr_mono n act e
      · simp [checkExpr]
  | .hasAttr k e _ => by
      cases k
      · simp only [checkExpr, List.append_eq_nil_iff]
        rintro ⟨h1, h2⟩
        exact ⟨derefErrs_mono n act e [] h1, exceeds_mono h2⟩
      · simp only [checkExpr]; exact checkExpr_mono n act e
      · simp [checkExpr]
  | .like e _ => by simp only [checkExpr]; exact checkExpr_mono n act e
  | .is e _ => by simp only [checkExpr]; exact checkExpr_mono n act e
  | .set es => by simp only [checkExpr]; exact checkList_mono n act es
  | .record kvs => by simp only [checkExpr]; exact checkKVs_mono n act kvs
theorem checkList_mono (n : Nat) (act : EntityUID) :
    ∀ (es : List TExpr), checkList n act es = [] → checkList (n + 1) act es = []
  | [] => by simp [checkList]
  | e :: es => by
      simp only [checkList, List.append_eq_nil_iff]
      rintro ⟨h1, h2⟩
      exact ⟨checkExpr_mono n act e h1, checkList_mono n act es h2⟩
theorem checkKVs_mono (n : Nat) (act : EntityUID) :
    ∀ (kvs : List (String × TExpr)), checkKVs n act kvs = [] → checkKVs (n + 1) act kvs = []
  | [] => by simp [checkKVs]
  | (_, e) :: es => by
      simp only [checkKVs, List.append_eq_nil_iff]
      rintro ⟨h1, h2⟩
      exact ⟨checkExpr_mono n act e h1, checkKVs_mono n act es h2⟩
end

end Cedar.Level
