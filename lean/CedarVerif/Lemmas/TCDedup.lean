import CedarVerif.Lemmas.TCUpsertMulti
/-
C04 helper lemmas: the first loop of the repaired `upsert_entities` (`dedupLastAtFirstPos`, the mirror of the
`batch` / `position` loop).
 * the index map is redundant: the loop is a fold of "replace the entry of that uid in place, else push"
   (`dedup_eq`);
 * its result has pairwise distinct uids (`dedup_nodup`), consists of entities of the collection
   (`dedup_mem`, `dedup_pure`) and is the collection itself if that names every uid once (`dedup_of_nodup`);
 * it does not change what the SPEC says about the call: `specUpsert g (dedupLastAtFirstPos es) = specUpsert g es`
   (`specUpsert_dedup`; last value wins, new records appear in the order of their first occurrence).
-/
namespace Cedar.TC

variable {α : Type} [DecidableEq α]

/-! ### the loop without the index map -/

/-- one iteration of the dedup loop, without `position` -/
def dstep (b : List (α × Node α)) (e : α × Node α) : List (α × Node α) :=
  match get b e.1 with
  | some _ => set b e.1 e.2
  | none => b ++ [e]

/-- the content of `position` when the batch is `b` (indices counted from `k`) -/
def posOf : List (α × Node α) → Nat → List (α × Nat)
  | [], _ => []
  | (u, _) :: rest, k => (u, k) :: posOf rest (k + 1)

omit [DecidableEq α] in
theorem posOf_append (b : List (α × Node α)) (e : α × Node α) (k : Nat) :
    posOf (b ++ [e]) k = posOf b k ++ [(e.1, k + b.length)] := by
  induction b generalizing k with
  | nil => simp [posOf]
  | cons x rest ih =>
    obtain ⟨u, n⟩ := x
    have : k + 1 + rest.length = k + (rest.length + 1) := by omega
    simp [posOf, ih, this]

theorem posOf_set (b : List (α × Node α)) (u : α) (n : Node α) (k : Nat) :
    posOf (set b u n) k = posOf b k := by
  induction b generalizing k with
  | nil => rfl
  | cons x rest ih =>
    obtain ⟨u0, n0⟩ := x
    by_cases h : u0 = u
    · simp [set, h, posOf]
    · simp [set, h, posOf, ih]

theorem posGet_posOf_none (b : List (α × Node α)) (u : α) (k : Nat) (h : posGet (posOf b k) u = none) :
    get b u = none := by
  induction b generalizing k with
  | nil => rfl
  | cons x rest ih =>
    obtain ⟨u0, n0⟩ := x
    by_cases hu : u0 = u
    · simp [posOf, posGet, hu] at h
    · simp only [posOf, posGet, hu, if_false] at h
      simp only [get, hu, if_false]
      exact ih _ h

/-- an occupied `position` entry is the index of the first batch element with that uid: writing the slot
    is replacing the entry of that uid -/
theorem posGet_posOf_some (b : List (α × Node α)) (u : α) (n : Node α) (k i : Nat)
    (h : posGet (posOf b k) u = some i) :
    ∃ j, i = k + j ∧ b.set j (u, n) = set b u n ∧ ∃ m, get b u = some m := by
  induction b generalizing k with
  | nil => simp [posOf, posGet] at h
  | cons x rest ih =>
    obtain ⟨u0, n0⟩ := x
    by_cases hu : u0 = u
    · simp only [posOf, posGet, hu, if_true, Option.some.injEq] at h
      refine ⟨0, by omega, ?_, n0, by simp [get, hu]⟩
      simp [set, hu]
    · simp only [posOf, posGet, hu, if_false] at h
      obtain ⟨j, hj, hs, m, hm⟩ := ih _ h
      refine ⟨j + 1, by omega, ?_, m, by simp [get, hu, hm]⟩
      simp [set, hu, hs]

theorem dedupStep_eq (b : List (α × Node α)) (e : α × Node α) :
    dedupStep (b, posOf b 0) e = (dstep b e, posOf (dstep b e) 0) := by
  unfold dedupStep dstep
  cases h : posGet (posOf b 0) e.1 with
  | none =>
    have hg := posGet_posOf_none b e.1 0 h
    simp [hg, posOf_append]
  | some i =>
    obtain ⟨j, hj, hs, m, hm⟩ := posGet_posOf_some b e.1 e.2 0 i h
    have hij : i = j := by omega
    subst hij
    simp only [hm, posOf_set]
    exact congrArg (fun x => (x, posOf b 0)) hs

theorem dedup_fold (es : List (α × Node α)) : ∀ b : List (α × Node α),
    es.foldl dedupStep (b, posOf b 0) = (es.foldl dstep b, posOf (es.foldl dstep b) 0) := by
  induction es with
  | nil => intro b; rfl
  | cons e es ih =>
    intro b
    simp only [List.foldl_cons, dedupStep_eq, ih]

/-- the `batch`/`position` loop is: replace the entry of that uid in place, else push -/
theorem dedup_eq (es : List (α × Node α)) : dedupLastAtFirstPos es = es.foldl dstep [] := by
  have := dedup_fold es []
  simp only [posOf] at this
  simp [dedupLastAtFirstPos, this]

/-! ### uids of the deduped batch -/

theorem keys_set (b : List (α × Node α)) (u : α) (n : Node α) : keys (set b u n) = keys b := by
  induction b with
  | nil => rfl
  | cons x rest ih =>
    obtain ⟨u0, n0⟩ := x
    by_cases h : u0 = u
    · simp [set, h, keys]
    · simp only [set, h, if_false, keys, List.map_cons] at ih ⊢
      rw [ih]

theorem get_none_not_mem_keys (b : List (α × Node α)) (u : α) (h : get b u = none) : u ∉ keys b := by
  induction b with
  | nil => simp [keys]
  | cons x rest ih =>
    obtain ⟨u0, n0⟩ := x
    by_cases hu : u0 = u
    · simp [get, hu] at h
    · simp only [get, hu, if_false] at h
      simp only [keys, List.map_cons, List.mem_cons, not_or]
      exact ⟨fun h' => hu h'.symm, ih h⟩

theorem not_mem_keys_get_none (b : List (α × Node α)) (u : α) (h : u ∉ keys b) : get b u = none := by
  induction b with
  | nil => rfl
  | cons x rest ih =>
    obtain ⟨u0, n0⟩ := x
    simp only [keys, List.map_cons, List.mem_cons, not_or] at h
    have hu : ¬ u0 = u := fun h' => h.1 h'.symm
    simp only [get, hu, if_false]
    exact ih h.2

theorem dstep_nodup (b : List (α × Node α)) (e : α × Node α) (h : (keys b).Nodup) : (keys (dstep b e)).Nodup := by
  unfold dstep
  cases hg : get b e.1 with
  | some m => simp only [keys_set]; exact h
  | none =>
    have := get_none_not_mem_keys b e.1 hg
    simp only [keys, List.map_append, List.map_cons, List.map_nil] at this ⊢
    rw [List.nodup_append]
    refine ⟨h, by simp, ?_⟩
    intro a ha c hc
    simp only [List.mem_singleton] at hc
    subst hc
    intro hac; subst hac; exact this ha

theorem mem_set (b : List (α × Node α)) (u : α) (n : Node α) (x : α × Node α) (h : x ∈ set b u n) :
    x ∈ b ∨ x = (u, n) := by
  induction b with
  | nil => simp [set] at h
  | cons y rest ih =>
    obtain ⟨u0, n0⟩ := y
    by_cases hu : u0 = u
    · simp only [set, hu, if_true, List.mem_cons] at h
      rcases h with h | h
      · exact Or.inr h
      · exact Or.inl (List.mem_cons_of_mem _ h)
    · simp only [set, hu, if_false, List.mem_cons] at h
      rcases h with h | h
      · exact Or.inl (h ▸ List.mem_cons_self)
      · rcases ih h with h' | h'
        · exact Or.inl (List.mem_cons_of_mem _ h')
        · exact Or.inr h'

theorem dstep_mem (b : List (α × Node α)) (e x : α × Node α) (h : x ∈ dstep b e) : x ∈ b ∨ x = e := by
  unfold dstep at h
  cases hg : get b e.1 with
  | some m => rw [hg] at h; exact mem_set b e.1 e.2 x h
  | none =>
    rw [hg] at h
    simp only [List.mem_append, List.mem_singleton] at h
    exact h

theorem dfold_nodup (es : List (α × Node α)) : ∀ b : List (α × Node α), (keys b).Nodup →
    (keys (es.foldl dstep b)).Nodup := by
  induction es with
  | nil => intro b h; exact h
  | cons e es ih => intro b h; exact ih _ (dstep_nodup b e h)

theorem dfold_mem (es : List (α × Node α)) : ∀ (b : List (α × Node α)) (x : α × Node α),
    x ∈ es.foldl dstep b → x ∈ b ∨ x ∈ es := by
  induction es with
  | nil => intro b x h; exact Or.inl h
  | cons e es ih =>
    intro b x h
    rcases ih _ x h with h' | h'
    · rcases dstep_mem b e x h' with h'' | h''
      · exact Or.inl h''
      · exact Or.inr (h'' ▸ List.mem_cons_self)
    · exact Or.inr (List.mem_cons_of_mem _ h')

/-- the deduped batch names every uid at most once -/
theorem dedup_nodup (es : List (α × Node α)) : ((dedupLastAtFirstPos es).map (·.1)).Nodup := by
  rw [dedup_eq]
  exact dfold_nodup es [] (by simp [keys])

/-- the deduped batch consists of entities of the collection -/
theorem dedup_mem (es : List (α × Node α)) (x : α × Node α) (h : x ∈ dedupLastAtFirstPos es) : x ∈ es := by
  rw [dedup_eq] at h
  rcases dfold_mem es [] x h with h' | h'
  · cases h'
  · exact h'

theorem dedup_pure (es : List (α × Node α)) (hp : PureBatch es) : PureBatch (dedupLastAtFirstPos es) :=
  fun e he => hp e (dedup_mem es e he)

theorem dfold_of_nodup (es : List (α × Node α)) : ∀ b : List (α × Node α), (keys (b ++ es)).Nodup →
    es.foldl dstep b = b ++ es := by
  induction es with
  | nil => intro b _; simp
  | cons e es ih =>
    intro b h
    have hne : e.1 ∉ keys b := by
      simp only [keys, List.map_append, List.map_cons] at h ⊢
      rw [List.nodup_append] at h
      intro hm
      exact h.2.2 _ hm _ List.mem_cons_self rfl
    have hstep : dstep b e = b ++ [e] := by simp [dstep, not_mem_keys_get_none b e.1 hne]
    simp only [List.foldl_cons, hstep]
    rw [ih (b ++ [e]) (by simpa using h)]
    simp

/-- a collection naming every uid once is left as it is: the repair changes nothing for such calls -/
theorem dedup_of_nodup (es : List (α × Node α)) (h : (es.map (·.1)).Nodup) : dedupLastAtFirstPos es = es := by
  rw [dedup_eq, dfold_of_nodup es [] (by simpa [keys] using h)]
  simp

/-! ### the spec does not see the dedup -/

def specUpsertOne (g : PGraph α) (e : α × Node α) : PGraph α :=
  match PGraph.get g e.1 with
  | some _ => PGraph.set g e.1 e.2.parents
  | none => g ++ [(e.1, e.2.parents)]

theorem specUpsert_cons (g : PGraph α) (e : α × Node α) (es : List (α × Node α)) :
    specUpsert g (e :: es) = specUpsert (specUpsertOne g e) es := by
  simp only [specUpsert, specUpsertOne]
  cases PGraph.get g e.1 <;> rfl

theorem specUpsert_append (a : List (α × Node α)) : ∀ (g : PGraph α) (b : List (α × Node α)),
    specUpsert g (a ++ b) = specUpsert (specUpsert g a) b := by
  induction a with
  | nil => intro g b; rfl
  | cons e a ih => intro g b; simp only [List.cons_append, specUpsert_cons, ih]

theorem pget_set_self (g : PGraph α) (u : α) (ps : List α) (h : (PGraph.get g u).isSome) :
    PGraph.get (PGraph.set g u ps) u = some ps := by
  induction g with
  | nil => simp [PGraph.get] at h
  | cons x rest ih =>
    obtain ⟨k, qs⟩ := x
    by_cases hk : k = u
    · simp [PGraph.set, PGraph.get, hk]
    · simp only [PGraph.get, hk, if_false] at h
      simp only [PGraph.set, PGraph.get, hk, if_false]
      exact ih h

theorem pget_set_other (g : PGraph α) (u v : α) (ps : List α) (h : v ≠ u) :
    PGraph.get (PGraph.set g u ps) v = PGraph.get g v := by
  induction g with
  | nil => rfl
  | cons x rest ih =>
    obtain ⟨k, qs⟩ := x
    by_cases hk : k = u
    · have hkv : ¬ k = v := fun h' => h (h' ▸ hk)
      simp [PGraph.set, PGraph.get, hk]
      subst hk
      simp [hkv]
    · simp only [PGraph.set, hk, if_false, PGraph.get]
      rw [ih]

theorem pget_append_some (g h : PGraph α) (v : α) (hs : (PGraph.get g v).isSome) :
    PGraph.get (g ++ h) v = PGraph.get g v := by
  induction g with
  | nil => simp [PGraph.get] at hs
  | cons x rest ih =>
    obtain ⟨k, qs⟩ := x
    by_cases hk : k = v
    · simp [PGraph.get, hk]
    · simp only [PGraph.get, hk, if_false] at hs
      simp only [List.cons_append, PGraph.get, hk, if_false]
      exact ih hs

theorem pget_append_none (g h : PGraph α) (v : α) (hn : PGraph.get g v = none) :
    PGraph.get (g ++ h) v = PGraph.get h v := by
  induction g with
  | nil => rfl
  | cons x rest ih =>
    obtain ⟨k, qs⟩ := x
    by_cases hk : k = v
    · simp [PGraph.get, hk] at hn
    · simp only [PGraph.get, hk, if_false] at hn
      simp only [List.cons_append, PGraph.get, hk, if_false]
      exact ih hn

theorem pset_set (g : PGraph α) (u : α) (ps qs : List α) :
    PGraph.set (PGraph.set g u ps) u qs = PGraph.set g u qs := by
  induction g with
  | nil => rfl
  | cons x rest ih =>
    obtain ⟨k, rs⟩ := x
    by_cases hk : k = u
    · simp [PGraph.set, hk]
    · simp [PGraph.set, hk, ih]

theorem pset_append_some (g h : PGraph α) (u : α) (ps : List α) (hs : (PGraph.get g u).isSome) :
    PGraph.set (g ++ h) u ps = PGraph.set g u ps ++ h := by
  induction g with
  | nil => simp [PGraph.get] at hs
  | cons x rest ih =>
    obtain ⟨k, rs⟩ := x
    by_cases hk : k = u
    · simp [PGraph.set, hk]
    · simp only [PGraph.get, hk, if_false] at hs
      simp [PGraph.set, hk, ih hs]

theorem pset_append_none (g h : PGraph α) (u : α) (ps : List α) (hn : PGraph.get g u = none) :
    PGraph.set (g ++ h) u ps = g ++ PGraph.set h u ps := by
  induction g with
  | nil => rfl
  | cons x rest ih =>
    obtain ⟨k, rs⟩ := x
    by_cases hk : k = u
    · simp [PGraph.get, hk] at hn
    · simp only [PGraph.get, hk, if_false] at hn
      simp [PGraph.set, hk, ih hn]

theorem pset_comm (g : PGraph α) (u v : α) (ps qs : List α) (h : v ≠ u) :
    PGraph.set (PGraph.set g u ps) v qs = PGraph.set (PGraph.set g v qs) u ps := by
  induction g with
  | nil => rfl
  | cons x rest ih =>
    obtain ⟨k, rs⟩ := x
    by_cases hku : k = u
    · have hkv : ¬ k = v := fun h' => h (h' ▸ hku)
      subst hku
      simp [PGraph.set, hkv]
    · by_cases hkv : k = v
      · subst hkv
        simp [PGraph.set, hku]
      · simp [PGraph.set, hku, hkv, ih]

theorem specUpsertOne_isSome (g : PGraph α) (e : α × Node α) (u : α) (h : (PGraph.get g u).isSome) :
    (PGraph.get (specUpsertOne g e) u).isSome := by
  unfold specUpsertOne
  cases hg : PGraph.get g e.1 with
  | none => simp only; rw [pget_append_some _ _ _ h]; exact h
  | some x =>
    simp only
    by_cases hu : u = e.1
    · subst hu; rw [pget_set_self _ _ _ h]; rfl
    · rw [pget_set_other _ _ _ _ hu]; exact h

theorem specUpsert_isSome (es : List (α × Node α)) : ∀ (g : PGraph α) (u : α), (PGraph.get g u).isSome →
    (PGraph.get (specUpsert g es) u).isSome := by
  induction es with
  | nil => intro g u h; exact h
  | cons e es ih =>
    intro g u h
    rw [specUpsert_cons]
    exact ih _ u (specUpsertOne_isSome g e u h)

theorem specUpsertOne_of_isSome (g : PGraph α) (e : α × Node α) (h : (PGraph.get g e.1).isSome) :
    specUpsertOne g e = PGraph.set g e.1 e.2.parents := by
  unfold specUpsertOne
  cases hg : PGraph.get g e.1 with
  | none => rw [hg] at h; cases h
  | some x => rfl

/-- overwriting `u` and upserting an entity with another uid commute (the record of `u` stays where it is) -/
theorem specUpsertOne_set_comm (g : PGraph α) (u : α) (ps : List α) (e : α × Node α)
    (hs : (PGraph.get g u).isSome) (hne : e.1 ≠ u) :
    specUpsertOne (PGraph.set g u ps) e = PGraph.set (specUpsertOne g e) u ps := by
  unfold specUpsertOne
  rw [pget_set_other _ _ _ _ hne]
  cases hg : PGraph.get g e.1 with
  | none => simp only; rw [pset_append_some _ _ _ _ hs]
  | some x => simp only; exact pset_comm g u e.1 ps e.2.parents hne

theorem specUpsert_set_comm (rest : List (α × Node α)) : ∀ (g : PGraph α) (u : α) (ps : List α),
    (PGraph.get g u).isSome → u ∉ keys rest →
    specUpsert (PGraph.set g u ps) rest = PGraph.set (specUpsert g rest) u ps := by
  induction rest with
  | nil => intro g u ps _ _; rfl
  | cons e rest ih =>
    intro g u ps hs hn
    simp only [keys, List.map_cons, List.mem_cons, not_or] at hn
    have hne : e.1 ≠ u := fun h => hn.1 h.symm
    rw [specUpsert_cons, specUpsert_cons, specUpsertOne_set_comm g u ps e hs hne]
    exact ih _ u ps (specUpsertOne_isSome g e u hs) hn.2

/-- two upserts of the same uid in a row: the second value wins, at the place of the first -/
theorem specUpsertOne_twice (g : PGraph α) (u : α) (n n' : Node α) :
    specUpsertOne (specUpsertOne g (u, n)) (u, n') = specUpsertOne g (u, n') := by
  unfold specUpsertOne
  cases hg : PGraph.get g u with
  | none =>
    simp only
    have h1 : PGraph.get (g ++ [(u, n.parents)]) u = some n.parents := by
      rw [pget_append_none _ _ _ hg]; simp [PGraph.get]
    rw [h1]
    simp only
    rw [pset_append_none _ _ _ _ hg]
    simp [PGraph.set]
  | some x =>
    simp only
    rw [pget_set_self _ _ _ (by rw [hg]; rfl)]
    simp only
    exact pset_set g u _ _

theorem specUpsert_set (b : List (α × Node α)) : ∀ (g : PGraph α) (u : α) (n : Node α),
    (keys b).Nodup → (get b u).isSome →
    specUpsert g (set b u n) = specUpsertOne (specUpsert g b) (u, n) := by
  induction b with
  | nil => intro g u n _ h; simp [get] at h
  | cons x rest ih =>
    intro g u n hnd hs
    obtain ⟨k, m⟩ := x
    simp only [keys, List.map_cons, List.nodup_cons] at hnd
    by_cases hk : k = u
    · subst hk
      simp only [set, if_true]
      rw [specUpsert_cons, specUpsert_cons, ← specUpsertOne_twice g k m n]
      have h1 : (PGraph.get (specUpsertOne g (k, m)) k).isSome := by
        unfold specUpsertOne
        cases hg : PGraph.get g k with
        | none => simp only; rw [pget_append_none _ _ _ hg]; simp [PGraph.get]
        | some y => simp only; rw [pget_set_self _ _ _ (by rw [hg]; rfl)]; rfl
      rw [specUpsertOne_of_isSome _ (k, n) h1]
      rw [specUpsert_set_comm rest _ k _ h1 hnd.1]
      rw [specUpsertOne_of_isSome _ (k, n) (specUpsert_isSome rest _ k h1)]
    · simp only [get, hk, if_false] at hs
      simp only [set, hk, if_false]
      rw [specUpsert_cons, specUpsert_cons]
      exact ih _ u n hnd.2 hs

theorem specUpsert_dstep (g : PGraph α) (b : List (α × Node α)) (e : α × Node α) (hnd : (keys b).Nodup) :
    specUpsert g (dstep b e) = specUpsertOne (specUpsert g b) e := by
  unfold dstep
  cases hg : get b e.1 with
  | some m => exact specUpsert_set b g e.1 e.2 hnd (by rw [hg]; rfl)
  | none =>
    simp only
    rw [specUpsert_append, specUpsert_cons]
    rfl

theorem specUpsert_dfold (g : PGraph α) (es : List (α × Node α)) : ∀ b : List (α × Node α), (keys b).Nodup →
    specUpsert g (es.foldl dstep b) = specUpsert (specUpsert g b) es := by
  induction es with
  | nil => intro b _; rfl
  | cons e es ih =>
    intro b hnd
    simp only [List.foldl_cons]
    rw [ih _ (dstep_nodup b e hnd), specUpsert_dstep g b e hnd, specUpsert_cons]

/-- the spec result of an upsert call is the same for the collection and for its deduped batch: for a uid
    named several times the last value wins, and a new record appears where its first occurrence put it -/
theorem specUpsert_dedup (g : PGraph α) (es : List (α × Node α)) :
    specUpsert g (dedupLastAtFirstPos es) = specUpsert g es := by
  rw [dedup_eq, specUpsert_dfold g es [] (by simp [keys])]
  rfl

end Cedar.TC
