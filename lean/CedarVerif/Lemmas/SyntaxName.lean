import CedarVerif.Lemmas.SyntaxRec
/-
C05: names (`Name`, entity-uid literals, the type after `is`), method / function dispatch, atoms and bracketed
primaries as `MemK`.
-/
namespace Cedar.Syntax
open Cedar

/-- evaluates `String.splitOn` on closed strings (the kernel cannot: well-founded recursion over byte positions) -/
macro "split_on_eval" : tactic =>
  `(tactic| (simp [String.splitOn]; repeat (rw [String.splitOnAux]; simp (config := {decide := true}))))

theorem splitOn_empty : "".splitOn "::" = [""] := by split_on_eval

/-! ### names -/

theorem typeName_split {ty : String} (h : typeNameOk ty = true) :
    ∃ c cs, ty.splitOn "::" = c :: cs ∧ (c :: cs).all unreservedIdent = true ∧ joinName (c :: cs) = ty := by
  unfold typeNameOk at h
  simp only [Bool.and_eq_true, beq_iff_eq] at h
  cases hs : ty.splitOn "::" with
  | nil =>
    rw [hs] at h
    have : ty = "" := by rw [← h.2]; simp [joinName]
    subst this
    rw [splitOn_empty] at hs
    cases hs
  | cons c cs =>
    rw [hs] at h
    refine ⟨c, cs, rfl, ?_, h.2⟩
    have h1 := h.1
    simp only [List.all_eq_true, Bool.and_eq_true] at h1 ⊢
    exact fun x hx => (h1 x hx).2

theorem pathRest_flatMap : ∀ (cs : List String) (R : List Token), (∀ s r, R ≠ .dcolon :: .ident s :: r) →
    pathRest (cs.flatMap (fun x => [Token.dcolon, Token.ident x]) ++ R) = (cs, R)
  | [], R, h => by
    simp only [List.flatMap_nil, List.nil_append]
    unfold pathRest
    split
    · exact absurd rfl (h _ _)
    · rfl
  | c :: cs, R, h => by simp [pathRest, pathRest_flatMap cs R h]

theorem primary_euid (me : Char → Bool) (pe : P EOS) (u : EntityUID) (h : typeNameOk u.ty = true) (R : List Token) :
    primary pe (nameTokens u.ty ++ (.dcolon :: strTok me u.eid :: R)) = some (.expr (.lit (.entityUID u)), R) := by
  obtain ⟨c, cs, hs, hall, hj⟩ := typeName_split h
  simp only [nameTokens, hs, List.cons_append, strTok]
  rw [primary]
  simp only [pathRest_flatMap cs (.dcolon :: .str (escapeStr me u.eid.toList) :: R) (by intro s r h; cases h)]
  simp only [hall, if_true, strOfRaw_escapeStr, Option.map_some, hj]

theorem unreserved_ne {c : String} (h : unreservedIdent c = true) : c ≠ "true" ∧ c ≠ "false" ∧ c ≠ "if" := by
  refine ⟨?_, ?_, ?_⟩ <;> (intro hc; subst hc; revert h; decide)

theorem varOfName_some {s : String} {v : Var} (h : varOfName s = some v) : varName v = s := by
  unfold varOfName at h
  split at h
  · cases h; simp_all [varName]
  · split at h
    · cases h; simp_all [varName]
    · split at h
      · cases h; simp_all [varName]
      · split at h
        · cases h; simp_all [varName]
        · cases h

theorem dropLast_getLast (c : String) : ∀ (l : List String), l ≠ [] → l.dropLast ++ [l.getLast?.getD c] = l
  | [], h => absurd rfl h
  | [x], _ => rfl
  | x :: y :: l, _ => by
    have := dropLast_getLast c (y :: l) (by simp)
    simp only [List.dropLast_cons_cons, List.getLast?_cons_cons, List.cons_append, this]

/-- the type name after `is`, read at the `Add` level -/
theorem add_typeName (pe : P EOS) (ty : String) (h : typeNameOk ty = true) (R : List Token) (hR : headLv R = 7) :
    ∃ x, add pe (nameTokens ty ++ R) = some (x, R) ∧ x.toTypeName = some ty := by
  obtain ⟨c, cs, hs, hall, hj⟩ := typeName_split h
  have hc : unreservedIdent c = true := by simp only [List.all_cons, Bool.and_eq_true] at hall; exact hall.1
  obtain ⟨hc1, hc2, hc3⟩ := unreserved_ne hc
  simp only [nameTokens, hs, List.cons_append]
  have hplain : startsPlain (Token.ident c :: (cs.flatMap (fun x => [Token.dcolon, Token.ident x]) ++ R)) = true := by
    simp [startsPlain, hc3]
  have hR1 : 1 ≤ headLv R := by omega
  suffices hp : ∃ x, primary pe (Token.ident c :: (cs.flatMap (fun x => [Token.dcolon, Token.ident x]) ++ R)) = some (x, R) ∧
      x.toTypeName = some ty by
    obtain ⟨x, hx1, hx2⟩ := hp
    exact ⟨x, m_add (member_of_primary hx1 hR1) hplain (by omega), hx2⟩
  cases cs with
  | nil =>
    simp only [List.flatMap_nil, List.nil_append]
    rw [primary_ident' pe c (noPath_of_lv hR1)]
    simp only [hc1, hc2, if_false, hc, if_true]
    cases hv : varOfName c with
    | some v => exact ⟨.var v, rfl, by simp [EOS.toTypeName, varOfName_some hv, ← hj, joinName]⟩
    | none => exact ⟨.name [] c, rfl, by simp [EOS.toTypeName, ← hj]⟩
  | cons c2 cs' =>
    refine ⟨.name (c :: c2 :: cs').dropLast ((c :: c2 :: cs').getLast?.getD c), ?_, ?_⟩
    · rw [primary]
      simp only [pathRest_flatMap (c2 :: cs') R (by
        intro s r h; subst h; simp [headLv, tokLevel] at hR)]
      simp only [hall, if_true]
      cases R with
      | nil => rfl
      | cons t r => cases t <;> first | rfl | simp [headLv, tokLevel] at hR
    · simp only [EOS.toTypeName, dropLast_getLast c (c :: c2 :: cs') (by simp), hj]

/-! ### dispatch -/

theorem toMeth_ext {fn : String} (h : isExtMethod fn = true) (e : Expr) (args : List Expr) :
    toMeth fn e args = some (.call fn (e :: args)) ∧ unreservedIdent fn = true := by
  simp only [isExtMethod, extMethods, List.contains_cons, List.contains_nil, Bool.or_false, Bool.or_eq_true, beq_iff_eq] at h
  rcases h with h | h | h | h | h | h | h | h | h | h | h | h | h | h | h | h | h | h <;> subst h <;>
    exact ⟨by simp [toMeth, isExtMethod, extMethods], by decide⟩

theorem extFunction_facts {fn : String} (h : isExtFunction fn = true) (args : List Expr) :
    intoFunc [] fn args = some (.call fn args) ∧ isExtMethod fn = false ∧ nameTokens fn = [.ident fn] ∧
      unreservedIdent fn = true ∧ varOfName fn = none := by
  simp only [isExtFunction, extFunctions, List.contains_cons, List.contains_nil, Bool.or_false, Bool.or_eq_true, beq_iff_eq] at h
  rcases h with h | h | h | h | h <;> subst h <;>
    refine ⟨by simp [intoFunc, isExtMethod, extMethods, isExtFunction, extFunctions, builtinMethods], by decide, ?_, by decide, by decide⟩ <;>
    (unfold nameTokens; split_on_eval)

end Cedar.Syntax
