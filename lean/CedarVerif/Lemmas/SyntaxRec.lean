import CedarVerif.Lemmas.SyntaxMem
/-
C05: record initialisers (`Comma<RecInit>`, `ExprBuilder::record`), names (`Name`, entity-uid literals, the type after
`is`), method / function dispatch.
-/
namespace Cedar.Syntax
open Cedar

/-! ### records -/

theorem keyTok_ne_if (me : Char → Bool) (k : String) : keyTok me k ≠ .ident "if" := by
  unfold keyTok
  split
  · rename_i h
    intro hc
    simp only [Token.ident.injEq] at hc
    subst hc
    revert h
    decide
  · simp [strTok]

theorem keyTok_ne_rbrace (me : Char → Bool) (k : String) : keyTok me k ≠ .rbrace := by
  unfold keyTok
  split <;> simp [strTok]

/-- what the induction supplies for a record key -/
def KeyOK (me : Char → Bool) (pe : P EOS) : Prop :=
  ∀ k rest, ∃ x, pe (keyTok me k :: .colon :: rest) = some (x, .colon :: rest) ∧ x.toAttr = some k

theorem recInits_one {pe : P EOS} (me : Char → Bool) (hk : KeyOK me pe) (f : Nat) (k : String) (e : Expr) (T rest1 : List Token)
    {s : EOS} (hp : pe T = some (s, rest1)) (hs : s.toExpr = some e) :
    recInits pe (f + 1) (keyTok me k :: .colon :: T) =
      match rest1 with
      | .comma :: rest' =>
        match recInits pe f rest' with
        | none => none
        | some (kvs, r) => some ((k, e) :: kvs, r)
      | .rbrace :: rest' => some ([(k, e)], rest')
      | _ => none := by
  obtain ⟨x, hx1, hx2⟩ := hk k T
  rw [recInits]
  · simp only [keyTok_ne_rbrace, if_false, hx1, hx2, Option.map_some, hp, hs]
    cases rest1 with
    | nil => rfl
    | cons t' r' => cases t' <;> rfl
  · intro tail h _; exact absurd h (keyTok_ne_if me k)

theorem recInits_tail (me : Char → Bool) (pe : P EOS) (hk : KeyOK me pe) (R : List Token) :
    ∀ (kvs : List (String × Expr)) (k : String) (e : Expr), TopOK me pe e → (∀ kv ∈ kvs, TopOK me pe kv.2) →
      ∀ fuel, kvs.length + 1 ≤ fuel →
      recInits pe fuel (keyTok me k :: .colon :: (printE me e ++ (printKVsTail me kvs ++ .rbrace :: R))) = some ((k, e) :: kvs, R) := by
  intro kvs
  induction kvs with
  | nil =>
    intro k e he _ fuel hf
    obtain ⟨f, rfl⟩ : ∃ f, fuel = f + 1 := ⟨fuel - 1, by omega⟩
    obtain ⟨s, h1, h2⟩ := he (.rbrace :: R) (by simp [headLv, tokLevel])
    simp only [printKVsTail, List.nil_append]
    rw [recInits_one me hk f k e _ _ h1 h2]
  | cons kv kvs ih =>
    intro k e he hes fuel hf
    obtain ⟨k2, e2⟩ := kv
    obtain ⟨f, rfl⟩ : ∃ f, fuel = f + 1 := ⟨fuel - 1, by omega⟩
    obtain ⟨s, h1, h2⟩ := he (.comma :: keyTok me k2 :: .colon :: (printE me e2 ++ (printKVsTail me kvs ++ .rbrace :: R))) (by simp [headLv, tokLevel])
    simp only [printKVsTail, List.cons_append, List.append_assoc]
    rw [recInits_one me hk f k e _ _ h1 h2]
    simp only [List.length_cons] at hf
    simp only [ih k2 e2 (hes (k2, e2) (by simp)) (fun a ha => hes a (by simp [ha])) f (by omega)]

theorem printKVsTail_length (me : Char → Bool) : ∀ kvs, kvs.length ≤ (printKVsTail me kvs).length
  | [] => by simp
  | (k, e) :: kvs => by have := printKVsTail_length me kvs; simp only [printKVsTail, List.length_cons, List.length_append]; omega

theorem recInits_print (me : Char → Bool) (pe : P EOS) (hk : KeyOK me pe) (R : List Token) (kvs : List (String × Expr))
    (hes : ∀ kv ∈ kvs, TopOK me pe kv.2) :
    recInits pe ((printKVs me kvs ++ .rbrace :: R).length + 1) (printKVs me kvs ++ .rbrace :: R) = some (kvs, R) := by
  cases kvs with
  | nil => simp [printKVs, recInits]
  | cons kv kvs =>
    obtain ⟨k, e⟩ := kv
    simp only [printKVs, List.cons_append, List.append_assoc]
    exact recInits_tail me pe hk R kvs k e (hes (k, e) (by simp)) (fun a ha => hes a (by simp [ha])) _
      (by have := printKVsTail_length me kvs; simp only [List.length_append, List.length_cons]; omega)

theorem sortedKeys3_tail {kv : String × Expr} {kvs : List (String × Expr)} (h : sortedKeys3 (kv :: kvs) = true) :
    sortedKeys3 kvs = true := by
  cases kvs with
  | nil => rfl
  | cons kv2 kvs => obtain ⟨k1, v1⟩ := kv; obtain ⟨k2, v2⟩ := kv2; simp only [sortedKeys3, Bool.and_eq_true] at h; exact h.2

theorem sortedKeys3_lt {k : String} {v : Expr} : ∀ {kvs : List (String × Expr)}, sortedKeys3 ((k, v) :: kvs) = true →
    ∀ y ∈ kvs, k < y.1
  | [], _, y, hy => by cases hy
  | (k2, v2) :: kvs, h, y, hy => by
    simp only [sortedKeys3, Bool.and_eq_true, decide_eq_true_eq] at h
    cases hy with
    | head => exact h.1
    | tail _ hy' =>
      have h2 : sortedKeys3 ((k2, v2) :: kvs) = true := h.2
      exact String.lt_trans h.1 (sortedKeys3_lt h2 y hy')

theorem hasDupKey_sorted : ∀ {kvs : List (String × Expr)}, sortedKeys3 kvs = true → hasDupKey kvs = false
  | [], _ => rfl
  | (k, v) :: kvs, h => by
    simp only [hasDupKey, Bool.or_eq_false_iff]
    refine ⟨?_, hasDupKey_sorted (sortedKeys3_tail h)⟩
    rw [List.any_eq_false]
    intro y hy
    have := sortedKeys3_lt h y hy
    intro hc
    simp only [beq_iff_eq] at hc
    rw [hc] at this
    exact String.lt_irrefl _ this

theorem foldr_insertKV_sorted : ∀ {kvs : List (String × Expr)}, sortedKeys3 kvs = true → kvs.foldr insertKV [] = kvs
  | [], _ => rfl
  | [(k, v)], _ => rfl
  | (k, v) :: (k2, v2) :: kvs, h => by
    have ih := foldr_insertKV_sorted (sortedKeys3_tail h)
    simp only [sortedKeys3, Bool.and_eq_true, decide_eq_true_eq] at h
    rw [List.foldr_cons, ih]
    simp [insertKV, h.1]

theorem mkRecord_sorted {kvs : List (String × Expr)} (h : sortedKeys3 kvs = true) : mkRecord kvs = some (.record kvs) := by
  simp [mkRecord, hasDupKey_sorted h, foldr_insertKV_sorted h]

end Cedar.Syntax
