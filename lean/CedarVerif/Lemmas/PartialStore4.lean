import CedarVerif.Lemmas.PartialStore3
/-
C13, partial stores / residual contexts / template-linked policies at the policy and policy-set level:
slot-free residuals evaluate independently of the slot environment (the residual policy `reauthorize` builds is static),
policy-level agreement `PolicyAgrees` and `Consistent` from `pinterp_sound3`, and the concrete authorizer expressed by
`concreteDecision` / `determining`.
-/
namespace Cedar
namespace PS

/-! ### slots -/

mutual
theorem hasSlot_toExpr : ∀ v : Value, v.toExpr.hasSlot = false
  | .prim p => by simp [Value.toExpr, Expr.hasSlot]
  | .ext x => by
    cases x with
    | decimal d => simp [Value.toExpr, Ext.toExpr, Expr.hasSlot, Expr.hasSlotList]
    | duration d => simp [Value.toExpr, Ext.toExpr, Expr.hasSlot, Expr.hasSlotList]
    | datetime d => simp [Value.toExpr, Ext.toExpr, Expr.hasSlot, Expr.hasSlotList]
    | ipaddr v6 a p => cases v6 <;> simp [Value.toExpr, Ext.toExpr, Expr.hasSlot, Expr.hasSlotList]
  | .set vs => by simp [Value.toExpr, Expr.hasSlot, hasSlot_toExprList vs]
  | .record kvs => by simp [Value.toExpr, Expr.hasSlot, hasSlot_toExprKVs kvs]
theorem hasSlot_toExprList : ∀ vs : List Value, Expr.hasSlotList (Value.toExprList vs) = false
  | [] => by simp [Value.toExprList, Expr.hasSlotList]
  | v :: vs => by simp [Value.toExprList, Expr.hasSlotList, hasSlot_toExpr v, hasSlot_toExprList vs]
theorem hasSlot_toExprKVs : ∀ kvs : List (String × Value), Expr.hasSlotKVs (Value.toExprKVs kvs) = false
  | [] => by simp [Value.toExprKVs, Expr.hasSlotKVs]
  | (k, v) :: kvs => by simp [Value.toExprKVs, Expr.hasSlotKVs, hasSlot_toExpr v, hasSlot_toExprKVs kvs]
end

mutual
theorem hasSlot_substUnk (σ : Mapper) : ∀ e : Expr, (e.substUnk σ).hasSlot = e.hasSlot
  | .lit _ => by simp [Expr.substUnk]
  | .var _ => by simp [Expr.substUnk]
  | .slot _ => by simp [Expr.substUnk]
  | .unknown n ty => by
    simp only [Expr.substUnk]
    cases lookupKV σ n with
    | none => rfl
    | some v => simp [hasSlot_toExpr v, Expr.hasSlot]
  | .ite c t e => by simp [Expr.substUnk, Expr.hasSlot, hasSlot_substUnk σ c, hasSlot_substUnk σ t, hasSlot_substUnk σ e]
  | .and a b => by simp [Expr.substUnk, Expr.hasSlot, hasSlot_substUnk σ a, hasSlot_substUnk σ b]
  | .or a b => by simp [Expr.substUnk, Expr.hasSlot, hasSlot_substUnk σ a, hasSlot_substUnk σ b]
  | .unaryApp _ a => by simp [Expr.substUnk, Expr.hasSlot, hasSlot_substUnk σ a]
  | .binaryApp _ a b => by simp [Expr.substUnk, Expr.hasSlot, hasSlot_substUnk σ a, hasSlot_substUnk σ b]
  | .call _ args => by simp [Expr.substUnk, Expr.hasSlot, hasSlot_substUnkList σ args]
  | .getAttr e _ => by simp [Expr.substUnk, Expr.hasSlot, hasSlot_substUnk σ e]
  | .hasAttr e _ => by simp [Expr.substUnk, Expr.hasSlot, hasSlot_substUnk σ e]
  | .like e _ => by simp [Expr.substUnk, Expr.hasSlot, hasSlot_substUnk σ e]
  | .is e _ => by simp [Expr.substUnk, Expr.hasSlot, hasSlot_substUnk σ e]
  | .set xs => by simp [Expr.substUnk, Expr.hasSlot, hasSlot_substUnkList σ xs]
  | .record kvs => by simp [Expr.substUnk, Expr.hasSlot, hasSlot_substUnkKVs σ kvs]
theorem hasSlot_substUnkList (σ : Mapper) : ∀ xs : List Expr, Expr.hasSlotList (Expr.substUnkList σ xs) = Expr.hasSlotList xs
  | [] => rfl
  | x :: xs => by simp [Expr.substUnkList, Expr.hasSlotList, hasSlot_substUnk σ x, hasSlot_substUnkList σ xs]
theorem hasSlot_substUnkKVs (σ : Mapper) : ∀ kvs : List (String × Expr),
    Expr.hasSlotKVs (Expr.substUnkKVs σ kvs) = Expr.hasSlotKVs kvs
  | [] => rfl
  | (k, x) :: kvs => by simp [Expr.substUnkKVs, Expr.hasSlotKVs, hasSlot_substUnk σ x, hasSlot_substUnkKVs σ kvs]
end

section
variable (req : Request) (es : Entities) (env env' : SlotEnv)

mutual
/-- a slot-free expression evaluates independently of the slot environment -/
theorem evaluate_env : ∀ e : Expr, e.hasSlot = false → evaluate req es env e = evaluate req es env' e
  | .lit _, _ => by simp [evaluate]
  | .var v, _ => by cases v <;> simp [evaluate]
  | .slot _, h => by simp [Expr.hasSlot] at h
  | .unknown _ _, _ => by simp [evaluate]
  | .ite c t e, h => by
    simp only [Expr.hasSlot, Bool.or_eq_false_iff] at h
    simp only [evaluate, evaluate_env c h.1.1, evaluate_env t h.1.2, evaluate_env e h.2]
  | .and a b, h => by
    simp only [Expr.hasSlot, Bool.or_eq_false_iff] at h
    simp only [evaluate, evaluate_env a h.1, evaluate_env b h.2]
  | .or a b, h => by
    simp only [Expr.hasSlot, Bool.or_eq_false_iff] at h
    simp only [evaluate, evaluate_env a h.1, evaluate_env b h.2]
  | .unaryApp _ a, h => by
    simp only [Expr.hasSlot] at h
    simp only [evaluate, evaluate_env a h]
  | .binaryApp _ a b, h => by
    simp only [Expr.hasSlot, Bool.or_eq_false_iff] at h
    simp only [evaluate, evaluate_env a h.1, evaluate_env b h.2]
  | .call _ args, h => by
    simp only [Expr.hasSlot] at h
    simp only [evaluate, evaluateList_env args h]
  | .getAttr e _, h => by
    simp only [Expr.hasSlot] at h
    simp only [evaluate, evaluate_env e h]
  | .hasAttr e _, h => by
    simp only [Expr.hasSlot] at h
    simp only [evaluate, evaluate_env e h]
  | .like e _, h => by
    simp only [Expr.hasSlot] at h
    simp only [evaluate, evaluate_env e h]
  | .is e _, h => by
    simp only [Expr.hasSlot] at h
    simp only [evaluate, evaluate_env e h]
  | .set xs, h => by
    simp only [Expr.hasSlot] at h
    simp only [evaluate, evaluateList_env xs h]
  | .record kvs, h => by
    simp only [Expr.hasSlot] at h
    simp only [evaluate, evaluateKVs_env kvs h]
theorem evaluateList_env : ∀ xs : List Expr, Expr.hasSlotList xs = false →
    evaluateList req es env xs = evaluateList req es env' xs
  | [], _ => by simp [evaluateList]
  | x :: xs, h => by
    simp only [Expr.hasSlotList, Bool.or_eq_false_iff] at h
    simp only [evaluateList, evaluate_env x h.1, evaluateList_env xs h.2]
theorem evaluateKVs_env : ∀ kvs : List (String × Expr), Expr.hasSlotKVs kvs = false →
    evaluateKVs req es env kvs = evaluateKVs req es env' kvs
  | [], _ => by simp [evaluateKVs]
  | (k, x) :: kvs, h => by
    simp only [Expr.hasSlotKVs, Bool.or_eq_false_iff] at h
    simp only [evaluateKVs, evaluate_env x h.1, evaluateKVs_env kvs h.2]
end

theorem Y_env (σ : Mapper) {r : Expr} (h : r.hasSlot = false) : Y σ req es env r = Y σ req es env' r := by
  simp only [Y]
  exact evaluate_env req es env env' _ (by rw [hasSlot_substUnk]; exact h)

end

/-! ### policy level -/

theorem outcomeOf_agree {a y : Result Value} (h : Agree a y) : outcomeOf a = .sat ↔ outcomeOf y = .sat := by
  rcases h with ⟨v, rfl, rfl⟩ | ⟨c, c', rfl, rfl⟩
  · exact Iff.rfl
  · simp [outcomeOf]

/-- no residual of the partial response kept a template slot (`residualPoliciesPanic = false`), policy by policy -/
theorem noSlot_of_panicFree (preq : PRequest) (pes : PEntities) (ps : List Policy)
    (hslot : (isAuthorizedCore [] preq pes ps).residualPoliciesPanic = false) {p : Policy} (hp : p ∈ ps) {r : Expr}
    (hr : partialEvaluate [] preq pes p = .residual r) : r.hasSlot = false := by
  have S := core_spec [] pes preq ps
  unfold PartialResponse.residualPoliciesPanic at hslot
  simp only [Bool.or_eq_false_iff, List.any_eq_false] at hslot
  cases he : p.effect with
  | permit =>
    have hm : (p.id, r) ∈ (isAuthorizedCore [] preq pes ps).residualPermits := (S.rp p.id r).mpr (Or.inr ⟨p, hp, rfl, he, hr⟩)
    have := hslot.1 _ hm
    simpa using this
  | forbid =>
    have hm : (p.id, r) ∈ (isAuthorizedCore [] preq pes ps).residualForbids := (S.rf p.id r).mpr (Or.inr ⟨p, hp, rfl, he, hr⟩)
    have := hslot.2 _ hm
    simpa using this

section
variable (σ : Mapper) (req : Request) (es : Entities)

/-- policy-level agreement for a (static or template-linked) policy of the fragment, a partial store completed by `es`
    and a possibly residual context; the second pass runs on an arbitrary store `pes2` for which the second pass on a
    fragment residual computes `evaluate ∘ substUnk σ` (`hbr`: `bridge` for the substituted store, `bridge_direct` for the
    unsubstituted store with direct unknowns only) -/
theorem policyAgreesOn_of_sound (pes2 : PEntities)
    (hbr : ∀ r, Frag2 σ r → ∀ n, Sem (pinterp σ (.ofConcrete req) pes2 [] n r) (evaluate req es [] (r.substUnk σ)))
    (preq : PRequest) (pes : PEntities)
    (p : Policy) (hS' : Sound2 σ req es p.env (Y σ req es p.env p.condition) (pinterp [] preq pes p.env defaultFuel p.condition))
    (hsub : p.condition.substUnk σ = p.condition)
    (hslot : ∀ r, partialEvaluate [] preq pes p = .residual r → r.hasSlot = false)
    (hns2 : ∀ q, residualPolicy (partialEvaluate [] preq pes p) p = some q →
      partialEvaluate σ (.ofConcrete req) pes2 q ≠ .stuck)
    (hns1 : partialEvaluate [] preq pes p ≠ .stuck) :
    PolicyAgreesOn pes2 σ preq pes req es p := by
  have hY : Y σ req es p.env p.condition = evaluate req es p.env p.condition := by simp only [Y, hsub]
  rw [hY] at hS'
  have hout : p.outcome req es = outcomeOf (evaluate req es p.env p.condition) := outcome_eq p req es
  have hpe := partialEvaluate_eq [] preq pes p
  have hlitT : ∀ n, Sem (pinterp σ (.ofConcrete req) pes2 [] n (.lit (.bool true))) (evaluate req es [] (.lit (.bool true))) := by
    intro n; simpa [evaluate] using sem_lit (.bool true) σ (.ofConcrete req) pes2 [] n
  have hlitF : ∀ n, Sem (pinterp σ (.ofConcrete req) pes2 [] n (.lit (.bool false))) (evaluate req es [] (.lit (.bool false))) := by
    intro n; simpa [evaluate] using sem_lit (.bool false) σ (.ofConcrete req) pes2 [] n
  have oT : outcomeOf (evaluate req es [] (.lit (.bool true))) = .sat := by simp [evaluate, outcomeOf, Value.asBool]
  have oF : outcomeOf (evaluate req es [] (.lit (.bool false))) = .unsat := by simp [evaluate, outcomeOf, Value.asBool]
  rw [hpe] at hns2 hns1 hslot
  unfold PolicyAgreesOn
  rw [hpe]
  cases hx : pinterp [] preq pes p.env defaultFuel p.condition with
  | fuel => rw [hx] at hns1; exact (hns1 rfl).elim
  | panic => rw [hx] at hns1; exact (hns1 rfl).elim
  | err c =>
    rw [hx] at hS' hns2
    obtain ⟨c', hc'⟩ := hS'
    refine ⟨_, rfl, ?_⟩
    have h := agrees_wrap_on σ req es pes2 p.id p.effect hlitF (hns2 _ rfl)
    refine transfer ?_ h
    rw [hout, hc', oF]; simp [outcomeOf]
  | res r =>
    rw [hx] at hS' hns2 hslot
    have hns : r.hasSlot = false := hslot r rfl
    refine ⟨_, rfl, ?_⟩
    have hsem : ∀ n, Sem (pinterp σ (.ofConcrete req) pes2 [] n r) (evaluate req es [] (r.substUnk σ)) :=
      fun n => hbr r hS'.2.2 n
    have h := agrees_wrap_on σ req es pes2 p.id p.effect hsem (hns2 _ rfl)
    refine transfer ?_ h
    have e1 : evaluate req es [] (r.substUnk σ) = Y σ req es p.env r := Y_env req es [] p.env σ hns
    rw [e1, hout]
    exact outcomeOf_agree hS'.1
  | val v =>
    rw [hx] at hS' hns2
    obtain ⟨hev, _⟩ := hS'
    simp only [classOf] at hns2 ⊢
    cases hb : v.asBool with
    | error c =>
      rw [hb] at hns2
      refine ⟨_, rfl, ?_⟩
      have h := agrees_wrap_on σ req es pes2 p.id p.effect hlitF (hns2 _ rfl)
      refine transfer ?_ h
      rw [hout, hev, oF]; simp [outcomeOf, hb]
    | ok b =>
      cases b with
      | true =>
        rw [hb] at hns2
        refine ⟨_, rfl, ?_⟩
        have h := agrees_wrap_on σ req es pes2 p.id p.effect hlitT (hns2 _ rfl)
        refine transfer ?_ h
        rw [hout, hev, oT]; simp [outcomeOf, hb]
      | false =>
        rw [hb] at hns2
        refine ⟨_, rfl, ?_⟩
        have h := agrees_wrap_on σ req es pes2 p.id p.effect hlitF (hns2 _ rfl)
        refine transfer ?_ h
        rw [hout, hev, oF]; simp [outcomeOf, hb]

/-- … the second pass runs on the substituted store `es` (as `reauthorize` documents) -/
theorem policyAgrees_of_sound (hctx : (Value.record req.context).Canon) (hstore : StoreCanon es)
    (preq : PRequest) (pes : PEntities)
    (p : Policy) (hS' : Sound2 σ req es p.env (Y σ req es p.env p.condition) (pinterp [] preq pes p.env defaultFuel p.condition))
    (hsub : p.condition.substUnk σ = p.condition)
    (hslot : ∀ r, partialEvaluate [] preq pes p = .residual r → r.hasSlot = false)
    (hns2 : ∀ q, residualPolicy (partialEvaluate [] preq pes p) p = some q →
      partialEvaluate σ (.ofConcrete req) (.ofConcrete es) q ≠ .stuck)
    (hns1 : partialEvaluate [] preq pes p ≠ .stuck) :
    PolicyAgrees σ preq pes req es p :=
  policyAgreesOn_of_sound σ req es (.ofConcrete es) (fun _ hf n => bridge σ req es [] hctx hstore hf n)
    preq pes p hS' hsub hslot hns2 hns1

/-- what partial evaluation established about a policy of the fragment stays true for the completion: the hypothesis
    `Consistent` of `table_sound`, discharged -/
theorem consistent_of_sound
    (preq : PRequest) (pes : PEntities)
    (p : Policy) (hS' : Sound2 σ req es p.env (Y σ req es p.env p.condition) (pinterp [] preq pes p.env defaultFuel p.condition))
    (hsub : p.condition.substUnk σ = p.condition)
    (hns1 : partialEvaluate [] preq pes p ≠ .stuck) :
    Consistent (partialEvaluate [] preq pes p) (p.outcome req es) := by
  have hY : Y σ req es p.env p.condition = evaluate req es p.env p.condition := by simp only [Y, hsub]
  rw [hY] at hS'
  have hout : p.outcome req es = outcomeOf (evaluate req es p.env p.condition) := outcome_eq p req es
  have hpe := partialEvaluate_eq [] preq pes p
  rw [hpe] at hns1 ⊢
  rw [hout]
  cases hx : pinterp [] preq pes p.env defaultFuel p.condition with
  | fuel => rw [hx] at hns1; exact (hns1 rfl).elim
  | panic => rw [hx] at hns1; exact (hns1 rfl).elim
  | err c =>
    rw [hx] at hS'
    obtain ⟨c', hc'⟩ := hS'
    rw [hc']; simp [classOf, Consistent, outcomeOf]
  | res r => simp [classOf, Consistent]
  | val v =>
    rw [hx] at hS'
    rw [hS'.1]
    simp only [classOf, outcomeOf]
    cases hb : v.asBool with
    | error c => simp [Consistent]
    | ok b => cases b <;> simp [Consistent]

end

/-! ### the concrete authorizer in terms of `concreteDecision` / `determining` -/

section
variable (req : Request) (es : Entities) (ps : List Policy)

theorem satPermits_nonempty_iff :
    (!(ps.foldl (Buckets.step req es) {}).satPermits.isEmpty) = true ↔ FinalSat ps (fun p => p.outcome req es) .permit := by
  rw [ne_isEmpty_iff]
  constructor
  · rintro ⟨id, hid⟩
    rcases (mem_satPermits req es ps {} id).mp hid with h | ⟨p, hp, _, he, hs⟩
    · cases h
    · exact ⟨p, hp, he, hs⟩
  · rintro ⟨p, hp, he, hs⟩
    exact ⟨p.id, (mem_satPermits req es ps {} p.id).mpr (Or.inr ⟨p, hp, rfl, he, hs⟩)⟩

theorem satForbids_nonempty_iff :
    (!(ps.foldl (Buckets.step req es) {}).satForbids.isEmpty) = true ↔ FinalSat ps (fun p => p.outcome req es) .forbid := by
  rw [ne_isEmpty_iff]
  constructor
  · rintro ⟨id, hid⟩
    rcases (mem_satForbids req es ps {} id).mp hid with h | ⟨p, hp, _, he, hs⟩
    · cases h
    · exact ⟨p, hp, he, hs⟩
  · rintro ⟨p, hp, he, hs⟩
    exact ⟨p.id, (mem_satForbids req es ps {} p.id).mpr (Or.inr ⟨p, hp, rfl, he, hs⟩)⟩

theorem isAuthorized_decision :
    (isAuthorized req es ps).decision = concreteDecision ps (fun p => p.outcome req es) := by
  have hP := satPermits_nonempty_iff req es ps
  have hF := satForbids_nonempty_iff req es ps
  have hA := concreteDecision_allow_iff ps (fun p => p.outcome req es)
  unfold isAuthorized Buckets.concretize
  simp only
  cases hd : concreteDecision ps (fun p => p.outcome req es) with
  | allow =>
    obtain ⟨h1, h2⟩ := hA.mp hd
    have e1 := hP.mpr h1
    have e2 : (ps.foldl (Buckets.step req es) {}).satForbids.isEmpty = true := by
      cases h : (ps.foldl (Buckets.step req es) {}).satForbids.isEmpty with
      | true => rfl
      | false => exact (h2 (hF.mp (by simp [h]))).elim
    simp only [Bool.not_eq_eq_eq_not, Bool.not_true] at e1
    simp [e1, e2]
  | deny =>
    by_cases h : ((!(ps.foldl (Buckets.step req es) {}).satPermits.isEmpty) &&
        (ps.foldl (Buckets.step req es) {}).satForbids.isEmpty) = true
    · exfalso
      simp only [Bool.and_eq_true] at h
      have : concreteDecision ps (fun p => p.outcome req es) = .allow :=
        hA.mpr ⟨hP.mp h.1, fun hf => by have := hF.mpr hf; simp [h.2] at this⟩
      rw [hd] at this; cases this
    · simp only [h, if_false, Bool.false_eq_true]

theorem isAuthorized_reasons (id : String) :
    id ∈ (isAuthorized req es ps).reasons ↔ id ∈ determining ps (fun p => p.outcome req es) := by
  have hF := satForbids_nonempty_iff req es ps
  rw [mem_determining]
  unfold isAuthorized Buckets.concretize
  simp only
  cases h : (ps.foldl (Buckets.step req es) {}).satForbids.isEmpty with
  | true =>
    have hnf : ¬ FinalSat ps (fun p => p.outcome req es) .forbid := fun hf => by have := hF.mpr hf; simp [h] at this
    simp only [if_true, mem_satPermits, List.not_mem_nil, false_or]
    constructor
    · rintro ⟨p, hp, rfl, he, hs⟩; exact Or.inr ⟨hnf, p, hp, rfl, he, hs⟩
    · rintro (⟨hf, _⟩ | ⟨_, p, hp, rfl, he, hs⟩)
      · exact (hnf hf).elim
      · exact ⟨p, hp, rfl, he, hs⟩
  | false =>
    have hf : FinalSat ps (fun p => p.outcome req es) .forbid := hF.mp (by simp [h])
    simp only [Bool.false_eq_true, if_false, mem_satForbids, List.not_mem_nil, false_or]
    constructor
    · rintro ⟨p, hp, rfl, he, hs⟩; exact Or.inl ⟨hf, p, hp, rfl, he, hs⟩
    · rintro (⟨_, p, hp, rfl, he, hs⟩ | ⟨hnf, _⟩)
      · exact ⟨p, hp, rfl, he, hs⟩
      · exact (hnf hf).elim

end

section
variable (σ : Mapper) (req : Request) (es : Entities)

theorem policyAgrees_of_frag3 (hctx : (Value.record req.context).Canon) (hstore : StoreCanon es)
    (preq : PRequest) (pes : PEntities) (hS : StoreCompletes σ pes es) (hC : Concretizes2 σ es preq req)
    (p : Policy) (hf : Frag2 σ p.condition) (hsub : p.condition.substUnk σ = p.condition)
    (hslot : ∀ r, partialEvaluate [] preq pes p = .residual r → r.hasSlot = false)
    (hns2 : ∀ q, residualPolicy (partialEvaluate [] preq pes p) p = some q →
      partialEvaluate σ (.ofConcrete req) (.ofConcrete es) q ≠ .stuck)
    (hns1 : partialEvaluate [] preq pes p ≠ .stuck) :
    PolicyAgrees σ preq pes req es p :=
  policyAgrees_of_sound σ req es hctx hstore preq pes p
    (pinterp_sound3 σ req es p.env hctx [] preq pes hS (MapLE.nil σ) hC defaultFuel p.condition hf) hsub hslot hns2 hns1

theorem consistent_of_frag3 (hctx : (Value.record req.context).Canon)
    (preq : PRequest) (pes : PEntities) (hS : StoreCompletes σ pes es) (hC : Concretizes2 σ es preq req)
    (p : Policy) (hf : Frag2 σ p.condition) (hsub : p.condition.substUnk σ = p.condition)
    (hns1 : partialEvaluate [] preq pes p ≠ .stuck) :
    Consistent (partialEvaluate [] preq pes p) (p.outcome req es) :=
  consistent_of_sound σ req es preq pes p
    (pinterp_sound3 σ req es p.env hctx [] preq pes hS (MapLE.nil σ) hC defaultFuel p.condition hf) hsub hns1

/-- the uids a policy SET can dereference in the first pass (empty mapper): per policy, `mentioned` with its slot environment -/
def mentionedPolicies (preq : PRequest) (pes : PEntities) (ps : List Policy) : List EntityUID :=
  ps.flatMap fun p => mentioned [] preq pes p.env p.condition

theorem sound_of_mentioned (hctx : (Value.record req.context).Canon) (preq : PRequest) (pes : PEntities)
    {U : EntityUID → Prop} (hS : StoreCompletesOn U σ pes es) (hC : Concretizes2 σ es preq req)
    (p : Policy) (hU : ∀ u, u ∈ mentioned [] preq pes p.env p.condition → U u) (hf : Frag2 σ p.condition) :
    Sound2 σ req es p.env (Y σ req es p.env p.condition) (pinterp [] preq pes p.env defaultFuel p.condition) := by
  obtain ⟨h1, h2, h3, h4, h5⟩ := mentioned_closed [] preq pes p.env p.condition
  have hS2 : StoreCompletesOn (fun u => u ∈ mentioned [] preq pes p.env p.condition) σ pes es := by
    intro u
    have := hS u
    cases hfd : PEntities.find? pes.ents u with
    | some d => rw [hfd] at this; exact this
    | none =>
      rw [hfd] at this
      cases hp : pes.partialMode with
      | false => simpa [hp] using this
      | true => simp only [hp, if_true] at this ⊢; exact fun hu => this (hU u hu)
  exact pinterp_sound3_on σ req es p.env hctx [] preq pes _ hS2 (MapLE.nil σ) hC h2 h3 h4 h5 defaultFuel p.condition hf h1

end

/-! ### the recursion-budget side conditions as a computable check (for closed instances) -/

def isStuck : PolicyResult → Bool
  | .stuck => true
  | _ => false

/-- neither pass exhausts the model's recursion budget, for every policy of the list -/
def fuelOK (σ : Mapper) (req : Request) (es : Entities) (preq : PRequest) (pes : PEntities) (ps : List Policy) : Bool :=
  ps.all fun p => !isStuck (partialEvaluate [] preq pes p) &&
    (match residualPolicy (partialEvaluate [] preq pes p) p with
     | some q => !isStuck (partialEvaluate σ (.ofConcrete req) (.ofConcrete es) q)
     | none => true)

theorem fuelOK_spec {σ : Mapper} {req : Request} {es : Entities} {preq : PRequest} {pes : PEntities} {ps : List Policy}
    (h : fuelOK σ req es preq pes ps = true) :
    (∀ p, p ∈ ps → partialEvaluate [] preq pes p ≠ .stuck) ∧
    (∀ p, p ∈ ps → ∀ q, residualPolicy (partialEvaluate [] preq pes p) p = some q →
      partialEvaluate σ (.ofConcrete req) (.ofConcrete es) q ≠ .stuck) := by
  unfold fuelOK at h
  rw [List.all_eq_true] at h
  constructor
  · intro p hp hs
    have := h p hp
    rw [hs] at this
    simp [isStuck] at this
  · intro p hp q hq hs
    have := h p hp
    rw [hq] at this
    simp only [Bool.and_eq_true] at this
    have h2 := this.2
    rw [hs] at h2
    simp [isStuck] at h2

end PS
end Cedar
