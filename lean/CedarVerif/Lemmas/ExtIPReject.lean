import CedarVerif.Lemmas.ExtDigits
/-
General rejection lemmas for `IPAddr.parse` and its components (`readOctet`, `readV4`, `readV6`, `parseAddr`,
`parsePrefix`): leading zeros in an octet / in the prefix length, prefix length out of range, and the
IPv4-in-IPv6 exclusion. Every lemma is followed by a concrete instance.
-/
namespace Cedar.Ext.IPAddr

/-! ## splitting at the first '/' -/

theorem splitOnceSlash_cons_ne (c : Char) (cs : List Char) (hc : c ≠ '/') :
    splitOnceSlash (c :: cs) =
      match splitOnceSlash cs with
      | some (a, b) => some (c :: a, b)
      | none => none := by
  rw [splitOnceSlash]
  · rfl
  · intro h; exact hc h

theorem splitOnceSlash_append (a p : List Char) (ha : '/' ∉ a) : splitOnceSlash (a ++ '/' :: p) = some (a, p) := by
  induction a with
  | nil => rfl
  | cons c cs ih =>
    have hc : c ≠ '/' := fun e => ha (by simp [e])
    have hcs : '/' ∉ cs := fun e => ha (by simp [e])
    rw [List.cons_append, splitOnceSlash_cons_ne c _ hc, ih hcs]

theorem splitOnceSlash_none (a : List Char) (ha : '/' ∉ a) : splitOnceSlash a = none := by
  induction a with
  | nil => rfl
  | cons c cs ih =>
    have hc : c ≠ '/' := fun e => ha (by simp [e])
    have hcs : '/' ∉ cs := fun e => ha (by simp [e])
    rw [splitOnceSlash_cons_ne c _ hc, ih hcs]

/-- if the address text is rejected by `parseAddr`, the literal is rejected, with or without a prefix length -/
theorem parse_none_of_parseAddr_none (s : String) (a : List Char) (ha : '/' ∉ a) (h : parseAddr a = none) :
    (s.toList = a → parse s = none) ∧ (∀ p, s.toList = a ++ '/' :: p → parse s = none) := by
  refine ⟨fun hs => ?_, fun p hs => ?_⟩
  · simp only [parse, hs, splitOnceSlash_none a ha, h]
    split
    · rfl
    · split <;> rfl
  · simp only [parse, hs, splitOnceSlash_append a p ha, h]
    split
    · rfl
    · split <;> rfl

/-! ## (a) an octet with a leading zero -/

/-- `read_number(10, Some(3), false)`: a leading zero followed by another digit is rejected -/
theorem readOctet_leadingZero (d : Char) (rest : List Char) (hd : isDigit d = true) :
    readOctet ('0' :: d :: rest) = none := by
  have h0 : isDigit '0' = true := by decide
  cases hsp : spanDigits rest with
  | mk ds r =>
    simp only [readOctet, spanDigits, h0, hd, if_true, hsp]
    simp
example : readOctet "01.2.3.4".toList = none := readOctet_leadingZero '1' ".2.3.4".toList (by decide)

/-- an all-digit octet text followed by '.' is either rejected or read as its value, leaving the '.' -/
theorem readOctet_digits_dot (o r : List Char) (ho : allDigits o = true) :
    readOctet (o ++ '.' :: r) = none ∨ readOctet (o ++ '.' :: r) = some (natOfDigits o, '.' :: r) := by
  have hsp := spanDigits_append o ('.' :: r) ho (noDigitHead_cons (by decide))
  simp only [readOctet, hsp]
  split
  · exact Or.inl rfl
  · split
    · exact Or.inl rfl
    · split
      · exact Or.inl rfl
      · exact Or.inr rfl

theorem readV4_none_of_first (s : List Char) (h : readOctet s = none) : readV4 s = none := by
  simp [readV4, h]

theorem readV4_leadingZero_1 (d : Char) (rest : List Char) (hd : isDigit d = true) :
    readV4 ('0' :: d :: rest) = none :=
  readV4_none_of_first _ (readOctet_leadingZero d rest hd)

theorem readV4_leadingZero_2 (o1 : List Char) (d : Char) (rest : List Char) (h1 : allDigits o1 = true)
    (hd : isDigit d = true) : readV4 (o1 ++ '.' :: '0' :: d :: rest) = none := by
  rcases readOctet_digits_dot o1 ('0' :: d :: rest) h1 with e1 | e1
  · simp [readV4, e1]
  · simp [readV4, e1, readOctet_leadingZero d rest hd]

theorem readV4_leadingZero_3 (o1 o2 : List Char) (d : Char) (rest : List Char) (h1 : allDigits o1 = true)
    (h2 : allDigits o2 = true) (hd : isDigit d = true) :
    readV4 (o1 ++ '.' :: (o2 ++ '.' :: '0' :: d :: rest)) = none := by
  rcases readOctet_digits_dot o1 (o2 ++ '.' :: '0' :: d :: rest) h1 with e1 | e1
  · simp [readV4, e1]
  · rcases readOctet_digits_dot o2 ('0' :: d :: rest) h2 with e2 | e2
    · simp [readV4, e1, e2]
    · simp [readV4, e1, e2, readOctet_leadingZero d rest hd]

theorem readV4_leadingZero_4 (o1 o2 o3 : List Char) (d : Char) (rest : List Char) (h1 : allDigits o1 = true)
    (h2 : allDigits o2 = true) (h3 : allDigits o3 = true) (hd : isDigit d = true) :
    readV4 (o1 ++ '.' :: (o2 ++ '.' :: (o3 ++ '.' :: '0' :: d :: rest))) = none := by
  rcases readOctet_digits_dot o1 (o2 ++ '.' :: (o3 ++ '.' :: '0' :: d :: rest)) h1 with e1 | e1
  · simp [readV4, e1]
  · rcases readOctet_digits_dot o2 (o3 ++ '.' :: '0' :: d :: rest) h2 with e2 | e2
    · simp [readV4, e1, e2]
    · rcases readOctet_digits_dot o3 ('0' :: d :: rest) h3 with e3 | e3
      · simp [readV4, e1, e2, e3]
      · simp [readV4, e1, e2, e3, readOctet_leadingZero d rest hd]

/-- `o₁.o₂.….` followed by `r` -/
def dotted : List (List Char) → List Char → List Char
  | [], r => r
  | o :: os, r => o ++ '.' :: dotted os r

/-- **leading zero in any of the four octet positions**: whatever digit strings precede it (well-formed octets
    or not), `readV4` rejects -/
theorem readV4_leadingZero (pre : List (List Char)) (d : Char) (rest : List Char)
    (hpre : ∀ o ∈ pre, allDigits o = true) (hlen : pre.length ≤ 3) (hd : isDigit d = true) :
    readV4 (dotted pre ('0' :: d :: rest)) = none := by
  match pre, hpre, hlen with
  | [], _, _ => exact readV4_leadingZero_1 d rest hd
  | [o1], hpre, _ => exact readV4_leadingZero_2 o1 d rest (hpre o1 (by simp)) hd
  | [o1, o2], hpre, _ => exact readV4_leadingZero_3 o1 o2 d rest (hpre o1 (by simp)) (hpre o2 (by simp)) hd
  | [o1, o2, o3], hpre, _ =>
    exact readV4_leadingZero_4 o1 o2 o3 d rest (hpre o1 (by simp)) (hpre o2 (by simp)) (hpre o3 (by simp)) hd
  | _ :: _ :: _ :: _ :: _, _, hlen => simp at hlen
example : readV4 "1.2.3.04".toList = none :=
  readV4_leadingZero ["1".toList, "2".toList, "3".toList] '4' [] (by decide +kernel) (by decide) (by decide)
example : readV4 "10.00.3.4".toList = none :=
  readV4_leadingZero ["10".toList] '0' ".3.4".toList (by decide +kernel) (by decide) (by decide)

/-! ### `readV6` cannot consume a '.' -/

def hexColon (c : Char) : Bool := isHexDigit c || c == ':'

/-- `r` is what is left of `s` after consuming only hex digits and colons -/
def consumes (s r : List Char) : Prop := ∃ pre, s = pre ++ r ∧ pre.all hexColon = true

theorem consumes_refl (s : List Char) : consumes s s := ⟨[], rfl, rfl⟩
theorem consumes_trans {s r t : List Char} (h1 : consumes s r) (h2 : consumes r t) : consumes s t := by
  obtain ⟨p1, e1, a1⟩ := h1
  obtain ⟨p2, e2, a2⟩ := h2
  refine ⟨p1 ++ p2, by rw [e1, e2, List.append_assoc], ?_⟩
  rw [List.all_append, a1, a2]; rfl
theorem consumes_colon (r : List Char) : consumes (':' :: r) r := ⟨[':'], rfl, by decide⟩

theorem spanHex_consumes (s : List Char) : consumes s (spanHex s).2 := by
  induction s with
  | nil => exact consumes_refl _
  | cons c cs ih =>
    by_cases hc : isHexDigit c = true
    · simp only [spanHex, hc, if_true]
      obtain ⟨pre, e, a⟩ := ih
      refine ⟨c :: pre, by rw [List.cons_append, ← e], ?_⟩
      simp only [List.all_cons, hexColon, hc, Bool.true_or, Bool.true_and]
      exact a
    · simp only [spanHex, hc]
      exact consumes_refl _

theorem readGroup_consumes (s : List Char) (g : Nat) (r : List Char) (h : readGroup s = some (g, r)) :
    consumes s r := by
  have hs := spanHex_consumes s
  cases hsp : spanHex s with
  | mk ds rest =>
    rw [hsp] at hs
    simp only [readGroup, hsp] at h
    split at h
    · cases h
    · simp only [Option.some.injEq, Prod.mk.injEq] at h
      rw [← h.2]; exact hs

theorem readGroups_consumes (limit i : Nat) (s : List Char) : consumes s (readGroups limit i s).2 := by
  induction limit generalizing i s with
  | zero => simp only [readGroups]; exact consumes_refl _
  | succ limit ih =>
    unfold readGroups
    generalize hs' : (if i = 0 then some s else _) = o
    cases o with
    | none => exact consumes_refl _
    | some s' =>
      have hc : consumes s s' := by
        split at hs'
        · cases hs'; exact consumes_refl _
        · split at hs'
          · cases hs'; exact consumes_colon _
          · cases hs'
      dsimp only
      cases hg : readGroup s' with
      | none => exact consumes_refl _
      | some p =>
        obtain ⟨g, r⟩ := p
        have h1 := readGroup_consumes s' g r hg
        have h2 := ih (i + 1) r
        dsimp only
        cases hrg : readGroups limit (i + 1) r with
        | mk gs r' =>
          rw [hrg] at h2
          exact consumes_trans hc (consumes_trans h1 h2)

theorem readV6_consumes (s : List Char) (a : Nat) (r : List Char) (h : readV6 s = some (a, r)) : consumes s r := by
  have h1 := readGroups_consumes 8 0 s
  cases hrg : readGroups 8 0 s with
  | mk head r0 =>
    rw [hrg] at h1
    simp only [readV6, hrg] at h
    split at h
    · simp only [Option.some.injEq, Prod.mk.injEq] at h
      rw [← h.2]; exact h1
    · split at h
      · rename_i r1
        have h2 := readGroups_consumes (8 - (head.length + 1)) 0 r1
        cases hrg2 : readGroups (8 - (head.length + 1)) 0 r1 with
        | mk tail r2 =>
          rw [hrg2] at h2
          simp only [hrg2, Option.some.injEq, Prod.mk.injEq] at h
          rw [← h.2]
          exact consumes_trans h1 (consumes_trans (consumes_colon _) (consumes_trans (consumes_colon _) h2))
      · cases h

/-- `readV6` never accepts (consumes entirely) a text that contains a '.' -/
theorem readV6_dot (s : List Char) (hdot : '.' ∈ s) (a : Nat) : readV6 s ≠ some (a, []) := by
  intro h
  obtain ⟨pre, e, hall⟩ := readV6_consumes s a [] h
  rw [List.append_nil] at e
  subst e
  have := List.all_eq_true.mp hall '.' hdot
  revert this; decide
example : ∀ a, readV6 "1::2.3".toList ≠ some (a, []) := readV6_dot _ (by decide +kernel)
example : readV6 "1::2.3".toList = some (0x10000000000000000000000000002, ".3".toList) := by decide +kernel

/-- a text with a '.' that `readV4` does not accept entirely is not an address -/
theorem parseAddr_none_of_dot (s : List Char) (hdot : '.' ∈ s) (h4 : ∀ a, readV4 s ≠ some (a, [])) :
    parseAddr s = none := by
  unfold parseAddr
  split
  · rename_i a h; exact absurd h (h4 a)
  · split
    · rename_i a h; exact absurd h (readV6_dot s hdot a)
    · rfl

example : parseAddr "1.2.3".toList = none :=
  parseAddr_none_of_dot _ (by decide +kernel) (fun a h => by
    have : readV4 "1.2.3".toList = none := by decide +kernel
    rw [this] at h; cases h)

/-- **dotted-quad text with a leading zero in some octet** (`rest` is what follows the offending `0d`; the text
    must contain a '.', which holds as soon as `pre ≠ []` — without any '.', `"01::"` is a valid IPv6 address):
    rejected by `IPAddr.parse`, with or without a prefix length -/
theorem parse_v4_leadingZero (s : String) (pre : List (List Char)) (d : Char) (rest : List Char)
    (hpre : ∀ o ∈ pre, allDigits o = true) (hlen : pre.length ≤ 3) (hd : isDigit d = true)
    (hdot : '.' ∈ dotted pre ('0' :: d :: rest)) (hslash : '/' ∉ dotted pre ('0' :: d :: rest)) :
    (s.toList = dotted pre ('0' :: d :: rest) → parse s = none) ∧
    (∀ p, s.toList = dotted pre ('0' :: d :: rest) ++ '/' :: p → parse s = none) := by
  apply parse_none_of_parseAddr_none s _ hslash
  apply parseAddr_none_of_dot _ hdot
  intro a
  rw [readV4_leadingZero pre d rest hpre hlen hd]
  exact fun h => nomatch h
example : parse "01.2.3.4" = none :=
  (parse_v4_leadingZero "01.2.3.4" [] '1' ".2.3.4".toList (by decide) (by decide) (by decide)
    (by decide +kernel) (by decide +kernel)).1 (by decide +kernel)
example : parse "1.2.03.4/24" = none :=
  (parse_v4_leadingZero "1.2.03.4/24" ["1".toList, "2".toList] '3' ".4".toList (by decide +kernel) (by decide)
    (by decide) (by decide +kernel) (by decide +kernel)).2 "24".toList (by decide +kernel)

/-! ## (b) the prefix length -/

/-- a prefix length with a leading zero (other than `0` itself) is rejected -/
theorem parsePrefix_leadingZero (d : Char) (rest : List Char) (max maxLen : Nat) :
    parsePrefix ('0' :: d :: rest) max maxLen = none := by
  unfold parsePrefix
  split
  · rfl
  · split
    · rfl
    · simp
example : parsePrefix "032".toList 32 2 = none := parsePrefix_leadingZero '3' "2".toList 32 2

/-- a prefix length above the maximum of the family is rejected -/
theorem parsePrefix_tooBig (p : List Char) (max maxLen : Nat) (h : natOfDigits p > max) :
    parsePrefix p max maxLen = none := by
  unfold parsePrefix
  split
  · rfl
  · split
    · rfl
    · split
      · rfl
      · split
        · rfl
        · simp only [if_pos h]
          split <;> rfl
example : parsePrefix "33".toList 32 2 = none := parsePrefix_tooBig _ 32 2 (by decide +kernel)

/-- lifting: if both family-specific prefix parsers reject `p`, so does `IPAddr.parse` on `a/p` -/
theorem parse_none_of_parsePrefix_none (s : String) (a p : List Char) (ha : '/' ∉ a) (hs : s.toList = a ++ '/' :: p)
    (h : ∀ v6 addr, parseAddr a = some (v6, addr) →
      (if v6 = true then parsePrefix p 128 3 else parsePrefix p 32 2) = none) :
    parse s = none := by
  simp only [parse, hs, splitOnceSlash_append a p ha]
  split
  · rfl
  · split
    · rfl
    · cases hp : parseAddr a with
      | none => rfl
      | some q =>
        obtain ⟨v6, addr⟩ := q
        simp only [h v6 addr hp]

/-- **`a/0d…`**: a prefix length with a leading zero is rejected whatever the address (family) is -/
theorem parse_prefix_leadingZero (s : String) (a : List Char) (d : Char) (rest : List Char) (ha : '/' ∉ a)
    (hs : s.toList = a ++ '/' :: '0' :: d :: rest) : parse s = none := by
  apply parse_none_of_parsePrefix_none s a _ ha hs
  intro v6 addr _
  cases v6 <;> simp only [parsePrefix_leadingZero] <;> rfl
example : parse "1.2.3.4/032" = none :=
  parse_prefix_leadingZero "1.2.3.4/032" "1.2.3.4".toList '3' "2".toList (by decide +kernel) (by decide +kernel)
example : parse "::1/00" = none :=
  parse_prefix_leadingZero "::1/00" "::1".toList '0' [] (by decide +kernel) (by decide +kernel)

/-- **`a/p` with `p` above the family's width** (the family is whatever `parseAddr a` returns) -/
theorem parse_prefix_tooBig (s : String) (a p : List Char) (ha : '/' ∉ a) (hs : s.toList = a ++ '/' :: p)
    (h : ∀ v6 addr, parseAddr a = some (v6, addr) → natOfDigits p > (if v6 = true then 128 else 32)) :
    parse s = none := by
  apply parse_none_of_parsePrefix_none s a p ha hs
  intro v6 addr hp
  have := h v6 addr hp
  cases v6
  · simp only [Bool.false_eq_true, if_false] at this ⊢
    exact parsePrefix_tooBig p 32 2 this
  · simp only [if_true] at this ⊢
    exact parsePrefix_tooBig p 128 3 this

/-- IPv4 address text: prefix length > 32 is rejected -/
theorem parse_prefix_tooBig_v4 (s : String) (a p : List Char) (addr : Nat) (ha : '/' ∉ a)
    (hs : s.toList = a ++ '/' :: p) (h4 : parseAddr a = some (false, addr)) (h : natOfDigits p > 32) :
    parse s = none := by
  apply parse_prefix_tooBig s a p ha hs
  intro v6 addr' hp
  rw [h4] at hp
  simp only [Option.some.injEq, Prod.mk.injEq] at hp
  rw [← hp.1]; exact h

/-- any address text: prefix length > 128 is rejected -/
theorem parse_prefix_tooBig_any (s : String) (a p : List Char) (ha : '/' ∉ a)
    (hs : s.toList = a ++ '/' :: p) (h : natOfDigits p > 128) : parse s = none := by
  apply parse_prefix_tooBig s a p ha hs
  intro v6 addr _
  cases v6
  · simp only [Bool.false_eq_true, if_false]; omega
  · simp only [if_true]; exact h
example : parse "1.2.3.4/33" = none :=
  parse_prefix_tooBig_v4 "1.2.3.4/33" "1.2.3.4".toList "33".toList 0x01020304 (by decide +kernel) (by decide +kernel)
    (by decide +kernel) (by decide +kernel)
example : parse "::1/129" = none :=
  parse_prefix_tooBig_any "::1/129" "::1".toList "129".toList (by decide +kernel) (by decide +kernel)
    (by decide +kernel)

/-! ## (c) IPv4-in-IPv6 -/

/-- **a text with at least two ':' and at least two '.'** (an IPv4-embedded IPv6 address such as
    `::ffff:1.2.3.4`) is rejected (either by the 43-byte length test, which comes first, or by
    `str_contains_colons_and_dots`) -/
theorem parse_colonsAndDots (s : String) (hc : countChar ':' s.toList ≥ 2) (hd : countChar '.' s.toList ≥ 2) :
    parse s = none := by
  have : containsColonsAndDots s.toList = true := by
    simp only [containsColonsAndDots, Bool.and_eq_true, decide_eq_true_eq]
    exact ⟨hc, hd⟩
  simp only [parse, this, if_true]
  split <;> rfl
example : parse "::ffff:1.2.3.4" = none :=
  parse_colonsAndDots "::ffff:1.2.3.4" (by decide +kernel) (by decide +kernel)

end Cedar.Ext.IPAddr
