import CedarVerif.Lemmas.TypecheckPUnion
/-
C03: THE FULL INDUCTION FOR PERMISSIVE MODE.  For every expression with distinct record-literal keys and linked slots,
`typeOf .permissive s env e caps = ok (τ, c')` implies `OkTy τ` (distinct record keys inside, `Never` only as a set element
type) and — under the semantic premises — the soundness invariant `Good`.  No syntactic restriction on `if` branches, set
elements or the operands of `has` `.` `hasTag` `getTag` `in` `is` `<`: their static types may be entity-type unions,
`AnyEntity`, joined (open) record types, `Set<Never>`.  Needs `SchemaND` (schema record types have distinct keys).
-/
namespace Cedar.C03

open Cedar

theorem typeOfList_all {m : ValidationMode} {s : Schema} {env : RequestEnv} {caps : Capabilities} {P : CedarType → Prop} :
    ∀ {es : List Expr} {τs : List CedarType}, typeOfList m s env es caps = .ok τs →
      (∀ e, e ∈ es → ∀ τ c, typeOf m s env e caps = .ok (τ, c) → P τ) → ∀ t, t ∈ τs → P t
  | [], τs, h, _, t, ht => by simp only [typeOfList, Except.ok.injEq] at h; subst h; cases ht
  | e :: es, τs, h, hall, t, ht => by
    obtain ⟨τ, c, τs', h1, h2, rfl⟩ := typeOfList_cons h
    rcases List.mem_cons.mp ht with rfl | ht
    · exact hall e List.mem_cons_self _ _ h1
    · exact typeOfList_all h2 (fun e' he' => hall e' (List.mem_cons_of_mem _ he')) t ht

theorem typeOfInGeneral_ok {s : Schema} {τa τb τ : CedarType} {c' : Capabilities}
    (h : typeOfInGeneral s τa τb = .ok (τ, c')) : OkTy τ := by
  unfold typeOfInGeneral at h
  split at h
  · split at h <;> simp only [ok, Except.ok.injEq, Prod.mk.injEq] at h <;> (rw [← h.1]; exact okTy_bool _)
  · simp only [ok, Except.ok.injEq, Prod.mk.injEq] at h; rw [← h.1]; exact okTy_bool _

mutual
theorem soundPF {s : Schema} {env : RequestEnv} {w : World} (hWF : SchemaWF2 s) (hND : SchemaND s)
    (henv : EnvMatches s env w.q) :
    ∀ (e : Expr), RecordKeysDistinct e = true → SlotsLinked env e = true →
      ∀ (caps : Capabilities) (τ : CedarType) (c' : Capabilities),
      typeOf .permissive s env e caps = .ok (τ, c') → OkTy τ ∧ (Sem s env w → CapsHold w caps → Good w e τ c')
  | .lit p, _, _, caps, τ, c', h =>
    have ⟨hm, g⟩ := soundM (m := .permissive) hWF henv (.lit p) rfl caps τ c' h
    ⟨⟨ndBase_nd (by simp [ndBase]) h, mono_nn _ hm⟩, g⟩
  | .var v, _, _, caps, τ, c', h => by
    obtain ⟨hm, g⟩ := soundM (m := .permissive) hWF henv (.var v) rfl caps τ c' h
    refine ⟨⟨?_, mono_nn _ hm⟩, g⟩
    cases v with
    | context =>
      simp only [typeOf, ok, Except.ok.injEq, Prod.mk.injEq] at h
      obtain ⟨_, _, _, a, ha, hctx⟩ := henv
      rw [← h.1, hctx]; exact hND.act_nd _ _ ha
    | principal => exact ndBase_nd (by simp [ndBase]) h
    | resource => exact ndBase_nd (by simp [ndBase]) h
    | action => exact ndBase_nd (by simp [ndBase]) h
  | .slot x, _, hl, caps, τ, c', h => by
    have hf : InFragmentM .permissive env (.slot x) = true := by
      cases x <;> simpa [SlotsLinked, InFragmentM] using hl
    obtain ⟨hm, g⟩ := soundM (m := .permissive) hWF henv (.slot x) hf caps τ c' h
    exact ⟨⟨ndBase_nd (by simp [ndBase]) h, mono_nn _ hm⟩, g⟩
  | .unknown _ _, _, _, _, _, _, h => by simp [typeOf] at h
  | .call fn args, hk, hl, caps, τ, c', h => by
    simp only [RecordKeysDistinct] at hk
    simp only [SlotsLinked] at hl
    have ih := soundPFList hWF hND henv args hk hl
    simp only [typeOf] at h
    cases hsig : extSig fn with
    | none =>
      rw [hsig] at h; simp only at h
      split at h <;> cases h
    | some sig =>
      rw [hsig] at h; simp only at h
      cases hL : typeOfList .permissive s env args caps with
      | error err => rw [hL] at h; cases h
      | ok τs =>
        rw [hL] at h; simp only at h
        split at h
        · cases h
        · rename_i hnf
          split at h
          · rename_i hall
            simp only [ok, Except.ok.injEq, Prod.mk.injEq] at h; obtain ⟨rfl, rfl⟩ := h
            have hlen : τs.length = sig.args.length := by
              rw [typeOfList_length hL]
              simp only [Bool.or_eq_true, not_or, bne_iff_ne, ne_eq, Decidable.not_not] at hnf
              exact hnf.1.1
            obtain ⟨_, gl⟩ := ih caps τs hL
            have hmr := extSig_ret_mono hsig
            refine ⟨⟨?_, mono_nn _ hmr⟩, fun hs hc => call_good hsig (gl hs hc) hlen hall⟩
            unfold extSig at hsig
            simp only at hsig
            split at hsig <;> first | (cases hsig; rfl) | cases hsig
          · cases h
  | .and a b, hk, hl, caps, τ, c', h => by
    simp only [RecordKeysDistinct, Bool.and_eq_true] at hk
    simp only [SlotsLinked, Bool.and_eq_true] at hl
    have iha := soundPF hWF hND henv a hk.1 hl.1
    have ihb := soundPF hWF hND henv b hk.2 hl.2
    simp only [typeOf] at h
    cases hA : expectOneOf (typeOf .permissive s env a caps) [boolT] with
    | error err => rw [hA] at h; cases h
    | ok pa =>
      obtain ⟨τa, ca⟩ := pa
      rw [hA] at h; simp only at h
      obtain ⟨hta, hsa⟩ := expectOneOf_ok hA
      have hba := subtype_bool hsa
      obtain ⟨hma, ga⟩ := iha caps τa ca hta
      split at h
      · rename_i hfalse
        simp only [ok, Except.ok.injEq, Prod.mk.injEq] at h; obtain ⟨rfl, rfl⟩ := h
        have := isFalse_eq hfalse; subst this
        refine ⟨okTy_bool _, fun hs hc => ⟨?_, fun h => by cases h⟩⟩
        obtain ⟨sa, _⟩ := ga hs hc
        rcases sa.bool_cases hba with ⟨err, he, hp⟩ | ⟨x, hx, hix, _⟩
        · exact TySound.of_err (by simp [evaluate, he]) hp
        · have : x = false := by simpa [boolInst] using hix
          subst this
          exact TySound.of_bool (b := false) (by simp [evaluate, hx, Value.asBool]) (by simp [boolInst]) (fun h => by cases h)
      · cases hB : expectOneOf (typeOf .permissive s env b (caps.union ca)) [boolT] with
        | error err => rw [hB] at h; cases h
        | ok pb =>
          obtain ⟨τb, cb⟩ := pb
          rw [hB] at h; simp only [Except.ok.injEq, Prod.mk.injEq] at h; obtain ⟨rfl, rfl⟩ := h
          obtain ⟨htb, hsb⟩ := expectOneOf_ok hB
          have hbb := subtype_bool hsb
          obtain ⟨hmb, gb⟩ := ihb (caps.union ca) τb cb htb
          refine ⟨andType_ok hma hmb, fun hs hc => ?_⟩
          obtain ⟨sa, sa2⟩ := ga hs hc
          have ihb' := fun hca => gb hs (capsHold_union.mpr ⟨hc, hca⟩)
          refine ⟨and_sound sa hba (fun hca => (ihb' hca).1) hbb (andType_inst hba hbb) (fun h1 h2 => andCaps_hold h1 h2),
            fun htt => ?_⟩
          obtain ⟨rfl, rfl⟩ := andType_tt htt hba hbb
          have hca := sa2 rfl
          exact andCaps_hold hca ((ihb' hca).2 rfl)
  | .or a b, hk, hl, caps, τ, c', h => by
    simp only [RecordKeysDistinct, Bool.and_eq_true] at hk
    simp only [SlotsLinked, Bool.and_eq_true] at hl
    have iha := soundPF hWF hND henv a hk.1 hl.1
    have ihb := soundPF hWF hND henv b hk.2 hl.2
    simp only [typeOf] at h
    cases hA : expectOneOf (typeOf .permissive s env a caps) [boolT] with
    | error err => rw [hA] at h; cases h
    | ok pa =>
      obtain ⟨τa, ca⟩ := pa
      rw [hA] at h; simp only at h
      obtain ⟨hta, hsa⟩ := expectOneOf_ok hA
      have hba := subtype_bool hsa
      obtain ⟨hma, ga⟩ := iha caps τa ca hta
      split at h
      · rename_i htrue
        simp only [Except.ok.injEq, Prod.mk.injEq] at h; obtain ⟨rfl, rfl⟩ := h
        have := isTrue_eq htrue; subst this
        refine ⟨okTy_bool _, fun hs hc => ?_⟩
        obtain ⟨sa, sa2⟩ := ga hs hc
        refine ⟨?_, fun _ => sa2 rfl⟩
        rcases sa.bool_cases hba with ⟨err, he, hp⟩ | ⟨x, hx, hix, hcx⟩
        · exact TySound.of_err (by simp [evaluate, he]) hp
        · have : x = true := by simpa [boolInst] using hix
          subst this
          exact TySound.of_bool (b := true) (by simp [evaluate, hx, Value.asBool]) (by simp [boolInst]) (fun _ => hcx rfl)
      · cases hB : expectOneOf (typeOf .permissive s env b caps) [boolT] with
        | error err => rw [hB] at h; cases h
        | ok pb =>
          obtain ⟨τb, cb⟩ := pb
          rw [hB] at h; simp only [Except.ok.injEq, Prod.mk.injEq] at h; obtain ⟨rfl, rfl⟩ := h
          obtain ⟨htb, hsb⟩ := expectOneOf_ok hB
          have hbb := subtype_bool hsb
          obtain ⟨hmb, gb⟩ := ihb caps τb cb htb
          refine ⟨orType_ok hma hmb, fun hs hc => ?_⟩
          obtain ⟨sa, sa2⟩ := ga hs hc
          obtain ⟨sb, sb2⟩ := gb hs hc
          have hL : boolInst true τa = true → CapsHold w ca → CapsHold w (orCaps τa τb ca cb) := by
            intro hi hca
            unfold orCaps
            split
            · exact sb2 rfl
            · exact hca
            · simp [boolInst] at hi
            · exact capsHold_inter_right hca
          have hR : boolInst true τb = true → CapsHold w cb → CapsHold w (orCaps τa τb ca cb) := by
            intro hi hcb
            unfold orCaps
            split
            · exact hcb
            · simp [boolInst] at hi
            · exact hcb
            · exact capsHold_inter_left hcb
          refine ⟨or_sound sa hba sb hbb (orType_inst hba hbb) hL hR, fun htt => ?_⟩
          rcases orType_tt htt hba hbb with rfl | ⟨rfl, rfl⟩
          · exact hR (by simp [boolInst]) (sb2 rfl)
          · exact hL (by simp [boolInst]) (sa2 rfl)
  | .ite c t e, hk, hl, caps, τ, c', h => by
    simp only [RecordKeysDistinct, Bool.and_eq_true] at hk
    simp only [SlotsLinked, Bool.and_eq_true] at hl
    have ihc := soundPF hWF hND henv c hk.1.1 hl.1.1
    have iht := soundPF hWF hND henv t hk.1.2 hl.1.2
    have ihe := soundPF hWF hND henv e hk.2 hl.2
    simp only [typeOf] at h
    cases hC : expectOneOf (typeOf .permissive s env c caps) [boolT] with
    | error err => rw [hC] at h; cases h
    | ok pc =>
      obtain ⟨τc, cc⟩ := pc
      rw [hC] at h; simp only at h
      obtain ⟨htc, hsc⟩ := expectOneOf_ok hC
      have hbc := subtype_bool hsc
      obtain ⟨_, gc⟩ := ihc caps τc cc htc
      split at h
      · rename_i htrue
        have := isTrue_eq htrue; subst this
        cases hT : typeOf .permissive s env t (caps.union cc) with
        | error err => rw [hT] at h; cases h
        | ok pt =>
          obtain ⟨τt, ct⟩ := pt
          rw [hT] at h; simp only [Except.ok.injEq, Prod.mk.injEq] at h; obtain ⟨rfl, rfl⟩ := h
          obtain ⟨hmt, gt⟩ := iht (caps.union cc) τt ct hT
          refine ⟨hmt, fun hs hc => ?_⟩
          obtain ⟨sc, sc2⟩ := gc hs hc
          have hcond := sc.bool_cases hbc
          have hcc : CapsHold w cc := sc2 rfl
          obtain ⟨st, st2⟩ := gt hs (capsHold_union.mpr ⟨hc, hcc⟩)
          refine ⟨?_, fun htt => capsHold_union.mpr ⟨st2 htt, hcc⟩⟩
          rcases hcond with ⟨err, he, hp⟩ | ⟨x, hx, hix, _⟩
          · exact TySound.of_err (by simp [evaluate, he]) hp
          · have : x = true := by simpa [boolInst] using hix
            subst this
            have heq : w.eval (.ite c t e) = w.eval t := by simp [evaluate, hx, Value.asBool]
            rcases st with ⟨err, he, hp⟩ | ⟨v, hv, hi, hcv⟩
            · exact Or.inl ⟨err, by rw [heq, he], hp⟩
            · exact Or.inr ⟨v, by rw [heq, hv], hi, fun hvt => capsHold_union.mpr ⟨hcv hvt, hcc⟩⟩
      · split at h
        · rename_i _ hfalse
          have := isFalse_eq hfalse; subst this
          obtain ⟨hme, ge⟩ := ihe caps τ c' h
          refine ⟨hme, fun hs hc => ?_⟩
          obtain ⟨sc, _⟩ := gc hs hc
          have hcond := sc.bool_cases hbc
          obtain ⟨se, se2⟩ := ge hs hc
          refine ⟨?_, se2⟩
          rcases hcond with ⟨err, he, hp⟩ | ⟨x, hx, hix, _⟩
          · exact TySound.of_err (by simp [evaluate, he]) hp
          · have : x = false := by simpa [boolInst] using hix
            subst this
            have heq : w.eval (.ite c t e) = w.eval e := by simp [evaluate, hx, Value.asBool]
            rcases se with ⟨err, he, hp⟩ | ⟨v, hv, hi, hcv⟩
            · exact Or.inl ⟨err, by rw [heq, he], hp⟩
            · exact Or.inr ⟨v, by rw [heq, hv], hi, hcv⟩
        · obtain ⟨τt, ct, τe, ce, hT, hE, hk'⟩ := both_ok h
          cases hlub : lub .permissive τt τe with
          | none => rw [hlub] at hk'; cases hk'
          | some τl =>
            rw [hlub] at hk'
            simp only [Except.ok.injEq, Prod.mk.injEq] at hk'; obtain ⟨rfl, rfl⟩ := hk'
            obtain ⟨hmt, gt⟩ := iht (caps.union cc) τt ct hT
            obtain ⟨hme, ge⟩ := ihe caps τe ce hE
            refine ⟨plub_ok hlub hmt hme, fun hs hc => ?_⟩
            obtain ⟨sc, _⟩ := gc hs hc
            obtain ⟨se, se2⟩ := ge hs hc
            refine ⟨permissive_ite_join_sound hbc sc (fun hcc => (gt hs (capsHold_union.mpr ⟨hc, hcc⟩)).1) se
              hmt.1 hlub, fun htt => ?_⟩
            subst htt
            exact capsHold_inter_left (se2 (plub_tt_r hlub hme.ne_never))
  | .unaryApp op a, hk, hl, caps, τ, c', h => by
    simp only [RecordKeysDistinct] at hk
    simp only [SlotsLinked] at hl
    have iha := soundPF hWF hND henv a hk hl
    cases op with
    | isEmpty =>
      simp only [typeOf] at h
      cases hA : expectOneOf (typeOf .permissive s env a caps) [.set none] with
      | error err => rw [hA] at h; cases h
      | ok pa =>
        obtain ⟨τa, ca⟩ := pa
        rw [hA] at h
        simp only [ok, Except.ok.injEq, Prod.mk.injEq] at h; obtain ⟨rfl, rfl⟩ := h
        obtain ⟨hta, hsa⟩ := expectOneOf_ok hA
        exact ⟨okTy_bool _, fun hs hc => isEmpty_good ((iha caps τa ca hta).2 hs hc).1 (shape_set hsa)⟩
    | neg =>
      simp only [typeOf] at h
      cases hA : expectOneOf (typeOf .permissive s env a caps) [.long] with
      | error err => rw [hA] at h; cases h
      | ok pa =>
        obtain ⟨τa, ca⟩ := pa
        rw [hA] at h
        simp only [ok, Except.ok.injEq, Prod.mk.injEq] at h; obtain ⟨rfl, rfl⟩ := h
        obtain ⟨hta, hsa⟩ := expectOneOf_ok hA
        exact ⟨⟨rfl, rfl⟩, fun hs hc => neg_sound ((iha caps τa ca hta).2 hs hc).1 (subtype_long hsa)⟩
    | not =>
      simp only [typeOf] at h
      cases hA : expectOneOf (typeOf .permissive s env a caps) [boolT] with
      | error err => rw [hA] at h; cases h
      | ok pa =>
        obtain ⟨τa, ca⟩ := pa
        rw [hA] at h
        obtain ⟨hta, hsa⟩ := expectOneOf_ok hA
        have hba := subtype_bool hsa
        obtain ⟨_, ga⟩ := iha caps τa ca hta
        rcases hba with rfl | ⟨bt, rfl⟩
        · simp only [ok, Except.ok.injEq, Prod.mk.injEq] at h; obtain ⟨rfl, rfl⟩ := h
          exact ⟨okTy_bool _, fun hs hc => ⟨not_sound (ga hs hc).1 (Or.inl rfl) (by intro x hx; simp [boolInst] at hx), fun h => by cases h⟩⟩
        · cases bt <;> simp only [ok, Except.ok.injEq, Prod.mk.injEq] at h <;> obtain ⟨rfl, rfl⟩ := h
          · exact ⟨okTy_bool _, fun hs hc => ⟨not_sound (ga hs hc).1 (Or.inr ⟨_, rfl⟩) (by intro x _; simp [boolInst, boolT]), fun h => by cases h⟩⟩
          · exact ⟨okTy_bool _, fun hs hc => ⟨not_sound (ga hs hc).1 (Or.inr ⟨_, rfl⟩) (by intro x hx; simpa [boolInst] using hx), fun _ => capsHold_nil w⟩⟩
          · exact ⟨okTy_bool _, fun hs hc => ⟨not_sound (ga hs hc).1 (Or.inr ⟨_, rfl⟩) (by intro x hx; simpa [boolInst] using hx), fun _ => capsHold_nil w⟩⟩
  | .binaryApp op a b, hk, hl, caps, τ, c', h => by
    simp only [RecordKeysDistinct, Bool.and_eq_true] at hk
    simp only [SlotsLinked, Bool.and_eq_true] at hl
    have iha := soundPF hWF hND henv a hk.1 hl.1
    have ihb := soundPF hWF hND henv b hk.2 hl.2
    cases op with
    | eq =>
      simp only [typeOf] at h
      obtain ⟨τa, ca, τb, cb, hta, htb, hk'⟩ := both_ok h
      split at hk'
      · cases hk'
      · simp only [ok, Except.ok.injEq, Prod.mk.injEq] at hk'; obtain ⟨rfl, rfl⟩ := hk'
        obtain ⟨bt, hbt⟩ := eqType_bool env a b τa τb
        exact ⟨by rw [hbt]; exact okTy_bool _,
          fun hs hc => eq_good_any henv ((iha caps τa ca hta).2 hs hc).1 ((ihb caps τb cb htb).2 hs hc).1⟩
    | less =>
      simp only [typeOf] at h
      obtain ⟨τa, ca, τb, cb, hta, htb, hk'⟩ := both_ok h
      obtain ⟨hma, ga⟩ := iha caps τa ca hta
      obtain ⟨hmb, gb⟩ := ihb caps τb cb htb
      have hτ := (cmpType_inv hk' hma.ne_never hmb.ne_never).1
      exact ⟨by rw [hτ]; exact okTy_bool _,
        fun hs hc => (cmp_good_any (Or.inl rfl) (ga hs hc).1 (gb hs hc).1 hma.ne_never hmb.ne_never hk').2⟩
    | lessEq =>
      simp only [typeOf] at h
      obtain ⟨τa, ca, τb, cb, hta, htb, hk'⟩ := both_ok h
      obtain ⟨hma, ga⟩ := iha caps τa ca hta
      obtain ⟨hmb, gb⟩ := ihb caps τb cb htb
      have hτ := (cmpType_inv hk' hma.ne_never hmb.ne_never).1
      exact ⟨by rw [hτ]; exact okTy_bool _,
        fun hs hc => (cmp_good_any (Or.inr rfl) (ga hs hc).1 (gb hs hc).1 hma.ne_never hmb.ne_never hk').2⟩
    | add =>
      simp only [typeOf] at h
      obtain ⟨τa, ca, τb, cb, hA, hB, hk'⟩ := both_ok h
      simp only [ok, Except.ok.injEq, Prod.mk.injEq] at hk'; obtain ⟨rfl, rfl⟩ := hk'
      obtain ⟨hta, hsa⟩ := expectOneOf_ok hA
      obtain ⟨htb, hsb⟩ := expectOneOf_ok hB
      exact ⟨⟨rfl, rfl⟩, fun hs hc => arith_sound (Or.inl rfl) ((iha caps τa ca hta).2 hs hc).1 (subtype_long hsa)
        ((ihb caps τb cb htb).2 hs hc).1 (subtype_long hsb)⟩
    | sub =>
      simp only [typeOf] at h
      obtain ⟨τa, ca, τb, cb, hA, hB, hk'⟩ := both_ok h
      simp only [ok, Except.ok.injEq, Prod.mk.injEq] at hk'; obtain ⟨rfl, rfl⟩ := hk'
      obtain ⟨hta, hsa⟩ := expectOneOf_ok hA
      obtain ⟨htb, hsb⟩ := expectOneOf_ok hB
      exact ⟨⟨rfl, rfl⟩, fun hs hc => arith_sound (Or.inr (Or.inl rfl)) ((iha caps τa ca hta).2 hs hc).1 (subtype_long hsa)
        ((ihb caps τb cb htb).2 hs hc).1 (subtype_long hsb)⟩
    | mul =>
      simp only [typeOf] at h
      obtain ⟨τa, ca, τb, cb, hA, hB, hk'⟩ := both_ok h
      simp only [ok, Except.ok.injEq, Prod.mk.injEq] at hk'; obtain ⟨rfl, rfl⟩ := hk'
      obtain ⟨hta, hsa⟩ := expectOneOf_ok hA
      obtain ⟨htb, hsb⟩ := expectOneOf_ok hB
      exact ⟨⟨rfl, rfl⟩, fun hs hc => arith_sound (Or.inr (Or.inr rfl)) ((iha caps τa ca hta).2 hs hc).1 (subtype_long hsa)
        ((ihb caps τb cb htb).2 hs hc).1 (subtype_long hsb)⟩
    | contains =>
      simp only [typeOf] at h
      obtain ⟨τa, ca, τb, cb, hA, htb, hk'⟩ := both_ok h
      obtain ⟨hta, hsa⟩ := expectOneOf_ok hA
      obtain ⟨rfl, rfl⟩ := ite_err_ok hk'
      exact ⟨okTy_bool _,
        fun hs hc => contains_good ((iha caps τa ca hta).2 hs hc).1 (shape_set hsa) ((ihb caps τb cb htb).2 hs hc).1⟩
    | containsAll =>
      simp only [typeOf] at h
      obtain ⟨τa, ca, τb, cb, hA, hB, hk'⟩ := both_ok h
      obtain ⟨hta, hsa⟩ := expectOneOf_ok hA
      obtain ⟨htb, hsb⟩ := expectOneOf_ok hB
      obtain ⟨rfl, rfl⟩ := ite_err_ok hk'
      exact ⟨okTy_bool _, fun hs hc => containsAll_good ((iha caps τa ca hta).2 hs hc).1 (shape_set hsa)
        ((ihb caps τb cb htb).2 hs hc).1 (shape_set hsb)⟩
    | containsAny =>
      simp only [typeOf] at h
      obtain ⟨τa, ca, τb, cb, hA, hB, hk'⟩ := both_ok h
      obtain ⟨hta, hsa⟩ := expectOneOf_ok hA
      obtain ⟨htb, hsb⟩ := expectOneOf_ok hB
      obtain ⟨rfl, rfl⟩ := ite_err_ok hk'
      exact ⟨okTy_bool _, fun hs hc => containsAny_good ((iha caps τa ca hta).2 hs hc).1 (shape_set hsa)
        ((ihb caps τb cb htb).2 hs hc).1 (shape_set hsb)⟩
    | mem =>
      simp only [typeOf] at h
      obtain ⟨τa, ca, τb, cb, hA, hB, hk'⟩ := both_ok h
      obtain ⟨hta, hsa⟩ := expectOneOf_ok hA
      obtain ⟨htb, hsb⟩ := expectOneOf_ok hB
      obtain ⟨_, ga⟩ := iha caps τa ca hta
      obtain ⟨_, gb⟩ := ihb caps τb cb htb
      have general : ∀ τ c', typeOfInGeneral s τa τb = .ok (τ, c') →
          OkTy τ ∧ (Sem s env w → CapsHold w caps → Good w (.binaryApp .mem a b) τ c') :=
        fun τ c' hg => ⟨typeOfInGeneral_ok hg,
          fun hs hc => inGeneral_good_any hWF hs.store (ga hs hc).1 (gb hs hc).1 (subtype_anyEntity hsa)
            (shape_in_rhs_any hsb) hg⟩
      split at hk'
      · rename_i l rs hl' hrs
        split at hk'
        · rename_i hact
          simp only [ok, Except.ok.injEq, Prod.mk.injEq] at hk'; obtain ⟨rfl, rfl⟩ := hk'
          obtain ⟨al, hal⟩ := asEuid_declared hl' hta hact
          refine ⟨?_, fun hs _ => actionIn_good hWF henv hs.store hs.actions hl' hrs hal⟩
          rw [typeOfActionIn_eq]; split <;> exact okTy_bool _
        · exact general _ _ hk'
      · exact general _ _ hk'
    | hasTag =>
      simp only [typeOf] at h
      obtain ⟨τa, ca, τb, cb, hA, hB, hk'⟩ := both_ok h
      obtain ⟨hta, hsa⟩ := expectOneOf_ok hA
      obtain ⟨htb, hsb⟩ := expectOneOf_ok hB
      obtain ⟨hma, ga⟩ := iha caps τa ca hta
      obtain ⟨_, gb⟩ := ihb caps τb cb htb
      rcases subtype_anyEntity hsa with rfl | rfl | ⟨l, rfl⟩
      · exact (hma.ne_never rfl).elim
      · cases hk'
      · simp only [Except.ok.injEq, Prod.mk.injEq] at hk'; obtain ⟨rfl, rfl⟩ := hk'
        exact ⟨by split; exact okTy_bool _; split <;> exact okTy_bool _,
          fun hs hc => hasTag_good_any hs.store hc (ga hs hc).1 (gb hs hc).1 (subtype_string hsb)⟩
    | getTag =>
      simp only [typeOf] at h
      obtain ⟨τa, ca, τb, cb, hA, hB, hk'⟩ := both_ok h
      obtain ⟨hta, hsa⟩ := expectOneOf_ok hA
      obtain ⟨htb, hsb⟩ := expectOneOf_ok hB
      obtain ⟨hma, ga⟩ := iha caps τa ca hta
      obtain ⟨_, gb⟩ := ihb caps τb cb htb
      rcases subtype_anyEntity hsa with rfl | rfl | ⟨l, rfl⟩
      · exact (hma.ne_never rfl).elim
      · cases hk'
      · simp only at hk'
        obtain ⟨hm, g⟩ := getTag_good_any (w := w) (τb := τb) (ca := ca) (cb := cb) hWF.toSchemaWF hND hk'
        exact ⟨hm, fun hs hc => g hs.store hc (ga hs hc).1 (gb hs hc).1 (subtype_string hsb)⟩
  | .getAttr e a, hk, hl, caps, τ, c', h => by
    simp only [RecordKeysDistinct] at hk
    simp only [SlotsLinked] at hl
    have ihe := soundPF hWF hND henv e hk hl
    simp only [typeOf] at h
    cases hE : expectOneOf (typeOf .permissive s env e caps) [.anyEntity, anyRecord] with
    | error err => rw [hE] at h; cases h
    | ok pe =>
      obtain ⟨τe, ce⟩ := pe
      rw [hE] at h
      obtain ⟨hte, hsub⟩ := expectOneOf_ok hE
      obtain ⟨hme, ge⟩ := ihe caps τe ce hte
      split at h
      · cases h
      · cases h
      · rename_i τe' ce' hne heq
        simp only [Except.ok.injEq, Prod.mk.injEq] at heq; obtain ⟨rfl, rfl⟩ := heq
        have hshape : τe = .never ∨ (∃ l, τe = .entity l) ∨ ∃ attrs o, τe = .record attrs o := by
          rcases subtype_entityOrRecord hsub with h1 | h1 | h1 | h1
          · exact Or.inl h1
          · exact (hne (by rw [h1])).elim
          · exact Or.inr (Or.inl h1)
          · exact Or.inr (Or.inr h1)
        cases hlk : lookupAttr s τe a with
        | none => rw [hlk] at h; cases h
        | some qt =>
          obtain ⟨req, τa⟩ := qt
          rw [hlk] at h; simp only at h
          split at h
          · rename_i hcond
            simp only [ok, Except.ok.injEq, Prod.mk.injEq] at h; obtain ⟨rfl, rfl⟩ := h
            exact ⟨lookupAttr_ok hWF.toSchemaWF hND hme hlk,
              fun hs hc => getAttr_good_any hWF.toSchemaWF hND hs.store hc (ge hs hc).1 hshape hlk hcond⟩
          · cases h
  | .hasAttr e a, hk, hl, caps, τ, c', h => by
    simp only [RecordKeysDistinct] at hk
    simp only [SlotsLinked] at hl
    have ihe := soundPF hWF hND henv e hk hl
    simp only [typeOf] at h
    cases hE : expectOneOf (typeOf .permissive s env e caps) [.anyEntity, anyRecord] with
    | error err => rw [hE] at h; cases h
    | ok pe =>
      obtain ⟨τe, ce⟩ := pe
      rw [hE] at h
      obtain ⟨hte, hsub⟩ := expectOneOf_ok hE
      obtain ⟨hme, ge⟩ := ihe caps τe ce hte
      split at h
      · cases h
      · cases h
      · rename_i τe' ce' hne heq
        simp only [Except.ok.injEq, Prod.mk.injEq] at heq; obtain ⟨rfl, rfl⟩ := heq
        have hshape : τe = .never ∨ (∃ l, τe = .entity l) ∨ ∃ attrs o, τe = .record attrs o := by
          rcases subtype_entityOrRecord hsub with h1 | h1 | h1 | h1
          · exact Or.inl h1
          · exact (hne (by rw [h1])).elim
          · exact Or.inr (Or.inl h1)
          · exact Or.inr (Or.inr h1)
        have hok : OkTy τ := by
          have h' := h
          split at h' <;> simp only [ok, Except.ok.injEq, Prod.mk.injEq] at h' <;>
            (rw [← h'.1]; split <;> exact okTy_bool _)
        exact ⟨hok, fun hs hc => hasAttr_good_any hWF.toSchemaWF hs.store hc (ge hs hc).1 hshape h⟩
  | .like e pat, hk, hl, caps, τ, c', h => by
    simp only [RecordKeysDistinct] at hk
    simp only [SlotsLinked] at hl
    have ihe := soundPF hWF hND henv e hk hl
    simp only [typeOf] at h
    cases hE : expectOneOf (typeOf .permissive s env e caps) [.string] with
    | error err => rw [hE] at h; cases h
    | ok pe =>
      obtain ⟨τe, ce⟩ := pe
      rw [hE] at h
      simp only [ok, Except.ok.injEq, Prod.mk.injEq] at h; obtain ⟨rfl, rfl⟩ := h
      obtain ⟨hte, hsub⟩ := expectOneOf_ok hE
      refine ⟨okTy_bool _, fun hs hc => ?_⟩
      rcases ((ihe caps τe ce hte).2 hs hc).1 with ⟨err, he, hp⟩ | ⟨v, hv, hi, _⟩
      · exact Good.err (by simp [evaluate, he]) hp
      · obtain ⟨str, rfl⟩ := inst_string hi (subtype_string hsub)
        exact Good.value (v := .prim (.bool (wm pat str.toList))) (by simp [evaluate, hv, Value.asString]) (.anyBool _)
  | .is e ty, hk, hl, caps, τ, c', h => by
    simp only [RecordKeysDistinct] at hk
    simp only [SlotsLinked] at hl
    have ihe := soundPF hWF hND henv e hk hl
    simp only [typeOf] at h
    cases hE : expectOneOf (typeOf .permissive s env e caps) [.anyEntity] with
    | error err => rw [hE] at h; cases h
    | ok pe =>
      obtain ⟨τe, ce⟩ := pe
      rw [hE] at h
      obtain ⟨hte, hsub⟩ := expectOneOf_ok hE
      obtain ⟨hme, ge⟩ := ihe caps τe ce hte
      rcases subtype_anyEntity hsub with rfl | rfl | ⟨l, rfl⟩
      · exact (hme.ne_never rfl).elim
      · simp only [ok, Except.ok.injEq, Prod.mk.injEq] at h; obtain ⟨rfl, rfl⟩ := h
        refine ⟨okTy_bool _, fun hs hc => ?_⟩
        rcases (ge hs hc).1 with ⟨err, he, hp⟩ | ⟨v, hv, hi, _⟩
        · exact Good.err (by simp [evaluate, he]) hp
        · cases hi with
          | anyEntity u =>
            exact Good.value (v := .prim (.bool (u.ty == ty))) (by simp [evaluate, hv, Value.asEntity]) (.anyBool _)
      · simp only [ok, Except.ok.injEq, Prod.mk.injEq] at h; obtain ⟨rfl, rfl⟩ := h
        refine ⟨by split; exact okTy_bool _; split <;> exact okTy_bool _, fun hs hc => ?_⟩
        rcases (ge hs hc).1 with ⟨err, he, hp⟩ | ⟨v, hv, hi, _⟩
        · exact ⟨Or.inl ⟨err, by simp [evaluate, he], hp⟩, fun _ => capsHold_nil w⟩
        · obtain ⟨u, rfl, _⟩ := inst_entityish hi (Or.inr (Or.inr ⟨l, rfl⟩))
          obtain ⟨hno, hyes⟩ := is_union_sound (ty := ty) hi
          refine ⟨TySound.of_bool (b := u.ty == ty) (by simp [evaluate, hv, Value.asEntity]) ?_ (fun _ => capsHold_nil w),
            fun _ => capsHold_nil w⟩
          split
          · rename_i hc1
            rw [hno (by simpa using hc1)]; rfl
          · split
            · rename_i hc2
              rw [hyes (by simpa using hc2)]; rfl
            · simp [boolInst, boolT]
  | .set es, hk, hl, caps, τ, c', h => by
    simp only [RecordKeysDistinct] at hk
    simp only [SlotsLinked] at hl
    have ih := soundPFList hWF hND henv es hk hl
    simp only [typeOf] at h
    cases hL : typeOfList .permissive s env es caps with
    | error err => rw [hL] at h; cases h
    | ok τs =>
      rw [hL] at h; simp only at h
      split at h
      · cases h
      · cases hlub : lubAll .permissive τs with
        | none => rw [hlub] at h; cases h
        | some τ' =>
          rw [hlub] at h
          simp only [ok, Except.ok.injEq, Prod.mk.injEq] at h; obtain ⟨rfl, rfl⟩ := h
          obtain ⟨hoks, gl⟩ := ih caps τs hL
          have hnd : ∀ t, t ∈ τs → ndTy t = true := fun t ht => (hoks t ht).1
          refine ⟨⟨?_, ?_⟩, fun hs hc => set_good_perm (gl hs hc) hnd hlub⟩
          · simp only [ndTy]; exact (lubAll_perm_spec hlub hnd).2
          · simp only [nnTy]; exact (lubAll_perm_nn hlub (fun t ht => (hoks t ht).2)).1
  | .record kvs, hk, hl, caps, τ, c', h => by
    simp only [RecordKeysDistinct, Bool.and_eq_true, decide_eq_true_eq] at hk
    simp only [SlotsLinked] at hl
    have ih := soundPFKVs hWF hND henv kvs hk.1 hl
    simp only [typeOf] at h
    cases hL : typeOfKVs .permissive s env kvs caps with
    | error err => rw [hL] at h; cases h
    | ok attrs =>
      rw [hL] at h
      simp only [ok, Except.ok.injEq, Prod.mk.injEq] at h; obtain ⟨rfl, rfl⟩ := h
      obtain ⟨hms, gl⟩ := ih caps attrs hL
      have hn : (attrs.map (·.1)).Nodup := by rw [typeOfKVs_keys hL]; exact hk.2
      refine ⟨⟨?_, ?_⟩, fun hs hc => record_good (gl hs hc) hn⟩
      · simp only [ndTy, Bool.and_eq_true, decide_eq_true_eq]; exact ⟨hms.1, hn⟩
      · simp only [nnTy]; exact hms.2
theorem soundPFList {s : Schema} {env : RequestEnv} {w : World} (hWF : SchemaWF2 s) (hND : SchemaND s)
    (henv : EnvMatches s env w.q) :
    ∀ (es : List Expr), RecordKeysDistinctList es = true → SlotsLinkedList env es = true →
      ∀ (caps : Capabilities) (τs : List CedarType), typeOfList .permissive s env es caps = .ok τs →
      (∀ t, t ∈ τs → OkTy t) ∧ (Sem s env w → CapsHold w caps → ListGood w es τs)
  | [], _, _, caps, τs, h => by
    simp only [typeOfList, Except.ok.injEq] at h; subst h
    exact ⟨fun t ht => (by cases ht), fun _ _ => listGood_nil w⟩
  | e :: es, hk, hl, caps, τs, h => by
    simp only [RecordKeysDistinctList, Bool.and_eq_true] at hk
    simp only [SlotsLinkedList, Bool.and_eq_true] at hl
    obtain ⟨τ, c, τs', h1, h2, rfl⟩ := typeOfList_cons h
    obtain ⟨hm, g⟩ := soundPF hWF hND henv e hk.1 hl.1 caps τ c h1
    obtain ⟨hms, gs⟩ := soundPFList hWF hND henv es hk.2 hl.2 caps τs' h2
    refine ⟨?_, fun hs hc => listGood_cons (g hs hc).1 (gs hs hc)⟩
    intro t ht
    rcases List.mem_cons.mp ht with rfl | ht
    · exact hm
    · exact hms t ht
theorem soundPFKVs {s : Schema} {env : RequestEnv} {w : World} (hWF : SchemaWF2 s) (hND : SchemaND s)
    (henv : EnvMatches s env w.q) :
    ∀ (kvs : List (String × Expr)), RecordKeysDistinctKVs kvs = true → SlotsLinkedKVs env kvs = true →
      ∀ (caps : Capabilities) (attrs : Attrs), typeOfKVs .permissive s env kvs caps = .ok attrs →
      (ndAttrs attrs = true ∧ nnAttrs attrs = true) ∧ (Sem s env w → CapsHold w caps → KVsGood w kvs attrs)
  | [], _, _, caps, attrs, h => by
    simp only [typeOfKVs, Except.ok.injEq] at h; subst h
    exact ⟨⟨rfl, rfl⟩, fun _ _ => kvsGood_nil w⟩
  | (k, e) :: es, hk, hl, caps, attrs, h => by
    simp only [RecordKeysDistinctKVs, Bool.and_eq_true] at hk
    simp only [SlotsLinkedKVs, Bool.and_eq_true] at hl
    obtain ⟨τ, c, attrs', h1, h2, rfl⟩ := typeOfKVs_cons h
    obtain ⟨hm, g⟩ := soundPF hWF hND henv e hk.1 hl.1 caps τ c h1
    obtain ⟨hms, gs⟩ := soundPFKVs hWF hND henv es hk.2 hl.2 caps attrs' h2
    refine ⟨⟨?_, ?_⟩, fun hs hc => kvsGood_cons (g hs hc).1 (gs hs hc)⟩
    · simp only [ndAttrs, Bool.and_eq_true]; exact ⟨hm.1, hms.1⟩
    · simp only [nnAttrs, Bool.and_eq_true]; exact ⟨hm.2, hms.2⟩
end

end Cedar.C03
