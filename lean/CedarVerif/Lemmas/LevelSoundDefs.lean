import CedarVerif.Lemmas.LevelMono
import CedarVerif.Lemmas.LevelSlice
/-
C16 helper definitions and value-level lemmas for the soundness of level validation:
`Kinds` (the kind annotations of the typed AST agree with the run-time values), `projL` (projection of a value along an
access path), `Within` (all uids of a value are within k hops), factorisations of `evaluate` on `.`/`has`, and the
store-independence lemmas for the operators that dereference.
-/
namespace Cedar.Level
open Cedar Cedar.Slice

/-- the kind annotation of a `GetAttr`/`HasAttr` target describes the value: `entity` an entity uid, `record` a record
(`other` is never consulted: the checker reports an internal error) -/
def TKind.matches : TKind → Value → Bool
  | .entity, .prim (.entityUID _) => true
  | .record, .record _ => true
  | .other, _ => true
  | _, _ => false

-- every kind annotation in the typed expression agrees with the value its target evaluates to (if it evaluates);
-- only along evaluated positions: the `then` branch when the test is true, the right operand of `&&` when the left is
-- true, … (an unevaluated operand is typed under capabilities that need not hold at run time)
mutual
def Kinds (req : Request) (es : Entities) (sl : SlotEnv) : TExpr → Prop
  | .lit _ => True
  | .var _ => True
  | .slot _ => True
  | .unknown _ _ => True
  | .ite c t e =>
    Kinds req es sl c ∧ (evaluate req es sl c.erase = .ok (.prim (.bool true)) → Kinds req es sl t) ∧
      (evaluate req es sl c.erase = .ok (.prim (.bool false)) → Kinds req es sl e)
  | .and a b => Kinds req es sl a ∧ (evaluate req es sl a.erase = .ok (.prim (.bool true)) → Kinds req es sl b)
  | .or a b => Kinds req es sl a ∧ (evaluate req es sl a.erase = .ok (.prim (.bool false)) → Kinds req es sl b)
  | .unaryApp _ a => Kinds req es sl a
  | .binaryApp _ a b => Kinds req es sl a ∧ Kinds req es sl b
  | .call _ args => KindsList req es sl args
  | .getAttr k e _ => Kinds req es sl e ∧ ∀ v, evaluate req es sl e.erase = .ok v → k.matches v = true
  | .hasAttr k e _ => Kinds req es sl e ∧ ∀ v, evaluate req es sl e.erase = .ok v → k.matches v = true
  | .like e _ => Kinds req es sl e
  | .is e _ => Kinds req es sl e
  | .set xs => KindsList req es sl xs
  | .record kvs => KindsKVs req es sl kvs
def KindsList (req : Request) (es : Entities) (sl : SlotEnv) : List TExpr → Prop
  | [] => True
  | e :: xs => Kinds req es sl e ∧ KindsList req es sl xs
def KindsKVs (req : Request) (es : Entities) (sl : SlotEnv) : List (String × TExpr) → Prop
  | [] => True
  | (_, e) :: xs => Kinds req es sl e ∧ KindsKVs req es sl xs
end

theorem asBool_ok {v : Value} {b : Bool} (h : v.asBool = .ok b) : v = .prim (.bool b) := by
  cases v with
  | prim p => cases p <;> simp [Value.asBool] at h; subst h; rfl
  | _ => simp [Value.asBool] at h

/-- projection along an access path (head = first field taken); a non-record value is its own projection -/
def projL : Value → List String → Value
  | v, [] => v
  | .record kvs, a :: p =>
    match lookupKV kvs a with
    | some x => projL x p
    | none => .record []
  | .prim x, _ :: _ => .prim x
  | .set x, _ :: _ => .set x
  | .ext x, _ :: _ => .ext x

theorem projL_prim (x : Prim) (p : List String) : projL (.prim x) p = .prim x := by
  cases p <;> simp [projL]

theorem uidsOf_projL : ∀ (p : List String) (v : Value) (u : EntityUID), u ∈ uidsOf (projL v p) → u ∈ uidsOf v
  | [], v, u => by simp [projL]
  | a :: p, v, u => by
      cases v with
      | prim x => simp [projL]
      | set x => simp [projL]
      | ext x => simp [projL]
      | record kvs =>
        simp only [projL]
        cases h : lookupKV kvs a with
        | none => simp [uidsOf, uidsOfKVs]
        | some x =>
          simp only
          intro hu
          simp only [uidsOf]
          exact uidsOf_lookupKV h (uidsOf_projL p x u hu)

/-- all entity uids of the value are within `k` hops of the request -/
def Within (req : Request) (es : Entities) (k : Nat) (v : Value) : Prop := ∀ u ∈ uidsOf v, u ∈ reach es req k

theorem Within.mono {req : Request} {es : Entities} {k m : Nat} {v : Value} (h : Within req es k v) (hkm : k ≤ m) :
    Within req es m v := fun u hu => reach_mono hkm (h u hu)

/-! ### `.` and `has` factored through the value of the target -/

def getAttrV (es : Entities) (v : Value) (attr : String) : Result Value :=
  match v with
  | .record kvs => match lookupKV kvs attr with
    | some v => .ok v
    | none => .error .attr
  | .prim (.entityUID u) => match es.find? u with
    | none => .error .entity
    | some d => match lookupKV d.attrs attr with
      | some v => .ok v
      | none => .error .attr
  | _ => .error .type

def hasAttrV (es : Entities) (v : Value) (attr : String) : Result Value :=
  match v with
  | .record kvs => .ok (.prim (.bool (lookupKV kvs attr).isSome))
  | .prim (.entityUID u) => match es.find? u with
    | none => .ok (.prim (.bool false))
    | some d => .ok (.prim (.bool (lookupKV d.attrs attr).isSome))
  | _ => .error .type

theorem evaluate_getAttr (req : Request) (es : Entities) (sl : SlotEnv) (e : Expr) (attr : String) :
    evaluate req es sl (.getAttr e attr) =
      match evaluate req es sl e with
      | .error err => .error err
      | .ok v => getAttrV es v attr := by
  simp only [evaluate]
  cases evaluate req es sl e with
  | error _ => rfl
  | ok v =>
    cases v with
    | prim p => cases p <;> rfl
    | set _ => rfl
    | record _ => rfl
    | ext _ => rfl

theorem evaluate_hasAttr (req : Request) (es : Entities) (sl : SlotEnv) (e : Expr) (attr : String) :
    evaluate req es sl (.hasAttr e attr) =
      match evaluate req es sl e with
      | .error err => .error err
      | .ok v => hasAttrV es v attr := by
  simp only [evaluate]
  cases evaluate req es sl e with
  | error _ => rfl
  | ok v =>
    cases v with
    | prim p => cases p <;> rfl
    | set _ => rfl
    | record _ => rfl
    | ext _ => rfl

/-- a value that, if it is an entity uid, is within `n` hops -/
def EntityWithin (req : Request) (es : Entities) (n : Nat) (v : Value) : Prop :=
  ∀ u, v = .prim (.entityUID u) → u ∈ reach es req n

theorem getAttrV_atLevel {req : Request} {es : Entities} {n : Nat} {v : Value} (h : EntityWithin req es n v) (attr : String) :
    getAttrV (atLevel n req es) v attr = getAttrV es v attr := by
  cases v with
  | prim p =>
    cases p with
    | entityUID u => simp only [getAttrV, find?_atLevel_of_mem (h u rfl)]
    | _ => rfl
  | _ => rfl

theorem hasAttrV_atLevel {req : Request} {es : Entities} {n : Nat} {v : Value} (h : EntityWithin req es n v) (attr : String) :
    hasAttrV (atLevel n req es) v attr = hasAttrV es v attr := by
  cases v with
  | prim p =>
    cases p with
    | entityUID u => simp only [hasAttrV, find?_atLevel_of_mem (h u rfl)]
    | _ => rfl
  | _ => rfl

/-- on a non-entity value `.`/`has` do not read the store -/
theorem getAttrV_record (es₁ es₂ : Entities) (kvs : List (String × Value)) (attr : String) :
    getAttrV es₁ (.record kvs) attr = getAttrV es₂ (.record kvs) attr := rfl
theorem hasAttrV_record (es₁ es₂ : Entities) (kvs : List (String × Value)) (attr : String) :
    hasAttrV es₁ (.record kvs) attr = hasAttrV es₂ (.record kvs) attr := rfl

theorem applyBinary_noDeref {op : BinaryOp} (hop : isDerefOp op = false) (es₁ es₂ : Entities) (v1 v2 : Value) :
    applyBinary es₁ op v1 v2 = applyBinary es₂ op v1 v2 := by
  cases op <;> simp [isDerefOp] at hop <;> simp [applyBinary]

theorem applyBinary_deref {req : Request} {es : Entities} {n : Nat} {op : BinaryOp} {v1 : Value}
    (h : EntityWithin req es n v1) (v2 : Value) :
    applyBinary (atLevel n req es) op v1 v2 = applyBinary es op v1 v2 := by
  cases v1 with
  | prim p =>
    cases p with
    | entityUID u =>
      have hu := h u rfl
      have hin : ∀ u2, inE (atLevel n req es) u u2 = inE es u u2 := inE_atLevel hu
      cases op <;>
        simp only [applyBinary, Value.asEntity, Value.asInt, Value.asSet, bind, Except.bind, hin, find?_atLevel_of_mem hu]
    | _ => cases op <;> simp only [applyBinary, Value.asEntity, Value.asInt, Value.asSet, bind, Except.bind]
  | _ => cases op <;> simp only [applyBinary, Value.asEntity, Value.asInt, Value.asSet, bind, Except.bind]

/-! ### records: the field of a record literal's value is its last binding -/

def lastKV (a : String) : List (String × Value) → Option Value
  | [] => none
  | (k, v) :: rest =>
    match lastKV a rest with
    | some x => some x
    | none => if k == a then some v else none

theorem lookupKV_insertKV (k a : String) (v : Value) :
    ∀ (acc : List (String × Value)), lookupKV (insertKV k v acc) a = if k == a then some v else lookupKV acc a
  | [] => by simp [insertKV, lookupKV]
  | (k', v') :: rest => by
      have ih := lookupKV_insertKV k a v rest
      simp only [insertKV]
      split
      · simp [lookupKV]
      · split
        · rename_i _ heq
          have : k = k' := by simpa using heq
          subst this
          simp only [lookupKV]
          split <;> simp_all
        · rename_i _ hne
          simp only [lookupKV, ih]
          by_cases h1 : (k' == a) = true
          · have : k' = a := by simpa using h1
            subst this
            have : (k == k') = false := by simpa using hne
            simp [this]
          · simp [h1]

theorem lookupKV_foldl_insertKV (a : String) :
    ∀ (vs acc : List (String × Value)),
      lookupKV (vs.foldl (fun acc kv => insertKV kv.1 kv.2 acc) acc) a =
        match lastKV a vs with
        | some x => some x
        | none => lookupKV acc a
  | [], acc => by simp [lastKV]
  | (k, v) :: rest, acc => by
      simp only [List.foldl_cons, lookupKV_foldl_insertKV a rest, lastKV]
      cases lastKV a rest with
      | some x => rfl
      | none =>
        simp only [lookupKV_insertKV]
        split <;> rfl

theorem evaluateKVs_cons_ok {req : Request} {es : Entities} {sl : SlotEnv} {k : String} {x : Expr} {xs : List (String × Expr)}
    {vs : List (String × Value)} (h : evaluateKVs req es sl ((k, x) :: xs) = .ok vs) :
    ∃ v vs', evaluate req es sl x = .ok v ∧ evaluateKVs req es sl xs = .ok vs' ∧ vs = (k, v) :: vs' := by
  simp only [evaluateKVs] at h
  cases hv : evaluate req es sl x with
  | error _ => simp [hv] at h
  | ok v =>
    cases hvs : evaluateKVs req es sl xs with
    | error _ => simp [hv, hvs] at h
    | ok vs' =>
      simp only [hv, hvs, Except.ok.injEq] at h
      exact ⟨v, vs', rfl, rfl, h.symm⟩

theorem hasKey_cons (a k : String) (e : TExpr) (rest : List (String × TExpr)) :
    hasKey a ((k, e) :: rest) = ((k == a) || hasKey a rest) := by
  simp [hasKey]

theorem derefLevelKVs_none_iff (act : EntityUID) (a : String) (p : List String) :
    ∀ (kvs : List (String × TExpr)), derefLevelKVs act a p kvs = none ↔ hasKey a kvs = false
  | [] => by simp [derefLevelKVs, hasKey]
  | (k, e) :: rest => by
      have ih := derefLevelKVs_none_iff act a p rest
      simp only [derefLevelKVs, hasKey_cons]
      cases hr : derefLevelKVs act a p rest with
      | some l =>
        have : hasKey a rest = true := by
          cases hh : hasKey a rest with
          | true => rfl
          | false => rw [ih.mpr hh] at hr; cases hr
        simp [this]
      | none =>
        have := ih.mp hr
        by_cases hk : (k == a) = true <;> simp [hk, this]

theorem derefErrsKVs_noKey (n : Nat) (act : EntityUID) (a : String) (p : List String) :
    ∀ (kvs : List (String × TExpr)), hasKey a kvs = false → derefErrsKVs n act a p kvs = checkKVs n act kvs
  | [] => by simp [derefErrsKVs, checkKVs]
  | (k, e) :: rest => by
      intro h
      rw [hasKey_cons] at h
      have h1 : (k == a) = false := by
        cases hk : (k == a) with
        | true => simp [hk] at h
        | false => rfl
      have h2 : hasKey a rest = false := by
        cases hk : hasKey a rest with
        | true => simp [hk] at h
        | false => rfl
      simp [derefErrsKVs, checkKVs, h1, derefErrsKVs_noKey n act a p rest h2]

theorem lastKV_of_noKey {req : Request} {es : Entities} {sl : SlotEnv} (a : String) :
    ∀ (kvs : List (String × TExpr)) (vs : List (String × Value)),
      evaluateKVs req es sl (eraseKVs kvs) = .ok vs → hasKey a kvs = false → lastKV a vs = none
  | [], vs => by
      intro h _
      simp only [eraseKVs, evaluateKVs, Except.ok.injEq] at h
      subst h; rfl
  | (k, e) :: rest, vs => by
      intro h hk
      simp only [eraseKVs] at h
      obtain ⟨v, vs', _, h2, h3⟩ := evaluateKVs_cons_ok h
      subst h3
      rw [hasKey_cons] at hk
      have h1 : (k == a) = false := by
        cases hh : (k == a) with
        | true => simp [hh] at hk
        | false => rfl
      have h2' : hasKey a rest = false := by
        cases hh : hasKey a rest with
        | true => simp [hh] at hk
        | false => rfl
      simp [lastKV, lastKV_of_noKey a rest vs' h2 h2', h1]

theorem lastKV_of_hasKey {req : Request} {es : Entities} {sl : SlotEnv} (a : String) :
    ∀ (kvs : List (String × TExpr)) (vs : List (String × Value)),
      evaluateKVs req es sl (eraseKVs kvs) = .ok vs → hasKey a kvs = true → ∃ x, lastKV a vs = some x
  | [], vs => by intro _ hk; simp [hasKey] at hk
  | (k, e) :: rest, vs => by
      intro h hk
      simp only [eraseKVs] at h
      obtain ⟨v, vs', _, h2, h3⟩ := evaluateKVs_cons_ok h
      subst h3
      simp only [lastKV]
      cases hr : hasKey a rest with
      | true =>
        obtain ⟨x, hx⟩ := lastKV_of_hasKey a rest vs' h2 hr
        exact ⟨x, by simp [hx]⟩
      | false =>
        rw [hasKey_cons, hr] at hk
        have h1 : (k == a) = true := by simpa using hk
        have := lastKV_of_noKey (req := req) (es := es) (sl := sl) a rest vs' h2 hr
        exact ⟨v, by simp [this, h1]⟩

end Cedar.Level
