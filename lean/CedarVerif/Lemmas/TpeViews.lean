import CedarVerif.Lemmas.TpeTable
/- C14 helpers: the views of a `tpe::Response` at the level of presented policies, the queries. -/
namespace Cedar.Tpe
open Cedar

/-- what `TpeResponse::policies()` presents -/
def Response.policiesView (r : Response) : List Policy := r.policies.map (·.toPolicy)
/-- what `TpeResponse::get_policy(id)` presents -/
def Response.getPolicyView (r : Response) (id : String) : Option Policy := (r.getPolicy id).map (·.toPolicy)
/-- what `TpeResponse::residual_policies()` presents -/
def Response.residualPoliciesView (r : Response) : List Policy := r.residualPolicies.map (·.toPolicy)

/-- ids of a response are unique (`PolicySet` ids are) -/
def Response.UniqueIds (r : Response) : Prop := (r.residuals.map (·.id)).Nodup

theorem find?_of_nodup {rs : List ResidualPolicy} (hn : (rs.map (·.id)).Nodup) {rp : ResidualPolicy} (h : rp ∈ rs) :
    rs.find? (fun x => x.id == rp.id) = some rp := by
  induction rs with
  | nil => cases h
  | cons a rs ih =>
    simp only [List.map_cons, List.nodup_cons] at hn
    rcases List.mem_cons.mp h with rfl | h'
    · simp [List.find?]
    · have hne : a.id ≠ rp.id := by
        intro heq; exact hn.1 (heq ▸ List.mem_map.mpr ⟨rp, h', rfl⟩)
      have hb : (a.id == rp.id) = false := by simpa using hne
      simp [List.find?, hb, ih hn.2 h']

end Cedar.Tpe
