import CedarVerif.Cedar.SchemaDecl
import CedarVerif.Lemmas.SchemaSyntax
/-
C09 lemmas, declaration level: the parser of standard entity declarations inverts the printer.
-/
namespace Cedar.SchemaSyntax

/-- well-formed declaration: at least one name, every name / path component an identifier the grammar's `Ident` accepts, no
declared name is the reserved `__cedar` -/
def WFD (d : EntityDecl) : Prop :=
  d.names ≠ [] ∧ (∀ n ∈ d.names, validId n = true ∧ n ≠ "__cedar") ∧ (∀ q ∈ d.memberOf, ∀ c ∈ q.comps, validId c = true) ∧
  WFA d.attrs ∧ (∀ t, d.tags = some t → WFC t)

/-- the continuation does not continue a comma-separated list -/
def NoComma : List Tok → Prop
  | .comma :: _ => False
  | _ => True

theorem parseIdents_print : ∀ (ns : List String) (rest : List Tok), ns ≠ [] → (∀ n ∈ ns, validId n = true) → NoComma rest →
    parseIdents (printIdents ns ++ rest) = some (ns, rest)
  | [], _, h, _, _ => absurd rfl h
  | [s], rest, _, hv, hr => by
    have hs : validId s = true := hv s (by simp)
    simp only [printIdents, List.cons_append, List.nil_append]
    match rest, hr with
    | [], _ => simp [parseIdents, hs]
    | .comma :: _, h => exact absurd h (by simp [NoComma])
    | .id _ :: _, _ => simp [parseIdents, hs]
    | .str _ :: _, _ => simp [parseIdents, hs]
    | .dcolon :: _, _ => simp [parseIdents, hs]
    | .lt :: _, _ => simp [parseIdents, hs]
    | .gt :: _, _ => simp [parseIdents, hs]
    | .lb :: _, _ => simp [parseIdents, hs]
    | .rb :: _, _ => simp [parseIdents, hs]
    | .colon :: _, _ => simp [parseIdents, hs]
    | .q :: _, _ => simp [parseIdents, hs]
    | .other _ :: _, _ => simp [parseIdents, hs]
  | s :: s2 :: more, rest, _, hv, hr => by
    have hs : validId s = true := hv s (by simp)
    have ih := parseIdents_print (s2 :: more) rest (by simp) (fun n hn => hv n (List.mem_cons_of_mem _ hn)) hr
    simp only [printIdents, List.cons_append] at ih ⊢
    simp only [parseIdents, hs, if_true]
    rw [ih]

theorem parsePath_print (q : QName) (rest : List Tok) (hv : ∀ c ∈ q.comps, validId c = true) (hr : OkRest rest) :
    ∃ s tl, printName q ++ rest = .id s :: tl ∧ parsePath s tl = some (.ident q, rest) := by
  obtain ⟨path, base⟩ := q
  cases path with
  | nil =>
    have hb : validId base = true := hv base (by simp [QName.comps])
    have hpt : parsePathTail rest = some ([], rest) := by
      have := parsePathTail_print [] rest (by simp) hr
      simpa [printPathTail] using this
    exact ⟨base, rest, by simp [printName, QName.comps, printPathTail], by simp [parsePath, hb, hpt, QName.ofComps]⟩
  | cons s path =>
    have hs : validId s = true := hv s (by simp [QName.comps])
    have htail : parsePathTail (printPathTail (path ++ [base]) ++ rest) = some (path ++ [base], rest) :=
      parsePathTail_print (path ++ [base]) rest (fun c hc => hv c (by simp [QName.comps] at hc ⊢; exact Or.inr hc)) hr
    refine ⟨s, printPathTail (path ++ [base]) ++ rest, by simp [printName, QName.comps], ?_⟩
    simp only [parsePath, hs, if_true, htail]
    rw [ofComps_append path base s]

theorem okRest_other (s : String) (r : List Tok) : OkRest (.other s :: r) := by simp [OkRest]
theorem okRest_id (s : String) (r : List Tok) : OkRest (.id s :: r) := by simp [OkRest]

theorem parsePathsTail_print : ∀ (qs : List QName) (fuel : Nat) (rest : List Tok), qs ≠ [] → qs.length ≤ fuel →
    (∀ q ∈ qs, ∀ c ∈ q.comps, validId c = true) →
    parsePathsTail fuel (printNames qs ++ tRbrack :: rest) = some (qs, rest)
  | [], _, _, h, _, _ => absurd rfl h
  | [q], fuel, rest, _, hf, hv => by
    obtain ⟨s, tl, h1, h2⟩ := parsePath_print q (tRbrack :: rest) (hv q (by simp)) (okRest_other _ _)
    cases fuel with
    | zero => simp at hf
    | succ fuel =>
      simp only [printNames]
      rw [h1]
      simp [parsePathsTail, h2, tRbrack]
  | q :: q2 :: more, fuel, rest, _, hf, hv => by
    cases fuel with
    | zero => simp at hf
    | succ fuel =>
      have ih := parsePathsTail_print (q2 :: more) fuel rest (by simp) (by simp at hf ⊢; omega)
        (fun x hx => hv x (List.mem_cons_of_mem _ hx))
      obtain ⟨s, tl, h1, h2⟩ := parsePath_print q (.comma :: (printNames (q2 :: more) ++ tRbrack :: rest)) (hv q (by simp))
        (okRest_comma _)
      simp only [printNames, List.append_assoc, List.cons_append]
      rw [h1]
      simp only [parsePathsTail, h2, ih]

theorem printName_head (q : QName) : ∃ s tl, printName q = .id s :: tl := by
  obtain ⟨path, base⟩ := q
  cases path <;> simp [printName, QName.comps]

theorem printNames_head : ∀ (qs : List QName), qs ≠ [] → ∃ s tl, printNames qs = .id s :: tl
  | [], h => absurd rfl h
  | [q], _ => printName_head q
  | q :: q2 :: more, _ => by
    obtain ⟨s, tl, h⟩ := printName_head q
    exact ⟨s, tl ++ .comma :: printNames (q2 :: more), by simp [printNames, h]⟩

/-- what follows the tags part -/
theorem parseTagsPart_print (tags : Option TyCedar) (fuel : Nat) (rest : List Tok)
    (hw : ∀ t, tags = some t → WFC t) (hf : ∀ t, tags = some t → sizeC t ≤ fuel) :
    parseTagsPart fuel (printTagsPart tags ++ tSemi :: rest) = some (tags, tSemi :: rest) := by
  cases tags with
  | none => simp [printTagsPart, parseTagsPart, tSemi]
  | some t =>
    have := parseC_print t (hw t rfl) fuel (tSemi :: rest) (hf t rfl) (okRest_other _ _)
    simp [printTagsPart, parseTagsPart, this]

theorem tagsCont_cases (tags : Option TyCedar) (rest : List Tok) :
    (∃ tl, printTagsPart tags ++ tSemi :: rest = .id "tags" :: tl) ∨ (printTagsPart tags ++ tSemi :: rest = .other ";" :: rest) := by
  cases tags with
  | none => exact Or.inr (by simp [printTagsPart, tSemi])
  | some t => exact Or.inl ⟨printC t ++ tSemi :: rest, by simp [printTagsPart]⟩

theorem parseShapePart_print (as : AttrsC) (tags : Option TyCedar) (fuel : Nat) (rest : List Tok)
    (hw : WFA as) (hf : sizeC (.record as) ≤ fuel) :
    parseShapePart fuel (printShapePart as ++ (printTagsPart tags ++ tSemi :: rest)) =
      some (as, printTagsPart tags ++ tSemi :: rest) := by
  cases as with
  | nil =>
    simp only [printShapePart, List.nil_append]
    rcases tagsCont_cases tags rest with ⟨tl, h⟩ | h <;> rw [h] <;> simp [parseShapePart]
  | cons n req t more =>
    have hok : OkRest (printTagsPart tags ++ tSemi :: rest) := by
      rcases tagsCont_cases tags rest with ⟨tl, h⟩ | h <;> rw [h] <;> simp [OkRest]
    have := parseC_print (.record (.cons n req t more)) (by simpa [WFC] using hw) fuel _ hf hok
    simp only [printShapePart, List.cons_append]
    simp only [printC, List.cons_append] at this ⊢
    simp only [parseShapePart, tEq, this]

theorem shapeCont_cases (as : AttrsC) (tags : Option TyCedar) (rest : List Tok) :
    (∃ tl, printShapePart as ++ (printTagsPart tags ++ tSemi :: rest) = .other "=" :: tl) ∨
    (∃ tl, printShapePart as ++ (printTagsPart tags ++ tSemi :: rest) = .id "tags" :: tl) ∨
    (∃ tl, printShapePart as ++ (printTagsPart tags ++ tSemi :: rest) = .other ";" :: tl) := by
  cases as with
  | nil =>
    rcases tagsCont_cases tags rest with ⟨tl, h⟩ | h
    · exact Or.inr (Or.inl ⟨tl, by simpa [printShapePart] using h⟩)
    · exact Or.inr (Or.inr ⟨rest, by simpa [printShapePart] using h⟩)
  | cons n req t more =>
    exact Or.inl ⟨printC (.record (.cons n req t more)) ++ (printTagsPart tags ++ tSemi :: rest), by simp [printShapePart, tEq]⟩

theorem parseInPart_print (ms : List QName) (R : List Tok) (fuel : Nat)
    (hv : ∀ q ∈ ms, ∀ c ∈ q.comps, validId c = true) (hf : ms.length ≤ fuel)
    (hR : (∃ tl, R = .other "=" :: tl) ∨ (∃ tl, R = .id "tags" :: tl) ∨ (∃ tl, R = .other ";" :: tl)) :
    parseInPart fuel (printInPart ms ++ R) = some (ms, R) := by
  cases ms with
  | nil =>
    simp only [printInPart, List.nil_append]
    rcases hR with ⟨tl, h⟩ | ⟨tl, h⟩ | ⟨tl, h⟩ <;> subst h <;> simp [parseInPart]
  | cons q qs =>
    obtain ⟨s, tl, hh⟩ := printNames_head (q :: qs) (by simp)
    have hp := parsePathsTail_print (q :: qs) fuel R (by simp) hf hv
    simp only [printInPart, List.cons_append, List.append_assoc, List.nil_append, parseInPart, tLbrack]
    rw [hh] at hp ⊢
    simp only [List.cons_append] at hp ⊢
    simp only [parseEntTypes]
    exact hp

theorem inCont_noComma (ms : List QName) (R : List Tok)
    (hR : (∃ tl, R = .other "=" :: tl) ∨ (∃ tl, R = .id "tags" :: tl) ∨ (∃ tl, R = .other ";" :: tl)) :
    NoComma (printInPart ms ++ R) := by
  cases ms with
  | nil => rcases hR with ⟨tl, h⟩ | ⟨tl, h⟩ | ⟨tl, h⟩ <;> subst h <;> simp [printInPart, NoComma]
  | cons q qs => simp [printInPart, NoComma]

/-- fuel the parser needs for a declaration -/
def declFuel (d : EntityDecl) : Nat :=
  d.memberOf.length + sizeC (.record d.attrs) + (match d.tags with | some t => sizeC t | none => 0)

theorem parseEntity_print (d : EntityDecl) (h : WFD d) (fuel : Nat) (hf : declFuel d ≤ fuel) (rest : List Tok) :
    parseEntity fuel (printEntity d ++ rest) = some (d, rest) := by
  obtain ⟨names, memberOf, attrs, tags⟩ := d
  obtain ⟨hne, hvn, hvm, hwa, hwt⟩ := h
  simp only [declFuel] at hf
  have hf1 : memberOf.length ≤ fuel := by omega
  have hf2 : sizeC (.record attrs) ≤ fuel := by omega
  have hf3 : ∀ t, tags = some t → sizeC t ≤ fuel := by
    intro t ht; subst ht; simp only at hf; omega
  have hR2 := shapeCont_cases attrs tags rest
  simp only [printEntity, List.cons_append, List.append_assoc, List.nil_append]
  simp only [parseEntity]
  rw [parseIdents_print names _ hne (fun n hn => (hvn n hn).1) (inCont_noComma memberOf _ hR2)]
  simp only []
  rw [parseInPart_print memberOf _ fuel hvm hf1 hR2]
  simp only []
  rw [parseShapePart_print attrs tags fuel rest hwa hf2]
  simp only []
  rw [parseTagsPart_print tags fuel rest hwt hf3]
  have hres : ¬ "__cedar" ∈ names := fun hm => (hvn _ hm).2 rfl
  simp [tSemi, hres]

theorem printName_length (q : QName) : 1 ≤ (printName q).length := by
  obtain ⟨s, tl, h⟩ := printName_head q
  simp [h]

theorem printNames_length : ∀ (qs : List QName), qs.length ≤ (printNames qs).length
  | [] => by simp [printNames]
  | [q] => by have := printName_length q; simpa [printNames] using this
  | q :: q2 :: more => by
    have := printName_length q
    have ih := printNames_length (q2 :: more)
    simp only [printNames, List.length_append, List.length_cons] at ih ⊢
    omega

theorem declFuel_le_length (d : EntityDecl) : declFuel d ≤ (printEntity d).length + 1 := by
  obtain ⟨names, memberOf, attrs, tags⟩ := d
  have h1 : memberOf.length ≤ (printInPart memberOf).length := by
    cases memberOf with
    | nil => simp [printInPart]
    | cons q qs =>
      have := printNames_length (q :: qs)
      simp only [printInPart, List.length_cons, List.length_append] at this ⊢
      omega
  have h2 : sizeC (.record attrs) ≤ (printShapePart attrs).length + 1 := by
    cases attrs with
    | nil => simp [sizeC, sizeA, printShapePart]
    | cons n req t more =>
      have := sizeC_le_length (.record (.cons n req t more))
      simp only [printShapePart, List.length_cons]
      omega
  have h3 : (match tags with | some t => sizeC t | none => 0) ≤ (printTagsPart tags).length := by
    cases tags with
    | none => simp
    | some t =>
      have := sizeC_le_length t
      simp only [printTagsPart, List.length_cons]
      omega
  simp only [declFuel, printEntity, List.length_cons, List.length_append]
  omega

end Cedar.SchemaSyntax
