import CedarVerif.Cedar.Pattern
import CedarVerif.Lemmas.Like
/-
C20 helper lemmas for `Pattern::wildcard_match` (index form `wmIdx`):
 * the indexing sites `pattern[j]` / `text[i]` are never reached out of bounds, the fuel never runs out
   (direct potential argument on the index state),
 * the index form runs in lockstep with the suffix form `loopS` (hence `wmIdx p t = .result (M p t)`).
-/
namespace Cedar

/-- invariant of the index loop: the text position of the most recent `*` is not ahead of `i`
(this is what makes the backtracking step `i = tmp_idx + 1` a step forward in the text) -/
def IdxInv (s : WmSt) : Prop := s.hasStar = true → s.tmpIdx ≤ s.i

/-- potential: strictly decreases on every loop iteration -/
def idxPot (pat : Array PatElem) (text : Array Char) (s : WmSt) : Nat :=
  (text.size - (if s.hasStar then s.tmpIdx else s.i)) * (pat.size + 1) + (pat.size - s.j)

theorem idxPot_step (a b p x y : Nat) (h : b < a) (hy : y ≤ p) : b * (p + 1) + y < a * (p + 1) + x := by
  have : (b + 1) * (p + 1) ≤ a * (p + 1) := Nat.mul_le_mul_right _ h
  rw [Nat.add_mul] at this
  omega

/-- Outcomes of the loop: never a panic, never out of fuel, when the fuel exceeds the potential. -/
theorem wmIdxLoop_safe (pat : Array PatElem) (text : Array Char) :
    ∀ (fuel : Nat) (s : WmSt), IdxInv s → idxPot pat text s < fuel →
      match wmIdxLoop pat text fuel s with
      | .ok s' => IdxInv s'
      | .error (.result _) => True
      | .error (.panic _) => False
      | .error .fuel => False := by
  intro fuel
  induction fuel with
  | zero => intro s _ h; omega
  | succ fuel ih =>
    intro s hinv hpot
    unfold wmIdxLoop
    by_cases hc : (decide (s.i < text.size) && (!s.hasStar || s.starIdx != pat.size - 1)) = true
    · rw [if_pos hc]
      have hi : s.i < text.size := by
        simp only [Bool.and_eq_true, decide_eq_true_eq] at hc; exact hc.1
      -- the backtracking step, shared by two branches
      have back : s.hasStar = true →
          match wmIdxLoop pat text fuel { s with j := s.starIdx + 1, i := s.tmpIdx + 1, tmpIdx := s.tmpIdx + 1 } with
          | .ok s' => IdxInv s'
          | .error (.result _) => True
          | .error (.panic _) => False
          | .error .fuel => False := by
        intro hs
        have htmp := hinv hs
        apply ih
        · intro _; exact Nat.le_refl _
        · simp only [idxPot, hs, if_true] at hpot ⊢
          have := idxPot_step (text.size - s.tmpIdx) (text.size - (s.tmpIdx + 1)) pat.size (pat.size - s.j)
            (pat.size - (s.starIdx + 1)) (by omega) (by omega)
          omega
      by_cases hj : s.j < pat.size
      · rw [if_pos hj]
        rw [Array.getElem?_eq_getElem hj, Array.getElem?_eq_getElem hi]
        simp only
        by_cases hstar : pat[s.j].isStar = true
        · rw [if_pos hstar]
          apply ih
          · intro _; exact Nat.le_refl _
          · simp only [idxPot, if_true] at hpot ⊢
            by_cases hs : s.hasStar = true
            · have htmp := hinv hs
              simp only [hs, if_true] at hpot
              have : (text.size - s.i) * (pat.size + 1) ≤ (text.size - s.tmpIdx) * (pat.size + 1) :=
                Nat.mul_le_mul_right _ (by omega)
              omega
            · simp only [hs] at hpot
              simp only [Bool.false_eq_true, if_false] at hpot
              omega
        · rw [if_neg hstar]
          by_cases hm : pat[s.j].matchChar text[s.i] = true
          · rw [if_pos hm]
            apply ih
            · intro hs; have := hinv hs; simp only; omega
            · simp only [idxPot] at hpot ⊢
              by_cases hs : s.hasStar = true
              · simp only [hs, if_true] at hpot ⊢; omega
              · simp only [hs, Bool.false_eq_true, if_false] at hpot ⊢
                have := idxPot_step (text.size - s.i) (text.size - (s.i + 1)) pat.size (pat.size - s.j)
                  (pat.size - (s.j + 1)) (by omega) (by omega)
                omega
          · rw [if_neg hm]
            by_cases hs : s.hasStar = true
            · rw [if_pos hs]; exact back hs
            · rw [if_neg hs]; trivial
      · rw [if_neg hj]
        by_cases hs : s.hasStar = true
        · rw [if_pos hs]; exact back hs
        · rw [if_neg hs]; trivial
    · rw [if_neg hc]; exact hinv

theorem wmIdxSkip_safe (pat : Array PatElem) :
    ∀ (fuel j : Nat), pat.size - j < fuel →
      match wmIdxSkip pat fuel j with
      | .ok _ => True
      | .error (.result _) => False
      | .error (.panic _) => False
      | .error .fuel => False := by
  intro fuel
  induction fuel with
  | zero => intro j h; omega
  | succ fuel ih =>
    intro j h
    unfold wmIdxSkip
    by_cases hj : j < pat.size
    · rw [if_pos hj, Array.getElem?_eq_getElem hj]
      simp only
      by_cases hs : pat[j].isStar = true
      · rw [if_pos hs]; exact ih (j + 1) (by omega)
      · rw [if_neg hs]; trivial
    · rw [if_neg hj]; trivial

theorem wmIdx_initial_pot (pat : Array PatElem) (text : Array Char) :
    idxPot pat text ⟨0, 0, 0, 0, false⟩ < (text.size + 1) * (pat.size + 1) + 1 := by
  simp only [idxPot, Bool.false_eq_true, if_false, Nat.sub_zero]
  rw [Nat.add_mul]
  omega

/-- `wmIdx` is always a result. -/
theorem wmIdx_is_result (pat : Pattern) (text : List Char) : ∃ b, wmIdx pat text = .result b := by
  unfold wmIdx
  by_cases he : pat.isEmpty = true
  · rw [if_pos he]; exact ⟨_, rfl⟩
  · rw [if_neg he]
    simp only
    have h1 := wmIdxLoop_safe pat.toArray text.toArray _ ⟨0, 0, 0, 0, false⟩ (by intro h; cases h)
      (wmIdx_initial_pot pat.toArray text.toArray)
    cases hl : wmIdxLoop pat.toArray text.toArray ((text.toArray.size + 1) * (pat.toArray.size + 1) + 1) ⟨0, 0, 0, 0, false⟩ with
    | error o =>
      rw [hl] at h1
      cases o with
      | result b => exact ⟨b, rfl⟩
      | panic s => exact h1.elim
      | fuel => exact h1.elim
    | ok st =>
      simp only
      have h2 := wmIdxSkip_safe pat.toArray (pat.toArray.size + 1) st.j (by omega)
      cases hs : wmIdxSkip pat.toArray (pat.toArray.size + 1) st.j with
      | error o =>
        rw [hs] at h2
        cases o <;> exact h2.elim
      | ok j => exact ⟨_, rfl⟩

/-! ### lockstep with the suffix form -/

def relSt (P : Pattern) (T : List Char) (s : WmSt) : Option (Pattern × List Char) :=
  if s.hasStar then some (P.drop (s.starIdx + 1), T.drop s.tmpIdx) else none

def SimInv (P : Pattern) (s : WmSt) : Prop :=
  s.j ≤ P.length ∧ (s.hasStar = true → s.starIdx < P.length ∧ s.tmpIdx ≤ s.i)

def simSpec (P : Pattern) : Except IdxOutcome WmSt → Option Pattern → Prop
  | .ok s', l => s'.j ≤ P.length ∧ l = some (P.drop s'.j)
  | .error (.result b), l => b = false ∧ l = none
  | .error _, _ => True

theorem loopS_step (f : Nat) (c : Char) (ti' : List Char) (pj : Pattern) (st : Option (Pattern × List Char))
    (h : ∀ tt, st ≠ some ([], tt)) :
    loopS (f + 1) (c :: ti') pj st =
      match pj with
      | .star :: pj' => loopS f (c :: ti') pj' (some (pj', c :: ti'))
      | .char p :: pj' =>
        if p == c then loopS f ti' pj' st
        else match (generalizing := false) st with
          | none => none
          | some (_, []) => none
          | some (ps, _ :: tt') => loopS f tt' ps (some (ps, tt'))
      | [] =>
        match (generalizing := false) st with
          | none => none
          | some (_, []) => none
          | some (ps, _ :: tt') => loopS f tt' ps (some (ps, tt')) := by
  cases st with
  | none => cases pj with
    | nil => simp only [loopS]
    | cons e pj' => cases e <;> first | rfl | (simp only [loopS]; done) | (simp only [loopS]; rfl)
  | some q =>
    obtain ⟨ps, tt⟩ := q
    cases ps with
    | nil => exact absurd rfl (h tt)
    | cons e ps' => cases pj with
      | nil => first | rfl | (simp only [loopS]; done) | (simp only [loopS]; rfl)
      | cons e' pj' => cases e' <;> first | rfl | (simp only [loopS]; done) | (simp only [loopS]; rfl)

theorem wmIdxLoop_sim (P : Pattern) (T : List Char) :
    ∀ (fuel : Nat) (s : WmSt), SimInv P s →
      simSpec P (wmIdxLoop P.toArray T.toArray fuel s) (loopS fuel (T.drop s.i) (P.drop s.j) (relSt P T s)) := by
  intro fuel
  induction fuel with
  | zero => intro s _; simp only [wmIdxLoop, simSpec]
  | succ fuel ih =>
    intro s hinv
    unfold wmIdxLoop
    simp only [List.size_toArray]
    by_cases hc : (decide (s.i < T.length) && (!s.hasStar || s.starIdx != P.length - 1)) = true
    · rw [if_pos hc]
      simp only [Bool.and_eq_true, decide_eq_true_eq, Bool.or_eq_true, Bool.not_eq_true', bne_iff_ne, ne_eq] at hc
      obtain ⟨hi, hst⟩ := hc
      have hT : T.drop s.i = T[s.i] :: T.drop (s.i + 1) := List.drop_eq_getElem_cons hi
      have hnot : ∀ tt, relSt P T s ≠ some ([], tt) := by
        intro tt h
        unfold relSt at h
        by_cases hs : s.hasStar = true
        · rw [if_pos hs] at h
          have h1 := (hinv.2 hs).1
          rcases hst with h2 | h2
          · rw [hs] at h2; cases h2
          · have : List.drop (s.starIdx + 1) P = [] := by
              injection h with h; exact (Prod.mk.inj h).1
            rw [List.drop_eq_nil_iff] at this
            omega
        · rw [if_neg hs] at h; cases h
      rw [hT, loopS_step _ _ _ _ _ hnot]
      -- the backtracking step
      have back : s.hasStar = true →
          simSpec P (wmIdxLoop P.toArray T.toArray fuel { s with j := s.starIdx + 1, i := s.tmpIdx + 1, tmpIdx := s.tmpIdx + 1 })
            (match relSt P T s with
              | none => none
              | some (_, []) => none
              | some (ps, _ :: tt') => loopS fuel tt' ps (some (ps, tt'))) := by
        intro hs
        obtain ⟨h1, h2⟩ := hinv.2 hs
        have hlt : s.tmpIdx < T.length := by omega
        have hT2 : T.drop s.tmpIdx = T[s.tmpIdx] :: T.drop (s.tmpIdx + 1) := List.drop_eq_getElem_cons hlt
        have := ih { s with j := s.starIdx + 1, i := s.tmpIdx + 1, tmpIdx := s.tmpIdx + 1 }
          ⟨h1, by intro _; exact ⟨h1, Nat.le_refl _⟩⟩
        simp only [relSt, hs, if_true, hT2] at this ⊢
        exact this
      by_cases hj : s.j < P.length
      · rw [if_pos hj]
        have hP : P.drop s.j = P[s.j] :: P.drop (s.j + 1) := List.drop_eq_getElem_cons hj
        rw [hP]
        have e1 : P.toArray[s.j]? = some P[s.j] := by
          rw [List.getElem?_toArray]; exact List.getElem?_eq_getElem hj
        have e2 : T.toArray[s.i]? = some T[s.i] := by
          rw [List.getElem?_toArray]; exact List.getElem?_eq_getElem hi
        rw [e1, e2]
        simp only
        cases hpe : P[s.j] with
        | star =>
          simp only [PatElem.isStar, if_true]
          have := ih { s with hasStar := true, starIdx := s.j, tmpIdx := s.i, j := s.j + 1 }
            ⟨hj, by intro _; exact ⟨hj, Nat.le_refl _⟩⟩
          simp only [relSt, if_true, hT] at this
          exact this
        | char p =>
          simp only [PatElem.isStar, Bool.false_eq_true, if_false, PatElem.matchChar]
          by_cases hm : (p == T[s.i]) = true
          · simp only [hm, if_true]
            have := ih { s with i := s.i + 1, j := s.j + 1 }
              ⟨hj, by intro hs; have := hinv.2 hs; exact ⟨this.1, by simp only; omega⟩⟩
            simp only [relSt] at this ⊢
            exact this
          · have hm' : (p == T[s.i]) = false := by simpa using hm
            simp only [hm', Bool.false_eq_true, if_false]
            by_cases hs : s.hasStar = true
            · rw [if_pos hs]; exact back hs
            · rw [if_neg hs]
              simp only [relSt, hs, Bool.false_eq_true, if_false, simSpec, and_self]
      · rw [if_neg hj]
        have hP : P.drop s.j = [] := by rw [List.drop_eq_nil_iff]; omega
        rw [hP]
        simp only
        by_cases hs : s.hasStar = true
        · rw [if_pos hs]; exact back hs
        · rw [if_neg hs]
          simp only [relSt, hs, Bool.false_eq_true, if_false, simSpec, and_self]
    · rw [if_neg hc]
      simp only [simSpec]
      simp only [Bool.and_eq_true, decide_eq_true_eq, Bool.or_eq_true, Bool.not_eq_true', bne_iff_ne, ne_eq, not_and, not_or,
        Bool.not_eq_false, Decidable.not_not] at hc
      by_cases hi : s.i < T.length
      · obtain ⟨hs, hidx⟩ := hc hi
        have hT : T.drop s.i = T[s.i] :: T.drop (s.i + 1) := List.drop_eq_getElem_cons hi
        have h1 := (hinv.2 hs).1
        have : List.drop (s.starIdx + 1) P = [] := by rw [List.drop_eq_nil_iff]; omega
        rw [hT]
        simp only [relSt, hs, if_true, this, loopS]
        exact ⟨hinv.1, trivial⟩
      · have hT : T.drop s.i = [] := by rw [List.drop_eq_nil_iff]; omega
        rw [hT]
        simp only [loopS]
        exact ⟨hinv.1, trivial⟩

theorem wmIdxSkip_spec (P : Pattern) :
    ∀ (fuel j : Nat), P.length - j < fuel → j ≤ P.length →
      ∃ j', wmIdxSkip P.toArray fuel j = .ok j' ∧ ((j' == P.length) = (skipStars (P.drop j)).isEmpty) := by
  intro fuel
  induction fuel with
  | zero => intro j h; omega
  | succ fuel ih =>
    intro j h hle
    unfold wmIdxSkip
    simp only [List.size_toArray]
    by_cases hj : j < P.length
    · rw [if_pos hj]
      have e1 : P.toArray[j]? = some P[j] := by
        rw [List.getElem?_toArray]; exact List.getElem?_eq_getElem hj
      have hP : P.drop j = P[j] :: P.drop (j + 1) := List.drop_eq_getElem_cons hj
      rw [e1, hP]
      simp only
      cases hpe : P[j] with
      | star =>
        simp only [PatElem.isStar, if_true, skipStars]
        exact ih (j + 1) (by omega) (by omega)
      | char c =>
        simp only [PatElem.isStar, Bool.false_eq_true, if_false, skipStars]
        refine ⟨j, rfl, ?_⟩
        simp only [List.isEmpty_cons, beq_eq_false_iff_ne, ne_eq]
        omega
    · rw [if_neg hj]
      have hP : P.drop j = [] := by rw [List.drop_eq_nil_iff]; omega
      refine ⟨j, rfl, ?_⟩
      rw [hP]
      simp only [skipStars, List.isEmpty_nil, beq_iff_eq]
      omega

theorem M_nil_text (T : List Char) : M [] T = T.isEmpty := by
  cases T <;> simp [M]

/-- the index form computes the declarative matcher -/
theorem wmIdx_eq_M' (P : Pattern) (T : List Char) : wmIdx P T = .result (M P T) := by
  rw [← wm_correct]
  unfold wmIdx
  by_cases he : P.isEmpty = true
  · rw [if_pos he]
    have : P = [] := List.isEmpty_iff.mp he
    subst this
    rw [wm_correct, M_nil_text]
  · rw [if_neg he]
    simp only [List.size_toArray]
    have hsafe := wmIdxLoop_safe P.toArray T.toArray ((T.length + 1) * (P.length + 1) + 1) ⟨0, 0, 0, 0, false⟩
      (by intro h; cases h) (by have := wmIdx_initial_pot P.toArray T.toArray; simpa only [List.size_toArray] using this)
    have hsim := wmIdxLoop_sim P T ((T.length + 1) * (P.length + 1) + 1) ⟨0, 0, 0, 0, false⟩
      ⟨Nat.zero_le _, by intro h; cases h⟩
    simp only [List.drop_zero, relSt, Bool.false_eq_true, if_false] at hsim
    unfold wm
    cases hl : wmIdxLoop P.toArray T.toArray ((T.length + 1) * (P.length + 1) + 1) ⟨0, 0, 0, 0, false⟩ with
    | error o =>
      rw [hl] at hsafe hsim
      cases o with
      | result b =>
        simp only [simSpec] at hsim
        rw [hsim.2, hsim.1]
      | panic s => exact hsafe.elim
      | fuel => exact hsafe.elim
    | ok st =>
      rw [hl] at hsim
      simp only [simSpec] at hsim
      obtain ⟨hle, hloop⟩ := hsim
      rw [hloop]
      simp only
      obtain ⟨j', hj', hspec⟩ := wmIdxSkip_spec P (P.length + 1) st.j (by omega) hle
      rw [hj']
      simp only [hspec]

end Cedar
