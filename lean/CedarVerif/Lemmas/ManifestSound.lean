import CedarVerif.Lemmas.ManifestCover
/-
C17 helper lemmas, part 3: soundness of the analysis for the core fragment.  If a store `es'` is a sub-store of `es`
(`SubStore`) and covers the trie the analysis computes for `e` (`CoverRoots`), then `e` evaluates over `es'` as over `es`.
-/
namespace Cedar.Manifest
open Cedar

/-! ## walking an access path -/

/-- one `.a` step on a value (entity dereference or record projection) -/
def stepV (es : Entities) (v : Value) (a : String) : Option Value :=
  match v with
  | .prim (.entityUID u) =>
    match es.find? u with
    | some d => lookupKV d.attrs a
    | none => none
  | .record kvs => lookupKV kvs a
  | _ => none

def walk (es : Entities) : Value → List String → Option Value
  | v, [] => some v
  | v, f :: fs =>
    match stepV es v f with
    | some w => walk es w fs
    | none => none

theorem walk_snoc (es : Entities) (a : String) : ∀ (fs : List String) (v : Value),
    walk es v (fs ++ [a]) = (walk es v fs).bind (fun w => stepV es w a)
  | [], v => by cases h : stepV es v a <;> simp [walk, h]
  | f :: fs, v => by
    simp only [List.cons_append, walk]
    cases stepV es v f with
    | none => simp
    | some w => simpa using walk_snoc es a fs w

theorem trim_prim {v' : Value} {p : Prim} (h : Trim v' (.prim p)) : v' = .prim p :=
  trim_nonrecord h (by intro kvs; simp)

theorem trim_record_inv {v' : Value} {kvs : List (String × Value)} (h : Trim v' (.record kvs)) :
    ∃ kvs', v' = .record kvs' ∧ TrimKVs kvs' kvs := by
  cases v' with
  | record kvs' =>
    simp only [Trim] at h
    obtain ⟨k2, e, h⟩ := h
    cases e
    exact ⟨kvs', rfl, h⟩
  | prim p => simp [Trim] at h
  | set s => simp [Trim] at h
  | ext x => simp [Trim] at h

/-- a step in the slice is a step in the store, onto a trimmed value -/
theorem step_trim {es es' : Entities} (hsub : SubStore es es') {v v' : Value} (ht : Trim v' v) (a : String) {w' : Value}
    (h : stepV es' v' a = some w') : ∃ w, stepV es v a = some w ∧ Trim w' w := by
  cases v with
  | record kvs =>
    obtain ⟨kvs', e, hk⟩ := trim_record_inv ht
    subst e
    simp only [stepV] at h ⊢
    exact trimKVs_lookup kvs' kvs a w' hk h
  | prim p =>
    have e := trim_prim ht
    subst e
    cases p with
    | entityUID u =>
      simp only [stepV] at h ⊢
      cases hf : es'.find? u with
      | none => simp [hf] at h
      | some d' =>
        simp only [hf] at h
        obtain ⟨d, hd, hk, _⟩ := hsub u d' hf
        simp only [hd]
        exact trimKVs_lookup d'.attrs d.attrs a w' hk h
    | bool b => simp [stepV] at h
    | int n => simp [stepV] at h
    | string s => simp [stepV] at h
  | set s =>
    have e := trim_nonrecord ht (by intro kvs; simp)
    subst e
    simp [stepV] at h
  | ext x =>
    have e := trim_nonrecord ht (by intro kvs; simp)
    subst e
    simp [stepV] at h

/-- covering a node with a child `a` makes the `.a` step available in the slice -/
theorem cover_step {es es' : Entities} {req : Request} (hsub : SubStore es es') {a : String} {sub : AccessTrie}
    {anc : RootAccessTrie} {i e : Bool} {v v' w : Value}
    (hc : CoverV es es' req (.mk [(a, sub)] anc i e) v v') (ht : Trim v' v) (hs : stepV es v a = some w) :
    ∃ w', stepV es' v' a = some w' ∧ CoverV es es' req sub w w' ∧ Trim w' w := by
  cases v with
  | record kvs =>
    simp only [CoverV] at hc
    obtain ⟨kvs', e1, hf⟩ := hc
    subst e1
    simp only [CoverF] at hf
    simp only [stepV] at hs ⊢
    obtain ⟨w', h1, h2⟩ := hf.1 w hs
    refine ⟨w', h1, h2, ?_⟩
    obtain ⟨w0, h3, h4⟩ := step_trim hsub ht a (v' := .record kvs') (w' := w') (by simpa [stepV] using h1)
    simp only [stepV] at h3
    rw [hs] at h3; cases h3; exact h4
  | prim p =>
    cases p with
    | entityUID u =>
      simp only [CoverV] at hc
      obtain ⟨e1, hd⟩ := hc
      subst e1
      simp only [stepV] at hs ⊢
      cases hf : es.find? u with
      | none => simp [hf] at hs
      | some d =>
        simp only [hf] at hs
        obtain ⟨d', h1, h2, _⟩ := hd d hf
        simp only [CoverF] at h2
        obtain ⟨w', h3, h4⟩ := h2.1 w hs
        simp only [h1]
        refine ⟨w', h3, h4, ?_⟩
        obtain ⟨d0, hd0, hk, _⟩ := hsub u d' h1
        rw [hf] at hd0; cases hd0
        obtain ⟨w0, h5, h6⟩ := trimKVs_lookup d'.attrs d.attrs a w' hk h3
        rw [hs] at h5; cases h5; exact h6
    | bool b => simp [stepV] at hs
    | int n => simp [stepV] at hs
    | string s => simp [stepV] at hs
  | set s => simp [stepV] at hs
  | ext x => simp [stepV] at hs

/-- covering a node with a child makes the entity itself available in the slice -/
theorem cover_exists {es es' : Entities} {req : Request} {c : Fields} {anc : RootAccessTrie} {i e : Bool} {u : EntityUID}
    {v' : Value} {d : EntityData}
    (hc : CoverV es es' req (.mk c anc i e) (.prim (.entityUID u)) v') (hf : es.find? u = some d) :
    ∃ d', es'.find? u = some d' := by
  simp only [CoverV] at hc
  obtain ⟨d', h1, _⟩ := hc.2 d hf
  exact ⟨d', h1⟩

theorem pathTrie_snoc (a : String) (leaf : AccessTrie) : ∀ fs : List String,
    ∃ f sub, pathTrie (fs ++ [a]) leaf = .mk [(f, sub)] [] false false
  | [] => ⟨a, leaf, rfl⟩
  | f :: fs => ⟨f, pathTrie (fs ++ [a]) leaf, rfl⟩

/-- tandem walk: along a covered path the slice offers every step the store offers -/
theorem cover_walk {es es' : Entities} {req : Request} (hsub : SubStore es es') (a : String) (leaf : AccessTrie) :
    ∀ (fs : List String) (v0 v0' v v' : Value),
      CoverV es es' req (pathTrie (fs ++ [a]) leaf) v0 v0' → Trim v0' v0 →
      walk es v0 fs = some v → walk es' v0' fs = some v' →
      Trim v' v ∧ ∃ c anc i e, CoverV es es' req (.mk ((a, leaf) :: c) anc i e) v v'
  | [], v0, v0', v, v', hc, ht, h1, h2 => by
    simp only [walk, Option.some.injEq] at h1 h2
    subst h1; subst h2
    exact ⟨ht, [], [], false, false, hc⟩
  | f :: fs, v0, v0', v, v', hc, ht, h1, h2 => by
    simp only [walk] at h1 h2
    cases hs : stepV es v0 f with
    | none => simp [hs] at h1
    | some w =>
      simp only [hs] at h1
      have hc' : CoverV es es' req (.mk [(f, pathTrie (fs ++ [a]) leaf)] [] false false) v0 v0' := hc
      obtain ⟨w', h3, h4, h5⟩ := cover_step hsub hc' ht hs
      simp only [h3] at h2
      exact cover_walk hsub a leaf fs w w' v v' h4 h5 h1 h2

/-- requests whose context record is a well-formed map (every binding is the one a lookup finds) -/
def CtxWF (req : Request) : Prop := Trim (.record req.context) (.record req.context)

theorem trim_rootVal {req : Request} (hctx : CtxWF req) (root : EntityRoot) : Trim (rootVal req root) (rootVal req root) := by
  cases root with
  | literal u => simp [rootVal, Trim]
  | var x => cases x <;> first | exact hctx | simp [rootVal, Trim]

theorem cover_walk_root {es es' : Entities} {req : Request} (hsub : SubStore es es') (hctx : CtxWF req) (a : String)
    (leaf : AccessTrie) (fs : List String) (root : EntityRoot) (v v' : Value)
    (hc : CoverV es es' req (pathTrie (fs ++ [a]) leaf) (rootVal req root) (rootVal req root))
    (h1 : walk es (rootVal req root) fs = some v) (h2 : walk es' (rootVal req root) fs = some v') :
    Trim v' v ∧ ∃ c anc i e, CoverV es es' req (.mk ((a, leaf) :: c) anc i e) v v' :=
  cover_walk hsub a leaf fs _ _ v v' hc (trim_rootVal hctx root) h1 h2

/-! ## provenance of values and the evaluation relation -/

/-- a boolean, long, string or extension value: nothing can be dereferenced, nothing refers to an entity -/
def Scalar : Value → Prop
  | .prim (.entityUID _) => False
  | .record _ => False
  | .set _ => False
  | _ => True

/-- the value pair `(v, v')` (store, slice) is what one of the access paths denotes -/
def PCover (es es' : Entities) (req : Request) : WPaths → Value → Value → Prop
  | .path root fs, v, v' => walk es (rootVal req root) fs = some v ∧ walk es' (rootVal req root) fs = some v'
  | .union a b, v, v' => PCover es es' req a v v' ∨ PCover es es' req b v v'
  | .empty, v, _ => Scalar v
  | .record _, _, _ => False
  | .set _, _, _ => False

/-- evaluation over the slice agrees with evaluation over the store: same error, or a trimmed copy of the same value
reached through the same access paths -/
def Rel (es es' : Entities) (req : Request) (P : WPaths) (r r' : Result Value) : Prop :=
  match r with
  | .error x => r' = .error x
  | .ok v => ∃ v', r' = .ok v' ∧ Trim v' v ∧ PCover es es' req P v v'

theorem Rel.mono {es es' : Entities} {req : Request} {P Q : WPaths} {r r' : Result Value}
    (h : Rel es es' req P r r') (hpq : ∀ v v', PCover es es' req P v v' → PCover es es' req Q v v') :
    Rel es es' req Q r r' := by
  cases r with
  | error x => exact h
  | ok v =>
    obtain ⟨v', h1, h2, h3⟩ := h
    exact ⟨v', h1, h2, hpq v v' h3⟩

/-- the paths (with the given leaf annotation) are covered -/
def PathsCov (es es' : Entities) (req : Request) (isAnc : Bool) (anc : RootAccessTrie) : WPaths → Prop
  | .path root fs => CoverRoots es es' req (toRootTrieWithLeaf root fs (.mk [] anc isAnc false))
  | .union a b => PathsCov es es' req isAnc anc a ∧ PathsCov es es' req isAnc anc b
  | .empty => True
  | .record _ => True
  | .set _ => True

mutual
theorem coverRoots_addWrapped (es es' : Entities) (req : Request) (isAnc : Bool) (anc : RootAccessTrie) :
    ∀ (p : WPaths) (g : RootAccessTrie), CoverRoots es es' req (addWrapped g isAnc anc p) →
      CoverRoots es es' req g ∧ PathsCov es es' req isAnc anc p
  | .path root fs, g, h => by
    simp only [addWrapped] at h
    have := coverRoots_union es es' req _ g h
    exact ⟨this.1, this.2⟩
  | .record kvs, g, h => by
    simp only [addWrapped] at h
    exact ⟨coverRoots_addWrappedKVs es es' req isAnc anc kvs g h, trivial⟩
  | .set elems, g, h => by
    simp only [addWrapped] at h
    exact ⟨(coverRoots_addWrapped es es' req isAnc anc elems g h).1, trivial⟩
  | .empty, g, h => by
    simp only [addWrapped] at h
    exact ⟨h, trivial⟩
  | .union a b, g, h => by
    simp only [addWrapped] at h
    obtain ⟨h1, h2⟩ := coverRoots_addWrapped es es' req isAnc anc b _ h
    obtain ⟨h3, h4⟩ := coverRoots_addWrapped es es' req isAnc anc a g h1
    exact ⟨h3, h4, h2⟩
theorem coverRoots_addWrappedKVs (es es' : Entities) (req : Request) (isAnc : Bool) (anc : RootAccessTrie) :
    ∀ (kvs : List (String × WPaths)) (g : RootAccessTrie), CoverRoots es es' req (addWrappedKVs g isAnc anc kvs) →
      CoverRoots es es' req g
  | [], g, h => by simpa [addWrappedKVs] using h
  | (_, v) :: rest, g, h => by
    simp only [addWrappedKVs] at h
    have h1 := coverRoots_addWrappedKVs es es' req isAnc anc rest _ h
    exact (coverRoots_addWrapped es es' req isAnc anc v g h1).1
end

/-! ## `.` and `has` on related values -/

/-- `GetAttr` on a value -/
def getV (es : Entities) (v : Value) (a : String) : Result Value :=
  match v with
  | .record kvs =>
    match lookupKV kvs a with
    | some w => .ok w
    | none => .error .attr
  | .prim (.entityUID u) =>
    match es.find? u with
    | none => .error .entity
    | some d =>
      match lookupKV d.attrs a with
      | some w => .ok w
      | none => .error .attr
  | _ => .error .type

/-- `HasAttr` on a value -/
def hasV (es : Entities) (v : Value) (a : String) : Result Value :=
  match v with
  | .record kvs => .ok (.prim (.bool (lookupKV kvs a).isSome))
  | .prim (.entityUID u) =>
    match es.find? u with
    | none => .ok (.prim (.bool false))
    | some d => .ok (.prim (.bool (lookupKV d.attrs a).isSome))
  | _ => .error .type

theorem evaluate_getAttr (req : Request) (es : Entities) (env : SlotEnv) (e : Expr) (a : String) :
    evaluate req es env (.getAttr e a) =
      match evaluate req es env e with
      | .error x => .error x
      | .ok v => getV es v a := by
  simp only [evaluate]
  cases evaluate req es env e with
  | error x => rfl
  | ok v =>
    cases v with
    | prim p => cases p <;> rfl
    | record kvs => rfl
    | set s => rfl
    | ext x => rfl

theorem evaluate_hasAttr (req : Request) (es : Entities) (env : SlotEnv) (e : Expr) (a : String) :
    evaluate req es env (.hasAttr e a) =
      match evaluate req es env e with
      | .error x => .error x
      | .ok v => hasV es v a := by
  simp only [evaluate]
  cases evaluate req es env e with
  | error x => rfl
  | ok v =>
    cases v with
    | prim p => cases p <;> rfl
    | record kvs => rfl
    | set s => rfl
    | ext x => rfl

/-- what a covered node with child `a` guarantees about `.a` / `has a` on a related value pair -/
theorem node_get_has {es es' : Entities} {req : Request} (hsub : SubStore es es') {a : String} {leaf : AccessTrie}
    {c : Fields} {anc : RootAccessTrie} {i e : Bool} {v v' : Value}
    (hc : CoverV es es' req (.mk ((a, leaf) :: c) anc i e) v v') (ht : Trim v' v) :
    hasV es' v' a = hasV es v a ∧
    (match getV es v a with
     | .error x => getV es' v' a = .error x
     | .ok w => ∃ w', getV es' v' a = .ok w' ∧ Trim w' w ∧ stepV es v a = some w ∧ stepV es' v' a = some w') := by
  cases v with
  | record kvs =>
    obtain ⟨kvs', e1, hk⟩ := trim_record_inv ht
    subst e1
    simp only [CoverV] at hc
    obtain ⟨kvs2, e2, hf⟩ := hc
    cases e2
    simp only [CoverF] at hf
    simp only [hasV, getV, stepV]
    cases hl : lookupKV kvs a with
    | none =>
      have : lookupKV kvs' a = none := by
        cases hl' : lookupKV kvs' a with
        | none => rfl
        | some w' =>
          obtain ⟨w, h1, _⟩ := trimKVs_lookup kvs' kvs a w' hk hl'
          rw [hl] at h1; cases h1
      simp [this]
    | some w =>
      obtain ⟨w', h1, _⟩ := hf.1 w hl
      obtain ⟨w0, h3, h4⟩ := trimKVs_lookup kvs' kvs a w' hk h1
      rw [hl] at h3; cases h3
      simp only [h1, Option.isSome_some, true_and]
      exact ⟨w', rfl, h4, rfl⟩
  | prim p =>
    have e1 := trim_prim ht
    subst e1
    cases p with
    | entityUID u =>
      simp only [hasV, getV, stepV]
      cases hf : es.find? u with
      | none =>
        have : es'.find? u = none := by
          cases hf' : es'.find? u with
          | none => rfl
          | some d' =>
            obtain ⟨d, hd, _⟩ := hsub u d' hf'
            rw [hf] at hd; cases hd
        simp [this]
      | some d =>
        obtain ⟨d', hd'⟩ := cover_exists hc hf
        obtain ⟨d0, hd0, hk, _⟩ := hsub u d' hd'
        rw [hf] at hd0; cases hd0
        simp only [CoverV] at hc
        obtain ⟨d2, h1, h2, _⟩ := hc.2 d hf
        rw [hd'] at h1; cases h1
        simp only [CoverF] at h2
        simp only [hd']
        cases hl : lookupKV d.attrs a with
        | none =>
          have : lookupKV d'.attrs a = none := by
            cases hl' : lookupKV d'.attrs a with
            | none => rfl
            | some w' =>
              obtain ⟨w, h1, _⟩ := trimKVs_lookup d'.attrs d.attrs a w' hk hl'
              rw [hl] at h1; cases h1
          simp [this]
        | some w =>
          obtain ⟨w', h3, _⟩ := h2.1 w hl
          obtain ⟨w0, h5, h6⟩ := trimKVs_lookup d'.attrs d.attrs a w' hk h3
          rw [hl] at h5; cases h5
          simp only [h3, Option.isSome_some, true_and]
          exact ⟨w', rfl, h6, rfl⟩
    | bool b => simp [hasV, getV]
    | int n => simp [hasV, getV]
    | string s => simp [hasV, getV]
  | set s =>
    have e1 := trim_nonrecord ht (by intro kvs; simp)
    subst e1
    simp [hasV, getV]
  | ext x =>
    have e1 := trim_nonrecord ht (by intro kvs; simp)
    subst e1
    simp [hasV, getV]

theorem scalar_get_has {es es' : Entities} {v v' : Value} (hs : Scalar v) (ht : Trim v' v) (a : String) :
    hasV es' v' a = hasV es v a ∧ getV es v a = .error .type ∧ getV es' v' a = .error .type := by
  cases v with
  | record kvs => simp [Scalar] at hs
  | prim p =>
    have e1 := trim_prim ht
    subst e1
    cases p with
    | entityUID u => simp [Scalar] at hs
    | bool b => simp [hasV, getV]
    | int n => simp [hasV, getV]
    | string s => simp [hasV, getV]
  | set s =>
    have e1 := trim_nonrecord ht (by intro kvs; simp)
    subst e1
    simp [hasV, getV]
  | ext x =>
    have e1 := trim_nonrecord ht (by intro kvs; simp)
    subst e1
    simp [hasV, getV]

theorem pathTrie_snoc_not_new (a : String) (leaf : AccessTrie) (fs : List String) : (pathTrie (fs ++ [a]) leaf).isNew = false := by
  obtain ⟨f, sub, h⟩ := pathTrie_snoc a leaf fs
  rw [h]; rfl

/-- `.a` / `has a` on related values whose provenance is `P`, when the extended paths are covered -/
theorem get_has_rel {es es' : Entities} {req : Request} (hsub : SubStore es es') (hctx : CtxWF req) (a : String) :
    ∀ (P P' : WPaths) (v v' : Value), P.getOrHasAttr a = .ok P' → PCover es es' req P v v' → Trim v' v →
      PathsCov es es' req false [] P' →
      hasV es' v' a = hasV es v a ∧ Rel es es' req P' (getV es v a) (getV es' v' a)
  | .path root fs, P', v, v', hp, hpc, ht, hcov => by
    simp only [WPaths.getOrHasAttr, Except.ok.injEq] at hp
    subst hp
    simp only [PathsCov, toRootTrieWithLeaf, pathTrie_snoc_not_new, Bool.false_eq_true, if_false, CoverRoots] at hcov
    obtain ⟨h1, h2⟩ := hpc
    obtain ⟨_, c, anc, i, e, hnode⟩ := cover_walk_root hsub hctx a (.mk [] [] false false) fs root v v' hcov.1 h1 h2
    obtain ⟨hh, hg⟩ := node_get_has hsub hnode ht
    refine ⟨hh, ?_⟩
    cases hgv : getV es v a with
    | error x => simp only [hgv] at hg; simp only [Rel]; exact hg
    | ok w =>
      simp only [hgv] at hg
      obtain ⟨w', e1, e2, e3, e4⟩ := hg
      simp only [Rel]
      refine ⟨w', e1, e2, ?_⟩
      simp only [PCover, walk_snoc, h1, h2, Option.bind_some]
      exact ⟨e3, e4⟩
  | .union p q, P', v, v', hp, hpc, ht, hcov => by
    simp only [WPaths.getOrHasAttr] at hp
    cases hp1 : WPaths.getOrHasAttr a p with
    | error x => simp [hp1] at hp
    | ok p' =>
      cases hq1 : WPaths.getOrHasAttr a q with
      | error x => simp [hp1, hq1] at hp
      | ok q' =>
        simp only [hp1, hq1, Except.ok.injEq] at hp
        subst hp
        simp only [PathsCov] at hcov
        rcases hpc with hpc | hpc
        · obtain ⟨hh, hg⟩ := get_has_rel hsub hctx a p p' v v' hp1 hpc ht hcov.1
          exact ⟨hh, hg.mono (fun _ _ h => Or.inl h)⟩
        · obtain ⟨hh, hg⟩ := get_has_rel hsub hctx a q q' v v' hq1 hpc ht hcov.2
          exact ⟨hh, hg.mono (fun _ _ h => Or.inr h)⟩
  | .empty, P', v, v', hp, hpc, ht, _ => by
    obtain ⟨h1, h2, h3⟩ := scalar_get_has (es := es) (es' := es') hpc ht a
    refine ⟨h1, ?_⟩
    rw [h2, h3]; rfl
  | .record kvs, _, _, _, _, hpc, _, _ => by simp [PCover] at hpc
  | .set el, _, _, _, _, hpc, _, _ => by simp [PCover] at hpc

end Cedar.Manifest
