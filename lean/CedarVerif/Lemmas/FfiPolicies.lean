import CedarVerif.Cedar.FfiPolicies
import CedarVerif.Lemmas.PolicySetApiRefine
import CedarVerif.Lemmas.PolicySetMergeThm
/-
Helpers for C19, part 2 (FFI policy-set assembly = an explicit history of API calls).
Spec-side vocabulary: `runStrict` (a history every step of which must succeed), `Item` (one input of the FFI's
template / link loops: a document-level error, or an API call with the wrapper of its error), `errsOf` (the errors
such a loop collects), `staticAdds` (the `add` calls of the static part), `apiHistory`.
-/
namespace Cedar.FfiP
open Cedar

/-- run a history of API calls; the first failing call aborts (`?`) -/
def runStrict (s : ApiPolicySet) : List ApiOp → Except PSError ApiPolicySet
  | [] => .ok s
  | op :: ops =>
    match (s.applyOp op).err with
    | some e => .error e
    | none => runStrict (s.applyOp op).ps ops

theorem fromPoliciesFrom_eq (bs : List TemplateBody) : ∀ s, fromPoliciesFrom s bs = runStrict s (bs.map ApiOp.add) := by
  induction bs with
  | nil => intro s; rfl
  | cons b bs ih =>
    intro s
    simp only [fromPoliciesFrom, List.map_cons, runStrict, ApiPolicySet.applyOp]
    cases h : (s.add (linkStaticPolicy b).2).err with
    | some e => rfl
    | none => exact ih _

theorem runStrict_ok_run (ops : List ApiOp) : ∀ s s', runStrict s ops = .ok s' → s' = s.run ops := by
  induction ops with
  | nil => intro s s' h; simp [runStrict] at h; simp [ApiPolicySet.run, h]
  | cons op ops ih =>
    intro s s' h
    simp only [runStrict] at h
    cases he : (s.applyOp op).err with
    | some e => rw [he] at h; cases h
    | none => rw [he] at h; simpa [ApiPolicySet.run] using ih _ _ h

theorem runStrict_append (a b : List ApiOp) : ∀ s, runStrict s (a ++ b) =
    (match runStrict s a with
     | .ok s' => runStrict s' b
     | .error e => .error e) := by
  induction a with
  | nil => intro s; rfl
  | cons op a ih =>
    intro s
    simp only [List.cons_append, runStrict]
    cases he : (s.applyOp op).err with
    | some e => rfl
    | none => exact ih _

/-- one input of the template loop / link loop of `ffi::PolicySet::parse` -/
inductive Item where
  | bad (e : Err)                               -- the document does not parse: the error is pushed, no API call
  | op (o : ApiOp) (wrap : PSError → Err)       -- an API call; its error, wrapped, is pushed

def logStep (acc : ApiPolicySet × List Err) : Item → ApiPolicySet × List Err
  | .bad e => (acc.1, acc.2 ++ [e])
  | .op o w =>
    match (acc.1.applyOp o).err with
    | some er => ((acc.1.applyOp o).ps, acc.2 ++ [w er])
    | none => ((acc.1.applyOp o).ps, acc.2)

/-- the API calls among the items -/
def itemOps : List Item → List ApiOp
  | [] => []
  | .bad _ :: r => itemOps r
  | .op o _ :: r => o :: itemOps r

/-- the errors the loop collects when started in state `s`: a failed call leaves its error and the loop goes on
in the state the failed call left (= the state before it, C08 `op_fail_unchanged`) -/
def errsOf (s : ApiPolicySet) : List Item → List Err
  | [] => []
  | .bad e :: r => e :: errsOf s r
  | .op o w :: r =>
    (match (s.applyOp o).err with | some er => [w er] | none => []) ++ errsOf (s.applyOp o).ps r

def noBad : List Item → Bool
  | [] => true
  | .bad _ :: _ => false
  | .op _ _ :: r => noBad r

theorem foldl_logStep (items : List Item) : ∀ s es,
    items.foldl logStep (s, es) = (s.run (itemOps items), es ++ errsOf s items) := by
  induction items with
  | nil => intro s es; simp [itemOps, errsOf, ApiPolicySet.run]
  | cons it items ih =>
    intro s es
    cases it with
    | bad e => simp [logStep, itemOps, errsOf, ih]
    | op o w =>
      simp only [List.foldl_cons, logStep, itemOps, errsOf, ApiPolicySet.run]
      cases he : (s.applyOp o).err with
      | some er => simp [ih]
      | none => simp [ih]

/-- the loop collects no error iff no document fails and every call of the history succeeds -/
theorem errsOf_nil_iff (items : List Item) : ∀ s,
    errsOf s items = [] ↔ (noBad items = true ∧ ∃ s', runStrict s (itemOps items) = .ok s') := by
  induction items with
  | nil => intro s; simp [errsOf, noBad, itemOps, runStrict]
  | cons it items ih =>
    intro s
    cases it with
    | bad e => simp [errsOf, noBad]
    | op o w =>
      simp only [errsOf, noBad, itemOps, runStrict]
      cases he : (s.applyOp o).err with
      | some er => simp
      | none => simpa using ih _

def templateItem (e : String × TemplateDoc) : Item :=
  match e.2.parsed with
  | none => .bad (.parseTemplate e.1)
  | some t => .op (.addTemplate (t.newId e.1)) (Err.addTemplate e.1)

def linkItem (l : TemplateLink) : Item :=
  match l.values with
  | none => .bad .linkValues
  | some v => .op (.link l.templateId l.newId v) Err.link

/-- the template loop followed by the link loop -/
def tailItems (f : FfiPolicySet) : List Item := f.templates.map templateItem ++ f.templateLinks.map linkItem

theorem addTemplateStep_eq (acc : ApiPolicySet × List Err) (e : String × TemplateDoc) :
    addTemplateStep acc e = logStep acc (templateItem e) := by
  unfold addTemplateStep templateItem
  cases e.2.parsed <;> rfl

theorem linkStep_eq (acc : ApiPolicySet × List Err) (l : TemplateLink) :
    linkStep acc l = logStep acc (linkItem l) := by
  unfold linkStep linkItem
  cases l.values <;> rfl

theorem foldl_tail (f : FfiPolicySet) (start : ApiPolicySet × List Err) :
    f.templateLinks.foldl linkStep (f.templates.foldl addTemplateStep start) = (tailItems f).foldl logStep start := by
  unfold tailItems
  rw [List.foldl_append, List.foldl_map, List.foldl_map]
  have h1 : (fun acc e => logStep acc (templateItem e)) = addTemplateStep := by
    funext acc e; exact (addTemplateStep_eq acc e).symm
  have h2 : (fun acc l => logStep acc (linkItem l)) = linkStep := by
    funext acc l; exact (linkStep_eq acc l).symm
  rw [h1, h2]

/-! ### the static part -/

/-- the document-level outcome of the static part: the bodies (ids assigned) that `from_str` / `from_policies` adds, in
order, or the errors reported without any call -/
def staticAdds : StaticPolicySet → Except (List Err) (List TemplateBody)
  | .concatenated none => .error [.parsePolicies]
  | .concatenated (some items) =>
    if (numbered 0 items).any ConcatItem.isTemplate then .error [.templateInStatic]
    else .ok (staticBodies (numbered 0 items))
  | .set docs =>
    let r := parseDocs (docs.map (fun d => (none, d)))
    if r.2.isEmpty then .ok r.1 else .error r.2
  | .map entries =>
    let r := parseDocs (entries.map (fun e => (some e.1, e.2)))
    if r.2.isEmpty then .ok r.1 else .error r.2

/-- how a failing `add` of the static part is reported -/
def staticWrap : StaticPolicySet → PSError → Err
  | .concatenated _, _ => .parsePolicies
  | _, e => .fromPolicies e

theorem static_parse_eq (sp : StaticPolicySet) :
    sp.parse = (match staticAdds sp with
      | .error es => .error es
      | .ok bs => match runStrict {} (bs.map ApiOp.add) with
        | .ok s => .ok s
        | .error e => .error [staticWrap sp e]) := by
  cases sp with
  | concatenated p =>
    cases p with
    | none => rfl
    | some items =>
      simp only [StaticPolicySet.parse, fromStr, staticAdds, fromPolicies, fromPoliciesFrom_eq]
      split
      · rfl
      · dsimp only
        generalize runStrict _ _ = r
        cases r <;> rfl
  | set docs =>
    simp only [StaticPolicySet.parse, staticAdds, fromPolicies, fromPoliciesFrom_eq]
    split
    · dsimp only
      generalize runStrict _ _ = r
      cases r <;> rfl
    · rfl
  | map entries =>
    simp only [StaticPolicySet.parse, staticAdds, fromPolicies, fromPoliciesFrom_eq]
    split
    · dsimp only
      generalize runStrict _ _ = r
      cases r <;> rfl
    · rfl

/-- THE explicit API history of an FFI policy set whose static documents parse to `bs`:
`add` for each static policy, then `add_template` for each parsed template, then `link` for each link with parsed
values — in the order of the Rust loops -/
def apiHistoryOf (bs : List TemplateBody) (f : FfiPolicySet) : List ApiOp :=
  bs.map ApiOp.add ++ itemOps (tailItems f)

/-- the history, when the static part passes its document-level checks (empty static part otherwise) -/
def apiHistory (f : FfiPolicySet) : List ApiOp :=
  match staticAdds f.staticPolicies with
  | .ok bs => apiHistoryOf bs f
  | .error _ => itemOps (tailItems f)

/-- every template handed to `add_template` has a slot (`Template::parse` / `Template::from_json` refuse a
slot-less policy): a fact about the parsers, hypothesis of `assemble_inv` -/
def FfiPolicySet.TemplatesHaveSlots (f : FfiPolicySet) : Prop :=
  ∀ e t, e ∈ f.templates → e.2.parsed = some t → t.slots ≠ []

theorem itemOps_append (a b : List Item) : itemOps (a ++ b) = itemOps a ++ itemOps b := by
  induction a with
  | nil => rfl
  | cons it a ih => cases it <;> simp [itemOps, ih]

theorem linkItems_wellTyped (ls : List TemplateLink) : ∀ op, op ∈ itemOps (ls.map linkItem) → op.wellTyped := by
  induction ls with
  | nil => intro op h; simp [itemOps] at h
  | cons l ls ih =>
    intro op h
    simp only [List.map_cons, linkItem] at h
    cases hv : l.values with
    | none => rw [hv] at h; exact ih op (by simpa [itemOps] using h)
    | some v =>
      rw [hv] at h
      simp only [itemOps, List.mem_cons] at h
      rcases h with rfl | h
      · trivial
      · exact ih op h

theorem templateItems_wellTyped (ts : List (String × TemplateDoc))
    (hs : ∀ e t, e ∈ ts → e.2.parsed = some t → t.slots ≠ []) :
    ∀ op, op ∈ itemOps (ts.map templateItem) → op.wellTyped := by
  induction ts with
  | nil => intro op h; simp [itemOps] at h
  | cons e ts ih =>
    intro op h
    have ih' := ih (fun e' t he' => hs e' t (List.mem_cons_of_mem _ he'))
    simp only [List.map_cons, templateItem] at h
    cases hv : e.2.parsed with
    | none => rw [hv] at h; exact ih' op (by simpa [itemOps] using h)
    | some t =>
      rw [hv] at h
      simp only [itemOps, List.mem_cons] at h
      rcases h with rfl | h
      · exact hs e t (by simp) hv
      · exact ih' op h

theorem apiHistoryOf_wellTyped (bs : List TemplateBody) (f : FfiPolicySet) (hs : f.TemplatesHaveSlots) :
    ∀ op, op ∈ apiHistoryOf bs f → op.wellTyped := by
  intro op h
  simp only [apiHistoryOf, tailItems, itemOps_append, List.mem_append, List.mem_map] at h
  rcases h with ⟨b, _, rfl⟩ | h | h
  · trivial
  · exact templateItems_wellTyped _ hs op h
  · exact linkItems_wellTyped _ op h

theorem api_run_append (a b : List ApiOp) : ∀ s : ApiPolicySet, s.run (a ++ b) = (s.run a).run b := by
  induction a with
  | nil => intro s; rfl
  | cons op a ih => intro s; simp [ApiPolicySet.run, ih]

theorem parseDocs_snd_ne_nil (l : List (Option String × PolicyDoc)) (h : (parseDocs l).2.isEmpty = false) :
    (parseDocs l).2 ≠ [] := by
  intro h'; rw [h'] at h; simp at h

theorem staticAdds_error_ne_nil (sp : StaticPolicySet) (es : List Err) (h : staticAdds sp = .error es) : es ≠ [] := by
  cases sp with
  | concatenated p =>
    cases p with
    | none => simp [staticAdds] at h; subst h; simp
    | some items =>
      simp only [staticAdds] at h
      split at h
      · cases h; simp
      · cases h
  | set docs =>
    simp only [staticAdds] at h
    split at h
    · cases h
    · rename_i hne
      cases h
      exact parseDocs_snd_ne_nil _ (by simpa using hne)
  | map entries =>
    simp only [staticAdds] at h
    split at h
    · cases h
    · rename_i hne
      cases h
      exact parseDocs_snd_ne_nil _ (by simpa using hne)

/-- `assembleSteps` = the static part, then the logged run of the template and link items -/
theorem assembleSteps_eq (f : FfiPolicySet) :
    assembleSteps f = (match f.staticPolicies.parse with
      | .ok s => (s.run (itemOps (tailItems f)), errsOf s (tailItems f))
      | .error es => (ApiPolicySet.run {} (itemOps (tailItems f)), es ++ errsOf {} (tailItems f))) := by
  unfold assembleSteps
  simp only [foldl_tail]
  cases f.staticPolicies.parse with
  | ok s => simp [foldl_logStep]
  | error es => simp [foldl_logStep]

end Cedar.FfiP
