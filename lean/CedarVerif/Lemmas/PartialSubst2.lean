import CedarVerif.Lemmas.PartialSubst1
/-
C13, substitution form: congruence of `evaluate ∘ substUnk` under agreement, lookups in evaluated record constructors,
projectable expressions never fail.
-/
namespace Cedar
namespace PS

section
variable (σ : Mapper) (req : Request) (es : Entities) (env : SlotEnv)

/-- the concrete meaning of an expression with unknowns: substitute, then evaluate -/
def Y (e : Expr) : Result Value := evaluate req es env (e.substUnk σ)

theorem Y_toExpr {v : Value} (h : v.Canon) : Y σ req es env v.toExpr = .ok v := by
  simp only [Y, substUnk_toExpr, evaluate_toExpr req es env v h]

theorem Y_lit (p : Prim) : Y σ req es env (.lit p) = .ok (.prim p) := by simp [Y, Expr.substUnk, evaluate]

theorem Y_unknown {name : String} {ty : Option TyAnn} {v : Value} (hl : lookupKV σ name = some v) (hc : v.Canon) :
    Y σ req es env (.unknown name ty) = .ok v := by
  simp only [Y, Expr.substUnk, hl, evaluate_toExpr req es env v hc]

variable {σ req es env}

theorem agree_and {a b l X : Expr} (h1 : Agree (Y σ req es env l) (Y σ req es env a))
    (h2 : Agree (Y σ req es env X) (Y σ req es env b)) :
    Agree (Y σ req es env (.and l X)) (Y σ req es env (.and a b)) := by
  simp only [Y, Expr.substUnk, evaluate] at *
  rcases h1 with ⟨v, e1, e2⟩ | ⟨c, c', e1, e2⟩
  · rw [e1, e2]
    cases hb : v.asBool with
    | error c => simp [hb]
    | ok bv =>
      cases bv with
      | false => simp [hb]
      | true =>
        rcases h2 with ⟨w, f1, f2⟩ | ⟨c, c', f1, f2⟩
        · rw [f1, f2]; cases hw : w.asBool <;> simp [hb, hw]
        · rw [f1, f2]; simp [hb]
  · rw [e1, e2]; simp

theorem agree_or {a b l X : Expr} (h1 : Agree (Y σ req es env l) (Y σ req es env a))
    (h2 : Agree (Y σ req es env X) (Y σ req es env b)) :
    Agree (Y σ req es env (.or l X)) (Y σ req es env (.or a b)) := by
  simp only [Y, Expr.substUnk, evaluate] at *
  rcases h1 with ⟨v, e1, e2⟩ | ⟨c, c', e1, e2⟩
  · rw [e1, e2]
    cases hb : v.asBool with
    | error c => simp [hb]
    | ok bv =>
      cases bv with
      | true => simp [hb]
      | false =>
        rcases h2 with ⟨w, f1, f2⟩ | ⟨c, c', f1, f2⟩
        · rw [f1, f2]; cases hw : w.asBool <;> simp [hb, hw]
        · rw [f1, f2]; simp [hb]
  · rw [e1, e2]; simp

theorem agree_ite {c t e g T E : Expr} (h1 : Agree (Y σ req es env g) (Y σ req es env c))
    (h2 : Agree (Y σ req es env T) (Y σ req es env t)) (h3 : Agree (Y σ req es env E) (Y σ req es env e)) :
    Agree (Y σ req es env (.ite g T E)) (Y σ req es env (.ite c t e)) := by
  simp only [Y, Expr.substUnk, evaluate] at *
  rcases h1 with ⟨v, e1, e2⟩ | ⟨c, c', e1, e2⟩
  · rw [e1, e2]
    cases hb : v.asBool with
    | error c => simp [hb]
    | ok bv => cases bv <;> simpa [hb]
  · rw [e1, e2]; simp

theorem agree_unary (op : UnaryOp) {a l : Expr} (h1 : Agree (Y σ req es env l) (Y σ req es env a)) :
    Agree (Y σ req es env (.unaryApp op l)) (Y σ req es env (.unaryApp op a)) := by
  simp only [Y, Expr.substUnk, evaluate] at *
  rcases h1 with ⟨v, e1, e2⟩ | ⟨c, c', e1, e2⟩
  · rw [e1, e2]; exact Agree.refl _
  · rw [e1, e2]; simp

theorem agree_binary (op : BinaryOp) {a b l X : Expr} (h1 : Agree (Y σ req es env l) (Y σ req es env a))
    (h2 : Agree (Y σ req es env X) (Y σ req es env b)) :
    Agree (Y σ req es env (.binaryApp op l X)) (Y σ req es env (.binaryApp op a b)) := by
  simp only [Y, Expr.substUnk, evaluate] at *
  rcases h1 with ⟨v, e1, e2⟩ | ⟨c, c', e1, e2⟩
  · rw [e1, e2]
    rcases h2 with ⟨w, f1, f2⟩ | ⟨c, c', f1, f2⟩
    · rw [f1, f2]; exact Agree.refl _
    · rw [f1, f2]; simp
  · rw [e1, e2]; simp

theorem agree_getAttr (attr : String) {a l : Expr} (h1 : Agree (Y σ req es env l) (Y σ req es env a)) :
    Agree (Y σ req es env (.getAttr l attr)) (Y σ req es env (.getAttr a attr)) := by
  simp only [Y, Expr.substUnk, evaluate] at *
  rcases h1 with ⟨v, e1, e2⟩ | ⟨c, c', e1, e2⟩
  · rw [e1, e2]; exact Agree.refl _
  · rw [e1, e2]; simp

theorem agree_hasAttr (attr : String) {a l : Expr} (h1 : Agree (Y σ req es env l) (Y σ req es env a)) :
    Agree (Y σ req es env (.hasAttr l attr)) (Y σ req es env (.hasAttr a attr)) := by
  simp only [Y, Expr.substUnk, evaluate] at *
  rcases h1 with ⟨v, e1, e2⟩ | ⟨c, c', e1, e2⟩
  · rw [e1, e2]; exact Agree.refl _
  · rw [e1, e2]; simp

theorem agree_like (p : Pattern) {a l : Expr} (h1 : Agree (Y σ req es env l) (Y σ req es env a)) :
    Agree (Y σ req es env (.like l p)) (Y σ req es env (.like a p)) := by
  simp only [Y, Expr.substUnk, evaluate] at *
  rcases h1 with ⟨v, e1, e2⟩ | ⟨c, c', e1, e2⟩
  · rw [e1, e2]; exact Agree.refl _
  · rw [e1, e2]; simp

theorem agree_is (ty : EntityType) {a l : Expr} (h1 : Agree (Y σ req es env l) (Y σ req es env a)) :
    Agree (Y σ req es env (.is l ty)) (Y σ req es env (.is a ty)) := by
  simp only [Y, Expr.substUnk, evaluate] at *
  rcases h1 with ⟨v, e1, e2⟩ | ⟨c, c', e1, e2⟩
  · rw [e1, e2]; exact Agree.refl _
  · rw [e1, e2]; simp

/-- agreement of list evaluations: the same values, or both errors -/
def AgreeL {α : Type} (a y : Result α) : Prop :=
  (∃ v, a = .ok v ∧ y = .ok v) ∨ (∃ c c', a = .error c ∧ y = .error c')

theorem agree_list {rs xs : List Expr}
    (h : ListRel (fun r x => Agree (Y σ req es env r) (Y σ req es env x)) rs xs) :
    AgreeL (evaluateList req es env (Expr.substUnkList σ rs)) (evaluateList req es env (Expr.substUnkList σ xs)) := by
  induction h with
  | nil => exact Or.inl ⟨[], rfl, rfl⟩
  | @cons r x rs xs hrx _ ih =>
    simp only [Expr.substUnkList, evaluateList]
    simp only [Y] at hrx
    rcases hrx with ⟨v, e1, e2⟩ | ⟨c, c', e1, e2⟩
    · rw [e1, e2]
      rcases ih with ⟨vs, f1, f2⟩ | ⟨c, c', f1, f2⟩
      · rw [f1, f2]; exact Or.inl ⟨_, rfl, rfl⟩
      · rw [f1, f2]; exact Or.inr ⟨_, _, rfl, rfl⟩
    · rw [e1, e2]; exact Or.inr ⟨_, _, rfl, rfl⟩

theorem agree_set {rs xs : List Expr}
    (h : ListRel (fun r x => Agree (Y σ req es env r) (Y σ req es env x)) rs xs) :
    Agree (Y σ req es env (.set rs)) (Y σ req es env (.set xs)) := by
  simp only [Y, Expr.substUnk, evaluate]
  rcases agree_list h with ⟨vs, f1, f2⟩ | ⟨c, c', f1, f2⟩
  · rw [f1, f2]; simp
  · rw [f1, f2]; simp

theorem agree_call (fn : String) {rs xs : List Expr}
    (h : ListRel (fun r x => Agree (Y σ req es env r) (Y σ req es env x)) rs xs) :
    Agree (Y σ req es env (.call fn rs)) (Y σ req es env (.call fn xs)) := by
  simp only [Y, Expr.substUnk, evaluate]
  rcases agree_list h with ⟨vs, f1, f2⟩ | ⟨c, c', f1, f2⟩
  · rw [f1, f2]; exact Agree.refl _
  · rw [f1, f2]; simp

theorem agree_kvs {rkvs kvs : List (String × Expr)}
    (h : ListRel (fun rk xk => rk.1 = xk.1 ∧ Agree (Y σ req es env rk.2) (Y σ req es env xk.2)) rkvs kvs) :
    AgreeL (evaluateKVs req es env (Expr.substUnkKVs σ rkvs)) (evaluateKVs req es env (Expr.substUnkKVs σ kvs)) := by
  induction h with
  | nil => exact Or.inl ⟨[], rfl, rfl⟩
  | @cons rk xk rkvs kvs hrx _ ih =>
    obtain ⟨k, r⟩ := rk
    obtain ⟨k', x⟩ := xk
    obtain ⟨hk, hrx⟩ := hrx
    simp only at hk hrx
    subst hk
    simp only [Expr.substUnkKVs, evaluateKVs]
    simp only [Y] at hrx
    rcases hrx with ⟨v, e1, e2⟩ | ⟨c, c', e1, e2⟩
    · rw [e1, e2]
      rcases ih with ⟨vs, f1, f2⟩ | ⟨c, c', f1, f2⟩
      · rw [f1, f2]; exact Or.inl ⟨_, rfl, rfl⟩
      · rw [f1, f2]; exact Or.inr ⟨_, _, rfl, rfl⟩
    · rw [e1, e2]; exact Or.inr ⟨_, _, rfl, rfl⟩

theorem agree_record {rkvs kvs : List (String × Expr)}
    (h : ListRel (fun rk xk => rk.1 = xk.1 ∧ Agree (Y σ req es env rk.2) (Y σ req es env xk.2)) rkvs kvs) :
    Agree (Y σ req es env (.record rkvs)) (Y σ req es env (.record kvs)) := by
  simp only [Y, Expr.substUnk, evaluate]
  rcases agree_kvs h with ⟨vs, f1, f2⟩ | ⟨c, c', f1, f2⟩
  · rw [f1, f2]; simp
  · rw [f1, f2]; simp

/-! ### lookups in an evaluated record constructor -/

theorem lookupKV_none_of_not_mem {α} {kvs : List (String × α)} {a : String} (h : a ∉ kvs.map Prod.fst) :
    lookupKV kvs a = none := by
  induction kvs with
  | nil => rfl
  | cons p kvs ih =>
    obtain ⟨k, v⟩ := p
    simp only [List.map_cons, List.mem_cons, not_or] at h
    simp only [lookupKV]
    have : (k == a) = false := by simpa using fun e => h.1 e.symm
    simp only [this, Bool.false_eq_true, if_false]
    exact ih h.2

theorem lookupKV_insertKV' {α} (k a : String) (v : α) (l : List (String × α)) :
    lookupKV (insertKV k v l) a = if k == a then some v else lookupKV l a := by
  induction l with
  | nil => simp [insertKV, lookupKV]
  | cons hd tl ih =>
    obtain ⟨k0, v0⟩ := hd
    unfold insertKV
    by_cases h1 : k < k0
    · simp [h1, lookupKV]
    · simp only [h1, if_false]
      by_cases h2 : k = k0
      · subst h2
        simp only [beq_self_eq_true, if_true, lookupKV]
        by_cases h : k = a <;> simp [h]
      · have h2' : (k == k0) = false := by simpa using h2
        simp only [h2']
        by_cases h3 : k0 = a <;> by_cases h4 : k = a <;> simp_all [lookupKV]

theorem lookupKV_foldl_nodup {α} (a : String) : ∀ (vs acc : List (String × α)), (vs.map Prod.fst).Nodup →
    lookupKV (vs.foldl (fun acc kv => insertKV kv.1 kv.2 acc) acc) a =
      match lookupKV vs a with
      | some x => some x
      | none => lookupKV acc a
  | [], acc, _ => by simp [lookupKV]
  | (k, v) :: rest, acc, hnd => by
    simp only [List.map_cons, List.nodup_cons] at hnd
    simp only [List.foldl_cons, lookupKV_foldl_nodup a rest _ hnd.2, lookupKV, lookupKV_insertKV']
    by_cases hk : k = a
    · subst hk
      simp [lookupKV_none_of_not_mem hnd.1]
    · have : (k == a) = false := by simpa using hk
      simp [this]

/-- what evaluating the components of a record constructor yields, key by key -/
theorem evalKVs_spec : ∀ (kvs : List (String × Expr)) (vs : List (String × Value)),
    evaluateKVs req es env (Expr.substUnkKVs σ kvs) = .ok vs →
    vs.map Prod.fst = kvs.map Prod.fst ∧
    ∀ a, match lookupKV kvs a with
      | none => lookupKV vs a = none
      | some e' => ∃ v', Y σ req es env e' = .ok v' ∧ lookupKV vs a = some v'
  | [], vs, h => by
    simp only [Expr.substUnkKVs, evaluateKVs, Except.ok.injEq] at h
    subst h
    exact ⟨rfl, fun a => by simp [lookupKV]⟩
  | (k, x) :: kvs, vs, h => by
    simp only [Expr.substUnkKVs, evaluateKVs] at h
    cases hx : evaluate req es env (x.substUnk σ) with
    | error c => simp [hx] at h
    | ok v =>
      cases hr : evaluateKVs req es env (Expr.substUnkKVs σ kvs) with
      | error c => simp [hx, hr] at h
      | ok vs' =>
        simp only [hx, hr, Except.ok.injEq] at h
        subst h
        obtain ⟨ih1, ih2⟩ := evalKVs_spec kvs vs' hr
        refine ⟨by simp [ih1], ?_⟩
        intro a
        simp only [lookupKV]
        by_cases hk : (k == a) = true
        · simp only [hk, if_true]
          exact ⟨v, hx, rfl⟩
        · simp only [hk, Bool.false_eq_true, if_false]
          exact ih2 a

/-- `.`/`has` on the value of a record constructor with distinct keys look at the components -/
theorem record_lookup {kvs : List (String × Expr)} (hnd : (kvs.map Prod.fst).Nodup) {R : List (String × Value)}
    (h : Y σ req es env (.record kvs) = .ok (.record R)) (a : String) :
    match lookupKV kvs a with
    | none => lookupKV R a = none
    | some e' => ∃ v', Y σ req es env e' = .ok v' ∧ lookupKV R a = some v' := by
  simp only [Y, Expr.substUnk, evaluate] at h
  cases hr : evaluateKVs req es env (Expr.substUnkKVs σ kvs) with
  | error c => simp [hr] at h
  | ok vs =>
    simp only [hr, Except.ok.injEq, Value.record.injEq] at h
    subst h
    obtain ⟨h1, h2⟩ := evalKVs_spec kvs vs hr
    have hl := lookupKV_foldl_nodup a vs [] (by rw [h1]; exact hnd)
    have := h2 a
    cases hk : lookupKV kvs a with
    | none => rw [hk] at this; simp only at this ⊢; rw [hl, this]; rfl
    | some e' =>
      rw [hk] at this
      obtain ⟨v', hv, hlv⟩ := this
      exact ⟨v', hv, by rw [hl, hlv]⟩

theorem Y_record_is_record {kvs : List (String × Expr)} {v : Value} (h : Y σ req es env (.record kvs) = .ok v) :
    ∃ R, v = .record R := by
  simp only [Y, Expr.substUnk, evaluate] at h
  split at h
  · cases h
  · cases h; exact ⟨_, rfl⟩

theorem any_key_eq {α} (kvs : List (String × α)) (a : String) :
    kvs.any (fun kv => kv.1 == a) = (lookupKV kvs a).isSome := by
  induction kvs with
  | nil => rfl
  | cons p kvs ih =>
    obtain ⟨k, v⟩ := p
    simp only [List.any_cons, lookupKV, ih]
    by_cases hk : (k == a) = true <;> simp [hk]

end

/-! ### `Value.toExpr` stays in the fragment -/

theorem nodup_of_sorted : ∀ ks : List String, CJson.Sorted ks → ks.Nodup
  | [], _ => List.nodup_nil
  | k :: ks, h => by
    simp only [CJson.Sorted] at h
    refine List.nodup_cons.mpr ⟨?_, nodup_of_sorted ks h.2⟩
    intro hk
    exact String.lt_irrefl _ (h.1 k hk)

theorem toExprKVs_keys : ∀ kvs : List (String × Value), (Value.toExprKVs kvs).map Prod.fst = kvs.map Prod.fst
  | [] => rfl
  | (k, v) :: kvs => by simp [Value.toExprKVs, toExprKVs_keys kvs]

theorem frag2_ext (σ : Mapper) (x : Ext) : Frag2 σ (Value.toExpr (.ext x)) := by
  have hl : ∀ (fn s : String), fn ≠ "unknown" → Frag2 σ (.call fn [.lit (.string s)]) := by
    intro fn s hfn
    refine .call fn hfn ?_
    intro y hy
    simp only [List.mem_cons, List.not_mem_nil, or_false] at hy
    subst hy; exact .lit _
  cases x with
  | decimal d => simp only [Value.toExpr, Ext.toExpr]; exact hl _ _ (by decide)
  | duration d => simp only [Value.toExpr, Ext.toExpr]; exact hl _ _ (by decide)
  | ipaddr v6 a p => cases v6 <;> (simp only [Value.toExpr, Ext.toExpr]; exact hl _ _ (by decide))
  | datetime d =>
    simp only [Value.toExpr, Ext.toExpr]
    refine .call _ (by decide) ?_
    intro y hy
    simp only [List.mem_cons, List.not_mem_nil, or_false] at hy
    rcases hy with rfl | rfl
    · exact hl _ _ (by decide)
    · exact hl _ _ (by decide)

mutual
theorem frag2_toExpr (σ : Mapper) : ∀ v : Value, v.Canon → Frag2 σ v.toExpr
  | .prim p, _ => by simp only [Value.toExpr]; exact .lit p
  | .ext x, _ => frag2_ext σ x
  | .set vs, h => by
    simp only [Value.Canon] at h
    simp only [Value.toExpr]
    exact .set (frag2_toExprList σ vs h.2)
  | .record kvs, h => by
    simp only [Value.Canon] at h
    simp only [Value.toExpr]
    exact .record (by rw [toExprKVs_keys]; exact nodup_of_sorted _ h.1) (frag2_toExprKVs σ kvs h.2)
theorem frag2_toExprList (σ : Mapper) : ∀ vs : List Value, Value.CanonList vs → ∀ x, x ∈ Value.toExprList vs → Frag2 σ x
  | [], _ => by intro x hx; simp [Value.toExprList] at hx
  | v :: vs, h => by
    simp only [Value.CanonList] at h
    intro x hx
    simp only [Value.toExprList, List.mem_cons] at hx
    rcases hx with hx | hx
    · rw [hx]; exact frag2_toExpr σ v h.1
    · exact frag2_toExprList σ vs h.2 x hx
theorem frag2_toExprKVs (σ : Mapper) : ∀ kvs : List (String × Value), Value.CanonKVs kvs →
    ∀ kv, kv ∈ Value.toExprKVs kvs → Frag2 σ kv.2
  | [], _ => by intro x hx; simp [Value.toExprKVs] at hx
  | (k, v) :: kvs, h => by
    simp only [Value.CanonKVs] at h
    intro x hx
    simp only [Value.toExprKVs, List.mem_cons] at hx
    rcases hx with hx | hx
    · rw [hx]; exact frag2_toExpr σ v h.1
    · exact frag2_toExprKVs σ kvs h.2 x hx
end

/-! ### projectable expressions of the fragment never fail -/

section
variable {σ : Mapper} (req : Request) (es : Entities) (env : SlotEnv)

mutual
theorem proj_ok : ∀ x : Expr, Frag2 σ x → x.isProjectable = true → ∃ v, Y σ req es env x = .ok v
  | .lit p, _, _ => ⟨_, Y_lit σ req es env p⟩
  | .unknown n ty, hf, _ => by
    cases hf with
    | unknown _ _ h =>
      obtain ⟨v, hl, hc, _⟩ := h
      exact ⟨v, Y_unknown σ req es env hl hc⟩
  | .var v, _, _ => by cases v <;> exact ⟨_, rfl⟩
  | .set xs, hf, hp => by
    cases hf with
    | set h =>
      obtain ⟨vs, hvs⟩ := proj_okList xs h (by simpa [Expr.isProjectable] using hp)
      exact ⟨.set (Value.mkSet vs), by simp [Y, Expr.substUnk, evaluate, hvs]⟩
  | .record kvs, hf, hp => by
    cases hf with
    | record _ h =>
      obtain ⟨vs, hvs⟩ := proj_okKVs kvs h (by simpa [Expr.isProjectable] using hp)
      exact ⟨.record (vs.foldl (fun acc kv => insertKV kv.1 kv.2 acc) []), by simp [Y, Expr.substUnk, evaluate, hvs]⟩
  | .slot _, _, hp => by simp [Expr.isProjectable] at hp
  | .ite _ _ _, _, hp => by simp [Expr.isProjectable] at hp
  | .and _ _, _, hp => by simp [Expr.isProjectable] at hp
  | .or _ _, _, hp => by simp [Expr.isProjectable] at hp
  | .unaryApp _ _, _, hp => by simp [Expr.isProjectable] at hp
  | .binaryApp _ _ _, _, hp => by simp [Expr.isProjectable] at hp
  | .call _ _, _, hp => by simp [Expr.isProjectable] at hp
  | .getAttr _ _, _, hp => by simp [Expr.isProjectable] at hp
  | .hasAttr _ _, _, hp => by simp [Expr.isProjectable] at hp
  | .like _ _, _, hp => by simp [Expr.isProjectable] at hp
  | .is _ _, _, hp => by simp [Expr.isProjectable] at hp
theorem proj_okList : ∀ xs : List Expr, (∀ x, x ∈ xs → Frag2 σ x) → Expr.isProjectableList xs = true →
    ∃ vs, evaluateList req es env (Expr.substUnkList σ xs) = .ok vs
  | [], _, _ => ⟨[], rfl⟩
  | x :: xs, hf, hp => by
    simp only [Expr.isProjectableList, Bool.and_eq_true] at hp
    obtain ⟨v, hv⟩ := proj_ok x (hf x (List.mem_cons_self ..)) hp.1
    obtain ⟨vs, hvs⟩ := proj_okList xs (fun y hy => hf y (List.mem_cons_of_mem _ hy)) hp.2
    simp only [Y] at hv
    exact ⟨v :: vs, by simp [Expr.substUnkList, evaluateList, hv, hvs]⟩
theorem proj_okKVs : ∀ kvs : List (String × Expr), (∀ kv, kv ∈ kvs → Frag2 σ kv.2) → Expr.isProjectableKVs kvs = true →
    ∃ vs, evaluateKVs req es env (Expr.substUnkKVs σ kvs) = .ok vs
  | [], _, _ => ⟨[], rfl⟩
  | (k, x) :: kvs, hf, hp => by
    simp only [Expr.isProjectableKVs, Bool.and_eq_true] at hp
    obtain ⟨v, hv⟩ := proj_ok x (hf (k, x) (List.mem_cons_self ..)) hp.1
    obtain ⟨vs, hvs⟩ := proj_okKVs kvs (fun y hy => hf y (List.mem_cons_of_mem _ hy)) hp.2
    simp only [Y] at hv
    exact ⟨(k, v) :: vs, by simp [Expr.substUnkKVs, evaluateKVs, hv, hvs]⟩
end

end

end PS
end Cedar
