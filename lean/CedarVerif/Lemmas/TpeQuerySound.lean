import CedarVerif.Lemmas.TpeDecision
import CedarVerif.Lemmas.TpeQuery
/- C14 helpers: the partial inputs of the permission queries (`PartialEntities::from_concrete`, one unknown id) are
   completed by every candidate request over the same store. -/
namespace Cedar.Tpe
open Cedar

theorem ofConcrete_find? (es : Entities) (u : EntityUID) :
    (PEntities.ofConcrete es).find? u =
      (es.find? u).map (fun d => { attrs := some d.attrs, ancestors := some d.ancestors, tags := some d.tags }) := by
  induction es with
  | nil => rfl
  | cons x es ih =>
    obtain ⟨k, d⟩ := x
    simp only [PEntities.ofConcrete, List.map_cons, PEntities.find?, Entities.find?]
    split
    · rfl
    · exact ih

/-- a fully known partial store is completed by the store it was built from, for any request that fits the partial one -/
theorem completes_ofConcrete (preq : PRequest) (req : Request) (es : Entities)
    (hp : ∀ u, preq.principal.uid? = some u → req.principal = u) (hr : ∀ u, preq.resource.uid? = some u → req.resource = u)
    (hpt : req.principal.ty = preq.principal.ty) (hrt : req.resource.ty = preq.resource.ty) (ha : req.action = preq.action)
    (hc : ∀ c, preq.context = some c → req.context = c) : Completes preq (PEntities.ofConcrete es) req es where
  principal := hp
  resource := hr
  ptype := hpt
  rtype := hrt
  action := ha
  context := hc
  attrs := by
    intro u a h
    unfold PEntities.attrs? at h
    rw [ofConcrete_find?] at h
    cases hf : es.find? u with
    | none => simp [hf] at h
    | some d => simp only [hf, Option.map_some, Option.bind_some, Option.some.injEq] at h; exact ⟨d, rfl, h⟩
  ancestors := by
    intro u a h
    unfold PEntities.ancestors? at h
    rw [ofConcrete_find?] at h
    cases hf : es.find? u with
    | none => simp [hf] at h
    | some d =>
      simp only [hf, Option.map_some, Option.bind_some, Option.some.injEq] at h
      exact ⟨d, rfl, fun x => by rw [h]⟩
  tags := by
    intro u a h
    unfold PEntities.tags? at h
    rw [ofConcrete_find?] at h
    cases hf : es.find? u with
    | none => simp [hf] at h
    | some d => simp only [hf, Option.map_some, Option.bind_some, Option.some.injEq] at h; exact ⟨d, rfl, h⟩

theorem candidates_ty {es : Entities} {ty : EntityType} {u : EntityUID} (h : u ∈ candidates es ty) : u.ty = ty := by
  obtain ⟨_, _, ht⟩ := mem_candidates.mp h
  exact ht

end Cedar.Tpe
