import CedarVerif.Lemmas.JsonBasic
/-
C10, schema-directed parsing: the vocabulary of `typed_agrees_explicit` — value-level conformance `instOf`, the
documents `Form τ v j` for a value (implicit / explicit choice per node), and what a Rust `SchemaType` with closed
record types guarantees (`ClosedType`: `open_attrs = false`, attributes a key-sorted `BTreeMap`).
(Definitions live here so that the lemma files can talk about them; the property theorems are in `Thm/C10.lean`.)
-/
namespace Cedar.C10
open Cedar Cedar.CJson

mutual
/-- `v` is an instance of `τ` (value-level conformance; the checker itself is C11's subject) -/
def instOf : Value → SchemaType → Bool
  | .prim (.bool _), .bool => true
  | .prim (.int _), .long => true
  | .prim (.string _), .string => true
  | .prim (.entityUID u), .entity ty => u.ty == ty
  | .ext (.decimal _), .ext n => n == "decimal"
  | .ext (.ipaddr ..), .ext n => n == "ipaddr"
  | .ext (.datetime _), .ext n => n == "datetime"
  | .ext (.duration _), .ext n => n == "duration"
  | .set [], .emptySet => true
  | .set vs, .set τ => instOfList vs τ
  | .record kvs, .record attrs openAttrs =>
    instOfKVs kvs attrs openAttrs && attrs.all (fun a => !a.2.1 || (lookupKV kvs a.1).isSome)
  | _, _ => false
def instOfList : List Value → SchemaType → Bool
  | [], _ => true
  | v :: vs, τ => instOf v τ && instOfList vs τ
def instOfKVs : List (String × Value) → List (String × Bool × SchemaType) → Bool → Bool
  | [], _, _ => true
  | (k, v) :: kvs, attrs, openAttrs =>
    (match lookupKV attrs k with
     | some (_, τ) => instOf v τ
     | none => openAttrs) && instOfKVs kvs attrs openAttrs
end

mutual
/-- `Form τ v j`: `j` is one of the documents for `v` under expected type `τ`, each entity reference / extension
    value written either with its explicit escape or in an implicit form the schema allows -/
inductive Form : Option SchemaType → Value → Json → Prop
  | lit (τ) (p : Prim) : (∀ u, p ≠ .entityUID u) → Form τ (.prim p) (CJ.ofPrim p).toJson
  | entExplicit (τ) (u : EntityUID) : Form τ (.prim (.entityUID u)) (CJ.ofPrim (.entityUID u)).toJson
  | entImplicit (ty) (u : EntityUID) : Form (some (.entity ty)) (.prim (.entityUID u)) (uidJson u)
  | extExplicit (τ) (x : Ext) (j : Json) : toJson (.ext x) = .ok j → Form τ (.ext x) j
  | extImplicit (n) (x : Ext) (payload : Json) :
      toJson (.ext x) = .ok (.obj [("__extn", payload)]) → Form (some (.ext n)) (.ext x) payload
  | extBare (n) (x : Ext) (f s : String) :
      toJson (.ext x) = .ok (.obj [("__extn", .obj [("fn", .str f), ("arg", .str s)])]) → singleArgCtor n = some f →
      Form (some (.ext n)) (.ext x) (.str s)
  | set (τ : Option SchemaType) (vs : List Value) (js : List Json) :
      FormList (match τ with | some (.set e) => some e | _ => none) vs js → Form τ (.set vs) (.arr js)
  | record (τ : Option SchemaType) (kvs : List (String × Value)) (js : List (String × Json)) :
      FormKVs (match τ with | some (.record attrs _) => attrs | _ => []) kvs js → Form τ (.record kvs) (.obj js)
inductive FormList : Option SchemaType → List Value → List Json → Prop
  | nil (τ) : FormList τ [] []
  | cons (τ) (v : Value) (j : Json) (vs : List Value) (js : List Json) :
      Form τ v j → FormList τ vs js → FormList τ (v :: vs) (j :: js)
inductive FormKVs : List (String × Bool × SchemaType) → List (String × Value) → List (String × Json) → Prop
  | nil (attrs) : FormKVs attrs [] []
  | cons (attrs) (k : String) (v : Value) (j : Json) (kvs : List (String × Value)) (js : List (String × Json)) :
      Form ((lookupKV attrs k).map (·.2)) v j → FormKVs attrs kvs js → FormKVs attrs ((k, v) :: kvs) ((k, j) :: js)
end

mutual
/-- what a Rust `SchemaType` with closed record types guarantees, hereditarily: `open_attrs = false` and the
    attribute map is a `BTreeMap` (strictly key-sorted, so no attribute is declared twice) -/
def ClosedType : SchemaType → Prop
  | .set e => ClosedType e
  | .record attrs isOpen => isOpen = false ∧ Sorted (attrs.map Prod.fst) ∧ ClosedAttrs attrs
  | _ => True
def ClosedAttrs : List (String × Bool × SchemaType) → Prop
  | [] => True
  | (_, _, t) :: rest => ClosedType t ∧ ClosedAttrs rest
end

end Cedar.C10
