import CedarVerif.Lemmas.ManifestMono
import CedarVerif.Lemmas.ManifestTyped
/-
C17 helper lemmas: ADDING A POLICY GROWS THE MANIFEST.  `t₀ ≤ t ⇒ t₀ ≤ t ∪ v` (no well-formedness needed), `to_typed` maps
`≤` to the order with annotations `leA` (both tries are annotated from the same schema types along the same paths), and the
fold of `compute_entity_manifest` over `ps ++ [p]` is the fold over `ps` followed by one union.
-/
namespace Cedar.Manifest
open Cedar

/-! ## lookups after `replace` / append -/

theorem lookupField_replace (k : String) (t' : AccessTrie) (k' : String) : ∀ c : Fields,
    lookupField (replaceField k t' c) k' = if k == k' then (lookupField c k).map (fun _ => t') else lookupField c k'
  | [] => by simp [replaceField, lookupField]
  | (k0, t0) :: rest => by
    simp only [replaceField]
    by_cases e : k0 = k
    · subst e
      simp only [beq_self_eq_true, if_true, lookupField]
      by_cases e2 : (k0 == k') = true <;> simp [e2]
    · have e' : (k0 == k) = false := by simpa using e
      simp only [e', Bool.false_eq_true, if_false, lookupField, lookupField_replace k t' k' rest]
      by_cases e2 : k0 = k'
      · subst e2
        have : (k == k0) = false := by simpa using (fun h : k = k0 => e h.symm)
        simp [this]
      · have e2' : (k0 == k') = false := by simpa using e2
        simp [e2']

theorem lookupRoot_replace (k : EntityRoot) (t' : AccessTrie) (k' : EntityRoot) : ∀ c : RootAccessTrie,
    lookupRoot (replaceRoot k t' c) k' = if k == k' then (lookupRoot c k).map (fun _ => t') else lookupRoot c k'
  | [] => by simp [replaceRoot, lookupRoot]
  | (k0, t0) :: rest => by
    simp only [replaceRoot]
    by_cases e : k0 = k
    · subst e
      simp only [beq_self_eq_true, if_true, lookupRoot]
      by_cases e2 : (k0 == k') = true <;> simp [e2]
    · have e' : (k0 == k) = false := by simpa using e
      simp only [e', Bool.false_eq_true, if_false, lookupRoot, lookupRoot_replace k t' k' rest]
      by_cases e2 : k0 = k'
      · subst e2
        have : (k == k0) = false := by simpa using (fun h : k = k0 => e h.symm)
        simp [this]
      · have e2' : (k0 == k') = false := by simpa using e2
        simp [e2']

theorem lookupField_append_some (k' : String) (t : AccessTrie) (x : String × AccessTrie) : ∀ c : Fields,
    lookupField c k' = some t → lookupField (c ++ [x]) k' = some t
  | [], h => by simp [lookupField] at h
  | (k0, t0) :: rest, h => by
    simp only [lookupField, List.cons_append] at h ⊢
    by_cases e : (k0 == k') = true
    · simpa [e] using h
    · simp only [e, Bool.false_eq_true, if_false] at h ⊢
      exact lookupField_append_some k' t x rest h

theorem lookupRoot_append_some (k' : EntityRoot) (t : AccessTrie) (x : EntityRoot × AccessTrie) : ∀ c : RootAccessTrie,
    lookupRoot c k' = some t → lookupRoot (c ++ [x]) k' = some t
  | [], h => by simp [lookupRoot] at h
  | (k0, t0) :: rest, h => by
    simp only [lookupRoot, List.cons_append] at h ⊢
    by_cases e : (k0 == k') = true
    · simpa [e] using h
    · simp only [e, Bool.false_eq_true, if_false] at h ⊢
      exact lookupRoot_append_some k' t x rest h

/-! ## `t₀ ≤ t ⇒ t₀ ≤ t ∪ v` -/

theorem fieldsLe_replace (k : String) (t t' : AccessTrie) (c : Fields) (hmono : ∀ t0, AccessTrie.le t0 t → AccessTrie.le t0 t')
    (hl : lookupField c k = some t) : ∀ c0 : Fields, fieldsLe c0 c → fieldsLe c0 (replaceField k t' c)
  | [], _ => by simp [fieldsLe]
  | (k0, t0) :: rest, h => by
    simp only [fieldsLe] at h ⊢
    refine ⟨?_, fieldsLe_replace k t t' c hmono hl rest h.2⟩
    obtain ⟨t2, h1, h2⟩ := h.1
    by_cases e : k = k0
    · subst e
      rw [hl] at h1
      cases h1
      exact ⟨t', by rw [lookupField_replace]; simp [hl], hmono t0 h2⟩
    · have e' : (k == k0) = false := by simpa using e
      exact ⟨t2, by rw [lookupField_replace]; simp [e', h1], h2⟩

theorem rootsLe_replace (k : EntityRoot) (t t' : AccessTrie) (c : RootAccessTrie)
    (hmono : ∀ t0, AccessTrie.le t0 t → AccessTrie.le t0 t')
    (hl : lookupRoot c k = some t) : ∀ c0 : RootAccessTrie, rootsLe c0 c → rootsLe c0 (replaceRoot k t' c)
  | [], _ => by simp [rootsLe]
  | (k0, t0) :: rest, h => by
    simp only [rootsLe] at h ⊢
    refine ⟨?_, rootsLe_replace k t t' c hmono hl rest h.2⟩
    obtain ⟨t2, h1, h2⟩ := h.1
    by_cases e : k = k0
    · subst e
      rw [hl] at h1
      cases h1
      exact ⟨t', by rw [lookupRoot_replace]; simp [hl], hmono t0 h2⟩
    · have e' : (k == k0) = false := by simpa using e
      exact ⟨t2, by rw [lookupRoot_replace]; simp [e', h1], h2⟩

theorem fieldsLe_append (x : String × AccessTrie) (c : Fields) : ∀ c0 : Fields, fieldsLe c0 c → fieldsLe c0 (c ++ [x])
  | [], _ => by simp [fieldsLe]
  | (k0, t0) :: rest, h => by
    simp only [fieldsLe] at h ⊢
    obtain ⟨t2, h1, h2⟩ := h.1
    exact ⟨⟨t2, lookupField_append_some k0 t2 x c h1, h2⟩, fieldsLe_append x c rest h.2⟩

theorem rootsLe_append (x : EntityRoot × AccessTrie) (c : RootAccessTrie) : ∀ c0 : RootAccessTrie,
    rootsLe c0 c → rootsLe c0 (c ++ [x])
  | [], _ => by simp [rootsLe]
  | (k0, t0) :: rest, h => by
    simp only [rootsLe] at h ⊢
    obtain ⟨t2, h1, h2⟩ := h.1
    exact ⟨⟨t2, lookupRoot_append_some k0 t2 x c h1, h2⟩, rootsLe_append x c rest h.2⟩

mutual
theorem le_union_right : ∀ (v t t0 : AccessTrie), AccessTrie.le t0 t → AccessTrie.le t0 (t.union v)
  | .mk c2 a2 i2 e2, .mk c a i e, .mk c0 a0 i0 e0, h => by
    simp only [AccessTrie.le, AccessTrie.children, AccessTrie.ancestors, AccessTrie.isAncestor] at h
    simp only [AccessTrie.union, AccessTrie.le, AccessTrie.children, AccessTrie.ancestors, AccessTrie.isAncestor]
    exact ⟨fieldsLe_union_right c2 c c0 h.1, rootsLe_union_right a2 a a0 h.2.1, fun hi => by simp [h.2.2 hi]⟩
theorem fieldsLe_union_right : ∀ (c2 c c0 : Fields), fieldsLe c0 c → fieldsLe c0 (unionFields c c2)
  | [], c, c0, h => by simpa [unionFields] using h
  | (k, v) :: rest, c, c0, h => by
    unfold unionFields
    cases hl : lookupField c k with
    | some t =>
      simp only
      exact fieldsLe_union_right rest _ c0 (fieldsLe_replace k t (t.union v) c (fun t0 => le_union_right v t t0) hl c0 h)
    | none =>
      simp only
      exact fieldsLe_union_right rest _ c0 (fieldsLe_append (k, v) c c0 h)
theorem rootsLe_union_right : ∀ (c2 c c0 : RootAccessTrie), rootsLe c0 c → rootsLe c0 (unionRoots c c2)
  | [], c, c0, h => by simpa [unionRoots] using h
  | (k, v) :: rest, c, c0, h => by
    unfold unionRoots
    cases hl : lookupRoot c k with
    | some t =>
      simp only
      exact rootsLe_union_right rest _ c0 (rootsLe_replace k t (t.union v) c (fun t0 => le_union_right v t t0) hl c0 h)
    | none =>
      simp only
      exact rootsLe_union_right rest _ c0 (rootsLe_append (k, v) c c0 h)
end

/-! ## the fold of `compute_entity_manifest` -/

theorem go_snoc (p : TExpr) : ∀ (xs : List TExpr) (acc : RootAccessTrie),
    manifestOfEnvs.go acc (xs ++ [p]) =
      match manifestOfEnvs.go acc xs with
      | .error x => .error x
      | .ok a => match manifestOfExpr p with
        | .error x => .error x
        | .ok r => .ok (unionRoots a r.global)
  | [], acc => by
    simp only [List.nil_append, manifestOfEnvs.go]
    cases manifestOfExpr p <;> rfl
  | x :: xs, acc => by
    simp only [List.cons_append, manifestOfEnvs.go]
    cases manifestOfExpr x with
    | error e => rfl
    | ok r => exact go_snoc p xs _

/-! ## `to_typed` maps `≤` to the order with annotations -/

theorem rootsLe_of_rootsLeA : ∀ (c1 c2 : RootAccessTrie), rootsLeA c1 c2 → rootsLe c1 c2
  | [], _, _ => by simp [rootsLe]
  | (k, t) :: rest, c2, h => by
    simp only [rootsLeA] at h
    simp only [rootsLe]
    obtain ⟨t2, h1, h2⟩ := h.1
    exact ⟨⟨t2, h1, le_of_leA t t2 h2⟩, rootsLe_of_rootsLeA rest c2 h.2⟩

theorem lookupField_toTypedFields_some (s : Schema) (rt : ReqType) (attrs : Attrs) (k : String) (t : AccessTrie)
    (q : Bool) (fty : CedarType) (hf : Attrs.find? attrs k = some (q, fty)) : ∀ (c C : Fields),
    toTypedFields s rt attrs c = .ok C → lookupField c k = some t →
    ∃ T, AccessTrie.toTyped s rt t fty = .ok T ∧ lookupField C k = some T
  | [], _, _, hl => by simp [lookupField] at hl
  | (f, t0) :: rest, C, h, hl => by
    simp only [lookupField] at hl
    unfold toTypedFields at h
    by_cases e : (f == k) = true
    · have e' : f = k := by simpa using e
      subst e'
      simp only [beq_self_eq_true, if_true, Option.some.injEq] at hl
      subst hl
      simp only [hf] at h
      cases h1 : AccessTrie.toTyped s rt t0 fty with
      | error x => simp [h1] at h
      | ok T =>
        simp only [h1] at h
        cases h2 : toTypedFields s rt attrs rest with
        | error x => simp [h2] at h
        | ok rest' =>
          simp only [h2, Except.ok.injEq] at h
          subst h
          exact ⟨T, rfl, by simp [lookupField]⟩
    · simp only [e, Bool.false_eq_true, if_false] at hl
      cases hfa : Attrs.find? attrs f with
      | none =>
        simp only [hfa] at h
        exact lookupField_toTypedFields_some s rt attrs k t q fty hf rest C h hl
      | some qf =>
        obtain ⟨q', fty'⟩ := qf
        simp only [hfa] at h
        cases h1 : AccessTrie.toTyped s rt t0 fty' with
        | error x => simp [h1] at h
        | ok T0 =>
          simp only [h1] at h
          cases h2 : toTypedFields s rt attrs rest with
          | error x => simp [h2] at h
          | ok rest' =>
            simp only [h2, Except.ok.injEq] at h
            subst h
            obtain ⟨T, h3, h4⟩ := lookupField_toTypedFields_some s rt attrs k t q fty hf rest rest' h2 hl
            exact ⟨T, h3, by simp only [lookupField, e, Bool.false_eq_true, if_false]; exact h4⟩

theorem lookupRoot_toTypedRoots_some (s : Schema) (rt : ReqType) (k : EntityRoot) (t : AccessTrie) : ∀ (a A : RootAccessTrie),
    toTypedRoots s rt a = .ok A → lookupRoot a k = some t →
    ∃ ty T, rootType s rt k = .ok ty ∧ AccessTrie.toTyped s rt t ty = .ok T ∧ lookupRoot A k = some T
  | [], _, _, hl => by simp [lookupRoot] at hl
  | (r, t0) :: rest, A, h, hl => by
    simp only [lookupRoot] at hl
    rw [toTypedRoots_cons] at h
    cases hty : rootType s rt r with
    | error x => simp [hty] at h
    | ok ty =>
      simp only [hty] at h
      cases h1 : AccessTrie.toTyped s rt t0 ty with
      | error x => simp [h1] at h
      | ok T0 =>
        simp only [h1] at h
        cases h2 : toTypedRoots s rt rest with
        | error x => simp [h2] at h
        | ok rest' =>
          simp only [h2, Except.ok.injEq] at h
          subst h
          by_cases e : (r == k) = true
          · have e' : r = k := by simpa using e
            subst e'
            simp only [beq_self_eq_true, if_true, Option.some.injEq] at hl
            subst hl
            exact ⟨ty, T0, hty, h1, by simp [lookupRoot]⟩
          · simp only [e, Bool.false_eq_true, if_false] at hl
            obtain ⟨ty', T, h3, h4, h5⟩ := lookupRoot_toTypedRoots_some s rt k t rest rest' h2 hl
            exact ⟨ty', T, h3, h4, by simp only [lookupRoot, e, Bool.false_eq_true, if_false]; exact h5⟩

mutual
theorem toTyped_mono (s : Schema) (rt : ReqType) : ∀ (t1 t2 : AccessTrie) (ty : CedarType) (T1 T2 : AccessTrie),
    AccessTrie.le t1 t2 → AccessTrie.toTyped s rt t1 ty = .ok T1 → AccessTrie.toTyped s rt t2 ty = .ok T2 →
    AccessTrie.leA T1 T2
  | .mk c1 a1 i1 e1, .mk c2 a2 i2 e2, ty, T1, T2, hle, h1, h2 => by
    simp only [AccessTrie.le, AccessTrie.children, AccessTrie.ancestors, AccessTrie.isAncestor] at hle
    unfold AccessTrie.toTyped at h1 h2
    cases hat : attrsOfType s ty with
    | error x => simp [hat] at h1
    | ok oa =>
      cases oa with
      | none =>
        simp only [hat] at h1 h2
        split at h1
        · cases h1
        · split at h2
          · cases h2
          · cases hA1 : toTypedRoots s rt a1 with
            | error x => simp [hA1] at h1
            | ok A1 =>
              cases hA2 : toTypedRoots s rt a2 with
              | error x => simp [hA2] at h2
              | ok A2 =>
                simp only [hA1, Except.ok.injEq] at h1
                simp only [hA2, Except.ok.injEq] at h2
                subst h1; subst h2
                simp only [AccessTrie.leA, AccessTrie.children, AccessTrie.ancestors, AccessTrie.isAncestor,
                  AccessTrie.isEntity, fieldsLeA, true_and]
                exact ⟨rootsLe_of_rootsLeA _ _ (toTypedRoots_mono s rt a1 a2 A1 A2 hle.2.1 hA1 hA2), hle.2.2, fun h => h⟩
      | some attrs =>
        simp only [hat] at h1 h2
        cases hC1 : toTypedFields s rt attrs c1 with
        | error x => simp [hC1] at h1
        | ok C1 =>
          cases hC2 : toTypedFields s rt attrs c2 with
          | error x => simp [hC2] at h2
          | ok C2 =>
            simp only [hC1] at h1
            simp only [hC2] at h2
            cases hA1 : toTypedRoots s rt a1 with
            | error x => simp [hA1] at h1
            | ok A1 =>
              cases hA2 : toTypedRoots s rt a2 with
              | error x => simp [hA2] at h2
              | ok A2 =>
                simp only [hA1, Except.ok.injEq] at h1
                simp only [hA2, Except.ok.injEq] at h2
                subst h1; subst h2
                simp only [AccessTrie.leA, AccessTrie.children, AccessTrie.ancestors, AccessTrie.isAncestor,
                  AccessTrie.isEntity]
                exact ⟨toTypedFields_mono s rt c1 c2 attrs C1 C2 hle.1 hC1 hC2,
                  rootsLe_of_rootsLeA _ _ (toTypedRoots_mono s rt a1 a2 A1 A2 hle.2.1 hA1 hA2), hle.2.2, fun h => h⟩
theorem toTypedFields_mono (s : Schema) (rt : ReqType) : ∀ (c1 c2 : Fields) (attrs : Attrs) (C1 C2 : Fields),
    fieldsLe c1 c2 → toTypedFields s rt attrs c1 = .ok C1 → toTypedFields s rt attrs c2 = .ok C2 → fieldsLeA C1 C2
  | [], _, _, C1, _, _, h1, _ => by
    simp only [toTypedFields, Except.ok.injEq] at h1
    subst h1
    simp [fieldsLeA]
  | (f, t) :: rest, c2, attrs, C1, C2, hle, h1, h2 => by
    simp only [fieldsLe] at hle
    unfold toTypedFields at h1
    cases hfa : Attrs.find? attrs f with
    | none =>
      simp only [hfa] at h1
      exact toTypedFields_mono s rt rest c2 attrs C1 C2 hle.2 h1 h2
    | some qf =>
      obtain ⟨q, fty⟩ := qf
      simp only [hfa] at h1
      cases ht : AccessTrie.toTyped s rt t fty with
      | error x => simp [ht] at h1
      | ok T =>
        simp only [ht] at h1
        cases hr : toTypedFields s rt attrs rest with
        | error x => simp [hr] at h1
        | ok rest' =>
          simp only [hr, Except.ok.injEq] at h1
          subst h1
          obtain ⟨t2, hl2, hle2⟩ := hle.1
          obtain ⟨T2, hT2, hL2⟩ := lookupField_toTypedFields_some s rt attrs f t2 q fty hfa c2 C2 h2 hl2
          simp only [fieldsLeA]
          exact ⟨⟨T2, hL2, toTyped_mono s rt t t2 fty T T2 hle2 ht hT2⟩,
            toTypedFields_mono s rt rest c2 attrs rest' C2 hle.2 hr h2⟩
theorem toTypedRoots_mono (s : Schema) (rt : ReqType) : ∀ (a1 a2 A1 A2 : RootAccessTrie),
    rootsLe a1 a2 → toTypedRoots s rt a1 = .ok A1 → toTypedRoots s rt a2 = .ok A2 → rootsLeA A1 A2
  | [], _, A1, _, _, h1, _ => by
    simp only [toTypedRoots, Except.ok.injEq] at h1
    subst h1
    simp [rootsLeA]
  | (r, t) :: rest, a2, A1, A2, hle, h1, h2 => by
    simp only [rootsLe] at hle
    rw [toTypedRoots_cons] at h1
    cases hty : rootType s rt r with
    | error x => simp [hty] at h1
    | ok ty =>
      simp only [hty] at h1
      cases ht : AccessTrie.toTyped s rt t ty with
      | error x => simp [ht] at h1
      | ok T =>
        simp only [ht] at h1
        cases hr : toTypedRoots s rt rest with
        | error x => simp [hr] at h1
        | ok rest' =>
          simp only [hr, Except.ok.injEq] at h1
          subst h1
          obtain ⟨t2, hl2, hle2⟩ := hle.1
          obtain ⟨ty', T2, hty', hT2, hL2⟩ := lookupRoot_toTypedRoots_some s rt r t2 a2 A2 h2 hl2
          rw [hty] at hty'
          cases hty'
          simp only [rootsLeA]
          exact ⟨⟨T2, hL2, toTyped_mono s rt t t2 ty T T2 hle2 ht hT2⟩,
            toTypedRoots_mono s rt rest a2 rest' A2 hle.2 hr h2⟩
end

end Cedar.Manifest
