import CedarVerif.Lemmas.PolicySetApi
/-
C08 helper lemmas, part 8: the public API layer's own maps are exact projections of the core set:
`policies` = `links`, `templates` = the core templates that are not policy ids. Preserved by every API operation.
-/
namespace Cedar
open LHM

/-- the API layer's maps are the projections of the core set -/
structure ApiPolicySet.Proj (s : ApiPolicySet) : Prop where
  pol : ∀ k, s.policies.get? k = s.ast.links.get? k
  tmpl : ∀ k t, s.templates.get? k = some t ↔ (s.ast.templates.get? k = some t ∧ s.ast.links.get? k = none)

theorem ApiPolicySet.proj_empty : ApiPolicySet.Proj {} := by
  constructor <;> intros <;> simp

/-- frame: a core set with the same maps, API maps with the same lookups -/
theorem ApiPolicySet.Proj.frame {s : ApiPolicySet} (pr : s.Proj) (ast' : PolicySet) (hs : ast'.sameMaps s.ast)
    (pol : LHM TPolicy) (hpol : ∀ k, pol.get? k = s.policies.get? k)
    (tm : LHM Template) (htm : ∀ k, tm.get? k = s.templates.get? k) :
    ApiPolicySet.Proj { ast := ast', policies := pol, templates := tm } := by
  obtain ⟨h1, _, h3, _⟩ := hs
  constructor
  · intro k
    show pol.get? k = ast'.links.get? k
    rw [hpol, h3, pr.pol]
  · intro k t
    show tm.get? k = some t ↔ (ast'.templates.get? k = some t ∧ ast'.links.get? k = none)
    rw [htm, h3, h1, pr.tmpl]

theorem PolicySet.unlink_err_cases (ps : PolicySet) (id : String) (e : PSError) (h : (ps.unlink id).err = some e) :
    e = .notLink ∨ (e = .unlinkMissing ∧ ps.links.get? id = none) ∨ ∃ m, e = .panic m := by
  unfold PolicySet.unlink at h
  by_cases h1 : ps.templates.contains id = true
  · simp only [h1, if_true, Option.some.injEq] at h; exact Or.inl h.symm
  · simp only [h1, Bool.false_eq_true, if_false] at h
    cases hp : ps.links.get? id with
    | none => simp only [hp, Option.some.injEq] at h; exact Or.inr (Or.inl ⟨h.symm, rfl⟩)
    | some p =>
      simp only [hp] at h
      by_cases hm : ps.t2l.contains p.template.id = true
      · simp [hm] at h
      · simp only [hm, Bool.false_eq_true, if_false, Option.some.injEq] at h
        exact Or.inr (Or.inr ⟨_, h.symm⟩)

theorem PolicySet.removeTemplate_err_cases (ps : PolicySet) (id : String) (e : PSError)
    (h : (ps.removeTemplate id).err = some e) :
    e = .rmtNotTemplate ∨ (e = .rmtNoTemplate ∧ ps.t2l.get? id = none) ∨ e = .rmtWithLinks ∨ ∃ m, e = .panic m := by
  unfold PolicySet.removeTemplate at h
  by_cases h1 : ps.links.contains id = true
  · simp only [h1, if_true, Option.some.injEq] at h; exact Or.inl h.symm
  · simp only [h1, Bool.false_eq_true, if_false] at h
    cases hs : ps.t2l.get? id with
    | none => simp only [hs, Option.some.injEq] at h; exact Or.inr (Or.inl ⟨h.symm, rfl⟩)
    | some s =>
      simp only [hs] at h
      by_cases hse : s.isEmpty = true
      · simp only [hse, Bool.not_true, Bool.false_eq_true, if_false] at h
        cases ht : ps.templates.get? id with
        | some t => simp [ht] at h
        | none =>
          simp only [ht, Option.some.injEq] at h
          exact Or.inr (Or.inr (Or.inr ⟨_, h.symm⟩))
      · simp only [hse, Bool.not_false, if_true, Option.some.injEq] at h
        exact Or.inr (Or.inr (Or.inl h.symm))

theorem ApiPolicySet.applyOp_proj (s : ApiPolicySet) (op : ApiOp) (wf : s.WF) (pr : s.Proj) :
    (s.applyOp op).ps.Proj := by
  cases op with
  | add b =>
    unfold ApiPolicySet.applyOp ApiPolicySet.add
    have hst : (linkStaticPolicy b).2.isStatic = true := rfl
    simp only [hst, if_true]
    rw [PolicySet.add_static_eq_addStatic s.ast b wf.nb]
    cases herr : (s.ast.addStatic b).err with
    | some e =>
      simp only
      exact pr.frame _ (core_fail_frame s.ast (.addStatic b) wf.ast e herr) _ (fun _ => rfl) _ (fun _ => rfl)
    | none =>
      simp only
      obtain ⟨ht, hl, heq⟩ := PolicySet.addStatic_ok s.ast b herr
      constructor
      · intro k
        show LHM.get? (s.policies.insert b.id (linkStaticPolicy b).2) k = LHM.get? (s.ast.addStatic b).ps.links k
        rw [heq]
        simp only [get?_insert, get?_snoc_absent _ _ _ hl, pr.pol]
        rfl
      · intro k t
        show s.templates.get? k = some t ↔
          (LHM.get? (s.ast.addStatic b).ps.templates k = some t ∧ LHM.get? (s.ast.addStatic b).ps.links k = none)
        rw [heq]
        simp only [get?_snoc_absent _ _ _ hl, get?_snoc_absent _ _ _ ht, pr.tmpl]
        by_cases hk : k = b.id
        · simp [hk, ht]
        · simp only [hk, if_false]
  | addTemplate t =>
    unfold ApiPolicySet.applyOp ApiPolicySet.addTemplate
    cases herr : (s.ast.addTemplate t).err with
    | some e =>
      simp only [herr]
      exact pr.frame _ (core_fail_frame s.ast (.addTemplate t) wf.ast e herr) _ (fun _ => rfl) _ (fun _ => rfl)
    | none =>
      simp only [herr]
      obtain ⟨ht, hl, heq⟩ := PolicySet.addTemplate_ok s.ast t herr
      constructor
      · intro k
        show s.policies.get? k = LHM.get? (s.ast.addTemplate t).ps.links k
        rw [heq]; exact pr.pol k
      · intro k t'
        show LHM.get? (s.templates.insert t.id t) k = some t' ↔
          (LHM.get? (s.ast.addTemplate t).ps.templates k = some t' ∧ LHM.get? (s.ast.addTemplate t).ps.links k = none)
        rw [heq]
        simp only [get?_insert, get?_snoc_absent _ _ _ ht]
        by_cases hk : k = t.id
        · simp [hk, hl]
        · simp only [hk, if_false]; exact pr.tmpl k t'
  | link tid newId vals =>
    unfold ApiPolicySet.applyOp ApiPolicySet.link
    cases hT : s.templates.get? tid with
    | none =>
      simp only [hT]
      by_cases hc : s.policies.contains tid = true
      · simp only [hc, if_true]; exact pr
      · simp only [hc, Bool.false_eq_true, if_false]; exact pr
    | some t0 =>
      simp only [hT]
      cases herr : (s.ast.link tid newId vals).err with
      | some e =>
        simp only [herr]
        exact pr.frame _ (core_fail_frame s.ast (.link tid newId vals) wf.ast e herr) _ (fun _ => rfl) _ (fun _ => rfl)
      | none =>
        simp only [herr]
        obtain ⟨t, ht, hb, hl, hnt, heq⟩ := PolicySet.link_ok s.ast tid newId vals herr
        have hg : (s.ast.link tid newId vals).ps.links.get? newId =
            some { template := t, link := some newId, values := vals } := by
          rw [heq]; simp [get?_snoc_absent _ _ _ hl]
        simp only [hg]
        constructor
        · intro k
          show LHM.get? (s.policies.insert newId _) k = LHM.get? (s.ast.link tid newId vals).ps.links k
          rw [heq]
          simp only [get?_insert, get?_snoc_absent _ _ _ hl, pr.pol]
        · intro k t'
          show s.templates.get? k = some t' ↔
            (LHM.get? (s.ast.link tid newId vals).ps.templates k = some t' ∧ LHM.get? (s.ast.link tid newId vals).ps.links k = none)
          rw [heq]
          simp only [get?_snoc_absent _ _ _ hl, pr.tmpl]
          by_cases hk : k = newId
          · simp [hk, hnt]
          · simp only [hk, if_false]
  | unlink id =>
    unfold ApiPolicySet.applyOp ApiPolicySet.unlink
    cases hP : s.policies.get? id with
    | none => simp only [hP]; exact pr
    | some p =>
      simp only [hP]
      have hL : s.ast.links.get? id = some p := by rw [← pr.pol]; exact hP
      cases herr : (s.ast.unlink id).err with
      | none =>
        simp only [herr]
        obtain ⟨hnt, ht, hl⟩ := PolicySet.unlink_ok s.ast id herr
        constructor
        · intro k
          show LHM.get? (s.policies.erase id) k = LHM.get? (s.ast.unlink id).ps.links k
          rw [hl, get?_erase, get?_erase, pr.pol]
        · intro k t'
          show s.templates.get? k = some t' ↔
            (LHM.get? (s.ast.unlink id).ps.templates k = some t' ∧ LHM.get? (s.ast.unlink id).ps.links k = none)
          rw [ht, hl, get?_erase, pr.tmpl]
          by_cases hk : k = id
          · simp [hk, hnt]
          · simp only [hk, if_false]
      | some e =>
        have hs := core_fail_frame s.ast (.unlink id) wf.ast e herr
        rcases PolicySet.unlink_err_cases s.ast id e herr with rfl | ⟨_, hn⟩ | ⟨m, rfl⟩
        · simp only [herr]
          exact pr.frame _ hs _ (get?_erase_insert_self _ _ _ hP) _ (fun _ => rfl)
        · rw [hn] at hL; cases hL
        · exact absurd herr (PolicySet.applyOp_no_panic s.ast (.unlink id) wf.ast m)
  | removeStatic id =>
    unfold ApiPolicySet.applyOp ApiPolicySet.removeStatic
    cases hP : s.policies.get? id with
    | none => simp only [hP]; exact pr
    | some p =>
      simp only [hP]
      have hL : s.ast.links.get? id = some p := by rw [← pr.pol]; exact hP
      cases herr : (s.ast.removeStatic id).err with
      | none =>
        simp only [herr]
        obtain ⟨ht, hl⟩ := PolicySet.removeStatic_ok s.ast id herr
        constructor
        · intro k
          show LHM.get? (s.policies.erase id) k = LHM.get? (s.ast.removeStatic id).ps.links k
          rw [hl, get?_erase, get?_erase, pr.pol]
        · intro k t'
          show s.templates.get? k = some t' ↔
            (LHM.get? (s.ast.removeStatic id).ps.templates k = some t' ∧ LHM.get? (s.ast.removeStatic id).ps.links k = none)
          rw [ht, hl, get?_erase, get?_erase, pr.tmpl]
          by_cases hk : k = id
          · simp [hk, hL]
          · simp only [hk, if_false]
      | some e =>
        simp only [herr]
        exact pr.frame _ (core_fail_frame s.ast (.removeStatic id) wf.ast e herr) _ (get?_erase_insert_self _ _ _ hP) _ (fun _ => rfl)
  | removeTemplate id =>
    unfold ApiPolicySet.applyOp ApiPolicySet.removeTemplate
    cases hT : s.templates.get? id with
    | none => simp only [hT]; exact pr
    | some t0 =>
      simp only [hT]
      obtain ⟨hAT, hAL⟩ := (pr.tmpl id t0).mp hT
      cases herr : (s.ast.removeTemplate id).err with
      | none =>
        simp only [herr]
        obtain ⟨ht, hl⟩ := PolicySet.removeTemplate_ok s.ast id herr
        constructor
        · intro k
          show s.policies.get? k = LHM.get? (s.ast.removeTemplate id).ps.links k
          rw [hl, pr.pol]
        · intro k t'
          show LHM.get? (s.templates.erase id) k = some t' ↔
            (LHM.get? (s.ast.removeTemplate id).ps.templates k = some t' ∧ LHM.get? (s.ast.removeTemplate id).ps.links k = none)
          rw [ht, hl, get?_erase, get?_erase]
          by_cases hk : k = id
          · simp [hk]
          · simp only [hk, if_false]; exact pr.tmpl k t'
      | some e =>
        have hs := core_fail_frame s.ast (.removeTemplate id) wf.ast e herr
        rcases PolicySet.removeTemplate_err_cases s.ast id e herr with rfl | ⟨_, hn⟩ | rfl | ⟨m, rfl⟩
        · simp only [herr]
          exact pr.frame _ hs _ (fun _ => rfl) _ (get?_erase_insert_self _ _ _ hT)
        · have := wf.ast.mKeys id
          rw [hn, hAT] at this; cases this
        · simp only [herr]
          exact pr.frame _ hs _ (fun _ => rfl) _ (get?_erase_insert_self _ _ _ hT)
        · exact absurd herr (PolicySet.applyOp_no_panic s.ast (.removeTemplate id) wf.ast m)

theorem ApiPolicySet.run_proj (ops : List ApiOp) : ∀ (s : ApiPolicySet), s.WF → s.Proj →
    (∀ op, op ∈ ops → op.wellTyped) → (s.run ops).WF ∧ (s.run ops).Proj := by
  induction ops with
  | nil => intro s wf pr _; exact ⟨wf, pr⟩
  | cons op ops ih =>
    intro s wf pr wt
    exact ih _ (ApiPolicySet.applyOp_wf s op wf (wt op (by simp))) (ApiPolicySet.applyOp_proj s op wf pr)
      (fun o ho => wt o (by simp [ho]))

end Cedar
