import CedarVerif.Lemmas.ExtDigits
/-
Datetime literals: the declarative forms `YYYY-MM-DD` and `YYYY-MM-DDThh:mm:ss(.SSS)?(Z|(+|-)hhmm)` and what the
recognisers of `Datetime.parse` return on them.
-/
namespace Cedar.Ext.Datetime

theorem takeDigits_append (n : Nat) (ds r : List Char) (hd : allDigits ds = true) (hn : ds.length = n) :
    takeDigits n (ds ++ r) = some (ds, r) := by
  induction ds generalizing n with
  | nil => subst hn; rfl
  | cons c cs ih =>
    subst hn
    simp only [allDigits_cons, Bool.and_eq_true] at hd
    simp only [List.length_cons, List.cons_append, takeDigits, hd.1, if_true, ih _ hd.2 rfl]

theorem expect_self (c : Char) (r : List Char) : expect c (c :: r) = some r := by simp [expect]

/-- UTC offset: `none` = `Z`, `some (positive, hh, mm)` = `(+|-)hhmm` -/
abbrev Off := Option (Bool × List Char × List Char)

def renderOffset : Off → List Char
  | none => ['Z']
  | some (pos, hh, mm) => (if pos then '+' else '-') :: (hh ++ mm)

def renderMs : Option (List Char) → List Char → List Char
  | none, r => r
  | some m3, r => '.' :: (m3 ++ r)

def renderDate (ys ms ds rest : List Char) : List Char := ys ++ '-' :: (ms ++ '-' :: (ds ++ rest))

def renderTime (hs mis ss : List Char) (m3 : Option (List Char)) (off : Off) : List Char :=
  'T' :: (hs ++ ':' :: (mis ++ ':' :: (ss ++ renderMs m3 (renderOffset off))))

def digitsN (n : Nat) (ds : List Char) : Prop := allDigits ds = true ∧ ds.length = n
instance (n : Nat) (ds : List Char) : Decidable (digitsN n ds) := by unfold digitsN; infer_instance

def offWF : Off → Prop
  | none => True
  | some (_, hh, mm) => digitsN 2 hh ∧ digitsN 2 mm
def msWF : Option (List Char) → Prop
  | none => True
  | some m3 => digitsN 3 m3

/-- offset in seconds -/
def offSecs : Off → Int
  | none => 0
  | some (pos, hh, mm) =>
    if pos then ((natOfDigits hh * 3600 + natOfDigits mm * 60 : Nat) : Int)
    else -((natOfDigits hh * 3600 + natOfDigits mm * 60 : Nat) : Int)
def offOk : Off → Bool
  | none => true
  | some (_, hh, mm) => decide (natOfDigits hh < 24) && decide (natOfDigits mm < 60)
def msVal : Option (List Char) → Nat
  | none => 0
  | some m3 => natOfDigits m3

theorem parseDate_render (ys ms ds rest : List Char) (h1 : digitsN 4 ys) (h2 : digitsN 2 ms) (h3 : digitsN 2 ds) :
    parseDate (renderDate ys ms ds rest) = some ((natOfDigits ys, natOfDigits ms, natOfDigits ds), rest) := by
  simp only [parseDate, renderDate, takeDigits_append 4 ys _ h1.1 h1.2, expect_self,
    takeDigits_append 2 ms _ h2.1 h2.2, takeDigits_append 2 ds _ h3.1 h3.2]

theorem parseHMS_render (hs mis ss rest : List Char) (h1 : digitsN 2 hs) (h2 : digitsN 2 mis) (h3 : digitsN 2 ss) :
    parseHMS ('T' :: (hs ++ ':' :: (mis ++ ':' :: (ss ++ rest)))) =
      some ((natOfDigits hs, natOfDigits mis, natOfDigits ss), rest) := by
  simp only [parseHMS, expect_self, takeDigits_append 2 hs _ h1.1 h1.2,
    takeDigits_append 2 mis _ h2.1 h2.2, takeDigits_append 2 ss _ h3.1 h3.2]

theorem parseOffset_render (off : Off) (hw : offWF off) :
    parseOffset (renderOffset off) = some (offSecs off, offOk off) := by
  match off, hw with
  | none, _ => rfl
  | some (pos, hh, mm), hw =>
    obtain ⟨h1, h2⟩ := hw
    have e := takeDigits_append 2 mm [] h2.1 h2.2
    rw [List.append_nil] at e
    cases pos <;>
      simp [renderOffset, parseOffset, takeDigits_append 2 hh _ h1.1 h1.2, e, offSecs, offOk]

theorem parseMsOffset_render (m3 : Option (List Char)) (off : Off) (hm : msWF m3) (hw : offWF off) :
    parseMsOffset (renderMs m3 (renderOffset off)) = some (msVal m3, offSecs off, offOk off) := by
  match m3, hm with
  | some ds, hm =>
    simp only [renderMs, parseMsOffset, takeDigits_append 3 ds _ hm.1 hm.2, parseOffset_render off hw, msVal]
  | none, _ =>
    have hp := parseOffset_render off hw
    match off, hw with
    | none, _ => rfl
    | some (pos, hh, mm), hw =>
      cases pos
      · simp only [renderMs, renderOffset] at hp ⊢
        simp only [Bool.false_eq_true, if_false] at hp ⊢
        unfold parseMsOffset
        simp only [hp, msVal]
        rfl
      · simp only [renderMs, renderOffset] at hp ⊢
        simp only [if_true] at hp ⊢
        unfold parseMsOffset
        simp only [hp, msVal]
        rfl

end Cedar.Ext.Datetime
