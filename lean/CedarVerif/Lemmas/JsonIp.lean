import CedarVerif.Lemmas.JsonExt
import CedarVerif.Lemmas.JsonIpV4
import CedarVerif.Lemmas.JsonIpV6
/-
C10: `ExtRoundTrip` (= `LeafOK canonRepr`) for ipaddr values whose canonical text parses back.
-/
namespace Cedar
namespace CJson
open Ext

/-- an ipaddr value whose canonical text `ip()` parses back to the same (family, address, prefix) round trips
    through JSON -/
theorem leaf_ip_of_parse (v6 : Bool) (a p : Nat)
    (h : IPAddr.parse (String.ofList (renderIp v6 a p)) = some (.ipaddr v6 a p)) :
    LeafOK canonRepr (.ipaddr v6 a p) := by
  refine ⟨.extnSingle "ip" (.str (String.ofList (renderIp v6 a p))), ?_, ?_⟩
  · simp [fromValueWith, canonRepr, litS, fromExprList, fromExpr, CJ.ofPrim, bind, Except.bind]
  · refine rt_single _ _ _ (by decide) (by decide) ?_
    simp [callExt, extFnArity, callExt1, Value.asString, h, optToExt, bind, Except.bind]

/-- `ExtRoundTrip` for every IPv4 value -/
theorem leaf_ip_v4 (a p : Nat) (ha : a < 2 ^ 32) (hp : p ≤ 32) : LeafOK canonRepr (.ipaddr false a p) :=
  leaf_ip_of_parse false a p (parse_renderIp_v4 a p ha hp)

/-- `ExtRoundTrip` for every IPv6 value that is not an IPv4-mapped address (`::ffff:a.b.c.d`) -/
theorem leaf_ip_v6 (a p : Nat) (ha : a < 2 ^ 128) (hp : p ≤ 128) (hm : isV4Mapped a = false) :
    LeafOK canonRepr (.ipaddr true a p) :=
  leaf_ip_of_parse true a p (parse_renderIp_v6 a p ha hp hm)

/-- conversely, if the canonical text does not parse back to the value, the leaf does not round trip -/
theorem not_leaf_ip_of_parse (v6 : Bool) (a p : Nat)
    (h : IPAddr.parse (String.ofList (renderIp v6 a p)) ≠ some (.ipaddr v6 a p)) :
    ¬ LeafOK canonRepr (.ipaddr v6 a p) := by
  rintro ⟨c, hc, _, _, _, e, he, v', hev, hb⟩
  have hc' : c = .extnSingle "ip" (.str (String.ofList (renderIp v6 a p))) := by
    simp [fromValueWith, canonRepr, litS, fromExprList, fromExpr, CJ.ofPrim, bind, Except.bind] at hc
    exact hc.symm
  subst hc'
  have hv : validName "ip" = true := by decide
  simp only [CJ.intoExpr, hv, if_true, bind, Except.bind, Except.ok.injEq] at he
  subst he
  cases hp : IPAddr.parse (String.ofList (renderIp v6 a p)) with
  | none =>
    simp [ev, evaluate, evaluateList, callExt, extFnArity, callExt1, Value.asString, hp, optToExt, bind, Except.bind] at hev
  | some x =>
    simp [ev, evaluate, evaluateList, callExt, extFnArity, callExt1, Value.asString, hp, optToExt, bind, Except.bind] at hev
    subst hev
    cases x <;> simp [Value.beq] at hb
    rename_i v6' a' p'
    exact h (by rw [hp]; simp [hb])

/-- IPv4-mapped IPv6 addresses do not round trip: `Display` prints `::ffff:a.b.c.d/p`, which `ip()` refuses -/
theorem not_leaf_ip_v6_mapped (a p : Nat) (hm : isV4Mapped a = true) : ¬ LeafOK canonRepr (.ipaddr true a p) :=
  not_leaf_ip_of_parse true a p (by rw [parse_renderIp_v6_mapped a p hm]; exact fun h => nomatch h)

end CJson
end Cedar

