import CedarVerif.Lemmas.ManifestMerge
/-
C17 helper lemmas, part 7: the loading loop of the slicer (`loadAll`, `insertOrMerge`, `addAncestors`): what the store it
builds contains, per entity request.
-/
namespace Cedar.Manifest
open Cedar

/-! ## lookups -/

theorem find?_insertOrMerge (u : EntityUID) (d : EntityData) : ∀ (m : Entities) (x : EntityUID),
    (insertOrMerge m u d).find? x =
      if u == x then some (match m.find? u with | some d0 => mergeEntities d0 d | none => d) else m.find? x
  | [], x => by
    simp only [insertOrMerge, Entities.find?]
  | (u0, d0) :: rest, x => by
    have ih := find?_insertOrMerge u d rest x
    simp only [insertOrMerge]
    by_cases e : u0 = u
    · subst e
      simp only [beq_self_eq_true, if_true, Entities.find?]
      by_cases h : (u0 == x) = true <;> simp [h]
    · have e' : (u0 == u) = false := by simpa using e
      simp only [e', Bool.false_eq_true, if_false, Entities.find?, ih]
      by_cases e2 : u0 = x
      · subst e2
        have : (u == u0) = false := by simpa using (fun h : u = u0 => e h.symm)
        simp [this]
      · have e2' : (u0 == x) = false := by simpa using e2
        simp only [e2', Bool.false_eq_true, if_false]

/-- the per-entity step of `addAncestors` -/
def ancStep (u : EntityUID) (new : List EntityUID) (d' : EntityData) : EntityData :=
  { d' with ancestors := d'.ancestors ++ new.filter (fun a => !d'.ancestors.contains a) }

theorem find?_map_ancStep (u : EntityUID) (new : List EntityUID) : ∀ (acc : Entities) (x : EntityUID),
    Entities.find? (acc.map (fun (p : EntityUID × EntityData) => if p.1 == u then (p.1, ancStep u new p.2) else (p.1, p.2))) x =
      (acc.find? x).map (fun d' => if x == u then ancStep u new d' else d')
  | [], x => by simp [Entities.find?]
  | (u0, d0) :: rest, x => by
    have ih := find?_map_ancStep u new rest x
    simp only [List.map_cons, Entities.find?]
    by_cases e : u0 = u
    · subst e
      simp only [beq_self_eq_true, if_true, Entities.find?]
      by_cases e2 : u0 = x
      · subst e2; simp
      · have e2' : (u0 == x) = false := by simpa using e2
        simp only [e2', Bool.false_eq_true, if_false]
        exact ih
    · have e' : (u0 == u) = false := by simpa using e
      simp only [e', Bool.false_eq_true, if_false, Entities.find?]
      by_cases e2 : u0 = x
      · subst e2; simp [e']
      · have e2' : (u0 == x) = false := by simpa using e2
        simp only [e2', Bool.false_eq_true, if_false]
        exact ih

/-! ## `loadAll` -/

/-- invariant of the loaded map: every entry is an entity of the store with trimmed attributes and no ancestors yet -/
def LoadedSub (es m : Entities) : Prop :=
  ∀ u d1, m.find? u = some d1 → ∃ d, es.find? u = some d ∧ TrimKVs d1.attrs d.attrs ∧ d1.ancestors = []

/-- the request `(u, tr)` has been served: the entry of `u` keeps at least the slice by `tr` -/
def Served (es m : Entities) (u : EntityUID) (tr : AccessTrie) : Prop :=
  ∀ d, es.find? u = some d → ∃ d1, m.find? u = some d1 ∧ Le (.record (sliceEntity tr d).attrs) (.record d1.attrs)

theorem sliceEntity_trim (tr : AccessTrie) (d : EntityData) : TrimKVs (sliceEntity tr d).attrs d.attrs := by
  simp only [sliceEntity]
  exact sliceFields_trim _ _

theorem loadedSub_step {es m : Entities} (h : LoadedSub es m) {u : EntityUID} {d : EntityData} (hd : es.find? u = some d)
    (tr : AccessTrie) : LoadedSub es (insertOrMerge m u (sliceEntity tr d)) := by
  intro x d1 hx
  rw [find?_insertOrMerge] at hx
  by_cases e : u = x
  · subst e
    simp only [beq_self_eq_true, if_true, Option.some.injEq] at hx
    cases hm : m.find? u with
    | none =>
      simp only [hm] at hx
      subst hx
      exact ⟨d, hd, sliceEntity_trim tr d, rfl⟩
    | some d0 =>
      simp only [hm] at hx
      subst hx
      obtain ⟨d', hd', h1, h2⟩ := h u d0 hm
      rw [hd] at hd'
      cases hd'
      refine ⟨d, hd, ?_, ?_⟩
      · simp only [mergeEntities]
        exact mergeKVs_below _ _ _ h1 (sliceEntity_trim tr d)
      · simp only [mergeEntities]; exact h2
  · have e' : (u == x) = false := by simpa using e
    simp only [e', Bool.false_eq_true, if_false] at hx
    exact h x d1 hx

theorem le_record_of_kvs {r1 r2 : List (String × Value)} (h : ∀ ra, TrimKVs ra r1 → TrimKVs ra r2) :
    Le (.record r1) (.record r2) := by
  intro b hb
  obtain ⟨rb, e, hb'⟩ := trim_record_inv hb
  subst e
  simp only [Trim]
  exact ⟨_, rfl, h rb hb'⟩

/-- one more load only adds to an entry -/
theorem step_mono {es m : Entities} (h : LoadedSub es m) {u : EntityUID} {d : EntityData} (hd : es.find? u = some d)
    (tr : AccessTrie) (x : EntityUID) (d1 : EntityData) (hx : m.find? x = some d1) :
    ∃ d2, (insertOrMerge m u (sliceEntity tr d)).find? x = some d2 ∧ Le (.record d1.attrs) (.record d2.attrs) := by
  rw [find?_insertOrMerge]
  by_cases e : u = x
  · subst e
    simp only [beq_self_eq_true, if_true, hx]
    refine ⟨_, rfl, ?_⟩
    simp only [mergeEntities]
    exact le_record_of_kvs (fun ra hra => mergeKVs_left _ _ ra hra)
  · have e' : (u == x) = false := by simpa using e
    simp only [e', Bool.false_eq_true, if_false]
    exact ⟨d1, hx, Le.refl _⟩

theorem step_served {es m : Entities} (h : LoadedSub es m) {u : EntityUID} {d : EntityData} (hd : es.find? u = some d)
    (tr : AccessTrie) : Served es (insertOrMerge m u (sliceEntity tr d)) u tr := by
  intro d' hd'
  rw [hd] at hd'
  cases hd'
  rw [find?_insertOrMerge]
  simp only [beq_self_eq_true, if_true]
  refine ⟨_, rfl, ?_⟩
  cases hm : m.find? u with
  | none => exact Le.refl _
  | some d0 =>
    simp only [mergeEntities]
    obtain ⟨d', hd', h1, _⟩ := h u d0 hm
    rw [hd] at hd'
    cases hd'
    apply le_record_of_kvs
    intro ra hra
    apply trimKVs_of_lookup
    intro k b hm'
    obtain ⟨x, hx1, hx2⟩ := trimKVs_mem _ _ hra k b hm'
    exact mergeKVs_right _ _ _ h1 (sliceEntity_trim tr d) k b x (lookupKV_mem _ _ _ hx1) hx2

theorem loadAll_sub (es : Entities) : ∀ (reqs : List (EntityUID × AccessTrie)) (m : Entities),
    LoadedSub es m → LoadedSub es (loadAll es reqs m)
  | [], m, h => by simpa [loadAll] using h
  | (u, t) :: rest, m, h => by
    simp only [loadAll]
    cases hd : es.find? u with
    | none => exact loadAll_sub es rest m h
    | some d => exact loadAll_sub es rest _ (loadedSub_step h hd t)

theorem loadAll_mono (es : Entities) : ∀ (reqs : List (EntityUID × AccessTrie)) (m : Entities), LoadedSub es m →
    ∀ x d1, m.find? x = some d1 → ∃ d2, (loadAll es reqs m).find? x = some d2 ∧ Le (.record d1.attrs) (.record d2.attrs)
  | [], m, _, x, d1, hx => ⟨d1, by simpa [loadAll] using hx, Le.refl _⟩
  | (u, t) :: rest, m, h, x, d1, hx => by
    simp only [loadAll]
    cases hd : es.find? u with
    | none => exact loadAll_mono es rest m h x d1 hx
    | some d =>
      simp only
      obtain ⟨d2, h1, h2⟩ := step_mono h hd t x d1 hx
      obtain ⟨d3, h3, h4⟩ := loadAll_mono es rest _ (loadedSub_step h hd t) x d2 h1
      exact ⟨d3, h3, Le.trans h2 h4⟩

theorem loadAll_served (es : Entities) : ∀ (reqs : List (EntityUID × AccessTrie)) (m : Entities), LoadedSub es m →
    ∀ u tr, (u, tr) ∈ reqs → Served es (loadAll es reqs m) u tr
  | [], _, _, _, _, hm => by simp at hm
  | (u0, t0) :: rest, m, h, u, tr, hm => by
    simp only [List.mem_cons, Prod.mk.injEq] at hm
    simp only [loadAll]
    cases hd : es.find? u0 with
    | none =>
      simp only
      rcases hm with ⟨e1, e2⟩ | hm
      · subst e1; subst e2
        intro d hd'
        rw [hd] at hd'
        cases hd'
      · exact loadAll_served es rest m h u tr hm
    | some d =>
      simp only
      rcases hm with ⟨e1, e2⟩ | hm
      · subst e1; subst e2
        intro d' hd'
        obtain ⟨d1, h1, h2⟩ := step_served h hd tr d' hd'
        obtain ⟨d2, h3, h4⟩ := loadAll_mono es rest _ (loadedSub_step h hd tr) u d1 h1
        exact ⟨d2, h3, Le.trans h2 h4⟩
      · exact loadAll_served es rest _ (loadedSub_step h hd t0) u tr hm

theorem loadedSub_nil (es : Entities) : LoadedSub es [] := by
  intro u d1 h
  simp [Entities.find?] at h

/-! ## `addAncestors` -/

theorem addAncestors_cons (es m : Entities) (req : Request) (u : EntityUID) (t : AccessTrie)
    (rest : List (EntityUID × AccessTrie)) (acc : Entities) :
    addAncestors es m req ((u, t) :: rest) acc =
      addAncestors es m req rest
        (acc.map (fun (p : EntityUID × EntityData) =>
          if p.1 == u then
            (p.1, ancStep u ((match es.find? u with
              | some d => (ancRequest m req t.ancestors).filter (fun a => d.ancestors.contains a)
              | none => [])) p.2)
          else (p.1, p.2))) := by
  rfl

/-- what `addAncestors` does to one entry: attributes and tags are untouched, ancestors only grow, only by ancestors the
entity has in the store, and by all requested ones -/
theorem addAncestors_find (es m : Entities) (req : Request) : ∀ (reqs : List (EntityUID × AccessTrie)) (acc : Entities)
    (x : EntityUID),
    match acc.find? x with
    | none => (addAncestors es m req reqs acc).find? x = none
    | some da => ∃ d', (addAncestors es m req reqs acc).find? x = some d' ∧ d'.attrs = da.attrs ∧
        (∀ a, a ∈ da.ancestors → a ∈ d'.ancestors) ∧
        (∀ a, a ∈ d'.ancestors → a ∈ da.ancestors ∨ ∃ d, es.find? x = some d ∧ a ∈ d.ancestors) ∧
        (∀ t, (x, t) ∈ reqs → ∀ d, es.find? x = some d → ∀ a, a ∈ ancRequest m req t.ancestors → a ∈ d.ancestors →
          a ∈ d'.ancestors)
  | [], acc, x => by
    cases h : acc.find? x with
    | none => simpa [addAncestors] using h
    | some da =>
      simp only [addAncestors]
      exact ⟨da, h, rfl, fun a ha => ha, fun a ha => Or.inl ha, by intro t ht; simp at ht⟩
  | (u, t) :: rest, acc, x => by
    rw [addAncestors_cons]
    generalize hnew : (match es.find? u with
              | some d => (ancRequest m req t.ancestors).filter (fun a => d.ancestors.contains a)
              | none => []) = new
    have ih := addAncestors_find es m req rest
      (acc.map (fun (p : EntityUID × EntityData) => if p.1 == u then (p.1, ancStep u new p.2) else (p.1, p.2))) x
    rw [find?_map_ancStep] at ih
    cases h : acc.find? x with
    | none =>
      simp only [h, Option.map_none] at ih ⊢
      exact ih
    | some da =>
      simp only [h, Option.map_some] at ih ⊢
      obtain ⟨d', h1, h2, h3, h4, h5⟩ := ih
      refine ⟨d', h1, ?_, ?_, ?_, ?_⟩
      · rw [h2]; split <;> simp [ancStep]
      · intro a ha
        apply h3
        split
        · simp only [ancStep, List.mem_append]; exact Or.inl ha
        · exact ha
      · intro a ha
        rcases h4 a ha with h4 | h4
        · by_cases e : x = u
          · subst e
            simp only [beq_self_eq_true, if_true, ancStep, List.mem_append, List.mem_filter] at h4
            rcases h4 with h4 | ⟨h4, _⟩
            · exact Or.inl h4
            · right
              cases hd : es.find? x with
              | none => simp [hd] at hnew; subst hnew; simp at h4
              | some d =>
                simp only [hd] at hnew
                subst hnew
                simp only [List.mem_filter, List.contains_eq_mem, decide_eq_true_eq] at h4
                exact ⟨d, rfl, h4.2⟩
          · have e' : (x == u) = false := by simpa using e
            simp only [e', Bool.false_eq_true, if_false] at h4
            exact Or.inl h4
        · exact Or.inr h4
      · intro t' ht' d hd a ha had
        simp only [List.mem_cons, Prod.mk.injEq] at ht'
        rcases ht' with ⟨e1, e2⟩ | ht'
        · subst e1; subst e2
          apply h3
          simp only [beq_self_eq_true, if_true, ancStep, List.mem_append, List.mem_filter]
          by_cases hin : a ∈ da.ancestors
          · exact Or.inl hin
          · right
            simp only [hd] at hnew
            subst hnew
            simp only [List.mem_filter, List.contains_eq_mem, decide_eq_true_eq]
            exact ⟨⟨ha, had⟩, by simpa using hin⟩
        · exact h5 t' ht' d hd a ha had

/-! ## `compute_ancestors_request` reads attributes only -/

mutual
theorem ancValue_congr (m m' : Entities) (h : ∀ x, (m.find? x).map (·.attrs) = (m'.find? x).map (·.attrs)) :
    ∀ (t : AccessTrie) (v : Value), ancValue m t v = ancValue m' t v
  | .mk c a i e, v => by
    cases v with
    | prim p =>
      cases p with
      | entityUID u =>
        simp only [ancValue]
        have hu := h u
        cases h1 : m.find? u with
        | none =>
          cases h2 : m'.find? u with
          | none => rfl
          | some d' => simp [h1, h2] at hu
        | some d =>
          cases h2 : m'.find? u with
          | none => simp [h1, h2] at hu
          | some d' =>
            simp only [h1, h2, Option.map_some, Option.some.injEq] at hu
            simp only [hu, ancFields_congr m m' h c d'.attrs]
      | bool b => simp [ancValue]
      | int n => simp [ancValue]
      | string s => simp [ancValue]
    | set vs => simp [ancValue]
    | record kvs => simp only [ancValue]; exact ancFields_congr m m' h c kvs
    | ext x => simp [ancValue]
theorem ancFields_congr (m m' : Entities) (h : ∀ x, (m.find? x).map (·.attrs) = (m'.find? x).map (·.attrs)) :
    ∀ (c : Fields) (kvs : List (String × Value)), ancFields m c kvs = ancFields m' c kvs
  | [], _ => by simp [ancFields]
  | (f, t) :: rest, kvs => by
    simp only [ancFields, ancFields_congr m m' h rest kvs]
    cases lookupKV kvs f with
    | none => rfl
    | some v => simp only [ancValue_congr m m' h t v]
end

theorem ancRequest_congr (m m' : Entities) (req : Request)
    (h : ∀ x, (m.find? x).map (·.attrs) = (m'.find? x).map (·.attrs)) :
    ∀ (a : RootAccessTrie), ancRequest m req a = ancRequest m' req a
  | [] => rfl
  | (root, t) :: rest => by
    simp only [ancRequest, ancRequest_congr m m' req h rest]
    cases rootUid req root with
    | none => simp only [ancFields_congr m m' h]
    | some u => simp only [ancValue_congr m m' h]

/-! ## the sliced store, per request -/

/-- what the slicer's result holds for every entity request it processed -/
theorem sliceStorePure_served (t : RootAccessTrie) (req : Request) (es : Entities) (u : EntityUID) (tr : AccessTrie)
    (hm : (u, tr) ∈ allRequests es req t) (d : EntityData) (hd : es.find? u = some d) :
    ∃ d', (sliceStorePure t req es).find? u = some d' ∧
      Le (.record (sliceEntity tr d).attrs) (.record d'.attrs) ∧
      (∀ x, x ∈ ancRequest (sliceStorePure t req es) req tr.ancestors → x ∈ d.ancestors → x ∈ d'.ancestors) := by
  have hsub := loadAll_sub es (allRequests es req t) [] (loadedSub_nil es)
  obtain ⟨d1, h1, h2⟩ := loadAll_served es (allRequests es req t) [] (loadedSub_nil es) u tr hm d hd
  have hall := addAncestors_find es (loadAll es (allRequests es req t) []) req (allRequests es req t)
    (loadAll es (allRequests es req t) [])
  have hu := hall u
  simp only [h1] at hu
  obtain ⟨d', h3, h4, _, _, h7⟩ := hu
  refine ⟨d', h3, by rw [h4]; exact h2, ?_⟩
  intro x hx hxa
  apply h7 tr hm d hd x _ hxa
  rw [ancRequest_congr (loadAll es (allRequests es req t) []) (sliceStorePure t req es) req]
  · exact hx
  · intro y
    have hy := hall y
    simp only [sliceStorePure]
    cases hf : (loadAll es (allRequests es req t) []).find? y with
    | none => simp only [hf] at hy; simp [hy]
    | some dy =>
      simp only [hf] at hy
      obtain ⟨dy', e1, e2, _⟩ := hy
      simp [e1, e2]

/-- nothing is invented -/
theorem sliceStorePure_sub (t : RootAccessTrie) (req : Request) (es : Entities) : SubStore es (sliceStorePure t req es) := by
  intro u d' hf
  have hsub := loadAll_sub es (allRequests es req t) [] (loadedSub_nil es)
  have hu := addAncestors_find es (loadAll es (allRequests es req t) []) req (allRequests es req t)
    (loadAll es (allRequests es req t) []) u
  simp only [sliceStorePure] at hf
  cases hl : (loadAll es (allRequests es req t) []).find? u with
  | none => simp only [hl] at hu; rw [hu] at hf; cases hf
  | some d1 =>
    simp only [hl] at hu
    obtain ⟨d2, h1, h2, _, h4, _⟩ := hu
    rw [h1] at hf
    cases hf
    obtain ⟨d, hd, ht, hanc⟩ := hsub u d1 hl
    refine ⟨d, hd, by rw [h2]; exact ht, ?_⟩
    intro a ha
    rcases h4 a ha with h | ⟨d0, hd0, h⟩
    · rw [hanc] at h; cases h
    · rw [hd] at hd0; cases hd0; exact h

end Cedar.Manifest
