import CedarVerif.Lemmas.EstTreesPolicyDefs
import CedarVerif.Lemmas.EstTrees
import CedarVerif.Lemmas.EstPolicy
/-
Helper lemmas for C06, policy level: round trips through the PST and protobuf tree models of
Lemmas/EstTreesPolicyDefs.lean (templates, static / linked policies, link records).
-/
namespace Cedar.Pst
open Cedar Cedar.Est

/-! ### scope constraints, annotations -/

theorem toRef_ofRef (slot : SlotId) (r : EntityRef) : toRef slot (ofRef slot r) = .ok r := by
  cases r <;> simp [ofRef, toRef]

theorem toScope_ofScope (slot : SlotId) (c : ScopeC) : toScope slot (ofScope slot c) = .ok c := by
  cases c <;> simp [ofScope, toScope, toRef_ofRef, Except.map]

theorem toAction_ofAction (a : ActionC) (h : WFAction a) : toAction (ofAction a) = .ok a := by
  cases a with
  | any => simp [ofAction, toAction, checkActions]
  | eq u =>
    have h : WFUid u := h
    simp [ofAction, toAction, checkActions, h.2]
  | mem us =>
    have h : ∀ u ∈ us, WFUid u := h
    have hall : (us.all fun u => isActionType u.ty) = true := by
      simp only [List.all_eq_true]; intro u hu; exact (h u hu).2
    simp only [ofAction, toAction, checkActions, hall, if_true]

theorem toAnnotations_ok (anns : List (String × String)) (hk : ∀ kv ∈ anns, validAnyId kv.1 = true)
    (hs : SortedKeys anns) : toAnnotations anns = .ok anns := by
  have hall : (anns.all fun kv => validAnyId kv.1) = true := by
    simp only [List.all_eq_true]; exact hk
  simp [toAnnotations, hall, sortKVs_sorted anns hs]

/-! ### clauses -/

theorem validateClause_ok (c c' : Clause) (h : validateClause c = .ok c') :
    c' = c ∧ c.body.hasSlot = false ∧ c.body.hasUnknown = false := by
  unfold validateClause at h
  split at h
  · simp at h
  · split at h
    · simp at h
    · rename_i h1 h2
      simp at h
      exact ⟨h.symm, by simpa using h1, by simpa using h2⟩

theorem validateClauses_ok : (cs cs' : List Clause) → validateClauses cs = .ok cs' → cs' = cs
  | [], cs', h => by simp [validateClauses] at h; subst h; rfl
  | c :: cs, cs', h => by
    simp only [validateClauses, bind, Except.bind] at h
    cases hc : validateClause c with
    | error e => simp [hc] at h
    | ok c1 =>
      cases hcs : validateClauses cs with
      | error e => simp [hc, hcs] at h
      | ok cs1 =>
        simp [hc, hcs] at h
        rw [← h, (validateClause_ok c c1 hc).1, validateClauses_ok cs cs1 hcs]

theorem ofAst_ok (e : Expr) (p : PExpr) (h : ofAst e = .ok p) : p = ofAstT e ∧ (ofAstT e).hasBad = false := by
  simp only [ofAst] at h
  by_cases hb : (ofAstT e).hasBad = true
  · simp [hb] at h
  · simp [hb] at h
    exact ⟨h.symm, by simpa using hb⟩

/-- the clause list `ofTemplate` builds denotes the condition it was built from -/
theorem foldConds_ofCond (c : Option Expr) (h : ∀ e, c = some e → WF e) (cs : List Clause)
    (hcs : ofCond c = .ok cs) : foldConds (cs.map clauseExpr) = c := by
  cases c with
  | none => simp [ofCond] at hcs; subst hcs; rfl
  | some e =>
    simp only [ofCond] at hcs
    cases hp : ofAst e with
    | error x => simp [hp] at hcs
    | ok p =>
      simp [hp] at hcs
      subst hcs
      have := (ofAst_ok e p hp).1
      subst this
      simp [clauseExpr, foldConds, toAst_ofAstT e (h e rfl)]

/-! ### templates -/

theorem toTemplate_ofTemplate (t : Template) (h : WFT t) (m : PTemplate) (hm : ofTemplate t = .ok m) :
    toTemplate m = .ok t := by
  simp only [ofTemplate, bind, Except.bind] at hm
  cases hc : ofCond t.cond with
  | error x => simp [hc] at hm
  | ok cs =>
    cases hv : validateClauses cs with
    | error x => simp [hc, hv] at hm
    | ok cs' =>
      simp [hc, hv] at hm
      have hcs' := validateClauses_ok cs cs' hv
      subst hcs'
      have hfold := foldConds_ofCond t.cond (fun e he => (h.cond e he).1) cs' hc
      subst hm
      simp [toTemplate, hfold, toAnnotations_ok t.annotations h.annKeys h.annSorted,
        toScope_ofScope, toAction_ofAction t.action h.action, bind, Except.bind]

/-! ### when does `ofTemplate` succeed: no slot / `Unknown` in the translated condition -/

theorem hasSlot_mkCall (fn : String) (as : List PExpr) : (mkCall fn as).hasSlot = PExpr.hasSlotList as := by
  unfold mkCall
  match as with
  | [] => simp [PExpr.hasSlot]
  | [a] => simp only []; split <;> simp [PExpr.hasSlot, PExpr.hasSlotList]
  | [a, b] => simp only []; split <;> simp [PExpr.hasSlot, PExpr.hasSlotList]
  | a :: b :: c :: rest => simp [PExpr.hasSlot]

theorem hasUnknown_mkCall (fn : String) (as : List PExpr) :
    (mkCall fn as).hasUnknown = PExpr.hasUnknownList as := by
  unfold mkCall
  match as with
  | [] => simp [PExpr.hasUnknown]
  | [a] => simp only []; split <;> simp [PExpr.hasUnknown, PExpr.hasUnknownList]
  | [a, b] => simp only []; split <;> simp [PExpr.hasUnknown, PExpr.hasUnknownList]
  | a :: b :: c :: rest => simp [PExpr.hasUnknown]

mutual
theorem hasSlot_ofAstT : (e : Expr) → (ofAstT e).hasSlot = exprHasSlot e
  | .lit _ => by simp [ofAstT, PExpr.hasSlot, exprHasSlot]
  | .var _ => by simp [ofAstT, PExpr.hasSlot, exprHasSlot]
  | .slot _ => by simp [ofAstT, PExpr.hasSlot, exprHasSlot]
  | .unknown _ _ => by simp [ofAstT, PExpr.hasSlot, exprHasSlot]
  | .ite c t e => by
    simp [ofAstT, PExpr.hasSlot, exprHasSlot, hasSlot_ofAstT c, hasSlot_ofAstT t, hasSlot_ofAstT e]
  | .and a b => by simp [ofAstT, PExpr.hasSlot, exprHasSlot, hasSlot_ofAstT a, hasSlot_ofAstT b]
  | .or a b => by simp [ofAstT, PExpr.hasSlot, exprHasSlot, hasSlot_ofAstT a, hasSlot_ofAstT b]
  | .unaryApp _ a => by simp [ofAstT, PExpr.hasSlot, exprHasSlot, hasSlot_ofAstT a]
  | .binaryApp _ a b => by simp [ofAstT, PExpr.hasSlot, exprHasSlot, hasSlot_ofAstT a, hasSlot_ofAstT b]
  | .call fn args => by
    simp only [ofAstT, exprHasSlot]
    rw [hasSlot_mkCall, hasSlotList_ofAstTs args]
  | .getAttr e _ => by simp [ofAstT, PExpr.hasSlot, exprHasSlot, hasSlot_ofAstT e]
  | .hasAttr e _ => by simp [ofAstT, PExpr.hasSlot, exprHasSlot, hasSlot_ofAstT e]
  | .like e _ => by simp [ofAstT, PExpr.hasSlot, exprHasSlot, hasSlot_ofAstT e]
  | .is e _ => by simp [ofAstT, PExpr.hasSlot, exprHasSlot, hasSlot_ofAstT e]
  | .set es => by simp [ofAstT, PExpr.hasSlot, exprHasSlot, hasSlotList_ofAstTs es]
  | .record kvs => by simp [ofAstT, PExpr.hasSlot, exprHasSlot, hasSlotKVs_ofAstTKVs kvs]
theorem hasSlotList_ofAstTs : (es : List Expr) → PExpr.hasSlotList (ofAstTs es) = exprHasSlotList es
  | [] => by simp [ofAstTs, PExpr.hasSlotList, exprHasSlotList]
  | e :: es => by
    simp [ofAstTs, PExpr.hasSlotList, exprHasSlotList, hasSlot_ofAstT e, hasSlotList_ofAstTs es]
theorem hasSlotKVs_ofAstTKVs : (kvs : List (String × Expr)) →
    PExpr.hasSlotKVs (ofAstTKVs kvs) = exprHasSlotKVs kvs
  | [] => by simp [ofAstTKVs, PExpr.hasSlotKVs, exprHasSlotKVs]
  | (k, e) :: kvs => by
    simp [ofAstTKVs, PExpr.hasSlotKVs, exprHasSlotKVs, hasSlot_ofAstT e, hasSlotKVs_ofAstTKVs kvs]
end

mutual
theorem hasUnknown_ofAstT : (e : Expr) → WF e → (ofAstT e).hasUnknown = false
  | .lit _, _ => by simp [ofAstT, PExpr.hasUnknown]
  | .var _, _ => by simp [ofAstT, PExpr.hasUnknown]
  | .slot _, _ => by simp [ofAstT, PExpr.hasUnknown]
  | .unknown _ _, h => absurd h (by simp [WF])
  | .ite c t e, h => by
    have h : WF c ∧ WF t ∧ WF e := h
    simp [ofAstT, PExpr.hasUnknown, hasUnknown_ofAstT c h.1, hasUnknown_ofAstT t h.2.1, hasUnknown_ofAstT e h.2.2]
  | .and a b, h => by
    have h : WF a ∧ WF b ∧ (isBoolLit a && isBoolLit b) = false := h
    simp [ofAstT, PExpr.hasUnknown, hasUnknown_ofAstT a h.1, hasUnknown_ofAstT b h.2.1]
  | .or a b, h => by
    have h : WF a ∧ WF b ∧ (isBoolLit a && isBoolLit b) = false := h
    simp [ofAstT, PExpr.hasUnknown, hasUnknown_ofAstT a h.1, hasUnknown_ofAstT b h.2.1]
  | .unaryApp _ a, h => by
    have h : WF a := h
    simp [ofAstT, PExpr.hasUnknown, hasUnknown_ofAstT a h]
  | .binaryApp _ a b, h => by
    have h : WF a ∧ WF b := h
    simp [ofAstT, PExpr.hasUnknown, hasUnknown_ofAstT a h.1, hasUnknown_ofAstT b h.2]
  | .call fn args, h => by
    have h : isKnownExt fn = true ∧ WFs args := h
    simp only [ofAstT]
    rw [hasUnknown_mkCall, hasUnknownList_ofAstTs args h.2]
  | .getAttr e _, h => by
    have h : WF e := h
    simp [ofAstT, PExpr.hasUnknown, hasUnknown_ofAstT e h]
  | .hasAttr e _, h => by
    have h : WF e := h
    simp [ofAstT, PExpr.hasUnknown, hasUnknown_ofAstT e h]
  | .like e _, h => by
    have h : WF e := h
    simp [ofAstT, PExpr.hasUnknown, hasUnknown_ofAstT e h]
  | .is e ty, h => by
    have h : WF e ∧ validName ty = true := h
    simp [ofAstT, PExpr.hasUnknown, hasUnknown_ofAstT e h.1]
  | .set es, h => by
    have h : WFs es := h
    simp [ofAstT, PExpr.hasUnknown, hasUnknownList_ofAstTs es h]
  | .record kvs, h => by
    have h : WFKVs kvs ∧ SortedKeys kvs := h
    simp [ofAstT, PExpr.hasUnknown, hasUnknownKVs_ofAstTKVs kvs h.1]
theorem hasUnknownList_ofAstTs : (es : List Expr) → WFs es → PExpr.hasUnknownList (ofAstTs es) = false
  | [], _ => by simp [ofAstTs, PExpr.hasUnknownList]
  | e :: es, h => by
    have h : WF e ∧ WFs es := h
    simp [ofAstTs, PExpr.hasUnknownList, hasUnknown_ofAstT e h.1, hasUnknownList_ofAstTs es h.2]
theorem hasUnknownKVs_ofAstTKVs : (kvs : List (String × Expr)) → WFKVs kvs →
    PExpr.hasUnknownKVs (ofAstTKVs kvs) = false
  | [], _ => by simp [ofAstTKVs, PExpr.hasUnknownKVs]
  | (k, e) :: kvs, h => by
    have h : WF e ∧ WFKVs kvs := h
    simp [ofAstTKVs, PExpr.hasUnknownKVs, hasUnknown_ofAstT e h.1, hasUnknownKVs_ofAstTKVs kvs h.2]
end

/-- `ofTemplate` succeeds on a well-formed template exactly when its condition has a PST
(every extension call is a unary / binary extension operator applied to the right number of arguments) -/
theorem ofTemplate_isOk (t : Template) (h : WFT t) :
    (∃ m, ofTemplate t = .ok m) ↔ (∀ e, t.cond = some e → (ofAstT e).hasBad = false) := by
  constructor
  · rintro ⟨m, hm⟩ e he
    simp only [ofTemplate, bind, Except.bind, he, ofCond] at hm
    cases hp : ofAst e with
    | error x => simp [hp] at hm
    | ok p => exact (ofAst_ok e p hp).2
  · intro hb
    cases hc : t.cond with
    | none =>
      refine ⟨{ effect := t.effect, principal := ofScope .principal t.principal, action := ofAction t.action,
                resource := ofScope .resource t.resource, clauses := [], annotations := t.annotations }, ?_⟩
      simp [ofTemplate, hc, ofCond, validateClauses, bind, Except.bind]
    | some e =>
      have hwf := h.cond e hc
      have hbad := hb e hc
      refine ⟨{ effect := t.effect, principal := ofScope .principal t.principal, action := ofAction t.action,
                resource := ofScope .resource t.resource, clauses := [.when (ofAstT e)],
                annotations := t.annotations }, ?_⟩
      simp [ofTemplate, hc, ofCond, ofAst, hbad, validateClauses, validateClause, Clause.body,
        hasSlot_ofAstT e, hwf.2, hasUnknown_ofAstT e hwf.1, bind, Except.bind]

/-! ### policies -/

theorem hasSlot_ofScope (slot : SlotId) (c : ScopeC) : (ofScope slot c).hasSlot = c.hasSlot := by
  cases c with
  | any => rfl
  | is ty => rfl
  | eq r => cases r <;> rfl
  | mem r => cases r <;> rfl
  | isIn ty r => cases r <;> rfl

theorem isStatic_ofTemplate (t : Template) (m : PTemplate) (hm : ofTemplate t = .ok m) :
    m.isStatic = (t.slots == []) := by
  simp only [ofTemplate, bind, Except.bind] at hm
  cases hc : ofCond t.cond with
  | error x => simp [hc] at hm
  | ok cs =>
    cases hv : validateClauses cs with
    | error x => simp [hc, hv] at hm
    | ok cs' =>
      simp [hc, hv] at hm
      subst hm
      simp only [PTemplate.isStatic, hasSlot_ofScope, Template.slots]
      cases t.principal.hasSlot <;> cases t.resource.hasSlot <;> rfl

/-- the `ast::Policy` invariant the round trip needs: a static policy has no link id and no slot values -/
def StaticInv (p : AstPolicy) : Prop := p.template.slots = [] → p.link = none ∧ p.env = []

theorem toPolicy_ofPolicy (p : AstPolicy) (h : WFT p.template) (hi : StaticInv p) (q : PPolicy)
    (hq : ofPolicy p = .ok q) : toPolicy q = .ok p := by
  simp only [ofPolicy, bind, Except.bind] at hq
  cases hm : ofTemplate p.template with
  | error x => simp [hm] at hq
  | ok m =>
    have hrt := toTemplate_ofTemplate p.template h m hm
    have hst := isStatic_ofTemplate p.template m hm
    simp only [hm] at hq
    by_cases hs : p.template.slots = []
    · have hi' := hi hs
      simp [hst, hs] at hq
      subst hq
      obtain ⟨t, l, e⟩ := p
      simp_all [toPolicy, bind, Except.bind]
    · simp [hst, hs] at hq
      cases hl : p.link with
      | none => simp [hl] at hq
      | some id =>
        simp [hl] at hq
        subst hq
        obtain ⟨t, l, e⟩ := p
        simp_all [toPolicy, bind, Except.bind]

theorem toLink_ofLink (l : Linked) : toLink (ofLink l) = l := rfl

/-! ### several `when` / `unless` clauses: JSON `conditions` and PST `clauses` keep them in order -/

/-- a source clause: `true` = `when`, `false` = `unless`, and its body -/
abbrev SrcClause := Bool × Expr

/-- the expression a clause stands for -/
def SrcClause.denote : SrcClause → Expr
  | (true, e) => e
  | (false, e) => .unaryApp .not e

/-- the member of the JSON `conditions` array (`est::Clause`, `Serialize`) -/
def SrcClause.json : SrcClause → Json
  | (w, e) => .obj [("kind", .str (if w then "when" else "unless")), ("body", ofExpr e)]

/-- the `pst::Clause` -/
def SrcClause.pst : SrcClause → Clause
  | (true, e) => .when (ofAstT e)
  | (false, e) => .unless (ofAstT e)

theorem readClauses_srcJson : (cs : List SrcClause) → (∀ c ∈ cs, WF c.2 ∧ exprHasSlot c.2 = false) →
    readClauses (cs.map SrcClause.json) = .ok (cs.map SrcClause.denote)
  | [], _ => rfl
  | (w, e) :: rest, h => by
    have he := h (w, e) (by simp)
    have ih := readClauses_srcJson rest (fun c hc => h c (by simp [hc]))
    cases w <;>
      simp [readClauses, readClause, SrcClause.json, SrcClause.denote, exactKeys, hasKey, jlookup,
        toExpr_ofExpr e he.1, he.2, ih, bind, Except.bind]

theorem clauseExpr_srcPst : (cs : List SrcClause) → (∀ c ∈ cs, WF c.2) →
    (cs.map SrcClause.pst).map clauseExpr = cs.map SrcClause.denote
  | [], _ => rfl
  | (w, e) :: rest, h => by
    have he := h (w, e) (by simp)
    have ih := clauseExpr_srcPst rest (fun c hc => h c (by simp [hc]))
    cases w <;> simp_all [SrcClause.pst, SrcClause.denote, clauseExpr, toAst_ofAstT e he]

end Cedar.Pst

namespace Cedar.Proto
open Cedar Cedar.Est

theorem toUid_ok (u : EntityUID) (h : validName u.ty = true) : toUid u = .ok u := by
  simp [toUid, uidOf, h]

theorem toRef_ofRef (r : EntityRef) (h : WFRef r) : toRef (ofRef r) = .ok r := by
  cases r with
  | euid u =>
    have h : validName u.ty = true := h
    simp [ofRef, toRef, toUid_ok u h, Except.map]
  | slot => simp [ofRef, toRef]

theorem toScope_ofScope (c : ScopeC) (h : WFScope c) : toScope (ofScope c) = .ok c := by
  cases c with
  | any => simp [ofScope, toScope]
  | eq r =>
    have h : WFRef r := h
    simp [ofScope, toScope, toRef_ofRef r h, Except.map]
  | mem r =>
    have h : WFRef r := h
    simp [ofScope, toScope, toRef_ofRef r h, Except.map]
  | is ty =>
    have h : validName ty = true := h
    simp [ofScope, toScope, toType, h, Except.map]
  | isIn ty r =>
    have h : validName ty = true ∧ WFRef r := h
    simp [ofScope, toScope, toType, h.1, toRef_ofRef r h.2, bind, Except.bind]

theorem toUids_ok (us : List EntityUID) (h : ∀ u ∈ us, validName u.ty = true) : toUids us = .ok us := by
  induction us with
  | nil => rfl
  | cons u rest ih =>
    have h1 := h u (by simp)
    have h2 : ∀ v ∈ rest, validName v.ty = true := fun v hv => h v (by simp [hv])
    simp [toUids, toUid_ok u h1, ih h2, bind, Except.bind]

theorem toAction_ofAction (a : ActionC) (h : WFAction a) : toAction (ofAction a) = .ok a := by
  cases a with
  | any => simp [ofAction, toAction]
  | eq u =>
    have h : WFUid u := h
    simp [ofAction, toAction, toUid_ok u h.1, Except.map]
  | mem us =>
    have h : ∀ u ∈ us, WFUid u := h
    simp [ofAction, toAction, toUids_ok us (fun u hu => (h u hu).1), Except.map]

theorem toAnnotations_ok (anns : List (String × String)) (hk : ∀ kv ∈ anns, validAnyId kv.1 = true)
    (hs : SortedKeys anns) : toAnnotations anns = .ok anns := by
  have hall : (anns.all fun kv => validAnyId kv.1) = true := by
    simp only [List.all_eq_true]; exact hk
  simp [toAnnotations, hall, sortKVs_sorted anns hs]

/-- a well-formed template is encodable (no `Unknown` panic) and decodes to itself -/
theorem toTemplate_ofTemplate (t : Template) (h : WFT t) :
    ∃ m, ofTemplate t = some m ∧ toTemplate m = .ok t := by
  have hann := toAnnotations_ok t.annotations h.annKeys h.annSorted
  have hp := toScope_ofScope t.principal h.principal
  have hr := toScope_ofScope t.resource h.resource
  have ha := toAction_ofAction t.action h.action
  cases hc : t.cond with
  | none =>
    refine ⟨_, by simp [ofTemplate, hc]; rfl, ?_⟩
    simp [toTemplate, hann, hp, hr, ha, bind, Except.bind]
    cases t; simp_all
  | some e =>
    have hwf := (h.cond e hc).1
    refine ⟨_, by simp [ofTemplate, hc, ofAst, noPanic e hwf]; rfl, ?_⟩
    simp [toTemplate, hann, hp, hr, ha, toAst_ofAstT e hwf, bind, Except.bind, Except.map]
    cases t; simp_all

/-! ### link messages -/

theorem envGet_mem : (env : SlotEnv) → (s : SlotId) → (u : EntityUID) → envGet env s = some u → (s, u) ∈ env
  | [], _, _, h => by simp [envGet] at h
  | (s', u') :: rest, s, u, h => by
    simp only [envGet] at h
    by_cases hs : s' = s
    · simp [hs] at h; simp [hs, h]
    · simp [hs] at h
      exact List.mem_cons_of_mem _ (envGet_mem rest s u h)

/-- the canonical slot list binds every slot as the original one does -/
theorem envGet_canonEnv (env : SlotEnv) (s : SlotId) : envGet (canonEnv env) s = envGet env s := by
  cases s <;> cases hp : envGet env .principal <;> cases hr : envGet env .resource <;>
    simp [canonEnv, hp, hr, envGet]

theorem slotValues_ofPolicy (p : PolicyRef) (h : ∀ b ∈ p.env, validName b.2.ty = true) :
    slotValues (ofPolicy p) = .ok (canonEnv p.env) := by
  have hv : ∀ s u, envGet p.env s = some u → toUid u = .ok u :=
    fun s u hu => toUid_ok u (h (s, u) (envGet_mem p.env s u hu))
  cases hp : envGet p.env .principal with
  | none =>
    cases hr : envGet p.env .resource with
    | none => simp [slotValues, ofPolicy, canonEnv, hp, hr, bind, Except.bind]
    | some v => simp [slotValues, ofPolicy, canonEnv, hp, hr, hv _ _ hr, bind, Except.bind, Except.map]
  | some u =>
    cases hr : envGet p.env .resource with
    | none => simp [slotValues, ofPolicy, canonEnv, hp, hr, hv _ _ hp, bind, Except.bind, Except.map]
    | some v =>
      simp [slotValues, ofPolicy, canonEnv, hp, hr, hv _ _ hp, hv _ _ hr, bind, Except.bind, Except.map]

/-- invariants of an `ast::Policy` stored in a policy set with templates `ts`, relative to the ids `seen` so far -/
structure WFPolicyRef (ts : List (String × Template)) (seen : List String) (p : PolicyRef) : Prop where
  /-- `EntityUID`s hold parsed names -/
  names : ∀ b ∈ p.env, validName b.2.ty = true
  /-- the association list representing the `HashMap` lists `?principal` before `?resource`, each at most once -/
  canon : canonEnv p.env = p.env
  /-- the template exists and `check_binding` holds (`Template::link` / `try_as_policy` succeeded) -/
  binding : ∃ t, tlookup ts p.templateId = some t ∧ checkBinding t p.env = true
  /-- a static policy has no slot values -/
  staticEnv : p.link = none → p.env = []
  /-- the policy id is fresh, and a link id is not a template id -/
  fresh : seen.contains p.id = false
  linkId : ∀ id, p.link = some id → tlookup ts id = none

theorem toPolicy_ofPolicy (ts : List (String × Template)) (seen : List String) (p : PolicyRef)
    (h : WFPolicyRef ts seen p) : toPolicy ts seen (ofPolicy p) = .ok p := by
  obtain ⟨tid, link, env⟩ := p
  obtain ⟨t, ht, hb⟩ := h.binding
  have hsv := slotValues_ofPolicy _ h.names
  rw [h.canon] at hsv
  simp only [] at ht hb hsv
  cases link with
  | none =>
    have henv : env = [] := h.staticEnv rfl
    subst henv
    have hf : seen.contains tid = false := h.fresh
    simp only [toPolicy, ofPolicy, Option.isSome, hf, ht, hb]
    simp
  | some id =>
    have hf : seen.contains id = false := h.fresh
    have hl := h.linkId id rfl
    simp only [toPolicy, Option.isSome, hsv, bind, Except.bind]
    simp only [ofPolicy, hf, hl, Option.isSome]
    simp [ht, hb]

/-! ### link messages without the list-order hypothesis -/

theorem any_eq_envGet_isSome : (env : SlotEnv) → (s : SlotId) →
    env.any (fun b => b.1 == s) = (envGet env s).isSome
  | [], _ => rfl
  | (s', u) :: rest, s => by
    by_cases hs : s' = s <;> simp [envGet, hs, any_eq_envGet_isSome rest s]

theorem mem_canonEnv (env : SlotEnv) (b : SlotId × EntityUID) (hb : b ∈ canonEnv env) : envGet env b.1 = some b.2 := by
  cases hp : envGet env .principal <;> cases hr : envGet env .resource <;>
    simp [canonEnv, hp, hr] at hb
  · subst hb; exact hr
  · subst hb; exact hp
  · rcases hb with rfl | rfl
    · exact hp
    · exact hr

theorem canonEnv_keys_nodup (env : SlotEnv) :
    ((canonEnv env).map (·.1)).eraseDups.length = (canonEnv env).length := by
  cases hp : envGet env .principal <;> cases hr : envGet env .resource <;>
    simp [canonEnv, hp, hr] <;> decide

/-- `check_binding` does not depend on the order in which the slot values are listed -/
theorem checkBinding_canonEnv (t : Template) (env : SlotEnv) (h : checkBinding t env = true) :
    checkBinding t (canonEnv env) = true := by
  simp only [checkBinding, Bool.and_eq_true, List.all_eq_true, beq_iff_eq] at h ⊢
  obtain ⟨⟨hA, hB⟩, _⟩ := h
  refine ⟨⟨?_, ?_⟩, canonEnv_keys_nodup env⟩
  · intro s hs
    have := hA s hs
    rw [any_eq_envGet_isSome] at this ⊢
    rwa [envGet_canonEnv]
  · intro b hb
    have hm := envGet_mem env b.1 b.2 (mem_canonEnv env b hb)
    exact hB _ hm

/-- the round trip of a link message up to the order of the slot-value list: no `canon` hypothesis -/
theorem toPolicy_ofPolicy_canon (ts : List (String × Template)) (seen : List String) (p : PolicyRef)
    (hn : ∀ b ∈ p.env, validName b.2.ty = true)
    (hb : ∃ t, tlookup ts p.templateId = some t ∧ checkBinding t p.env = true)
    (hs : p.link = none → p.env = [])
    (hf : seen.contains p.id = false)
    (hl : ∀ id, p.link = some id → tlookup ts id = none) :
    toPolicy ts seen (ofPolicy p) = .ok { p with env := canonEnv p.env } := by
  have hc : canonEnv (canonEnv p.env) = canonEnv p.env := by
    show (match envGet (canonEnv p.env) .principal with | some u => [(SlotId.principal, u)] | none => [])
      ++ (match envGet (canonEnv p.env) .resource with | some u => [(SlotId.resource, u)] | none => []) = _
    rw [envGet_canonEnv, envGet_canonEnv]
    rfl
  have hget : ∀ s, envGet (canonEnv p.env) s = envGet p.env s := envGet_canonEnv p.env
  have hof : ofPolicy { p with env := canonEnv p.env } = ofPolicy p := by
    simp [ofPolicy, hget]
  rw [← hof]
  obtain ⟨t, ht, hbt⟩ := hb
  exact toPolicy_ofPolicy ts seen _
    { names := fun b hbm => hn (b.1, b.2) (envGet_mem p.env b.1 b.2 (mem_canonEnv p.env b hbm))
      canon := hc
      binding := ⟨t, ht, checkBinding_canonEnv t p.env hbt⟩
      staticEnv := fun h => by simp [hs h, canonEnv, envGet]
      fresh := hf
      linkId := hl }

/-! ### policy sets -/

theorem tlookup_append (a b : List (String × Template)) (k : String) :
    tlookup (a ++ b) k = (tlookup a k).orElse (fun _ => tlookup b k) := by
  induction a with
  | nil => simp [tlookup]
  | cons x rest ih =>
    obtain ⟨k', t⟩ := x
    by_cases hk : k' = k <;> simp [tlookup, hk, ih]

theorem ne_of_hasKey_false {α} : (kvs : List (String × α)) → (k : String) → hasKey kvs k = false →
    ∀ kv ∈ kvs, kv.1 ≠ k
  | [], _, _, _, hkv => by simp at hkv
  | (k', v) :: rest, k, h, kv, hkv => by
    simp only [hasKey, Bool.or_eq_false_iff] at h
    rcases List.mem_cons.mp hkv with rfl | hm
    · simpa using h.1
    · exact ne_of_hasKey_false rest k h.2 kv hm

theorem toTemplates_ofTemplates : (ts acc : List (String × Template)) → (∀ kt ∈ ts, WFT kt.2) →
    noDupKeys ts = true → (∀ kt ∈ ts, tlookup acc kt.1 = none) →
    ∃ ms, ofTemplates ts = some ms ∧ toTemplates acc ms = .ok (acc ++ ts)
  | [], acc, _, _, _ => ⟨[], rfl, by simp [toTemplates]⟩
  | (id, t) :: rest, acc, hwf, hd, hdis => by
    obtain ⟨m, hm, hrt⟩ := toTemplate_ofTemplate t (hwf (id, t) (by simp))
    simp only [noDupKeys, Bool.and_eq_true, Bool.not_eq_true'] at hd
    have hne := ne_of_hasKey_false rest id hd.1
    have hacc : tlookup acc id = none := hdis (id, t) (by simp)
    have hdis' : ∀ kt ∈ rest, tlookup (acc ++ [(id, t)]) kt.1 = none := by
      intro kt hkt
      have h1 : tlookup acc kt.1 = none := hdis kt (by simp [hkt])
      have h2 : ¬ (id = kt.1) := fun h => hne kt hkt h.symm
      simp [tlookup_append, h1, tlookup, h2]
    obtain ⟨ms, hms, hrest⟩ := toTemplates_ofTemplates rest (acc ++ [(id, t)])
      (fun kt hkt => hwf kt (by simp [hkt])) hd.2 hdis'
    refine ⟨(id, m) :: ms, by simp [ofTemplates, hm, hms], ?_⟩
    simp [toTemplates, hrt, hacc, hrest, bind, Except.bind]

/-- every policy of the list satisfies the `ast::Policy` invariants relative to the ids stored before it -/
def WFLinks (ts : List (String × Template)) : List String → List PolicyRef → Prop
  | _, [] => True
  | seen, p :: rest => WFPolicyRef ts seen p ∧ WFLinks ts (p.id :: seen) rest

theorem toLinks_ofPolicies (ts : List (String × Template)) : (ls : List PolicyRef) → (seen : List String) →
    (acc : List PolicyRef) → WFLinks ts seen ls → toLinks ts seen acc (ls.map ofPolicy) = .ok (acc ++ ls)
  | [], _, _, _ => by simp [toLinks]
  | p :: rest, seen, acc, h => by
    have h : WFPolicyRef ts seen p ∧ WFLinks ts (p.id :: seen) rest := h
    have ih := toLinks_ofPolicies ts rest (p.id :: seen) (acc ++ [p]) h.2
    simp [toLinks, toPolicy_ofPolicy ts seen p h.1, ih, bind, Except.bind]

/-- invariants of an `ast::PolicySet`: well-formed templates under distinct ids, and policies that each
satisfy `WFPolicyRef` (template present, `check_binding`, fresh id, link id not a template id) -/
structure WFSet (s : AstSet) : Prop where
  templates : ∀ kt ∈ s.templates, WFT kt.2
  distinct : noDupKeys s.templates = true
  links : WFLinks s.templates [] s.links

theorem toSet_ofSet (s : AstSet) (h : WFSet s) : ∃ m, ofSet s = some m ∧ toSet m = .ok s := by
  obtain ⟨ms, hms, hts⟩ := toTemplates_ofTemplates s.templates [] h.templates h.distinct
    (fun _ _ => by simp [tlookup])
  refine ⟨{ templates := ms, links := s.links.map ofPolicy }, by simp [ofSet, hms], ?_⟩
  simp only [List.nil_append] at hts
  have hl := toLinks_ofPolicies s.templates s.links [] [] h.links
  simp [toSet, hts, hl, bind, Except.bind]

end Cedar.Proto
