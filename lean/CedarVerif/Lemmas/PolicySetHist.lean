import CedarVerif.Lemmas.PolicySetInv
import CedarVerif.Lemmas.Auth
/-
C08 helper lemmas, part 4: operations as data, failed operations, histories, authorization over links.
-/
namespace Cedar
open LHM

/-- the operations of the core policy set as data (merge is treated separately) -/
inductive CoreOp where
  | addStatic (b : TemplateBody)
  | addTemplate (t : Template)
  | link (tid newId : String) (vals : SlotVals)
  | unlink (id : String)
  | removeStatic (id : String)
  | removeTemplate (id : String)
deriving Repr

def PolicySet.applyOp (ps : PolicySet) : CoreOp → Step PolicySet
  | .addStatic b => ps.addStatic b
  | .addTemplate t => ps.addTemplate t
  | .link tid newId vals => ps.link tid newId vals
  | .unlink id => ps.unlink id
  | .removeStatic id => ps.removeStatic id
  | .removeTemplate id => ps.removeTemplate id

/-- the one precondition under which the public API layer calls the core `link`: the template id is not
the id of a (static) policy -/
def CoreOp.admissible (ps : PolicySet) : CoreOp → Prop
  | .link tid _ _ => ps.links.contains tid = false
  | _ => True

instance CoreOp.decAdmissible (ps : PolicySet) : (op : CoreOp) → Decidable (op.admissible ps)
  | .link tid _ _ => inferInstanceAs (Decidable (ps.links.contains tid = false))
  | .addStatic _ => isTrue trivial
  | .addTemplate _ => isTrue trivial
  | .unlink _ => isTrue trivial
  | .removeStatic _ => isTrue trivial
  | .removeTemplate _ => isTrue trivial

/-- `a` (the state after a failed call) has the same content as `b` (the state before), as maps: what a failed
`remove_static` may change is only the position of one link in the iteration order -/
def PolicySet.sameMaps (a b : PolicySet) : Prop :=
  a.templates = b.templates ∧ a.t2l = b.t2l ∧ (∀ k, a.links.get? k = b.links.get? k) ∧
  (b.links.keys.Nodup → a.links.keys.Nodup)

theorem PolicySet.sameMaps_refl (a : PolicySet) : a.sameMaps a := ⟨rfl, rfl, fun _ => rfl, id⟩

theorem PolicySet.WF_of_sameMaps {a b : PolicySet} (h : a.sameMaps b) (wf : b.WF) : a.WF := by
  obtain ⟨h1, h2, h3, h4⟩ := h
  constructor
  · rw [h1]; exact wf.tNodup
  · exact h4 wf.lNodup
  · rw [h2]; exact wf.mNodup
  · rw [h1]; exact wf.tKey
  · intro k p; rw [h3]; exact wf.lKey k p
  · rw [h1, h2]; exact wf.mKeys
  · intro k p; rw [h3, h1]; exact wf.lTemplate k p
  · intro tid s; rw [h2]; intro hs id; rw [wf.mExact tid s hs id]; simp only [h3]
  · intro k p; rw [h3, h1]; exact wf.shared k p
  · intro k p; rw [h3, h3]; exact wf.staticOne k p
  · intro k p; rw [h3]; exact wf.bound k p

theorem removeStatic_fail_sameMaps (ps : PolicySet) (id : String) (p : TPolicy) (hp : ps.links.get? id = some p) :
    PolicySet.sameMaps { ps with links := ps.links.erase id ++ [(id, p)] } ps := by
  refine ⟨rfl, rfl, ?_, ?_⟩
  · intro k
    show LHM.get? (LHM.insert ps.links id p) k = _
    rw [get?_insert]
    by_cases hk : k = id
    · simp [hk, hp]
    · simp [hk]
  · intro h
    exact nodup_insert _ _ _ h

/-- the possible shapes of the outcome of one call -/
theorem PolicySet.applyOp_cases (ps : PolicySet) (op : CoreOp) :
    (ps.applyOp op).err = none ∨
    ((∃ m, (ps.applyOp op).err = some (.panic m)) ∧
      ((∃ id p, op = .unlink id ∧ ps.links.get? id = some p ∧ ps.t2l.get? p.template.id = none) ∨
       (∃ id, op = .removeTemplate id ∧ (ps.t2l.get? id).isSome = true ∧ ps.templates.get? id = none))) ∨
    (ps.applyOp op).ps = ps ∨
    (∃ id p, op = .removeStatic id ∧ ps.links.get? id = some p ∧
      (ps.applyOp op).ps = { ps with links := ps.links.erase id ++ [(id, p)] }) := by
  cases op with
  | addStatic b =>
    unfold PolicySet.applyOp PolicySet.addStatic linkStaticPolicy
    simp only [Template.id]
    by_cases h1 : ps.templates.contains b.id = true
    · simp [h1]
    · by_cases h2 : ps.links.contains b.id = true
      · simp [h1, h2]
      · simp [h1, h2]
  | addTemplate t =>
    unfold PolicySet.applyOp PolicySet.addTemplate
    by_cases h2 : ps.links.contains t.id = true
    · simp [h2]
    · by_cases h1 : ps.templates.contains t.id = true
      · simp [h1, h2]
      · simp [h1, h2]
  | link tid newId vals =>
    unfold PolicySet.applyOp PolicySet.link Template.link
    cases ht : ps.templates.get? tid with
    | none => simp [ht]
    | some t =>
      by_cases hb : t.checkBinding vals = true
      · by_cases h2 : ps.links.contains newId = true
        · simp [ht, hb, h2]
        · by_cases h1 : ps.templates.contains newId = true
          · simp [ht, hb, h1, h2]
          · simp [ht, hb, h1, h2]
      · simp [ht, hb]
  | unlink id =>
    unfold PolicySet.applyOp PolicySet.unlink
    by_cases h1 : ps.templates.contains id = true
    · simp [h1]
    · cases hp : ps.links.get? id with
      | none => simp [h1, hp]
      | some p =>
        by_cases hm : ps.t2l.contains p.template.id = true
        · simp [h1, hp, hm]
        · right; left
          simp only [Bool.not_eq_true] at hm
          refine ⟨⟨"No template found for linked policy", by simp [h1, hp, hm]⟩, Or.inl ⟨id, p, rfl, hp, (contains_false _ _).mp hm⟩⟩
  | removeStatic id =>
    unfold PolicySet.applyOp PolicySet.removeStatic
    cases hp : ps.links.get? id with
    | none => simp [hp]
    | some p =>
      cases ht : ps.templates.get? id with
      | some t => simp [hp, ht]
      | none => right; right; right; exact ⟨id, p, rfl, hp, by simp [hp, ht]⟩
  | removeTemplate id =>
    unfold PolicySet.applyOp PolicySet.removeTemplate
    by_cases h1 : ps.links.contains id = true
    · simp [h1]
    · cases hs : ps.t2l.get? id with
      | none => simp [h1, hs]
      | some s =>
        by_cases hse : s.isEmpty = true
        · cases ht : ps.templates.get? id with
          | some t => simp [h1, hs, hse, ht]
          | none =>
            right; left
            refine ⟨⟨"Found in template_to_links_map but not in templates", by simp [h1, hs, hse, ht]⟩, Or.inr ⟨id, rfl, by simp [hs], ht⟩⟩
        · simp [h1, hs, hse]

/-- A failed operation changes nothing: the state is literally unchanged, except that a failed
`remove_static` on the id of a template-linked policy moves that link to the back of `links`
(same maps). Panics are not failures in this sense (`no_panic` excludes them). -/
theorem PolicySet.applyOp_fail (ps : PolicySet) (op : CoreOp) (e : PSError)
    (h : (ps.applyOp op).err = some e) (hnp : ∀ m, e ≠ .panic m) :
    (ps.applyOp op).ps.sameMaps ps ∧ ((∀ id, op ≠ .removeStatic id) → (ps.applyOp op).ps = ps) := by
  rcases PolicySet.applyOp_cases ps op with h0 | ⟨⟨m, hm⟩, _⟩ | h0 | ⟨id, p, hop, hp, h0⟩
  · rw [h0] at h; cases h
  · rw [hm] at h; cases h; exact absurd rfl (hnp m)
  · rw [h0]; exact ⟨PolicySet.sameMaps_refl ps, fun _ => rfl⟩
  · rw [h0]
    exact ⟨removeStatic_fail_sameMaps ps id p hp, fun hne => absurd hop (hne id)⟩

/-- the `panic!` sites of `unlink` and `remove_template` are unreachable on a well-formed set -/
theorem PolicySet.applyOp_no_panic (ps : PolicySet) (op : CoreOp) (wf : ps.WF) (m : String) :
    (ps.applyOp op).err ≠ some (.panic m) := by
  intro hm
  rcases PolicySet.applyOp_cases ps op with h0 | ⟨_, ⟨id, p, _, hp, hn⟩ | ⟨id, _, hs, hn⟩⟩ | h0 | ⟨id, p, hop, hp, h0⟩
  · rw [h0] at hm; cases hm
  · have h1 := wf.lTemplate id p hp
    have h2 := wf.mKeys p.template.id
    rw [h1, hn] at h2; cases h2
  · have h2 := wf.mKeys id
    rw [hn, hs] at h2; cases h2
  · -- state unchanged: the call failed without panic or succeeded; inspect each op
    cases op with
    | addStatic b =>
      revert hm; unfold PolicySet.applyOp PolicySet.addStatic linkStaticPolicy
      simp only [Template.id]
      by_cases h1 : ps.templates.contains b.id = true
      · simp [h1]
      · by_cases h2 : ps.links.contains b.id = true <;> simp [h1, h2]
    | addTemplate t =>
      revert hm; unfold PolicySet.applyOp PolicySet.addTemplate
      by_cases h2 : ps.links.contains t.id = true
      · simp [h2]
      · by_cases h1 : ps.templates.contains t.id = true <;> simp [h1, h2]
    | link tid newId vals =>
      revert hm; unfold PolicySet.applyOp PolicySet.link Template.link
      cases ht : ps.templates.get? tid with
      | none => simp [ht]
      | some t =>
        by_cases hb : t.checkBinding vals = true
        · by_cases h2 : ps.links.contains newId = true
          · simp [ht, hb, h2]
          · by_cases h1 : ps.templates.contains newId = true <;> simp [ht, hb, h1, h2]
        · simp [ht, hb]
    | unlink id =>
      revert hm; unfold PolicySet.applyOp PolicySet.unlink
      by_cases h1 : ps.templates.contains id = true
      · simp [h1]
      · cases hp : ps.links.get? id with
        | none => simp [h1, hp]
        | some p =>
          have h3 := wf.lTemplate id p hp
          have h2 := wf.mKeys p.template.id
          rw [h3] at h2
          have : ps.t2l.contains p.template.id = true := by rw [contains_eq]; exact h2
          simp [h1, hp, this]
    | removeStatic id =>
      revert hm; unfold PolicySet.applyOp PolicySet.removeStatic
      cases hp : ps.links.get? id with
      | none => simp [hp]
      | some p => cases ht : ps.templates.get? id <;> simp [hp, ht]
    | removeTemplate id =>
      revert hm; unfold PolicySet.applyOp PolicySet.removeTemplate
      by_cases h1 : ps.links.contains id = true
      · simp [h1]
      · cases hs : ps.t2l.get? id with
        | none => simp [h1, hs]
        | some s =>
          by_cases hse : s.isEmpty = true
          · have h2 := wf.mKeys id
            rw [hs] at h2
            cases ht : ps.templates.get? id with
            | none => rw [ht] at h2; cases h2
            | some t => simp [h1, hs, hse, ht]
          · simp [h1, hs, hse]
  · subst hop
    revert hm; unfold PolicySet.applyOp PolicySet.removeStatic
    cases ht : ps.templates.get? id <;> simp [hp, ht]

/-- every operation (successful or failed, admissible) preserves the invariant -/
theorem PolicySet.applyOp_wf (ps : PolicySet) (op : CoreOp) (wf : ps.WF) (adm : op.admissible ps) :
    (ps.applyOp op).ps.WF := by
  cases herr : (ps.applyOp op).err with
  | none =>
    cases op with
    | addStatic b => exact PolicySet.addStatic_wf ps b wf herr
    | addTemplate t => exact PolicySet.addTemplate_wf ps t wf herr
    | link tid newId vals => exact PolicySet.link_wf ps tid newId vals wf ((contains_false _ _).mp adm) herr
    | unlink id => exact PolicySet.unlink_wf ps id wf herr
    | removeStatic id => exact PolicySet.removeStatic_wf ps id wf herr
    | removeTemplate id => exact PolicySet.removeTemplate_wf ps id wf herr
  | some e =>
    have hnp : ∀ m, e ≠ .panic m := by
      intro m he; subst he
      exact PolicySet.applyOp_no_panic ps op wf m herr
    exact PolicySet.WF_of_sameMaps (PolicySet.applyOp_fail ps op e herr hnp).1 wf

/-- histories: the state after each call is the state before the next one (also after failures) -/
def PolicySet.run (ps : PolicySet) : List CoreOp → PolicySet
  | [] => ps
  | op :: ops => PolicySet.run (ps.applyOp op).ps ops

/-- every `link` in the history is issued, as by the public API, on a template id that is not a policy id -/
def PolicySet.admissibleHist (ps : PolicySet) : List CoreOp → Prop
  | [] => True
  | op :: ops => op.admissible ps ∧ PolicySet.admissibleHist (ps.applyOp op).ps ops

def PolicySet.decAdmissibleHist : (ops : List CoreOp) → (ps : PolicySet) → Decidable (ps.admissibleHist ops)
  | [], _ => isTrue trivial
  | op :: ops, ps =>
    match CoreOp.decAdmissible ps op, PolicySet.decAdmissibleHist ops (ps.applyOp op).ps with
    | isTrue a, isTrue b => isTrue ⟨a, b⟩
    | isFalse a, _ => isFalse (fun h => a h.1)
    | _, isFalse b => isFalse (fun h => b h.2)

instance (ps : PolicySet) (ops : List CoreOp) : Decidable (ps.admissibleHist ops) := PolicySet.decAdmissibleHist ops ps

theorem PolicySet.run_wf (ops : List CoreOp) : ∀ (ps : PolicySet), ps.WF → ps.admissibleHist ops → (ps.run ops).WF := by
  induction ops with
  | nil => intro ps wf _; exact wf
  | cons op ops ih =>
    intro ps wf adm
    exact ih _ (PolicySet.applyOp_wf ps op wf adm.1) adm.2

/-! ### authorization -/

theorem Buckets.step_congr (req : Request) (es : Entities) (b : Buckets) (p q : Policy)
    (hid : p.id = q.id) (heff : p.effect = q.effect) (hout : p.outcome req es = q.outcome req es) :
    Buckets.step req es b p = Buckets.step req es b q := by
  unfold Buckets.step
  rw [hid, heff, hout]

theorem isAuthorized_congr (req : Request) (es : Entities) {α} (l : List α) (f g : α → Policy)
    (h : ∀ x, x ∈ l → (f x).id = (g x).id ∧ (f x).effect = (g x).effect ∧ (f x).outcome req es = (g x).outcome req es) :
    isAuthorized req es (l.map f) = isAuthorized req es (l.map g) := by
  unfold isAuthorized
  have : ∀ (b : Buckets), (l.map f).foldl (Buckets.step req es) b = (l.map g).foldl (Buckets.step req es) b := by
    induction l with
    | nil => intro b; rfl
    | cons x xs ih =>
      intro b
      simp only [List.map_cons, List.foldl_cons]
      obtain ⟨h1, h2, h3⟩ := h x (by simp)
      rw [Buckets.step_congr req es b (f x) (g x) h1 h2 h3]
      exact ih (fun y hy => h y (by simp [hy])) _
  rw [this]

/-- the static policy a stored policy stands for: its template with the slots replaced by the linked entities -/
def TPolicy.substituted (p : TPolicy) : Policy :=
  { id := p.id, effect := (p.template.substitute p.values p.id).effect,
    condition := (p.template.substitute p.values p.id).condition, env := [] }

theorem TPolicy.outcome_substituted (p : TPolicy) (req : Request) (es : Entities) :
    p.toPolicy.outcome req es = p.substituted.outcome req es := by
  unfold Policy.outcome TPolicy.toPolicy TPolicy.substituted
  simp only
  rw [substitute_condition, ← eval_subst]

end Cedar
