import CedarVerif.Lemmas.TpeEmpty
import CedarVerif.Lemmas.TpeTable
/- C14 / C15 helpers: from `interpret` soundness to the buckets of a response: the class read off a residual is the
   outcome of the original policy on every completion. -/
namespace Cedar.Tpe
open Cedar

/-- the typed conditions are dynamically type-safe on the request and the store (what validation gives, C03) -/
def TypedSafe (q : Request) (es : Entities) (tps : List TPolicy) : Prop :=
  ∀ tp, tp ∈ tps → ∀ r0, Residual.ofExpr tp.typed = some r0 → TypeSafe q es r0

/-- a class read off a residual is the outcome of anything the residual agrees with -/
theorem cls_consistent_of_agree {q q' : Request} {E es : Entities} {r : Residual} {p : Policy}
    (h : Agree (r.eval q E) (evaluate q' es p.env p.condition)) : r.cls.Consistent (p.outcome q' es) := by
  cases r with
  | part k ty => simp [Residual.cls, Residual.isTrue, Residual.isFalse, Residual.isError, Class.Consistent]
  | error ty =>
    obtain ⟨e', he'⟩ := agree_err_left (by simpa [Residual.eval] using h)
    simp [Residual.cls, Residual.isTrue, Residual.isFalse, Residual.isError, Class.Consistent, Policy.outcome, he']
  | concrete v ty =>
    have hx : evaluate q' es p.env p.condition = .ok v := agree_ok_left (by simpa [Residual.eval] using h)
    cases v with
    | prim pr =>
      cases pr with
      | bool b =>
        cases b <;>
          simp [Residual.cls, Residual.isTrue, Residual.isFalse, Class.Consistent, Policy.outcome, hx, Value.asBool]
      | _ => simp [Residual.cls, Residual.isTrue, Residual.isFalse, Residual.isError, Class.Consistent]
    | _ => simp [Residual.cls, Residual.isTrue, Residual.isFalse, Residual.isError, Class.Consistent]

/-- the typed condition of every policy evaluates like the condition of the policy (the typechecker only annotates and
    prunes statically decided operands) -/
def TypedAgrees (q : Request) (es : Entities) (tps : List TPolicy) : Prop :=
  ∀ tp, tp ∈ tps → Agree (evaluate q es [] tp.typed) (evaluate q es tp.policy.env tp.policy.condition)

/-- every residual policy of a response `tpe::is_authorized` builds sits in a bucket consistent with the outcome of its
    original policy on every completion of the partial inputs -/
theorem isAuthorized_consistent {preq : PRequest} {pes : PEntities} {req : Request} {es : Entities} {tps : List TPolicy}
    {resp : Response} (hC : Completes preq pes req es) (hT : TypedSafe req es tps) (hE : TypedAgrees req es tps)
    (h : isAuthorized preq pes tps = some resp) :
    ∀ rp, rp ∈ resp.residuals → rp.residual.cls.Consistent (rp.original.outcome req es) := by
  unfold isAuthorized at h
  cases hm : mapM? (residualPolicyOf preq pes) tps with
  | none => simp [hm] at h
  | some rs =>
    simp only [hm, Option.map_some, Option.some.injEq] at h
    subst h
    intro rp hrp
    obtain ⟨tp, htp, hf⟩ := (mapM?_spec hm).2 rp hrp
    unfold residualPolicyOf at hf
    cases ho : Residual.ofExpr tp.typed with
    | none => simp [ho] at hf
    | some r0 =>
      simp only [ho, Option.map_some, Option.some.injEq] at hf
      subst hf
      have h1 := (interpret_typeSafe hC (hT tp htp r0 ho)).1
      rw [ofExpr_eval tp.typed r0 ho] at h1
      exact cls_consistent_of_agree (agree_trans h1 (hE tp htp))

end Cedar.Tpe
