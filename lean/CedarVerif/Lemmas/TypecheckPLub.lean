import CedarVerif.Lemmas.TypecheckLub
/-
C03: least upper bounds in PERMISSIVE mode — `instance_of_lub`: every instance of either argument of `lub .permissive`
is an instance of the bound (entity-type unions, `AnyEntity`, records joined with width / depth subtyping, dropped
attributes and open records).  `InstanceOfType` (Cedar/Validation/Conformance.lean) already interprets all the types that
only permissive mode produces: `entity lub` = the uid's type is a member of `lub`, `anyEntity`, open records.
The left lemma needs record keys to be distinct inside the left type (`ndTy`; attribute maps are `BTreeMap`s in Rust):
`lubAttrsPermissive` walks the left attribute list and drops entries, and `Attrs.find?` finds the first entry of a key.
-/
namespace Cedar.C03

open Cedar

-- record keys are distinct, everywhere inside the type
mutual
def ndTy : CedarType → Bool
  | .set (some t) => ndTy t
  | .record attrs _ => ndAttrs attrs && decide ((attrs.map (·.1)).Nodup)
  | _ => true
def ndAttrs : List (String × Bool × CedarType) → Bool
  | [] => true
  | (_, _, t) :: rest => ndTy t && ndAttrs rest
end

theorem ndAttrs_iff {attrs : Attrs} : ndAttrs attrs = true ↔ ∀ k r t, (k, r, t) ∈ attrs → ndTy t = true := by
  induction attrs with
  | nil => simp [ndAttrs]
  | cons a rest ih =>
    obtain ⟨k, r, t⟩ := a
    simp only [ndAttrs, Bool.and_eq_true, ih, List.mem_cons, Prod.mk.injEq]
    constructor
    · rintro ⟨h1, h2⟩ k' r' t' (⟨_, _, rfl⟩ | hm)
      · exact h1
      · exact h2 k' r' t' hm
    · intro h
      exact ⟨h k r t (Or.inl ⟨rfl, rfl, rfl⟩), fun k' r' t' hm => h k' r' t' (Or.inr hm)⟩

theorem ndTy_record {attrs : Attrs} {o : Bool} (h : ndTy (.record attrs o) = true) :
    (attrs.map (·.1)).Nodup ∧ ∀ k r t, (k, r, t) ∈ attrs → ndTy t = true := by
  simp only [ndTy, Bool.and_eq_true, decide_eq_true_eq] at h
  exact ⟨h.2, ndAttrs_iff.mp h.1⟩

/-! ### entity-type unions -/

theorem mem_insertSortedTy_self (x : EntityType) : ∀ (l : List EntityType), x ∈ insertSortedTy x l
  | [] => by simp [insertSortedTy]
  | y :: ys => by
    simp only [insertSortedTy]
    split
    · exact List.mem_cons_self
    · split
      · rename_i h; simp only [beq_iff_eq] at h; subst h; exact List.mem_cons_self
      · exact List.mem_cons_of_mem _ (mem_insertSortedTy_self x ys)

theorem mem_insertSortedTy_of_mem (x : EntityType) {z : EntityType} : ∀ (l : List EntityType), z ∈ l → z ∈ insertSortedTy x l
  | [], h => by cases h
  | y :: ys, h => by
    simp only [insertSortedTy]
    split
    · exact List.mem_cons_of_mem _ h
    · split
      · exact h
      · rcases List.mem_cons.mp h with rfl | h
        · exact List.mem_cons_self
        · exact List.mem_cons_of_mem _ (mem_insertSortedTy_of_mem x ys h)

theorem mem_lubUnion_r {z : EntityType} : ∀ (a b : List EntityType), z ∈ b → z ∈ lubUnion a b
  | [], b, h => h
  | x :: a, b, h => by
    unfold lubUnion
    simp only [List.foldl_cons]
    exact mem_lubUnion_r a _ (mem_insertSortedTy_of_mem x b h)

theorem mem_lubUnion_l {z : EntityType} : ∀ (a b : List EntityType), z ∈ a → z ∈ lubUnion a b
  | [], b, h => by cases h
  | x :: a, b, h => by
    unfold lubUnion
    simp only [List.foldl_cons]
    rcases List.mem_cons.mp h with rfl | h
    · exact mem_lubUnion_r a _ (mem_insertSortedTy_self z b)
    · exact mem_lubUnion_l a _ h

/-! ### the rows of `Type::least_upper_bound` in permissive mode -/

inductive PLubCase : CedarType → CedarType → CedarType → Prop
  | sub_l {a b} : isSubtype .permissive a b = true → PLubCase a b b
  | sub_r {a b} : isSubtype .permissive b a = true → PLubCase a b a
  | bool {x y} : PLubCase (.bool x) (.bool y) (.bool .anyBool)
  | anySet {x y} : PLubCase (.set x) (.set y) (.set none)
  | set {e0 e1 t} : lub .permissive e0 e1 = some t → PLubCase (.set (some e0)) (.set (some e1)) (.set (some t))
  | record {a0 o0 a1 o1} :
      PLubCase (.record a0 o0) (.record a1 o1)
        (.record (lubAttrsPermissive .permissive a0 a1)
          (o0 || o1 || !(a0.all (fun a => ((lubAttrsPermissive .permissive a0 a1).map (·.1)).contains a.1) &&
            a1.all (fun a => ((lubAttrsPermissive .permissive a0 a1).map (·.1)).contains a.1))))
  | entity {l0 l1} : PLubCase (.entity l0) (.entity l1) (.entity (lubUnion l0 l1))
  | anyL {l} : PLubCase .anyEntity (.entity l) .anyEntity
  | anyR {l} : PLubCase (.entity l) .anyEntity .anyEntity

theorem plub_cases {a b c : CedarType} (h : lub .permissive a b = some c) : PLubCase a b c := by
  rw [lub.eq_def] at h
  simp only at h
  split at h
  · rename_i hs; cases h; exact .sub_l hs
  · split at h
    · rename_i hs; cases h; exact .sub_r hs
    · split at h
      · cases h; exact .bool
      · cases h; exact .anySet
      · cases h; exact .anySet
      · rename_i e0 e1 _ _
        cases hl : lub .permissive e0 e1 with
        | none => rw [hl] at h; cases h
        | some t => rw [hl] at h; cases h; exact .set hl
      · simp only [ValidationMode.isStrict, Bool.false_eq_true, if_false, Option.map_some, Option.some.injEq] at h
        subst h; exact .record
      · simp only [ValidationMode.isStrict, Bool.false_eq_true, if_false, Option.some.injEq] at h
        subst h; exact .entity
      · simp only [ValidationMode.isStrict, Bool.false_eq_true, if_false, Option.some.injEq] at h
        subst h; exact .anyL
      · simp only [ValidationMode.isStrict, Bool.false_eq_true, if_false, Option.some.injEq] at h
        subst h; exact .anyR
      · cases h

/-! ### `Attributes::permissive_least_upper_bound` -/

theorem lubAttrsPerm_mem {a1 : Attrs} : ∀ {a0 : Attrs} (k : String) (r : Bool) (t : CedarType),
    (k, r, t) ∈ lubAttrsPermissive .permissive a0 a1 →
    ∃ r0 t0 r1 t1, (k, r0, t0) ∈ a0 ∧ Attrs.find? a1 k = some (r1, t1) ∧ lub .permissive t0 t1 = some t ∧ r = (r0 && r1)
  | [], k, r, t, h => by simp [lubAttrsPermissive] at h
  | (k0, r0, t0) :: rest, k, r, t, h => by
    simp only [lubAttrsPermissive] at h
    have tail : (k, r, t) ∈ lubAttrsPermissive .permissive rest a1 →
        ∃ r0' t0' r1 t1, (k, r0', t0') ∈ (k0, r0, t0) :: rest ∧ Attrs.find? a1 k = some (r1, t1) ∧
          lub .permissive t0' t1 = some t ∧ r = (r0' && r1) := by
      intro hm
      obtain ⟨r0', t0', r1, t1, h1, h2, h3, h4⟩ := lubAttrsPerm_mem k r t hm
      exact ⟨r0', t0', r1, t1, List.mem_cons_of_mem _ h1, h2, h3, h4⟩
    cases hf : Attrs.find? a1 k0 with
    | none => rw [hf] at h; exact tail h
    | some qt =>
      obtain ⟨r1, t1⟩ := qt
      rw [hf] at h
      simp only at h
      cases hl : lub .permissive t0 t1 with
      | none => rw [hl] at h; exact tail h
      | some t' =>
        rw [hl] at h
        rcases List.mem_cons.mp h with heq | hm
        · simp only [Prod.mk.injEq] at heq
          obtain ⟨rfl, rfl, rfl⟩ := heq
          exact ⟨r0, t0, r1, t1, List.mem_cons_self, hf, hl, rfl⟩
        · exact tail hm

theorem find_of_mem_nodup : ∀ {attrs : Attrs}, (attrs.map (·.1)).Nodup → ∀ {k : String} {r : Bool} {t : CedarType},
    (k, r, t) ∈ attrs → Attrs.find? attrs k = some (r, t)
  | [], _, _, _, _, h => by cases h
  | (k0, q) :: rest, hn, k, r, t, h => by
    simp only [List.map_cons, List.nodup_cons] at hn
    rcases List.mem_cons.mp h with heq | hm
    · cases heq; simp [Attrs.find?]
    · have hne : ¬ (k0 = k) := by
        intro he; subst he
        exact hn.1 (List.mem_map.mpr ⟨_, hm, rfl⟩)
      simp only [Attrs.find?]
      rw [if_neg (by simpa using hne)]
      exact find_of_mem_nodup hn.2 hm

theorem find_some_key {attrs : Attrs} {k : String} {q : Bool × CedarType} (h : Attrs.find? attrs k = some q) :
    k ∈ attrs.map (·.1) := by
  apply Classical.byContradiction
  intro hn
  rw [← find_none_iff] at hn
  rw [hn] at h; cases h

theorem all_keys_false {a : Attrs} {keys : List String} {k : String} (hk : k ∈ a.map (·.1)) (hn : k ∉ keys) :
    a.all (fun x => keys.contains x.1) = false := by
  rw [Bool.eq_false_iff]
  intro h
  rw [List.all_eq_true] at h
  obtain ⟨x, hx, rfl⟩ := List.mem_map.mp hk
  have := h x hx
  simp only [List.contains_iff_mem] at this
  exact hn this

theorem lubAttrsPerm_key {a0 a1 : Attrs} {k : String} (h : k ∈ (lubAttrsPermissive .permissive a0 a1).map (·.1)) :
    k ∈ a0.map (·.1) ∧ k ∈ a1.map (·.1) := by
  obtain ⟨⟨k', r, t⟩, hx, rfl⟩ := List.mem_map.mp h
  obtain ⟨r0, t0, r1, t1, h1, h2, _, _⟩ := lubAttrsPerm_mem k' r t hx
  exact ⟨List.mem_map.mpr ⟨_, h1, rfl⟩, find_some_key h2⟩

/-- a record value of either argument type is a value of the permissive record bound, given what the bound's
attributes say about its fields -/
theorem inst_record_plub {kvs : List (String × Value)} {a0 a1 : Attrs} {o0 o1 : Bool}
    (h2 : ∀ k v, (k, v) ∈ kvs → (Attrs.find? a0 k = none ∧ o0 = true) ∨ (Attrs.find? a1 k = none ∧ o1 = true) ∨
      k ∈ a0.map (·.1) ∨ k ∈ a1.map (·.1))
    (h3 : ∀ k t, (k, true, t) ∈ lubAttrsPermissive .permissive a0 a1 → ∃ v, (k, v) ∈ kvs)
    (h1 : ∀ k v, (k, v) ∈ kvs → ∀ r t, Attrs.find? (lubAttrsPermissive .permissive a0 a1) k = some (r, t) → InstanceOfType v t) :
    InstanceOfType (.record kvs) (.record (lubAttrsPermissive .permissive a0 a1)
      (o0 || o1 || !(a0.all (fun a => ((lubAttrsPermissive .permissive a0 a1).map (·.1)).contains a.1) &&
        a1.all (fun a => ((lubAttrsPermissive .permissive a0 a1).map (·.1)).contains a.1)))) := by
  refine .record kvs _ _ h1 ?_ h3
  intro k v hkv hf
  rw [find_none_iff] at hf
  rcases h2 k v hkv with ⟨_, ho⟩ | ⟨_, ho⟩ | hk | hk
  · simp [ho]
  · simp [ho]
  · rw [all_keys_false hk hf]; simp
  · rw [all_keys_false hk hf]; simp

/-! ### `instance_of_lub` -/

theorem plub_inst_l {v : Value} {a : CedarType} (hi : InstanceOfType v a) :
    ∀ b c, ndTy a = true → lub .permissive a b = some c → InstanceOfType v c := by
  induction hi with
  | anyBool x =>
    intro b c _ h; cases plub_cases h
    case sub_l hs => exact isSubtype_inst (.anyBool x) _ hs
    case sub_r hs => exact .anyBool x
    case bool => exact .anyBool x
  | tt =>
    intro b c _ h; cases plub_cases h
    case sub_l hs => exact isSubtype_inst .tt _ hs
    case sub_r hs => exact .tt
    case bool => exact .anyBool _
  | ff =>
    intro b c _ h; cases plub_cases h
    case sub_l hs => exact isSubtype_inst .ff _ hs
    case sub_r hs => exact .ff
    case bool => exact .anyBool _
  | long i =>
    intro b c _ h; cases plub_cases h
    case sub_l hs => exact isSubtype_inst (.long i) _ hs
    case sub_r hs => exact .long i
  | string i =>
    intro b c _ h; cases plub_cases h
    case sub_l hs => exact isSubtype_inst (.string i) _ hs
    case sub_r hs => exact .string i
  | entity u l hm =>
    intro b c _ h; cases plub_cases h
    case sub_l hs => exact isSubtype_inst (.entity u l hm) _ hs
    case sub_r hs => exact .entity u l hm
    case entity l1 => exact .entity u _ (mem_lubUnion_l _ _ hm)
    case anyR => exact .anyEntity u
  | anyEntity u =>
    intro b c _ h; cases plub_cases h
    case sub_l hs => exact isSubtype_inst (.anyEntity u) _ hs
    case sub_r hs => exact .anyEntity u
    case anyL => exact .anyEntity u
  | ext x =>
    intro b c _ h; cases plub_cases h
    case sub_l hs => exact isSubtype_inst (.ext x) _ hs
    case sub_r hs => exact .ext x
  | anySet vs =>
    intro b c _ h; cases plub_cases h
    case sub_l hs => exact isSubtype_inst (.anySet vs) _ hs
    case sub_r hs => exact .anySet vs
    case anySet => exact .anySet vs
  | set vs t hall ih =>
    intro b c hnd h; cases plub_cases h
    case sub_l hs => exact isSubtype_inst (.set vs t hall) _ hs
    case sub_r hs => exact .set vs t hall
    case anySet => exact .anySet vs
    case set hl => exact .set vs _ (fun v hv => ih v hv _ _ (by simpa [ndTy] using hnd) hl)
  | record kvs attrs o h1 h2 h3 ih =>
    intro b c hnd h; cases plub_cases h
    case sub_l hs => exact isSubtype_inst (.record kvs attrs o h1 h2 h3) _ hs
    case sub_r hs => exact .record kvs attrs o h1 h2 h3
    case record a1 o1 =>
      obtain ⟨hnodup, hndt⟩ := ndTy_record hnd
      refine inst_record_plub ?_ ?_ ?_
      · intro k v hkv
        cases hf : Attrs.find? attrs k with
        | none => exact Or.inl ⟨rfl, h2 k v hkv hf⟩
        | some q => exact Or.inr (Or.inr (Or.inl (find_some_key hf)))
      · intro k t hm
        obtain ⟨r0, t0, r1, t1, hm0, _, _, hr⟩ := lubAttrsPerm_mem k true t hm
        have : r0 = true := by
          cases r0
          · exact absurd hr (by simp)
          · rfl
        subst this
        exact h3 k t0 hm0
      · intro k v hkv r t hf
        obtain ⟨r0, t0, r1, t1, hm0, _, hlt, _⟩ := lubAttrsPerm_mem k r t (find_mem hf)
        exact ih k v hkv r0 t0 (find_of_mem_nodup hnodup hm0) t1 t (hndt k r0 t0 hm0) hlt

theorem plub_inst_r {v : Value} {b : CedarType} (hi : InstanceOfType v b) :
    ∀ a c, lub .permissive a b = some c → InstanceOfType v c := by
  induction hi with
  | anyBool x =>
    intro a c h; cases plub_cases h
    case sub_r hs => exact isSubtype_inst (.anyBool x) _ hs
    case sub_l hs => exact .anyBool x
    case bool => exact .anyBool x
  | tt =>
    intro a c h; cases plub_cases h
    case sub_r hs => exact isSubtype_inst .tt _ hs
    case sub_l hs => exact .tt
    case bool => exact .anyBool _
  | ff =>
    intro a c h; cases plub_cases h
    case sub_r hs => exact isSubtype_inst .ff _ hs
    case sub_l hs => exact .ff
    case bool => exact .anyBool _
  | long i =>
    intro a c h; cases plub_cases h
    case sub_r hs => exact isSubtype_inst (.long i) _ hs
    case sub_l hs => exact .long i
  | string i =>
    intro a c h; cases plub_cases h
    case sub_r hs => exact isSubtype_inst (.string i) _ hs
    case sub_l hs => exact .string i
  | entity u l hm =>
    intro a c h; cases plub_cases h
    case sub_r hs => exact isSubtype_inst (.entity u l hm) _ hs
    case sub_l hs => exact .entity u l hm
    case entity l0 => exact .entity u _ (mem_lubUnion_r _ _ hm)
    case anyL => exact .anyEntity u
  | anyEntity u =>
    intro a c h; cases plub_cases h
    case sub_r hs => exact isSubtype_inst (.anyEntity u) _ hs
    case sub_l hs => exact .anyEntity u
    case anyR => exact .anyEntity u
  | ext x =>
    intro a c h; cases plub_cases h
    case sub_r hs => exact isSubtype_inst (.ext x) _ hs
    case sub_l hs => exact .ext x
  | anySet vs =>
    intro a c h; cases plub_cases h
    case sub_r hs => exact isSubtype_inst (.anySet vs) _ hs
    case sub_l hs => exact .anySet vs
    case anySet => exact .anySet vs
  | set vs t hall ih =>
    intro a c h; cases plub_cases h
    case sub_r hs => exact isSubtype_inst (.set vs t hall) _ hs
    case sub_l hs => exact .set vs t hall
    case anySet => exact .anySet vs
    case set hl => exact .set vs _ (fun v hv => ih v hv _ _ hl)
  | record kvs attrs o h1 h2 h3 ih =>
    intro a c h; cases plub_cases h
    case sub_r hs => exact isSubtype_inst (.record kvs attrs o h1 h2 h3) _ hs
    case sub_l hs => exact .record kvs attrs o h1 h2 h3
    case record a0 o0 =>
      refine inst_record_plub ?_ ?_ ?_
      · intro k v hkv
        cases hf : Attrs.find? attrs k with
        | none => exact Or.inr (Or.inl ⟨rfl, h2 k v hkv hf⟩)
        | some q => exact Or.inr (Or.inr (Or.inr (find_some_key hf)))
      · intro k t hm
        obtain ⟨r0, t0, r1, t1, _, hf1, _, hr⟩ := lubAttrsPerm_mem k true t hm
        have : r1 = true := by
          cases r1
          · exact absurd hr (by simp)
          · rfl
        subst this
        exact h3 k t1 (find_mem hf1)
      · intro k v hkv r t hf
        obtain ⟨r0, t0, r1, t1, _, hf1, hlt, _⟩ := lubAttrsPerm_mem k r t (find_mem hf)
        exact ih k v hkv r1 t1 hf1 t0 t hlt

/-- `instance_of_lub` (both modes): a value of the left type is a value of the least upper bound -/
theorem instance_of_lub_l {m : ValidationMode} {v : Value} {τ1 τ2 τ : CedarType} (hnd : ndTy τ1 = true)
    (h : lub m τ1 τ2 = some τ) (hi : InstanceOfType v τ1) : InstanceOfType v τ := by
  cases m with
  | strict => exact lub_inst_l hi _ _ h
  | permissive => exact plub_inst_l hi _ _ hnd h

/-- `instance_of_lub` (both modes): a value of the right type is a value of the least upper bound -/
theorem instance_of_lub_r {m : ValidationMode} {v : Value} {τ1 τ2 τ : CedarType}
    (h : lub m τ1 τ2 = some τ) (hi : InstanceOfType v τ2) : InstanceOfType v τ := by
  cases m with
  | strict => exact lub_inst_r hi _ _ h
  | permissive => exact plub_inst_r hi _ _ h

/-! ### distinct record keys are preserved; `reduce_to_least_upper_bound` -/

theorem lubAttrsPerm_sublist {a1 : Attrs} : ∀ (a0 : Attrs),
    ((lubAttrsPermissive .permissive a0 a1).map (·.1)).Sublist (a0.map (·.1))
  | [] => by simp [lubAttrsPermissive]
  | (k0, r0, t0) :: rest => by
    simp only [lubAttrsPermissive]
    have ih := lubAttrsPerm_sublist (a1 := a1) rest
    cases hf : Attrs.find? a1 k0 with
    | none => exact List.Sublist.cons _ ih
    | some qt =>
      obtain ⟨r1, t1⟩ := qt
      simp only
      cases hl : lub .permissive t0 t1 with
      | none => exact List.Sublist.cons _ ih
      | some t' => exact List.Sublist.cons_cons _ ih

theorem plub_nd_aux : ∀ (n : Nat) (a b c : CedarType), sizeOf a < n → lub .permissive a b = some c →
    ndTy a = true → ndTy b = true → ndTy c = true := by
  intro n
  induction n with
  | zero => intro a b c hn; omega
  | succ n ih =>
    intro a b c hn h ha hb
    cases plub_cases h
    case sub_l hs => exact hb
    case sub_r hs => exact ha
    case bool => rfl
    case anySet => rfl
    case entity => rfl
    case anyL => rfl
    case anyR => rfl
    case set e0 e1 t hl =>
      simp only [ndTy] at ha hb ⊢
      refine ih e0 e1 t ?_ hl ha hb
      simp at hn; omega
    case record a0 o0 a1 o1 =>
      obtain ⟨hn0, ht0⟩ := ndTy_record ha
      obtain ⟨_, ht1⟩ := ndTy_record hb
      simp only [ndTy, Bool.and_eq_true, decide_eq_true_eq]
      refine ⟨ndAttrs_iff.mpr ?_, List.Nodup.sublist (lubAttrsPerm_sublist a0) hn0⟩
      intro k r t hm
      obtain ⟨r0, t0, r1, t1, hm0, hf1, hlt, _⟩ := lubAttrsPerm_mem k r t hm
      refine ih t0 t1 t ?_ hlt (ht0 k r0 t0 hm0) (ht1 k r1 t1 (find_mem hf1))
      have := List.sizeOf_lt_of_mem hm0
      simp at this hn
      omega

/-- the permissive least upper bound of two types with distinct record keys has distinct record keys -/
theorem plub_nd {a b c : CedarType} (h : lub .permissive a b = some c) (ha : ndTy a = true) (hb : ndTy b = true) :
    ndTy c = true :=
  plub_nd_aux (sizeOf a + 1) a b c (Nat.lt_succ_self _) h ha hb

theorem foldl_plub_none (ts : List CedarType) :
    ts.foldl (fun acc t => acc.bind (fun a => lub .permissive a t)) none = none := by
  induction ts with
  | nil => rfl
  | cons t ts ih => simpa using ih

theorem foldl_plub_spec : ∀ (ts : List CedarType) (acc τ : CedarType),
    ts.foldl (fun acc t => acc.bind (fun a => lub .permissive a t)) (some acc) = some τ →
    ndTy acc = true → (∀ t, t ∈ ts → ndTy t = true) →
    (∀ v, InstanceOfType v acc → InstanceOfType v τ) ∧ (∀ t, t ∈ ts → ∀ v, InstanceOfType v t → InstanceOfType v τ) ∧
    ndTy τ = true
  | [], acc, τ, h, ha, _ => by
    simp only [List.foldl_nil, Option.some.injEq] at h
    subst h
    exact ⟨fun v hv => hv, fun t ht => (by cases ht), ha⟩
  | t :: ts, acc, τ, h, ha, hall => by
    simp only [List.foldl_cons, Option.bind_some] at h
    cases hl : lub .permissive acc t with
    | none => rw [hl, foldl_plub_none] at h; cases h
    | some acc' =>
      rw [hl] at h
      obtain ⟨h1, h2, h3⟩ := foldl_plub_spec ts acc' τ h (plub_nd hl ha (hall t List.mem_cons_self))
        (fun t' ht' => hall t' (List.mem_cons_of_mem _ ht'))
      refine ⟨fun v hv => h1 v (plub_inst_l hv _ _ ha hl), ?_, h3⟩
      intro t' ht' v hv
      rcases List.mem_cons.mp ht' with rfl | ht'
      · exact h1 v (plub_inst_r hv _ _ hl)
      · exact h2 t' ht' v hv

/-- `lubAll` in permissive mode (set literals — also the empty one, typed `Set<Never>` —, tag types of an entity-type
union): every element type is below the result -/
theorem lubAll_perm_spec {ts : List CedarType} {τ : CedarType} (h : lubAll .permissive ts = some τ)
    (hall : ∀ t, t ∈ ts → ndTy t = true) :
    (∀ t, t ∈ ts → ∀ v, InstanceOfType v t → InstanceOfType v τ) ∧ ndTy τ = true := by
  unfold lubAll at h
  exact (foldl_plub_spec ts .never τ h rfl hall).2

end Cedar.C03
