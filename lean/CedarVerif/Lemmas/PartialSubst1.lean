import CedarVerif.Lemmas.PartialExt
/-
C13, substitution form of `pinterp_sound` (the statement `evaluate ∘ substUnk`): definitions — the larger fragment
`Frag2 σ` (unknown nodes in the expression; `.`/`has` on anything, in particular on record constructors; every
extension function except `unknown`), agreement of evaluation results, canonical values — and the evaluation-side
lemmas: `Value.toExpr` evaluates back, canonical values are preserved by the operators, congruence of `evaluate`
under agreement, projectable expressions never fail.
-/
namespace Cedar
namespace PS

/-- equal values, or both errors (error classes may differ) -/
def Agree (a y : Result Value) : Prop :=
  (∃ v, a = .ok v ∧ y = .ok v) ∨ (∃ c c', a = .error c ∧ y = .error c')

@[simp] theorem agree_ok_ok (v w : Value) : Agree (.ok v) (.ok w) ↔ v = w := by
  simp [Agree]; constructor <;> intro h <;> simp [h]
@[simp] theorem agree_ok_error (v : Value) (c : ErrClass) : Agree (.ok v) (.error c) ↔ False := by simp [Agree]
@[simp] theorem agree_error_ok (v : Value) (c : ErrClass) : Agree (.error c) (.ok v) ↔ False := by simp [Agree]
@[simp] theorem agree_error_error (c c' : ErrClass) : Agree (.error c) (.error c') ↔ True := by simp [Agree]

theorem Agree.refl (a : Result Value) : Agree a a := by cases a <;> simp

theorem Agree.trans {a b c : Result Value} (h1 : Agree a b) (h2 : Agree b c) : Agree a c := by
  rcases h1 with ⟨v, rfl, rfl⟩ | ⟨c1, c2, rfl, rfl⟩
  · exact h2
  · cases c with
    | ok w => simp at h2
    | error c3 => simp

theorem Agree.error_right {a y : Result Value} (h : Agree a y) {c : ErrClass} (ha : a = .error c) : ∃ c', y = .error c' := by
  subst ha
  cases y with
  | ok v => simp at h
  | error c' => exact ⟨c', rfl⟩

/-- the first-pass mapper is part of the substitution (`[]` for the first pass, σ itself for the second) -/
def MapLE (m0 σ : Mapper) : Prop := ∀ k v, lookupKV m0 k = some v → lookupKV σ k = some v

theorem MapLE.refl (σ : Mapper) : MapLE σ σ := fun _ _ h => h
theorem MapLE.nil (σ : Mapper) : MapLE [] σ := by intro k v h; simp [lookupKV] at h

/-- the substitution defines the unknown, with a canonical value of the annotated type -/
def UnkOK (σ : Mapper) (name : String) (ty : Option TyAnn) : Prop :=
  ∃ v, lookupKV σ name = some v ∧ v.Canon ∧ ∀ t, ty = some t → v.typeOf = t

/-- the fragment of the substitution-form theorem: everything except calls of the `unknown` extension function; unknown
    nodes must be defined by σ (with the annotated type); record constructors have pairwise distinct keys (what the
    parser and `Expr::record` guarantee) -/
inductive Frag2 (σ : Mapper) : Expr → Prop
  | lit (p : Prim) : Frag2 σ (.lit p)
  | var (v : Var) : Frag2 σ (.var v)
  | slot (s : SlotId) : Frag2 σ (.slot s)
  | unknown (name : String) (ty : Option TyAnn) : UnkOK σ name ty → Frag2 σ (.unknown name ty)
  | ite {c t e : Expr} : Frag2 σ c → Frag2 σ t → Frag2 σ e → Frag2 σ (.ite c t e)
  | and {a b : Expr} : Frag2 σ a → Frag2 σ b → Frag2 σ (.and a b)
  | or {a b : Expr} : Frag2 σ a → Frag2 σ b → Frag2 σ (.or a b)
  | unaryApp (op : UnaryOp) {a : Expr} : Frag2 σ a → Frag2 σ (.unaryApp op a)
  | binaryApp (op : BinaryOp) {a b : Expr} : Frag2 σ a → Frag2 σ b → Frag2 σ (.binaryApp op a b)
  | getAttr {e : Expr} (a : String) : Frag2 σ e → Frag2 σ (.getAttr e a)
  | hasAttr {e : Expr} (a : String) : Frag2 σ e → Frag2 σ (.hasAttr e a)
  | like {e : Expr} (p : Pattern) : Frag2 σ e → Frag2 σ (.like e p)
  | is {e : Expr} (ty : EntityType) : Frag2 σ e → Frag2 σ (.is e ty)
  | set {xs : List Expr} : (∀ x, x ∈ xs → Frag2 σ x) → Frag2 σ (.set xs)
  | record {kvs : List (String × Expr)} : (kvs.map Prod.fst).Nodup → (∀ kv, kv ∈ kvs → Frag2 σ kv.2) → Frag2 σ (.record kvs)
  | call (fn : String) {args : List Expr} : fn ≠ "unknown" → (∀ x, x ∈ args → Frag2 σ x) → Frag2 σ (.call fn args)

/-- every attribute and tag value of the store is canonical -/
def StoreCanon (es : Entities) : Prop :=
  ∀ u d, es.find? u = some d → Value.CanonKVs d.attrs ∧ Value.CanonKVs d.tags

/-! ### canonical values -/

theorem canonList_iff (vs : List Value) : Value.CanonList vs ↔ ∀ v, v ∈ vs → v.Canon := by
  induction vs with
  | nil => simp [Value.CanonList]
  | cons v vs ih => simp [Value.CanonList, ih]

theorem canonKVs_iff (kvs : List (String × Value)) : Value.CanonKVs kvs ↔ ∀ p, p ∈ kvs → p.2.Canon := by
  induction kvs with
  | nil => simp [Value.CanonKVs]
  | cons p kvs ih => obtain ⟨k, v⟩ := p; simp [Value.CanonKVs, ih]

theorem mem_of_lookupKV {α} {kvs : List (String × α)} {a : String} {v : α} (h : lookupKV kvs a = some v) :
    ∃ k, (k, v) ∈ kvs := by
  induction kvs with
  | nil => simp [lookupKV] at h
  | cons p kvs ih =>
    obtain ⟨k, w⟩ := p
    simp only [lookupKV] at h
    split at h
    · cases h; exact ⟨k, List.mem_cons_self ..⟩
    · obtain ⟨k', hk⟩ := ih h; exact ⟨k', List.mem_cons_of_mem _ hk⟩

theorem canonKVs_lookup {kvs : List (String × Value)} (h : Value.CanonKVs kvs) {a : String} {v : Value}
    (hl : lookupKV kvs a = some v) : v.Canon := by
  obtain ⟨k, hk⟩ := mem_of_lookupKV hl
  exact (canonKVs_iff kvs).mp h (k, v) hk

theorem canon_bool (b : Bool) : (Value.prim (.bool b)).Canon := trivial
theorem canon_prim (p : Prim) : (Value.prim p).Canon := trivial

theorem mkSet_canon {vs : List Value} (h : ∀ v, v ∈ vs → v.Canon) : (Value.set (Value.mkSet vs)).Canon := by
  simp only [Value.Canon]
  exact ⟨mkSet_idem vs, (canonList_iff _).mpr (fun v hv => h v (mem_mkSet hv))⟩

theorem record_canon (kvs : List (String × Value)) (h : ∀ p, p ∈ kvs → p.2.Canon) :
    (Value.record (kvs.foldl (fun acc kv => insertKV kv.1 kv.2 acc) [])).Canon := by
  obtain ⟨hs, hm⟩ := foldl_insertKV_props kvs [] (by simp [CJson.Sorted])
  simp only [Value.Canon]
  refine ⟨hs, (canonKVs_iff _).mpr ?_⟩
  intro p hp
  rcases hm p hp with h' | h'
  · cases h'
  · exact h p h'

theorem applyUnary_canon {op : UnaryOp} {v w : Value} (h : applyUnary op v = .ok w) : w.Canon := by
  cases op <;> simp only [applyUnary, bind, Except.bind] at h
  · cases hb : v.asBool <;> simp [hb] at h; subst h; trivial
  · cases hb : v.asInt <;> simp [hb, intOrErr] at h
    split at h
    · cases h; trivial
    · cases h
  · cases hb : v.asSet <;> simp [hb] at h; subst h; trivial

theorem applyCmp_canon {s : Bool} {v1 v2 w : Value} (h : applyCmp s v1 v2 = .ok w) : w.Canon := by
  cases s <;> simp only [applyCmp] at h <;> split at h <;> first | (cases h; trivial) | cases h

theorem arith_canon {f : Int → Int → Int} {v1 v2 w : Value}
    (h : (do let a ← v1.asInt; let b ← v2.asInt; intOrErr (f a b)) = Except.ok w) : w.Canon := by
  simp only [bind, Except.bind] at h
  cases h1 : v1.asInt <;> simp [h1] at h
  cases h2 : v2.asInt <;> simp [h2, intOrErr] at h
  split at h
  · cases h; trivial
  · cases h

theorem applyBinary_canon {es : Entities} (hstore : StoreCanon es) {op : BinaryOp} {v1 v2 w : Value}
    (h : applyBinary es op v1 v2 = .ok w) : w.Canon := by
  cases op <;> simp only [applyBinary] at h
  · cases h; trivial
  · exact applyCmp_canon h
  · exact applyCmp_canon h
  · exact arith_canon h
  · exact arith_canon h
  · exact arith_canon h
  · simp only [bind, Except.bind] at h
    cases h1 : v1.asEntity <;> simp only [h1] at h
    · cases h
    · split at h
      · cases h; trivial
      · split at h
        · cases h
        · cases h; trivial
      · cases h
  · simp only [bind, Except.bind] at h
    cases h1 : v1.asSet <;> simp [h1] at h; subst h; trivial
  · simp only [bind, Except.bind] at h
    cases h1 : v1.asSet <;> simp [h1] at h
    cases h2 : v2.asSet <;> simp [h2] at h; subst h; trivial
  · simp only [bind, Except.bind] at h
    cases h1 : v1.asSet <;> simp [h1] at h
    cases h2 : v2.asSet <;> simp [h2] at h; subst h; trivial
  · simp only [bind, Except.bind] at h
    cases h1 : v1.asEntity <;> simp only [h1] at h
    · cases h
    · cases h2 : v2.asString <;> simp only [h2] at h
      · cases h
      · rename_i u t
        cases hf : es.find? u <;> simp only [hf] at h
        · cases h
        · rename_i d
          cases hl : lookupKV d.tags t <;> simp only [hl] at h
          · cases h
          · cases h; exact canonKVs_lookup (hstore u d hf).2 hl
  · simp only [bind, Except.bind] at h
    cases h1 : v1.asEntity <;> simp only [h1] at h
    · cases h
    · cases h2 : v2.asString <;> simp only [h2] at h
      · cases h
      · split at h <;> (cases h; trivial)

/-! ### `Value.toExpr` has no unknowns and evaluates back -/

mutual
theorem substUnk_toExpr (σ : Mapper) : ∀ v : Value, v.toExpr.substUnk σ = v.toExpr
  | .prim p => by simp [Value.toExpr, Expr.substUnk]
  | .ext x => by
    cases x with
    | decimal d => simp [Value.toExpr, Ext.toExpr, Expr.substUnk, Expr.substUnkList]
    | duration d => simp [Value.toExpr, Ext.toExpr, Expr.substUnk, Expr.substUnkList]
    | datetime d => simp [Value.toExpr, Ext.toExpr, Expr.substUnk, Expr.substUnkList]
    | ipaddr v6 a p => cases v6 <;> simp [Value.toExpr, Ext.toExpr, Expr.substUnk, Expr.substUnkList]
  | .set vs => by simp [Value.toExpr, Expr.substUnk, substUnk_toExprList σ vs]
  | .record kvs => by simp [Value.toExpr, Expr.substUnk, substUnk_toExprKVs σ kvs]
theorem substUnk_toExprList (σ : Mapper) : ∀ vs : List Value, Expr.substUnkList σ (Value.toExprList vs) = Value.toExprList vs
  | [] => by simp [Value.toExprList, Expr.substUnkList]
  | v :: vs => by simp [Value.toExprList, Expr.substUnkList, substUnk_toExpr σ v, substUnk_toExprList σ vs]
theorem substUnk_toExprKVs (σ : Mapper) : ∀ kvs : List (String × Value),
    Expr.substUnkKVs σ (Value.toExprKVs kvs) = Value.toExprKVs kvs
  | [] => by simp [Value.toExprKVs, Expr.substUnkKVs]
  | (k, v) :: kvs => by simp [Value.toExprKVs, Expr.substUnkKVs, substUnk_toExpr σ v, substUnk_toExprKVs σ kvs]
end

section
variable (req : Request) (es : Entities) (env : SlotEnv)

theorem evaluate_call1 (fn s : String) :
    evaluate req es env (.call fn [.lit (.string s)]) = callExt fn [.prim (.string s)] := by
  simp [evaluate, evaluateList]

theorem evaluate_ext (x : Ext) (h : PExt.InRange x) : evaluate req es env (Value.toExpr (.ext x)) = .ok (.ext x) := by
  cases x with
  | decimal d => rw [PExt.toExpr_decimal, evaluate_call1]; exact CJson.callExt_decimal d h
  | duration ms => rw [PExt.toExpr_duration, evaluate_call1]; exact CJson.callExt_duration ms h
  | ipaddr v6 a p =>
    cases v6 with
    | false => rw [PExt.toExpr_ip_v4, evaluate_call1]; exact PExt.callExt_ip (CJson.parse_renderIp_v4 a p h.1 h.2)
    | true => rw [PExt.toExpr_ip_v6, evaluate_call1]; exact PExt.callExt_ip (PExt.parse_v6Full a p h.1 h.2)
  | datetime ms =>
    rw [PExt.toExpr_datetime]
    have hoff : callExt "offset" [.ext (.datetime 0), .ext (.duration ms)] = .ok (.ext (.datetime ms)) := by
      simp [callExt, extFnArity, callExt2, Value.asDatetime, Value.asDuration, Ext.Datetime.offset, CJson.checkedI64_of h,
        optToExt, bind, Except.bind]
    simp [evaluate, evaluateList, CJson.callExt_epoch, CJson.callExt_duration ms h, hoff]

mutual
theorem evaluate_toExpr : ∀ v : Value, v.Canon → evaluate req es env v.toExpr = .ok v
  | .prim p, _ => by simp [Value.toExpr, evaluate]
  | .ext x, h => evaluate_ext req es env x h
  | .set vs, h => by
    simp only [Value.Canon] at h
    simp only [Value.toExpr, evaluate, evaluate_toExprList vs h.2, h.1]
  | .record kvs, h => by
    simp only [Value.Canon] at h
    have := CJson.foldl_insertKV_sorted kvs [] (by simpa using h.1)
    simp only [List.nil_append] at this
    simp only [Value.toExpr, evaluate, evaluate_toExprKVs kvs h.2, this]
theorem evaluate_toExprList : ∀ vs : List Value, Value.CanonList vs → evaluateList req es env (Value.toExprList vs) = .ok vs
  | [], _ => by simp [Value.toExprList, evaluateList]
  | v :: vs, h => by
    simp only [Value.CanonList] at h
    simp only [Value.toExprList, evaluateList, evaluate_toExpr v h.1, evaluate_toExprList vs h.2]
theorem evaluate_toExprKVs : ∀ kvs : List (String × Value), Value.CanonKVs kvs →
    evaluateKVs req es env (Value.toExprKVs kvs) = .ok kvs
  | [], _ => by simp [Value.toExprKVs, evaluateKVs]
  | (k, v) :: kvs, h => by
    simp only [Value.CanonKVs] at h
    simp only [Value.toExprKVs, evaluateKVs, evaluate_toExpr v h.1, evaluate_toExprKVs kvs h.2]
end

end

end PS
end Cedar
