import CedarVerif.Lemmas.JsonTyped
/-
C10, schema-directed parsing: the fully explicit document is one of the `Form`s; every `Form` document is
duplicate-free; and the value-level statement: under a closed type every document of a conforming value parses
(schema-directed) to the value the explicit document parses to without a schema.
-/
set_option linter.unusedSimpArgs false
namespace Cedar.C10
open Cedar Cedar.CJson

theorem json_size_pos (j : Json) : 1 ≤ j.size := by
  cases j <;> simp [Json.size] <;> omega

/-! ### the explicit document is a `Form` -/

mutual
theorem form_explicit : ∀ (v : Value) (τ : Option SchemaType) (c : CJ),
    fromValueWith canonRepr v = .ok c → Form τ v c.toJson
  | .prim p, τ, c, h => by
    simp only [fromValueWith, Except.ok.injEq] at h
    subst h
    cases p with
    | entityUID u => exact .entExplicit τ u
    | bool b => exact .lit τ _ (by intro u h; cases h)
    | int i => exact .lit τ _ (by intro u h; cases h)
    | string s => exact .lit τ _ (by intro u h; cases h)
  | .ext x, τ, c, h => by
    exact .extExplicit τ x _ (by simp [toJson, toJsonWith, h])
  | .set vs, τ, c, h => by
    simp only [fromValueWith, bind_ok] at h
    obtain ⟨cs, hcs, hc⟩ := h
    cases hc
    simp only [CJ.toJson]
    exact .set τ vs _ (form_explicitList vs _ cs hcs)
  | .record kvs, τ, c, h => by
    simp only [fromValueWith] at h
    split at h
    · cases h
    · simp only [bind_ok] at h
      obtain ⟨cs, hcs, hc⟩ := h
      cases hc
      simp only [CJ.toJson]
      exact .record τ kvs _ (form_explicitKVs kvs _ cs hcs)
theorem form_explicitList : ∀ (vs : List Value) (τ : Option SchemaType) (cs : List CJ),
    fromValueListWith canonRepr vs = .ok cs → FormList τ vs (CJ.toJsonList cs)
  | [], τ, cs, h => by
    simp only [fromValueListWith, Except.ok.injEq] at h
    subst h
    exact .nil τ
  | v :: vs, τ, cs, h => by
    simp only [fromValueListWith, bind_ok] at h
    obtain ⟨c, hc, cs', hcs', hh⟩ := h
    cases hh
    simp only [CJ.toJsonList]
    exact .cons τ v _ vs _ (form_explicit v τ c hc) (form_explicitList vs τ cs' hcs')
theorem form_explicitKVs : ∀ (kvs : List (String × Value)) (attrs : List (String × Bool × SchemaType))
    (cs : List (String × CJ)), fromValueKVsWith canonRepr kvs = .ok cs → FormKVs attrs kvs (CJ.toJsonKVs cs)
  | [], attrs, cs, h => by
    simp only [fromValueKVsWith, Except.ok.injEq] at h
    subst h
    exact .nil attrs
  | (k, v) :: kvs, attrs, cs, h => by
    simp only [fromValueKVsWith, bind_ok] at h
    obtain ⟨c, hc, cs', hcs', hh⟩ := h
    cases hh
    simp only [CJ.toJsonKVs]
    exact .cons attrs k v _ kvs _ (form_explicit v _ c hc) (form_explicitKVs kvs attrs cs' hcs')
end

/-! ### `Form` documents bind no key twice -/

theorem noDup_ext_forms (x : Ext) (τ : Option SchemaType) (j : Json) (h : Form τ (.ext x) j) : noDupKeys j = true := by
  cases h with
  | extExplicit _ _ _ h =>
    cases x <;> simp only [toJson, toJsonWith, fromValue_ext, CJ.toJson, CJ.toJsonList, Except.ok.injEq] at h <;> subst h <;>
      simp [noDupKeys, noDupKeysKVs, noDupKeysList, hasDup]
  | extImplicit _ _ _ h =>
    cases x <;> simp only [toJson, toJsonWith, fromValue_ext, CJ.toJson, CJ.toJsonList, Except.ok.injEq, Json.obj.injEq,
      List.cons.injEq, Prod.mk.injEq, true_and, and_true] at h <;> subst h <;>
      simp [noDupKeys, noDupKeysKVs, noDupKeysList, hasDup]
  | extBare => rfl

mutual
theorem noDup_form : ∀ (v : Value) (τ : Option SchemaType) (j : Json), Form τ v j → WF v → noDupKeys j = true
  | .prim p, τ, j, h, _ => by
    cases h with
    | lit _ _ _ => cases p <;> simp [CJ.ofPrim, CJ.toJson, noDupKeys, noDupKeysKVs, hasDup]
    | entExplicit => simp [CJ.ofPrim, CJ.toJson, noDupKeys, noDupKeysKVs, hasDup]
    | entImplicit => simp [uidJson, noDupKeys, noDupKeysKVs, hasDup]
  | .ext x, τ, j, h, _ => noDup_ext_forms x τ j h
  | .set vs, τ, j, h, hwf => by
    cases h with
    | set _ _ js hl =>
      simp only [WF] at hwf
      simp only [noDupKeys]
      exact noDup_formList vs _ js hl hwf
  | .record kvs, τ, j, h, hwf => by
    cases h with
    | record _ _ js hl =>
      simp only [WF] at hwf
      simp only [noDupKeys, Bool.and_eq_true, Bool.not_eq_eq_eq_not, Bool.not_true]
      refine ⟨noDup_formKVs kvs _ js hl hwf.1, ?_⟩
      rw [formKVs_keys hl]
      exact hasDup_sorted _ hwf.2
theorem noDup_formList : ∀ (vs : List Value) (τ : Option SchemaType) (js : List Json),
    FormList τ vs js → WFList vs → noDupKeysList js = true
  | [], τ, js, h, _ => by cases h; rfl
  | v :: vs, τ, js, h, hwf => by
    cases h with
    | cons _ _ j _ js' hf hfl =>
      simp only [WFList] at hwf
      simp only [noDupKeysList, Bool.and_eq_true]
      exact ⟨noDup_form v τ j hf hwf.1, noDup_formList vs τ js' hfl hwf.2⟩
theorem noDup_formKVs : ∀ (kvs : List (String × Value)) (attrs : List (String × Bool × SchemaType))
    (js : List (String × Json)), FormKVs attrs kvs js → WFKVs kvs → noDupKeysKVs js = true
  | [], attrs, js, h, _ => by cases h; rfl
  | (k, v) :: kvs, attrs, js, h, hwf => by
    cases h with
    | cons _ _ _ j _ js' hf hfl =>
      simp only [WFKVs] at hwf
      simp only [noDupKeysKVs, Bool.and_eq_true]
      exact ⟨noDup_form v _ j hf hwf.1, noDup_formKVs kvs attrs js' hfl hwf.2⟩
end

/-! ### the value-level statement -/

/-- For a well-formed, serialisable instance `v` of a closed type `τ` whose extension leaves round trip: there is
    one restricted expression `e` (the `into_expr` of the `CedarValueJson` of `v`) and one value `v' == v` such that
    *every* document of `v` parses schema-directed to `e` and evaluates to `v'`, and the fully explicit document
    parses to `e` / `v'` without a schema as well. -/
theorem typed_forms_agree (τ : SchemaType) (v : Value) (hinst : instOf v τ = true) (hcl : ClosedType τ) (hwf : WF v)
    (hres : hasReserved v = false) (hext : AllExt (LeafOK canonRepr) v) :
    ∃ (jx : Json) (e : Expr) (v' : Value), toJson v = .ok jx ∧ Value.beq v v' = true ∧
      exprOfJson jx = .ok e ∧ ofJson jx = .ok v' ∧ Form (some τ) v jx ∧
      ∀ j, Form (some τ) v j → exprOfJsonTyped (some τ) j = .ok e ∧ ofJsonTyped τ j = .ok v' := by
  obtain ⟨c, hc⟩ := (refuse_value v).2 hres
  obtain ⟨h1, h2, h3, e, h4, v', h5, h6⟩ := rt_value canonRepr v c hwf hext hc
  simp only [ev] at h5
  have hx : exprOfJson c.toJson = .ok e := by
    simp [exprOfJson, CJ.ofJson, h1, h2, h3, h4, bind, Except.bind]
  refine ⟨c.toJson, e, v', by simp [toJson, toJsonWith, hc], h6, hx, ?_, form_explicit v _ c hc, ?_⟩
  · simp [ofJson, hx, evalR, h5, bind, Except.bind]
  · intro j hform
    have hnd := noDup_form v _ j hform hwf
    have hsz := json_size_pos j
    have ht := typed_form v τ j c e (2 * j.size + 2) hform hinst hcl hwf hc h4 (by omega)
    have hxt : exprOfJsonTyped (some τ) j = .ok e := by
      simp [exprOfJsonTyped, hnd, ht]
    exact ⟨hxt, by simp [ofJsonTyped, hxt, evalR, h5, bind, Except.bind]⟩

end Cedar.C10
