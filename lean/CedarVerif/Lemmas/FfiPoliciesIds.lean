import CedarVerif.Lemmas.FfiPolicies
import CedarVerif.Lemmas.PolicySetProj
/-
Helpers for C19 `assemble_ids`: a history of add / add_template / link calls all of which succeed is a successful run of
the C08 abstract specification, whose three lists then carry exactly the ids of the calls, pairwise distinct.
-/
namespace Cedar.FfiP
open Cedar

/-- the abstract specification run strictly (every step must succeed) -/
def specStrict (sp : Spec) : List Spec.Op → Option Spec
  | [] => some sp
  | op :: ops =>
    match sp.apply op with
    | none => none
    | some sp' => specStrict sp' ops

theorem runStrict_spec (ops : List ApiOp) : ∀ (s : ApiPolicySet) (sp : Spec) (s' : ApiPolicySet), s.WF → s.Proj →
    s.ast.AbsRel sp → (∀ op, op ∈ ops → op.wellTyped) → runStrict s ops = .ok s' →
    ∃ sp', specStrict sp (ops.map ApiOp.toSpec) = some sp' ∧ s'.ast.AbsRel sp' := by
  induction ops with
  | nil =>
    intro s sp s' _ _ R _ h
    simp only [runStrict, Except.ok.injEq] at h
    subst h
    exact ⟨sp, rfl, R⟩
  | cons op ops ih =>
    intro s sp s' wf pr R wt h
    simp only [runStrict] at h
    have href := ApiPolicySet.applyOp_refines s op sp wf pr R
    cases he : (s.applyOp op).err with
    | some e => rw [he] at h; cases h
    | none =>
      rw [he] at h
      cases hsa : sp.apply op.toSpec with
      | none => rw [hsa] at href; exact absurd he href.1
      | some sp1 =>
        rw [hsa] at href
        obtain ⟨sp', h1, h2⟩ := ih _ sp1 s' (ApiPolicySet.applyOp_wf s op wf (wt op (by simp)))
          (ApiPolicySet.applyOp_proj s op wf pr) href.2 (fun o ho => wt o (List.mem_cons_of_mem _ ho)) h
        exact ⟨sp', by simp [specStrict, hsa, h1], h2⟩

def opStatic : Spec.Op → List String
  | .add b => [b.id]
  | _ => []
def opTemplate : Spec.Op → List String
  | .addTemplate t => [t.id]
  | _ => []
def opLink : Spec.Op → List String
  | .link _ n _ => [n]
  | _ => []
def isGrow : Spec.Op → Bool
  | .add _ | .addTemplate _ | .link _ _ _ => true
  | _ => false

def sIds (sp : Spec) : List String := sp.statics.map (·.1)
def tIds (sp : Spec) : List String := sp.templates.map (·.1)
def lIds (sp : Spec) : List String := sp.links.map (·.1)

theorem hasId_false (sp : Spec) (k : String) (h : sp.hasId k = false) : k ∉ sIds sp ∧ k ∉ tIds sp ∧ k ∉ lIds sp := by
  simp only [Spec.hasId, Bool.or_eq_false_iff, List.any_eq_false, beq_iff_eq] at h
  simp only [sIds, tIds, lIds, List.mem_map, not_exists, not_and]
  exact ⟨fun x hx he => h.1.1 x hx he, fun x hx he => h.1.2 x hx he, fun x hx he => h.2 x hx he⟩

/-- all ids of the abstract state, pairwise distinct -/
def NodupIds (sp : Spec) : Prop :=
  (sIds sp).Nodup ∧ (tIds sp).Nodup ∧ (lIds sp).Nodup ∧
  (∀ k, k ∈ sIds sp → k ∉ tIds sp ∧ k ∉ lIds sp) ∧ (∀ k, k ∈ tIds sp → k ∉ lIds sp)

theorem apply_grow (sp sp' : Spec) (op : Spec.Op) (hg : isGrow op = true) (h : sp.apply op = some sp') (nd : NodupIds sp) :
    sIds sp' = sIds sp ++ opStatic op ∧ tIds sp' = tIds sp ++ opTemplate op ∧ lIds sp' = lIds sp ++ opLink op ∧
    NodupIds sp' := by
  obtain ⟨n1, n2, n3, n4, n5⟩ := nd
  cases op with
  | add b =>
    simp only [Spec.apply] at h
    split at h
    · cases h
    · rename_i hh
      cases h
      obtain ⟨a1, a2, a3⟩ := hasId_false sp b.id (by simpa using hh)
      refine ⟨by simp [sIds, opStatic], by simp [tIds, opTemplate], by simp [lIds, opLink], ?_⟩
      simp only [NodupIds, sIds, tIds, lIds, List.map_append, List.map_cons, List.map_nil] at *
      refine ⟨?_, n2, n3, ?_, n5⟩
      · rw [List.nodup_append]
        refine ⟨n1, by simp, ?_⟩
        intro a ha b' hb'
        simp only [List.mem_singleton] at hb'
        subst hb'
        intro hab; subst hab; exact a1 ha
      · intro k hk
        simp only [List.mem_append, List.mem_singleton] at hk
        rcases hk with hk | rfl
        · exact n4 k hk
        · exact ⟨a2, a3⟩
  | addTemplate t =>
    simp only [Spec.apply] at h
    split at h
    · cases h
    · rename_i hh
      cases h
      obtain ⟨a1, a2, a3⟩ := hasId_false sp t.id (by simpa using hh)
      refine ⟨by simp [sIds, opStatic], by simp [tIds, opTemplate], by simp [lIds, opLink], ?_⟩
      simp only [NodupIds, sIds, tIds, lIds, List.map_append, List.map_cons, List.map_nil] at *
      refine ⟨n1, ?_, n3, ?_, ?_⟩
      · rw [List.nodup_append]
        refine ⟨n2, by simp, ?_⟩
        intro a ha b' hb'
        simp only [List.mem_singleton] at hb'
        subst hb'
        intro hab; subst hab; exact a2 ha
      · intro k hk
        refine ⟨?_, (n4 k hk).2⟩
        simp only [List.mem_append, List.mem_singleton, not_or]
        refine ⟨(n4 k hk).1, ?_⟩
        intro hkt; subst hkt; exact a1 hk
      · intro k hk
        simp only [List.mem_append, List.mem_singleton] at hk
        rcases hk with hk | rfl
        · exact n5 k hk
        · exact a3
  | link tid newId vals =>
    simp only [Spec.apply] at h
    split at h
    · cases h
    · split at h
      · cases h
      · split at h
        · cases h
        · rename_i hh
          cases h
          obtain ⟨a1, a2, a3⟩ := hasId_false sp newId (by simpa using hh)
          refine ⟨by simp [sIds, opStatic], by simp [tIds, opTemplate], by simp [lIds, opLink], ?_⟩
          simp only [NodupIds, sIds, tIds, lIds, List.map_append, List.map_cons, List.map_nil] at *
          refine ⟨n1, n2, ?_, ?_, ?_⟩
          · rw [List.nodup_append]
            refine ⟨n3, by simp, ?_⟩
            intro a ha b' hb'
            simp only [List.mem_singleton] at hb'
            subst hb'
            intro hab; subst hab; exact a3 ha
          · intro k hk
            refine ⟨(n4 k hk).1, ?_⟩
            simp only [List.mem_append, List.mem_singleton, not_or]
            refine ⟨(n4 k hk).2, ?_⟩
            intro hkt; subst hkt; exact a1 hk
          · intro k hk
            simp only [List.mem_append, List.mem_singleton, not_or]
            refine ⟨n5 k hk, ?_⟩
            intro hkt; subst hkt; exact a2 hk
  | unlink _ => cases hg
  | removeStatic _ => cases hg
  | removeTemplate _ => cases hg

theorem specStrict_grow (ops : List Spec.Op) : ∀ (sp sp' : Spec), (∀ op, op ∈ ops → isGrow op = true) →
    specStrict sp ops = some sp' → NodupIds sp →
    sIds sp' = sIds sp ++ ops.flatMap opStatic ∧ tIds sp' = tIds sp ++ ops.flatMap opTemplate ∧
    lIds sp' = lIds sp ++ ops.flatMap opLink ∧ NodupIds sp' := by
  induction ops with
  | nil =>
    intro sp sp' _ h nd
    simp only [specStrict, Option.some.injEq] at h
    subst h
    simp [nd]
  | cons op ops ih =>
    intro sp sp' hg h nd
    simp only [specStrict] at h
    cases hsa : sp.apply op with
    | none => rw [hsa] at h; cases h
    | some sp1 =>
      rw [hsa] at h
      obtain ⟨b1, b2, b3, b4⟩ := apply_grow sp sp1 op (hg op (by simp)) hsa nd
      obtain ⟨c1, c2, c3, c4⟩ := ih sp1 sp' (fun o ho => hg o (List.mem_cons_of_mem _ ho)) h b4
      refine ⟨?_, ?_, ?_, c4⟩
      · rw [c1, b1]; simp
      · rw [c2, b2]; simp
      · rw [c3, b3]; simp

theorem nodupIds_empty : NodupIds {} := by
  simp [NodupIds, sIds, tIds, lIds]

/-! ### the ids of the explicit history -/

theorem noBad_append (a b : List Item) : noBad (a ++ b) = (noBad a && noBad b) := by
  induction a with
  | nil => simp [noBad]
  | cons it a ih => cases it <;> simp [noBad, ih]

theorem templateOps_ids (ts : List (String × TemplateDoc)) (h : noBad (ts.map templateItem) = true) :
    ((itemOps (ts.map templateItem)).map ApiOp.toSpec).flatMap opStatic = [] ∧
    ((itemOps (ts.map templateItem)).map ApiOp.toSpec).flatMap opTemplate = ts.map (·.1) ∧
    ((itemOps (ts.map templateItem)).map ApiOp.toSpec).flatMap opLink = [] ∧
    (∀ op, op ∈ (itemOps (ts.map templateItem)).map ApiOp.toSpec → isGrow op = true) := by
  induction ts with
  | nil => simp [itemOps]
  | cons e ts ih =>
    simp only [List.map_cons, templateItem] at h ⊢
    cases hv : e.2.parsed with
    | none => rw [hv] at h; simp [noBad] at h
    | some t =>
      simp only [hv, noBad] at h
      obtain ⟨i1, i2, i3, i4⟩ := ih h
      simp only [itemOps, List.map_cons, ApiOp.toSpec, List.flatMap_cons, opStatic, opTemplate, opLink, i1, i2, i3,
        List.nil_append, List.cons_append, List.mem_cons]
      refine ⟨trivial, ?_, trivial, ?_⟩
      · simp [Template.id, Template.newId, TemplateBody.newId]
      · intro op hop
        rcases hop with rfl | hop
        · rfl
        · exact i4 op hop

theorem linkOps_ids (ls : List TemplateLink) (h : noBad (ls.map linkItem) = true) :
    ((itemOps (ls.map linkItem)).map ApiOp.toSpec).flatMap opStatic = [] ∧
    ((itemOps (ls.map linkItem)).map ApiOp.toSpec).flatMap opTemplate = [] ∧
    ((itemOps (ls.map linkItem)).map ApiOp.toSpec).flatMap opLink = ls.map (·.newId) ∧
    (∀ op, op ∈ (itemOps (ls.map linkItem)).map ApiOp.toSpec → isGrow op = true) := by
  induction ls with
  | nil => simp [itemOps]
  | cons l ls ih =>
    simp only [List.map_cons, linkItem] at h ⊢
    cases hv : l.values with
    | none => rw [hv] at h; simp [noBad] at h
    | some v =>
      simp only [hv, noBad] at h
      obtain ⟨i1, i2, i3, i4⟩ := ih h
      simp only [itemOps, List.map_cons, ApiOp.toSpec, List.flatMap_cons, opStatic, opTemplate, opLink, i1, i2, i3,
        List.nil_append, List.cons_append, List.mem_cons]
      refine ⟨trivial, trivial, trivial, ?_⟩
      intro op hop
      rcases hop with rfl | hop
      · rfl
      · exact i4 op hop

theorem addOps_ids (bs : List TemplateBody) :
    ((bs.map ApiOp.add).map ApiOp.toSpec).flatMap opStatic = bs.map (·.id) ∧
    ((bs.map ApiOp.add).map ApiOp.toSpec).flatMap opTemplate = [] ∧
    ((bs.map ApiOp.add).map ApiOp.toSpec).flatMap opLink = [] ∧
    (∀ op, op ∈ (bs.map ApiOp.add).map ApiOp.toSpec → isGrow op = true) := by
  induction bs with
  | nil => simp
  | cons b bs ih =>
    obtain ⟨i1, i2, i3, i4⟩ := ih
    simp only [List.map_cons, ApiOp.toSpec, List.flatMap_cons, opStatic, opTemplate, opLink, i1, i2, i3,
      List.nil_append, List.cons_append, List.mem_cons]
    refine ⟨trivial, trivial, trivial, ?_⟩
    intro op hop
    rcases hop with rfl | hop
    · rfl
    · exact i4 op hop

theorem apiHistoryOf_ids (bs : List TemplateBody) (f : FfiPolicySet) (h : noBad (tailItems f) = true) :
    ((apiHistoryOf bs f).map ApiOp.toSpec).flatMap opStatic = bs.map (·.id) ∧
    ((apiHistoryOf bs f).map ApiOp.toSpec).flatMap opTemplate = f.templateIds ∧
    ((apiHistoryOf bs f).map ApiOp.toSpec).flatMap opLink = f.linkIds ∧
    (∀ op, op ∈ (apiHistoryOf bs f).map ApiOp.toSpec → isGrow op = true) := by
  simp only [tailItems, noBad_append, Bool.and_eq_true] at h
  obtain ⟨a1, a2, a3, a4⟩ := addOps_ids bs
  obtain ⟨t1, t2, t3, t4⟩ := templateOps_ids f.templates h.1
  obtain ⟨l1, l2, l3, l4⟩ := linkOps_ids f.templateLinks h.2
  simp only [apiHistoryOf, tailItems, itemOps_append, List.map_append, List.flatMap_append, a1, a2, a3, t1, t2, t3, l1, l2, l3,
    List.append_nil, List.nil_append, List.mem_append, FfiPolicySet.templateIds, FfiPolicySet.linkIds]
  refine ⟨trivial, trivial, trivial, ?_⟩
  rintro op (h | h | h)
  · exact a4 op h
  · exact t4 op h
  · exact l4 op h

/-! ### the ids the static part assigns -/

theorem parseDocs_ids (l : List (Option String × PolicyDoc)) (h : (parseDocs l).2 = []) :
    (parseDocs l).1.map (·.id) = l.map (fun x => match x.1 with | some i => i | none => x.2.fmt.defaultId) := by
  induction l with
  | nil => rfl
  | cons x l ih =>
    obtain ⟨id, d⟩ := x
    simp only [parseDocs, PolicyDoc.parse] at h ⊢
    cases hp : d.parsed with
    | none => rw [hp] at h; simp at h
    | some b =>
      simp only [hp] at h
      simp only [List.map_cons, ih h, TemplateBody.newId]
      rfl

theorem numbered_ids (items : List ConcatItem) : ∀ n, (numbered n items).any ConcatItem.isTemplate = false →
    (staticBodies (numbered n items)).map (·.id) = (List.range' n items.length).map (fun n => s!"policy{n}") := by
  induction items with
  | nil => intro n _; rfl
  | cons it items ih =>
    intro n h
    cases it with
    | static b =>
      simp only [numbered, List.any_cons, ConcatItem.isTemplate, Bool.false_or] at h
      simp only [numbered, staticBodies, List.map_cons, List.length_cons, List.range'_succ, ih (n + 1) h, TemplateBody.newId]
    | template t => simp [numbered, ConcatItem.isTemplate] at h

theorem staticAdds_ids (sp : StaticPolicySet) (bs : List TemplateBody) (h : staticAdds sp = .ok bs) :
    bs.map (·.id) = staticIds sp := by
  cases sp with
  | concatenated p =>
    cases p with
    | none => simp [staticAdds] at h
    | some items =>
      simp only [staticAdds] at h
      split at h
      · cases h
      · rename_i hn
        cases h
        rw [numbered_ids items 0 (by simpa using hn)]
        simp [staticIds, List.range_eq_range']
  | set docs =>
    simp only [staticAdds] at h
    split at h
    · rename_i he
      cases h
      rw [parseDocs_ids _ (by simpa using he)]
      simp [staticIds]
    · cases h
  | map entries =>
    simp only [staticAdds] at h
    split at h
    · rename_i he
      cases h
      rw [parseDocs_ids _ (by simpa using he)]
      simp [staticIds]
    · cases h

/-- the ids of a set built by a successful history `add* ++ add_template* ++ link*` from the empty set -/
theorem runStrict_ids (bs : List TemplateBody) (f : FfiPolicySet) (s : ApiPolicySet) (hs : f.TemplatesHaveSlots)
    (hb : noBad (tailItems f) = true) (hr : runStrict {} (apiHistoryOf bs f) = .ok s) :
    (∀ k, (s.ast.links.get? k).isSome = true ↔ k ∈ bs.map (·.id) ∨ k ∈ f.linkIds) ∧
    (∀ k, (s.policies.get? k).isSome = true ↔ k ∈ bs.map (·.id) ∨ k ∈ f.linkIds) ∧
    (∀ k, (s.templates.get? k).isSome = true ↔ k ∈ f.templateIds) ∧
    (bs.map (·.id) ++ f.templateIds ++ f.linkIds).Nodup := by
  have wt := apiHistoryOf_wellTyped bs f hs
  obtain ⟨sp, hsp, R⟩ := runStrict_spec _ {} {} s ApiPolicySet.wf_empty ApiPolicySet.proj_empty PolicySet.absRel_empty wt hr
  obtain ⟨i1, i2, i3, i4⟩ := apiHistoryOf_ids bs f hb
  obtain ⟨g1, g2, g3, n1, n2, n3, n4, n5⟩ := specStrict_grow _ {} sp i4 hsp nodupIds_empty
  rw [i1] at g1; rw [i2] at g2; rw [i3] at g3
  have e1 : sIds sp = bs.map (·.id) := by simpa [sIds] using g1
  have e2 : tIds sp = f.templateIds := by simpa [tIds] using g2
  have e3 : lIds sp = f.linkIds := by simpa [lIds] using g3
  have h0 := runStrict_ok_run _ _ _ hr
  have pr : s.Proj := by
    rw [h0]; exact (ApiPolicySet.run_proj _ {} ApiPolicySet.wf_empty ApiPolicySet.proj_empty wt).2
  have hl : ∀ k, (s.ast.links.get? k).isSome = true ↔ k ∈ bs.map (·.id) ∨ k ∈ f.linkIds := by
    intro k
    rw [← e1, ← e3]
    constructor
    · intro hk
      obtain ⟨p, hp⟩ := Option.isSome_iff_exists.mp hk
      by_cases hpl : p.link = none
      · left
        have := (R.statics k p.template.body).mpr ⟨p, hp, hpl, rfl⟩
        exact List.mem_map.mpr ⟨_, this, rfl⟩
      · right
        have := (R.links k p.template.id p.values).mpr ⟨p, hp, hpl, rfl, rfl⟩
        exact List.mem_map.mpr ⟨_, this, rfl⟩
    · rintro (hk | hk)
      · obtain ⟨⟨k', b⟩, hm, rfl⟩ := List.mem_map.mp hk
        obtain ⟨p, hp, _⟩ := (R.statics k' b).mp hm
        simp [hp]
      · obtain ⟨⟨k', tid, vals⟩, hm, rfl⟩ := List.mem_map.mp hk
        obtain ⟨p, hp, _⟩ := (R.links k' tid vals).mp hm
        simp [hp]
  refine ⟨hl, fun k => by rw [pr.pol]; exact hl k, ?_, ?_⟩
  · intro k
    rw [← e2]
    constructor
    · intro hk
      obtain ⟨t, ht⟩ := Option.isSome_iff_exists.mp hk
      have := (R.templates k t).mpr ((pr.tmpl k t).mp ht)
      exact List.mem_map.mpr ⟨_, this, rfl⟩
    · intro hk
      obtain ⟨⟨k', t⟩, hm, rfl⟩ := List.mem_map.mp hk
      have := (pr.tmpl k' t).mpr ((R.templates k' t).mp hm)
      simp [this]
  · rw [← e1, ← e2, ← e3, List.nodup_append, List.nodup_append]
    refine ⟨⟨n1, n2, ?_⟩, n3, ?_⟩
    · intro a ha b hb hab; subst hab; exact (n4 a ha).1 hb
    · intro a ha b hb hab
      subst hab
      rcases List.mem_append.mp ha with ha | ha
      · exact (n4 a ha).2 hb
      · exact n5 a ha hb

end Cedar.FfiP
