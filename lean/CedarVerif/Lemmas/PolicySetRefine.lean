import CedarVerif.Lemmas.PolicySetSpec
/-
C08 helper lemmas, part 7: every non-merge operation of the core policy set refines the corresponding operation of
the abstract specification (same verdict; related states stay related), and histories.
-/
namespace Cedar
open LHM

/-! ### the operations refine the specification -/

def CoreOp.toSpec : CoreOp → Spec.Op
  | .addStatic b => .add b
  | .addTemplate t => .addTemplate t
  | .link tid newId vals => .link tid newId vals
  | .unlink id => .unlink id
  | .removeStatic id => .removeStatic id
  | .removeTemplate id => .removeTemplate id

theorem PolicySet.addStatic_err_iff (ps : PolicySet) (b : TemplateBody) :
    (ps.addStatic b).err = none ↔ ps.templates.get? b.id = none ∧ ps.links.get? b.id = none := by
  constructor
  · intro h
    obtain ⟨ht, hl, _⟩ := PolicySet.addStatic_ok ps b h
    exact ⟨ht, hl⟩
  · rintro ⟨ht, hl⟩
    unfold PolicySet.addStatic linkStaticPolicy
    simp [Template.id, (contains_false _ _).mpr ht, (contains_false _ _).mpr hl]

theorem PolicySet.addStatic_refines (ps : PolicySet) (b : TemplateBody) (sp : Spec) (R : ps.AbsRel sp) :
    match sp.apply (.add b) with
    | none => (ps.addStatic b).err ≠ none
    | some sp' => (ps.addStatic b).err = none ∧ (ps.addStatic b).ps.AbsRel sp' := by
  unfold Spec.apply
  by_cases hid : sp.hasId b.id = true
  · simp only [hid, if_true]
    intro h
    obtain ⟨ht, hl, _⟩ := PolicySet.addStatic_ok ps b h
    have := (R.hasId_iff b.id).mp hid
    simp [ht, hl] at this
  · simp only [hid, Bool.false_eq_true, if_false]
    obtain ⟨hl, ht⟩ := (R.hasId_false b.id).mp (by simpa using hid)
    have herr := (PolicySet.addStatic_err_iff ps b).mpr ⟨ht, hl⟩
    refine ⟨herr, ?_⟩
    obtain ⟨_, _, heq⟩ := PolicySet.addStatic_ok ps b herr
    rw [heq]
    constructor
    · intro k b'
      simp only [List.mem_append, List.mem_singleton, Prod.mk.injEq, R.statics, get?_snoc_absent _ _ _ hl]
      by_cases hk : k = b.id
      · simp only [hk, hl, if_true]
        constructor
        · rintro (⟨p, hp, _⟩ | ⟨_, rfl⟩)
          · cases hp
          · exact ⟨_, rfl, rfl, rfl⟩
        · rintro ⟨p, hp, _, hb⟩
          cases hp; exact Or.inr ⟨trivial, hb.symm⟩
      · simp only [hk, if_false, false_and, or_false]
    · intro k t
      simp only [R.templates, get?_snoc_absent _ _ _ hl, get?_snoc_absent _ _ _ ht]
      by_cases hk : k = b.id
      · simp [hk, ht]
      · simp only [hk, if_false]
    · intro k tid vals
      simp only [R.links, get?_snoc_absent _ _ _ hl]
      by_cases hk : k = b.id
      · simp only [hk, hl, if_true]
        constructor
        · rintro ⟨p, hp, _⟩; cases hp
        · rintro ⟨p, hp, hn, _⟩; cases hp; exact absurd rfl hn
      · simp only [hk, if_false]

end Cedar

namespace Cedar
open LHM

/-! ### add_template -/

theorem PolicySet.addTemplate_err_iff (ps : PolicySet) (t : Template) :
    (ps.addTemplate t).err = none ↔ ps.templates.get? t.id = none ∧ ps.links.get? t.id = none := by
  constructor
  · intro h
    obtain ⟨ht, hl, _⟩ := PolicySet.addTemplate_ok ps t h
    exact ⟨ht, hl⟩
  · rintro ⟨ht, hl⟩
    unfold PolicySet.addTemplate
    simp [(contains_false _ _).mpr ht, (contains_false _ _).mpr hl]

theorem PolicySet.addTemplate_refines (ps : PolicySet) (t : Template) (sp : Spec) (R : ps.AbsRel sp) :
    match sp.apply (.addTemplate t) with
    | none => (ps.addTemplate t).err ≠ none
    | some sp' => (ps.addTemplate t).err = none ∧ (ps.addTemplate t).ps.AbsRel sp' := by
  unfold Spec.apply
  by_cases hid : sp.hasId t.id = true
  · simp only [hid, if_true]
    intro h
    obtain ⟨ht, hl, _⟩ := PolicySet.addTemplate_ok ps t h
    have := (R.hasId_iff t.id).mp hid
    simp [ht, hl] at this
  · simp only [hid, Bool.false_eq_true, if_false]
    obtain ⟨hl, ht⟩ := (R.hasId_false t.id).mp (by simpa using hid)
    have herr := (PolicySet.addTemplate_err_iff ps t).mpr ⟨ht, hl⟩
    refine ⟨herr, ?_⟩
    obtain ⟨_, _, heq⟩ := PolicySet.addTemplate_ok ps t herr
    rw [heq]
    constructor
    · intro k b'
      simp only [R.statics]
    · intro k t'
      simp only [List.mem_append, List.mem_singleton, Prod.mk.injEq, R.templates, get?_snoc_absent _ _ _ ht]
      by_cases hk : k = t.id
      · simp only [hk, ht, hl, if_true, true_and, and_true, Option.some.injEq]
        constructor
        · rintro (h | h)
          · cases h
          · exact h.symm
        · intro h; exact Or.inr h.symm
      · simp only [hk, if_false, false_and, or_false]
    · intro k tid vals
      simp only [R.links]

/-! ### link -/

theorem PolicySet.link_err_iff (ps : PolicySet) (tid newId : String) (vals : SlotVals) :
    (ps.link tid newId vals).err = none ↔
      ∃ t, ps.templates.get? tid = some t ∧ t.checkBinding vals = true ∧
        ps.links.get? newId = none ∧ ps.templates.get? newId = none := by
  constructor
  · intro h
    obtain ⟨t, ht, hb, hl, hnt, _⟩ := PolicySet.link_ok ps tid newId vals h
    exact ⟨t, ht, hb, hl, hnt⟩
  · rintro ⟨t, ht, hb, hl, hnt⟩
    unfold PolicySet.link Template.link
    simp [ht, hb, (contains_false _ _).mpr hl, (contains_false _ _).mpr hnt]

/-- `link` on a template id that is not a policy id refines the abstract `link` -/
theorem PolicySet.link_refines (ps : PolicySet) (tid newId : String) (vals : SlotVals) (sp : Spec) (wf : ps.WF)
    (hns : ps.links.get? tid = none) (R : ps.AbsRel sp) :
    match sp.apply (.link tid newId vals) with
    | none => (ps.link tid newId vals).err ≠ none
    | some sp' => (ps.link tid newId vals).err = none ∧ (ps.link tid newId vals).ps.AbsRel sp' := by
  unfold Spec.apply
  simp only [R.getTemplate, hns, if_true]
  cases ht : ps.templates.get? tid with
  | none =>
    simp only
    intro h
    obtain ⟨t, ht', _⟩ := (PolicySet.link_err_iff ps tid newId vals).mp h
    rw [ht] at ht'; cases ht'
  | some t =>
    simp only
    by_cases hb : t.checkBinding vals = true
    · simp only [hb, Bool.not_true, Bool.false_eq_true, if_false]
      by_cases hid : sp.hasId newId = true
      · simp only [hid, if_true]
        intro h
        obtain ⟨t', _, _, hl, hnt⟩ := (PolicySet.link_err_iff ps tid newId vals).mp h
        have := (R.hasId_iff newId).mp hid
        simp [hl, hnt] at this
      · simp only [hid, Bool.false_eq_true, if_false]
        obtain ⟨hl, hnt⟩ := (R.hasId_false newId).mp (by simpa using hid)
        have herr := (PolicySet.link_err_iff ps tid newId vals).mpr ⟨t, ht, hb, hl, hnt⟩
        refine ⟨herr, ?_⟩
        obtain ⟨t', ht', _, _, _, heq⟩ := PolicySet.link_ok ps tid newId vals herr
        rw [ht] at ht'; cases ht'
        have htid : t.id = tid := wf.tKey tid t ht
        rw [heq]
        constructor
        · intro k b
          simp only [R.statics, get?_snoc_absent _ _ _ hl]
          by_cases hk : k = newId
          · simp only [hk, hl, if_true]
            constructor
            · rintro ⟨p, hp, _⟩; cases hp
            · rintro ⟨p, hp, hn, _⟩; cases hp; cases hn
          · simp only [hk, if_false]
        · intro k t'
          simp only [R.templates, get?_snoc_absent _ _ _ hl]
          by_cases hk : k = newId
          · simp [hk, hnt]
          · simp only [hk, if_false]
        · intro k tid' vals'
          simp only [List.mem_append, List.mem_singleton, Prod.mk.injEq, R.links, get?_snoc_absent _ _ _ hl]
          by_cases hk : k = newId
          · simp only [hk, hl, if_true, true_and]
            constructor
            · rintro (⟨p, hp, _⟩ | ⟨rfl, rfl⟩)
              · cases hp
              · exact ⟨_, rfl, by simp, htid, rfl⟩
            · rintro ⟨p, hp, _, h1, h2⟩
              cases hp
              exact Or.inr ⟨(htid.symm.trans h1).symm, h2.symm⟩
          · simp only [hk, if_false, false_and, or_false]
    · simp only [hb, Bool.not_false, if_true]
      intro h
      obtain ⟨t', ht', hb', _⟩ := (PolicySet.link_err_iff ps tid newId vals).mp h
      rw [ht] at ht'; cases ht'; exact hb hb'

/-! ### unlink -/

theorem PolicySet.unlink_err_iff (ps : PolicySet) (id : String) (wf : ps.WF) :
    (ps.unlink id).err = none ↔ ps.templates.get? id = none ∧ (ps.links.get? id).isSome = true := by
  unfold PolicySet.unlink
  by_cases h1 : ps.templates.contains id = true
  · have : ps.templates.get? id ≠ none := by
      intro e; rw [contains_eq, e] at h1; cases h1
    simp [h1, this]
  · simp only [Bool.not_eq_true] at h1
    have hnt := (contains_false _ _).mp h1
    cases hp : ps.links.get? id with
    | none => simp [h1, hnt]
    | some p =>
      have h3 := wf.lTemplate id p hp
      have h2 := wf.mKeys p.template.id
      rw [h3] at h2
      have : ps.t2l.contains p.template.id = true := by rw [contains_eq]; exact h2
      simp [h1, this, hnt]

/-- on a well-formed set: a link with a link id is exactly a policy id that is not a template id -/
theorem PolicySet.WF.nonstatic_iff {ps : PolicySet} (wf : ps.WF) (id : String) :
    (∃ p, ps.links.get? id = some p ∧ p.link ≠ none) ↔
      ps.templates.get? id = none ∧ (ps.links.get? id).isSome = true := by
  constructor
  · rintro ⟨p, hp, hn⟩
    refine ⟨?_, by simp [hp]⟩
    cases ht : ps.templates.get? id with
    | none => rfl
    | some t => exact absurd (wf.shared id p hp (by simp [ht])) hn
  · rintro ⟨ht, hl⟩
    cases hp : ps.links.get? id with
    | none => rw [hp] at hl; cases hl
    | some p =>
      refine ⟨p, rfl, ?_⟩
      intro hn
      have h1 := wf.lKey id p hp
      unfold TPolicy.id at h1
      simp only [hn] at h1
      have h2 := wf.lTemplate id p hp
      rw [h1, ht] at h2; cases h2

/-- … and a link without link id is exactly an id that is both a policy id and a template id -/
theorem PolicySet.WF.static_iff {ps : PolicySet} (wf : ps.WF) (id : String) :
    (∃ p, ps.links.get? id = some p ∧ p.link = none) ↔
      (ps.links.get? id).isSome = true ∧ (ps.templates.get? id).isSome = true := by
  constructor
  · rintro ⟨p, hp, hn⟩
    refine ⟨by simp [hp], ?_⟩
    have h1 := wf.lKey id p hp
    unfold TPolicy.id at h1
    simp only [hn] at h1
    have h2 := wf.lTemplate id p hp
    rw [h1] at h2; simp [h2]
  · rintro ⟨hl, ht⟩
    cases hp : ps.links.get? id with
    | none => rw [hp] at hl; cases hl
    | some p => exact ⟨p, rfl, wf.shared id p hp ht⟩

theorem PolicySet.unlink_refines (ps : PolicySet) (id : String) (sp : Spec) (wf : ps.WF) (R : ps.AbsRel sp) :
    match sp.apply (.unlink id) with
    | none => (ps.unlink id).err ≠ none
    | some sp' => (ps.unlink id).err = none ∧ (ps.unlink id).ps.AbsRel sp' := by
  unfold Spec.apply
  by_cases hany : sp.links.any (fun e => e.1 == id) = true
  · simp only [hany, if_true]
    have hex := (R.link_iff id).mp hany
    have herr := (PolicySet.unlink_err_iff ps id wf).mpr ((wf.nonstatic_iff id).mp hex)
    refine ⟨herr, ?_⟩
    obtain ⟨p, hp, hn⟩ := hex
    obtain ⟨hnt, ht', hl'⟩ := PolicySet.unlink_ok ps id herr
    constructor
    · intro k b
      rw [hl', R.statics, get?_erase]
      by_cases hk : k = id
      · simp only [hk, hp, if_true]
        constructor
        · rintro ⟨p', hp', hn', _⟩; cases hp'; exact absurd hn' hn
        · rintro ⟨p', hp', _⟩; cases hp'
      · simp only [hk, if_false]
    · intro k t
      rw [hl', ht', R.templates, get?_erase]
      by_cases hk : k = id
      · simp [hk, hnt]
      · simp only [hk, if_false]
    · intro k tid vals
      rw [hl', get?_erase]
      simp only [List.mem_filter, R.links, Bool.not_eq_true', beq_eq_false_iff_ne, ne_eq]
      by_cases hk : k = id
      · simp [hk]
      · simp only [hk, if_false, not_false_eq_true, and_true]
  · simp only [hany, Bool.false_eq_true, if_false]
    intro herr
    exact hany ((R.link_iff id).mpr ((wf.nonstatic_iff id).mpr ((PolicySet.unlink_err_iff ps id wf).mp herr)))

/-! ### remove_static -/

theorem PolicySet.removeStatic_err_iff (ps : PolicySet) (id : String) :
    (ps.removeStatic id).err = none ↔ (ps.links.get? id).isSome = true ∧ (ps.templates.get? id).isSome = true := by
  unfold PolicySet.removeStatic
  cases hp : ps.links.get? id with
  | none => simp
  | some p => cases ht : ps.templates.get? id <;> simp

theorem PolicySet.removeStatic_refines (ps : PolicySet) (id : String) (sp : Spec) (wf : ps.WF) (R : ps.AbsRel sp) :
    match sp.apply (.removeStatic id) with
    | none => (ps.removeStatic id).err ≠ none
    | some sp' => (ps.removeStatic id).err = none ∧ (ps.removeStatic id).ps.AbsRel sp' := by
  unfold Spec.apply
  by_cases hany : sp.statics.any (fun e => e.1 == id) = true
  · simp only [hany, if_true]
    have hex := (R.static_iff id).mp hany
    have herr := (PolicySet.removeStatic_err_iff ps id).mpr ((wf.static_iff id).mp hex)
    refine ⟨herr, ?_⟩
    obtain ⟨p, hp, hn⟩ := hex
    obtain ⟨ht', hl'⟩ := PolicySet.removeStatic_ok ps id herr
    constructor
    · intro k b
      rw [hl', get?_erase]
      simp only [List.mem_filter, R.statics, Bool.not_eq_true', beq_eq_false_iff_ne, ne_eq]
      by_cases hk : k = id
      · simp [hk]
      · simp only [hk, if_false, not_false_eq_true, and_true]
    · intro k t
      rw [hl', ht', R.templates, get?_erase, get?_erase]
      by_cases hk : k = id
      · simp [hk, hp]
      · simp only [hk, if_false]
    · intro k tid vals
      rw [hl', R.links, get?_erase]
      by_cases hk : k = id
      · simp only [hk, hp, if_true]
        constructor
        · rintro ⟨p', hp', hn', _⟩; cases hp'; exact absurd hn hn'
        · rintro ⟨p', hp', _⟩; cases hp'
      · simp only [hk, if_false]
  · simp only [hany, Bool.false_eq_true, if_false]
    intro herr
    exact hany ((R.static_iff id).mpr ((wf.static_iff id).mpr ((PolicySet.removeStatic_err_iff ps id).mp herr)))

/-! ### remove_template -/

theorem PolicySet.removeTemplate_err_iff (ps : PolicySet) (id : String) :
    (ps.removeTemplate id).err = none ↔
      ps.links.get? id = none ∧ ps.t2l.get? id = some [] ∧ (ps.templates.get? id).isSome = true := by
  unfold PolicySet.removeTemplate
  by_cases h1 : ps.links.contains id = true
  · have : ps.links.get? id ≠ none := by
      intro e; rw [contains_eq, e] at h1; cases h1
    simp [h1, this]
  · simp only [Bool.not_eq_true] at h1
    have hnl := (contains_false _ _).mp h1
    cases hs : ps.t2l.get? id with
    | none => simp [h1]
    | some s =>
      cases s with
      | nil => cases ht : ps.templates.get? id <;> simp [h1, hnl]
      | cons a s => simp [h1]

theorem any_snd_fst_eq {β} (l : List (String × String × β)) (id : String) :
    l.any (fun e => e.2.1 == id) = true ↔ ∃ k v, (k, (id, v)) ∈ l := by
  simp only [List.any_eq_true, beq_iff_eq]
  constructor
  · rintro ⟨⟨k, t, v⟩, hm, rfl⟩; exact ⟨k, v, hm⟩
  · rintro ⟨k, v, hm⟩; exact ⟨(k, id, v), hm, rfl⟩

theorem PolicySet.removeTemplate_refines (ps : PolicySet) (id : String) (sp : Spec) (wf : ps.WF) (R : ps.AbsRel sp) :
    match sp.apply (.removeTemplate id) with
    | none => (ps.removeTemplate id).err ≠ none
    | some sp' => (ps.removeTemplate id).err = none ∧ (ps.removeTemplate id).ps.AbsRel sp' := by
  unfold Spec.apply
  -- the abstract guard, read on the concrete set
  have hguard : (sp.templates.any (fun e => e.1 == id) && !(sp.links.any (fun e => e.2.1 == id))) = true ↔
      (ps.removeTemplate id).err = none := by
    rw [PolicySet.removeTemplate_err_iff]
    simp only [Bool.and_eq_true, Bool.not_eq_true', ← Bool.not_eq_true]
    rw [R.template_iff, any_snd_fst_eq]
    constructor
    · rintro ⟨⟨ht, hl⟩, hno⟩
      refine ⟨hl, ?_, ht⟩
      have hm := wf.mKeys id
      rw [ht] at hm
      cases hs : ps.t2l.get? id with
      | none => rw [hs] at hm; cases hm
      | some s =>
        cases s with
        | nil => rfl
        | cons a s =>
          exfalso
          obtain ⟨p, hp, hpt⟩ := (wf.mExact id _ hs a).mp (by simp)
          apply hno
          refine ⟨a, p.values, (R.links a id p.values).mpr ⟨p, hp, ?_, hpt, rfl⟩⟩
          intro hn
          have h1 := wf.lKey a p hp
          unfold TPolicy.id at h1
          simp only [hn] at h1
          rw [← h1, hpt, hl] at hp; cases hp
    · rintro ⟨hl, hs, ht⟩
      refine ⟨⟨ht, hl⟩, ?_⟩
      rintro ⟨k, v, hm⟩
      obtain ⟨p, hp, _, hpt, _⟩ := (R.links k id v).mp hm
      have := (wf.mExact id [] hs k).mpr ⟨p, hp, hpt⟩
      simp at this
  by_cases hg : (sp.templates.any (fun e => e.1 == id) && !(sp.links.any (fun e => e.2.1 == id))) = true
  · simp only [hg, if_true]
    have herr := hguard.mp hg
    refine ⟨herr, ?_⟩
    obtain ⟨ht', hl'⟩ := PolicySet.removeTemplate_ok ps id herr
    obtain ⟨hl, _, _⟩ := (PolicySet.removeTemplate_err_iff ps id).mp herr
    constructor
    · intro k b
      rw [hl', R.statics]
    · intro k t
      rw [hl', ht', get?_erase]
      simp only [List.mem_filter, R.templates, Bool.not_eq_true', beq_eq_false_iff_ne, ne_eq]
      by_cases hk : k = id
      · simp [hk]
      · simp only [hk, if_false, not_false_eq_true, and_true]
    · intro k tid vals
      rw [hl', R.links]
  · simp only [hg, Bool.false_eq_true, if_false]
    intro herr
    exact hg (hguard.mpr herr)

end Cedar

namespace Cedar
open LHM

/-! ### all operations; histories -/

/-- one step of the abstract specification: a failed operation leaves the state unchanged -/
def Spec.step (sp : Spec) (op : Spec.Op) : Spec :=
  match sp.apply op with
  | some sp' => sp'
  | none => sp

def Spec.run (sp : Spec) : List Spec.Op → Spec
  | [] => sp
  | op :: ops => Spec.run (sp.step op) ops

/-- Refinement, one step: on a well-formed set related to `sp`, an (admissible) operation succeeds iff the abstract
operation does, and the resulting states are related (after a failure: the set is still related to `sp`). -/
theorem PolicySet.applyOp_refines (ps : PolicySet) (op : CoreOp) (sp : Spec) (wf : ps.WF) (adm : op.admissible ps)
    (R : ps.AbsRel sp) :
    match sp.apply op.toSpec with
    | none => (ps.applyOp op).err ≠ none ∧ (ps.applyOp op).ps.AbsRel sp
    | some sp' => (ps.applyOp op).err = none ∧ (ps.applyOp op).ps.AbsRel sp' := by
  have key : match sp.apply op.toSpec with
      | none => (ps.applyOp op).err ≠ none
      | some sp' => (ps.applyOp op).err = none ∧ (ps.applyOp op).ps.AbsRel sp' := by
    cases op with
    | addStatic b => exact PolicySet.addStatic_refines ps b sp R
    | addTemplate t => exact PolicySet.addTemplate_refines ps t sp R
    | link tid newId vals => exact PolicySet.link_refines ps tid newId vals sp wf ((contains_false _ _).mp adm) R
    | unlink id => exact PolicySet.unlink_refines ps id sp wf R
    | removeStatic id => exact PolicySet.removeStatic_refines ps id sp wf R
    | removeTemplate id => exact PolicySet.removeTemplate_refines ps id sp wf R
  cases hs : sp.apply op.toSpec with
  | some sp' => rw [hs] at key; exact key
  | none =>
    rw [hs] at key
    refine ⟨key, ?_⟩
    cases herr : (ps.applyOp op).err with
    | none => exact absurd herr key
    | some e => exact R.of_sameMaps (core_fail_frame ps op wf e herr)

theorem PolicySet.applyOp_refines_step (ps : PolicySet) (op : CoreOp) (sp : Spec) (wf : ps.WF) (adm : op.admissible ps)
    (R : ps.AbsRel sp) : (ps.applyOp op).ps.AbsRel (sp.step op.toSpec) := by
  have h := PolicySet.applyOp_refines ps op sp wf adm R
  unfold Spec.step
  cases hs : sp.apply op.toSpec with
  | some sp' => rw [hs] at h; exact h.2
  | none => rw [hs] at h; exact h.2

/-- Refinement, histories: running the operations on the set and on the specification keeps the states related. -/
theorem PolicySet.run_refines (ops : List CoreOp) : ∀ (ps : PolicySet) (sp : Spec), ps.WF → ps.admissibleHist ops →
    ps.AbsRel sp → (ps.run ops).AbsRel (sp.run (ops.map CoreOp.toSpec)) := by
  induction ops with
  | nil => intro ps sp _ _ R; exact R
  | cons op ops ih =>
    intro ps sp wf adm R
    exact ih _ _ (PolicySet.applyOp_wf ps op wf adm.1) adm.2 (PolicySet.applyOp_refines_step ps op sp wf adm.1 R)

theorem PolicySet.absRel_empty : PolicySet.AbsRel {} {} := by
  constructor <;> intros <;> simp

end Cedar
