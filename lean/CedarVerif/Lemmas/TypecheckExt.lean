import CedarVerif.Lemmas.TypecheckOps
import CedarVerif.Lemmas.TypecheckDefs2
/-
C03: soundness of extension function calls (strict mode): a call whose arguments have the signature's types yields a
value of the result type or an extension error (class `ext`: unparsable literal, overflow of datetime arithmetic).
-/
namespace Cedar.C03

open Cedar

theorem forall2_one {α β : Type} {R : α → β → Prop} {vs : List α} {t : β} (h : Forall2 R vs [t]) : ∃ a, vs = [a] ∧ R a t := by
  cases h with
  | cons hr hrest => cases hrest; exact ⟨_, rfl, hr⟩

theorem forall2_two {α β : Type} {R : α → β → Prop} {vs : List α} {t1 t2 : β} (h : Forall2 R vs [t1, t2]) :
    ∃ a b, vs = [a, b] ∧ R a t1 ∧ R b t2 := by
  cases h with
  | cons hr hrest =>
    obtain ⟨b, rfl, hb⟩ := forall2_one hrest
    exact ⟨_, b, rfl, hr, hb⟩

/-- arguments of subtypes of the declared argument types are arguments of the declared types -/
theorem forall2_subtype {vs : List Value} : ∀ {τs args : List CedarType}, Forall2 InstanceOfType vs τs →
    τs.length = args.length → (τs.zip args).all (fun p => isSubtype .permissive p.1 p.2) = true →
    Forall2 InstanceOfType vs args := by
  intro τs args h
  induction h generalizing args with
  | nil =>
    intro hl _
    cases args with
    | nil => exact .nil
    | cons _ _ => simp at hl
  | cons hr _ ih =>
    intro hl hall
    cases args with
    | nil => simp at hl
    | cons t args =>
      simp only [List.zip_cons_cons, List.all_cons, Bool.and_eq_true] at hall
      simp only [List.length_cons, Nat.add_right_cancel_iff] at hl
      exact .cons (isSubtype_inst hr _ hall.1) (ih hl hall.2)

theorem ip_parse_type {str : String} {v : Ext} (h : Ext.IPAddr.parse str = some v) : v.typeName = "ipaddr" := by
  unfold Ext.IPAddr.parse at h
  simp only at h
  split at h
  · cases h
  · split at h
    · cases h
    · split at h
      · split at h
        · cases h
        · split at h
          · cases h
          · cases h; rfl
      · split at h
        · cases h
        · cases h; rfl

set_option maxHeartbeats 1000000 in
theorem callExt_typed {fn : String} {sig : ExtSig} {vs : List Value} (h : extSig fn = some sig)
    (hvs : Forall2 InstanceOfType vs sig.args) :
    callExt fn vs = .error .ext ∨ ∃ v, callExt fn vs = .ok v ∧ InstanceOfType v sig.ret := by
  unfold extSig at h
  simp only at h
  split at h
  case h_1 =>
    cases h
    dsimp only at hvs ⊢
    obtain ⟨a, rfl, ha⟩ := forall2_one hvs
    obtain ⟨x, rfl⟩ := inst_string ha (Or.inr rfl)
    have hcall : callExt "decimal" [.prim (.string x)] = (optToExt (Ext.Decimal.parse x)).bind (fun v => .ok (.ext (.decimal v))) := rfl
    cases hp : Ext.Decimal.parse x with
    | none => exact Or.inl (by rw [hcall, hp]; rfl)
    | some v =>
      exact Or.inr ⟨_, by rw [hcall, hp]; rfl, InstanceOfType.ext (.decimal v)⟩
  case h_2 =>
    cases h
    dsimp only at hvs ⊢
    obtain ⟨a, rfl, ha⟩ := forall2_one hvs
    obtain ⟨x, rfl⟩ := inst_string ha (Or.inr rfl)
    have hcall : callExt "ip" [.prim (.string x)] = (optToExt (Ext.IPAddr.parse x)).bind (fun v => .ok (.ext v)) := rfl
    cases hp : Ext.IPAddr.parse x with
    | none => exact Or.inl (by rw [hcall, hp]; rfl)
    | some v =>
      refine Or.inr ⟨.ext v, by rw [hcall, hp]; rfl, ?_⟩
      rw [← ip_parse_type hp]; exact InstanceOfType.ext v
  case h_3 =>
    cases h
    dsimp only at hvs ⊢
    obtain ⟨a, rfl, ha⟩ := forall2_one hvs
    obtain ⟨x, rfl⟩ := inst_string ha (Or.inr rfl)
    have hcall : callExt "datetime" [.prim (.string x)] = (optToExt (Ext.Datetime.parse x)).bind (fun v => .ok (.ext (.datetime v))) := rfl
    cases hp : Ext.Datetime.parse x with
    | none => exact Or.inl (by rw [hcall, hp]; rfl)
    | some v =>
      exact Or.inr ⟨_, by rw [hcall, hp]; rfl, InstanceOfType.ext (.datetime v)⟩
  case h_4 =>
    cases h
    dsimp only at hvs ⊢
    obtain ⟨a, rfl, ha⟩ := forall2_one hvs
    obtain ⟨x, rfl⟩ := inst_string ha (Or.inr rfl)
    have hcall : callExt "duration" [.prim (.string x)] = (optToExt (Ext.Duration.parse x)).bind (fun v => .ok (.ext (.duration v))) := rfl
    cases hp : Ext.Duration.parse x with
    | none => exact Or.inl (by rw [hcall, hp]; rfl)
    | some v =>
      exact Or.inr ⟨_, by rw [hcall, hp]; rfl, InstanceOfType.ext (.duration v)⟩
  case h_14 =>
    cases h
    dsimp only at hvs ⊢
    obtain ⟨a, b, rfl, ha, hb⟩ := forall2_two hvs
    obtain ⟨x, rfl, hx⟩ := inst_ext ha
    obtain ⟨y, rfl, hy⟩ := inst_ext hb
    cases x <;> simp [Ext.typeName] at hx
    cases y <;> simp [Ext.typeName] at hy
    rename_i d u
    have hcall : callExt "offset" [.ext (.datetime d), .ext (.duration u)] = (optToExt (Ext.Datetime.offset d u)).bind (fun v => .ok (.ext (.datetime v))) := rfl
    cases hp : Ext.Datetime.offset d u with
    | none => exact Or.inl (by rw [hcall, hp]; rfl)
    | some v => exact Or.inr ⟨_, by rw [hcall, hp]; rfl, InstanceOfType.ext (.datetime v)⟩
  case h_15 =>
    cases h
    dsimp only at hvs ⊢
    obtain ⟨a, b, rfl, ha, hb⟩ := forall2_two hvs
    obtain ⟨x, rfl, hx⟩ := inst_ext ha
    obtain ⟨y, rfl, hy⟩ := inst_ext hb
    cases x <;> simp [Ext.typeName] at hx
    cases y <;> simp [Ext.typeName] at hy
    rename_i d u
    have hcall : callExt "durationSince" [.ext (.datetime d), .ext (.datetime u)] = (optToExt (Ext.Datetime.durationSince d u)).bind (fun v => .ok (.ext (.duration v))) := rfl
    cases hp : Ext.Datetime.durationSince d u with
    | none => exact Or.inl (by rw [hcall, hp]; rfl)
    | some v => exact Or.inr ⟨_, by rw [hcall, hp]; rfl, InstanceOfType.ext (.duration v)⟩
  case h_16 =>
    cases h
    dsimp only at hvs ⊢
    obtain ⟨a, rfl, ha⟩ := forall2_one hvs
    obtain ⟨x, rfl, hx⟩ := inst_ext ha
    cases x <;> simp [Ext.typeName] at hx
    rename_i d
    have hcall : callExt "toDate" [.ext (.datetime d)] = (optToExt (Ext.Datetime.toDate d)).bind (fun v => .ok (.ext (.datetime v))) := rfl
    cases hp : Ext.Datetime.toDate d with
    | none => exact Or.inl (by rw [hcall, hp]; rfl)
    | some v => exact Or.inr ⟨_, by rw [hcall, hp]; rfl, InstanceOfType.ext (.datetime v)⟩
  case h_23 => cases h
  all_goals
    cases h
    dsimp only at hvs ⊢
    first
      | (obtain ⟨a, rfl, ha⟩ := forall2_one hvs
         obtain ⟨x, rfl, hx⟩ := inst_ext ha
         cases x <;> simp [Ext.typeName] at hx)
      | (obtain ⟨a, b, rfl, ha, hb⟩ := forall2_two hvs
         obtain ⟨x, rfl, hx⟩ := inst_ext ha
         obtain ⟨y, rfl, hy⟩ := inst_ext hb
         cases x <;> simp [Ext.typeName] at hx
         cases y <;> simp [Ext.typeName] at hy)
    refine Or.inr ⟨_, rfl, ?_⟩
    first
      | exact InstanceOfType.anyBool _
      | exact InstanceOfType.long _
      | exact InstanceOfType.ext (.duration _)

/-- `.call fn args` with arguments of the signature's types -/
theorem call_good {w : World} {fn : String} {sig : ExtSig} {args : List Expr} {τs : List CedarType}
    (hsig : extSig fn = some sig) (hl : ListGood w args τs) (hlen : τs.length = sig.args.length)
    (hall : (τs.zip sig.args).all (fun p => isSubtype .permissive p.1 p.2) = true) :
    Good w (.call fn args) sig.ret [] := by
  rcases hl with ⟨err, he, hp⟩ | ⟨vs, hvs, hinst⟩
  · exact Good.err (by simp [evaluate, he]) hp
  · rcases callExt_typed hsig (forall2_subtype hinst hlen hall) with he | ⟨v, hv, hi⟩
    · exact Good.err (err := .ext) (by simp [evaluate, hvs, he]) (Or.inr (Or.inr rfl))
    · exact Good.value (v := v) (by simp [evaluate, hvs, hv]) hi

theorem typeOfList_length {m : ValidationMode} {s : Schema} {env : RequestEnv} {caps : Capabilities} :
    ∀ {es : List Expr} {τs : List CedarType}, typeOfList m s env es caps = .ok τs → τs.length = es.length
  | [], τs, h => by simp only [typeOfList, Except.ok.injEq] at h; subst h; rfl
  | e :: es, τs, h => by
    obtain ⟨τ, c, τs', _, h2, rfl⟩ := typeOfList_cons h
    simp [typeOfList_length h2]

theorem extSig_ret_mono {fn : String} {sig : ExtSig} (h : extSig fn = some sig) : sig.ret.mono = true := by
  unfold extSig at h
  simp only at h
  split at h <;> first | (cases h; rfl) | cases h

end Cedar.C03
