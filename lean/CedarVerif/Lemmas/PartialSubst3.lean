import CedarVerif.Lemmas.PartialSubst2
/-
C13, substitution form: the invariant of the first pass (`Sound2`) and the lemmas about collected lists of
sub-expressions (set / record / call constructors).
-/
namespace Cedar
namespace PS

section
variable (σ : Mapper) (req : Request) (es : Entities) (env : SlotEnv)

/-- what the first-pass outcome `x` of an expression whose concrete result (after substitution) is `y` must satisfy;
    a residual stays in the fragment, so that `get_attr` may re-interpret a component of it -/
def Sound2 (y : Result Value) (x : PRes) : Prop :=
  match x with
  | .val v => y = .ok v ∧ v.Canon
  | .err _ => ∃ c', y = .error c'
  | .res r => Agree (Y σ req es env r) y ∧ TypedOK r y ∧ Frag2 σ r
  | .fuel => True
  | .panic => True

variable {σ req es env}

theorem s2_val {y : Result Value} {v : Value} (h1 : y = .ok v) (h2 : v.Canon) : Sound2 σ req es env y (.val v) := ⟨h1, h2⟩
theorem s2_err {y : Result Value} {c : ErrClass} (c' : ErrClass) (h : y = .error c') : Sound2 σ req es env y (.err c) := ⟨c', h⟩
theorem s2_res {y : Result Value} {r : Expr} (h1 : Agree (Y σ req es env r) y) (h2 : TypedOK r y) (h3 : Frag2 σ r) :
    Sound2 σ req es env y (.res r) := ⟨h1, h2, h3⟩
theorem s2_stuck {y : Result Value} {x : PRes} (h : x = .fuel ∨ x = .panic) : Sound2 σ req es env y x := by
  rcases h with h | h <;> subst h <;> trivial

theorem s2_ofResult {y : Result Value} (h : ∀ w, y = .ok w → w.Canon) : Sound2 σ req es env y (PRes.ofResult y) := by
  cases y with
  | ok v => exact ⟨rfl, h v rfl⟩
  | error c => exact ⟨c, rfl⟩

/-- the best-effort position: whatever is kept for `b` agrees with `b` and stays in the fragment -/
theorem best2 {b : Expr} (hfb : Frag2 σ b) {xb : PRes} (hs : Sound2 σ req es env (Y σ req es env b) xb) {X : Expr}
    (hB : Best xb b = some X) : Agree (Y σ req es env X) (Y σ req es env b) ∧ Frag2 σ X := by
  cases xb with
  | val v =>
    simp only [Best, Option.some.injEq] at hB; subst hB
    obtain ⟨h1, h2⟩ := hs
    rw [h1, Y_toExpr σ req es env h2]
    exact ⟨by simp, frag2_toExpr σ v h2⟩
  | res r =>
    simp only [Best, Option.some.injEq] at hB; subst hB
    exact ⟨hs.1, hs.2.2⟩
  | err c =>
    simp only [Best, Option.some.injEq] at hB; subst hB
    exact ⟨Agree.refl _, hfb⟩
  | fuel => simp [Best] at hB
  | panic => simp [Best] at hB

/-! ### collected lists -/

variable (σ req es env)

/-- a collected partial value stands for its sub-expression -/
def PVRel2 (pv : PartialValue) (x : Expr) : Prop :=
  match pv with
  | .value v => Y σ req es env x = .ok v ∧ v.Canon
  | .residual r => Agree (Y σ req es env r) (Y σ req es env x) ∧ Frag2 σ r

variable {σ req es env}

theorem collect_sound2 (go : Expr → PRes) (xs : List Expr)
    (h : ∀ x, x ∈ xs → Sound2 σ req es env (Y σ req es env x) (go x)) :
    match collectPV go xs with
    | .error r => r = .fuel ∨ r = .panic ∨
        (∃ c, r = .err c ∧ ∃ c', evaluateList req es env (Expr.substUnkList σ xs) = .error c')
    | .ok pvs => ListRel (PVRel2 σ req es env) pvs xs := by
  induction xs with
  | nil => exact .nil
  | cons x xs ih =>
    have ih' := ih (fun y hy => h y (List.mem_cons_of_mem _ hy))
    have hx := h x (List.mem_cons_self ..)
    simp only [collectPV]
    cases hgx : go x with
    | fuel => exact Or.inl rfl
    | panic => exact Or.inr (Or.inl rfl)
    | err c =>
      rw [hgx] at hx
      obtain ⟨c', hc'⟩ := hx
      simp only [Y] at hc'
      exact Or.inr (Or.inr ⟨c, rfl, c', by simp [Expr.substUnkList, evaluateList, hc']⟩)
    | val v =>
      rw [hgx] at hx
      simp only
      cases hc : collectPV go xs with
      | error r =>
        rw [hc] at ih'
        simp only [Except.map]
        rcases ih' with h1 | h1 | ⟨c, h1, c', h2⟩
        · exact Or.inl h1
        · exact Or.inr (Or.inl h1)
        · have hx1 := hx.1
          simp only [Y] at hx1
          exact Or.inr (Or.inr ⟨c, h1, c', by simp [Expr.substUnkList, evaluateList, hx1, h2]⟩)
      | ok pvs =>
        rw [hc] at ih'
        simp only [Except.map]
        exact .cons hx ih'
    | res r =>
      rw [hgx] at hx
      simp only
      cases hc : collectPV go xs with
      | error r0 =>
        rw [hc] at ih'
        simp only [Except.map]
        rcases ih' with h1 | h1 | ⟨c, h1, c', h2⟩
        · exact Or.inl h1
        · exact Or.inr (Or.inl h1)
        · refine Or.inr (Or.inr ⟨c, h1, ?_⟩)
          cases hev : evaluate req es env (x.substUnk σ) with
          | error c3 => exact ⟨c3, by simp [Expr.substUnkList, evaluateList, hev]⟩
          | ok v => exact ⟨c', by simp [Expr.substUnkList, evaluateList, hev, h2]⟩
      | ok pvs =>
        rw [hc] at ih'
        simp only [Except.map]
        exact .cons ⟨hx.1, hx.2.2⟩ ih'

theorem pvrel2_values {vs : List Value} {xs : List Expr}
    (h : ListRel (PVRel2 σ req es env) (vs.map PartialValue.value) xs) :
    evaluateList req es env (Expr.substUnkList σ xs) = .ok vs ∧ ∀ v, v ∈ vs → v.Canon := by
  induction vs generalizing xs with
  | nil => cases h; exact ⟨rfl, by simp⟩
  | cons v vs ih =>
    cases h with
    | cons h1 h2 =>
      obtain ⟨he, hd⟩ := ih h2
      have h11 := h1.1
      simp only [Y] at h11
      refine ⟨by simp [Expr.substUnkList, evaluateList, h11, he], ?_⟩
      intro w hw
      rcases List.mem_cons.mp hw with rfl | hw
      · exact h1.2
      · exact hd w hw

theorem pvrel2_asExpr {pvs : List PartialValue} {xs : List Expr} (h : ListRel (PVRel2 σ req es env) pvs xs) :
    ListRel (fun r x => Agree (Y σ req es env r) (Y σ req es env x)) (pvs.map PartialValue.asExpr) xs ∧
    ∀ r, r ∈ pvs.map PartialValue.asExpr → Frag2 σ r := by
  induction h with
  | nil => exact ⟨.nil, by simp⟩
  | @cons pv x pvs xs h1 _ ih =>
    have key : Agree (Y σ req es env pv.asExpr) (Y σ req es env x) ∧ Frag2 σ pv.asExpr := by
      cases pv with
      | value v =>
        obtain ⟨he, hd⟩ := h1
        simp only [PartialValue.asExpr]
        rw [he, Y_toExpr σ req es env hd]
        exact ⟨by simp, frag2_toExpr σ v hd⟩
      | residual r => exact h1
    refine ⟨.cons key.1 ih.1, ?_⟩
    intro r hr
    simp only [List.map_cons, List.mem_cons] at hr
    rcases hr with rfl | hr
    · exact key.2
    · exact ih.2 r hr

/-! ### records -/

variable (σ req es env)

def PVRelKV2 (pk : String × PartialValue) (xk : String × Expr) : Prop :=
  pk.1 = xk.1 ∧ PVRel2 σ req es env pk.2 xk.2

variable {σ req es env}

theorem collectKVs_sound2 (go : Expr → PRes) (kvs : List (String × Expr))
    (h : ∀ kv, kv ∈ kvs → Sound2 σ req es env (Y σ req es env kv.2) (go kv.2)) :
    match collectPVKVs go kvs with
    | .error r => r = .fuel ∨ r = .panic ∨
        (∃ c, r = .err c ∧ ∃ c', evaluateKVs req es env (Expr.substUnkKVs σ kvs) = .error c')
    | .ok pkvs => ListRel (PVRelKV2 σ req es env) pkvs kvs := by
  induction kvs with
  | nil => exact .nil
  | cons kv kvs ih =>
    obtain ⟨k, x⟩ := kv
    have ih' := ih (fun y hy => h y (List.mem_cons_of_mem _ hy))
    have hx := h (k, x) (List.mem_cons_self ..)
    simp only at hx
    simp only [collectPVKVs]
    cases hgx : go x with
    | fuel => exact Or.inl rfl
    | panic => exact Or.inr (Or.inl rfl)
    | err c =>
      rw [hgx] at hx
      obtain ⟨c', hc'⟩ := hx
      simp only [Y] at hc'
      exact Or.inr (Or.inr ⟨c, rfl, c', by simp [Expr.substUnkKVs, evaluateKVs, hc']⟩)
    | val v =>
      rw [hgx] at hx
      simp only
      cases hc : collectPVKVs go kvs with
      | error r =>
        rw [hc] at ih'
        simp only [Except.map]
        rcases ih' with h1 | h1 | ⟨c, h1, c', h2⟩
        · exact Or.inl h1
        · exact Or.inr (Or.inl h1)
        · have hx1 := hx.1
          simp only [Y] at hx1
          exact Or.inr (Or.inr ⟨c, h1, c', by simp [Expr.substUnkKVs, evaluateKVs, hx1, h2]⟩)
      | ok pvs =>
        rw [hc] at ih'
        simp only [Except.map]
        exact .cons ⟨rfl, hx⟩ ih'
    | res r =>
      rw [hgx] at hx
      simp only
      cases hc : collectPVKVs go kvs with
      | error r0 =>
        rw [hc] at ih'
        simp only [Except.map]
        rcases ih' with h1 | h1 | ⟨c, h1, c', h2⟩
        · exact Or.inl h1
        · exact Or.inr (Or.inl h1)
        · refine Or.inr (Or.inr ⟨c, h1, ?_⟩)
          cases hev : evaluate req es env (x.substUnk σ) with
          | error c3 => exact ⟨c3, by simp [Expr.substUnkKVs, evaluateKVs, hev]⟩
          | ok v => exact ⟨c', by simp [Expr.substUnkKVs, evaluateKVs, hev, h2]⟩
      | ok pvs =>
        rw [hc] at ih'
        simp only [Except.map]
        exact .cons ⟨rfl, hx.1, hx.2.2⟩ ih'

theorem pvrelKV2_keys {pkvs : List (String × PartialValue)} {kvs : List (String × Expr)}
    (h : ListRel (PVRelKV2 σ req es env) pkvs kvs) : pkvs.map Prod.fst = kvs.map Prod.fst := by
  induction h with
  | nil => rfl
  | @cons pk xk _ _ h1 _ ih => simp [h1.1, ih]

theorem pvrelKV2_values {pkvs : List (String × PartialValue)} {kvs : List (String × Expr)}
    (h : ListRel (PVRelKV2 σ req es env) pkvs kvs) :
    ∀ {vs : List Value}, pkvs.map (·.2) = vs.map PartialValue.value →
      evaluateKVs req es env (Expr.substUnkKVs σ kvs) = .ok ((pkvs.map (·.1)).zip vs) ∧ ∀ v, v ∈ vs → v.Canon := by
  induction h with
  | nil =>
    intro vs hv
    cases vs with
    | nil => exact ⟨rfl, by simp⟩
    | cons v vs => simp at hv
  | @cons pk xk pkvs kvs h1 _ ih =>
    intro vs hv
    obtain ⟨k, pv⟩ := pk
    obtain ⟨k', x⟩ := xk
    obtain ⟨hk, hr⟩ := h1
    simp only at hk hr
    subst hk
    cases vs with
    | nil => simp at hv
    | cons v vs =>
      simp only [List.map_cons, List.cons.injEq] at hv
      obtain ⟨hpv, hrest⟩ := hv
      subst hpv
      obtain ⟨he, hd⟩ := ih hrest
      have hr1 := hr.1
      simp only [Y] at hr1
      refine ⟨by simp [Expr.substUnkKVs, evaluateKVs, hr1, he], ?_⟩
      intro w hw
      rcases List.mem_cons.mp hw with rfl | hw
      · exact hr.2
      · exact hd w hw

theorem pvrelKV2_asExpr {pkvs : List (String × PartialValue)} {kvs : List (String × Expr)}
    (h : ListRel (PVRelKV2 σ req es env) pkvs kvs) :
    ListRel (fun rk xk => rk.1 = xk.1 ∧ Agree (Y σ req es env rk.2) (Y σ req es env xk.2))
      ((pkvs.map (·.1)).zip ((pkvs.map (·.2)).map PartialValue.asExpr)) kvs ∧
    (∀ rk, rk ∈ (pkvs.map (·.1)).zip ((pkvs.map (·.2)).map PartialValue.asExpr) → Frag2 σ rk.2) ∧
    ((pkvs.map (·.1)).zip ((pkvs.map (·.2)).map PartialValue.asExpr)).map Prod.fst = kvs.map Prod.fst := by
  induction h with
  | nil => exact ⟨.nil, by simp, rfl⟩
  | @cons pk xk pkvs kvs h1 _ ih =>
    obtain ⟨k, pv⟩ := pk
    obtain ⟨hk, hr⟩ := h1
    simp only at hk
    have key : Agree (Y σ req es env pv.asExpr) (Y σ req es env xk.2) ∧ Frag2 σ pv.asExpr := by
      cases pv with
      | value v =>
        obtain ⟨he, hd⟩ := hr
        simp only [PartialValue.asExpr]
        rw [he, Y_toExpr σ req es env hd]
        exact ⟨by simp, frag2_toExpr σ v hd⟩
      | residual r => exact hr
    simp only [List.map_cons, List.zip_cons_cons]
    refine ⟨.cons ⟨hk, key.1⟩ ih.1, ?_, by rw [ih.2.2, hk]⟩
    intro rk hrk
    rcases List.mem_cons.mp hrk with rfl | hrk
    · exact key.2
    · exact ih.2.1 rk hrk

end

end PS
end Cedar
