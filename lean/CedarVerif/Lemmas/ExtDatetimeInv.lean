import CedarVerif.Lemmas.ExtDatetimeParse
/-
Inversion of the datetime recognisers: every string accepted by `Datetime.parse` is one of the two declarative
forms `YYYY-MM-DD` / `YYYY-MM-DDThh:mm:ss(.SSS)?(Z|(+|-)hhmm)` (converse of `datetime_parse_exact(_date)`).
-/
namespace Cedar.Ext.Datetime

theorem takeDigits_inv (n : Nat) (s ds r : List Char) (h : takeDigits n s = some (ds, r)) :
    s = ds ++ r ∧ allDigits ds = true ∧ ds.length = n := by
  induction n generalizing s ds with
  | zero =>
    simp only [takeDigits, Option.some.injEq, Prod.mk.injEq] at h
    obtain ⟨rfl, rfl⟩ := h
    exact ⟨rfl, rfl, rfl⟩
  | succ n ih =>
    cases s with
    | nil => simp [takeDigits] at h
    | cons c cs =>
      by_cases hc : isDigit c = true
      · simp only [takeDigits, hc, if_true] at h
        cases ht : takeDigits n cs with
        | none => simp [ht] at h
        | some p =>
          obtain ⟨ds', r'⟩ := p
          simp only [ht, Option.some.injEq, Prod.mk.injEq] at h
          obtain ⟨rfl, rfl⟩ := h
          obtain ⟨e, ha, hl⟩ := ih cs ds' ht
          refine ⟨by rw [e]; rfl, by simp [hc, ha], by simp [hl]⟩
      · simp [takeDigits, hc] at h

theorem takeDigits_inv' (n : Nat) (s ds r : List Char) (h : takeDigits n s = some (ds, r)) :
    s = ds ++ r ∧ digitsN n ds :=
  let ⟨a, b, c⟩ := takeDigits_inv n s ds r h; ⟨a, b, c⟩

theorem expect_inv (c : Char) (s r : List Char) (h : expect c s = some r) : s = c :: r := by
  cases s with
  | nil => simp [expect] at h
  | cons c' cs =>
    by_cases hc : (c == c') = true
    · simp only [expect, hc, if_true, Option.some.injEq] at h
      rw [eq_of_beq hc, h]
    · simp [expect, hc] at h

theorem parseDate_inv (s : List Char) (v : Nat × Nat × Nat) (r : List Char) (h : parseDate s = some (v, r)) :
    ∃ ys ms ds, digitsN 4 ys ∧ digitsN 2 ms ∧ digitsN 2 ds ∧ s = renderDate ys ms ds r ∧
      v = (natOfDigits ys, natOfDigits ms, natOfDigits ds) := by
  unfold parseDate at h
  cases h1 : takeDigits 4 s with
  | none => simp [h1] at h
  | some p1 =>
    obtain ⟨ys, s1⟩ := p1
    simp only [h1] at h
    cases h2 : expect '-' s1 with
    | none => simp [h2] at h
    | some s2 =>
      simp only [h2] at h
      cases h3 : takeDigits 2 s2 with
      | none => simp [h3] at h
      | some p3 =>
        obtain ⟨ms, s3⟩ := p3
        simp only [h3] at h
        cases h4 : expect '-' s3 with
        | none => simp [h4] at h
        | some s4 =>
          simp only [h4] at h
          cases h5 : takeDigits 2 s4 with
          | none => simp [h5] at h
          | some p5 =>
            obtain ⟨ds, s5⟩ := p5
            simp only [h5, Option.some.injEq, Prod.mk.injEq] at h
            obtain ⟨hv, rfl⟩ := h
            obtain ⟨e1, d1⟩ := takeDigits_inv' _ _ _ _ h1
            have e2 := expect_inv _ _ _ h2
            obtain ⟨e3, d3⟩ := takeDigits_inv' _ _ _ _ h3
            have e4 := expect_inv _ _ _ h4
            obtain ⟨e5, d5⟩ := takeDigits_inv' _ _ _ _ h5
            refine ⟨ys, ms, ds, d1, d3, d5, ?_, hv.symm⟩
            rw [renderDate, e1, e2, e3, e4, e5]

theorem parseHMS_inv (s : List Char) (v : Nat × Nat × Nat) (r : List Char) (h : parseHMS s = some (v, r)) :
    ∃ hs mis ss, digitsN 2 hs ∧ digitsN 2 mis ∧ digitsN 2 ss ∧
      s = 'T' :: (hs ++ ':' :: (mis ++ ':' :: (ss ++ r))) ∧
      v = (natOfDigits hs, natOfDigits mis, natOfDigits ss) := by
  unfold parseHMS at h
  cases h0 : expect 'T' s with
  | none => simp [h0] at h
  | some s0 =>
    simp only [h0] at h
    cases h1 : takeDigits 2 s0 with
    | none => simp [h1] at h
    | some p1 =>
      obtain ⟨hs, s1⟩ := p1
      simp only [h1] at h
      cases h2 : expect ':' s1 with
      | none => simp [h2] at h
      | some s2 =>
        simp only [h2] at h
        cases h3 : takeDigits 2 s2 with
        | none => simp [h3] at h
        | some p3 =>
          obtain ⟨mis, s3⟩ := p3
          simp only [h3] at h
          cases h4 : expect ':' s3 with
          | none => simp [h4] at h
          | some s4 =>
            simp only [h4] at h
            cases h5 : takeDigits 2 s4 with
            | none => simp [h5] at h
            | some p5 =>
              obtain ⟨ss, s5⟩ := p5
              simp only [h5, Option.some.injEq, Prod.mk.injEq] at h
              obtain ⟨hv, rfl⟩ := h
              have e0 := expect_inv _ _ _ h0
              obtain ⟨e1, d1⟩ := takeDigits_inv' _ _ _ _ h1
              have e2 := expect_inv _ _ _ h2
              obtain ⟨e3, d3⟩ := takeDigits_inv' _ _ _ _ h3
              have e4 := expect_inv _ _ _ h4
              obtain ⟨e5, d5⟩ := takeDigits_inv' _ _ _ _ h5
              refine ⟨hs, mis, ss, d1, d3, d5, ?_, hv.symm⟩
              rw [e0, e1, e2, e3, e4, e5]

/-- the sign branch of `parseOffset` -/
theorem parseOffset_sign_inv (sign : Char) (r : List Char) (v : Int × Bool)
    (h : (if sign == '+' || sign == '-' then
            match takeDigits 2 r with
            | none => none
            | some (hh, r) => match takeDigits 2 r with
              | none => none
              | some (mm, r) =>
                if !r.isEmpty then none else
                let hh := natOfDigits hh; let mm := natOfDigits mm
                let secs : Int := ((hh * 3600 + mm * 60 : Nat) : Int)
                some (if sign == '+' then secs else -secs, decide (hh < 24) && decide (mm < 60))
          else (none : Option (Int × Bool))) = some v) :
    ∃ pos hh mm, digitsN 2 hh ∧ digitsN 2 mm ∧ sign :: r = renderOffset (some (pos, hh, mm)) ∧
      v = (offSecs (some (pos, hh, mm)), offOk (some (pos, hh, mm))) := by
  by_cases hs : (sign == '+' || sign == '-') = true
  · simp only [hs, if_true] at h
    cases h1 : takeDigits 2 r with
    | none => simp [h1] at h
    | some p1 =>
      obtain ⟨hh, r1⟩ := p1
      simp only [h1] at h
      cases h2 : takeDigits 2 r1 with
      | none => simp [h2] at h
      | some p2 =>
        obtain ⟨mm, r2⟩ := p2
        simp only [h2] at h
        obtain ⟨e1, d1⟩ := takeDigits_inv' _ _ _ _ h1
        obtain ⟨e2, d2⟩ := takeDigits_inv' _ _ _ _ h2
        cases r2 with
        | cons x xs => simp at h
        | nil =>
          simp only [List.isEmpty_nil, Bool.not_true, Bool.false_eq_true, if_false, Option.some.injEq] at h
          rw [List.append_nil] at e2
          subst e2
          by_cases hp : (sign == '+') = true
          · refine ⟨true, hh, r1, d1, d2, ?_, ?_⟩
            · simp only [renderOffset, if_true, e1, eq_of_beq hp]
            · rw [← h]; simp only [hp, if_true, offSecs, offOk]
          · have hm : (sign == '-') = true := by
              simp only [Bool.or_eq_true] at hs
              rcases hs with hs | hs
              · exact absurd hs hp
              · exact hs
            refine ⟨false, hh, r1, d1, d2, ?_, ?_⟩
            · simp only [renderOffset, Bool.false_eq_true, if_false, e1, eq_of_beq hm]
            · rw [← h]; simp only [hp, Bool.false_eq_true, if_false, offSecs, offOk]
  · simp [hs] at h

theorem parseOffset_inv (s : List Char) (v : Int × Bool) (h : parseOffset s = some v) :
    ∃ off, offWF off ∧ s = renderOffset off ∧ v = (offSecs off, offOk off) := by
  unfold parseOffset at h
  split at h
  · simp only [Option.some.injEq] at h
    exact ⟨none, trivial, rfl, h.symm⟩
  · obtain ⟨pos, hh, mm, d1, d2, e, hv⟩ := parseOffset_sign_inv _ _ _ h
    exact ⟨some (pos, hh, mm), ⟨d1, d2⟩, e, hv⟩
  · simp at h

theorem parseMsOffset_inv (s : List Char) (v : Nat × Int × Bool) (h : parseMsOffset s = some v) :
    ∃ m3 off, msWF m3 ∧ offWF off ∧ s = renderMs m3 (renderOffset off) ∧
      v = (msVal m3, offSecs off, offOk off) := by
  unfold parseMsOffset at h
  split at h
  · rename_i r
    cases h1 : takeDigits 3 r with
    | none => simp [h1] at h
    | some p1 =>
      obtain ⟨m3, r1⟩ := p1
      simp only [h1] at h
      cases h2 : parseOffset r1 with
      | none => simp [h2] at h
      | some p2 =>
        obtain ⟨o, ok⟩ := p2
        simp only [h2, Option.some.injEq] at h
        obtain ⟨e1, d1⟩ := takeDigits_inv' _ _ _ _ h1
        obtain ⟨off, hw, e2, hv⟩ := parseOffset_inv _ _ h2
        simp only [Prod.mk.injEq] at hv
        refine ⟨some m3, off, d1, hw, ?_, ?_⟩
        · simp only [renderMs, e1, e2]
        · rw [← h, hv.1, hv.2]; rfl
  · cases h2 : parseOffset s with
    | none => simp [h2] at h
    | some p2 =>
      obtain ⟨o, ok⟩ := p2
      simp only [h2, Option.some.injEq] at h
      obtain ⟨off, hw, e2, hv⟩ := parseOffset_inv _ _ h2
      simp only [Prod.mk.injEq] at hv
      refine ⟨none, off, trivial, hw, ?_, ?_⟩
      · simp only [renderMs, e2]
      · rw [← h, hv.1, hv.2]; rfl

/-- **converse of `datetime_parse_exact(_date)`**: every string accepted by `Datetime.parse` is of one of the two
    declarative forms -/
theorem parse_only_lang (s : String) (v : Int) (h : Datetime.parse s = some v) :
    (∃ ys ms ds, digitsN 4 ys ∧ digitsN 2 ms ∧ digitsN 2 ds ∧ s.toList = renderDate ys ms ds []) ∨
    (∃ ys ms ds hs mis ss m3 off, digitsN 4 ys ∧ digitsN 2 ms ∧ digitsN 2 ds ∧
      digitsN 2 hs ∧ digitsN 2 mis ∧ digitsN 2 ss ∧ msWF m3 ∧ offWF off ∧
      s.toList = renderDate ys ms ds (renderTime hs mis ss m3 off)) := by
  unfold Datetime.parse at h
  cases h1 : parseDate s.toList with
  | none => simp [h1] at h
  | some p1 =>
    obtain ⟨v1, r1⟩ := p1
    obtain ⟨ys, ms, ds, d1, d2, d3, e1, _⟩ := parseDate_inv _ _ _ h1
    obtain ⟨y, mo, d⟩ := v1
    simp only [h1] at h
    cases r1 with
    | nil => exact Or.inl ⟨ys, ms, ds, d1, d2, d3, e1⟩
    | cons c cs =>
      simp only [List.isEmpty_cons, Bool.false_eq_true, if_false] at h
      cases h2 : parseHMS (c :: cs) with
      | none => simp [h2] at h
      | some p2 =>
        obtain ⟨v2, r2⟩ := p2
        obtain ⟨hs, mis, ss, d4, d5, d6, e2, _⟩ := parseHMS_inv _ _ _ h2
        obtain ⟨hh, mi, sec⟩ := v2
        simp only [h2] at h
        cases h3 : parseMsOffset r2 with
        | none => simp [h3] at h
        | some p3 =>
          obtain ⟨m3, off, d7, d8, e3, _⟩ := parseMsOffset_inv _ _ h3
          refine Or.inr ⟨ys, ms, ds, hs, mis, ss, m3, off, d1, d2, d3, d4, d5, d6, d7, d8, ?_⟩
          rw [e1, e2, e3, renderTime]

-- non-vacuity: the hypothesis holds on concrete inputs of both forms (and the `Z` / `.SSS` / sign corners)
example : Datetime.parse "2024-02-29T23:59:59.999+0530" = some 1709231399999 ∧
    Datetime.parse "2024-02-29" = some 1709164800000 ∧ Datetime.parse "1969-12-31T23:59:59Z" = some (-1000) ∧
    Datetime.parse "1970-01-02T00:00:00.001-0100" = some 90000001 := by decide +kernel
example : ∃ ys ms ds hs mis ss m3 off, digitsN 4 ys ∧ digitsN 2 ms ∧ digitsN 2 ds ∧
      digitsN 2 hs ∧ digitsN 2 mis ∧ digitsN 2 ss ∧ msWF m3 ∧ offWF off ∧
      "2024-02-29T23:59:59.999+0530".toList = renderDate ys ms ds (renderTime hs mis ss m3 off) := by
  rcases parse_only_lang "2024-02-29T23:59:59.999+0530" 1709231399999 (by decide +kernel) with h | h
  · obtain ⟨ys, ms, ds, h1, h2, h3, e⟩ := h
    exfalso
    have hl := congrArg List.length e
    simp only [renderDate, List.length_append, List.length_cons, List.length_nil, h1.2, h2.2, h3.2] at hl
    revert hl; decide +kernel
  · exact h

end Cedar.Ext.Datetime
