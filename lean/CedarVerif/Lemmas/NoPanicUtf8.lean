import CedarVerif.Cedar.NoPanic.Utf8
/- C20 helper lemmas: slicing a string at the end of a char-prefix is always in bounds and on a char boundary. -/
namespace Cedar
namespace NoPanic
open Cedar.Ext.IPAddr (utf8Len)

theorem utf8Len_pos (c : Char) : 0 < utf8Len c := by
  unfold utf8Len; simp only; split <;> (try split) <;> (try split) <;> omega

theorem sliceFrom_zero (s : List Char) : sliceFrom s 0 = some s := by
  cases s <;> rfl

/-- `&(p ++ r)[bytes p ..] = r`: the end of a char-prefix is a char boundary -/
theorem sliceFrom_prefix : ∀ (p r : List Char), sliceFrom (p ++ r) (bytes p) = some r
  | [], r => by simp [bytes, sliceFrom_zero]
  | x :: p, r => by
    have hx := utf8Len_pos x
    obtain ⟨n, hn⟩ : ∃ n, utf8Len x + bytes p = n + 1 := ⟨utf8Len x + bytes p - 1, by omega⟩
    simp only [bytes, List.cons_append, hn, sliceFrom]
    have : ¬ (n + 1 < utf8Len x) := by omega
    rw [if_neg this]
    have : n + 1 - utf8Len x = bytes p := by omega
    rw [this]
    exact sliceFrom_prefix p r

/-- what `find` returns is the byte length of the chars before the first occurrence -/
theorem find_some : ∀ (s : List Char) (c : Char) (i : Nat), find c s = some i →
    ∃ p r, s = p ++ c :: r ∧ i = bytes p ∧ c ∉ p
  | [], c, i, h => by simp [find] at h
  | x :: xs, c, i, h => by
    unfold find at h
    by_cases hx : (x == c) = true
    · rw [if_pos hx] at h
      have : x = c := by simpa using hx
      subst this
      refine ⟨[], xs, rfl, ?_, by simp⟩
      simpa [bytes] using (Option.some.inj h).symm
    · rw [if_neg hx] at h
      cases hf : find c xs with
      | none => rw [hf] at h; simp at h
      | some j =>
        rw [hf] at h
        obtain ⟨p, r, hs, hj, hp⟩ := find_some xs c j hf
        refine ⟨x :: p, r, by rw [hs]; rfl, ?_, ?_⟩
        · simp only [Option.map_some, Option.some.injEq] at h
          simp only [bytes]; omega
        · intro hmem
          rcases List.mem_cons.mp hmem with h1 | h1
          · exact hx (by simp [h1])
          · exact hp h1

theorem find_isSome_iff (c : Char) : ∀ (s : List Char), (find c s).isSome = s.contains c
  | [] => by simp [find]
  | x :: xs => by
    unfold find
    by_cases hx : (x == c) = true
    · have : x = c := by simpa using hx
      subst this
      simp
    · rw [if_neg hx]
      have hne : ¬ (x = c) := by simpa using hx
      simp [find_isSome_iff c xs]
      intro h; exact absurd h.symm hne

/-- the slice in `contains_at_least_two` is always `Some`: in bounds and on a char boundary -/
theorem slice_after_find (s : List Char) (c : Char) (i : Nat) (h : find c s = some i) :
    ∃ p r, s = p ++ c :: r ∧ c ∉ p ∧ sliceFrom s (i + utf8Len c) = some r := by
  obtain ⟨p, r, hs, hi, hp⟩ := find_some s c i h
  refine ⟨p, r, hs, hp, ?_⟩
  have hb : ∀ q : List Char, bytes q + utf8Len c = bytes (q ++ [c]) := by
    intro q
    induction q with
    | nil => simp [bytes]
    | cons x q ih => simp only [bytes, List.cons_append]; omega
  have : i + utf8Len c = bytes (p ++ [c]) := by rw [hi]; exact hb p
  rw [this, hs]
  have := sliceFrom_prefix (p ++ [c]) r
  simpa using this

end NoPanic
end Cedar
