import CedarVerif.Lemmas.TypecheckGood
/-
C03: `strict_implies_permissive` for every expression of the strict fragment: the types strict typing assigns are "good"
(closed records with distinct keys, single entity types), and on good types the two least upper bounds agree.
-/
namespace Cedar.C03

open Cedar

/-- `SchemaWF2` plus: the record types the schema declares are closed with distinct keys (true of every schema Rust
constructs without partial-schema support: `Attributes` is a map, `OpenTag::ClosedAttributes`) -/
structure SchemaWF3 (s : Schema) : Prop extends SchemaWF2 s where
  et_cn : ∀ T et, s.entityType? T = some et → cnAttrs et.attrs = true ∧ ∀ t, et.tags = some t → cn t = true
  act_cn : ∀ u a, s.action? u = some a → cn a.context = true
  acts_map : ∀ p, p ∈ s.acts → s.action? p.1 = some p.2

theorem flat_cn {τ : CedarType} (h : τ.flat = true) : cn τ = true := by
  cases τ <;> simp [CedarType.flat] at h <;> rfl

theorem bool_cn (b : BoolType) : cn (.bool b) = true := rfl

theorem cn_find {attrs : Attrs} {k : String} {r : Bool} {t : CedarType} (hc : cnAttrs attrs = true)
    (h : Attrs.find? attrs k = some (r, t)) : cn t = true :=
  (cnAttrs_iff.mp hc) k r t (find_mem h)

theorem lookupAttr_cn {s : Schema} {τe : CedarType} {a : String} {req : Bool} {τa : CedarType} (hWF : SchemaWF3 s)
    (hm : τe.mono = true) (hc : cn τe = true) (h : lookupAttr s τe a = some (req, τa)) : cn τa = true := by
  cases τe <;> simp only [lookupAttr] at h <;> try (cases h)
  · simp only [cn, Bool.and_eq_true] at hc
    exact cn_find hc.1.2 h
  · obtain ⟨T, rfl⟩ := mono_entity hm
    rw [lubAttrs_single] at h
    cases het : s.entityType? T with
    | none => rw [het] at h; simp [Attrs.find?] at h
    | some et => rw [het] at h; exact cn_find (hWF.et_cn _ _ het).1 h

theorem extSig_ret_flat {fn : String} {sig : ExtSig} (h : extSig fn = some sig) : sig.ret.flat = true := by
  unfold extSig at h
  simp only at h
  split at h <;> first | (cases h; rfl) | cases h

theorem typeOfInGeneral_flat {s : Schema} {τa τb τ : CedarType} {c' : Capabilities}
    (h : typeOfInGeneral s τa τb = .ok (τ, c')) : τ.flat = true := by
  unfold typeOfInGeneral at h
  split at h
  · split at h <;> simp only [ok, Except.ok.injEq, Prod.mk.injEq] at h <;> (rw [← h.1]; rfl)
  · simp only [ok, Except.ok.injEq, Prod.mk.injEq] at h; rw [← h.1]; rfl

theorem cmpType_flat {τa τb τ : CedarType} {c : Capabilities} (h : cmpType τa τb = .ok (τ, c)) : τ.flat = true := by
  unfold cmpType at h
  split at h
  · cases h
  · split at h <;> simp only [ok, Except.ok.injEq, Prod.mk.injEq, reduceCtorEq] at h; rw [← h.1]; rfl
  · split at h <;> simp only [ok, Except.ok.injEq, Prod.mk.injEq, reduceCtorEq] at h; rw [← h.1]; rfl
  · split at h <;> simp only [ok, Except.ok.injEq, Prod.mk.injEq, reduceCtorEq] at h; rw [← h.1]; rfl


theorem getTag_inv {m : ValidationMode} {s : Schema} {a b : Expr} {caps : Capabilities} {T : EntityType} {τ : CedarType}
    {c' : Capabilities}
    (h : (if caps.has (Capability.tag a b) = true then
            (match tagTypes s [T] with
             | [] => (.error .fail : TcResult)
             | ts => match lubAll m ts with
               | some τ => ok τ
               | none => .error .fail)
          else .error .fail) = .ok (τ, c')) : ∃ et, s.entityType? T = some et ∧ et.tags = some τ := by
  split at h
  · rw [tagTypes_single] at h
    cases het : s.entityType? T with
    | none => rw [het] at h; cases h
    | some et =>
      rw [het] at h; simp only at h
      cases htag : et.tags with
      | none => rw [htag] at h; cases h
      | some t =>
        rw [htag] at h
        simp only [lubAll_single, ok, Except.ok.injEq, Prod.mk.injEq] at h
        exact ⟨et, rfl, by rw [htag, h.1]⟩
  · cases h

mutual
theorem typeOf_cn {s : Schema} {env : RequestEnv} {q : Request} (hWF : SchemaWF3 s) (henv : EnvMatches s env q) :
    ∀ (e : Expr), InFragment2 env e = true → ∀ (caps : Capabilities) (τ : CedarType) (c' : Capabilities),
      typeOf .strict s env e caps = .ok (τ, c') → cn τ = true
  | .lit p, _, caps, τ, c', h => by
    cases p with
    | entityUID u =>
      simp only [typeOf] at h
      cases hl : euidLiteralType s u with
      | none => rw [hl] at h; cases h
      | some τ' =>
        rw [hl] at h
        simp only [ok, Except.ok.injEq, Prod.mk.injEq] at h
        rw [← h.1, euidLiteralType_some hl]; rfl
    | bool b => exact flat_cn (flat_typeOf (e := .lit (.bool b)) rfl h)
    | int i => exact flat_cn (flat_typeOf (e := .lit (.int i)) rfl h)
    | string x => exact flat_cn (flat_typeOf (e := .lit (.string x)) rfl h)
  | .var v, _, caps, τ, c', h => by
    obtain ⟨_, _, _, act, hact, hctx⟩ := henv
    cases v with
    | principal => simp only [typeOf, ok, Except.ok.injEq, Prod.mk.injEq] at h; rw [← h.1]; rfl
    | resource => simp only [typeOf, ok, Except.ok.injEq, Prod.mk.injEq] at h; rw [← h.1]; rfl
    | action =>
      simp only [typeOf] at h
      cases hl : euidLiteralType s env.action with
      | none => rw [hl] at h; cases h
      | some τ' =>
        rw [hl] at h
        simp only [ok, Except.ok.injEq, Prod.mk.injEq] at h
        rw [← h.1, euidLiteralType_some hl]; rfl
    | context =>
      simp only [typeOf, ok, Except.ok.injEq, Prod.mk.injEq] at h
      rw [← h.1, hctx]; exact hWF.act_cn _ _ hact
  | .slot sid, _, caps, τ, c', h => by
    cases sid <;> simp only [typeOf, ok, Except.ok.injEq, Prod.mk.injEq] at h <;> (rw [← h.1]; split <;> rfl)
  | .unknown _ _, _, _, _, _, h => by simp [typeOf] at h
  | .and a b, _, caps, τ, c', h => flat_cn (flat_typeOf (e := .and a b) rfl h)
  | .or a b, _, caps, τ, c', h => flat_cn (flat_typeOf (e := .or a b) rfl h)
  | .hasAttr e a, _, caps, τ, c', h => flat_cn (flat_typeOf (e := .hasAttr e a) rfl h)
  | .like e p, _, caps, τ, c', h => flat_cn (flat_typeOf (e := .like e p) rfl h)
  | .is e ty, _, caps, τ, c', h => flat_cn (flat_typeOf (e := .is e ty) rfl h)
  | .unaryApp op a, _, caps, τ, c', h => by
    cases op with
    | not => exact flat_cn (flat_typeOf (e := .unaryApp .not a) rfl h)
    | neg => exact flat_cn (flat_typeOf (e := .unaryApp .neg a) rfl h)
    | isEmpty =>
      simp only [typeOf] at h
      split at h <;> simp only [ok, Except.ok.injEq, Prod.mk.injEq, reduceCtorEq] at h
      rw [← h.1]; rfl
  | .binaryApp op a b, hf, caps, τ, c', h => by
    simp only [InFragment2, InFragmentM, Bool.and_eq_true] at hf
    cases op with
    | eq => exact flat_cn (flat_typeOf (e := .binaryApp .eq a b) rfl h)
    | add => exact flat_cn (flat_typeOf (e := .binaryApp .add a b) rfl h)
    | sub => exact flat_cn (flat_typeOf (e := .binaryApp .sub a b) rfl h)
    | mul => exact flat_cn (flat_typeOf (e := .binaryApp .mul a b) rfl h)
    | less =>
      simp only [typeOf] at h
      obtain ⟨_, _, _, _, _, _, hk⟩ := both_ok h
      exact flat_cn (cmpType_flat hk)
    | lessEq =>
      simp only [typeOf] at h
      obtain ⟨_, _, _, _, _, _, hk⟩ := both_ok h
      exact flat_cn (cmpType_flat hk)
    | mem =>
      simp only [typeOf] at h
      obtain ⟨_, _, _, _, _, _, hk⟩ := both_ok h
      split at hk
      · split at hk
        · simp only [ok, Except.ok.injEq, Prod.mk.injEq] at hk
          rw [← hk.1, typeOfActionIn_eq]; split <;> rfl
        · exact flat_cn (typeOfInGeneral_flat hk)
      · exact flat_cn (typeOfInGeneral_flat hk)
    | contains =>
      simp only [typeOf] at h
      obtain ⟨_, _, _, _, _, _, hk⟩ := both_ok h
      rw [(ite_err_ok hk).1]; rfl
    | containsAll =>
      simp only [typeOf] at h
      obtain ⟨_, _, _, _, _, _, hk⟩ := both_ok h
      rw [(ite_err_ok hk).1]; rfl
    | containsAny =>
      simp only [typeOf] at h
      obtain ⟨_, _, _, _, _, _, hk⟩ := both_ok h
      rw [(ite_err_ok hk).1]; rfl
    | hasTag =>
      simp only [typeOf] at h
      obtain ⟨_, _, _, _, _, _, hk⟩ := both_ok h
      split at hk
      · simp only [Except.ok.injEq, Prod.mk.injEq] at hk
        rw [← hk.1]; split; rfl; split <;> rfl
      · cases hk
    | getTag =>
      simp only [typeOf] at h
      obtain ⟨τa, ca, τb, cb, hA, hB, hk⟩ := both_ok h
      obtain ⟨hta, hsa⟩ := expectOneOf_ok hA
      have hma := (sound2 (w := ⟨q, [], []⟩) hWF.toSchemaWF2 henv a hf.1.2 caps τa ca hta).1
      rcases subtype_anyEntity hsa with rfl | rfl | ⟨l, rfl⟩
      · simp [CedarType.mono] at hma
      · simp [CedarType.mono] at hma
      · obtain ⟨T, rfl⟩ := mono_entity hma
        simp only at hk
        obtain ⟨et, het, htag⟩ := getTag_inv hk
        exact (hWF.et_cn _ _ het).2 _ htag
  | .call fn args, _, caps, τ, c', h => by
    simp only [typeOf] at h
    cases hsig : extSig fn with
    | none =>
      rw [hsig] at h; simp only at h
      split at h <;> cases h
    | some sig =>
      rw [hsig] at h; simp only at h
      cases hL : typeOfList .strict s env args caps with
      | error err => rw [hL] at h; cases h
      | ok τs =>
        rw [hL] at h; simp only at h
        split at h
        · cases h
        · split at h
          · simp only [ok, Except.ok.injEq, Prod.mk.injEq] at h
            rw [← h.1]; exact flat_cn (extSig_ret_flat hsig)
          · cases h
  | .getAttr e a, hf, caps, τ, c', h => by
    simp only [InFragment2, InFragmentM] at hf
    have ihe := typeOf_cn hWF henv e hf
    simp only [typeOf] at h
    cases hE : expectOneOf (typeOf .strict s env e caps) [.anyEntity, anyRecord] with
    | error err => rw [hE] at h; cases h
    | ok pe =>
      obtain ⟨τe, ce⟩ := pe
      rw [hE] at h
      obtain ⟨hte, _⟩ := expectOneOf_ok hE
      have hme := (sound2 (w := ⟨q, [], []⟩) hWF.toSchemaWF2 henv e hf caps τe ce hte).1
      have hce := ihe caps τe ce hte
      split at h
      · cases h
      · cases h
      · rename_i τe' ce' hne heq
        simp only [Except.ok.injEq, Prod.mk.injEq] at heq; obtain ⟨rfl, rfl⟩ := heq
        cases hl : lookupAttr s τe a with
        | none => rw [hl] at h; cases h
        | some qt =>
          obtain ⟨req, τa⟩ := qt
          rw [hl] at h; simp only at h
          split at h
          · simp only [ok, Except.ok.injEq, Prod.mk.injEq] at h
            rw [← h.1]; exact lookupAttr_cn hWF hme hce hl
          · cases h
  | .ite c t e, hf, caps, τ, c', h => by
    simp only [InFragment2, InFragmentM, Bool.and_eq_true] at hf
    obtain ⟨⟨⟨hfc, hft⟩, hfe⟩, _⟩ := hf
    have iht := typeOf_cn hWF henv t hft
    have ihe := typeOf_cn hWF henv e hfe
    simp only [typeOf] at h
    cases hC : expectOneOf (typeOf .strict s env c caps) [boolT] with
    | error err => rw [hC] at h; cases h
    | ok pc =>
      obtain ⟨τc, cc⟩ := pc
      rw [hC] at h; simp only at h
      split at h
      · cases hT : typeOf .strict s env t (caps.union cc) with
        | error err => rw [hT] at h; cases h
        | ok pt =>
          obtain ⟨τt, ct⟩ := pt
          rw [hT] at h; simp only [Except.ok.injEq, Prod.mk.injEq] at h
          rw [← h.1]; exact iht _ τt ct hT
      · split at h
        · exact ihe caps τ c' h
        · obtain ⟨τt, ct, τe, ce, hT, hE, hk⟩ := both_ok h
          cases hl : lub .strict τt τe with
          | none => rw [hl] at hk; cases hk
          | some τl =>
            rw [hl] at hk
            simp only [Except.ok.injEq, Prod.mk.injEq] at hk
            rw [← hk.1]
            have gt : GoodTy τt := ⟨(sound2 (w := ⟨q, [], []⟩) hWF.toSchemaWF2 henv t hft _ τt ct hT).1, iht _ τt ct hT⟩
            have ge : GoodTy τe := ⟨(sound2 (w := ⟨q, [], []⟩) hWF.toSchemaWF2 henv e hfe _ τe ce hE).1, ihe _ τe ce hE⟩
            exact (lub_good gt ge hl).2
  | .set es, hf, caps, τ, c', h => by
    simp only [InFragment2, InFragmentM, Bool.and_eq_true] at hf
    have ih := typeOfList_cn hWF henv es hf.1
    simp only [typeOf] at h
    cases hL : typeOfList .strict s env es caps with
    | error err => rw [hL] at h; cases h
    | ok τs =>
      rw [hL] at h; simp only at h
      split at h
      · cases h
      · rename_i hne
        cases hlub : lubAll .strict τs with
        | none => rw [hlub] at h; cases h
        | some τ' =>
          rw [hlub] at h
          simp only [ok, Except.ok.injEq, Prod.mk.injEq] at h
          rw [← h.1]
          have hne' : τs ≠ [] := by
            cases es with
            | nil => simp [ValidationMode.isStrict] at hne
            | cons e es' => obtain ⟨_, _, _, _, _, rfl⟩ := typeOfList_cons hL; simp
          have hall : ∀ t, t ∈ τs → GoodTy t := fun t ht =>
            ⟨(soundMList (m := .strict) (w := ⟨q, [], []⟩) hWF.toSchemaWF2 henv es hf.1 caps τs hL).1 t ht, ih caps τs hL t ht⟩
          simp only [cn]
          exact (lubAll_strict_perm hall hne' hlub).2.2
  | .record kvs, hf, caps, τ, c', h => by
    simp only [InFragment2, InFragmentM, Bool.and_eq_true, decide_eq_true_eq] at hf
    have ih := typeOfKVs_cn hWF henv kvs hf.1
    simp only [typeOf] at h
    cases hL : typeOfKVs .strict s env kvs caps with
    | error err => rw [hL] at h; cases h
    | ok attrs =>
      rw [hL] at h
      simp only [ok, Except.ok.injEq, Prod.mk.injEq] at h
      rw [← h.1]
      simp only [cn, Bool.not_false, Bool.true_and, Bool.and_eq_true, decide_eq_true_eq]
      exact ⟨ih caps attrs hL, by rw [typeOfKVs_keys hL]; exact hf.2⟩
theorem typeOfList_cn {s : Schema} {env : RequestEnv} {q : Request} (hWF : SchemaWF3 s) (henv : EnvMatches s env q) :
    ∀ (es : List Expr), InFragment2List env es = true → ∀ (caps : Capabilities) (τs : List CedarType),
      typeOfList .strict s env es caps = .ok τs → ∀ t, t ∈ τs → cn t = true
  | [], _, caps, τs, h, t, ht => by
    simp only [typeOfList, Except.ok.injEq] at h; subst h; cases ht
  | e :: es, hf, caps, τs, h, t, ht => by
    simp only [InFragment2List, InFragmentMList, Bool.and_eq_true] at hf
    obtain ⟨τ, c, τs', h1, h2, rfl⟩ := typeOfList_cons h
    rcases List.mem_cons.mp ht with rfl | ht
    · exact typeOf_cn hWF henv e hf.1 caps _ c h1
    · exact typeOfList_cn hWF henv es hf.2 caps τs' h2 t ht
theorem typeOfKVs_cn {s : Schema} {env : RequestEnv} {q : Request} (hWF : SchemaWF3 s) (henv : EnvMatches s env q) :
    ∀ (kvs : List (String × Expr)), InFragment2KVs env kvs = true → ∀ (caps : Capabilities) (attrs : Attrs),
      typeOfKVs .strict s env kvs caps = .ok attrs → cnAttrs attrs = true
  | [], _, caps, attrs, h => by
    simp only [typeOfKVs, Except.ok.injEq] at h; subst h; rfl
  | (k, e) :: es, hf, caps, attrs, h => by
    simp only [InFragment2KVs, InFragmentMKVs, Bool.and_eq_true] at hf
    obtain ⟨τ, c, attrs', h1, h2, rfl⟩ := typeOfKVs_cons h
    simp only [cnAttrs, Bool.and_eq_true]
    exact ⟨typeOf_cn hWF henv e hf.1 caps τ c h1, typeOfKVs_cn hWF henv es hf.2 caps attrs' h2⟩
end


/-! ### the induction: same type and capabilities in permissive mode -/

mutual
theorem sipG {s : Schema} {env : RequestEnv} {q : Request} (hWF : SchemaWF3 s) (henv : EnvMatches s env q) :
    ∀ (e : Expr), InFragment2 env e = true → ∀ (caps : Capabilities),
      Transfers (typeOf .strict s env e caps) (typeOf .permissive s env e caps)
  | .lit p, _, caps => by rw [(leaf_modes s env caps).1 p]; exact transfers_refl _
  | .var v, _, caps => by rw [(leaf_modes s env caps).2.1 v]; exact transfers_refl _
  | .slot sl, _, caps => by rw [(leaf_modes s env caps).2.2 sl]; exact transfers_refl _
  | .unknown _ _, _, caps => by intro x hx; simp [typeOf] at hx
  | .and a b, hf, caps => by
    simp only [InFragment2, InFragmentM, Bool.and_eq_true] at hf
    have iha := sipG hWF henv a hf.1
    have ihb := sipG hWF henv b hf.2
    intro x hx
    simp only [typeOf] at hx ⊢
    cases hA : expectOneOf (typeOf .strict s env a caps) [boolT] with
    | error err => rw [hA] at hx; cases hx
    | ok pa =>
      obtain ⟨τa, ca⟩ := pa
      rw [hA] at hx; rw [(iha caps).expect _ _ hA]
      simp only at hx ⊢
      split at hx
      · rename_i hfalse; rw [if_pos hfalse]; exact hx
      · rename_i hfalse; rw [if_neg hfalse]
        cases hB : expectOneOf (typeOf .strict s env b (caps.union ca)) [boolT] with
        | error err => rw [hB] at hx; cases hx
        | ok pb => rw [hB] at hx; rw [(ihb _).expect _ _ hB]; exact hx
  | .or a b, hf, caps => by
    simp only [InFragment2, InFragmentM, Bool.and_eq_true] at hf
    have iha := sipG hWF henv a hf.1
    have ihb := sipG hWF henv b hf.2
    intro x hx
    simp only [typeOf] at hx ⊢
    cases hA : expectOneOf (typeOf .strict s env a caps) [boolT] with
    | error err => rw [hA] at hx; cases hx
    | ok pa =>
      obtain ⟨τa, ca⟩ := pa
      rw [hA] at hx; rw [(iha caps).expect _ _ hA]
      simp only at hx ⊢
      split at hx
      · rename_i htrue; rw [if_pos htrue]; exact hx
      · rename_i htrue; rw [if_neg htrue]
        cases hB : expectOneOf (typeOf .strict s env b caps) [boolT] with
        | error err => rw [hB] at hx; cases hx
        | ok pb => rw [hB] at hx; rw [(ihb _).expect _ _ hB]; exact hx
  | .ite c t e, hf, caps => by
    simp only [InFragment2, InFragmentM, Bool.and_eq_true] at hf
    obtain ⟨⟨⟨hfc, hft⟩, hfe⟩, _⟩ := hf
    have ihc := sipG hWF henv c hfc
    have iht := sipG hWF henv t hft
    have ihe := sipG hWF henv e hfe
    intro x hx
    simp only [typeOf] at hx ⊢
    cases hC : expectOneOf (typeOf .strict s env c caps) [boolT] with
    | error err => rw [hC] at hx; cases hx
    | ok pc =>
      obtain ⟨τc, cc⟩ := pc
      rw [hC] at hx; rw [(ihc caps).expect _ _ hC]
      simp only at hx ⊢
      split at hx
      · rename_i htrue; rw [if_pos htrue]
        cases hT : typeOf .strict s env t (caps.union cc) with
        | error err => rw [hT] at hx; cases hx
        | ok pt => rw [hT] at hx; rw [iht _ _ hT]; exact hx
      · rename_i htrue; rw [if_neg htrue]
        split at hx
        · rename_i hfalse; rw [if_pos hfalse]; exact ihe caps _ hx
        · rename_i hfalse; rw [if_neg hfalse]
          refine Transfers.both (iht _) (ihe _) (fun τt ct τe ce hT hE => ?_) _ hx
          have gt : GoodTy τt := ⟨(sound2 (w := ⟨q, [], []⟩) hWF.toSchemaWF2 henv t hft _ τt ct hT).1, typeOf_cn hWF henv t hft _ τt ct hT⟩
          have ge : GoodTy τe := ⟨(sound2 (w := ⟨q, [], []⟩) hWF.toSchemaWF2 henv e hfe _ τe ce hE).1, typeOf_cn hWF henv e hfe _ τe ce hE⟩
          intro y hy
          cases hl : lub .strict τt τe with
          | none => rw [hl] at hy; cases hy
          | some τl => rw [hl] at hy; rw [lub_strict_perm' gt ge hl]; exact hy
  | .unaryApp op a, hf, caps => by
    simp only [InFragment2, InFragmentM] at hf
    have iha := sipG hWF henv a hf
    intro x hx
    cases op with
    | not =>
      simp only [typeOf] at hx ⊢
      cases hA : expectOneOf (typeOf .strict s env a caps) [boolT] with
      | error err => rw [hA] at hx; cases hx
      | ok pa => rw [hA] at hx; rw [(iha caps).expect _ _ hA]; exact hx
    | neg =>
      simp only [typeOf] at hx ⊢
      cases hA : expectOneOf (typeOf .strict s env a caps) [.long] with
      | error err => rw [hA] at hx; cases hx
      | ok pa => rw [hA] at hx; rw [(iha caps).expect _ _ hA]; exact hx
    | isEmpty =>
      simp only [typeOf] at hx ⊢
      cases hA : expectOneOf (typeOf .strict s env a caps) [.set none] with
      | error err => rw [hA] at hx; cases hx
      | ok pa => rw [hA] at hx; rw [(iha caps).expect _ _ hA]; exact hx
  | .binaryApp op a b, hf, caps => by
    simp only [InFragment2, InFragmentM, Bool.and_eq_true] at hf
    have iha := sipG hWF henv a hf.1.2
    have ihb := sipG hWF henv b hf.2
    intro x hx
    cases op with
    | eq =>
      simp only [typeOf] at hx ⊢
      exact Transfers.both (iha caps) (ihb caps) (fun _ _ _ _ _ _ => transfers_strictGuard) _ hx
    | less =>
      simp only [typeOf] at hx ⊢
      exact Transfers.both (iha caps) (ihb caps) (fun _ _ _ _ _ _ => transfers_refl _) _ hx
    | lessEq =>
      simp only [typeOf] at hx ⊢
      exact Transfers.both (iha caps) (ihb caps) (fun _ _ _ _ _ _ => transfers_refl _) _ hx
    | add =>
      simp only [typeOf] at hx ⊢
      exact Transfers.both ((iha caps).expect _) ((ihb caps).expect _) (fun _ _ _ _ _ _ => transfers_refl _) _ hx
    | sub =>
      simp only [typeOf] at hx ⊢
      exact Transfers.both ((iha caps).expect _) ((ihb caps).expect _) (fun _ _ _ _ _ _ => transfers_refl _) _ hx
    | mul =>
      simp only [typeOf] at hx ⊢
      exact Transfers.both ((iha caps).expect _) ((ihb caps).expect _) (fun _ _ _ _ _ _ => transfers_refl _) _ hx
    | mem =>
      simp only [typeOf] at hx ⊢
      exact Transfers.both ((iha caps).expect _) ((ihb caps).expect _) (fun _ _ _ _ _ _ => transfers_refl _) _ hx
    | contains =>
      simp only [typeOf] at hx ⊢
      exact Transfers.both ((iha caps).expect _) (ihb caps) (fun _ _ _ _ _ _ => transfers_strictGuard) _ hx
    | containsAll =>
      simp only [typeOf] at hx ⊢
      exact Transfers.both ((iha caps).expect _) ((ihb caps).expect _) (fun _ _ _ _ _ _ => transfers_strictGuard) _ hx
    | containsAny =>
      simp only [typeOf] at hx ⊢
      exact Transfers.both ((iha caps).expect _) ((ihb caps).expect _) (fun _ _ _ _ _ _ => transfers_strictGuard) _ hx
    | hasTag =>
      simp only [typeOf] at hx ⊢
      exact Transfers.both ((iha caps).expect _) ((ihb caps).expect _) (fun _ _ _ _ _ _ => transfers_refl _) _ hx
    | getTag =>
      simp only [typeOf] at hx ⊢
      refine Transfers.both ((iha caps).expect _) ((ihb caps).expect _) (fun τa ca τb cb hA _ => ?_) _ hx
      obtain ⟨hta, _⟩ := expectOneOf_ok hA
      have hma := (sound2 (w := ⟨q, [], []⟩) hWF.toSchemaWF2 henv a hf.1.2 caps τa ca hta).1
      intro y hy
      cases τa <;> (try exact hy)
      rename_i l
      obtain ⟨T, rfl⟩ := mono_entity hma
      simp only at hy ⊢
      split at hy
      · rename_i hcap
        rw [if_pos hcap]
        rw [tagTypes_single] at hy ⊢
        cases het : s.entityType? T with
        | none => simp only [het] at hy; cases hy
        | some et =>
          simp only [het] at hy ⊢
          cases htag : et.tags with
          | none => simp only [htag] at hy; cases hy
          | some t =>
            simp only [htag, lubAll_single] at hy
            simp only [lubAll_single]
            exact hy
      · cases hy
  | .call fn args, hf, caps => by
    simp only [InFragment2, InFragmentM] at hf
    have ih := sipGList hWF henv args hf
    intro x hx
    simp only [typeOf] at hx ⊢
    cases hsig : extSig fn with
    | none =>
      rw [hsig] at hx; simp only at hx
      split at hx <;> cases hx
    | some sig =>
      rw [hsig] at hx; simp only at hx ⊢
      cases hL : typeOfList .strict s env args caps with
      | error err => rw [hL] at hx; cases hx
      | ok τs =>
        rw [hL] at hx; rw [ih caps τs hL]; simp only at hx ⊢
        split at hx
        · cases hx
        · rename_i hnf
          have hnf' : ¬ (args.length != sig.args.length || !constructorArgOk fn args ||
              (ValidationMode.permissive.isStrict && sig.isConstructor && !args.all isLit)) = true := by
            intro h
            apply hnf
            simp only [ValidationMode.isStrict, Bool.false_and, Bool.or_false] at h
            simp only [Bool.or_eq_true] at h ⊢
            exact Or.inl h
          rw [if_neg hnf']; exact hx
  | .getAttr e a, hf, caps => by
    simp only [InFragment2, InFragmentM] at hf
    have ihe := sipG hWF henv e hf
    intro x hx
    simp only [typeOf] at hx ⊢
    cases hE : expectOneOf (typeOf .strict s env e caps) [.anyEntity, anyRecord] with
    | error err => rw [hE] at hx; cases hx
    | ok pe => rw [hE] at hx; rw [(ihe caps).expect _ _ hE]; exact hx
  | .hasAttr e a, hf, caps => by
    simp only [InFragment2, InFragmentM] at hf
    have ihe := sipG hWF henv e hf
    intro x hx
    simp only [typeOf] at hx ⊢
    cases hE : expectOneOf (typeOf .strict s env e caps) [.anyEntity, anyRecord] with
    | error err => rw [hE] at hx; cases hx
    | ok pe => rw [hE] at hx; rw [(ihe caps).expect _ _ hE]; exact hx
  | .like e pat, hf, caps => by
    simp only [InFragment2, InFragmentM] at hf
    have ihe := sipG hWF henv e hf
    intro x hx
    simp only [typeOf] at hx ⊢
    cases hE : expectOneOf (typeOf .strict s env e caps) [.string] with
    | error err => rw [hE] at hx; cases hx
    | ok pe => rw [hE] at hx; rw [(ihe caps).expect _ _ hE]; exact hx
  | .is e ty, hf, caps => by
    simp only [InFragment2, InFragmentM] at hf
    have ihe := sipG hWF henv e hf
    intro x hx
    simp only [typeOf] at hx ⊢
    cases hE : expectOneOf (typeOf .strict s env e caps) [.anyEntity] with
    | error err => rw [hE] at hx; cases hx
    | ok pe => rw [hE] at hx; rw [(ihe caps).expect _ _ hE]; exact hx
  | .set es, hf, caps => by
    simp only [InFragment2, InFragmentM, Bool.and_eq_true] at hf
    have ih := sipGList hWF henv es hf.1
    intro x hx
    simp only [typeOf] at hx ⊢
    cases hL : typeOfList .strict s env es caps with
    | error err => rw [hL] at hx; cases hx
    | ok τs =>
      rw [hL] at hx; rw [ih caps τs hL]; simp only at hx ⊢
      split at hx
      · cases hx
      · rename_i hne
        simp only [ValidationMode.isStrict, Bool.false_and, Bool.false_eq_true, if_false]
        have hne' : τs ≠ [] := by
          cases es with
          | nil => simp [ValidationMode.isStrict] at hne
          | cons e es' => obtain ⟨_, _, _, _, _, rfl⟩ := typeOfList_cons hL; simp
        have hall : ∀ t, t ∈ τs → GoodTy t := fun t ht =>
          ⟨(soundMList (m := .strict) (w := ⟨q, [], []⟩) hWF.toSchemaWF2 henv es hf.1 caps τs hL).1 t ht,
           typeOfList_cn hWF henv es hf.1 caps τs hL t ht⟩
        cases hlub : lubAll .strict τs with
        | none => rw [hlub] at hx; cases hx
        | some τ' => rw [hlub] at hx; rw [(lubAll_strict_perm hall hne' hlub).1]; exact hx
  | .record kvs, hf, caps => by
    simp only [InFragment2, InFragmentM, Bool.and_eq_true] at hf
    have ih := sipGKVs hWF henv kvs hf.1
    intro x hx
    simp only [typeOf] at hx ⊢
    cases hL : typeOfKVs .strict s env kvs caps with
    | error err => rw [hL] at hx; cases hx
    | ok attrs => rw [hL] at hx; rw [ih caps attrs hL]; exact hx
theorem sipGList {s : Schema} {env : RequestEnv} {q : Request} (hWF : SchemaWF3 s) (henv : EnvMatches s env q) :
    ∀ (es : List Expr), InFragment2List env es = true → ∀ (caps : Capabilities) (τs : List CedarType),
      typeOfList .strict s env es caps = .ok τs → typeOfList .permissive s env es caps = .ok τs
  | [], _, caps, τs, h => by simp only [typeOfList] at h ⊢; exact h
  | e :: es, hf, caps, τs, h => by
    simp only [InFragment2List, InFragmentMList, Bool.and_eq_true] at hf
    obtain ⟨τ, c, τs', h1, h2, rfl⟩ := typeOfList_cons h
    simp only [typeOfList]
    rw [sipG hWF henv e hf.1 caps _ h1, sipGList hWF henv es hf.2 caps τs' h2]
theorem sipGKVs {s : Schema} {env : RequestEnv} {q : Request} (hWF : SchemaWF3 s) (henv : EnvMatches s env q) :
    ∀ (kvs : List (String × Expr)), InFragment2KVs env kvs = true →
      ∀ (caps : Capabilities) (attrs : Attrs),
      typeOfKVs .strict s env kvs caps = .ok attrs → typeOfKVs .permissive s env kvs caps = .ok attrs
  | [], _, caps, attrs, h => by simp only [typeOfKVs] at h ⊢; exact h
  | (k, e) :: es, hf, caps, attrs, h => by
    simp only [InFragment2KVs, InFragmentMKVs, Bool.and_eq_true] at hf
    obtain ⟨τ, c, attrs', h1, h2, rfl⟩ := typeOfKVs_cons h
    simp only [typeOfKVs]
    rw [sipG hWF henv e hf.1 caps _ h1, sipGKVs hWF henv es hf.2 caps attrs' h2]
end


/-! ### policy level -/

theorem option_mapM_congr {α β : Type} {f g : α → Option β} : ∀ {l : List α} {r : List β}, l.mapM f = some r →
    (∀ x, x ∈ l → ∀ y, f x = some y → y ∈ r → g x = some y) → l.mapM g = some r
  | [], r, h, _ => by simpa using h
  | a :: l, r, h, hg => by
    simp only [List.mapM_cons, bind, Option.bind] at h ⊢
    cases hfa : f a with
    | none => rw [hfa] at h; cases h
    | some y =>
      rw [hfa] at h; simp only at h
      cases hl : l.mapM f with
      | none => rw [hl] at h; cases h
      | some ys =>
        rw [hl] at h
        simp only [pure, Option.some.injEq] at h
        subst h
        rw [hg a List.mem_cons_self y hfa List.mem_cons_self]
        simp only
        rw [option_mapM_congr hl (fun x hx y' hy' hm => hg x (List.mem_cons_of_mem _ hx) y' hy' (List.mem_cons_of_mem _ hm))]
        rfl

/-- every environment the typechecker builds is the environment of some request -/
theorem env_of_envs {s : Schema} {pu ru : SlotUse} {env : RequestEnv} (hWF : SchemaWF3 s) (h : env ∈ s.envs pu ru) :
    ∃ q : Request, EnvMatches s env q := by
  unfold Schema.envs at h
  rw [List.mem_flatMap] at h
  obtain ⟨env0, h0, hl⟩ := h
  unfold linkEnv at hl
  rw [List.mem_flatMap] at hl
  obtain ⟨ps, _, hl⟩ := hl
  rw [List.mem_map] at hl
  obtain ⟨rs, _, rfl⟩ := hl
  unfold Schema.unlinkedEnvs at h0
  rw [List.mem_flatMap] at h0
  obtain ⟨p, hp, h0⟩ := h0
  rw [List.mem_flatMap] at h0
  obtain ⟨pt, _, h0⟩ := h0
  rw [List.mem_map] at h0
  obtain ⟨rt, _, rfl⟩ := h0
  exact ⟨{ principal := ⟨pt, ""⟩, action := p.1, resource := ⟨rt, ""⟩, context := [] },
    rfl, rfl, rfl, p.2, hWF.acts_map p hp, rfl⟩

end Cedar.C03
