import CedarVerif.Cedar.Authorizer
/- Helper lemmas about the authorizer's bucket loop (membership of ids in each bucket). -/
namespace Cedar

variable (req : Request) (es : Entities)

def Sat (p : Policy) : Prop := p.outcome req es = .sat
def Errs (p : Policy) : Prop := p.outcome req es = .err

theorem step_satPermits (b : Buckets) (p : Policy) (id : String) :
    id ∈ (Buckets.step req es b p).satPermits ↔
      id ∈ b.satPermits ∨ (id = p.id ∧ p.effect = .permit ∧ Sat req es p) := by
  unfold Sat
  cases ho : p.outcome req es <;> cases he : p.effect <;> simp [Buckets.step, ho, he]

theorem step_satForbids (b : Buckets) (p : Policy) (id : String) :
    id ∈ (Buckets.step req es b p).satForbids ↔
      id ∈ b.satForbids ∨ (id = p.id ∧ p.effect = .forbid ∧ Sat req es p) := by
  unfold Sat
  cases ho : p.outcome req es <;> cases he : p.effect <;> simp [Buckets.step, ho, he]

theorem step_errors (b : Buckets) (p : Policy) (id : String) :
    id ∈ (Buckets.step req es b p).errors ↔
      id ∈ b.errors ∨ (id = p.id ∧ Errs req es p) := by
  unfold Errs
  cases ho : p.outcome req es <;> cases he : p.effect <;> simp [Buckets.step, ho, he]

theorem mem_satPermits (ps : List Policy) (b : Buckets) (id : String) :
    id ∈ (ps.foldl (Buckets.step req es) b).satPermits ↔
      id ∈ b.satPermits ∨ ∃ p, p ∈ ps ∧ id = p.id ∧ p.effect = .permit ∧ Sat req es p := by
  induction ps generalizing b with
  | nil => simp
  | cons p ps ih =>
    rw [List.foldl_cons, ih, step_satPermits]
    simp only [List.mem_cons, exists_eq_or_imp, or_assoc]

theorem mem_satForbids (ps : List Policy) (b : Buckets) (id : String) :
    id ∈ (ps.foldl (Buckets.step req es) b).satForbids ↔
      id ∈ b.satForbids ∨ ∃ p, p ∈ ps ∧ id = p.id ∧ p.effect = .forbid ∧ Sat req es p := by
  induction ps generalizing b with
  | nil => simp
  | cons p ps ih =>
    rw [List.foldl_cons, ih, step_satForbids]
    simp only [List.mem_cons, exists_eq_or_imp, or_assoc]

theorem mem_errors (ps : List Policy) (b : Buckets) (id : String) :
    id ∈ (ps.foldl (Buckets.step req es) b).errors ↔
      id ∈ b.errors ∨ ∃ p, p ∈ ps ∧ id = p.id ∧ Errs req es p := by
  induction ps generalizing b with
  | nil => simp
  | cons p ps ih =>
    rw [List.foldl_cons, ih, step_errors]
    simp only [List.mem_cons, exists_eq_or_imp, or_assoc]

theorem isEmpty_iff_no_mem {l : List String} : l.isEmpty = true ↔ ∀ x, x ∉ l := by
  cases l with
  | nil => simp
  | cons a t =>
    simp only [List.isEmpty_cons, Bool.false_eq_true, false_iff]
    intro h; exact h a List.mem_cons_self

end Cedar
