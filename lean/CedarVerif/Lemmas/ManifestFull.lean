import CedarVerif.Lemmas.ManifestEval
import CedarVerif.Lemmas.TypecheckGood
import CedarVerif.Lemmas.Beq
/-
C17 helper lemmas, part 12: RECORD AND SET LITERALS, WHOLE-VALUE REQUESTS.

* `VRel es es' req P v v'`: the value pair `(v, v')` (full store, slice) is what the wrapped access paths `P` denote —
  the extension of `PCover` to `WrappedAccessPaths::RecordLiteral` / `SetLiteral` (analysis.rs): a record literal denotes
  a record whose fields are denoted by the fields' paths, a set literal a set whose elements are denoted by the union of
  the elements' paths.  Unlike `Trim`, the relation lets the elements of a set BUILT BY A LITERAL differ (records reached
  through the literal may have been trimmed by the slice).
* `full_eq`: WHERE THE ANALYSIS REQUESTS THE FULL TYPE (`full_type_required`: operands of `== in contains containsAll
  containsAny`, `isEmpty`), a store covering the requested trie holds the WHOLE value: `v' = v`.  Needs: the value has the
  annotated type (`InstanceOfType`, from type soundness), the type is closed with distinct attribute names (`cn`: every
  type strict typing produces), and record values are key-sorted (`RSorted`: Rust values are `BTreeMap`s) — two stores
  can hold the same fields in a different order and `Value.beq` on records is positional.
-/
namespace Cedar.Manifest
open Cedar Cedar.C03

/-! ## key-sorted records -/

/-- strictly increasing keys (a `BTreeMap` in iteration order) -/
def KSorted : List (String × Value) → Prop
  | [] => True
  | (k, _) :: rest => (∀ p, p ∈ rest → k < p.1) ∧ KSorted rest

-- records are key-sorted, recursively through records (not inside sets: slicing keeps sets whole)
mutual
def RSorted : Value → Prop
  | .record kvs => KSorted kvs ∧ RSortedKVs kvs
  | _ => True
def RSortedKVs : List (String × Value) → Prop
  | [] => True
  | (_, v) :: rest => RSorted v ∧ RSortedKVs rest
end

/-- every attribute record of the store is key-sorted (an `Entity`'s attributes are a `BTreeMap` of `Value`s) -/
def SortedStore (es : Entities) : Prop := ∀ u d, es.find? u = some d → KSorted d.attrs ∧ RSortedKVs d.attrs

/-- the context record is key-sorted -/
def SortedReq (req : Request) : Prop := KSorted req.context ∧ RSortedKVs req.context

theorem lookupKV_mem' {α} : ∀ {kvs : List (String × α)} {k : String} {v : α}, lookupKV kvs k = some v → (k, v) ∈ kvs
  | [], _, _, h => by simp [lookupKV] at h
  | (k0, v0) :: rest, k, v, h => by
    simp only [lookupKV] at h
    by_cases e : (k0 == k) = true
    · simp only [e, if_true, Option.some.injEq] at h
      have : k0 = k := by simpa using e
      subst this; subst h; simp
    · simp only [e] at h
      exact List.mem_cons_of_mem _ (lookupKV_mem' h)

theorem rsortedKVs_mem : ∀ {kvs : List (String × Value)}, RSortedKVs kvs → ∀ p, p ∈ kvs → RSorted p.2
  | [], _, _, h => by cases h
  | (k, v) :: rest, hs, p, h => by
    simp only [RSortedKVs] at hs
    simp only [List.mem_cons] at h
    rcases h with rfl | h
    · exact hs.1
    · exact rsortedKVs_mem hs.2 p h

theorem rsortedKVs_of_mem : ∀ {kvs : List (String × Value)}, (∀ p, p ∈ kvs → RSorted p.2) → RSortedKVs kvs
  | [], _ => trivial
  | (k, v) :: rest, h => by
    simp only [RSortedKVs]
    exact ⟨h (k, v) (by simp), rsortedKVs_of_mem (fun p hp => h p (by simp [hp]))⟩

theorem rsorted_lookup {kvs : List (String × Value)} (h : RSortedKVs kvs) {k : String} {v : Value}
    (hl : lookupKV kvs k = some v) : RSorted v :=
  rsortedKVs_mem h (k, v) (lookupKV_mem' hl)

theorem lookupKV_none_of_lt : ∀ (kvs : List (String × Value)) (k : String), (∀ p, p ∈ kvs → k < p.1) → lookupKV kvs k = none
  | [], _, _ => rfl
  | (k0, v0) :: rest, k, h => by
    have h0 : k < k0 := h (k0, v0) (by simp)
    have : (k0 == k) = false := by
      simp only [beq_eq_false_iff_ne, ne_eq]
      intro e; subst e; exact String.lt_irrefl _ h0
    simp only [lookupKV, this, Bool.false_eq_true, if_false]
    exact lookupKV_none_of_lt rest k (fun p hp => h p (by simp [hp]))

theorem lookupKV_head {α} (k : String) (v : α) (rest : List (String × α)) : lookupKV ((k, v) :: rest) k = some v := by
  simp [lookupKV]

theorem string_lt_or_gt {a b : String} (h : a ≠ b) : a < b ∨ b < a := by
  by_cases h1 : a < b
  · exact Or.inl h1
  · right
    have : b ≤ a := String.not_lt.mp h1
    exact Std.lt_of_le_of_ne this (fun e => h e.symm)

/-- key-sorted association lists with the same lookup function are equal -/
theorem ksorted_ext : ∀ (l1 l2 : List (String × Value)), KSorted l1 → KSorted l2 →
    (∀ k, lookupKV l1 k = lookupKV l2 k) → l1 = l2
  | [], [], _, _, _ => rfl
  | [], (k, v) :: t, _, _, h => by have := h k; simp [lookupKV] at this
  | (k, v) :: t, [], _, _, h => by have := h k; simp [lookupKV] at this
  | (k1, v1) :: t1, (k2, v2) :: t2, h1, h2, h => by
    simp only [KSorted] at h1 h2
    by_cases e : k1 = k2
    · subst e
      have hv := h k1
      simp only [lookupKV_head, Option.some.injEq] at hv
      subst hv
      have ht : t1 = t2 := by
        apply ksorted_ext t1 t2 h1.2 h2.2
        intro k
        by_cases ek : k1 = k
        · subst ek
          rw [lookupKV_none_of_lt t1 k1 h1.1, lookupKV_none_of_lt t2 k1 h2.1]
        · have hk := h k
          have : (k1 == k) = false := by simpa using ek
          simpa [lookupKV, this] using hk
      rw [ht]
    · exfalso
      rcases string_lt_or_gt e with hlt | hlt
      · -- k1 is not a key of l2
        have hk := h k1
        have hn : lookupKV ((k2, v2) :: t2) k1 = none := by
          apply lookupKV_none_of_lt
          intro p hp
          simp only [List.mem_cons] at hp
          rcases hp with rfl | hp
          · exact hlt
          · exact String.lt_trans hlt (h2.1 p hp)
        rw [hn, lookupKV_head] at hk
        cases hk
      · have hk := h k2
        have hn : lookupKV ((k1, v1) :: t1) k2 = none := by
          apply lookupKV_none_of_lt
          intro p hp
          simp only [List.mem_cons] at hp
          rcases hp with rfl | hp
          · exact hlt
          · exact String.lt_trans hlt (h1.1 p hp)
        rw [hn, lookupKV_head] at hk
        cases hk

/-! ## `insertKV` keeps lists sorted; lookups in a record literal's value -/

theorem mem_insertKV' {α} (k : String) (v : α) (l : List (String × α)) (x : String × α) (h : x ∈ insertKV k v l) :
    x = (k, v) ∨ x ∈ l := mem_insertKV k v l x h

theorem ksorted_insertKV (k : String) (v : Value) : ∀ (l : List (String × Value)), KSorted l → KSorted (insertKV k v l)
  | [], _ => by simp [insertKV, KSorted]
  | (k0, v0) :: rest, h => by
    simp only [KSorted] at h
    unfold insertKV
    by_cases h1 : k < k0
    · simp only [h1, if_true, KSorted]
      refine ⟨?_, h⟩
      intro p hp
      simp only [List.mem_cons] at hp
      rcases hp with rfl | hp
      · exact h1
      · exact String.lt_trans h1 (h.1 p hp)
    · simp only [h1, if_false]
      by_cases h2 : k = k0
      · subst h2
        simp only [beq_self_eq_true, if_true, KSorted]
        exact h
      · have h2' : (k == k0) = false := by simpa using h2
        simp only [h2', Bool.false_eq_true, if_false, KSorted]
        refine ⟨?_, ksorted_insertKV k v rest h.2⟩
        intro p hp
        rcases mem_insertKV k v rest p hp with rfl | hp
        · rcases string_lt_or_gt h2 with h3 | h3
          · exact absurd h3 h1
          · exact h3
        · exact h.1 p hp

theorem ksorted_foldl : ∀ (vs acc : List (String × Value)), KSorted acc →
    KSorted (vs.foldl (fun acc kv => insertKV kv.1 kv.2 acc) acc)
  | [], acc, h => h
  | (k, v) :: rest, acc, h => by
    simp only [List.foldl_cons]
    exact ksorted_foldl rest _ (ksorted_insertKV k v acc h)

/-- lookups in the value of a record literal with distinct keys -/
theorem lookupKV_foldl : ∀ (vs acc : List (String × Value)) (k : String), (vs.map (·.1)).Nodup →
    lookupKV (vs.foldl (fun acc kv => insertKV kv.1 kv.2 acc) acc) k =
      match lookupKV vs k with
      | some v => some v
      | none => lookupKV acc k
  | [], acc, k, _ => by simp [lookupKV]
  | (k0, v0) :: rest, acc, k, hnd => by
    simp only [List.map_cons, List.nodup_cons] at hnd
    simp only [List.foldl_cons]
    rw [lookupKV_foldl rest _ k hnd.2, lookupKV_insertKV]
    simp only [lookupKV]
    by_cases e : (k0 == k) = true
    · have e' : k0 = k := by simpa using e
      subst e'
      have : lookupKV rest k0 = none := by
        cases hl : lookupKV rest k0 with
        | none => rfl
        | some w =>
          exfalso
          apply hnd.1
          have := lookupKV_mem' hl
          exact List.mem_map.2 ⟨(k0, w), this, rfl⟩
      simp [this]
    · simp only [e]
      cases lookupKV rest k <;> simp

/-! ## the relation -/

-- the value pair `(v, v')` (store, slice) is what the wrapped access paths denote
mutual
def VRel (es es' : Entities) (req : Request) : WPaths → Value → Value → Prop
  | .path root fs, v, v' =>
    walk es (rootVal req root) fs = some v ∧ walk es' (rootVal req root) fs = some v' ∧ Trim v' v
  | .union a b, v, v' => VRel es es' req a v v' ∨ VRel es es' req b v v'
  | .empty, v, v' => Scalar v ∧ v' = v
  | .record pkvs, v, v' =>
    ∃ kvs kvs', v = .record kvs ∧ v' = .record kvs' ∧ KSorted kvs ∧ KSorted kvs' ∧
      (∀ k, lookupW pkvs k = none → lookupKV kvs k = none ∧ lookupKV kvs' k = none) ∧ VRelF es es' req pkvs kvs kvs'
  | .set p, v, v' =>
    ∃ ws ws', v = .set (Value.mkSet ws) ∧ v' = .set (Value.mkSet ws') ∧ ws.length = ws'.length ∧
      ∀ (i : Nat) (h : i < ws.length) (h' : i < ws'.length), VRel es es' req p ws[i] ws'[i]
def VRelF (es es' : Entities) (req : Request) : List (String × WPaths) → List (String × Value) → List (String × Value) → Prop
  | [], _, _ => True
  | (k, p) :: rest, kvs, kvs' =>
    (∃ w w', lookupKV kvs k = some w ∧ lookupKV kvs' k = some w' ∧ VRel es es' req p w w') ∧ VRelF es es' req rest kvs kvs'
end

/-- evaluation over the slice agrees with evaluation over the store: same error, or values denoted by the same paths -/
def RelL (es es' : Entities) (req : Request) (P : WPaths) (r r' : Result Value) : Prop :=
  match r with
  | .error x => r' = .error x
  | .ok v => ∃ v', r' = .ok v' ∧ VRel es es' req P v v'

theorem RelL.mono {es es' : Entities} {req : Request} {P Q : WPaths} {r r' : Result Value}
    (h : RelL es es' req P r r') (hpq : ∀ v v', VRel es es' req P v v' → VRel es es' req Q v v') :
    RelL es es' req Q r r' := by
  cases r with
  | error x => exact h
  | ok v =>
    obtain ⟨v', h1, h2⟩ := h
    exact ⟨v', h1, hpq v v' h2⟩

section rel
variable {es es' : Entities} {req : Request}

theorem vrelF_lookup : ∀ (pkvs : List (String × WPaths)) (kvs kvs' : List (String × Value)) (k : String) (p : WPaths),
    VRelF es es' req pkvs kvs kvs' → lookupW pkvs k = some p →
    ∃ w w', lookupKV kvs k = some w ∧ lookupKV kvs' k = some w' ∧ VRel es es' req p w w'
  | [], _, _, _, _, _, h => by simp [lookupW] at h
  | (k0, p0) :: rest, kvs, kvs', k, p, hr, h => by
    simp only [VRelF] at hr
    simp only [lookupW] at h
    by_cases e : (k0 == k) = true
    · simp only [e, if_true, Option.some.injEq] at h
      have : k0 = k := by simpa using e
      subst this; subst h
      exact hr.1
    · simp only [e] at h
      exact vrelF_lookup rest kvs kvs' k p hr.2 h

/-- related values have the same outermost shape; non-records / non-sets are equal -/
theorem vrel_shape : ∀ (P : WPaths) (v v' : Value), VRel es es' req P v v' →
    v' = v ∨ (∃ a b, v = .record a ∧ v' = .record b) ∨ (∃ a b, v = .set a ∧ v' = .set b)
  | .path root fs, v, v', h => by
    obtain ⟨_, _, ht⟩ := h
    cases v with
    | record kvs =>
      obtain ⟨kvs', e, _⟩ := trim_record_inv ht
      exact Or.inr (Or.inl ⟨kvs, kvs', rfl, e⟩)
    | prim p => exact Or.inl (trim_prim ht)
    | set s => exact Or.inl (trim_nonrecord ht (by intro kvs; simp))
    | ext x => exact Or.inl (trim_nonrecord ht (by intro kvs; simp))
  | .union a b, v, v', h => by
    rcases h with h | h
    · exact vrel_shape a v v' h
    · exact vrel_shape b v v' h
  | .empty, v, v', h => Or.inl h.2
  | .record pkvs, v, v', h => by
    obtain ⟨kvs, kvs', e1, e2, _⟩ := h
    exact Or.inr (Or.inl ⟨kvs, kvs', e1, e2⟩)
  | .set p, v, v', h => by
    obtain ⟨ws, ws', e1, e2, _⟩ := h
    exact Or.inr (Or.inr ⟨_, _, e1, e2⟩)

theorem vrel_scalar {P : WPaths} {v v' : Value} (h : VRel es es' req P v v') (hs : Scalar v) : v' = v := by
  rcases vrel_shape P v v' h with e | ⟨a, b, e, _⟩ | ⟨a, b, e, _⟩
  · exact e
  · subst e; simp [Scalar] at hs
  · subst e; simp [Scalar] at hs

theorem vrel_prim {P : WPaths} {p : Prim} {v' : Value} (h : VRel es es' req P (.prim p) v') : v' = .prim p := by
  rcases vrel_shape P _ v' h with e | ⟨a, b, e, _⟩ | ⟨a, b, e, _⟩
  · exact e
  · cases e
  · cases e

theorem vrel_asBool {P : WPaths} {v v' : Value} (h : VRel es es' req P v v') : v'.asBool = v.asBool := by
  rcases vrel_shape P v v' h with e | ⟨a, b, e1, e2⟩ | ⟨a, b, e1, e2⟩
  · rw [e]
  · subst e1; subst e2; rfl
  · subst e1; subst e2; rfl

theorem vrel_asInt {P : WPaths} {v v' : Value} (h : VRel es es' req P v v') : v'.asInt = v.asInt := by
  rcases vrel_shape P v v' h with e | ⟨a, b, e1, e2⟩ | ⟨a, b, e1, e2⟩
  · rw [e]
  · subst e1; subst e2; rfl
  · subst e1; subst e2; rfl

theorem vrel_asString {P : WPaths} {v v' : Value} (h : VRel es es' req P v v') : v'.asString = v.asString := by
  rcases vrel_shape P v v' h with e | ⟨a, b, e1, e2⟩ | ⟨a, b, e1, e2⟩
  · rw [e]
  · subst e1; subst e2; rfl
  · subst e1; subst e2; rfl

theorem vrel_asEntity {P : WPaths} {v v' : Value} (h : VRel es es' req P v v') : v'.asEntity = v.asEntity := by
  rcases vrel_shape P v v' h with e | ⟨a, b, e1, e2⟩ | ⟨a, b, e1, e2⟩
  · rw [e]
  · subst e1; subst e2; rfl
  · subst e1; subst e2; rfl

/-- an entity reached through wrapped paths is reached through one of the plain paths (`PCover`) -/
theorem pcover_of_vrel_entity (u : EntityUID) : ∀ (P : WPaths) (v' : Value), VRel es es' req P (.prim (.entityUID u)) v' →
    PCover es es' req P (.prim (.entityUID u)) (.prim (.entityUID u))
  | .path root fs, v', h => by
    have e := trim_prim h.2.2
    subst e
    exact ⟨h.1, h.2.1⟩
  | .union a b, v', h => by
    rcases h with h | h
    · exact Or.inl (pcover_of_vrel_entity u a v' h)
    · exact Or.inr (pcover_of_vrel_entity u b v' h)
  | .empty, v', h => by simp only [VRel, Scalar] at h; exact h.1.elim
  | .record pkvs, v', h => by obtain ⟨kvs, kvs', e1, _⟩ := h; cases e1
  | .set p, v', h => by obtain ⟨ws, ws', e1, _⟩ := h; cases e1

end rel

/-! ## values of a type, modulo `Value.beq` -/

theorem beqKVs_mem : ∀ (as bs : List (String × Value)), Value.beqKVs as bs = true →
    (∀ k b, (k, b) ∈ bs → ∃ a, (k, a) ∈ as ∧ Value.beq a b = true) ∧ (∀ k a, (k, a) ∈ as → ∃ b, (k, b) ∈ bs)
  | [], [], _ => by simp
  | [], _ :: _, h => by simp [Value.beqKVs] at h
  | _ :: _, [], h => by simp [Value.beqKVs] at h
  | (k1, a1) :: as, (k2, b2) :: bs, h => by
    rw [Value.beqKVs] at h
    simp only [Bool.and_eq_true, beq_iff_eq] at h
    obtain ⟨⟨e, hb⟩, hr⟩ := h
    subst e
    obtain ⟨ih1, ih2⟩ := beqKVs_mem as bs hr
    constructor
    · intro k b hm
      simp only [List.mem_cons, Prod.mk.injEq] at hm
      rcases hm with ⟨rfl, rfl⟩ | hm
      · exact ⟨a1, by simp, hb⟩
      · obtain ⟨a, ha, hab⟩ := ih1 k b hm
        exact ⟨a, by simp [ha], hab⟩
    · intro k a hm
      simp only [List.mem_cons, Prod.mk.injEq] at hm
      rcases hm with ⟨rfl, rfl⟩ | hm
      · exact ⟨b2, by simp⟩
      · obtain ⟨b, hb'⟩ := ih2 k a hm
        exact ⟨b, by simp [hb']⟩

theorem beq_symm' (a b : Value) (h : Value.beq a b = true) : Value.beq b a = true := by
  rw [← Value.beq_symm a.size a b (Nat.le_refl _)]; exact h

/-- `InstanceOfType` does not distinguish `beq`-equal values -/
theorem instOf_beq {v : Value} {t : CedarType} (hi : InstanceOfType v t) : ∀ w, Value.beq v w = true → InstanceOfType w t := by
  induction hi with
  | anyBool b => intro w h; cases w with
    | prim p => simp only [Value.beq, beq_iff_eq] at h; subst h; exact .anyBool b
    | _ => simp [Value.beq] at h
  | tt => intro w h; cases w with
    | prim p => simp only [Value.beq, beq_iff_eq] at h; subst h; exact .tt
    | _ => simp [Value.beq] at h
  | ff => intro w h; cases w with
    | prim p => simp only [Value.beq, beq_iff_eq] at h; subst h; exact .ff
    | _ => simp [Value.beq] at h
  | long i => intro w h; cases w with
    | prim p => simp only [Value.beq, beq_iff_eq] at h; subst h; exact .long i
    | _ => simp [Value.beq] at h
  | string s => intro w h; cases w with
    | prim p => simp only [Value.beq, beq_iff_eq] at h; subst h; exact .string s
    | _ => simp [Value.beq] at h
  | entity u lub hm => intro w h; cases w with
    | prim p => simp only [Value.beq, beq_iff_eq] at h; subst h; exact .entity u lub hm
    | _ => simp [Value.beq] at h
  | anyEntity u => intro w h; cases w with
    | prim p => simp only [Value.beq, beq_iff_eq] at h; subst h; exact .anyEntity u
    | _ => simp [Value.beq] at h
  | ext x => intro w h; cases w with
    | ext y => simp only [Value.beq, beq_iff_eq] at h; subst h; exact .ext x
    | _ => simp [Value.beq] at h
  | anySet vs => intro w h; cases w with
    | set us => exact .anySet us
    | _ => simp [Value.beq] at h
  | set vs t _ ih =>
    intro w h
    cases w with
    | set us =>
      rw [Value.beq] at h
      simp only [Bool.and_eq_true, Value.subset_iff] at h
      refine .set us t ?_
      intro u hu
      obtain ⟨v, hv, hb⟩ := (Value.elem_iff u vs).1 (h.2 u hu)
      exact ih v hv u (beq_symm' u v hb)
    | _ => simp [Value.beq] at h
  | record kvs attrs o _ h2 h3 ih =>
    intro w h
    cases w with
    | record kvs2 =>
      rw [Value.beq] at h
      obtain ⟨m1, m2⟩ := beqKVs_mem kvs kvs2 h
      refine .record kvs2 attrs o ?_ ?_ ?_
      · intro k v2 hm r t hf
        obtain ⟨v, hv, hb⟩ := m1 k v2 hm
        exact ih k v hv r t hf v2 hb
      · intro k v2 hm hf
        obtain ⟨v, hv, _⟩ := m1 k v2 hm
        exact h2 k v hv hf
      · intro k t hm
        obtain ⟨v, hv⟩ := h3 k t hm
        exact m2 k v hv
    | _ => simp [Value.beq] at h

/-- every element of the list is represented (modulo `beq`) in the set built from it -/
theorem mkSet_rep : ∀ (ws : List Value) (w : Value), w ∈ ws → ∃ x, x ∈ Value.mkSet ws ∧ Value.beq w x = true
  | [], _, h => by cases h
  | v :: vs, w, h => by
    simp only [Value.mkSet]
    simp only [List.mem_cons] at h
    by_cases he : Value.elem v (Value.mkSet vs) = true
    · simp only [he, if_true]
      rcases h with rfl | h
      · exact (Value.elem_iff _ _).1 he
      · exact mkSet_rep vs w h
    · simp only [he, Bool.false_eq_true, if_false]
      rcases h with rfl | h
      · exact ⟨w, by simp, Value.beq_rfl w⟩
      · obtain ⟨x, hx, hb⟩ := mkSet_rep vs w h
        exact ⟨x, by simp [hx], hb⟩

/-! ## a covered whole-type trie holds the whole value -/

theorem lookupField_attrsToFields : ∀ (attrs : List (String × Bool × CedarType)) (k : String),
    lookupField (attrsToFields attrs) k = (Attrs.find? attrs k).map (fun qt => typeToAccessTrie qt.2)
  | [], _ => by simp [attrsToFields, lookupField, Attrs.find?]
  | (k0, r, t) :: rest, k => by
    simp only [attrsToFields, lookupField, Attrs.find?]
    by_cases e : (k0 == k) = true
    · simp [e]
    · simp only [e, Bool.false_eq_true, if_false]
      exact lookupField_attrsToFields rest k

theorem attrs_find_mem : ∀ {attrs : Attrs} {k : String} {r : Bool} {t : CedarType}, Attrs.find? attrs k = some (r, t) →
    (k, r, t) ∈ attrs
  | [], _, _, _, h => by simp [Attrs.find?] at h
  | (k0, qt) :: rest, k, r, t, h => by
    simp only [Attrs.find?] at h
    by_cases e : (k0 == k) = true
    · simp only [e, if_true, Option.some.injEq] at h
      have : k0 = k := by simpa using e
      subst this; subst h; simp
    · simp only [e] at h
      exact List.mem_cons_of_mem _ (attrs_find_mem h)

theorem coverF_lookup {es es' : Entities} {req : Request} : ∀ (c : Fields) (kvs kvs' : List (String × Value)) (k : String)
    (t : AccessTrie), CoverF es es' req c kvs kvs' → lookupField c k = some t →
    ∀ w, lookupKV kvs k = some w → ∃ w', lookupKV kvs' k = some w' ∧ CoverV es es' req t w w'
  | [], _, _, _, _, _, h => by simp [lookupField] at h
  | (k0, t0) :: rest, kvs, kvs', k, t, hc, h => by
    simp only [CoverF] at hc
    simp only [lookupField] at h
    by_cases e : (k0 == k) = true
    · simp only [e, if_true, Option.some.injEq] at h
      have : k0 = k := by simpa using e
      subst this; subst h
      exact hc.1
    · simp only [e] at h
      exact coverF_lookup rest kvs kvs' k t hc.2 h

/-- a slice covering the trie of the whole type of a value holds the whole value -/
theorem full_cover_eq {es es' : Entities} {req : Request} {v : Value} {ty : CedarType} (hi : InstanceOfType v ty) :
    ∀ v', cn ty = true → CoverV es es' req (typeToAccessTrie ty) v v' → Trim v' v → RSorted v → RSorted v' → v' = v := by
  induction hi with
  | record kvs attrs o _ h2 _ ih =>
    intro v' hcn hc ht hs hs'
    simp only [cn, Bool.and_eq_true, Bool.not_eq_true', decide_eq_true_eq] at hcn
    obtain ⟨⟨ho, hca⟩, _⟩ := hcn
    obtain ⟨kvs', e, hk⟩ := trim_record_inv ht
    subst e
    simp only [typeToAccessTrie, CoverV] at hc
    obtain ⟨kvs2, e2, hf⟩ := hc
    cases e2
    simp only [RSorted] at hs hs'
    congr 1
    apply ksorted_ext _ _ hs'.1 hs.1
    intro k
    cases hl : lookupKV kvs k with
    | none =>
      cases hl' : lookupKV kvs' k with
      | none => rfl
      | some w' =>
        obtain ⟨w, h1, _⟩ := trimKVs_lookup kvs' kvs k w' hk hl'
        rw [hl] at h1; cases h1
    | some w =>
      have hm := lookupKV_mem' hl
      cases hfind : Attrs.find? attrs k with
      | none => have := h2 k w hm hfind; rw [ho] at this; cases this
      | some qt =>
        obtain ⟨r, t⟩ := qt
        have hlf : lookupField (attrsToFields attrs) k = some (typeToAccessTrie t) := by
          rw [lookupField_attrsToFields, hfind]; rfl
        obtain ⟨w', h1, h2'⟩ := coverF_lookup _ kvs kvs' k _ hf hlf w hl
        obtain ⟨w0, h3, h4⟩ := trimKVs_lookup kvs' kvs k w' hk h1
        rw [hl] at h3; cases h3
        have hct : cn t = true := cnAttrs_iff.1 hca k r t (attrs_find_mem hfind)
        have := ih k w hm r t hfind w' hct h2' h4 (rsorted_lookup hs.2 hl) (rsorted_lookup hs'.2 h1)
        rw [h1, this]
  | anyBool b => intro v' _ _ ht _ _; exact trim_prim ht
  | tt => intro v' _ _ ht _ _; exact trim_prim ht
  | ff => intro v' _ _ ht _ _; exact trim_prim ht
  | long i => intro v' _ _ ht _ _; exact trim_prim ht
  | string s => intro v' _ _ ht _ _; exact trim_prim ht
  | entity u lub hm => intro v' _ _ ht _ _; exact trim_prim ht
  | anyEntity u => intro v' _ _ ht _ _; exact trim_prim ht
  | ext x => intro v' _ _ ht _ _; exact trim_nonrecord ht (by intro kvs; simp)
  | anySet vs => intro v' _ _ ht _ _; exact trim_nonrecord ht (by intro kvs; simp)
  | set vs t _ _ => intro v' _ _ ht _ _; exact trim_nonrecord ht (by intro kvs; simp)

/-! ## what `full_type_required` on a record literal requests -/

theorem find_fullTypeFns : ∀ (pkvs : List (String × WPaths)) (k : String) (kf : String × (CedarType → M RootAccessTrie)),
    (fullTypeFns pkvs).find? (fun kf => kf.1 == k) = some kf →
    ∃ p, lookupW pkvs k = some p ∧ kf.2 = WPaths.fullTypeRequired p
  | [], _, _, h => by simp [fullTypeFns] at h
  | (k0, p0) :: rest, k, kf, h => by
    simp only [fullTypeFns, List.find?] at h
    simp only [lookupW]
    by_cases e : (k0 == k) = true
    · simp only [e, Option.some.injEq] at h
      subst h
      exact ⟨p0, by simp [e], rfl⟩
    · have e' : (k0 == k) = false := by simpa using e
      simp only [e'] at h
      simp only [e', Bool.false_eq_true, if_false]
      exact find_fullTypeFns rest k kf h

theorem fullTypeRecord_cover {es es' : Entities} {req : Request} (fns : List (String × (CedarType → M RootAccessTrie))) :
    ∀ (attrs : List (String × Bool × CedarType)) (t : RootAccessTrie), fullTypeRecord fns attrs = .ok t →
    CoverRoots es es' req t → ∀ k r ty, (k, r, ty) ∈ attrs →
    ∃ kf rk, fns.find? (fun kf => kf.1 == k) = some kf ∧ kf.2 ty = .ok rk ∧ CoverRoots es es' req rk
  | [], _, _, _, _, _, _, hm => by cases hm
  | (k0, r0, t0) :: rest, t, h, hc, k, r, ty, hm => by
    simp only [fullTypeRecord] at h
    cases hf : fns.find? (fun kf => kf.1 == k0) with
    | none => simp [hf] at h
    | some kf =>
      simp only [hf] at h
      cases h1 : kf.2 t0 with
      | error x => simp [h1] at h
      | ok r1 =>
        simp only [h1] at h
        cases h2 : fullTypeRecord fns rest with
        | error x => simp [h2] at h
        | ok rs =>
          simp only [h2, Except.ok.injEq] at h
          subst h
          obtain ⟨c1, c2⟩ := coverRoots_union es es' req rs r1 hc
          simp only [List.mem_cons, Prod.mk.injEq] at hm
          rcases hm with ⟨rfl, rfl, rfl⟩ | hm
          · exact ⟨kf, r1, hf, h1, c1⟩
          · exact fullTypeRecord_cover fns rest rs h2 c2 k r ty hm

/-! ## THE WHOLE VALUE IS KEPT where the full type is requested -/

mutual
theorem trim_refl_sorted : ∀ (v : Value), RSorted v → Trim v v
  | .prim p, _ => by simp [Trim]
  | .set s, _ => by simp [Trim]
  | .ext x, _ => by simp [Trim]
  | .record kvs, h => by
    simp only [RSorted] at h
    simp only [Trim]
    exact ⟨kvs, rfl, trimKVs_of_lookup _ _ (fun k w' hm => by
      obtain ⟨h1, h2⟩ := trim_refl_sortedKVs kvs h.1 h.2 (k, w') hm
      exact ⟨w', h2, h1⟩)⟩
theorem trim_refl_sortedKVs : ∀ (kvs : List (String × Value)), KSorted kvs → RSortedKVs kvs →
    ∀ p, p ∈ kvs → Trim p.2 p.2 ∧ lookupKV kvs p.1 = some p.2
  | [], _, _, p, hp => by cases hp
  | (k0, v0) :: tl, hk, hr, p, hp => by
    simp only [KSorted] at hk
    simp only [RSortedKVs] at hr
    simp only [List.mem_cons] at hp
    rcases hp with rfl | hp
    · exact ⟨trim_refl_sorted v0 hr.1, by simp [lookupKV]⟩
    · obtain ⟨h1, h2⟩ := trim_refl_sortedKVs tl hk.2 hr.2 p hp
      refine ⟨h1, ?_⟩
      have hlt := hk.1 p hp
      have : (k0 == p.1) = false := by
        simp only [beq_eq_false_iff_ne, ne_eq]
        intro e; rw [e] at hlt; exact String.lt_irrefl _ hlt
      simp only [lookupKV, this, Bool.false_eq_true, if_false]
      exact h2
end

section full
variable {es es' : Entities} {req : Request}

theorem rsorted_step {es : Entities} (hst : SortedStore es) {v w : Value} {a : String} (hv : RSorted v)
    (h : stepV es v a = some w) : RSorted w := by
  cases v with
  | record kvs => simp only [stepV] at h; simp only [RSorted] at hv; exact rsorted_lookup hv.2 h
  | prim p =>
    cases p with
    | entityUID u =>
      simp only [stepV] at h
      cases hf : es.find? u with
      | none => simp [hf] at h
      | some d => simp only [hf] at h; exact rsorted_lookup (hst u d hf).2 h
    | bool b => simp [stepV] at h
    | int n => simp [stepV] at h
    | string s => simp [stepV] at h
  | set s => simp [stepV] at h
  | ext x => simp [stepV] at h

theorem rsorted_walk {es : Entities} (hst : SortedStore es) : ∀ (fs : List String) (v0 v : Value), RSorted v0 →
    walk es v0 fs = some v → RSorted v
  | [], v0, v, h0, h => by simp only [walk, Option.some.injEq] at h; subst h; exact h0
  | f :: fs, v0, v, h0, h => by
    simp only [walk] at h
    cases hs : stepV es v0 f with
    | none => simp [hs] at h
    | some w => simp only [hs] at h; exact rsorted_walk hst fs w v (rsorted_step hst h0 hs) h

theorem rsorted_rootVal (hreq : SortedReq req) (root : EntityRoot) : RSorted (rootVal req root) := by
  cases root with
  | literal u => simp [rootVal, RSorted]
  | var x => cases x <;> first | exact hreq | simp [rootVal, RSorted]

theorem ctxWF_of_sorted (hreq : SortedReq req) : CtxWF req := trim_refl_sorted (.record req.context) hreq

theorem forall_eq_of_idx {ws ws' : List Value} (hl : ws.length = ws'.length)
    (h : ∀ (i : Nat) (h1 : i < ws.length) (h2 : i < ws'.length), ws'[i] = ws[i]) : ws' = ws := by
  apply List.ext_getElem hl.symm
  intro i h1 h2
  exact h i h2 h1

variable (hsub : SubStore es es') (hst : SortedStore es) (hst' : SortedStore es') (hreq : SortedReq req)
include hsub hst hst' hreq

set_option linter.unusedSectionVars false in
mutual
/-- WHERE THE FULL TYPE IS REQUESTED THE SLICE HOLDS THE WHOLE VALUE -/
theorem full_eq : ∀ (P : WPaths) (ty : CedarType) (t : RootAccessTrie) (v v' : Value), cn ty = true →
    P.fullTypeRequired ty = .ok t → CoverRoots es es' req t → VRel es es' req P v v' → InstanceOfType v ty → v' = v
  | .path root fs, ty, t, v, v', hcn, hf, hc, hr, hi => by
    simp only [WPaths.fullTypeRequired, Except.ok.injEq] at hf
    subst hf
    obtain ⟨h1, h2, ht⟩ := hr
    have hctx := ctxWF_of_sorted hreq
    have hs : RSorted v := rsorted_walk hst fs _ v (rsorted_rootVal hreq root) h1
    have hs' : RSorted v' := rsorted_walk hst' fs _ v' (rsorted_rootVal hreq root) h2
    by_cases hnew : (pathTrie fs (typeToAccessTrie ty)).isNew = true
    · cases fs with
      | nil =>
        simp only [walk, Option.some.injEq] at h1 h2
        rw [← h1, ← h2]
      | cons f fs => simp [pathTrie, AccessTrie.isNew] at hnew
    · simp only [toRootTrieWithLeaf, hnew, Bool.false_eq_true, if_false, CoverRoots] at hc
      obtain ⟨hleaf, _⟩ := cover_walk_leaf hsub (typeToAccessTrie ty) fs _ _ v v' hc.1 (trim_rootVal hctx root) h1 h2
      exact full_cover_eq hi v' hcn hleaf ht hs hs'
  | .union a b, ty, t, v, v', hcn, hf, hc, hr, hi => by
    simp only [WPaths.fullTypeRequired] at hf
    cases h1 : WPaths.fullTypeRequired a ty with
    | error x => simp [h1] at hf
    | ok ra =>
      cases h2 : WPaths.fullTypeRequired b ty with
      | error x => simp [h1, h2] at hf
      | ok rb =>
        simp only [h1, h2, Except.ok.injEq] at hf
        subst hf
        obtain ⟨c1, c2⟩ := coverRoots_union es es' req rb ra hc
        rcases hr with hr | hr
        · exact full_eq a ty ra v v' hcn h1 c1 hr hi
        · exact full_eq b ty rb v v' hcn h2 c2 hr hi
  | .empty, _, _, v, v', _, _, _, hr, _ => hr.2
  | .set p, ty, t, v, v', hcn, hf, hc, hr, hi => by
    obtain ⟨ws, ws', e1, e2, hlen, hall⟩ := hr
    subst e1; subst e2
    cases ty with
    | set oe =>
      cases oe with
      | none => simp [WPaths.fullTypeRequired] at hf
      | some ety =>
        simp only [WPaths.fullTypeRequired] at hf
        simp only [cn] at hcn
        cases hi with
        | set _ _ hel =>
          have hty : ∀ w, w ∈ ws → InstanceOfType w ety := by
            intro w hw
            obtain ⟨x, hx, hb⟩ := mkSet_rep ws w hw
            exact instOf_beq (hel x hx) w (beq_symm' w x hb)
          have : ws' = ws := by
            apply forall_eq_of_idx hlen
            intro i h1 h2
            exact full_eq p ety t ws[i] ws'[i] hcn hf hc (hall i h1 h2) (hty _ (List.getElem_mem h1))
          rw [this]
    | _ => simp [WPaths.fullTypeRequired] at hf
  | .record pkvs, ty, t, v, v', hcn, hf, hc, hr, hi => by
    obtain ⟨kvs, kvs', e1, e2, hs, hs', hnone, hF⟩ := hr
    subst e1; subst e2
    cases ty with
    | record attrs o =>
      simp only [WPaths.fullTypeRequired] at hf
      simp only [cn, Bool.and_eq_true, Bool.not_eq_true', decide_eq_true_eq] at hcn
      obtain ⟨⟨ho, hca⟩, _⟩ := hcn
      cases hi with
      | record _ _ _ g1 g2 _ =>
        congr 1
        apply ksorted_ext _ _ hs' hs
        intro k
        cases hw : lookupW pkvs k with
        | none => rw [(hnone k hw).1, (hnone k hw).2]
        | some p =>
          obtain ⟨w, w', l1, l2, hrel⟩ := vrelF_lookup pkvs kvs kvs' k p hF hw
          have hm := lookupKV_mem' l1
          cases hfind : Attrs.find? attrs k with
          | none => have := g2 k w hm hfind; rw [ho] at this; cases this
          | some qt =>
            obtain ⟨r, tk⟩ := qt
            have hmem := attrs_find_mem hfind
            obtain ⟨kf, rk, hkf, hrk, hck⟩ := fullTypeRecord_cover (fullTypeFns pkvs) attrs t hf hc k r tk hmem
            obtain ⟨p2, hp2, hkf2⟩ := find_fullTypeFns pkvs k kf hkf
            rw [hw] at hp2; cases hp2
            rw [hkf2] at hrk
            have := full_eqF pkvs k p hw tk rk w w' (cnAttrs_iff.1 hca k r tk hmem) hrk hck hrel (g1 k w hm r tk hfind)
            rw [l1, l2, this]
    | _ => simp [WPaths.fullTypeRequired] at hf
theorem full_eqF : ∀ (pkvs : List (String × WPaths)) (k : String) (p : WPaths), lookupW pkvs k = some p →
    ∀ (ty : CedarType) (t : RootAccessTrie) (v v' : Value), cn ty = true →
    p.fullTypeRequired ty = .ok t → CoverRoots es es' req t → VRel es es' req p v v' → InstanceOfType v ty → v' = v
  | [], _, _, h => by simp [lookupW] at h
  | (k0, p0) :: rest, k, p, h => by
    simp only [lookupW] at h
    by_cases e : (k0 == k) = true
    · simp only [e, if_true, Option.some.injEq] at h
      subst h
      exact full_eq p0
    · simp only [e] at h
      exact full_eqF rest k p h
end

end full

end Cedar.Manifest
