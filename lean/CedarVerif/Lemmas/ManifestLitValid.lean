import CedarVerif.Lemmas.ManifestLit
import CedarVerif.Lemmas.ManifestValid
/-
C17 helper lemmas, part 14: THE LINK TO C03 for the fragment with record and set literals (`FragL`), without `NoRecOps`.
`sim_typedL`: over a conformant request and store, the typed AST (`typedAst`) of a well-typed expression of `FragL` is a
typed AST of it in the sense of `SimL`: the premises `TypedRes` (operands of `== in contains containsAll containsAny
isEmpty` have the annotated type, a closed type with distinct attribute names) and `ScalarRes` (operands of `< <= + - *`
and of extension functions are scalars) follow from type soundness (`soundM`) and from `typeOf_cn`.
-/
namespace Cedar.Manifest
open Cedar Cedar.C03

-- `FragE` plus set literals and record literals with distinct keys (the parser and `Expr::record` reject duplicates)
mutual
def FragL : Expr → Prop
  | .lit _ => True
  | .var _ => True
  | .ite c t e => FragL c ∧ FragL t ∧ FragL e
  | .and a b => FragL a ∧ FragL b
  | .or a b => FragL a ∧ FragL b
  | .unaryApp _ a => FragL a
  | .binaryApp op a b => FragOp op ∧ FragL a ∧ FragL b
  | .getAttr e _ => FragL e
  | .hasAttr e _ => FragL e
  | .like e _ => FragL e
  | .is e _ => FragL e
  | .call _ args => FragLList args
  | .set xs => FragLList xs
  | .record kvs => FragLKVs kvs ∧ (kvs.map (·.1)).Nodup
  | _ => False
def FragLList : List Expr → Prop
  | [] => True
  | x :: xs => FragL x ∧ FragLList xs
def FragLKVs : List (String × Expr) → Prop
  | [] => True
  | (_, x) :: xs => FragL x ∧ FragLKVs xs
end

mutual
theorem fragE_fragL : ∀ (e : Expr), FragE e → FragL e
  | .lit _, _ => trivial
  | .var _, _ => trivial
  | .ite c t e, h => by simp only [FragE] at h; exact ⟨fragE_fragL c h.1, fragE_fragL t h.2.1, fragE_fragL e h.2.2⟩
  | .and a b, h => by simp only [FragE] at h; exact ⟨fragE_fragL a h.1, fragE_fragL b h.2⟩
  | .or a b, h => by simp only [FragE] at h; exact ⟨fragE_fragL a h.1, fragE_fragL b h.2⟩
  | .unaryApp _ a, h => by simp only [FragE] at h; exact fragE_fragL a h
  | .binaryApp op a b, h => by simp only [FragE] at h; exact ⟨h.1, fragE_fragL a h.2.1, fragE_fragL b h.2.2⟩
  | .getAttr a _, h => by simp only [FragE] at h; exact fragE_fragL a h
  | .hasAttr a _, h => by simp only [FragE] at h; exact fragE_fragL a h
  | .like a _, h => by simp only [FragE] at h; exact fragE_fragL a h
  | .is a _, h => by simp only [FragE] at h; exact fragE_fragL a h
  | .call _ args, h => by simp only [FragE] at h; simp only [FragL]; exact fragEList_fragL args h
  | .slot _, h => by simp [FragE] at h
  | .unknown _ _, h => by simp [FragE] at h
  | .set _, h => by simp [FragE] at h
  | .record _, h => by simp [FragE] at h
theorem fragEList_fragL : ∀ (es : List Expr), FragEList es → FragLList es
  | [], _ => trivial
  | e :: es, h => by simp only [FragEList] at h; exact ⟨fragE_fragL e h.1, fragEList_fragL es h.2⟩
end

mutual
theorem fragL_inFragment2 (env : RequestEnv) : ∀ (e : Expr), FragL e → InFragment2 env e = true
  | .lit _, _ => rfl
  | .var _, _ => rfl
  | .ite c t e, h => by
    simp only [FragL] at h
    simp only [InFragment2, InFragmentM, Bool.and_eq_true, ValidationMode.isStrict, Bool.true_or, and_true]
    exact ⟨⟨fragL_inFragment2 env c h.1, fragL_inFragment2 env t h.2.1⟩, fragL_inFragment2 env e h.2.2⟩
  | .and a b, h => by
    simp only [FragL] at h
    simp only [InFragment2, InFragmentM, Bool.and_eq_true]
    exact ⟨fragL_inFragment2 env a h.1, fragL_inFragment2 env b h.2⟩
  | .or a b, h => by
    simp only [FragL] at h
    simp only [InFragment2, InFragmentM, Bool.and_eq_true]
    exact ⟨fragL_inFragment2 env a h.1, fragL_inFragment2 env b h.2⟩
  | .unaryApp _ a, h => by
    simp only [FragL] at h
    simp only [InFragment2, InFragmentM]
    exact fragL_inFragment2 env a h
  | .binaryApp op a b, h => by
    simp only [FragL] at h
    simp only [InFragment2, InFragmentM, Bool.and_eq_true, binOpOK_all, true_and]
    exact ⟨fragL_inFragment2 env a h.2.1, fragL_inFragment2 env b h.2.2⟩
  | .getAttr a _, h => by
    simp only [FragL] at h
    simp only [InFragment2, InFragmentM]
    exact fragL_inFragment2 env a h
  | .hasAttr a _, h => by
    simp only [FragL] at h
    simp only [InFragment2, InFragmentM]
    exact fragL_inFragment2 env a h
  | .like a _, h => by
    simp only [FragL] at h
    simp only [InFragment2, InFragmentM]
    exact fragL_inFragment2 env a h
  | .is a _, h => by
    simp only [FragL] at h
    simp only [InFragment2, InFragmentM]
    exact fragL_inFragment2 env a h
  | .slot _, h => by simp [FragL] at h
  | .unknown _ _, h => by simp [FragL] at h
  | .call _ args, h => by
    simp only [FragL] at h
    simp only [InFragment2, InFragmentM]
    exact fragLList_inFragment2 env args h
  | .set xs, h => by
    simp only [FragL] at h
    simp only [InFragment2, InFragmentM, Bool.and_eq_true, ValidationMode.isStrict, Bool.true_or, and_true]
    exact fragLList_inFragment2 env xs h
  | .record kvs, h => by
    simp only [FragL] at h
    simp only [InFragment2, InFragmentM, Bool.and_eq_true, decide_eq_true_eq]
    exact ⟨fragLKVs_inFragment2 env kvs h.1, h.2⟩
theorem fragLList_inFragment2 (env : RequestEnv) : ∀ (es : List Expr), FragLList es → InFragment2List env es = true
  | [], _ => rfl
  | e :: es, h => by
    simp only [FragLList] at h
    simp only [InFragment2List, InFragmentMList, Bool.and_eq_true]
    exact ⟨fragL_inFragment2 env e h.1, fragLList_inFragment2 env es h.2⟩
theorem fragLKVs_inFragment2 (env : RequestEnv) : ∀ (es : List (String × Expr)), FragLKVs es → InFragment2KVs env es = true
  | [], _ => rfl
  | (k, e) :: es, h => by
    simp only [FragLKVs] at h
    simp only [InFragment2KVs, InFragmentMKVs, Bool.and_eq_true]
    exact ⟨fragL_inFragment2 env e h.1, fragLKVs_inFragment2 env es h.2⟩
end

/-! ## flat operand types -/

theorem comparable_flat {t : CedarType} (h : isComparable t = true) : t.flat = true := by
  cases t <;> simp [isComparable, CedarType.flat] at h ⊢

theorem cmpType_flat {τa τb : CedarType} {x : CedarType × Capabilities} (h : cmpType τa τb = .ok x) :
    τa.flat = true ∧ τb.flat = true := by
  unfold cmpType at h
  split at h
  · cases h
  · split at h
    · rename_i hc; exact ⟨rfl, comparable_flat hc⟩
    · cases h
  · split at h
    · rename_i hc; exact ⟨comparable_flat hc, rfl⟩
    · cases h
  · split at h
    · rename_i hc
      simp only [Bool.and_eq_true] at hc
      refine ⟨comparable_flat hc.2, ?_⟩
      have h0 := hc.1
      have h1 := hc.2
      cases τa <;> simp [isComparable] at h1 <;> cases τb <;> simp [CedarType.beq, CedarType.flat] at h0 ⊢
    · cases h

theorem sub_flat1 {τ t : CedarType} (h : isSubtype .permissive τ t = true) (ht : t.flat = true) : τ.flat = true := by
  cases t <;> simp [CedarType.flat] at ht <;> cases τ <;> simp [isSubtype, CedarType.flat] at h ⊢

theorem sub_flat {τ : CedarType} {exp : List CedarType}
    (h : exp.any (fun t => isSubtype .permissive τ t) = true) (hexp : ∀ t, t ∈ exp → t.flat = true) : τ.flat = true := by
  rw [List.any_eq_true] at h
  obtain ⟨t, ht, hs⟩ := h
  exact sub_flat1 hs (hexp t ht)

/-- both operands of `< <= + - *` are typed, with flat types -/
theorem arith_inv {s : Schema} {env : RequestEnv} {op : BinaryOp} {a b : Expr} {caps : Capabilities} {τ : CedarType}
    {c' : Capabilities} (hop : ArithOp op) (h : typeOf .strict s env (.binaryApp op a b) caps = .ok (τ, c')) :
    ∃ τa ca τb cb, typeOf .strict s env a caps = .ok (τa, ca) ∧ typeOf .strict s env b caps = .ok (τb, cb) ∧
      τa.flat = true ∧ τb.flat = true := by
  have hlong : ∀ t, t ∈ [CedarType.long] → t.flat = true := by
    intro t ht; simp only [List.mem_singleton] at ht; subst ht; rfl
  rcases hop with e | e | e | e | e <;> subst e <;> simp only [typeOf] at h <;>
    obtain ⟨τa, ca, τb, cb, h1, h2, h3⟩ := both_ok h
  · obtain ⟨n1, n2⟩ := cmpType_flat h3
    exact ⟨τa, ca, τb, cb, h1, h2, n1, n2⟩
  · obtain ⟨n1, n2⟩ := cmpType_flat h3
    exact ⟨τa, ca, τb, cb, h1, h2, n1, n2⟩
  · obtain ⟨t1, s1⟩ := expectOneOf_ok h1
    obtain ⟨t2, s2⟩ := expectOneOf_ok h2
    exact ⟨τa, ca, τb, cb, t1, t2, sub_flat s1 hlong, sub_flat s2 hlong⟩
  · obtain ⟨t1, s1⟩ := expectOneOf_ok h1
    obtain ⟨t2, s2⟩ := expectOneOf_ok h2
    exact ⟨τa, ca, τb, cb, t1, t2, sub_flat s1 hlong, sub_flat s2 hlong⟩
  · obtain ⟨t1, s1⟩ := expectOneOf_ok h1
    obtain ⟨t2, s2⟩ := expectOneOf_ok h2
    exact ⟨τa, ca, τb, cb, t1, t2, sub_flat s1 hlong, sub_flat s2 hlong⟩

theorem extSig_flat {fn : String} {sig : ExtSig} (h : extSig fn = some sig) : ∀ t, t ∈ sig.args → t.flat = true := by
  unfold extSig at h
  simp only at h
  split at h <;> first | (cases h; decide) | cases h

theorem fragOp_cases {op : BinaryOp} (h : FragOp op) : ArithOp op ∨ FullOp op := by
  rcases h with e | e | e | e | e | e | e | e | e | e <;> subst e <;> simp [ArithOp, FullOp]

theorem typedAstList_length (s : Schema) (env : RequestEnv) (caps : Capabilities) : ∀ (xs : List Expr),
    (typedAstList s env xs caps).length = xs.length
  | [] => rfl
  | x :: xs => by simp [typedAstList, typedAstList_length s env caps xs]

theorem typedAstKVs_keys (s : Schema) (env : RequestEnv) (caps : Capabilities) : ∀ (kvs : List (String × Expr)),
    (typedAstKVs s env kvs caps).map (·.1) = kvs.map (·.1)
  | [] => rfl
  | (k, x) :: xs => by simp [typedAstKVs, typedAstKVs_keys s env caps xs]

/-! ## type soundness gives the premises of `SimL` -/

theorem scalarRes_of_sound {w : World} {e : Expr} {τ : CedarType} {c : Capabilities} (h : TySound w e τ c)
    (hτ : τ.flat = true) : ScalarRes (evaluate w.q w.es w.sl e) := by
  intro v hk
  rcases h with ⟨err, he, _⟩ | ⟨v', hv, hi, _⟩
  · have he' : evaluate w.q w.es w.sl e = .error err := he
    rw [hk] at he'; cases he'
  · have hv' : evaluate w.q w.es w.sl e = .ok v' := hv
    rw [hk] at hv'
    cases hv'
    exact inst_flat_scalar hi hτ

theorem typedRes_of_sound {w : World} {e : Expr} {τ : CedarType} {c : Capabilities} (h : TySound w e τ c)
    (hτ : cn τ = true) : TypedRes (evaluate w.q w.es w.sl e) (some τ) := by
  refine ⟨τ, rfl, hτ, ?_⟩
  intro v hk
  rcases h with ⟨err, he, _⟩ | ⟨v', hv, hi, _⟩
  · have he' : evaluate w.q w.es w.sl e = .error err := he
    rw [hk] at he'; cases he'
  · have hv' : evaluate w.q w.es w.sl e = .ok v' := hv
    rw [hk] at hv'
    cases hv'
    exact hi

section sim
variable {s : Schema} {env : RequestEnv} {req : Request} {es : Entities}
variable (hWF : SchemaWF3 s) (henv : EnvMatches s env req) (hsem : Sem s env ⟨req, es, []⟩)
include hWF henv hsem

theorem sound_ofL (e : Expr) (hf : FragL e) (caps : Capabilities) (τ : CedarType) (c' : Capabilities)
    (h : typeOf .strict s env e caps = .ok (τ, c')) (hc : CapsHold ⟨req, es, []⟩ caps) :
    TySound ⟨req, es, []⟩ e τ c' :=
  ((soundM (w := ⟨req, es, []⟩) hWF.toSchemaWF2 henv e (fragL_inFragment2 env e hf) caps τ c' h).2 hsem hc).1

omit hsem in
theorem cn_ofL (e : Expr) (hf : FragL e) (caps : Capabilities) (τ : CedarType) (c' : Capabilities)
    (h : typeOf .strict s env e caps = .ok (τ, c')) : cn τ = true :=
  typeOf_cn hWF henv e (fragL_inFragment2 env e hf) caps τ c' h

mutual
/-- C03 ⇒ `SimL`: over a conformant request and store, the typed AST of a well-typed expression of the fragment with
literals is a typed AST of it in the sense of `SimL` — no side condition on record operands -/
theorem sim_typedL : ∀ (e : Expr), FragL e → ∀ (caps : Capabilities) (τ : CedarType) (c' : Capabilities),
    typeOf .strict s env e caps = .ok (τ, c') → CapsHold ⟨req, es, []⟩ caps →
    SimL req es e (typedAst s env e caps)
  | .lit p, _, _, _, _, _, _ => by simp only [typedAst]; exact .lit p
  | .var x, _, _, _, _, _, _ => by simp only [typedAst]; exact .var x
  | .and a b, hf, caps, τ, c', h, hc => by
    simp only [FragL] at hf
    simp only [typeOf] at h
    cases hA : expectOneOf (typeOf .strict s env a caps) [boolT] with
    | error err => rw [hA] at h; cases h
    | ok pa =>
      obtain ⟨τa, ca⟩ := pa
      rw [hA] at h; simp only at h
      obtain ⟨hta, _⟩ := expectOneOf_ok hA
      have sa := sound_ofL hWF henv hsem a hf.1 caps τa ca hta hc
      simp only [typedAst, hta]
      by_cases hfalse : τa.isFalse = true
      · simp only [hfalse, if_true]
        have := isFalse_eq hfalse; subst this
        exact .andFalse (sim_typedL a hf.1 caps _ ca hta hc) (sound_ff_val sa)
      · simp only [hfalse, Bool.false_eq_true, if_false] at h ⊢
        cases hB : expectOneOf (typeOf .strict s env b (caps.union ca)) [boolT] with
        | error err => rw [hB] at h; cases h
        | ok pb =>
          obtain ⟨τb, cb⟩ := pb
          obtain ⟨htb, _⟩ := expectOneOf_ok hB
          refine .and (sim_typedL a hf.1 caps _ ca hta hc) (fun htrue => ?_)
          exact sim_typedL b hf.2 (caps.union ca) τb cb htb (capsHold_union.mpr ⟨hc, sound_true_caps sa htrue⟩)
  | .or a b, hf, caps, τ, c', h, hc => by
    simp only [FragL] at hf
    simp only [typeOf] at h
    cases hA : expectOneOf (typeOf .strict s env a caps) [boolT] with
    | error err => rw [hA] at h; cases h
    | ok pa =>
      obtain ⟨τa, ca⟩ := pa
      rw [hA] at h; simp only at h
      obtain ⟨hta, _⟩ := expectOneOf_ok hA
      have sa := sound_ofL hWF henv hsem a hf.1 caps τa ca hta hc
      simp only [typedAst, hta]
      by_cases htrue : τa.isTrue = true
      · simp only [htrue, if_true]
        have := isTrue_eq htrue; subst this
        exact .orTrue (sim_typedL a hf.1 caps _ ca hta hc) (sound_tt_val sa).1
      · simp only [htrue, Bool.false_eq_true, if_false] at h ⊢
        cases hB : expectOneOf (typeOf .strict s env b caps) [boolT] with
        | error err => rw [hB] at h; cases h
        | ok pb =>
          obtain ⟨τb, cb⟩ := pb
          obtain ⟨htb, _⟩ := expectOneOf_ok hB
          exact .or (sim_typedL a hf.1 caps _ ca hta hc) (fun _ => sim_typedL b hf.2 caps τb cb htb hc)
  | .ite c t e, hf, caps, τ, c', h, hc => by
    simp only [FragL] at hf
    simp only [typeOf] at h
    cases hC : expectOneOf (typeOf .strict s env c caps) [boolT] with
    | error err => rw [hC] at h; cases h
    | ok pc =>
      obtain ⟨τc, cc⟩ := pc
      rw [hC] at h; simp only at h
      obtain ⟨htc, _⟩ := expectOneOf_ok hC
      have sc := sound_ofL hWF henv hsem c hf.1 caps τc cc htc hc
      simp only [typedAst, htc]
      by_cases htrue : τc.isTrue = true
      · simp only [htrue, if_true] at h ⊢
        have := isTrue_eq htrue; subst this
        cases hT : typeOf .strict s env t (caps.union cc) with
        | error err => rw [hT] at h; cases h
        | ok pt =>
          obtain ⟨τt, ct⟩ := pt
          refine .iteTrue (sim_typedL c hf.1 caps _ cc htc hc) (sound_tt_val sc).1 (fun hv => ?_)
          exact sim_typedL t hf.2.1 (caps.union cc) τt ct hT (capsHold_union.mpr ⟨hc, (sound_tt_val sc).2 hv⟩)
      · simp only [htrue, Bool.false_eq_true, if_false] at h ⊢
        by_cases hfalse : τc.isFalse = true
        · simp only [hfalse, if_true] at h ⊢
          have := isFalse_eq hfalse; subst this
          exact .iteFalse (sim_typedL c hf.1 caps _ cc htc hc) (sound_ff_val sc)
            (fun _ => sim_typedL e hf.2.2 caps τ c' h hc)
        · simp only [hfalse, Bool.false_eq_true, if_false] at h ⊢
          obtain ⟨τt, ct, τe, ce, hT, hE, _⟩ := both_ok h
          refine .ite (sim_typedL c hf.1 caps _ cc htc hc) (fun hv => ?_) (fun _ => sim_typedL e hf.2.2 caps τe ce hE hc)
          exact sim_typedL t hf.2.1 (caps.union cc) τt ct hT (capsHold_union.mpr ⟨hc, sound_true_caps sc hv⟩)
  | .unaryApp op a, hf, caps, τ, c', h, hc => by
    simp only [FragL] at hf
    obtain ⟨τa, ca, hta⟩ := operand_inv (.unaryApp op a) (Or.inl ⟨op, rfl⟩) h
    simp only [typedAst]
    by_cases hop : op = .isEmpty
    · subst hop
      refine .isEmpty _ (sim_typedL a hf caps τa ca hta hc) ?_
      simp only [tyOf, hta]
      exact typedRes_of_sound (sound_ofL hWF henv hsem a hf caps τa ca hta hc) (cn_ofL hWF henv a hf caps τa ca hta)
    · exact .unary op _ hop (sim_typedL a hf caps τa ca hta hc)
  | .binaryApp op a b, hf, caps, τ, c', h, hc => by
    simp only [FragL] at hf
    simp only [typedAst]
    rcases fragOp_cases hf.1 with hop | hop
    · obtain ⟨τa, ca, τb, cb, h1, h2, f1, f2⟩ := arith_inv hop h
      exact .arith op _ _ hop (sim_typedL a hf.2.1 caps τa ca h1 hc) (sim_typedL b hf.2.2 caps τb cb h2 hc)
        (scalarRes_of_sound (sound_ofL hWF henv hsem a hf.2.1 caps τa ca h1 hc) f1)
        (scalarRes_of_sound (sound_ofL hWF henv hsem b hf.2.2 caps τb cb h2 hc) f2)
    · obtain ⟨τa, ca, τb, cb, h1, h2, _, _⟩ := binary_inv hf.1 h
      refine .full op _ _ hop (sim_typedL a hf.2.1 caps τa ca h1 hc) (sim_typedL b hf.2.2 caps τb cb h2 hc) ?_ ?_
      · simp only [tyOf, h1]
        exact typedRes_of_sound (sound_ofL hWF henv hsem a hf.2.1 caps τa ca h1 hc) (cn_ofL hWF henv a hf.2.1 caps τa ca h1)
      · simp only [tyOf, h2]
        exact typedRes_of_sound (sound_ofL hWF henv hsem b hf.2.2 caps τb cb h2 hc) (cn_ofL hWF henv b hf.2.2 caps τb cb h2)
  | .getAttr e a, hf, caps, τ, c', h, hc => by
    simp only [FragL] at hf
    obtain ⟨τe, ce, hte⟩ := operand_inv (.getAttr e a) (Or.inr (Or.inl ⟨a, rfl⟩)) h
    simp only [typedAst]
    exact .getAttr a (sim_typedL e hf caps τe ce hte hc)
  | .hasAttr e a, hf, caps, τ, c', h, hc => by
    simp only [FragL] at hf
    obtain ⟨τe, ce, hte⟩ := operand_inv (.hasAttr e a) (Or.inr (Or.inr (Or.inl ⟨a, rfl⟩))) h
    simp only [typedAst]
    exact .hasAttr a (sim_typedL e hf caps τe ce hte hc)
  | .like e p, hf, caps, τ, c', h, hc => by
    simp only [FragL] at hf
    obtain ⟨τe, ce, hte⟩ := operand_inv (.like e p) (Or.inr (Or.inr (Or.inr (Or.inl ⟨p, rfl⟩)))) h
    simp only [typedAst]
    exact .like p (sim_typedL e hf caps τe ce hte hc)
  | .is e ty, hf, caps, τ, c', h, hc => by
    simp only [FragL] at hf
    obtain ⟨τe, ce, hte⟩ := operand_inv (.is e ty) (Or.inr (Or.inr (Or.inr (Or.inr ⟨ty, rfl⟩)))) h
    simp only [typedAst]
    exact .is ty (sim_typedL e hf caps τe ce hte hc)
  | .call fn [], _, caps, τ, c', h, _ => by
    obtain ⟨sig, τs, hsig, _, hlen, _, _⟩ := call_inv h
    obtain ⟨_, _, harity⟩ := extSig_facts hsig
    simp only [List.length_nil] at hlen
    omega
  | .call fn (_ :: _ :: _ :: _), _, caps, τ, c', h, _ => by
    obtain ⟨sig, τs, hsig, _, hlen, _, _⟩ := call_inv h
    obtain ⟨_, _, harity⟩ := extSig_facts hsig
    simp only [List.length_cons] at hlen
    omega
  | .call fn [a], hf, caps, τ, c', h, hc => by
    obtain ⟨sig, τs, hsig, hL, hlen, hall, hτ⟩ := call_inv h
    obtain ⟨hflat, _, _⟩ := extSig_facts hsig
    have hargs := extSig_flat hsig
    have snd := sound_ofL hWF henv hsem (.call fn [a]) hf caps τ c' h hc
    have hscal : ∀ w, evaluate req es [] (.call fn [a]) = .ok w → Scalar w := by
      subst hτ
      exact scalarRes_of_sound snd hflat
    obtain ⟨τa, ca, τs', h1, _, rfl⟩ := typeOfList_cons hL
    simp only [FragL, FragLList, and_true] at hf
    simp only [typedAst, typedAstList]
    have hna : τa.flat = true := by
      cases hsa : sig.args with
      | nil => rw [hsa] at hlen; simp at hlen
      | cons t ts =>
        rw [hsa] at hall
        simp only [List.zip_cons_cons, List.all_cons, Bool.and_eq_true] at hall
        exact sub_flat1 hall.1 (hargs t (by simp [hsa]))
    exact .call1 fn (sim_typedL a hf caps τa ca h1 hc)
      (scalarRes_of_sound (sound_ofL hWF henv hsem a hf caps τa ca h1 hc) hna) hscal
  | .call fn [a, b], hf, caps, τ, c', h, hc => by
    obtain ⟨sig, τs, hsig, hL, hlen, hall, hτ⟩ := call_inv h
    obtain ⟨hflat, _, _⟩ := extSig_facts hsig
    have hargs := extSig_flat hsig
    have snd := sound_ofL hWF henv hsem (.call fn [a, b]) hf caps τ c' h hc
    have hscal : ∀ w, evaluate req es [] (.call fn [a, b]) = .ok w → Scalar w := by
      subst hτ
      exact scalarRes_of_sound snd hflat
    obtain ⟨τa, ca, τs', h1, hL', rfl⟩ := typeOfList_cons hL
    obtain ⟨τb, cb, τs'', h2, _, rfl⟩ := typeOfList_cons hL'
    simp only [FragL, FragLList, and_true] at hf
    simp only [typedAst, typedAstList]
    have hnab : τa.flat = true ∧ τb.flat = true := by
      cases hsa : sig.args with
      | nil => rw [hsa] at hlen; simp at hlen
      | cons t ts =>
        cases ts with
        | nil => rw [hsa] at hlen; simp at hlen
        | cons t2 ts2 =>
          rw [hsa] at hall
          simp only [List.zip_cons_cons, List.all_cons, Bool.and_eq_true] at hall
          exact ⟨sub_flat1 hall.1 (hargs t (by simp [hsa])), sub_flat1 hall.2.1 (hargs t2 (by simp [hsa]))⟩
    exact .call2 fn (sim_typedL a hf.1 caps τa ca h1 hc) (sim_typedL b hf.2 caps τb cb h2 hc)
      (scalarRes_of_sound (sound_ofL hWF henv hsem a hf.1 caps τa ca h1 hc) hnab.1)
      (scalarRes_of_sound (sound_ofL hWF henv hsem b hf.2 caps τb cb h2 hc) hnab.2) hscal
  | .set xs, hf, caps, τ, c', h, hc => by
    simp only [FragL] at hf
    simp only [typeOf] at h
    cases hL : typeOfList .strict s env xs caps with
    | error err => rw [hL] at h; cases h
    | ok τs =>
      simp only [typedAst]
      exact .set (typedAstList_length s env caps xs).symm (sim_typedL_list xs hf caps τs hL hc)
  | .record kvs, hf, caps, τ, c', h, hc => by
    simp only [FragL] at hf
    simp only [typeOf] at h
    cases hL : typeOfKVs .strict s env kvs caps with
    | error err => rw [hL] at h; cases h
    | ok attrs =>
      simp only [typedAst]
      exact .record hf.2 (typedAstKVs_keys s env caps kvs).symm (sim_typedL_kvs kvs hf.1 caps attrs hL hc)
  | .slot _, hf, _, _, _, _, _ => by simp [FragL] at hf
  | .unknown _ _, hf, _, _, _, _, _ => by simp [FragL] at hf
theorem sim_typedL_list : ∀ (xs : List Expr), FragLList xs → ∀ (caps : Capabilities) (τs : List CedarType),
    typeOfList .strict s env xs caps = .ok τs → CapsHold ⟨req, es, []⟩ caps →
    ∀ x tx, (x, tx) ∈ xs.zip (typedAstList s env xs caps) → SimL req es x tx
  | [], _, _, _, _, _, _, _, hm => by simp [typedAstList] at hm
  | x :: xs, hf, caps, τs, h, hc, y, ty, hm => by
    simp only [FragLList] at hf
    obtain ⟨τ, c, τs', h1, h2, _⟩ := typeOfList_cons h
    simp only [typedAstList, List.zip_cons_cons, List.mem_cons, Prod.mk.injEq] at hm
    rcases hm with ⟨rfl, rfl⟩ | hm
    · exact sim_typedL y hf.1 caps τ c h1 hc
    · exact sim_typedL_list xs hf.2 caps τs' h2 hc y ty hm
theorem sim_typedL_kvs : ∀ (kvs : List (String × Expr)), FragLKVs kvs → ∀ (caps : Capabilities) (attrs : Attrs),
    typeOfKVs .strict s env kvs caps = .ok attrs → CapsHold ⟨req, es, []⟩ caps →
    ∀ x tx, (x, tx) ∈ (kvs.map (·.2)).zip ((typedAstKVs s env kvs caps).map (·.2)) → SimL req es x tx
  | [], _, _, _, _, _, _, _, hm => by simp [typedAstKVs] at hm
  | (k, x) :: xs, hf, caps, attrs, h, hc, y, ty, hm => by
    simp only [FragLKVs] at hf
    obtain ⟨τ, c, attrs', h1, h2, _⟩ := typeOfKVs_cons h
    simp only [typedAstKVs, List.map_cons, List.zip_cons_cons, List.mem_cons, Prod.mk.injEq] at hm
    rcases hm with ⟨rfl, rfl⟩ | hm
    · exact sim_typedL y hf.1 caps τ c h1 hc
    · exact sim_typedL_kvs xs hf.2 caps attrs' h2 hc y ty hm
end

end sim

/-! ## the annotations have unique attribute names -/

section uk
variable {s : Schema} {env : RequestEnv} {q : Request} (hWF : SchemaWF3 s) (henv : EnvMatches s env q)
include hWF henv

theorem optUK_tyOfL (e : Expr) (hf : FragL e) (caps : Capabilities) : optUK (tyOf s env e caps) := by
  unfold tyOf
  cases hT : typeOf .strict s env e caps with
  | error err => simp [optUK]
  | ok p =>
    obtain ⟨τ, c⟩ := p
    simp only [optUK]
    exact typeUK_of_cn τ (typeOf_cn hWF henv e (fragL_inFragment2 env e hf) caps τ c hT)

set_option linter.unusedSectionVars false in
mutual
theorem typesUK_typedL : ∀ (e : Expr), FragL e → ∀ (caps : Capabilities), TypesUK (typedAst s env e caps)
  | .lit p, _, _ => by simp [typedAst, TypesUK]
  | .var x, _, _ => by simp [typedAst, TypesUK]
  | .and a b, hf, caps => by
    simp only [FragL] at hf
    simp only [typedAst]
    split
    · split
      · exact typesUK_typedL a hf.1 caps
      · simp only [TypesUK]; exact ⟨typesUK_typedL a hf.1 caps, typesUK_typedL b hf.2 _⟩
    · simp only [TypesUK]; exact ⟨typesUK_typedL a hf.1 caps, typesUK_typedL b hf.2 _⟩
  | .or a b, hf, caps => by
    simp only [FragL] at hf
    simp only [typedAst]
    split
    · split
      · exact typesUK_typedL a hf.1 caps
      · simp only [TypesUK]; exact ⟨typesUK_typedL a hf.1 caps, typesUK_typedL b hf.2 _⟩
    · simp only [TypesUK]; exact ⟨typesUK_typedL a hf.1 caps, typesUK_typedL b hf.2 _⟩
  | .ite c t e, hf, caps => by
    simp only [FragL] at hf
    simp only [typedAst]
    split
    · split
      · simp only [TypesUK]; exact ⟨typesUK_typedL c hf.1 caps, typesUK_typedL t hf.2.1 _, typesUK_typedL t hf.2.1 _⟩
      · split
        · simp only [TypesUK]; exact ⟨typesUK_typedL c hf.1 caps, typesUK_typedL e hf.2.2 _, typesUK_typedL e hf.2.2 _⟩
        · simp only [TypesUK]; exact ⟨typesUK_typedL c hf.1 caps, typesUK_typedL t hf.2.1 _, typesUK_typedL e hf.2.2 _⟩
    · simp only [TypesUK]; exact ⟨typesUK_typedL c hf.1 caps, typesUK_typedL t hf.2.1 _, typesUK_typedL e hf.2.2 _⟩
  | .unaryApp op a, hf, caps => by
    simp only [FragL] at hf
    simp only [typedAst, TypesUK]
    exact ⟨optUK_tyOfL hWF henv a hf caps, typesUK_typedL a hf caps⟩
  | .binaryApp op a b, hf, caps => by
    simp only [FragL] at hf
    simp only [typedAst, TypesUK]
    exact ⟨optUK_tyOfL hWF henv a hf.2.1 caps, optUK_tyOfL hWF henv b hf.2.2 caps, typesUK_typedL a hf.2.1 caps,
      typesUK_typedL b hf.2.2 caps⟩
  | .getAttr e _, hf, caps => by
    simp only [FragL] at hf
    simp only [typedAst, TypesUK]
    exact typesUK_typedL e hf caps
  | .hasAttr e _, hf, caps => by
    simp only [FragL] at hf
    simp only [typedAst, TypesUK]
    exact typesUK_typedL e hf caps
  | .like e _, hf, caps => by
    simp only [FragL] at hf
    simp only [typedAst, TypesUK]
    exact typesUK_typedL e hf caps
  | .is e _, hf, caps => by
    simp only [FragL] at hf
    simp only [typedAst, TypesUK]
    exact typesUK_typedL e hf caps
  | .call _ args, hf, caps => by
    simp only [FragL] at hf
    simp only [typedAst, TypesUK]
    exact typesUKList_typedL args hf caps
  | .set xs, hf, caps => by
    simp only [FragL] at hf
    simp only [typedAst, TypesUK]
    exact typesUKList_typedL xs hf caps
  | .record kvs, hf, caps => by
    simp only [FragL] at hf
    simp only [typedAst, TypesUK]
    exact typesUKKVs_typedL kvs hf.1 caps
  | .slot _, hf, _ => by simp [FragL] at hf
  | .unknown _ _, hf, _ => by simp [FragL] at hf
theorem typesUKList_typedL : ∀ (es : List Expr), FragLList es → ∀ (caps : Capabilities), TypesUKList (typedAstList s env es caps)
  | [], _, _ => by simp [typedAstList, TypesUKList]
  | e :: es, hf, caps => by
    simp only [FragLList] at hf
    simp only [typedAstList, TypesUKList]
    exact ⟨typesUK_typedL e hf.1 caps, typesUKList_typedL es hf.2 caps⟩
theorem typesUKKVs_typedL : ∀ (es : List (String × Expr)), FragLKVs es → ∀ (caps : Capabilities),
    TypesUKKVs (typedAstKVs s env es caps)
  | [], _, _ => by simp [typedAstKVs, TypesUKKVs]
  | (k, e) :: es, hf, caps => by
    simp only [FragLKVs] at hf
    simp only [typedAstKVs, TypesUKKVs]
    exact ⟨typesUK_typedL e hf.1 caps, typesUKKVs_typedL es hf.2 caps⟩
end

end uk

end Cedar.Manifest
