import CedarVerif.Cedar.SchemaSyntax
/- Helper lemmas for Thm/C09.lean: the parser inverts the printer on Cedar type expressions. -/
namespace Cedar.SchemaSyntax

theorem ofComps_append (p : List String) (b s : String) : QName.ofComps s (p ++ [b]) = ⟨s :: p, b⟩ := by
  induction p generalizing s with
  | nil => simp [QName.ofComps]
  | cons a p ih => simp [QName.ofComps, ih]

/-- the continuation does not extend a path (`::`) nor turn a leading `Set` into a set type (`<`) -/
def OkRest : List Tok → Prop
  | .dcolon :: _ => False
  | .lt :: _ => False
  | _ => True

theorem parsePathTail_print (cs : List String) (rest : List Tok)
    (hv : ∀ c ∈ cs, validId c = true) (hr : OkRest rest) :
    parsePathTail (printPathTail cs ++ rest) = some (cs, rest) := by
  induction cs with
  | nil =>
    simp only [printPathTail, List.nil_append]
    match rest, hr with
    | [], _ => simp [parsePathTail]
    | .dcolon :: _, h => exact absurd h (by simp [OkRest])
    | .id _ :: _, _ => simp [parsePathTail]
    | .str _ :: _, _ => simp [parsePathTail]
    | .lt :: _, h => exact absurd h (by simp [OkRest])
    | .gt :: _, _ => simp [parsePathTail]
    | .lb :: _, _ => simp [parsePathTail]
    | .rb :: _, _ => simp [parsePathTail]
    | .colon :: _, _ => simp [parsePathTail]
    | .comma :: _, _ => simp [parsePathTail]
    | .q :: _, _ => simp [parsePathTail]
    | .other _ :: _, _ => simp [parsePathTail]
  | cons c cs ih =>
    have hc : validId c = true := hv c (by simp)
    have ih' := ih (fun x hx => hv x (by simp [hx]))
    simp [printPathTail, parsePathTail, hc, ih']

mutual
def sizeC : TyCedar → Nat
  | .ident _ => 1
  | .set e => sizeC e + 1
  | .record attrs => sizeA attrs + 1
def sizeA : AttrsC → Nat
  | .nil => 0
  | .cons _ _ t rest => sizeC t + sizeA rest + 1
end

mutual
/-- every path component is an identifier the grammar's `Ident` accepts (true of every name a loaded schema contains) -/
def WFC : TyCedar → Prop
  | .ident p => ∀ c ∈ p.comps, validId c = true
  | .set e => WFC e
  | .record attrs => WFA attrs
def WFA : AttrsC → Prop
  | .nil => True
  | .cons _ _ t rest => WFC t ∧ WFA rest
end

theorem parseAttrNameTok_attrName (n : String) : parseAttrNameTok (attrName n) = some n := by
  unfold attrName
  split
  · rename_i h
    have : validId n = true := by
      simp [isNormalizedIdent] at h
      simp [validId, h.1.2]
    simp [parseAttrNameTok, this]
  · simp [parseAttrNameTok]

theorem attrName_ne_rb (n : String) : attrName n ≠ .rb := by
  unfold attrName; split <;> simp

theorem parseC_ident (p : QName) (fuel : Nat) (rest : List Tok)
    (hv : ∀ c ∈ p.comps, validId c = true) (hr : OkRest rest) :
    parseC (fuel + 1) (printName p ++ rest) = some (.ident p, rest) := by
  obtain ⟨path, base⟩ := p
  cases path with
  | nil =>
    have hb : validId base = true := hv base (by simp [QName.comps])
    have hpt : parsePathTail rest = some ([], rest) := by
      have := parsePathTail_print [] rest (by simp) hr
      simpa [printPathTail] using this
    simp only [printName, QName.comps, List.nil_append, printPathTail, List.cons_append]
    by_cases hs : base = "Set"
    · subst hs
      match rest, hr with
      | [], _ => simp [parseC, parsePath, hb, hpt, QName.ofComps]
      | .lt :: _, h => exact absurd h (by simp [OkRest])
      | .dcolon :: _, h => exact absurd h (by simp [OkRest])
      | .id _ :: _, _ => simp [parseC, parsePath, hb, hpt, QName.ofComps]
      | .str _ :: _, _ => simp [parseC, parsePath, hb, hpt, QName.ofComps]
      | .gt :: _, _ => simp [parseC, parsePath, hb, hpt, QName.ofComps]
      | .lb :: _, _ => simp [parseC, parsePath, hb, hpt, QName.ofComps]
      | .rb :: _, _ => simp [parseC, parsePath, hb, hpt, QName.ofComps]
      | .colon :: _, _ => simp [parseC, parsePath, hb, hpt, QName.ofComps]
      | .comma :: _, _ => simp [parseC, parsePath, hb, hpt, QName.ofComps]
      | .q :: _, _ => simp [parseC, parsePath, hb, hpt, QName.ofComps]
      | .other _ :: _, _ => simp [parseC, parsePath, hb, hpt, QName.ofComps]
    · simp [parseC, hs, parsePath, hb, hpt, QName.ofComps]
  | cons s path =>
    have hs : validId s = true := hv s (by simp [QName.comps])
    have htail : parsePathTail (printPathTail (path ++ [base]) ++ rest) = some (path ++ [base], rest) :=
      parsePathTail_print (path ++ [base]) rest (fun c hc => hv c (by simp [QName.comps] at hc ⊢; exact Or.inr hc)) hr
    simp only [printName, QName.comps, List.cons_append]
    cases hpb : path ++ [base] with
    | nil => simp at hpb
    | cons c cs =>
      rw [hpb] at htail
      by_cases hset : s = "Set"
      · subst hset
        simp only [printPathTail, List.cons_append] at htail ⊢
        simp [parseC, parsePath, hs, htail, ← hpb, ofComps_append]
      · simp only [printPathTail, List.cons_append] at htail ⊢
        simp [parseC, hset, parsePath, hs, htail, ← hpb, ofComps_append]


theorem okRest_rb (r : List Tok) : OkRest (.rb :: r) := by simp [OkRest]
theorem okRest_comma (r : List Tok) : OkRest (.comma :: r) := by simp [OkRest]
theorem okRest_gt (r : List Tok) : OkRest (.gt :: r) := by simp [OkRest]

/-- the first token of a non-empty attribute list is a name -/
theorem printAttrsC_cons_head (n : String) (req : Bool) (t : TyCedar) (rest : AttrsC) :
    ∃ tl, printAttrsC (.cons n req t rest) = attrName n :: tl := by
  simp [printAttrsC]

theorem printAttrsC_cons_cons (n : String) (req : Bool) (t : TyCedar) (n2 : String) (r2 : Bool) (t2 : TyCedar) (m2 : AttrsC) :
    printAttrsC (.cons n req t (.cons n2 r2 t2 m2)) =
      attrName n :: ((if req then [] else [.q]) ++ .colon :: (printC t ++ .comma :: printAttrsC (.cons n2 r2 t2 m2))) := by
  rw [printAttrsC]

mutual
theorem parseC_print (c : TyCedar) (h : WFC c) (fuel : Nat) (rest : List Tok)
    (hf : sizeC c ≤ fuel) (hr : OkRest rest) :
    parseC fuel (printC c ++ rest) = some (c, rest) := by
  match c, fuel with
  | .ident p, fuel + 1 =>
    simp only [printC]
    exact parseC_ident p fuel rest (by simpa [WFC] using h) hr
  | .ident p, 0 => simp [sizeC] at hf
  | .set e, 0 => simp [sizeC] at hf
  | .record _, 0 => simp [sizeC] at hf
  | .set e, fuel + 1 =>
    have ih := parseC_print e (by simpa [WFC] using h) fuel (.gt :: rest) (by simp [sizeC] at hf; omega) (okRest_gt rest)
    simp only [printC, List.cons_append, List.append_assoc, List.singleton_append]
    simp [parseC, ih]
  | .record .nil, fuel + 1 =>
    simp [printC, printAttrsC, parseC]
  | .record (.cons n req t more), fuel + 1 =>
    have ih := parseDecls_print n req t more (by simpa [WFC] using h) fuel rest (by simp [sizeC] at hf; omega)
    obtain ⟨tl, htl⟩ := printAttrsC_cons_head n req t more
    simp only [printC, List.cons_append, List.append_assoc, List.singleton_append] at ih ⊢
    rw [htl] at ih ⊢
    have hne := attrName_ne_rb n
    simp only [List.cons_append] at ih ⊢
    cases hn : attrName n with
    | rb => exact absurd hn hne
    | _ => rw [hn] at ih; simp [parseC, ih]
theorem parseDecls_print (n : String) (req : Bool) (t : TyCedar) (more : AttrsC) (h : WFA (.cons n req t more))
    (fuel : Nat) (rest : List Tok) (hf : sizeA (.cons n req t more) ≤ fuel) :
    parseDecls fuel (printAttrsC (.cons n req t more) ++ .rb :: rest) = some (.cons n req t more, rest) := by
  match fuel with
  | 0 => simp [sizeA] at hf
  | fuel + 1 =>
    have hw : WFC t ∧ WFA more := by simpa [WFA] using h
    have hname := parseAttrNameTok_attrName n
    match more with
    | .nil =>
      have ih := parseC_print t hw.1 fuel (.rb :: rest) (by simp [sizeA] at hf; omega) (okRest_rb rest)
      cases req <;> simp [printAttrsC, parseDecls, hname, ih]
    | .cons n2 req2 t2 more2 =>
      have ih2 := parseDecls_print n2 req2 t2 more2 hw.2 fuel rest (by simp [sizeA] at hf ⊢; omega)
      obtain ⟨tl, htl⟩ := printAttrsC_cons_head n2 req2 t2 more2
      have ih := parseC_print t hw.1 fuel (.comma :: (printAttrsC (.cons n2 req2 t2 more2) ++ .rb :: rest))
        (by simp [sizeA] at hf; omega) (okRest_comma _)
      have hne := attrName_ne_rb n2
      rw [printAttrsC_cons_cons]
      generalize printAttrsC (.cons n2 req2 t2 more2) = P at *
      subst htl
      cases hn : attrName n2 with
      | rb => exact absurd hn hne
      | _ =>
        rw [hn] at ih ih2
        simp only [List.cons_append] at ih ih2
        cases req <;> simp [parseDecls, hname, ih, ih2]
end

mutual
theorem sizeC_le_length (c : TyCedar) : sizeC c ≤ (printC c).length := by
  match c with
  | .ident p =>
    obtain ⟨path, base⟩ := p
    cases path <;> simp [sizeC, printC, printName, QName.comps]
  | .set e =>
    have := sizeC_le_length e
    simp [sizeC, printC]; omega
  | .record attrs =>
    have := sizeA_le_length attrs
    simp [sizeC, printC]; omega
theorem sizeA_le_length (a : AttrsC) : sizeA a ≤ (printAttrsC a).length := by
  match a with
  | .nil => simp [sizeA]
  | .cons n req t more =>
    have h1 := sizeC_le_length t
    have h2 := sizeA_le_length more
    cases more <;> cases req <;> simp [sizeA, printAttrsC] at h2 ⊢ <;> omega
end


/-! ## JSON side -/

mutual
theorem printTy_eq_printC (τ : TyJson) : printTy τ = printC (toCedar τ) := by
  match τ with
  | .bool | .long | .string | .ext _ | .entity _ | .entityOrCommon _ | .commonRef _ => simp [printTy, toCedar, printC]
  | .set e => simp [printTy, toCedar, printC, printTy_eq_printC e]
  | .record attrs => simp [printTy, toCedar, printC, printAttrsJ_eq attrs]
theorem printAttrsJ_eq (a : AttrsJ) : printAttrsJ a = printAttrsC (toCedarAttrs a) := by
  match a with
  | .nil => simp [printAttrsJ, toCedarAttrs, printAttrsC]
  | .cons n req t .nil => simp [printAttrsJ, toCedarAttrs, printAttrsC, printTy_eq_printC t]
  | .cons n req t (.cons n2 r2 t2 m2) =>
    have ih := printAttrsJ_eq (.cons n2 r2 t2 m2)
    have e1 : printAttrsJ (.cons n req t (.cons n2 r2 t2 m2)) =
        attrName n :: ((if req then [] else [.q]) ++ .colon :: (printTy t ++ .comma :: printAttrsJ (.cons n2 r2 t2 m2))) := by
      rw [printAttrsJ]
    have e2 : toCedarAttrs (.cons n req t (.cons n2 r2 t2 m2)) = .cons n req (toCedar t) (toCedarAttrs (.cons n2 r2 t2 m2)) := by
      rw [toCedarAttrs]
    have e3 : toCedarAttrs (.cons n2 r2 t2 m2) = .cons n2 r2 (toCedar t2) (toCedarAttrs m2) := by
      rw [toCedarAttrs]
    rw [e1, e2, ih, printTy_eq_printC t, e3, printAttrsC_cons_cons]
end

mutual
/-- names are made of identifiers the grammar accepts (guaranteed by `from_normalized_str` for every name of a loaded JSON schema) -/
def WFJ : TyJson → Prop
  | .bool | .long | .string => True
  | .ext n => validId n = true
  | .entity n | .entityOrCommon n | .commonRef n => ∀ c ∈ n.comps, validId c = true
  | .set e => WFJ e
  | .record attrs => WFAJ attrs
def WFAJ : AttrsJ → Prop
  | .nil => True
  | .cons _ _ t rest => WFJ t ∧ WFAJ rest
end

mutual
theorem wfc_toCedar (τ : TyJson) (h : WFJ τ) : WFC (toCedar τ) := by
  match τ with
  | .bool | .long | .string =>
    simp only [toCedar, WFC, cedarName, QName.comps]
    intro c hc
    simp at hc
    rcases hc with rfl | rfl <;> decide
  | .ext n =>
    simp only [toCedar, WFC, cedarName, QName.comps]
    intro c hc
    simp at hc
    rcases hc with rfl | rfl
    · decide
    · simpa [WFJ] using h
  | .entity n | .entityOrCommon n | .commonRef n => simpa [toCedar, WFC, WFJ] using h
  | .set e => simpa [toCedar, WFC] using wfc_toCedar e (by simpa [WFJ] using h)
  | .record attrs => simpa [toCedar, WFC] using wfa_toCedar attrs (by simpa [WFJ] using h)
theorem wfa_toCedar (a : AttrsJ) (h : WFAJ a) : WFA (toCedarAttrs a) := by
  match a with
  | .nil => simp [toCedarAttrs, WFA]
  | .cons n req t rest =>
    have hw : WFJ t ∧ WFAJ rest := by simpa [WFAJ] using h
    simp only [toCedarAttrs, WFA]
    exact ⟨wfc_toCedar t hw.1, wfa_toCedar rest hw.2⟩
end

mutual
/-- what translation does to a type expression, stated directly: primitives and extension types become references to
their `__cedar::` definitions and every reference loses its kind (`Entity` / common-only ↦ `EntityOrCommon`) -/
def eocForm : TyJson → TyJson
  | .bool => .entityOrCommon (cedarName "Bool")
  | .long => .entityOrCommon (cedarName "Long")
  | .string => .entityOrCommon (cedarName "String")
  | .ext n => .entityOrCommon (cedarName n)
  | .entity n => .entityOrCommon n
  | .entityOrCommon n => .entityOrCommon n
  | .commonRef n => .entityOrCommon n
  | .set e => .set (eocForm e)
  | .record attrs => .record (eocFormAttrs attrs)
def eocFormAttrs : AttrsJ → AttrsJ
  | .nil => .nil
  | .cons n req t rest => .cons n req (eocForm t) (eocFormAttrs rest)
end

def keysJ : AttrsJ → List String
  | .nil => []
  | .cons n _ _ rest => n :: keysJ rest

def appendJ : AttrsJ → AttrsJ → AttrsJ
  | .nil, b => b
  | .cons n r t rest, b => .cons n r t (appendJ rest b)

mutual
/-- record attributes are in `BTreeMap` order: strictly ascending keys (at every nesting level) -/
def SortedT : TyJson → Prop
  | .set e => SortedT e
  | .record attrs => SortedA attrs
  | _ => True
def SortedA : AttrsJ → Prop
  | .nil => True
  | .cons n _ t rest => (∀ k ∈ keysJ rest, n < k) ∧ SortedT t ∧ SortedA rest
end

theorem insertJ_above (n : String) (req : Bool) (t : TyJson) (acc : AttrsJ) (h : ∀ k ∈ keysJ acc, k < n) :
    insertJ n req t acc = appendJ acc (.cons n req t .nil) := by
  match acc with
  | .nil => simp [insertJ, appendJ]
  | .cons n' r' t' rest =>
    have h1 : n' < n := h n' (by simp [keysJ])
    have h2 : ¬ n < n' := String.lt_asymm h1
    have h3 : n ≠ n' := fun e => String.lt_irrefl n (e ▸ h1)
    have ih' := insertJ_above n req t rest (fun k hk => h k (by simp [keysJ, hk]))
    simp [insertJ, appendJ, h2, h3, ih']

theorem keysJ_appendJ (a b : AttrsJ) : keysJ (appendJ a b) = keysJ a ++ keysJ b := by
  match a with
  | .nil => simp [appendJ, keysJ]
  | .cons n r t rest => simp [appendJ, keysJ, keysJ_appendJ rest b]

theorem appendJ_assoc_one (acc : AttrsJ) (n : String) (r : Bool) (t : TyJson) (b : AttrsJ) :
    appendJ (appendJ acc (.cons n r t .nil)) b = appendJ acc (.cons n r t b) := by
  match acc with
  | .nil => simp [appendJ]
  | .cons n' r' t' rest => simp [appendJ, appendJ_assoc_one rest n r t b]

theorem appendJ_nil (a : AttrsJ) : appendJ a .nil = a := by
  match a with
  | .nil => simp [appendJ]
  | .cons n r t rest => simp [appendJ, appendJ_nil rest]

mutual
theorem normalize_eq_eocForm (τ : TyJson) (h : SortedT τ) : toJson (toCedar τ) = eocForm τ := by
  match τ with
  | .bool | .long | .string | .ext _ | .entity _ | .entityOrCommon _ | .commonRef _ => simp [toCedar, toJson, eocForm]
  | .set e => simp [toCedar, toJson, eocForm, normalize_eq_eocForm e (by simpa [SortedT] using h)]
  | .record attrs =>
    have := collect_sorted attrs (by simpa [SortedT] using h) .nil (by simp [keysJ])
    simp [toCedar, toJson, eocForm, this, appendJ]
theorem collect_sorted (a : AttrsJ) (h : SortedA a) (acc : AttrsJ) (hacc : ∀ k ∈ keysJ a, ∀ k' ∈ keysJ acc, k' < k) :
    collectJ acc (toCedarAttrs a) = appendJ acc (eocFormAttrs a) := by
  match a with
  | .nil =>
    simp only [toCedarAttrs, collectJ, eocFormAttrs, appendJ_nil]
  | .cons n req t rest =>
    have hs : (∀ k ∈ keysJ rest, n < k) ∧ SortedT t ∧ SortedA rest := by simpa [SortedA] using h
    have ht := normalize_eq_eocForm t hs.2.1
    have hins := insertJ_above n req (eocForm t) acc (fun k hk => hacc n (by simp [keysJ]) k hk)
    have ih := collect_sorted rest hs.2.2 (appendJ acc (.cons n req (eocForm t) .nil)) (by
      intro k hk k' hk'
      rw [keysJ_appendJ] at hk'
      simp [keysJ] at hk'
      rcases hk' with hk' | rfl
      · exact hacc k (by simp [keysJ, hk]) k' hk'
      · exact hs.1 k hk)
    simp only [toCedarAttrs, collectJ, eocFormAttrs, ht, hins, ih, appendJ_assoc_one]
end

/-! ## name resolution -/

/-- declaration environments on which losing the kind of a reference is harmless -/
structure EnvOK (env : Env) : Prop where
  /-- no name is both a common type and an entity type (what fmt.rs checks, but only for non-empty namespaces) -/
  noClash : ∀ q, ¬ (env.isCommon q = true ∧ env.isEntity q = true)
  /-- no declaration in a non-empty namespace has the base name of something defined in the empty namespace
  (RFC 70, extended to the builtin aliases and the `Action` types, which the RFC 70 check of schema.rs does not see) -/
  noShadow : ∀ ns b, ns ≠ [] → (env.isCommon ⟨ns, b⟩ = true ∨ env.isEntity ⟨ns, b⟩ = true) →
    env.isCommon ⟨[], b⟩ = false ∧ env.isEntity ⟨[], b⟩ = false

theorem resolveRef_kind_stable (env : Env) (ok : EnvOK env) (ns : List String) (kind : RefKind) (n : QName) (r : Resolved)
    (h : resolveRef env ns kind n = some r) : resolveRef env ns .either n = some r := by
  obtain ⟨path, base⟩ := n
  unfold resolveRef possibilities at h ⊢
  by_cases hp : path = []
  · subst hp
    by_cases hn : ns = []
    · subst hn
      have c0 := ok.noClash ⟨[], base⟩
      cases kind <;>
        cases hc : env.isCommon ⟨[], base⟩ <;> cases he : env.isEntity ⟨[], base⟩ <;>
        simp_all [List.findSome?, tryCandidate]
    · have c0 := ok.noClash ⟨ns, base⟩
      have c1 := ok.noClash ⟨[], base⟩
      have s := ok.noShadow ns base hn
      cases kind <;>
        cases hc0 : env.isCommon ⟨ns, base⟩ <;> cases he0 : env.isEntity ⟨ns, base⟩ <;>
        cases hc1 : env.isCommon ⟨[], base⟩ <;> cases he1 : env.isEntity ⟨[], base⟩ <;>
        simp_all [List.findSome?, tryCandidate]
  · have c0 := ok.noClash ⟨path, base⟩
    cases kind <;>
      cases hc : env.isCommon ⟨path, base⟩ <;> cases he : env.isEntity ⟨path, base⟩ <;>
      simp_all [List.findSome?, tryCandidate]

theorem ext_is_builtin (n : String) (h : extensionNames.contains n = true) : builtinNames.contains n = true := by
  simp [extensionNames] at h
  rcases h with rfl | rfl | rfl | rfl <;> decide

/-- a `__cedar::b` path resolves to the builtin definition -/
theorem resolveLeaf_cedar (env : Env) (hres : ∀ b, env.commons.contains (cedarName b) = false) (ns : List String) (b : String)
    (hb : builtinNames.contains b = true) : resolveLeaf env ns .either (cedarName b) = some (.builtin b) := by
  have hb' : b ∈ builtinNames := by simpa using hb
  have hr : ¬ (⟨["__cedar"], b⟩ : QName) ∈ env.commons := by simpa [cedarName] using hres b
  have hc : env.isCommon ⟨["__cedar"], b⟩ = true := by simp [Env.isCommon, hb']
  have hp : (cedarName b).path ≠ [] := by simp [cedarName]
  unfold resolveLeaf resolveRef possibilities
  simp only [hp, if_false, List.findSome?]
  unfold tryCandidate
  simp [hc, classify, hr, cedarName]

end Cedar.SchemaSyntax
