import CedarVerif.Lemmas.JsonDigits
import CedarVerif.Lemmas.ExtIPReject
/-
C10 / C07, ip literals: shared facts for the text round trip of `renderIp` through `IPAddr.parse` —
`decDigits` is `Nat.toDigits 10` (so `toString`), has no leading zero and the expected length; the prefix-length
reader on a canonical rendering; byte length of ASCII text; the outer structure of `IPAddr.parse` on `addr/prefix`.
-/
namespace Cedar
namespace CJson
open Ext Ext.IPAddr

/-! ### `decDigits` = `Nat.toDigits 10` -/

theorem digitChar_eq (k : Nat) (h : k < 10) : digitChar k = Nat.digitChar k := by
  have : k = 0 ∨ k = 1 ∨ k = 2 ∨ k = 3 ∨ k = 4 ∨ k = 5 ∨ k = 6 ∨ k = 7 ∨ k = 8 ∨ k = 9 := by omega
  rcases this with rfl | rfl | rfl | rfl | rfl | rfl | rfl | rfl | rfl | rfl <;> decide

theorem decDigitsAux_eq : ∀ (fuel n : Nat) (acc : List Char),
    decDigitsAux fuel n acc = Nat.toDigitsCore 10 fuel n acc
  | 0, _, _ => rfl
  | fuel + 1, n, acc => by
    simp only [decDigitsAux, Nat.toDigitsCore, digitChar_eq (n % 10) (Nat.mod_lt _ (by omega))]
    split
    · rfl
    · exact decDigitsAux_eq fuel _ _

theorem decDigits_eq_toDigits (n : Nat) : decDigits n = Nat.toDigits 10 n := by
  simp [decDigits, Nat.toDigits, decDigitsAux_eq]

/-- `toString n` (what `format!("{n}")` prints) is `decDigits n` -/
theorem toString_toList (n : Nat) : (toString n).toList = decDigits n := by
  rw [decDigits_eq_toDigits, Nat.toString_eq_repr, Nat.toList_repr]

theorem decDigits_step (n : Nat) :
    decDigits n = if n < 10 then [digitChar n] else decDigits (n / 10) ++ [digitChar (n % 10)] := by
  rw [decDigits_eq_toDigits, decDigits_eq_toDigits, Nat.toDigits_eq_if (by decide)]
  split
  · rename_i h; rw [digitChar_eq n h]
  · rw [digitChar_eq _ (Nat.mod_lt _ (by omega))]

theorem decDigits_length_le (n k : Nat) (hk : 0 < k) (h : n < 10 ^ k) : (decDigits n).length ≤ k := by
  rw [decDigits_eq_toDigits]
  exact (Nat.length_toDigits_le_iff (by decide) hk).mpr h

theorem digitChar_ne_zero (k : Nat) (h0 : 0 < k) (h : k < 10) : digitChar k ≠ '0' := by
  have : k = 1 ∨ k = 2 ∨ k = 3 ∨ k = 4 ∨ k = 5 ∨ k = 6 ∨ k = 7 ∨ k = 8 ∨ k = 9 := by omega
  rcases this with rfl | rfl | rfl | rfl | rfl | rfl | rfl | rfl | rfl <;> decide

/-- no leading zero: a positive number's rendering does not start with `'0'` -/
theorem decDigits_head (n : Nat) (h0 : 0 < n) : ∃ c r, decDigits n = c :: r ∧ c ≠ '0' := by
  induction n using Nat.strongRecOn with
  | _ n ih =>
    rw [decDigits_step]
    split
    · rename_i h; exact ⟨_, [], rfl, digitChar_ne_zero n h0 h⟩
    · rename_i h
      obtain ⟨c, r, hc, hne⟩ := ih (n / 10) (Nat.div_lt_self h0 (by decide)) (Nat.div_pos (by omega) (by decide))
      exact ⟨c, r ++ [digitChar (n % 10)], by rw [hc]; rfl, hne⟩

theorem decDigits_zero : decDigits 0 = ['0'] := by decide

theorem decDigits_allDigits (n : Nat) : allDigits (decDigits n) = true := by
  simp only [allDigits, List.all_eq_true]
  exact (decDigits_spec n).2.1

/-! ### ASCII text -/

theorem utf8Len_ascii (c : Char) (h : c.toNat < 128) : utf8Len c = 1 := by
  simp [utf8Len, h]

theorem byteLen_foldl_ascii (s : List Char) (h : ∀ c, c ∈ s → c.toNat < 128) (acc : Nat) :
    s.foldl (fun acc c => acc + utf8Len c) acc = acc + s.length := by
  induction s generalizing acc with
  | nil => rfl
  | cons c cs ih =>
    simp only [List.foldl_cons, List.length_cons, utf8Len_ascii c (h c (List.mem_cons_self ..))]
    rw [ih (fun c hc => h c (List.mem_cons_of_mem _ hc))]
    omega

theorem byteLen_ascii (s : List Char) (h : ∀ c, c ∈ s → c.toNat < 128) : byteLen s = s.length := by
  simp [byteLen, byteLen_foldl_ascii s h 0]

theorem digit_ascii {c : Char} (h : isDigit c = true) : c.toNat < 128 := by
  have := (isDigit_iff c).mp h
  omega

theorem countChar_zero (c : Char) (s : List Char) (h : c ∉ s) : countChar c s = 0 := by
  simp only [countChar, List.length_eq_zero_iff, List.filter_eq_nil_iff, beq_iff_eq]
  intro a ha he
  exact h (he ▸ ha)

/-! ### the prefix length -/

/-- `parsePrefix` on the canonical rendering of `p ≤ max` (`max ≤ 255`, at most `maxLen` digits) -/
theorem parsePrefix_decDigits (p max maxLen : Nat) (hp : p ≤ max) (hmax : max ≤ 255) (hlen : 0 < maxLen)
    (hfit : max < 10 ^ maxLen) : parsePrefix (decDigits p) max maxLen = some p := by
  obtain ⟨hne, hdig, hval⟩ := decDigits_spec p
  have hlen' : (decDigits p).length ≤ maxLen := decDigits_length_le p maxLen hlen (by omega)
  have hb : byteLen (decDigits p) = (decDigits p).length := byteLen_ascii _ (fun c hc => digit_ascii (hdig c hc))
  have h1 : ¬ byteLen (decDigits p) > maxLen := by omega
  have h2 : (decDigits p).any (fun c => !isDigit c) = false := by
    rw [List.any_eq_false]
    intro c hc
    simp [hdig c hc]
  have h3 : ((decDigits p).head? == some '0' && decDigits p != ['0']) = false := by
    by_cases h0 : p = 0
    · subst h0; decide
    · obtain ⟨c, r, hc, hne0⟩ := decDigits_head p (by omega)
      rw [hc]
      simp [hne0]
  have h4 : (decDigits p).isEmpty = false := by
    cases hd : decDigits p with
    | nil => exact absurd hd hne
    | cons => rfl
  have h5 : ¬ p > 255 := by omega
  have h6 : ¬ p > max := by omega
  simp only [parsePrefix, h1, h2, h3, h4, hval, h5, h6, if_false, Bool.false_eq_true]

/-! ### outer structure of `IPAddr.parse` -/

/-- `IPAddr.parse` on `addr/prefix` text: short enough, not IPv4-in-IPv6 shaped, no `/` in the address part -/
theorem parse_addr_prefix (a p : List Char) (v6 : Bool) (addr pl : Nat)
    (hlen : byteLen (a ++ '/' :: p) ≤ 43) (hcd : containsColonsAndDots (a ++ '/' :: p) = false) (hs : '/' ∉ a)
    (ha : parseAddr a = some (v6, addr))
    (hp : (if v6 then parsePrefix p 128 3 else parsePrefix p 32 2) = some pl) :
    IPAddr.parse (String.ofList (a ++ '/' :: p)) = some (.ipaddr v6 addr pl) := by
  have h1 : ¬ byteLen (a ++ '/' :: p) > 43 := by omega
  simp only [IPAddr.parse, String.toList_ofList, h1, if_false, hcd, Bool.false_eq_true,
    splitOnceSlash_append a p hs, ha, hp]

end CJson
end Cedar
