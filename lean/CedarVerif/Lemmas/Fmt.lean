import CedarVerif.Cedar.Fmt
/- Helper lemmas for C12 (Thm/C12.lean): monotonicity of the comment-safety state machine, the worklist
   invariant of `bestWith`, atoms / comment-safety of the `add_comment` rule, and the mutual inductions over the
   CST core (atoms of `toDocW`, comments kept, no-commented-trailing-comma, comment-safety of `toDocW`). -/
namespace Cedar.Fmt

@[simp] theorem doc_append (a b : Doc) : a ++ b = Doc.cat a b := rfl

theorem docSafe_mono (d : Doc) : ∀ (p p' q : Bool), (p' = true → p = true) → docSafe p d = some q →
    ∃ q', docSafe p' d = some q' ∧ (q' = true → q = true) := by
  induction d with
  | nil => intro p p' q hp h; simp [docSafe] at *; subst h; exact hp
  | text a =>
    intro p p' q hp h
    cases a <;> cases p <;> cases p' <;> simp [docSafe] at h hp ⊢ <;> try (subst h; simp)
  | space => intro p p' q hp h; simp [docSafe] at *; subst h; exact hp
  | line => intro p p' q hp h; simp [docSafe] at *; subst h; exact hp
  | softline => intro p p' q hp h; simp [docSafe] at *; subst h; exact hp
  | hardline => intro p p' q hp h; simp [docSafe] at *
  | nest i d ih => intro p p' q hp h; simp only [docSafe] at *; exact ih p p' q hp h
  | group d ih => intro p p' q hp h; simp only [docSafe] at *; exact ih p p' q hp h
  | cat a b iha ihb =>
    intro p p' q hp h
    simp only [docSafe] at h ⊢
    cases ha : docSafe p a with
    | none => simp [ha] at h
    | some p1 =>
      simp only [ha] at h
      obtain ⟨p1', h1, hp1⟩ := iha p p' p1 hp ha
      obtain ⟨q', h2, hq⟩ := ihb p1 p1' q hp1 h
      exact ⟨q', by simp [h1, h2], hq⟩

theorem cmdsSafe_mono (cs : List Cmd) : ∀ (p p' q : Bool), (p' = true → p = true) → cmdsSafe p cs = some q →
    ∃ q', cmdsSafe p' cs = some q' := by
  induction cs with
  | nil => intro p p' q _ _; exact ⟨p', by simp [cmdsSafe]⟩
  | cons c r ih =>
    intro p p' q hp h
    obtain ⟨i, m, d⟩ := c
    simp only [cmdsSafe] at h ⊢
    cases hd : docSafe p d with
    | none => simp [hd] at h
    | some p1 =>
      simp only [hd] at h
      obtain ⟨p1', h1, hp1⟩ := docSafe_mono d p p' p1 hp hd
      obtain ⟨q', h2⟩ := ih p1 p1' q hp1 h
      exact ⟨q', by simp [h1, h2]⟩

/-- in every layout of a comment-safe worklist no token is swallowed by a comment -/
theorem bestWith_safe (ch : Nat → List Cmd → Bool) (col : Nat) (cs : List Cmd) :
    ∀ (p q : Bool), cmdsSafe p cs = some q → itemsVisible p (bestWith ch col cs) = some (cmdsAtoms cs) := by
  fun_induction bestWith ch col cs with
  | case1 => intro p q _; simp [itemsVisible, cmdsAtoms]
  | case2 col i m r ih => intro p q h; simp only [cmdsSafe, docSafe] at h; simpa [cmdsAtoms, docAtoms] using ih p q h
  | case3 col i m a r ih =>
    intro p q h
    cases a with
    | tok t =>
      cases p <;> simp [cmdsSafe, docSafe] at h
      simp [itemsVisible, cmdsAtoms, docAtoms, ih false q h]
    | com c =>
      cases p <;> simp [cmdsSafe, docSafe] at h
      simp [itemsVisible, cmdsAtoms, docAtoms, ih true q h]
  | case4 col i m r ih => intro p q h; simp only [cmdsSafe, docSafe] at h; simpa [itemsVisible, cmdsAtoms, docAtoms] using ih p q h
  | case5 col i r ih => intro p q h; simp only [cmdsSafe, docSafe] at h; simpa [itemsVisible, cmdsAtoms, docAtoms] using ih p q h
  | case6 col i r ih =>
    intro p q h; simp only [cmdsSafe, docSafe] at h
    obtain ⟨q', h'⟩ := cmdsSafe_mono r p false q (by simp) h
    simpa [itemsVisible, cmdsAtoms, docAtoms] using ih false q' h'
  | case7 col i r ih => intro p q h; simp only [cmdsSafe, docSafe] at h; simpa [itemsVisible, cmdsAtoms, docAtoms] using ih p q h
  | case8 col i r ih =>
    intro p q h; simp only [cmdsSafe, docSafe] at h
    obtain ⟨q', h'⟩ := cmdsSafe_mono r p false q (by simp) h
    simpa [itemsVisible, cmdsAtoms, docAtoms] using ih false q' h'
  | case9 col i m r ih => intro p q h; simp only [cmdsSafe, docSafe] at h; simpa [itemsVisible, cmdsAtoms, docAtoms] using ih false q h
  | case10 col i m j d r ih => intro p q h; simp only [cmdsSafe, docSafe] at h; simpa [cmdsSafe, cmdsAtoms, docAtoms] using ih p q (by simpa [cmdsSafe] using h)
  | case11 col i d r ih => intro p q h; simp only [cmdsSafe, docSafe] at h; simpa [cmdsSafe, cmdsAtoms, docAtoms] using ih p q (by simpa [cmdsSafe] using h)
  | case12 col i d r ih => intro p q h; simp only [cmdsSafe, docSafe] at h; simpa [cmdsSafe, cmdsAtoms, docAtoms] using ih p q (by simpa [cmdsSafe] using h)
  | case13 col i m a b r ih =>
    intro p q h
    have h' : cmdsSafe p ((i, m, a) :: (i, m, b) :: r) = some q := by
      simp only [cmdsSafe, docSafe] at h ⊢
      cases ha : docSafe p a with
      | none => simp [ha] at h
      | some p1 => simpa [ha] using h
    simpa [cmdsAtoms, docAtoms] using ih p q h'

theorem docAtoms_hardSep (cs : List (List Char)) : docAtoms (hardSep cs) = cs.map Atom.com := by
  induction cs with
  | nil => simp [hardSep, docAtoms]
  | cons c cs ih =>
    cases cs with
    | nil => simp [hardSep, docAtoms]
    | cons c' cs' => simp [hardSep, docAtoms] at ih ⊢; exact ih

theorem docAtoms_leadingDoc (cs : List (List Char)) : docAtoms (leadingDoc cs) = cs.map Atom.com := by
  unfold leadingDoc
  split
  · rename_i h; simp [List.isEmpty_iff] at h; subst h; simp [docAtoms]
  · simp [docAtoms, docAtoms_hardSep]

theorem docAtoms_addComment (d : Doc) (lead : List (List Char)) (trail : List Char) (next : Doc)
    (hn : docAtoms next = []) :
    docAtoms (addComment d lead trail next) = lead.map Atom.com ++ docAtoms d ++ (if trail.isEmpty then [] else [Atom.com trail]) := by
  unfold addComment trailingDoc
  split <;> simp [docAtoms, docAtoms_leadingDoc, hn]

theorem docAtoms_tokDoc (t : WTok) (next : Doc) (hn : docAtoms next = []) : docAtoms (tokDoc t next) = wtokAtoms t := by
  simp [tokDoc, wtokAtoms, docAtoms_addComment _ _ _ _ hn, docAtoms]

theorem docAtoms_commentsOnlyDoc (t : WTok) : docAtoms (commentsOnlyDoc t) = wtokComments t := by
  simp [commentsOnlyDoc, wtokComments, docAtoms_addComment _ _ _ _ (by simp [docAtoms] : docAtoms Doc.nil = []), docAtoms]

theorem docAtoms_opsDoc (ops : List WTok) : docAtoms (opsDoc ops) = opsAtoms ops := by
  induction ops with
  | nil => simp [opsDoc, opsAtoms, docAtoms]
  | cons t ts ih => simp [opsDoc, opsAtoms, docAtoms, ih, docAtoms_tokDoc t .nil (by simp [docAtoms])]

theorem docAtoms_trailingCommaDoc (fixed : Bool) (tc : Option WTok) :
    docAtoms (trailingCommaDoc fixed tc) = trailingCommaAtoms false fixed tc := by
  cases tc with
  | none => simp [trailingCommaDoc, trailingCommaAtoms, docAtoms]
  | some t => cases fixed <;> simp [trailingCommaDoc, trailingCommaAtoms, docAtoms, docAtoms_commentsOnlyDoc]

theorem docAtoms_accSep (r : Accs) : docAtoms (accSep r) = [] := by cases r <;> simp [accSep, docAtoms]

theorem docAtoms_callArgs (kt kc : Bool) (iw : Nat) (args : Args) (d : Doc) (h : docAtoms d = argsAtomsW kt kc args) :
    docAtoms (callArgsDoc iw args.isNil d) = argsAtomsW kt kc args := by
  cases args <;> simp_all [callArgsDoc, Args.isNil, docAtoms, argsAtomsW]

theorem docAtoms_nil : docAtoms Doc.nil = [] := by simp [docAtoms]
theorem docAtoms_line : docAtoms Doc.line = [] := by simp [docAtoms]

mutual
theorem toDocW_atoms (fixed : Bool) (iw : Nat) : ∀ c : Cst, docAtoms (toDocW fixed iw c) = cstAtomsW false fixed c
  | .leaf t => by simp [toDocW, cstAtomsW, docAtoms_tokDoc t .nil docAtoms_nil]
  | .paren l e r => by
    simp [toDocW, cstAtomsW, docAtoms, docAtoms_tokDoc _ .nil docAtoms_nil, toDocW_atoms fixed iw e]
  | .unary ops e => by simp [toDocW, cstAtomsW, docAtoms, docAtoms_opsDoc, toDocW_atoms fixed iw e]
  | .chain k first rest => by
    cases k <;> simp [toDocW, cstAtomsW, docAtoms, toDocW_atoms fixed iw first, chainDocW_atoms fixed iw _ rest]
  | .rel a op b => by
    simp [toDocW, cstAtomsW, docAtoms, docAtoms_tokDoc _ .nil docAtoms_nil, toDocW_atoms fixed iw a, toDocW_atoms fixed iw b]
  | .isIn a isT ty inT e => by
    simp [toDocW, cstAtomsW, docAtoms, docAtoms_tokDoc _ .nil docAtoms_nil, toDocW_atoms fixed iw a, toDocW_atoms fixed iw ty,
      toDocW_atoms fixed iw e]
  | .ite i c t a e b => by
    simp [toDocW, cstAtomsW, docAtoms, docAtoms_tokDoc _ .nil docAtoms_nil, toDocW_atoms fixed iw c, toDocW_atoms fixed iw a,
      toDocW_atoms fixed iw b]
  | .brack l args r => by
    simp [toDocW, cstAtomsW, docAtoms, docAtoms_tokDoc _ .nil docAtoms_nil, argsDocW_atoms fixed iw args]
  | .recInit k colon v => by
    simp [toDocW, cstAtomsW, docAtoms, docAtoms_tokDoc _ .nil docAtoms_nil, toDocW_atoms fixed iw k, toDocW_atoms fixed iw v]
  | .member item accs => by
    simp [toDocW, cstAtomsW, docAtoms, toDocW_atoms fixed iw item, accsDocW_atoms fixed iw accs]
theorem argsDocW_atoms (fixed : Bool) (iw : Nat) : ∀ a : Args, docAtoms (argsDocW fixed iw a) = argsAtomsW false fixed a
  | .nil => by simp [argsDocW, argsAtomsW, docAtoms]
  | .last e tc => by simp [argsDocW, argsAtomsW, docAtoms, toDocW_atoms fixed iw e, docAtoms_trailingCommaDoc]
  | .cons e comma rest => by
    simp [argsDocW, argsAtomsW, docAtoms, docAtoms_tokDoc _ .nil docAtoms_nil, toDocW_atoms fixed iw e, argsDocW_atoms fixed iw rest]
theorem chainDocW_atoms (fixed : Bool) (iw : Nat) (k : ChainKind) : ∀ c : Chain, docAtoms (chainDocW fixed iw k c) = chainAtomsW false fixed c
  | .nil => by simp [chainDocW, chainAtomsW, docAtoms]
  | .cons op e rest => by
    cases k <;> simp [chainDocW, chainAtomsW, docAtoms, docAtoms_tokDoc _ .nil docAtoms_nil, docAtoms_tokDoc _ .line docAtoms_line,
      toDocW_atoms fixed iw e, chainDocW_atoms fixed iw _ rest]
theorem accsDocW_atoms (fixed : Bool) (iw : Nat) : ∀ a : Accs, docAtoms (accsDocW fixed iw a) = accsAtomsW false fixed a
  | .nil => by simp [accsDocW, accsAtomsW, docAtoms]
  | .field dot name rest => by
    simp [accsDocW, accsAtomsW, docAtoms, docAtoms_tokDoc _ .nil docAtoms_nil, docAtoms_accSep, accsDocW_atoms fixed iw rest]
  | .call l args r rest => by
    simp [accsDocW, accsAtomsW, docAtoms, docAtoms_tokDoc _ .nil docAtoms_nil, docAtoms_accSep,
      docAtoms_callArgs false fixed iw args _ (argsDocW_atoms fixed iw args), accsDocW_atoms fixed iw rest]
  | .index l e r rest => by
    simp [accsDocW, accsAtomsW, docAtoms, docAtoms_tokDoc _ .nil docAtoms_nil, docAtoms_accSep, toDocW_atoms fixed iw e,
      accsDocW_atoms fixed iw rest]
end

theorem commentsOf_append (a b : List Atom) : commentsOf (a ++ b) = commentsOf a ++ commentsOf b := by
  simp [commentsOf]

theorem commentsOf_wtokComments (t : WTok) : commentsOf (wtokComments t) = commentsOf (wtokAtoms t) := by
  simp [wtokComments, wtokAtoms, commentsOf, List.filter_append, isCom]

theorem commentsOf_trailingComma (tc : Option WTok) :
    commentsOf (trailingCommaAtoms false true tc) = commentsOf (trailingCommaAtoms true true tc) := by
  cases tc with
  | none => rfl
  | some t => simp [trailingCommaAtoms, commentsOf_wtokComments]

mutual
theorem cst_comments_kept : ∀ c : Cst, commentsOf (cstAtomsW false true c) = commentsOf (cstAtomsW true true c)
  | .leaf t => by simp [cstAtomsW]
  | .paren l e r => by simp [cstAtomsW, commentsOf_append, cst_comments_kept e]
  | .unary ops e => by simp [cstAtomsW, commentsOf_append, cst_comments_kept e]
  | .chain k first rest => by simp [cstAtomsW, commentsOf_append, cst_comments_kept first, chain_comments_kept rest]
  | .rel a op b => by simp [cstAtomsW, commentsOf_append, cst_comments_kept a, cst_comments_kept b]
  | .isIn a isT ty inT e => by simp [cstAtomsW, commentsOf_append, cst_comments_kept a, cst_comments_kept ty, cst_comments_kept e]
  | .ite i c t a e b => by simp [cstAtomsW, commentsOf_append, cst_comments_kept c, cst_comments_kept a, cst_comments_kept b]
  | .brack l args r => by simp [cstAtomsW, commentsOf_append, args_comments_kept args]
  | .recInit k colon v => by simp [cstAtomsW, commentsOf_append, cst_comments_kept k, cst_comments_kept v]
  | .member item accs => by simp [cstAtomsW, commentsOf_append, cst_comments_kept item, accs_comments_kept accs]
theorem args_comments_kept : ∀ a : Args, commentsOf (argsAtomsW false true a) = commentsOf (argsAtomsW true true a)
  | .nil => by simp [argsAtomsW]
  | .last e tc => by simp [argsAtomsW, commentsOf_append, cst_comments_kept e, commentsOf_trailingComma]
  | .cons e comma rest => by simp [argsAtomsW, commentsOf_append, cst_comments_kept e, args_comments_kept rest]
theorem chain_comments_kept : ∀ c : Chain, commentsOf (chainAtomsW false true c) = commentsOf (chainAtomsW true true c)
  | .nil => by simp [chainAtomsW]
  | .cons op e rest => by simp [chainAtomsW, commentsOf_append, cst_comments_kept e, chain_comments_kept rest]
theorem accs_comments_kept : ∀ a : Accs, commentsOf (accsAtomsW false true a) = commentsOf (accsAtomsW true true a)
  | .nil => by simp [accsAtomsW]
  | .field dot name rest => by simp [accsAtomsW, commentsOf_append, accs_comments_kept rest]
  | .call l args r rest => by simp [accsAtomsW, commentsOf_append, args_comments_kept args, accs_comments_kept rest]
  | .index l e r rest => by simp [accsAtomsW, commentsOf_append, cst_comments_kept e, accs_comments_kept rest]
end

theorem trailingComma_noComment (tc : Option WTok)
    (h : ∀ t, tc = some t → t.leading.isEmpty = true ∧ t.trailing.isEmpty = true) :
    trailingCommaAtoms false false tc = trailingCommaAtoms false true tc := by
  cases tc with
  | none => rfl
  | some t =>
    obtain ⟨h1, h2⟩ := h t rfl
    simp [List.isEmpty_iff] at h1 h2
    simp [trailingCommaAtoms, wtokComments, h1, h2]

mutual
theorem cst_noCTC : ∀ c : Cst, noCommentedTrailingComma c = true → cstAtomsW false false c = cstAtomsW false true c
  | .leaf t, _ => by simp [cstAtomsW]
  | .paren l e r, h => by simp [noCommentedTrailingComma] at h; simp [cstAtomsW, cst_noCTC e h]
  | .unary ops e, h => by simp [noCommentedTrailingComma] at h; simp [cstAtomsW, cst_noCTC e h]
  | .chain k first rest, h => by simp [noCommentedTrailingComma] at h; simp [cstAtomsW, cst_noCTC first h.1, chain_noCTC rest h.2]
  | .rel a op b, h => by simp [noCommentedTrailingComma] at h; simp [cstAtomsW, cst_noCTC a h.1, cst_noCTC b h.2]
  | .isIn a isT ty inT e, h => by
    simp [noCommentedTrailingComma] at h; simp [cstAtomsW, cst_noCTC a h.1.1, cst_noCTC ty h.1.2, cst_noCTC e h.2]
  | .ite i c t a e b, h => by
    simp [noCommentedTrailingComma] at h; simp [cstAtomsW, cst_noCTC c h.1.1, cst_noCTC a h.1.2, cst_noCTC b h.2]
  | .brack l args r, h => by simp [noCommentedTrailingComma] at h; simp [cstAtomsW, args_noCTC args h]
  | .recInit k colon v, h => by simp [noCommentedTrailingComma] at h; simp [cstAtomsW, cst_noCTC k h.1, cst_noCTC v h.2]
  | .member item accs, h => by simp [noCommentedTrailingComma] at h; simp [cstAtomsW, cst_noCTC item h.1, accs_noCTC accs h.2]
theorem args_noCTC : ∀ a : Args, argsNoCTC a = true → argsAtomsW false false a = argsAtomsW false true a
  | .nil, _ => by simp [argsAtomsW]
  | .last e none, h => by simp [argsNoCTC] at h; simp [argsAtomsW, cst_noCTC e h, trailingCommaAtoms]
  | .last e (some t), h => by
    simp [argsNoCTC] at h
    simp [argsAtomsW, cst_noCTC e h.1.1, trailingCommaAtoms, wtokComments, h.1.2, h.2]
  | .cons e comma rest, h => by simp [argsNoCTC] at h; simp [argsAtomsW, cst_noCTC e h.1, args_noCTC rest h.2]
theorem chain_noCTC : ∀ c : Chain, chainNoCTC c = true → chainAtomsW false false c = chainAtomsW false true c
  | .nil, _ => by simp [chainAtomsW]
  | .cons op e rest, h => by simp [chainNoCTC] at h; simp [chainAtomsW, cst_noCTC e h.1, chain_noCTC rest h.2]
theorem accs_noCTC : ∀ a : Accs, accsNoCTC a = true → accsAtomsW false false a = accsAtomsW false true a
  | .nil, _ => by simp [accsAtomsW]
  | .field dot name rest, h => by simp [accsNoCTC] at h; simp [accsAtomsW, accs_noCTC rest h]
  | .call l args r rest, h => by simp [accsNoCTC] at h; simp [accsAtomsW, args_noCTC args h.1, accs_noCTC rest h.2]
  | .index l e r rest, h => by simp [accsNoCTC] at h; simp [accsAtomsW, cst_noCTC e h.1, accs_noCTC rest h.2]
end

theorem docSafe_hardSep (cs : List (List Char)) (h : cs ≠ []) : docSafe false (hardSep cs) = some true := by
  induction cs with
  | nil => exact absurd rfl h
  | cons c cs ih =>
    cases cs with
    | nil => simp [hardSep, docSafe]
    | cons c' cs' => simp [hardSep, docSafe] at ih ⊢; exact ih

theorem docSafe_leadingDoc (cs : List (List Char)) : docSafe false (leadingDoc cs) = some false := by
  unfold leadingDoc
  split
  · simp [docSafe]
  · rename_i h
    have : cs ≠ [] := by intro h'; subst h'; simp at h
    simp [docSafe, docSafe_hardSep cs this]

theorem docSafe_addComment (d : Doc) (lead : List (List Char)) (trail : List Char) (next : Doc)
    (hd : docSafe false d = some false) (hn : docSafe false next = some false) :
    docSafe false (addComment d lead trail next) = some false := by
  unfold addComment trailingDoc
  split <;> simp [docSafe, docSafe_leadingDoc, hd, hn]

theorem docSafe_tokDoc (t : WTok) (next : Doc) (hn : docSafe false next = some false) :
    docSafe false (tokDoc t next) = some false :=
  docSafe_addComment _ _ _ _ (by simp [docSafe]) hn

theorem docSafe_accSep (r : Accs) : docSafe false (accSep r) = some false := by cases r <;> simp [accSep, docSafe]

theorem docSafe_callArgs (iw : Nat) (b : Bool) (d : Doc) (h : docSafe false d = some false) :
    docSafe false (callArgsDoc iw b d) = some false := by
  cases b <;> simp [callArgsDoc, docSafe, h]

theorem docSafe_nil : docSafe false Doc.nil = some false := by simp [docSafe]
theorem docSafe_line : docSafe false Doc.line = some false := by simp [docSafe]

theorem docSafe_opsDoc (ops : List WTok) : docSafe false (opsDoc ops) = some false := by
  induction ops with
  | nil => simp [opsDoc, docSafe]
  | cons t ts ih => simp [opsDoc, docSafe, docSafe_tokDoc t .nil docSafe_nil, ih]

theorem docSafe_trailingCommaDoc (fixed : Bool) (tc : Option WTok) : docSafe false (trailingCommaDoc fixed tc) = some false := by
  cases tc with
  | none => simp [trailingCommaDoc, docSafe]
  | some t =>
    cases fixed
    · simp [trailingCommaDoc, docSafe]
    · simp [trailingCommaDoc, commentsOnlyDoc, docSafe_addComment _ _ _ _ docSafe_nil docSafe_nil]

mutual
theorem toDocW_safe (fixed : Bool) (iw : Nat) : ∀ c : Cst, docSafe false (toDocW fixed iw c) = some false
  | .leaf t => by simp [toDocW, docSafe_tokDoc t .nil docSafe_nil]
  | .paren l e r => by simp [toDocW, docSafe, docSafe_tokDoc _ .nil docSafe_nil, toDocW_safe fixed iw e]
  | .unary ops e => by simp [toDocW, docSafe, docSafe_opsDoc, toDocW_safe fixed iw e]
  | .chain k first rest => by
    cases k <;> simp [toDocW, docSafe, toDocW_safe fixed iw first, chainDocW_safe fixed iw _ rest]
  | .rel a op b => by simp [toDocW, docSafe, docSafe_tokDoc _ .nil docSafe_nil, toDocW_safe fixed iw a, toDocW_safe fixed iw b]
  | .isIn a isT ty inT e => by
    simp [toDocW, docSafe, docSafe_tokDoc _ .nil docSafe_nil, toDocW_safe fixed iw a, toDocW_safe fixed iw ty, toDocW_safe fixed iw e]
  | .ite i c t a e b => by
    simp [toDocW, docSafe, docSafe_tokDoc _ .nil docSafe_nil, toDocW_safe fixed iw c, toDocW_safe fixed iw a, toDocW_safe fixed iw b]
  | .brack l args r => by simp [toDocW, docSafe, docSafe_tokDoc _ .nil docSafe_nil, argsDocW_safe fixed iw args]
  | .recInit k colon v => by simp [toDocW, docSafe, docSafe_tokDoc _ .nil docSafe_nil, toDocW_safe fixed iw k, toDocW_safe fixed iw v]
  | .member item accs => by simp [toDocW, docSafe, toDocW_safe fixed iw item, accsDocW_safe fixed iw accs]
theorem argsDocW_safe (fixed : Bool) (iw : Nat) : ∀ a : Args, docSafe false (argsDocW fixed iw a) = some false
  | .nil => by simp [argsDocW, docSafe]
  | .last e tc => by simp [argsDocW, docSafe, toDocW_safe fixed iw e, docSafe_trailingCommaDoc]
  | .cons e comma rest => by
    simp [argsDocW, docSafe, docSafe_tokDoc _ .nil docSafe_nil, toDocW_safe fixed iw e, argsDocW_safe fixed iw rest]
theorem chainDocW_safe (fixed : Bool) (iw : Nat) (k : ChainKind) : ∀ c : Chain, docSafe false (chainDocW fixed iw k c) = some false
  | .nil => by simp [chainDocW, docSafe]
  | .cons op e rest => by
    cases k <;> simp [chainDocW, docSafe, docSafe_tokDoc _ .nil docSafe_nil, docSafe_tokDoc _ .line docSafe_line,
      toDocW_safe fixed iw e, chainDocW_safe fixed iw _ rest]
theorem accsDocW_safe (fixed : Bool) (iw : Nat) : ∀ a : Accs, docSafe false (accsDocW fixed iw a) = some false
  | .nil => by simp [accsDocW, docSafe]
  | .field dot name rest => by
    simp [accsDocW, docSafe, docSafe_tokDoc _ .nil docSafe_nil, docSafe_accSep, accsDocW_safe fixed iw rest]
  | .call l args r rest => by
    simp [accsDocW, docSafe, docSafe_tokDoc _ .nil docSafe_nil, docSafe_accSep,
      docSafe_callArgs iw _ _ (argsDocW_safe fixed iw args), accsDocW_safe fixed iw rest]
  | .index l e r rest => by
    simp [accsDocW, docSafe, docSafe_tokDoc _ .nil docSafe_nil, docSafe_accSep, toDocW_safe fixed iw e, accsDocW_safe fixed iw rest]
end

/-! ### the policy level -/

theorem wtokAtoms_noLead (t : WTok) : wtokAtoms t = t.leading.map Atom.com ++ wtokAtoms t.noLead := by
  simp [wtokAtoms, WTok.noLead]

theorem opsAtoms_cons (t : WTok) (ts : List WTok) : opsAtoms (t :: ts) = wtokAtoms t ++ opsAtoms ts := rfl

/-- hoisting the leading comments of the first token does not change the atom sequence -/
theorem cstAtomsW_clearFirst (kt kc : Bool) : ∀ c : Cst,
    cstAtomsW kt kc c = (firstLeading c).map Atom.com ++ cstAtomsW kt kc (clearFirstLeading c)
  | .leaf t => by simp [firstLeading, clearFirstLeading, cstAtomsW, wtokAtoms_noLead t]
  | .paren l e r => by simp [firstLeading, clearFirstLeading, cstAtomsW, wtokAtoms_noLead l]
  | .unary [] e => by
    have := cstAtomsW_clearFirst kt kc e
    simp [firstLeading, clearFirstLeading, cstAtomsW, opsAtoms]; exact this
  | .unary (t :: ts) e => by simp [firstLeading, clearFirstLeading, cstAtomsW, opsAtoms, wtokAtoms_noLead t]
  | .chain k first rest => by
    have := cstAtomsW_clearFirst kt kc first
    simp only [firstLeading, clearFirstLeading, cstAtomsW]; rw [this]; simp
  | .rel a op b => by
    have := cstAtomsW_clearFirst kt kc a
    simp only [firstLeading, clearFirstLeading, cstAtomsW]; rw [this]; simp
  | .isIn a isT ty inT e => by
    have := cstAtomsW_clearFirst kt kc a
    simp only [firstLeading, clearFirstLeading, cstAtomsW]; rw [this]; simp
  | .ite i c t a e b => by simp [firstLeading, clearFirstLeading, cstAtomsW, wtokAtoms_noLead i]
  | .brack l args r => by simp [firstLeading, clearFirstLeading, cstAtomsW, wtokAtoms_noLead l]
  | .recInit k colon v => by
    have := cstAtomsW_clearFirst kt kc k
    simp only [firstLeading, clearFirstLeading, cstAtomsW]; rw [this]; simp
  | .member item accs => by
    have := cstAtomsW_clearFirst kt kc item
    simp only [firstLeading, clearFirstLeading, cstAtomsW]; rw [this]; simp

theorem docAtoms_hardline : docAtoms Doc.hardline = [] := by simp [docAtoms]
theorem docAtoms_space : docAtoms Doc.space = [] := by simp [docAtoms]

theorem docAtoms_trailingDoc (t : List Char) (next : Doc) (hn : docAtoms next = []) :
    docAtoms (trailingDoc t next) = (if t.isEmpty then [] else [Atom.com t]) := by
  unfold trailingDoc; split <;> simp [docAtoms, hn]

theorem docAtoms_annotDoc (a : AnnotCst) : docAtoms (annotDoc a) = annotAtoms a := by
  obtain ⟨atT, key, value⟩ := a
  cases value with
  | none => simp [annotDoc, annotAtoms, docAtoms, docAtoms_tokDoc _ .nil docAtoms_nil]
  | some v =>
    obtain ⟨l, v, r⟩ := v
    simp [annotDoc, annotAtoms, docAtoms, docAtoms_tokDoc _ .nil docAtoms_nil, docAtoms_tokDoc _ .hardline docAtoms_hardline]

theorem docAtoms_annotsDoc (as : List AnnotCst) : docAtoms (annotsDoc as) = annotsAtoms as := by
  induction as with
  | nil => simp [annotsDoc, annotsAtoms, docAtoms]
  | cons a as ih => simp [annotsDoc, annotsAtoms, docAtoms, docAtoms_annotDoc, ih]

theorem docAtoms_isPartDoc (iw : Nat) (x : Option (WTok × Cst)) :
    docAtoms (isPartDoc iw x) = (match x with | none => [] | some (isT, ty) => wtokAtoms isT ++ cstAtomsW false true ty) := by
  cases x with
  | none => simp [isPartDoc, docAtoms]
  | some x =>
    obtain ⟨isT, ty⟩ := x
    simp [isPartDoc, docAtoms, docAtoms_tokDoc _ .nil docAtoms_nil, docAtoms_addComment _ _ _ _ docAtoms_nil, toDocFixed, toDocW_atoms]

theorem docAtoms_varDefDoc (iw : Nat) (v : VarDefCst) : docAtoms (varDefDoc iw v) = varDefAtomsW false true v := by
  obtain ⟨var, isPart, ineq⟩ := v
  cases isPart <;> cases ineq with
  | none =>
    simp [varDefDoc, varDefAtomsW, docAtoms, docAtoms_tokDoc _ .nil docAtoms_nil, docAtoms_isPartDoc]
  | some x =>
    obtain ⟨op, rhs⟩ := x
    simp [varDefDoc, varDefAtomsW, docAtoms, docAtoms_tokDoc _ .nil docAtoms_nil, docAtoms_isPartDoc, docAtoms_leadingDoc,
      docAtoms_trailingDoc _ _ docAtoms_nil, toDocFixed, toDocW_atoms, wtokAtoms]

theorem docAtoms_condDoc (iw : Nat) (c : CondCst) : docAtoms (condDoc iw c) = condAtomsW false true c := by
  obtain ⟨kw, lb, expr, rb⟩ := c
  cases expr with
  | none =>
    simp [condDoc, condAtomsW, docAtoms, docAtoms_tokDoc _ .nil docAtoms_nil, docAtoms_leadingDoc,
      docAtoms_trailingDoc _ _ docAtoms_line, docAtoms_addComment _ _ _ _ docAtoms_nil, wtokAtoms]
  | some e =>
    simp [condDoc, condAtomsW, docAtoms, docAtoms_tokDoc _ .nil docAtoms_nil, docAtoms_leadingDoc,
      docAtoms_trailingDoc _ _ docAtoms_line, docAtoms_addComment _ _ _ _ docAtoms_nil, wtokAtoms, toDocFixed, toDocW_atoms,
      cstAtomsW_clearFirst false true e]

theorem docAtoms_condsDoc (iw : Nat) (cs : List CondCst) : docAtoms (condsDoc iw cs) = condsAtomsW false true cs := by
  induction cs with
  | nil => simp [condsDoc, condsAtomsW, docAtoms]
  | cons c cs ih =>
    cases cs with
    | nil => simp [condsDoc, condsAtomsW, docAtoms_condDoc]
    | cons c' cs' => simp [condsDoc, condsAtomsW, docAtoms, docAtoms_condDoc] at ih ⊢; exact ih

theorem docAtoms_droppedCommaDoc (tc : Option WTok) : docAtoms (droppedCommaDoc tc) = trailingCommaAtoms false true tc := by
  cases tc with
  | none => simp [droppedCommaDoc, trailingCommaAtoms, docAtoms_addComment _ _ _ _ docAtoms_nil, docAtoms]
  | some t => simp [droppedCommaDoc, trailingCommaAtoms, docAtoms_commentsOnlyDoc]

theorem docAtoms_scopeDoc (iw : Nat) (p : PolicyCst) :
    docAtoms (scopeDoc iw p) = varDefAtomsW false true p.principal ++ wtokAtoms p.comma1 ++
      varDefAtomsW false true p.action ++ wtokAtoms p.comma2 ++
      varDefAtomsW false true p.resource ++ trailingCommaAtoms false true p.trailingComma := by
  unfold scopeDoc
  split <;>
    simp [docAtoms, docAtoms_varDefDoc, docAtoms_droppedCommaDoc, docAtoms_tokDoc _ .space docAtoms_space,
      docAtoms_tokDoc _ .hardline docAtoms_hardline]

/-- the document of a policy carries the source atoms in source order, minus trailing `,` tokens -/
theorem policyToDoc_atoms (iw : Nat) (p : PolicyCst) : docAtoms (policyToDoc iw p) = policyAtomsW false true p := by
  have hrp : docAtoms (tokDoc p.rp (if p.conds.isEmpty then .nil else .hardline)) = wtokAtoms p.rp := by
    apply docAtoms_tokDoc; split <;> simp [docAtoms]
  unfold policyToDoc policyAtomsW
  simp only [doc_append, docAtoms, hrp, docAtoms_annotsDoc, docAtoms_condsDoc, docAtoms_tokDoc _ .nil docAtoms_nil,
    docAtoms_scopeDoc, docAtoms_leadingDoc]
  rw [wtokAtoms_noLead p.effect]; simp

theorem docAtoms_policiesToDoc (iw : Nat) (ps : List PolicyCst) : docAtoms (policiesToDoc iw ps) = policiesAtomsW false true ps := by
  induction ps with
  | nil => simp [policiesToDoc, policiesAtomsW, docAtoms]
  | cons p ps ih =>
    cases ps with
    | nil => simp [policiesToDoc, policiesAtomsW, policyToDoc_atoms]
    | cons p' ps' => simp [policiesToDoc, policiesAtomsW, docAtoms, policyToDoc_atoms] at ih ⊢; exact ih

theorem itemsAtoms_append (a b : List Item) : itemsAtoms (a ++ b) = itemsAtoms a ++ itemsAtoms b := by
  induction a with
  | nil => simp [itemsAtoms]
  | cons x a ih => cases x <;> simp [itemsAtoms, ih]

theorem itemsAtoms_eofItems (eof : List (List Char)) : itemsAtoms (eofItems eof) = eof.map Atom.com := by
  induction eof with
  | nil => simp [eofItems, itemsAtoms]
  | cons c cs ih => simp [eofItems, itemsAtoms, ih]

theorem itemsAtoms_joinPolicies (xs : List (List Item)) : itemsAtoms (joinPolicies xs) = (xs.map itemsAtoms).flatten := by
  induction xs with
  | nil => simp [joinPolicies, itemsAtoms]
  | cons x xs ih =>
    cases xs with
    | nil => simp [joinPolicies]
    | cons y ys => simp [joinPolicies, itemsAtoms_append, itemsAtoms] at ih ⊢; exact ih

/-! comments kept at the policy level -/

theorem varDef_comments_kept (v : VarDefCst) : commentsOf (varDefAtomsW false true v) = commentsOf (varDefAtomsW true true v) := by
  obtain ⟨var, isPart, ineq⟩ := v
  cases isPart <;> cases ineq <;> simp [varDefAtomsW, commentsOf_append, cst_comments_kept]

theorem conds_comments_kept (cs : List CondCst) : commentsOf (condsAtomsW false true cs) = commentsOf (condsAtomsW true true cs) := by
  induction cs with
  | nil => simp [condsAtomsW]
  | cons c cs ih =>
    obtain ⟨kw, lb, expr, rb⟩ := c
    cases expr <;> simp [condsAtomsW, condAtomsW, commentsOf_append, cst_comments_kept, ih]

theorem policy_comments_kept (p : PolicyCst) : commentsOf (policyAtomsW false true p) = commentsOf (policyAtomsW true true p) := by
  simp [policyAtomsW, commentsOf_append, varDef_comments_kept, conds_comments_kept, commentsOf_trailingComma]

theorem policies_comments_kept (ps : List PolicyCst) : commentsOf (policiesAtomsW false true ps) = commentsOf (policiesAtomsW true true ps) := by
  induction ps with
  | nil => simp [policiesAtomsW]
  | cons p ps ih => simp [policiesAtomsW, commentsOf_append, policy_comments_kept, ih]

/-! comment safety at the policy level -/

theorem docSafe_hardline' : docSafe false Doc.hardline = some false := by simp [docSafe]
theorem docSafe_space' : docSafe false Doc.space = some false := by simp [docSafe]

theorem docSafe_trailingDoc (t : List Char) (next : Doc) (hn : docSafe false next = some false) :
    docSafe false (trailingDoc t next) = some false := by
  unfold trailingDoc; split <;> simp [docSafe, hn]

theorem docSafe_annotDoc (a : AnnotCst) : docSafe false (annotDoc a) = some false := by
  obtain ⟨atT, key, value⟩ := a
  cases value with
  | none => simp [annotDoc, docSafe, docSafe_tokDoc _ .nil docSafe_nil]
  | some v =>
    obtain ⟨l, v, r⟩ := v
    simp [annotDoc, docSafe, docSafe_tokDoc _ .nil docSafe_nil, docSafe_tokDoc _ .hardline docSafe_hardline']

theorem docSafe_annotsDoc (as : List AnnotCst) : docSafe false (annotsDoc as) = some false := by
  induction as with
  | nil => simp [annotsDoc, docSafe]
  | cons a as ih => simp [annotsDoc, docSafe, docSafe_annotDoc, ih]

theorem docSafe_isPartDoc (iw : Nat) (x : Option (WTok × Cst)) : docSafe false (isPartDoc iw x) = some false := by
  cases x with
  | none => simp [isPartDoc, docSafe]
  | some x =>
    obtain ⟨isT, ty⟩ := x
    simp [isPartDoc, docSafe, docSafe_tokDoc _ .nil docSafe_nil, toDocFixed,
      docSafe_addComment _ _ _ _ (toDocW_safe true iw ty) docSafe_nil]

theorem docSafe_varDefDoc (iw : Nat) (v : VarDefCst) : docSafe false (varDefDoc iw v) = some false := by
  obtain ⟨var, isPart, ineq⟩ := v
  cases ineq with
  | none => simp [varDefDoc, docSafe, docSafe_tokDoc _ .nil docSafe_nil, docSafe_isPartDoc]
  | some x =>
    obtain ⟨op, rhs⟩ := x
    simp [varDefDoc, docSafe, docSafe_tokDoc _ .nil docSafe_nil, docSafe_isPartDoc, docSafe_leadingDoc,
      docSafe_trailingDoc _ _ docSafe_nil, toDocFixed, toDocW_safe]

theorem docSafe_condDoc (iw : Nat) (c : CondCst) : docSafe false (condDoc iw c) = some false := by
  obtain ⟨kw, lb, expr, rb⟩ := c
  have hkw : docSafe false (addComment (.text (.tok kw.text)) [] [] .nil) = some false :=
    docSafe_addComment _ _ _ _ (by simp [docSafe]) docSafe_nil
  cases expr with
  | none =>
    simp [condDoc, docSafe, docSafe_tokDoc _ .nil docSafe_nil, docSafe_leadingDoc, docSafe_trailingDoc _ _ docSafe_line, hkw]
  | some e =>
    simp [condDoc, docSafe, docSafe_tokDoc _ .nil docSafe_nil, docSafe_leadingDoc, docSafe_trailingDoc _ _ docSafe_line, hkw,
      toDocFixed, toDocW_safe]

theorem docSafe_condsDoc (iw : Nat) (cs : List CondCst) : docSafe false (condsDoc iw cs) = some false := by
  induction cs with
  | nil => simp [condsDoc, docSafe]
  | cons c cs ih =>
    cases cs with
    | nil => simp [condsDoc, docSafe_condDoc]
    | cons c' cs' => simp [condsDoc, docSafe, docSafe_condDoc] at ih ⊢; exact ih

theorem docSafe_droppedCommaDoc (tc : Option WTok) : docSafe false (droppedCommaDoc tc) = some false := by
  cases tc with
  | none => simp [droppedCommaDoc, docSafe_addComment _ _ _ _ docSafe_nil docSafe_nil]
  | some t => simp [droppedCommaDoc, commentsOnlyDoc, docSafe_addComment _ _ _ _ docSafe_nil docSafe_nil]

theorem docSafe_scopeDoc (iw : Nat) (p : PolicyCst) : docSafe false (scopeDoc iw p) = some false := by
  unfold scopeDoc
  split <;>
    simp [docSafe, docSafe_varDefDoc, docSafe_droppedCommaDoc, docSafe_tokDoc _ .space docSafe_space',
      docSafe_tokDoc _ .hardline docSafe_hardline']

/-- in the document of a policy every comment is followed by a hardline before the next token -/
theorem policyToDoc_safe (iw : Nat) (p : PolicyCst) : docSafe false (policyToDoc iw p) = some false := by
  have hrp : docSafe false (tokDoc p.rp (if p.conds.isEmpty then .nil else .hardline)) = some false := by
    apply docSafe_tokDoc; split <;> simp [docSafe]
  unfold policyToDoc
  simp only [doc_append, docSafe, hrp, docSafe_annotsDoc, docSafe_condsDoc, docSafe_tokDoc _ .nil docSafe_nil, docSafe_leadingDoc,
    docSafe_scopeDoc]

/-- the concatenation of comment-safe layouts that each end a line is comment-safe -/
theorem itemsVisible_append_nl (a : List Item) (as : List Atom) (i : Nat) (b : List Item) (bs : List Atom) :
    ∀ p, itemsVisible p a = some as → itemsVisible false b = some bs →
      itemsVisible p (a ++ (.nl i :: b)) = some (as ++ bs) := by
  induction a generalizing as with
  | nil => intro p ha hb; simp [itemsVisible] at ha; subst ha; simp [itemsVisible, hb]
  | cons x a ih =>
    intro p ha hb
    cases x with
    | atom at' =>
      cases at' with
      | tok t =>
        cases p <;> simp [itemsVisible] at ha
        obtain ⟨as', h1, h2⟩ := ha
        subst h2
        simp [itemsVisible, ih as' false h1 hb]
      | com c =>
        cases p <;> simp [itemsVisible] at ha
        obtain ⟨as', h1, h2⟩ := ha
        subst h2
        simp [itemsVisible, ih as' true h1 hb]
    | sp => simp only [itemsVisible, List.cons_append] at ha ⊢; exact ih as p ha hb
    | nl j => simp only [itemsVisible, List.cons_append] at ha ⊢; exact ih as false ha hb

theorem itemsVisible_eofItems (eof : List (List Char)) : itemsVisible false (eofItems eof) = some (eof.map Atom.com) := by
  induction eof with
  | nil => simp [eofItems, itemsVisible]
  | cons c cs ih => simp [eofItems, itemsVisible, ih]

theorem policiesAtomsW_flatten (kt kc : Bool) (ps : List PolicyCst) :
    policiesAtomsW kt kc ps = (ps.map (policyAtomsW kt kc)).flatten := by
  induction ps with
  | nil => simp [policiesAtomsW]
  | cons p ps ih => simp [policiesAtomsW, ih]

theorem itemsVisible_joinPolicies (f : PolicyCst → List Item) (g : PolicyCst → List Atom)
    (h : ∀ p, itemsVisible false (f p) = some (g p)) (ps : List PolicyCst) :
    itemsVisible false (joinPolicies (ps.map f)) = some ((ps.map g).flatten) := by
  induction ps with
  | nil => simp [joinPolicies, itemsVisible]
  | cons p ps ih =>
    cases ps with
    | nil => simp [joinPolicies, h]
    | cons p' ps' =>
      have ih' : itemsVisible false (Item.nl 0 :: joinPolicies ((p' :: ps').map f)) = some (((p' :: ps').map g).flatten) := by
        simpa [itemsVisible] using ih
      have := itemsVisible_append_nl (f p) (g p) 0 _ _ false (h p) ih'
      simpa [joinPolicies] using this

/-! only trailing `,` tokens are dropped: the kept atoms are a subsequence of the source -/

theorem wtokComments_sublist (t : WTok) : (wtokComments t).Sublist (wtokAtoms t) := by
  simp only [wtokComments, wtokAtoms, List.append_assoc]
  exact List.Sublist.append (List.Sublist.refl _) (List.sublist_append_right _ _)

theorem trailingComma_sublist (tc : Option WTok) : (trailingCommaAtoms false true tc).Sublist (trailingCommaAtoms true true tc) := by
  cases tc with
  | none => exact List.Sublist.refl _
  | some t => simpa [trailingCommaAtoms] using wtokComments_sublist t

/-- splits a goal `(a ++ b ++ …).Sublist (a' ++ b' ++ …)` componentwise -/
local macro "sublist_parts" : tactic =>
  `(tactic| repeat' (first | exact List.Sublist.refl _ | assumption | exact trailingComma_sublist _ | apply List.Sublist.append))

mutual
theorem cst_sublist : ∀ c : Cst, (cstAtomsW false true c).Sublist (cstAtomsW true true c)
  | .leaf t => by simp [cstAtomsW]
  | .paren l e r => by have := cst_sublist e; simp only [cstAtomsW]; sublist_parts
  | .unary ops e => by have := cst_sublist e; simp only [cstAtomsW]; sublist_parts
  | .chain k first rest => by
    have := cst_sublist first; have := chain_sublist rest; simp only [cstAtomsW]; sublist_parts
  | .rel a op b => by have := cst_sublist a; have := cst_sublist b; simp only [cstAtomsW]; sublist_parts
  | .isIn a isT ty inT e => by
    have := cst_sublist a; have := cst_sublist ty; have := cst_sublist e; simp only [cstAtomsW]; sublist_parts
  | .ite i c t a e b => by
    have := cst_sublist c; have := cst_sublist a; have := cst_sublist b; simp only [cstAtomsW]; sublist_parts
  | .brack l args r => by have := args_sublist args; simp only [cstAtomsW]; sublist_parts
  | .recInit k colon v => by have := cst_sublist k; have := cst_sublist v; simp only [cstAtomsW]; sublist_parts
  | .member item accs => by have := cst_sublist item; have := accs_sublist accs; simp only [cstAtomsW]; sublist_parts
theorem args_sublist : ∀ a : Args, (argsAtomsW false true a).Sublist (argsAtomsW true true a)
  | .nil => by simp [argsAtomsW]
  | .last e tc => by have := cst_sublist e; simp only [argsAtomsW]; sublist_parts
  | .cons e comma rest => by have := cst_sublist e; have := args_sublist rest; simp only [argsAtomsW]; sublist_parts
theorem chain_sublist : ∀ c : Chain, (chainAtomsW false true c).Sublist (chainAtomsW true true c)
  | .nil => by simp [chainAtomsW]
  | .cons op e rest => by have := cst_sublist e; have := chain_sublist rest; simp only [chainAtomsW]; sublist_parts
theorem accs_sublist : ∀ a : Accs, (accsAtomsW false true a).Sublist (accsAtomsW true true a)
  | .nil => by simp [accsAtomsW]
  | .field dot name rest => by have := accs_sublist rest; simp only [accsAtomsW]; sublist_parts
  | .call l args r rest => by have := args_sublist args; have := accs_sublist rest; simp only [accsAtomsW]; sublist_parts
  | .index l e r rest => by have := cst_sublist e; have := accs_sublist rest; simp only [accsAtomsW]; sublist_parts
end

theorem varDef_sublist (v : VarDefCst) : (varDefAtomsW false true v).Sublist (varDefAtomsW true true v) := by
  obtain ⟨var, isPart, ineq⟩ := v
  cases isPart with
  | none =>
    cases ineq with
    | none => simp [varDefAtomsW]
    | some x => have := cst_sublist x.2; simp only [varDefAtomsW]; sublist_parts
  | some y =>
    have := cst_sublist y.2
    cases ineq with
    | none => simp only [varDefAtomsW]; sublist_parts
    | some x => have := cst_sublist x.2; simp only [varDefAtomsW]; sublist_parts

theorem conds_sublist (cs : List CondCst) : (condsAtomsW false true cs).Sublist (condsAtomsW true true cs) := by
  induction cs with
  | nil => simp [condsAtomsW]
  | cons c cs ih =>
    obtain ⟨kw, lb, expr, rb⟩ := c
    cases expr with
    | none => simp only [condsAtomsW, condAtomsW]; sublist_parts
    | some e => have := cst_sublist e; simp only [condsAtomsW, condAtomsW]; sublist_parts

theorem policy_sublist (p : PolicyCst) : (policyAtomsW false true p).Sublist (policyAtomsW true true p) := by
  have := varDef_sublist p.principal; have := varDef_sublist p.action; have := varDef_sublist p.resource
  have := conds_sublist p.conds
  simp only [policyAtomsW]; sublist_parts

end Cedar.Fmt
