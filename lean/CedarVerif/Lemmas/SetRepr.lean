import CedarVerif.Cedar.SetRepr
import CedarVerif.Lemmas.Beq
/- Under the `FastRepr` invariant every fast path of `Set` equals the authoritative (slow) path. -/
namespace Cedar

theorem allLits?_some {vs : List Value} {ps : List Prim} (h : allLits? vs = some ps) :
    vs = ps.map Value.prim := by
  induction vs generalizing ps with
  | nil => simp [allLits?] at h; subst h; rfl
  | cons v vs ih =>
    cases v with
    | prim p =>
      simp only [allLits?, Value.asLit?] at h
      cases hr : allLits? vs with
      | none => simp [hr] at h
      | some qs =>
        simp [hr] at h; subst h
        simp [ih hr]
    | set _ => simp [allLits?, Value.asLit?] at h
    | record _ => simp [allLits?, Value.asLit?] at h
    | ext _ => simp [allLits?, Value.asLit?] at h

theorem allLits?_none {vs : List Value} (h : allLits? vs = none) : ∃ v, v ∈ vs ∧ ∀ p, v ≠ .prim p := by
  induction vs with
  | nil => simp [allLits?] at h
  | cons v vs ih =>
    cases v with
    | prim p =>
      simp only [allLits?, Value.asLit?] at h
      cases hr : allLits? vs with
      | none => obtain ⟨w, hw, hp⟩ := ih hr; exact ⟨w, List.mem_cons_of_mem _ hw, hp⟩
      | some qs => simp [hr] at h
    | set s => exact ⟨.set s, List.mem_cons_self, by intro p h; cases h⟩
    | record r => exact ⟨.record r, List.mem_cons_self, by intro p h; cases h⟩
    | ext x => exact ⟨.ext x, List.mem_cons_self, by intro p h; cases h⟩

theorem beq_prim (p q : Prim) : Value.beq (.prim p) (.prim q) = (p == q) := by simp [Value.beq]

theorem beq_prim_nonprim (p : Prim) (v : Value) (h : ∀ q, v ≠ .prim q) : Value.beq v (.prim p) = false := by
  cases v with
  | prim q => exact absurd rfl (h q)
  | _ => simp [Value.beq]

theorem elem_prims (p : Prim) (ps : List Prim) : Value.elem (.prim p) (ps.map Value.prim) = ps.contains p := by
  induction ps with
  | nil => simp [Value.elem]
  | cons q qs ih =>
    simp [Value.elem, beq_prim, ih]
    cases hpq : decide (p = q) <;> simp_all

theorem elem_nonprim_prims (v : Value) (h : ∀ q, v ≠ .prim q) (ps : List Prim) :
    Value.elem v (ps.map Value.prim) = false := by
  induction ps with
  | nil => simp [Value.elem]
  | cons q qs ih =>
    have : Value.beq v (.prim q) = false := beq_prim_nonprim q v h
    simp [Value.elem, this, ih]

theorem subset_prims (l1 l2 : List Prim) :
    Value.subset (l1.map Value.prim) (l2.map Value.prim) = l1.all (fun p => l2.contains p) := by
  induction l1 with
  | nil => simp [Value.subset]
  | cons p ps ih => simp [Value.subset, elem_prims, ih]

theorem contains_fast_slow (s : SetRepr) (h : s.FastRepr) (v : Value) :
    s.contains v = Value.elem v s.authoritative := by
  unfold SetRepr.FastRepr at h
  unfold SetRepr.contains
  cases hf : s.fast with
  | none => simp
  | some ls =>
    have ha := allLits?_some (h ▸ hf)
    cases v with
    | prim p => simp [ha, elem_prims]
    | set x => simp only; rw [ha, elem_nonprim_prims]; intro q hq; cases hq
    | record x => simp only; rw [ha, elem_nonprim_prims]; intro q hq; cases hq
    | ext x => simp only; rw [ha, elem_nonprim_prims]; intro q hq; cases hq

theorem isSubset_fast_slow (s o : SetRepr) (hs : s.FastRepr) (ho : o.FastRepr) :
    s.isSubset o = Value.subset s.authoritative o.authoritative := by
  unfold SetRepr.FastRepr at hs ho
  unfold SetRepr.isSubset
  cases hf : s.fast with
  | some l1 =>
    cases hg : o.fast with
    | some l2 =>
      have h1 := allLits?_some (hs ▸ hf); have h2 := allLits?_some (ho ▸ hg)
      simp only [h1, h2, subset_prims]
    | none => simp
  | none =>
    cases hg : o.fast with
    | none => simp
    | some l2 =>
      -- s has a non-literal element, o is all literals: the subset test is false
      have h2 := allLits?_some (ho ▸ hg)
      obtain ⟨v, hv, hnp⟩ := allLits?_none (hs ▸ hf)
      simp only
      symm
      cases hsub : Value.subset s.authoritative o.authoritative with
      | false => rfl
      | true =>
        have := (Value.subset_iff _ _).mp hsub v hv
        rw [h2, elem_nonprim_prims v hnp] at this
        cases this

theorem isDisjoint_fast_slow (s o : SetRepr) (hs : s.FastRepr) (ho : o.FastRepr) :
    s.isDisjoint o = !(s.authoritative.any (fun v => Value.elem v o.authoritative)) := by
  unfold SetRepr.FastRepr at hs ho
  unfold SetRepr.isDisjoint
  cases hf : s.fast with
  | some l1 =>
    cases hg : o.fast with
    | some l2 =>
      have h1 := allLits?_some (hs ▸ hf); have h2 := allLits?_some (ho ▸ hg)
      simp only [h1, h2, List.any_map, Function.comp_def, elem_prims]
    | none => simp
  | none => simp

theorem eq_fast_slow (s o : SetRepr) (hs : s.FastRepr) (ho : o.FastRepr) :
    s.eq o = Value.beq (.set s.authoritative) (.set o.authoritative) := by
  have h1 := isSubset_fast_slow s o hs ho
  have h2 := isSubset_fast_slow o s ho hs
  rw [Value.beq, ← h1, ← h2]
  unfold SetRepr.eq SetRepr.isSubset
  cases hf : s.fast <;> cases hg : o.fast <;> simp

theorem make_fastRepr (vs : List Value) : (SetRepr.make vs).FastRepr := rfl

end Cedar
