import CedarVerif.Lemmas.TpeSound
/- C14 helpers: the `&&` / `||` arms of `interpret` (incl. `<error-free> && false → false`) are sound given that the
   operands are booleans when they evaluate and that the can-error analysis is sound for the left operand. -/
namespace Cedar.Tpe
open Cedar

def andResult (ty : Ty) (L R : Residual) : Residual :=
  match L with
  | .concrete v _ =>
    (match v.asBool with
     | .ok false => mkBool false ty
     | .ok true => R
     | .error _ => .error ty)
  | .part lk lty =>
    (match R with
     | .concrete v _ =>
       (match v.asBool with
        | .ok true => .part lk lty
        | .ok false =>
          if !(Residual.part lk lty).canError then mkBool false ty
          else .part (.and (.part lk lty) (mkBool false ty)) ty
        | .error _ => .part (.and (.part lk lty) (.error ty)) ty)
     | right => .part (.and (.part lk lty) right) ty)
  | .error _ => .error ty

def orResult (ty : Ty) (L R : Residual) : Residual :=
  match L with
  | .concrete v _ =>
    (match v.asBool with
     | .ok true => mkBool true ty
     | .ok false => R
     | .error _ => .error ty)
  | .part lk lty =>
    (match R with
     | .concrete v _ =>
       (match v.asBool with
        | .ok false => .part lk lty
        | .ok true =>
          if !(Residual.part lk lty).canError then mkBool true ty
          else .part (.or (.part lk lty) (mkBool true ty)) ty
        | .error _ => .part (.or (.part lk lty) (.error ty)) ty)
     | right => .part (.or (.part lk lty) right) ty)
  | .error _ => .error ty

theorem interpretKind_and (req : PRequest) (es : PEntities) (ty : Ty) (l r : Residual) :
    interpretKind req es ty (.and l r) = andResult ty (interpret req es l) (interpret req es r) := by
  rw [interpretKind]
  unfold andResult
  cases interpret req es l with
  | concrete v t => rfl
  | error t => rfl
  | part lk lt =>
    simp only
    cases interpret req es r <;> rfl

theorem interpretKind_or (req : PRequest) (es : PEntities) (ty : Ty) (l r : Residual) :
    interpretKind req es ty (.or l r) = orResult ty (interpret req es l) (interpret req es r) := by
  rw [interpretKind]
  unfold orResult
  cases interpret req es l with
  | concrete v t => rfl
  | error t => rfl
  | part lk lt =>
    simp only
    cases interpret req es r <;> rfl

section
variable (req : Request) (es : Entities)

theorem asBool_bool (b : Bool) : (Value.prim (.bool b)).asBool = .ok b := rfl

theorem and_arm (ty : Ty) (L R : Residual) (x y : Result Value)
    (hl : Agree (L.eval req es) x) (hr : Agree (R.eval req es) y)
    (hbL : ∀ v, L.eval req es = .ok v → ∃ b, v = .prim (.bool b))
    (hbR : ∀ v, R.eval req es = .ok v → ∃ b, v = .prim (.bool b))
    (hef : L.canError = false → ∃ v, L.eval req es = .ok v) :
    Agree ((andResult ty L R).eval req es) (andR x y) := by
  cases L with
  | error t =>
    obtain ⟨e', rfl⟩ := agree_err_left (by simpa [Residual.eval] using hl)
    simp [andResult, Residual.eval, andR, Agree]
  | concrete v t =>
    have hx : x = .ok v := agree_ok_left (by simpa [Residual.eval] using hl)
    subst hx
    obtain ⟨b, rfl⟩ := hbL v (by simp [Residual.eval])
    cases b
    · simp [andResult, asBool_bool, mkBool, Residual.eval, andR, Agree]
    · simp only [andResult, asBool_bool, andR]
      rcases agree_cases hr with ⟨w, h1, rfl⟩ | ⟨e, e', h1, rfl⟩
      · obtain ⟨b', rfl⟩ := hbR w h1
        rw [h1]; simp [asBool_bool, Agree]
      · rw [h1]; simp [Agree]
  | part lk lt =>
    -- the left operand stays a residual
    have key : ∀ R' : Residual, Agree (R'.eval req es) y →
        Agree ((Residual.part (.and (.part lk lt) R') ty).eval req es) (andR x y) := by
      intro R' hr'
      simp only [Residual.eval, RKind.eval]
      exact andR_congr hl hr'
    cases R with
    | part rk rt => exact key _ hr
    | error t => exact key _ hr
    | concrete w t =>
      have hy : y = .ok w := agree_ok_left (by simpa [Residual.eval] using hr)
      subst hy
      obtain ⟨b', rfl⟩ := hbR w (by simp [Residual.eval])
      cases b'
      · -- <left> && false
        simp only [andResult, asBool_bool]
        split
        · rename_i hce
          have hce' : (Residual.part lk lt).canError = false := by simpa using hce
          obtain ⟨v, hv⟩ := hef hce'
          obtain ⟨b, rfl⟩ := hbL v hv
          have hx : x = .ok (.prim (.bool b)) := agree_ok_left (by rw [← hv]; exact hl)
          subst hx
          cases b <;> simp [mkBool, Residual.eval, andR, asBool_bool, Agree]
        · exact key _ (by simp [mkBool, Residual.eval, Agree])
      · -- <left> && true => <left>
        simp only [andResult, asBool_bool]
        rcases agree_cases hl with ⟨v, h1, rfl⟩ | ⟨e, e', h1, rfl⟩
        · obtain ⟨b, rfl⟩ := hbL v h1
          rw [h1]; cases b <;> simp [andR, asBool_bool, Agree]
        · rw [h1]; simp [andR, Agree]

theorem or_arm (ty : Ty) (L R : Residual) (x y : Result Value)
    (hl : Agree (L.eval req es) x) (hr : Agree (R.eval req es) y)
    (hbL : ∀ v, L.eval req es = .ok v → ∃ b, v = .prim (.bool b))
    (hbR : ∀ v, R.eval req es = .ok v → ∃ b, v = .prim (.bool b))
    (hef : L.canError = false → ∃ v, L.eval req es = .ok v) :
    Agree ((orResult ty L R).eval req es) (orR x y) := by
  cases L with
  | error t =>
    obtain ⟨e', rfl⟩ := agree_err_left (by simpa [Residual.eval] using hl)
    simp [orResult, Residual.eval, orR, Agree]
  | concrete v t =>
    have hx : x = .ok v := agree_ok_left (by simpa [Residual.eval] using hl)
    subst hx
    obtain ⟨b, rfl⟩ := hbL v (by simp [Residual.eval])
    cases b
    · simp only [orResult, asBool_bool, orR]
      rcases agree_cases hr with ⟨w, h1, rfl⟩ | ⟨e, e', h1, rfl⟩
      · obtain ⟨b', rfl⟩ := hbR w h1
        rw [h1]; simp [asBool_bool, Agree]
      · rw [h1]; simp [Agree]
    · simp [orResult, asBool_bool, mkBool, Residual.eval, orR, Agree]
  | part lk lt =>
    have key : ∀ R' : Residual, Agree (R'.eval req es) y →
        Agree ((Residual.part (.or (.part lk lt) R') ty).eval req es) (orR x y) := by
      intro R' hr'
      simp only [Residual.eval, RKind.eval]
      exact orR_congr hl hr'
    cases R with
    | part rk rt => exact key _ hr
    | error t => exact key _ hr
    | concrete w t =>
      have hy : y = .ok w := agree_ok_left (by simpa [Residual.eval] using hr)
      subst hy
      obtain ⟨b', rfl⟩ := hbR w (by simp [Residual.eval])
      cases b'
      · simp only [orResult, asBool_bool]
        rcases agree_cases hl with ⟨v, h1, rfl⟩ | ⟨e, e', h1, rfl⟩
        · obtain ⟨b, rfl⟩ := hbL v h1
          rw [h1]; cases b <;> simp [orR, asBool_bool, Agree]
        · rw [h1]; simp [orR, Agree]
      · simp only [orResult, asBool_bool]
        split
        · rename_i hce
          have hce' : (Residual.part lk lt).canError = false := by simpa using hce
          obtain ⟨v, hv⟩ := hef hce'
          obtain ⟨b, rfl⟩ := hbL v hv
          have hx : x = .ok (.prim (.bool b)) := agree_ok_left (by rw [← hv]; exact hl)
          subst hx
          cases b <;> simp [mkBool, Residual.eval, orR, asBool_bool, Agree]
        · exact key _ (by simp [mkBool, Residual.eval, Agree])
end

end Cedar.Tpe
