import CedarVerif.Cedar.Tpe
/- C14 helpers: what a residual evaluates to on a concrete request / store (`Residual.eval`: a `Concrete` residual is
   its value, an `Error` residual errors, a `Partial` one is evaluated like the expression it stands for), completions
   consistent with partial inputs, agreement of results, and the soundness of `interpret` on a fragment. -/
namespace Cedar.Tpe
open Cedar

/-! ### the evaluation combinators of `evaluate`, on results -/
def andR (x y : Result Value) : Result Value :=
  match x with
  | .error e => .error e
  | .ok v => match v.asBool with
    | .error e => .error e
    | .ok false => .ok (.prim (.bool false))
    | .ok true => match y with
      | .error e => .error e
      | .ok w => match w.asBool with
        | .error e => .error e
        | .ok b => .ok (.prim (.bool b))
def orR (x y : Result Value) : Result Value :=
  match x with
  | .error e => .error e
  | .ok v => match v.asBool with
    | .error e => .error e
    | .ok true => .ok (.prim (.bool true))
    | .ok false => match y with
      | .error e => .error e
      | .ok w => match w.asBool with
        | .error e => .error e
        | .ok b => .ok (.prim (.bool b))
def iteR (c t e : Result Value) : Result Value :=
  match c with
  | .error err => .error err
  | .ok v => match v.asBool with
    | .error err => .error err
    | .ok true => t
    | .ok false => e
def bindR (x : Result Value) (f : Value → Result Value) : Result Value :=
  match x with
  | .error e => .error e
  | .ok v => f v
def getAttrV (es : Entities) (attr : String) : Value → Result Value
  | .record kvs => (match lookupKV kvs attr with | some v => .ok v | none => .error .attr)
  | .prim (.entityUID u) => (match es.find? u with
      | none => .error .entity
      | some d => match lookupKV d.attrs attr with
        | some v => .ok v
        | none => .error .attr)
  | _ => .error .type
def hasAttrV (es : Entities) (attr : String) : Value → Result Value
  | .record kvs => .ok (.prim (.bool (lookupKV kvs attr).isSome))
  | .prim (.entityUID u) => (match es.find? u with
      | none => .ok (.prim (.bool false))
      | some d => .ok (.prim (.bool (lookupKV d.attrs attr).isSome)))
  | _ => .error .type
def likeV (p : Pattern) (v : Value) : Result Value :=
  match v.asString with
  | .error e => .error e
  | .ok s => .ok (.prim (.bool (wm p s.toList)))
def isV (ty : EntityType) (v : Value) : Result Value :=
  match v.asEntity with
  | .error e => .error e
  | .ok u => .ok (.prim (.bool (u.ty == ty)))

mutual
def Residual.eval (req : Request) (es : Entities) : Residual → Result Value
  | .concrete v _ => .ok v
  | .error _ => .error .ext
  | .part k _ => k.eval req es
def RKind.eval (req : Request) (es : Entities) : RKind → Result Value
  | .var .principal => .ok (.prim (.entityUID req.principal))
  | .var .action => .ok (.prim (.entityUID req.action))
  | .var .resource => .ok (.prim (.entityUID req.resource))
  | .var .context => .ok (.record req.context)
  | .ite c t e => iteR (c.eval req es) (t.eval req es) (e.eval req es)
  | .and a b => andR (a.eval req es) (b.eval req es)
  | .or a b => orR (a.eval req es) (b.eval req es)
  | .unaryApp op a => bindR (a.eval req es) (applyUnary op)
  | .binaryApp op a b => bindR (a.eval req es) (fun v1 => bindR (b.eval req es) (fun v2 => applyBinary es op v1 v2))
  | .call fn args => (match Residual.evalList req es args with | .error e => .error e | .ok vs => callExt fn vs)
  | .getAttr e a => bindR (e.eval req es) (getAttrV es a)
  | .hasAttr e a => bindR (e.eval req es) (hasAttrV es a)
  | .like e p => bindR (e.eval req es) (likeV p)
  | .is e ty => bindR (e.eval req es) (isV ty)
  | .set xs => (match Residual.evalList req es xs with | .error e => .error e | .ok vs => .ok (.set (Value.mkSet vs)))
  | .record kvs => (match Residual.evalKVs req es kvs with
      | .error e => .error e
      | .ok vs => .ok (.record (vs.foldl (fun acc kv => insertKV kv.1 kv.2 acc) [])))
def Residual.evalList (req : Request) (es : Entities) : List Residual → Result (List Value)
  | [] => .ok []
  | r :: rs => (match r.eval req es with
      | .error e => .error e
      | .ok v => match Residual.evalList req es rs with
        | .error e => .error e
        | .ok vs => .ok (v :: vs))
def Residual.evalKVs (req : Request) (es : Entities) : List (String × Residual) → Result (List (String × Value))
  | [] => .ok []
  | (k, r) :: rs => (match r.eval req es with
      | .error e => .error e
      | .ok v => match Residual.evalKVs req es rs with
        | .error e => .error e
        | .ok vs => .ok ((k, v) :: vs))
end

/-- equal values, or both errors (error classes are not compared: the property says "erroring") -/
def Agree (x y : Result Value) : Prop :=
  match x, y with
  | .ok v, .ok w => v = w
  | .error _, .error _ => True
  | _, _ => False

theorem Agree.rfl' (x : Result Value) : Agree x x := by cases x <;> simp [Agree]

theorem agree_ok_left {v : Value} {y : Result Value} (h : Agree (.ok v) y) : y = .ok v := by
  cases y <;> simp_all [Agree]

theorem agree_err_left {e : ErrClass} {y : Result Value} (h : Agree (.error e) y) : ∃ e', y = .error e' := by
  cases y <;> simp_all [Agree]

theorem agree_cases {x y : Result Value} (h : Agree x y) : (∃ v, x = .ok v ∧ y = .ok v) ∨ (∃ e e', x = .error e ∧ y = .error e') := by
  cases x <;> cases y <;> simp_all [Agree]

theorem andR_congr {x x' y y' : Result Value} (hx : Agree x x') (hy : Agree y y') : Agree (andR x y) (andR x' y') := by
  rcases agree_cases hx with ⟨v, rfl, rfl⟩ | ⟨e, e', rfl, rfl⟩
  · rcases agree_cases hy with ⟨w, rfl, rfl⟩ | ⟨e, e', rfl, rfl⟩
    · exact Agree.rfl' _
    · simp only [andR]; cases v.asBool with
      | error _ => simp [Agree]
      | ok b => cases b <;> simp [Agree]
  · simp [andR, Agree]

theorem orR_congr {x x' y y' : Result Value} (hx : Agree x x') (hy : Agree y y') : Agree (orR x y) (orR x' y') := by
  rcases agree_cases hx with ⟨v, rfl, rfl⟩ | ⟨e, e', rfl, rfl⟩
  · rcases agree_cases hy with ⟨w, rfl, rfl⟩ | ⟨e, e', rfl, rfl⟩
    · exact Agree.rfl' _
    · simp only [orR]; cases v.asBool with
      | error _ => simp [Agree]
      | ok b => cases b <;> simp [Agree]
  · simp [orR, Agree]

theorem iteR_congr {c c' t t' e e' : Result Value} (hc : Agree c c') (ht : Agree t t') (he : Agree e e') :
    Agree (iteR c t e) (iteR c' t' e') := by
  rcases agree_cases hc with ⟨v, rfl, rfl⟩ | ⟨_, _, rfl, rfl⟩
  · simp only [iteR]; cases v.asBool with
    | error _ => simp [Agree]
    | ok b => cases b <;> simp [ht, he]
  · simp [iteR, Agree]

theorem bindR_congr {x x' : Result Value} (f : Value → Result Value) (hx : Agree x x') : Agree (bindR x f) (bindR x' f) := by
  rcases agree_cases hx with ⟨v, rfl, rfl⟩ | ⟨_, _, rfl, rfl⟩
  · exact Agree.rfl' _
  · simp [bindR, Agree]

theorem bindR_congr2 {x x' y y' : Result Value} (f : Value → Value → Result Value) (hx : Agree x x') (hy : Agree y y') :
    Agree (bindR x (fun a => bindR y (f a))) (bindR x' (fun a => bindR y' (f a))) := by
  rcases agree_cases hx with ⟨v, rfl, rfl⟩ | ⟨_, _, rfl, rfl⟩
  · simp only [bindR]; exact bindR_congr (f v) hy
  · simp [bindR, Agree]

theorem agree_ofResult (ty : Ty) (req : Request) (es : Entities) (x : Result Value) : Agree ((ofResult ty x).eval req es) x := by
  cases x <;> simp [ofResult, Residual.eval, Agree]

end Cedar.Tpe
