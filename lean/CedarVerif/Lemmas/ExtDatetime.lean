import CedarVerif.Lemmas.ExtDigits
/-
Datetime / duration arithmetic: truncated vs Euclidean division, `toTime`, `toDate`, and the calendar
function `daysFromCivil`.
-/
namespace Cedar.Ext.Datetime

/-! ### truncated division / remainder in terms of the Euclidean ones (which `omega` understands) -/

theorem tmod_pos (a b : Int) (ha : 0 ≤ a) : Int.tmod a b = a % b := Int.tmod_eq_emod_of_nonneg ha
theorem tmod_neg' (a b : Int) (ha : a ≤ 0) : Int.tmod a b = -((-a) % b) := by
  have : a = -(-a) := by omega
  rw [this, Int.neg_tmod, Int.tmod_eq_emod_of_nonneg (by omega)]; simp
theorem tdiv_pos (a b : Int) (ha : 0 ≤ a) : Int.tdiv a b = a / b := Int.tdiv_eq_ediv_of_nonneg ha
theorem tdiv_neg' (a b : Int) (ha : a ≤ 0) : Int.tdiv a b = -((-a) / b) := by
  have : a = -(-a) := by omega
  rw [this, Int.neg_tdiv, Int.tdiv_eq_ediv_of_nonneg (by omega)]; simp

/-- truncating division rounds toward zero -/
theorem tdiv_trunc (d n : Int) (hn : 0 < n) :
    (0 ≤ d → Int.tdiv d n * n ≤ d ∧ d < (Int.tdiv d n + 1) * n) ∧
    (d ≤ 0 → (Int.tdiv d n - 1) * n < d ∧ d ≤ Int.tdiv d n * n) := by
  constructor
  · intro h
    rw [tdiv_pos d n h]
    have h1 := Int.ediv_mul_le d (Int.ne_of_gt hn)
    have h2 := Int.lt_ediv_add_one_mul_self d hn
    exact ⟨h1, h2⟩
  · intro h
    rw [tdiv_neg' d n h]
    have h1 := Int.ediv_mul_le (-d) (Int.ne_of_gt hn)
    have h2 := Int.lt_ediv_add_one_mul_self (-d) hn
    generalize (-d) / n = p at *
    have e1 : (p + 1) * n = p * n + n := by rw [Int.add_mul, Int.one_mul]
    have e2 : (-p - 1) * n = -(p * n) - n := by rw [Int.sub_mul, Int.neg_mul, Int.one_mul]
    have e3 : -p * n = -(p * n) := Int.neg_mul _ _
    rw [e2, e3]; rw [e1] at h2
    omega

theorem tdiv_tdiv (d a b : Int) (ha : 0 < a) (hb : 0 < b) :
    Int.tdiv (Int.tdiv d a) b = Int.tdiv d (a * b) := by
  by_cases h : 0 ≤ d
  · rw [tdiv_pos d a h, tdiv_pos d (a * b) h, tdiv_pos _ b (Int.ediv_nonneg h (Int.le_of_lt ha))]
    exact Int.ediv_ediv_of_nonneg (Int.le_of_lt ha)
  · have h' : d ≤ 0 := by omega
    have hp : 0 ≤ -d / a := Int.ediv_nonneg (by omega) (Int.le_of_lt ha)
    rw [tdiv_neg' d a h', tdiv_neg' d (a * b) h', tdiv_neg' _ b (by omega), Int.neg_neg]
    rw [Int.ediv_ediv_of_nonneg (Int.le_of_lt ha)]

/-! ### `toTime`, `toDate` -/

/-- the Rust case distinction on the sign computes the Euclidean remainder -/
theorem toTime_eq_emod (t : Int) : toTime t = t % 86400000 := by
  unfold toTime msPerDay
  split
  · rw [tmod_neg' t _ (by omega)]
    dsimp only
    split
    · rename_i h; have : -(-t % 86400000) = 0 := by simpa using h
      omega
    · rename_i h; have : -(-t % 86400000) ≠ 0 := by simpa using h
      omega
  · rw [tmod_pos t _ (by omega)]

theorem toDate_eq (t : Int) : toDate t = checkedI64 (t / 86400000 * 86400000) := by
  unfold toDate msPerDay
  have : t - Int.emod t 86400000 = t / 86400000 * 86400000 := by
    show t - t % 86400000 = t / 86400000 * 86400000
    omega
  rw [this]

/-! ### the calendar -/

/-- days from the internal origin (0000-03-01) to March 1 of the internal year `y'` (years start in March) -/
def yearStart (y' : Int) : Int :=
  let era : Int := (if y' ≥ 0 then y' else y' - 399) / 400
  let yoe : Int := y' - era * 400
  era * 146097 + (yoe * 365 + yoe / 4 - yoe / 100)

/-- internal year of a civil (year, month) -/
def internalYear (y m : Nat) : Int := if m ≤ 2 then (y : Int) - 1 else y

/-- day of the internal year (0 = March 1) -/
def doy (m d : Nat) : Int := (153 * (((m : Int) + 9) % 12) + 2) / 5 + (d : Int) - 1

theorem daysFromCivil_eq (y m d : Nat) :
    daysFromCivil y m d = yearStart (internalYear y m) + doy m d - 719468 := by
  simp only [daysFromCivil, yearStart, internalYear, doy]
  omega

def leapI (y : Int) : Bool := (y % 4 == 0 && y % 100 != 0) || y % 400 == 0

theorem leapI_iff (y : Int) : leapI y = true ↔ ((y % 4 = 0 ∧ y % 100 ≠ 0) ∨ y % 400 = 0) := by
  simp [leapI]

theorem isLeap_eq_leapI (y : Nat) : isLeap y = leapI (y : Int) := by
  simp only [isLeap, leapI]
  have e4 : ((y % 4 : Nat) : Int) = (y : Int) % 4 := by omega
  have e100 : ((y % 100 : Nat) : Int) = (y : Int) % 100 := by omega
  have e400 : ((y % 400 : Nat) : Int) = (y : Int) % 400 := by omega
  have a : (y % 4 == 0) = ((y : Int) % 4 == 0) := by
    rw [Bool.eq_iff_iff]; simp only [beq_iff_eq]; omega
  have b : (y % 100 != 0) = ((y : Int) % 100 != 0) := by
    rw [Bool.eq_iff_iff]; simp only [bne_iff_ne, ne_eq]; omega
  have c : (y % 400 == 0) = ((y : Int) % 400 == 0) := by
    rw [Bool.eq_iff_iff]; simp only [beq_iff_eq]; omega
  rw [a, b, c]

/-- an internal year has 365 days, 366 when the February at its end lies in a leap year -/
theorem yearStart_succ (y' : Int) (h : -1 ≤ y') :
    yearStart (y' + 1) = yearStart y' + 365 + (if leapI (y' + 1) then 1 else 0) := by
  by_cases h0 : y' = -1
  · subst h0; decide
  · have hp : 0 ≤ y' := by omega
    have hp1 : y' + 1 ≥ 0 := by omega
    have hp0 : y' ≥ 0 := hp
    by_cases hl : leapI (y' + 1) = true
    · rw [if_pos hl]; rw [leapI_iff] at hl
      simp only [yearStart, hp1, hp0, if_true]
      omega
    · rw [if_neg hl]; rw [leapI_iff] at hl
      simp only [yearStart, hp1, hp0, if_true]
      omega

theorem dateOk_iff (y m d : Nat) :
    dateOk y m d = true ↔ 1 ≤ m ∧ m ≤ 12 ∧ 1 ≤ d ∧ d ≤ daysInMonth y m := by
  simp [dateOk, and_assoc]

theorem daysInMonth_le (y m : Nat) : daysInMonth y m ≤ 31 := by
  unfold daysInMonth
  split <;> (try split) <;> omega

/-- the civil day after (y, m, d) -/
def nextDay (y m d : Nat) : Nat × Nat × Nat :=
  if d < daysInMonth y m then (y, m, d + 1) else if m < 12 then (y, m + 1, 1) else (y + 1, 1, 1)

theorem nextDay_lt {y m d : Nat} (h : d < daysInMonth y m) : nextDay y m d = (y, m, d + 1) := by
  simp [nextDay, h]
theorem nextDay_eom {y m d : Nat} (h : ¬ d < daysInMonth y m) (hm : m < 12) : nextDay y m d = (y, m + 1, 1) := by
  simp [nextDay, h, hm]
theorem nextDay_eoy {y m d : Nat} (h : ¬ d < daysInMonth y m) (hm : ¬ m < 12) : nextDay y m d = (y + 1, 1, 1) := by
  simp [nextDay, h, hm]

/-- the next civil day is valid and its day number is one larger -/
theorem daysFromCivil_nextDay (y m d : Nat) (h : dateOk y m d = true) :
    dateOk (nextDay y m d).1 (nextDay y m d).2.1 (nextDay y m d).2.2 = true ∧
    daysFromCivil (nextDay y m d).1 (nextDay y m d).2.1 (nextDay y m d).2.2 = daysFromCivil y m d + 1 := by
  obtain ⟨h1, h2, h3, h4⟩ := (dateOk_iff y m d).mp h
  by_cases hd : d < daysInMonth y m
  · rw [nextDay_lt hd]
    dsimp only
    refine ⟨(dateOk_iff _ _ _).mpr ⟨h1, h2, by omega, by omega⟩, ?_⟩
    rw [daysFromCivil_eq, daysFromCivil_eq]
    simp only [doy]
    omega
  · have hd' : d = daysInMonth y m := by omega
    have hl := isLeap_eq_leapI y
    have hs := yearStart_succ ((y : Int) - 1) (by omega)
    have e : (y : Int) - 1 + 1 = y := by omega
    rw [e] at hs
    by_cases hm12 : m < 12
    · rw [nextDay_eom hd hm12]
      subst hd'
      have hm : m = 1 ∨ m = 2 ∨ m = 3 ∨ m = 4 ∨ m = 5 ∨ m = 6 ∨ m = 7 ∨ m = 8 ∨ m = 9 ∨ m = 10 ∨ m = 11 := by omega
      cases hleap : isLeap y <;> rw [hleap] at hl <;> rw [← hl] at hs <;>
        simp only [Bool.false_eq_true, if_false, if_true] at hs <;>
        rcases hm with rfl | rfl | rfl | rfl | rfl | rfl | rfl | rfl | rfl | rfl | rfl <;>
        (refine ⟨by simp [dateOk, daysInMonth, hleap], ?_⟩
         rw [daysFromCivil_eq, daysFromCivil_eq]
         simp [internalYear, doy, daysInMonth, hleap]
         omega)
    · rw [nextDay_eoy hd hm12]
      have hm : m = 12 := by omega
      subst hm
      subst hd'
      refine ⟨by simp [dateOk, daysInMonth], ?_⟩
      rw [daysFromCivil_eq, daysFromCivil_eq]
      simp [internalYear, doy, daysInMonth]
      omega

theorem daysFromCivil_epoch : daysFromCivil 1970 1 1 = 0 := by decide

/-! ### monotonicity -/

theorem yearStart_mono (a : Int) (ha : -1 ≤ a) (n : Nat) : yearStart a + 365 * (n : Int) ≤ yearStart (a + (n : Int)) := by
  induction n with
  | zero => simp
  | succ k ih =>
    have hs := yearStart_succ (a + (k : Int)) (by omega)
    have e : a + ((k + 1 : Nat) : Int) = a + (k : Int) + 1 := by omega
    rw [e, hs]
    split <;> omega

theorem internal_lt (Y1 Y2 d1 d2 : Int) (h1 : -1 ≤ Y1)
    (hd1 : d1 ≤ 364 + (if leapI (Y1 + 1) then 1 else 0)) (hd2 : 0 ≤ d2)
    (hlt : Y1 < Y2 ∨ (Y1 = Y2 ∧ d1 < d2)) : yearStart Y1 + d1 < yearStart Y2 + d2 := by
  rcases hlt with hlt | ⟨rfl, hlt⟩
  · have hs := yearStart_succ Y1 h1
    have hm := yearStart_mono (Y1 + 1) (by omega) (Y2 - Y1 - 1).toNat
    have e : Y1 + 1 + ((Y2 - Y1 - 1).toNat : Int) = Y2 := by omega
    rw [e] at hm
    omega
  · omega

theorem doy_end (y m : Nat) (h1 : 1 ≤ m) (h2 : m ≤ 12) :
    doy m (daysInMonth y m) < (153 * (((m : Int) + 9) % 12 + 1) + 2) / 5 := by
  have hm : m = 1 ∨ m = 2 ∨ m = 3 ∨ m = 4 ∨ m = 5 ∨ m = 6 ∨ m = 7 ∨ m = 8 ∨ m = 9 ∨ m = 10 ∨ m = 11 ∨ m = 12 := by
    omega
  cases hleap : isLeap y <;>
    rcases hm with rfl | rfl | rfl | rfl | rfl | rfl | rfl | rfl | rfl | rfl | rfl | rfl <;>
    simp [doy, daysInMonth, hleap]

theorem doy_bounds (y m d : Nat) (h : dateOk y m d = true) :
    0 ≤ doy m d ∧ doy m d ≤ 364 + (if leapI (internalYear y m + 1) then 1 else 0) := by
  obtain ⟨h1, h2, h3, h4⟩ := (dateOk_iff y m d).mp h
  have h31 := daysInMonth_le y m
  by_cases hm : m = 2
  · subst hm
    have hl := isLeap_eq_leapI y
    have e : internalYear y 2 + 1 = (y : Int) := by simp [internalYear]
    rw [e, ← hl]
    cases hleap : isLeap y <;> simp [daysInMonth, hleap] at h4 <;> simp [doy] <;> omega
  · constructor
    · simp only [doy]; omega
    · have : doy m d ≤ 364 := by simp only [doy]; omega
      split <;> omega

def cum (p : Int) : Int := (153 * p + 2) / 5
theorem cum_mono (p q : Int) (h : p ≤ q) : cum p ≤ cum q := by
  unfold cum; exact Int.ediv_le_ediv (by decide) (by omega)

/-- lexicographic order on civil dates -/
def dateLt (y1 m1 d1 y2 m2 d2 : Nat) : Prop := y1 < y2 ∨ (y1 = y2 ∧ (m1 < m2 ∨ (m1 = m2 ∧ d1 < d2)))

instance (y1 m1 d1 y2 m2 d2 : Nat) : Decidable (dateLt y1 m1 d1 y2 m2 d2) := by unfold dateLt; infer_instance

theorem lex_internal (y1 m1 d1 y2 m2 d2 : Nat) (ok1 : dateOk y1 m1 d1 = true) (ok2 : dateOk y2 m2 d2 = true)
    (hlt : dateLt y1 m1 d1 y2 m2 d2) :
    internalYear y1 m1 < internalYear y2 m2 ∨
      (internalYear y1 m1 = internalYear y2 m2 ∧ doy m1 d1 < doy m2 d2) := by
  obtain ⟨a1, a2, a3, a4⟩ := (dateOk_iff _ _ _).mp ok1
  obtain ⟨b1, b2, b3, b4⟩ := (dateOk_iff _ _ _).mp ok2
  have he := doy_end y1 m1 a1 a2
  unfold dateLt at hlt
  have hc : ∀ p : Int, (153 * p + 2) / 5 = cum p := fun p => rfl
  simp only [doy, hc] at he ⊢
  have hmono : ((m1 : Int) + 9) % 12 + 1 ≤ ((m2 : Int) + 9) % 12 →
      cum (((m1 : Int) + 9) % 12 + 1) ≤ cum (((m2 : Int) + 9) % 12) := cum_mono _ _
  have hcongr : m1 = m2 → cum (((m1 : Int) + 9) % 12) = cum (((m2 : Int) + 9) % 12) := by
    intro h; rw [h]
  generalize daysInMonth y1 m1 = D1 at *
  by_cases c1 : m1 ≤ 2 <;> by_cases c2 : m2 ≤ 2 <;> simp only [internalYear, c1, c2, if_true, if_false] <;> omega

end Cedar.Ext.Datetime
