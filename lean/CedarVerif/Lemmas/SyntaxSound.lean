import CedarVerif.Lemmas.SyntaxFull
/-
C05: soundness of the parser image — on well-formed tokens (`IDENTIFIER` tokens have identifier syntax) every AST
returned by `Parse.expr` is in `inFrag3`.  Uses one library fact about `String.splitOn` as a hypothesis (`SplitOnSpec`).
-/
namespace Cedar.Syntax
open Cedar

/-- every `IDENTIFIER` token matches `[_a-zA-Z][_a-zA-Z0-9]*` (what the lexer guarantees) -/
def TokWF (ts : List Token) : Prop := ∀ s, Token.ident s ∈ ts → isIdentChars s.toList = true

/-- `splitOn ∘ intercalate = id` on identifiers (they contain no `:`) -/
def SplitOnSpec : Prop :=
  ∀ comps : List String, comps ≠ [] → (∀ c ∈ comps, isIdentChars c.toList = true) → (joinName comps).splitOn "::" = comps

theorem TokWF.tail {t : Token} {ts : List Token} (h : TokWF (t :: ts)) : TokWF ts :=
  fun s hs => h s (List.mem_cons_of_mem _ hs)
theorem TokWF.head {s : String} {ts : List Token} (h : TokWF (.ident s :: ts)) : isIdentChars s.toList = true :=
  h s (by simp)

/-- the invariant on `ExprOrSpecial` -/
def Img : EOS → Prop
  | .expr e => inFrag3 e = true
  | .name path id => ∀ c ∈ path ++ [id], isIdentChars c.toList = true ∧ unreservedIdent c = true
  | _ => True

def PSound (p : P EOS) : Prop := ∀ ts x r, TokWF ts → p ts = some (x, r) → Img x ∧ TokWF r

theorem img_toExpr {x : EOS} {e : Expr} (hi : Img x) (h : x.toExpr = some e) : inFrag3 e = true := by
  cases x with
  | expr e' => simp only [EOS.toExpr, Option.some.injEq] at h; subst h; exact hi
  | var v => simp only [EOS.toExpr, Option.some.injEq] at h; subst h; rfl
  | name p i => simp [EOS.toExpr] at h
  | strLit raw =>
    simp only [EOS.toExpr] at h
    cases hs : strOfRaw raw with
    | none => simp [hs] at h
    | some s => simp [hs] at h; subst h; rfl
  | boolLit b => simp only [EOS.toExpr, Option.some.injEq] at h; subst h; rfl
  | num n =>
    simp only [EOS.toExpr] at h
    split at h
    · rename_i hn
      simp only [Option.some.injEq] at h; subst h
      simp only [inFrag3, decide_eq_true_eq, Int.ofNat_eq_natCast]
      omega
    · cases h

/-! ### records -/

theorem mem_insertKV {kv y : String × Expr} : ∀ {xs : List (String × Expr)}, y ∈ insertKV kv xs ↔ y = kv ∨ y ∈ xs
  | [] => by simp [insertKV]
  | x :: xs => by
    simp only [insertKV]
    split
    · simp
    · simp only [List.mem_cons, mem_insertKV (xs := xs)]
      constructor
      · rintro (h | h | h) <;> simp [h]
      · rintro (h | h | h) <;> simp [h]

theorem sortedKeys3_cons {k : String} {v : Expr} {xs : List (String × Expr)} (hs : sortedKeys3 xs = true)
    (hlt : ∀ y, xs.head? = some y → k < y.1) : sortedKeys3 ((k, v) :: xs) = true := by
  cases xs with
  | nil => rfl
  | cons y ys => obtain ⟨k2, v2⟩ := y; simp only [sortedKeys3, Bool.and_eq_true, decide_eq_true_eq]; exact ⟨hlt _ rfl, hs⟩

theorem sorted_insertKV {k : String} {v : Expr} : ∀ {xs : List (String × Expr)}, sortedKeys3 xs = true →
    (∀ y ∈ xs, y.1 ≠ k) → sortedKeys3 (insertKV (k, v) xs) = true
  | [], _, _ => rfl
  | (k2, v2) :: xs, hs, hne => by
    simp only [insertKV]
    split
    · rename_i hlt
      exact sortedKeys3_cons hs (by intro y hy; simp at hy; subst hy; exact hlt)
    · rename_i hnl
      have hlt : k2 < k := by
        apply Decidable.byContradiction
        intro hc
        exact hne (k2, v2) (by simp) (String.le_antisymm (String.not_lt.mp hnl) (String.not_lt.mp hc))
      have ih := sorted_insertKV (k := k) (v := v) (sortedKeys3_tail hs) (fun y hy => hne y (by simp [hy]))
      refine sortedKeys3_cons ih ?_
      intro y hy
      cases xs with
      | nil => simp [insertKV] at hy; subst hy; exact hlt
      | cons z zs =>
        obtain ⟨k3, v3⟩ := z
        simp only [sortedKeys3, Bool.and_eq_true, decide_eq_true_eq] at hs
        simp only [insertKV] at hy
        split at hy
        · simp at hy; subst hy; exact hlt
        · simp at hy; subst hy; exact hs.1

theorem inFrag3K_iff {kvs : List (String × Expr)} : inFrag3K kvs = true ↔ ∀ kv ∈ kvs, inFrag3 kv.2 = true := by
  induction kvs with
  | nil => simp [inFrag3K]
  | cons kv kvs ih => obtain ⟨k, v⟩ := kv; simp [inFrag3K, ih]

theorem inFrag3L_iff {es : List Expr} : inFrag3L es = true ↔ ∀ e ∈ es, inFrag3 e = true := by
  induction es with
  | nil => simp [inFrag3L]
  | cons e es ih => simp [inFrag3L, ih]

theorem foldr_insertKV_ok : ∀ {kvs : List (String × Expr)}, hasDupKey kvs = false →
    sortedKeys3 (kvs.foldr insertKV []) = true ∧ ∀ y, y ∈ kvs.foldr insertKV [] ↔ y ∈ kvs
  | [], _ => ⟨rfl, by simp⟩
  | (k, v) :: kvs, h => by
    simp only [hasDupKey, Bool.or_eq_false_iff] at h
    obtain ⟨ih1, ih2⟩ := foldr_insertKV_ok h.2
    have hk := h.1
    rw [List.any_eq_false] at hk
    refine ⟨?_, ?_⟩
    · rw [List.foldr_cons]
      exact sorted_insertKV ih1 (fun y hy hc => hk y ((ih2 y).mp hy) (by simp [hc]))
    · intro y
      rw [List.foldr_cons, mem_insertKV, ih2]
      simp

theorem mkRecord_sound {kvs : List (String × Expr)} {e : Expr} (hk : inFrag3K kvs = true) (h : mkRecord kvs = some e) :
    inFrag3 e = true := by
  unfold mkRecord at h
  split at h
  · cases h
  · rename_i hd
    simp only [Option.some.injEq] at h; subst h
    obtain ⟨h1, h2⟩ := foldr_insertKV_ok (by simpa using hd)
    simp only [inFrag3, Bool.and_eq_true]
    refine ⟨h1, inFrag3K_iff.mpr (fun kv hkv => inFrag3K_iff.mp hk kv ((h2 kv).mp hkv))⟩

/-! ### names -/

theorem typeNameOk_join (spec : SplitOnSpec) {comps : List String} (ne : comps ≠ [])
    (h : ∀ c ∈ comps, isIdentChars c.toList = true ∧ unreservedIdent c = true) : typeNameOk (joinName comps) = true := by
  unfold typeNameOk
  rw [spec comps ne (fun c hc => (h c hc).1)]
  simp only [Bool.and_eq_true, List.all_eq_true, beq_self_eq_true, and_true]
  exact h

theorem pathRest_sound : ∀ ts, TokWF ts → (∀ c ∈ (pathRest ts).1, isIdentChars c.toList = true) ∧ TokWF (pathRest ts).2 := by
  intro ts
  induction ts using pathRest.induct with
  | case1 s ts ih =>
    intro h
    have := ih h.tail.tail
    simp only [pathRest]
    refine ⟨?_, this.2⟩
    intro c hc
    simp only [List.mem_cons] at hc
    rcases hc with hc | hc
    · subst hc; exact h.tail.head
    · exact this.1 c hc
  | case2 ts hne =>
    intro h
    have : pathRest ts = ([], ts) := by
      unfold pathRest
      split
      · exact absurd rfl (hne _ _)
      · rfl
    rw [this]
    exact ⟨by simp, h⟩

/-! ### lists -/

theorem exprList_sound {pe : P EOS} (hpe : PSound pe) (close : Token) : ∀ f ts es r, TokWF ts →
    exprList pe close f ts = some (es, r) → inFrag3L es = true ∧ TokWF r := by
  intro f
  induction f with
  | zero => intro ts es r _ h; simp [exprList] at h
  | succ f ih =>
    intro ts es r hwf h
    cases ts with
    | nil => simp [exprList] at h
    | cons t ts =>
      rw [exprList] at h
      split at h
      · simp only [Option.some.injEq, Prod.mk.injEq] at h
        obtain ⟨rfl, rfl⟩ := h
        exact ⟨rfl, hwf.tail⟩
      · split at h
        · cases h
        · rename_i x rest hp
          obtain ⟨hx, hrest⟩ := hpe _ _ _ hwf hp
          split at h
          · cases h
          · rename_i e he
            have hfe := img_toExpr hx he
            split at h
            · rename_i rest'
              split at h
              · cases h
              · rename_i es' r' hrec
                simp only [Option.some.injEq, Prod.mk.injEq] at h
                obtain ⟨rfl, rfl⟩ := h
                obtain ⟨h1, h2⟩ := ih _ _ _ hrest.tail hrec
                exact ⟨by simp [inFrag3L, hfe, h1], h2⟩
            · split at h
              · simp only [Option.some.injEq, Prod.mk.injEq] at h
                obtain ⟨rfl, rfl⟩ := h
                exact ⟨by simp [inFrag3L, hfe], hrest.tail⟩
              · cases h
            · cases h


theorem recInits_sound {pe : P EOS} (hpe : PSound pe) : ∀ f ts kvs r, TokWF ts →
    recInits pe f ts = some (kvs, r) → inFrag3K kvs = true ∧ TokWF r := by
  intro f
  induction f with
  | zero => intro ts es r _ h; simp [recInits] at h
  | succ f ih =>
    intro ts kvs r hwf h
    cases ts with
    | nil => simp [recInits] at h
    | cons t ts =>
      simp only [recInits] at h
      split at h
      · simp only [Option.some.injEq, Prod.mk.injEq] at h
        obtain ⟨rfl, rfl⟩ := h
        exact ⟨rfl, hwf.tail⟩
      · split at h
        · cases h
        · rename_i k rest hkey
          have hwf0 : TokWF (Token.colon :: rest) := by
            split at hkey
            · cases hkey
            · split at hkey
              · cases hkey
              · rename_i x rest0 hp
                obtain ⟨_, hr0⟩ := hpe _ _ _ hwf hp
                cases hx : x.toAttr with
                | none => simp [hx] at hkey
                | some a =>
                  simp only [hx, Option.map_some, Option.some.injEq, Prod.mk.injEq] at hkey
                  rw [← hkey.2]; exact hr0
          split at h
          · cases h
          · rename_i x rest1 hp
            obtain ⟨hx, hrest1⟩ := hpe _ _ _ hwf0.tail hp
            split at h
            · cases h
            · rename_i e he
              have hfe := img_toExpr hx he
              split at h
              · rename_i rest'
                split at h
                · cases h
                · rename_i kvs' r' hrec
                  simp only [Option.some.injEq, Prod.mk.injEq] at h
                  obtain ⟨rfl, rfl⟩ := h
                  obtain ⟨h1, h2⟩ := ih _ _ _ hrest1.tail hrec
                  exact ⟨by simp [inFrag3K, hfe, h1], h2⟩
              · simp only [Option.some.injEq, Prod.mk.injEq] at h
                obtain ⟨rfl, rfl⟩ := h
                exact ⟨by simp [inFrag3K, hfe], hrest1.tail⟩
              · cases h
        · cases h

/-! ### `Primary` -/

theorem comps_ok {s : String} {cs : List String} (hs : isIdentChars s.toList = true)
    (hcs : ∀ c ∈ cs, isIdentChars c.toList = true) (hall : (s :: cs).all unreservedIdent = true) :
    ∀ c ∈ s :: cs, isIdentChars c.toList = true ∧ unreservedIdent c = true := by
  intro c hc
  simp only [List.all_eq_true] at hall
  refine ⟨?_, hall c hc⟩
  simp only [List.mem_cons] at hc
  rcases hc with hc | hc
  · subst hc; exact hs
  · exact hcs c hc

theorem primary_sound (spec : SplitOnSpec) {pe : P EOS} (hpe : PSound pe) : PSound (primary pe) := by
  intro ts x r hwf h
  cases ts with
  | nil => simp [primary] at h
  | cons t ts =>
    cases t
    case ident s =>
      obtain ⟨hp1, hp2⟩ := pathRest_sound ts hwf.tail
      simp only [primary] at h
      split at h
      · rename_i raw rest heq
        split at h
        · rename_i hall
          cases hs : strOfRaw raw with
          | none => simp [hs] at h
          | some eid =>
            simp only [hs, Option.map_some, Option.some.injEq, Prod.mk.injEq] at h
            obtain ⟨rfl, rfl⟩ := h
            rw [heq] at hp2
            refine ⟨?_, hp2.tail.tail⟩
            simp only [Img, inFrag3]
            exact typeNameOk_join spec (by simp) (comps_ok hwf.head hp1 hall)
        · cases h
      · cases h
      · rename_i rest hne1 hne2
        split at h
        · rename_i hnil
          have hname : unreservedIdent s = true → Img (.name [] s) := by
            intro hu c hc
            simp only [List.nil_append, List.mem_singleton] at hc
            subst hc
            exact ⟨hwf.head, hu⟩
          split at h
          · simp only [Option.some.injEq, Prod.mk.injEq] at h; obtain ⟨rfl, rfl⟩ := h; exact ⟨trivial, hp2⟩
          · split at h
            · simp only [Option.some.injEq, Prod.mk.injEq] at h; obtain ⟨rfl, rfl⟩ := h; exact ⟨trivial, hp2⟩
            · split at h
              · simp only [Option.some.injEq, Prod.mk.injEq] at h; obtain ⟨rfl, rfl⟩ := h; exact ⟨trivial, hp2⟩
              · split at h
                · rename_i hu
                  simp only [Option.some.injEq, Prod.mk.injEq] at h; obtain ⟨rfl, rfl⟩ := h; exact ⟨hname hu, hp2⟩
                · cases h
        · split at h
          · rename_i hall
            simp only [Option.some.injEq, Prod.mk.injEq] at h
            obtain ⟨rfl, rfl⟩ := h
            refine ⟨?_, hp2⟩
            simp only [Img]
            rw [dropLast_getLast s (s :: (pathRest ts).1) (by simp)]
            exact comps_ok hwf.head hp1 hall
          · cases h
    case num n =>
      simp only [primary] at h
      split at h
      · simp only [Option.some.injEq, Prod.mk.injEq] at h; obtain ⟨rfl, rfl⟩ := h; exact ⟨trivial, hwf.tail⟩
      · cases h
    case str raw =>
      simp only [primary, Option.some.injEq, Prod.mk.injEq] at h; obtain ⟨rfl, rfl⟩ := h; exact ⟨trivial, hwf.tail⟩
    case slot s =>
      simp only [primary] at h
      split at h
      · simp only [Option.some.injEq, Prod.mk.injEq] at h; obtain ⟨rfl, rfl⟩ := h; exact ⟨rfl, hwf.tail⟩
      · split at h
        · simp only [Option.some.injEq, Prod.mk.injEq] at h; obtain ⟨rfl, rfl⟩ := h; exact ⟨rfl, hwf.tail⟩
        · cases h
    case lparen =>
      simp only [primary] at h
      split at h
      · rename_i y rest hp
        obtain ⟨hy, hr⟩ := hpe _ _ _ hwf.tail hp
        cases hy' : y.toExpr with
        | none => simp [hy'] at h
        | some e =>
          simp only [hy', Option.map_some, Option.some.injEq, Prod.mk.injEq] at h
          obtain ⟨rfl, rfl⟩ := h
          exact ⟨img_toExpr hy hy', hr.tail⟩
      · cases h
    case lbrack =>
      simp only [primary] at h
      split at h
      · rename_i es rest hl
        simp only [Option.some.injEq, Prod.mk.injEq] at h
        obtain ⟨rfl, rfl⟩ := h
        obtain ⟨h1, h2⟩ := exprList_sound hpe _ _ _ _ _ hwf.tail hl
        exact ⟨by simpa [Img, inFrag3] using h1, h2⟩
      · cases h
    case lbrace =>
      simp only [primary] at h
      split at h
      · rename_i kvs rest hl
        obtain ⟨h1, h2⟩ := recInits_sound hpe _ _ _ _ hwf.tail hl
        cases hm : mkRecord kvs with
        | none => simp [hm] at h
        | some e =>
          simp only [hm, Option.map_some, Option.some.injEq, Prod.mk.injEq] at h
          obtain ⟨rfl, rfl⟩ := h
          exact ⟨mkRecord_sound h1 hm, h2⟩
      · cases h
    all_goals (simp [primary] at h)

end Cedar.Syntax
